(* EncodeTotal: C01, layer 4 -- `Beatmap::encode` on maps that came out of the
   decoder (Model/Encode.v, with the curve and slider-event models of
   Model/DrvEnc.v as its parameters).

   1. The encoder model step by step ([encode_avoids]).  On a map with the
      shape of a decoded map (Proofs/DecodedObjects.v) the only steps that can
      fail -- panic or run out of fuel -- are the two calls of
      SliderEventsIter::new(..).collect() in collect_samples (osu! and catch
      maps only).  Everything else returns: the lookups behind binary
      searches, ControlPoints::add on the cloned collection, the
      `0..=span_count as usize` loops, add_path_data's indexing, the curve
      (which already returned a value for the very same arguments during
      decoding).
   2. Panic: SliderEventsIter::new panics exactly when the curve distance is
      negative (C20 / finding D18).  The distance of a decoded slider is 0, the
      requested length, or the natural length; it is not negative unless the
      osu!-mode Catmull surplus is (Proofs/CurveDistNonneg.v).
   3. Fuel: the only loop without a structural bound is the tick loop of the
      slider events; its length is bounded once the tick distance is bounded
      below.
   4. Writer: an `Err` needs a failing writer event or a failing flush. *)
From RM Require Import Model.Encode Model.CurveDist.
From RM Require Model.DrvEnc Model.Curve Model.SliderEvents.
From RM Require Import Proofs.ControlPointsFacts Proofs.MapLevelFacts Proofs.DecodersTotal
     Proofs.DecodeNoPanic Proofs.FloatNonneg Proofs.CurveDistNonneg Proofs.DecodedObjects.
From RM Require Import Gen.Generated.
From Coq Require Import ZifyBool Permutation.
Open Scope Z_scope.

(* ================================================================== *)
(* outcomes that avoid a failure class                                  *)
(* ================================================================== *)

Inductive bad := BPanic | BFuel.

Definition avoids {A} (b : bad) (o : outcome A) : Prop :=
  match o, b with
  | Panic _, BPanic => False
  | OutOfFuel, BFuel => False
  | _, _ => True
  end.

Lemma avoids_done {A} b (a : A) : avoids b (Done a).
Proof. destruct b; exact I. Qed.

Lemma avoids_obind {A C} b (o : outcome A) (g : A -> outcome C) :
  avoids b o -> (forall a, o = Done a -> avoids b (g a)) -> avoids b (obind o g).
Proof. destruct o as [a|w|]; cbn [obind]; intros Ho Hg; [exact (Hg a eq_refl)|exact Ho|exact Ho]. Qed.

Lemma done_avoids {A} b (o : outcome A) : (exists a, o = Done a) -> avoids b o.
Proof. intros (a & ->). apply avoids_done. Qed.

Lemma avoids_both {A} (o : outcome A) : avoids BPanic o -> avoids BFuel o -> exists a, o = Done a.
Proof. destruct o as [a|w|]; cbn; intros H1 H2; [eauto|contradiction|contradiction]. Qed.

Lemma avoids_panic_iff {A} (o : outcome A) : avoids BPanic o <-> forall w, o <> Panic w.
Proof.
  destruct o as [a|w|]; cbn; split; intros H; try exact I; try discriminate.
  - contradiction.
  - exact (H w eq_refl).
Qed.

Lemma avoids_fuel_iff {A} (o : outcome A) : avoids BFuel o <-> o <> OutOfFuel.
Proof.
  destruct o as [a|w|]; cbn; split; intros H; try exact I; try discriminate.
  - contradiction.
  - exact (H eq_refl).
Qed.

(* ================================================================== *)
(* 1. the encoder, step by step                                        *)
(* ================================================================== *)

Section Walk.
  Variable dist_of : Z -> list PCP -> option F64 -> outcome F64.
  Variable events_of : F64 -> F64 -> F64 -> F64 -> F64 -> Z -> outcome (list EncEvent).

  Notation fin := (obj_fin dist_of).

  (* ---------- [HitObjects] ---------- *)

  Lemma span_iters_done s : 0 <= sl_repeat_count s -> exists n, span_iters s = Done n.
  Proof.
    intros H. unfold span_iters. replace (sl_repeat_count s + 1 <? 0) with false by lia. eauto.
  Qed.

  Lemma slider_toks_done s pos mode : slider_img s -> slider_dist_done dist_of s ->
    exists l, slider_toks dist_of s pos mode = Done l.
  Proof.
    intros ((Hr & _) & _ & _) (d & Hd). unfold slider_toks, slider_curve_dist.
    destruct (span_iters_done s Hr) as (n & ->).
    destruct (sl_expected_dist s) as [e|] eqn:Ee; cbn [obind]; [eauto|].
    rewrite Hd. cbn [obind]. eauto.
  Qed.

  Lemma object_line_done mode h : fin h -> exists l, object_line dist_of mode h = Done l.
  Proof.
    unfold obj_fin, object_line, object_pos. intros H.
    destruct (h_kind h) as [c|s|sp|hd]; cbn [obind]; try (eexists; reflexivity).
    destruct H as (Hi & Hd). destruct (slider_toks_done s (sl_pos s) mode Hi Hd) as (l & ->).
    cbn [obind]. eauto.
  Qed.

  Lemma object_lines_done mode l : Forall fin l -> exists ls, object_lines dist_of mode l = Done ls.
  Proof.
    induction l as [|h r IH]; intros H; cbn [object_lines]; [eauto|].
    inversion H as [|? ? Hh Hr]; subst.
    destruct (object_line_done mode h Hh) as (x & ->). cbn [obind].
    destruct (IH Hr) as (xs & ->). cbn [obind]. eauto.
  Qed.

  Lemma enc_hit_objects_done mode l : Forall fin l -> exists ls, enc_hit_objects dist_of mode l = Done ls.
  Proof.
    intros H. unfold enc_hit_objects. destruct (object_lines_done mode l H) as (ls & ->).
    cbn [obind]. eauto.
  Qed.

  (* add_path_data: `control_points[i - 1]`, `control_points[i - 2]` are read for
     i > 1 only, inside `for i in 0..control_points.len()`: in bounds.  The model
     walks [rest = all[i..]]; its fall-back arm for a failed lookup is dead. *)
  Lemma path_index_in_bounds (all pre rest : list PCP) (p : PCP) (i : nat) :
    all = pre ++ p :: rest -> length pre = i -> (1 < i)%nat ->
    exists a b, nth_error all (i - 1) = Some a /\ nth_error all (i - 2) = Some b.
  Proof.
    intros -> Hl Hi.
    destruct (nth_error (pre ++ p :: rest) (i - 1)) as [a|] eqn:Ea.
    - destruct (nth_error (pre ++ p :: rest) (i - 2)) as [b|] eqn:Eb; [eauto|].
      apply nth_error_None in Eb. rewrite app_length in Eb. cbn [length] in Eb. lia.
    - apply nth_error_None in Ea. rewrite app_length in Ea. cbn [length] in Ea. lia.
  Qed.


  (* ---------- collect_samples ---------- *)

  Lemma end_time_done h : fin h -> exists t, end_time dist_of h = Done t.
  Proof.
    unfold obj_fin, end_time. intros H.
    destruct (h_kind h) as [c|s|sp|hd]; try (eexists; reflexivity).
    destruct H as (_ & d & Hd). unfold enc_slider_duration, slider_curve_dist. rewrite Hd.
    cbn [obind]. eauto.
  Qed.

  Section Objects.
    Variables (b : bad) (mode version : Z) (tick_rate slider_mult : F64) (c0 : ControlPoints).

    (* the two places where SliderEventsIter::new(..).collect() is called *)
    Definition events_avoid (h : HitObject) : Prop :=
      match h_kind h with
      | KSlider s =>
          (mode = 0 -> avoids b (slider_events dist_of events_of (h_start h) s version tick_rate c0)) /\
          (mode = 2 -> avoids b (juicestream_events dist_of events_of (h_start h) s version tick_rate
                                                    slider_mult c0))
      | _ => True
      end.

    Lemma object_samples_avoids h : fin h -> events_avoid h ->
      avoids b (object_samples dist_of events_of mode version tick_rate slider_mult c0 h).
    Proof.
      intros Hf He. unfold object_samples.
      destruct (end_time_done h Hf) as (t & ->). cbn [obind].
      unfold events_avoid in He.
      destruct (h_kind h) as [c|s|sp|hd]; try apply avoids_done.
      destruct He as (H0 & H2).
      destruct (mode =? 0) eqn:E0.
      { apply avoids_obind; [apply H0; lia|]. intros; apply avoids_done. }
      destruct (mode =? 1); [apply avoids_done|].
      destruct (mode =? 2) eqn:E2; [|apply avoids_done].
      apply avoids_obind; [apply H2; lia|]. intros; apply avoids_done.
    Qed.

    Lemma all_object_samples_avoids l : Forall fin l -> Forall events_avoid l ->
      avoids b (all_object_samples dist_of events_of mode version tick_rate slider_mult c0 l).
    Proof.
      induction l as [|h r IH]; intros Hf He; cbn [all_object_samples]; [apply avoids_done|].
      inversion Hf as [|? ? Hf1 Hf2]; subst. inversion He as [|? ? He1 He2]; subst.
      apply avoids_obind; [apply object_samples_avoids; assumption|]. intros x _.
      apply avoids_obind; [apply IH; assumption|]. intros; apply avoids_done.
    Qed.
  End Objects.

  (* ControlPoints::add(sample) on a sorted collection *)
  Lemma add_sample_sorted c p : cp_sorted c -> exists c', add_sample c p = Done c' /\ cp_sorted c'.
  Proof. exact (cp_step_sorted c (OpAddS p)). Qed.

  Lemma add_collected_sorted l : forall c last, cp_sorted c ->
    exists c', add_collected c last l = Done c' /\ cp_sorted c'.
  Proof.
    induction l as [|s r IH]; intros c last Hc; cbn [add_collected]; [eauto|].
    destruct (sp_redundant s last); [apply IH; exact Hc|].
    destruct (add_sample_sorted c s Hc) as (c' & -> & Hc'). cbn [obind]. apply IH. exact Hc'.
  Qed.

  Lemma collect_samples_avoids b mode version tick_rate slider_mult c0 objs :
    cp_sorted c0 -> Forall fin objs ->
    Forall (events_avoid b mode version tick_rate slider_mult c0) objs ->
    avoids b (collect_samples dist_of events_of mode version tick_rate slider_mult c0 objs) /\
    (forall c, collect_samples dist_of events_of mode version tick_rate slider_mult c0 objs = Done c ->
               cp_sorted c).
  Proof.
    intros Hc Hf He. unfold collect_samples.
    pose proof (all_object_samples_avoids b mode version tick_rate slider_mult c0 objs Hf He) as Ha.
    destruct (all_object_samples dist_of events_of mode version tick_rate slider_mult c0 objs)
      as [collected|w|]; cbn [obind]; [|split; [exact Ha|discriminate] ..].
    destruct (ssort sp_key collected) as [|s r].
    - split; [apply avoids_done|]. intros c [= <-]. exact Hc.
    - destruct (add_sample_sorted c0 s Hc) as (c1 & -> & Hc1). cbn [obind].
      destruct (add_collected_sorted r c1 s Hc1) as (c2 & -> & Hc2).
      split; [apply avoids_done|]. intros c [= <-]. exact Hc2.
  Qed.

  (* ---------- [TimingPoints] ---------- *)

  Lemma props_new_done t c last ub : cp_sorted c -> exists p, props_new t c last ub = Done p.
  Proof.
    intros (_ & Hd & He & _). unfold props_new, difficulty_point_at, effect_point_at.
    rewrite (at_opt_spec dp_time _ _ Hd). cbn [obind].
    rewrite (at_opt_spec ep_time _ _ He). cbn [obind]. eauto.
  Qed.

  Lemma group_lines_done c gs : cp_sorted c -> forall last, exists ls, group_lines c last gs = Done ls.
  Proof.
    intros Hc. induction gs as [|g r IH]; intros last; cbn [group_lines]; [eauto|].
    destruct (props_new_done (gr_time g) c last
                (match gr_timing g with Some _ => true | None => false end) Hc) as (props & ->).
    cbn [obind].
    destruct (gr_timing g) as [t|].
    - destruct (props_redundant props _).
      + destruct (IH (mkProps D.one (pr_sig props) (pr_bank props) (pr_custom props) (pr_vol props)
                              (pr_flags props))) as (ls & ->). cbn [obind]. eauto.
      + destruct (IH props) as (ls & ->). cbn [obind]. eauto.
    - destruct (props_redundant props last).
      + destruct (IH last) as (ls & ->). cbn [obind]. eauto.
      + destruct (IH props) as (ls & ->). cbn [obind]. eauto.
  Qed.

  (* ---------- Beatmap::encode ---------- *)

  Definition map_events_avoid (b : bad) (m : BeatmapV) : Prop :=
    let ho := bmv_ho m in
    Forall (events_avoid b (g_mode (hov_general ho)) (bmv_version m)
                         (d_slider_tick_rate (hov_difficulty ho)) (d_slider_multiplier (hov_difficulty ho))
                         (hov_control_points ho))
           (hov_hit_objects ho).

  Definition map_shape (m : BeatmapV) : Prop :=
    cp_sorted (hov_control_points (bmv_ho m)) /\ Forall fin (hov_hit_objects (bmv_ho m)).

  Theorem enc_timing_points_avoids b m : map_shape m -> map_events_avoid b m ->
    avoids b (enc_timing_points dist_of events_of m).
  Proof.
    intros (Hc & Hf) He. unfold enc_timing_points.
    destruct (collect_samples_avoids b _ _ _ _ _ _ Hc Hf He) as (Ha & Hs).
    apply avoids_obind; [exact Ha|]. intros c Ec.
    destruct (group_lines_done c (groups_of c) (Hs c Ec) props_default) as (ls & ->).
    cbn [obind]. apply avoids_done.
  Qed.

  Theorem encode_avoids b m : map_shape m -> map_events_avoid b m ->
    avoids b (encode_tokens dist_of events_of m).
  Proof.
    intros Hm He. unfold encode_tokens, encode_lines.
    apply avoids_obind; [|intros; apply avoids_done].
    apply avoids_obind; [exact (enc_timing_points_avoids b m Hm He)|]. intros tp _.
    destruct (enc_hit_objects_done (g_mode (hov_general (bmv_ho m))) _ (proj2 Hm)) as (ls & ->).
    cbn [obind]. apply avoids_done.
  Qed.

  (* with both classes avoided the encoder returns its token stream *)
  Corollary encode_done m : map_shape m -> map_events_avoid BPanic m -> map_events_avoid BFuel m ->
    exists toks, encode_tokens dist_of events_of m = Done toks.
  Proof.
    intros Hm H1 H2. apply avoids_both; apply encode_avoids; assumption.
  Qed.

  (* the arguments SliderEventsIter::new receives for a slider of a map with
     the decoded shape: the curve distance itself, and the span count >= 1 *)
  Lemma slider_events_args b start s version tick_rate c d :
    cp_sorted c -> 0 <= sl_repeat_count s ->
    dist_of (sl_mode s) (sl_control_points s) (sl_expected_dist s) = Done d ->
    (forall dur vel td, avoids b (events_of start dur vel td d (sl_repeat_count s + 1))) ->
    avoids b (slider_events dist_of events_of start s version tick_rate c).
  Proof.
    intros (_ & Hd & _) Hr Ed Hev. unfold slider_events, difficulty_point_at.
    rewrite (at_opt_spec dp_time _ _ Hd). cbn [obind].
    destruct (match last_not_after dp_time (cp_difficulty c) start with
              | Some p => (dp_sv p, dp_ticks p) | None => (D.one, true) end) as [sv gt].
    unfold enc_slider_duration, slider_curve_dist. rewrite Ed. cbn [obind]. apply Hev.
  Qed.

  Lemma juicestream_events_args b start s version tick_rate slider_mult c d :
    cp_sorted c -> 0 <= sl_repeat_count s ->
    dist_of (sl_mode s) (sl_control_points s) (sl_expected_dist s) = Done d ->
    (forall dur vel td, avoids b (events_of start dur vel td d (sl_repeat_count s + 1))) ->
    avoids b (juicestream_events dist_of events_of start s version tick_rate slider_mult c).
  Proof.
    intros (_ & Hd & _) Hr Ed Hev. unfold juicestream_events, difficulty_point_at.
    rewrite (at_opt_spec dp_time _ _ Hd). cbn [obind].
    unfold enc_slider_duration, slider_curve_dist. rewrite Ed. cbn [obind]. apply Hev.
  Qed.
End Walk.

(* ================================================================== *)
(* 2. the real parameters: panic                                       *)
(* ================================================================== *)

From RM Require Import Proofs.SliderEventsFacts Proofs.SliderEventsIEEE.

(* SliderEventsIter::new(..).collect() with explicit fuel (number of events
   pulled / iterations of Iterator::next's loop, and tick-loop iterations);
   Model/DrvEnc.v uses 10^6 for both *)
Definition events_with (chk : bool) (fuel tf : nat) (start dur vel td total : F64) (n : Z) : outcome (list EncEvent) :=
  obind (SliderEvents.run SliderEvents.ops64 chk fuel tf (SliderEvents.mkP start dur vel td total n) [])
        (fun l => Done (map (fun e => mkEncEv (DrvEnc.kind_idx (SliderEvents.ev_kind e)) (SliderEvents.ev_span e)
                                              (SliderEvents.ev_time e)) l)).

Lemma events_real_is : DrvEnc.events_real = events_with false DrvEnc.ev_fuel DrvEnc.ev_fuel.
Proof. reflexivity. Qed.

(* SliderEventsIter::new(..).collect() panics only inside new(), and there
   exactly when total_dist < 0 (C20_new_panics_iff, C20_no_panic_after_new) *)
Lemma events_with_panic chk fuel tf start dur vel td total n w :
  0 <= n <= i32_max ->
  events_with chk fuel tf start dur vel td total n = Panic w -> D.lt total D.zero = true.
Proof.
  intros Hn. unfold events_with.
  destruct (SliderEvents.run SliderEvents.ops64 chk fuel tf
              (SliderEvents.mkP start dur vel td total n) []) as [l|w'|] eqn:E; cbn [obind]; try discriminate.
  intros _.
  pose proof (run_no_panic SliderEvents.ops64 chk tf fuel
                (SliderEvents.mkP start dur vel td total n) [] w' Hn E) as Hnew.
  pose proof (iter_new_panics_iff (SliderEvents.mkP start dur vel td total n) []) as C.
  cbn [SliderEvents.p_total] in C.
  destruct (D.lt total D.zero); [reflexivity|]. destruct C as (x & C). congruence.
Qed.

Lemma events_with_avoids_panic chk fuel tf start dur vel td total n :
  0 <= n <= i32_max -> nn64 total = true ->
  avoids BPanic (events_with chk fuel tf start dur vel td total n).
Proof.
  intros Hn Ht. apply avoids_panic_iff. intros w E.
  pose proof (events_with_panic _ _ _ _ _ _ _ _ _ _ Hn E) as H. rewrite nn64_lt_zero, Ht in H. discriminate.
Qed.

(* the decidable class outside of which the encoder cannot panic: the map is
   an osu! or catch map and some slider's curve distance is negative *)
Definition neg_dist_slider (lm : Curve.Libm) (h : HitObject) : bool :=
  match h_kind h with
  | KSlider s =>
      match dist_of_curve lm (sl_mode s) (sl_control_points s) (sl_expected_dist s) with
      | Done d => D.lt d D.zero
      | _ => false
      end
  | _ => false
  end.

Definition neg_dist_class (lm : Curve.Libm) (m : BeatmapV) : bool :=
  ((g_mode (hov_general (bmv_ho m)) =? 0) || (g_mode (hov_general (bmv_ho m)) =? 2)) &&
  existsb (neg_dist_slider lm) (hov_hit_objects (bmv_ho m)).

Lemma repeat_cap_i32 : repeat_cap + 1 <= i32_max.
Proof. vm_compute. discriminate. Qed.

Section Real.
  Variable lm : Curve.Libm.
  Variable chk : bool.
  Variables fuel tf : nat.
  Notation dreal := (DrvEnc.dist_real lm).
  Notation ereal := (events_with chk fuel tf).

  Lemma fin_real h : obj_fin (dist_of_curve lm) h -> obj_fin dreal h.
  Proof.
    unfold obj_fin, slider_dist_done. destruct (h_kind h) as [ci|s|sp|hd]; try (intros; exact I).
    intros (Hi & d & Hd). split; [exact Hi|]. exists d. rewrite dist_real_eq. exact Hd.
  Qed.

  Lemma decoded_shape lines bv :
    decode_beatmap (dist_of_curve lm) lines = Done bv -> map_shape dreal bv.
  Proof.
    intros H. destruct (decoded_objects _ _ _ H) as (Hc & Hf). split; [exact Hc|].
    eapply Forall_impl; [|exact Hf]. exact fin_real.
  Qed.

  (* one slider: both event calls avoid a panic when its distance is not negative *)
  Lemma slider_events_avoid_panic mode version tick_rate slider_mult c h :
    cp_sorted c -> obj_fin dreal h -> neg_dist_slider lm h = false ->
    events_avoid dreal ereal BPanic mode version tick_rate slider_mult c h.
  Proof.
    unfold obj_fin, events_avoid, neg_dist_slider. intros Hc Hf Hn.
    destruct (h_kind h) as [ci|s|sp|hd]; try exact I.
    destruct Hf as (((Hr0 & Hr1) & _ & _) & d & Hd).
    rewrite <- dist_real_eq, Hd in Hn.
    assert (Hnn : nn64 d = true) by (rewrite nn64_lt_zero in Hn; destruct (nn64 d); [reflexivity|discriminate]).
    assert (Hrange : 0 <= sl_repeat_count s + 1 <= i32_max) by (pose proof repeat_cap_i32; lia).
    split; intros _.
    - apply (slider_events_args dreal ereal BPanic _ _ _ _ _ d Hc Hr0 Hd).
      intros dur vel td. apply events_with_avoids_panic; assumption.
    - apply (juicestream_events_args dreal ereal BPanic _ _ _ _ _ _ d Hc Hr0 Hd).
      intros dur vel td. apply events_with_avoids_panic; assumption.
  Qed.

  Lemma events_avoid_other_modes b mode version tick_rate slider_mult c h :
    mode <> 0 -> mode <> 2 ->
    events_avoid dreal ereal b mode version tick_rate slider_mult c h.
  Proof. intros H0 H2. unfold events_avoid. destruct (h_kind h); try exact I. split; intros E; contradiction. Qed.

  Theorem map_avoids_panic m : map_shape dreal m -> neg_dist_class lm m = false ->
    map_events_avoid dreal ereal BPanic m.
  Proof.
    intros (Hc & Hf) Hn. unfold map_events_avoid, neg_dist_class in *.
    set (mode := g_mode (hov_general (bmv_ho m))) in *.
    destruct ((mode =? 0) || (mode =? 2)) eqn:Em; cbn [andb] in Hn.
    - apply Forall_forall. intros h Hin. rewrite Forall_forall in Hf.
      apply slider_events_avoid_panic; [exact Hc|exact (Hf h Hin)|].
      destruct (neg_dist_slider lm h) eqn:E; [|reflexivity].
      assert (existsb (neg_dist_slider lm) (hov_hit_objects (bmv_ho m)) = true)
        by (apply existsb_exists; exists h; split; assumption).
      congruence.
    - apply Forall_forall. intros h _. apply events_avoid_other_modes; lia.
  Qed.

  (* THE ENCODER NEVER PANICS ON A DECODED MAP outside [neg_dist_class] *)
  Theorem encode_no_panic_outside lines bv w :
    decode_beatmap (dist_of_curve lm) lines = Done bv -> neg_dist_class lm bv = false ->
    encode_tokens dreal ereal bv <> Panic w.
  Proof.
    intros H Hn. pose proof (decoded_shape lines bv H) as Hm.
    apply avoids_panic_iff. apply encode_avoids; [exact Hm|].
    exact (map_avoids_panic bv Hm Hn).
  Qed.

  (* ... and a panic, if there is one, is the D18 panic of some slider *)
  Corollary encode_panic_is_D18 lines bv w :
    decode_beatmap (dist_of_curve lm) lines = Done bv ->
    encode_tokens dreal ereal bv = Panic w ->
    (g_mode (hov_general (bmv_ho bv)) = 0 \/ g_mode (hov_general (bmv_ho bv)) = 2) /\
    exists h s d, In h (hov_hit_objects (bmv_ho bv)) /\ h_kind h = KSlider s /\
      dist_of_curve lm (sl_mode s) (sl_control_points s) (sl_expected_dist s) = Done d /\
      D.lt d D.zero = true.
  Proof.
    intros H E. destruct (neg_dist_class lm bv) eqn:C.
    - unfold neg_dist_class in C. apply andb_true_iff in C. destruct C as (Cm & Ce).
      split; [lia|]. apply existsb_exists in Ce. destruct Ce as (h & Hin & Hh).
      unfold neg_dist_slider in Hh. destruct (h_kind h) as [ci|s|sp|hd] eqn:Ek; try discriminate.
      destruct (dist_of_curve lm (sl_mode s) (sl_control_points s) (sl_expected_dist s)) as [d| |] eqn:Ed;
        try discriminate.
      exists h, s, d. repeat split; assumption.
    - exfalso. exact (encode_no_panic_outside lines bv w H C E).
  Qed.

  (* ---------- where the class is provably empty ---------- *)

  (* the osu!-mode Catmull surplus of the slider's path is not negative ... *)
  Definition slider_surplus_nn (s : Slider) : Prop :=
    surplus_nn lm Curve.bezier_fuel (sl_mode s) (map CurveDist.conv_pcp (sl_control_points s)).
  (* ... or it is finite and outweighed by a single segment of the path *)
  Definition slider_surplus_ok (s : Slider) : Prop :=
    surplus_outweighed lm Curve.bezier_fuel (sl_mode s) (map CurveDist.conv_pcp (sl_control_points s)).

  Lemma slider_surplus_nn_ok s : slider_surplus_nn s -> slider_surplus_ok s.
  Proof. apply surplus_nn_outweighed. Qed.

  Lemma slider_dist_nn s d : slider_img s -> slider_surplus_ok s ->
    dist_of_curve lm (sl_mode s) (sl_control_points s) (sl_expected_dist s) = Done d -> nn64 d = true.
  Proof.
    intros (_ & He & _) Hs. unfold dist_of_curve, curve_of.
    destruct (Curve.curve_L1 lm Curve.bezier_fuel (sl_mode s) (map CurveDist.conv_pcp (sl_control_points s))
                (sl_expected_dist s)) as [c| |] eqn:Ec; cbn [obind]; try discriminate.
    intros [= <-]. exact (curve_dist_nn_outweighed lm _ _ _ _ c He Hs Ec).
  Qed.

  (* syntactic: not (osu! mode and a Catmull control point) *)
  Definition has_catmull_pcp (cps : list PCP) : bool :=
    existsb (fun p => match cp_type p with Some t => pt_kind t =? sk_catmull | None => false end) cps.
  Definition osu_catmull (s : Slider) : bool := (sl_mode s =? 0) && has_catmull_pcp (sl_control_points s).

  Lemma has_catmull_conv cps : has_catmull (map CurveDist.conv_pcp cps) = has_catmull_pcp cps.
  Proof.
    unfold has_catmull, has_catmull_pcp. induction cps as [|p r IH]; [reflexivity|].
    cbn [map existsb]. rewrite IH. f_equal.
    unfold CurveDist.conv_pcp. cbn [Curve.pc_type]. destruct (cp_type p) as [t|]; [|reflexivity].
    unfold CurveDist.conv_kind, sk_catmull.
    destruct (pt_kind t =? 0); [reflexivity|].
    destruct (pt_kind t =? 1); [reflexivity|]. destruct (pt_kind t =? 2); reflexivity.
  Qed.

  Lemma not_osu_catmull_surplus s : osu_catmull s = false -> slider_surplus_ok s.
  Proof.
    intros H. apply slider_surplus_nn_ok. apply surplus_nn_outside. rewrite has_catmull_conv. exact H.
  Qed.

  Definition obj_surplus_ok (h : HitObject) : Prop :=
    match h_kind h with KSlider s => slider_surplus_ok s | _ => True end.

  Lemma surplus_class_empty m : map_shape dreal m ->
    Forall obj_surplus_ok (hov_hit_objects (bmv_ho m)) -> neg_dist_class lm m = false.
  Proof.
    intros (_ & Hf) Hs. unfold neg_dist_class.
    replace (existsb (neg_dist_slider lm) (hov_hit_objects (bmv_ho m))) with false; [apply andb_false_r|].
    symmetry. apply not_true_is_false. intros E. apply existsb_exists in E. destruct E as (h & Hin & Hh).
    rewrite Forall_forall in Hf, Hs. specialize (Hf h Hin). specialize (Hs h Hin).
    unfold neg_dist_slider, obj_fin, obj_surplus_ok in *.
    destruct (h_kind h) as [ci|s|sp|hd]; try discriminate.
    destruct Hf as (Hi & _).
    destruct (dist_of_curve lm (sl_mode s) (sl_control_points s) (sl_expected_dist s)) as [d| |] eqn:Ed;
      try discriminate.
    rewrite nn64_lt_zero, (slider_dist_nn s d Hi Hs Ed) in Hh. discriminate.
  Qed.

  Theorem encode_no_panic_surplus lines bv w :
    decode_beatmap (dist_of_curve lm) lines = Done bv ->
    Forall obj_surplus_ok (hov_hit_objects (bmv_ho bv)) ->
    encode_tokens dreal ereal bv <> Panic w.
  Proof.
    intros H Hs. apply (encode_no_panic_outside lines bv w H).
    exact (surplus_class_empty bv (decoded_shape lines bv H) Hs).
  Qed.

  Definition obj_osu_catmull (h : HitObject) : bool :=
    match h_kind h with KSlider s => osu_catmull s | _ => false end.

  (* no panic at all: taiko / mania maps (no slider events), and maps without
     an osu!-mode Catmull slider *)
  Theorem encode_no_panic_no_catmull lines bv w :
    decode_beatmap (dist_of_curve lm) lines = Done bv ->
    (g_mode (hov_general (bmv_ho bv)) <> 0 /\ g_mode (hov_general (bmv_ho bv)) <> 2) \/
    existsb obj_osu_catmull (hov_hit_objects (bmv_ho bv)) = false ->
    encode_tokens dreal ereal bv <> Panic w.
  Proof.
    intros H [(H0 & H2)|Hc].
    - apply (encode_no_panic_outside lines bv w H). unfold neg_dist_class.
      replace (g_mode (hov_general (bmv_ho bv)) =? 0) with false by lia.
      replace (g_mode (hov_general (bmv_ho bv)) =? 2) with false by lia. reflexivity.
    - apply (encode_no_panic_surplus lines bv w H).
      apply Forall_forall. intros h Hin. unfold obj_surplus_ok.
      destruct (h_kind h) as [ci|s|sp|hd] eqn:Ek; try exact I.
      apply not_osu_catmull_surplus.
      destruct (osu_catmull s) eqn:E; [|reflexivity].
      assert (existsb obj_osu_catmull (hov_hit_objects (bmv_ho bv)) = true).
      { apply existsb_exists. exists h. split; [exact Hin|]. unfold obj_osu_catmull. rewrite Ek. exact E. }
      congruence.
  Qed.
End Real.

(* ================================================================== *)
(* 3. the real parameters: fuel                                        *)
(* ================================================================== *)

From RM Require Import Proofs.TickBound.
From Flocq Require Import Core BinarySingleNaN.
From Coq Require Import Reals Lra.
Open Scope Z_scope.

(* when SliderEventsIter::new(..).collect() runs out of fuel: the tick loop of
   a span exhausted [tf], or the stream has at least [fuel] events *)
Theorem events_with_fuel_cases chk fuel tf start dur vel td total n :
  0 <= n <= i32_max ->
  events_with chk fuel tf start dur vel td total n = OutOfFuel ->
  let p := SliderEvents.mkP start dur vel td total n in
  SliderEvents.events_spec SliderEvents.ops64 tf p = OutOfFuel \/
  exists evs, SliderEvents.events_spec SliderEvents.ops64 tf p = Done evs /\ (fuel <= length evs)%nat.
Proof.
  intros Hn H p. unfold events_with in H. fold p in H.
  destruct (SliderEvents.run SliderEvents.ops64 chk fuel tf p []) as [l|w|] eqn:E; cbn [obind] in H;
    try discriminate.
  destruct (SliderEvents.events_spec SliderEvents.ops64 tf p) as [evs|w|] eqn:Es.
  - right. exists evs. split; [reflexivity|].
    destruct (Nat.ltb (length evs) fuel) eqn:El; [|apply Nat.ltb_ge in El; exact El].
    apply Nat.ltb_lt in El. exfalso.
    rewrite (run_eq_spec SliderEvents.ops64 chk tf fuel p [] Hn) in E; [congruence|].
    intros evs' Ee. rewrite Es in Ee. inversion Ee; subst. exact El.
  - exfalso. rewrite (run_eq_spec SliderEvents.ops64 chk tf fuel p [] Hn) in E; [congruence|].
    intros evs' Ee. rewrite Es in Ee. discriminate.
  - left. reflexivity.
Qed.

(* enough fuel, explicitly: with a clamped tick distance >= 2^-k (when it is
   positive at all) every span has at most 100000 * 2^k ticks, so
   tf > 100000 * 2^k + 1  and  fuel > 3 + n * (100000 * 2^k + 1)  suffice *)
Theorem events_with_done chk fuel tf start dur vel td total n k :
  0 <= n <= i32_max -> nn64 total = true -> 0 <= k <= 30 ->
  (forall tdc, D.clamp_chk td D.zero (D.min (SliderEvents.c_max_len SliderEvents.ops64) total) = Done tdc ->
               D.lt D.zero tdc = true ->
               (is_finite tdc = true /\ (bpow radix2 (- k) <= B2R tdc)%R) \/
               tdc = D.min (SliderEvents.c_max_len SliderEvents.ops64) total) ->
  100000 * 2 ^ k + 1 < Z.of_nat tf ->
  3 + n * (100000 * 2 ^ k + 1) < Z.of_nat fuel ->
  exists evs, events_with chk fuel tf start dur vel td total n = Done evs.
Proof.
  intros Hn Ht Hk Htd Htf Hfuel.
  assert (Hp2 : 0 < 2 ^ k) by (apply Z.pow_pos_nonneg; lia).
  set (p := SliderEvents.mkP start dur vel td total n).
  assert (Hspec : exists evs, SliderEvents.events_spec SliderEvents.ops64 tf p = Done evs /\
                              (length evs < fuel)%nat).
  { unfold SliderEvents.events_spec.
    change (SliderEvents.f_clamp_chk SliderEvents.ops64 (SliderEvents.p_td p) (SliderEvents.c_zero SliderEvents.ops64)
              (SliderEvents.sp_len SliderEvents.ops64 p))
      with (D.clamp_chk td D.zero (D.min (SliderEvents.c_max_len SliderEvents.ops64) total)).
    destruct (D.clamp_chk td D.zero (D.min (SliderEvents.c_max_len SliderEvents.ops64) total)) as [tdc|w|] eqn:Ec.
    - cbn [obind].
      destruct (sp_len_le p Ht) as (Fl & Rl0 & Rl).
      assert (Hd : exists ds, (if 0 <? SliderEvents.p_n p
                               then SliderEvents.span_dists SliderEvents.ops64 tf
                                      (SliderEvents.sp_len SliderEvents.ops64 p)
                                      (SliderEvents.sp_mdfe SliderEvents.ops64 p) tdc
                               else Done []) = Done ds /\ Z.of_nat (length ds) <= 100000 * 2 ^ k).
      { destruct (0 <? SliderEvents.p_n p); [|exists []; split; [reflexivity|cbn [length]; lia]].
        destruct (D.lt D.zero tdc) eqn:Epos.
        - destruct (Htd tdc eq_refl Epos) as [(Ftd & Rtd)|Elen].
          + assert (Hbig : 100000 * 2 ^ k + 2 < 2 ^ 53).
            { assert (2 ^ k <= 2 ^ 30) by (apply Z.pow_le_mono_r; lia). lia. }
            destruct (span_dists_bound (SliderEvents.sp_len SliderEvents.ops64 p)
                        (SliderEvents.sp_mdfe SliderEvents.ops64 p) tdc k 100000 tf
                        ltac:(lia) ltac:(lia) Hbig Fl Rl Ftd Rtd Htf) as (ds & Eds & Hlen).
            exists ds. split; [exact Eds|exact Hlen].
          + (* the tick distance was clamped to the length itself: at most one tick *)
            change (D.min (SliderEvents.c_max_len SliderEvents.ops64) total)
              with (SliderEvents.sp_len SliderEvents.ops64 p) in Elen. subst tdc.
            assert (Hpos : (0 < B2R (SliderEvents.sp_len SliderEvents.ops64 p))%R).
            { unfold D.lt, flt in Epos.
              rewrite (Bltb_correct 53 1024 (D.zero : F64) _ (eq_refl : is_finite (D.zero : F64) = true) Fl) in Epos.
              destruct (Raux.Rlt_bool_spec (B2R (D.zero : F64)) (B2R (SliderEvents.sp_len SliderEvents.ops64 p)))
                as [Hlt|Hge]; [exact Hlt|discriminate]. }
            destruct (span_dists_at_len (SliderEvents.sp_len SliderEvents.ops64 p)
                        (SliderEvents.sp_mdfe SliderEvents.ops64 p) tf Fl Hpos ltac:(lia)) as (ds & Eds & Hlen).
            exists ds. split; [exact Eds|lia].
        - exists []. split; [|cbn [length]; lia]. unfold SliderEvents.span_dists.
          change (SliderEvents.f_lt SliderEvents.ops64 (SliderEvents.c_zero SliderEvents.ops64) tdc)
            with (D.lt D.zero tdc). rewrite Epos. reflexivity. }
      destruct Hd as (ds & -> & Hlen). cbn [obind]. eexists. split; [reflexivity|].
      pose proof (sp_events_length_le SliderEvents.ops64 (SliderEvents.p_start p) (SliderEvents.p_dur p)
                    (SliderEvents.sp_len SliderEvents.ops64 p) (SliderEvents.p_n p) ds) as Hl.
      cbn [SliderEvents.p_n p] in Hl.
      assert (Z.of_nat (Z.to_nat n * (length ds + 1)) <= n * (100000 * 2 ^ k + 1)) by nia.
      change (SliderEvents.p_n p) with n. lia.
    - (* the clamp does not panic: total is not negative *)
      exfalso. pose proof (iter_new_panics_iff p []) as C. cbn [SliderEvents.p_total p] in C.
      rewrite nn64_lt_zero, Ht in C. cbn [negb] in C. destruct C as (x & C).
      unfold SliderEvents.iter_new in C.
      change (SliderEvents.f_clamp_chk SliderEvents.ops64 (SliderEvents.p_td p)
                (SliderEvents.c_zero SliderEvents.ops64)
                (SliderEvents.f_min SliderEvents.ops64 (SliderEvents.c_max_len SliderEvents.ops64)
                   (SliderEvents.p_total p)))
        with (D.clamp_chk td D.zero (D.min (SliderEvents.c_max_len SliderEvents.ops64) total)) in C.
      rewrite Ec in C. discriminate.
    - exfalso. unfold D.clamp_chk, fclamp in Ec. destruct (fle _ _ _ _); discriminate. }
  destruct Hspec as (evs & Es & Hl).
  unfold events_with. fold p.
  rewrite (run_eq_spec SliderEvents.ops64 chk tf fuel p [] Hn).
  - rewrite Es. cbn [obind]. eauto.
  - intros evs' Ee. rewrite Es in Ee. inversion Ee; subst. exact Hl.
Qed.

(* ... and without any hypothesis on the distance: a negative one makes new()
   panic, which is not OutOfFuel *)
Corollary events_with_no_fuel chk fuel tf start dur vel td total n k :
  0 <= n <= i32_max -> 0 <= k <= 30 ->
  (forall tdc, D.clamp_chk td D.zero (D.min (SliderEvents.c_max_len SliderEvents.ops64) total) = Done tdc ->
               D.lt D.zero tdc = true ->
               (is_finite tdc = true /\ (bpow radix2 (- k) <= B2R tdc)%R) \/
               tdc = D.min (SliderEvents.c_max_len SliderEvents.ops64) total) ->
  100000 * 2 ^ k + 1 < Z.of_nat tf ->
  3 + n * (100000 * 2 ^ k + 1) < Z.of_nat fuel ->
  avoids BFuel (events_with chk fuel tf start dur vel td total n).
Proof.
  intros Hn Hk Htd Htf Hfuel. destruct (nn64 total) eqn:Ht.
  - apply done_avoids. exact (events_with_done chk fuel tf start dur vel td total n k Hn Ht Hk Htd Htf Hfuel).
  - unfold events_with, SliderEvents.run.
    pose proof (iter_new_panics_iff (SliderEvents.mkP start dur vel td total n) []) as C.
    cbn [SliderEvents.p_total] in C. rewrite nn64_lt_zero, Ht in C. cbn [negb] in C.
    rewrite C. cbn [obind]. exact I.
Qed.

(* ---------- the tick distances the encoder derives ---------- *)

(* fn slider_events: tick_dist *)
Definition osu_tick_dist (c : ControlPoints) (start : F64) (s : Slider) (version : Z) (tick_rate : F64) : F64 :=
  let beat_len := match timing_point_at c start with Some p => tp_beat_len p | None => default_beat_len end in
  let dp := last_not_after dp_time (cp_difficulty c) start in
  let sv := match dp with Some p => dp_sv p | None => D.one end in
  let gen_ticks := match dp with Some p => dp_ticks p | None => true end in
  if gen_ticks
  then D.mul (D.div (D.mul (sl_velocity s) beat_len) tick_rate) (tick_dist_multiplier version sv)
  else D.inf false.

(* fn juicestream_events: tick_dist *)
Definition catch_tick_dist (c : ControlPoints) (start : F64) (version : Z) (tick_rate slider_mult : F64) : F64 :=
  let sv := match last_not_after dp_time (cp_difficulty c) start with Some p => dp_sv p | None => D.one end in
  D.mul (D.div (D.mul (f64_of_f32 (dec32' base_scoring_dist_dec)) slider_mult) tick_rate)
        (tick_dist_multiplier version sv).

(* slider.duration / span_count *)
Definition span_duration (s : Slider) (d : F64) : F64 :=
  D.div (D.div (D.mul (D.of_Z (sl_repeat_count s + 1)) d) (sl_velocity s)) (D.of_Z (sl_repeat_count s + 1)).

Section Unfold.
  Variable dist_of : Z -> list PCP -> option F64 -> outcome F64.
  Variable events_of : F64 -> F64 -> F64 -> F64 -> F64 -> Z -> outcome (list EncEvent).

  Lemma slider_events_unfold start s version tick_rate c d :
    cp_sorted c -> dist_of (sl_mode s) (sl_control_points s) (sl_expected_dist s) = Done d ->
    slider_events dist_of events_of start s version tick_rate c =
    events_of start (span_duration s d) (sl_velocity s) (osu_tick_dist c start s version tick_rate) d
              (sl_repeat_count s + 1).
  Proof.
    intros (_ & Hd & _) Ed. unfold slider_events, difficulty_point_at, osu_tick_dist, span_duration.
    rewrite (at_opt_spec dp_time _ _ Hd). cbn [obind].
    destruct (last_not_after dp_time (cp_difficulty c) start) as [p|];
      unfold enc_slider_duration, slider_curve_dist; rewrite Ed; cbn [obind]; reflexivity.
  Qed.

  Lemma juicestream_events_unfold start s version tick_rate slider_mult c d :
    cp_sorted c -> dist_of (sl_mode s) (sl_control_points s) (sl_expected_dist s) = Done d ->
    juicestream_events dist_of events_of start s version tick_rate slider_mult c =
    events_of start (span_duration s d) (sl_velocity s) (catch_tick_dist c start version tick_rate slider_mult) d
              (sl_repeat_count s + 1).
  Proof.
    intros (_ & Hd & _) Ed. unfold juicestream_events, difficulty_point_at, catch_tick_dist, span_duration.
    rewrite (at_opt_spec dp_time _ _ Hd). cbn [obind].
    unfold enc_slider_duration, slider_curve_dist; rewrite Ed; cbn [obind]; reflexivity.
  Qed.
End Unfold.

Section RealFuel.
  Variable lm : Curve.Libm.
  Variable chk : bool.
  Variables fuel tf : nat.
  Notation dreal := (DrvEnc.dist_real lm).
  Notation ereal := (events_with chk fuel tf).

  (* the tick distance the iterator ends up with is at least 2^-k, if positive *)
  Definition tick_dist_ge (k : Z) (td total : F64) : Prop :=
    forall tdc, D.clamp_chk td D.zero (D.min (SliderEvents.c_max_len SliderEvents.ops64) total) = Done tdc ->
                D.lt D.zero tdc = true ->
                (is_finite tdc = true /\ (bpow radix2 (- k) <= B2R tdc)%R) \/
                tdc = D.min (SliderEvents.c_max_len SliderEvents.ops64) total.

  (* clamp(td, 0, len) of a tick distance that is +inf (ticks switched off) or
     finite and >= 2^-k is td itself or len *)
  Lemma tick_dist_ge_of_lower k td total :
    td = D.inf false \/ (is_finite td = true /\ (bpow radix2 (- k) <= B2R td)%R) ->
    tick_dist_ge k td total.
  Proof.
    intros Htd tdc Ec _. unfold D.clamp_chk, fclamp in Ec.
    destruct (fle 53 1024 D.zero (D.min (SliderEvents.c_max_len SliderEvents.ops64) total)); [|discriminate].
    assert (Hnl : flt 53 1024 td D.zero = false).
    { destruct Htd as [->|(Ft & Rt)]; [reflexivity|].
      unfold flt. rewrite (Bltb_correct 53 1024 td D.zero Ft eq_refl).
      apply Raux.Rlt_bool_false. pose proof (bpow_gt_0 radix2 (- k)). cbn [B2R D.zero fzero]. lra. }
    rewrite Hnl in Ec.
    destruct (fgt 53 1024 td (D.min (SliderEvents.c_max_len SliderEvents.ops64) total)) eqn:Eg;
      inversion Ec; subst tdc; [right; reflexivity|].
    destruct Htd as [->|H]; [|left; exact H].
    (* +inf is greater than the length, which is never NaN and never +inf *)
    exfalso. unfold fgt in Eg.
    assert (Hlen : forall len : F64, D.is_nan len = false -> len <> B754_infinity false ->
                   flt 53 1024 len (D.inf false) = true).
    { intros len Hn Hi. destruct len as [s|s| |s m e Hb]; try discriminate;
        try (destruct s); try reflexivity. exfalso. apply Hi. reflexivity. }
    rewrite Hlen in Eg; [discriminate| |].
    - pose proof max_len_not_nan as Hm. unfold D.min, fmin. fold D.is_nan. rewrite Hm.
      destruct (D.is_nan total) eqn:En; [exact Hm|].
      destruct (flt 53 1024 total (SliderEvents.c_max_len SliderEvents.ops64)); [exact En|exact Hm].
    - pose proof max_len_not_nan as Hm. pose proof max_len_fin as Fm. unfold D.min, fmin. fold D.is_nan. rewrite Hm.
      assert (HM : SliderEvents.c_max_len SliderEvents.ops64 <> B754_infinity false).
      { intros E. rewrite E in Fm. discriminate. }
      destruct (D.is_nan total) eqn:En; [exact HM|].
      destruct (flt 53 1024 total (SliderEvents.c_max_len SliderEvents.ops64)) eqn:El; [|exact HM].
      intros E. rewrite E in El.
      destruct (SliderEvents.c_max_len SliderEvents.ops64) as [s|s| |s m e Hb]; try discriminate;
        destruct s; discriminate.
  Qed.

  Definition slider_ticks_ok (k : Z) (m : BeatmapV) (h : HitObject) : Prop :=
    let ho := bmv_ho m in
    match h_kind h with
    | KSlider s =>
        forall d, dreal (sl_mode s) (sl_control_points s) (sl_expected_dist s) = Done d ->
          (g_mode (hov_general ho) = 0 ->
           tick_dist_ge k (osu_tick_dist (hov_control_points ho) (h_start h) s (bmv_version m)
                                         (d_slider_tick_rate (hov_difficulty ho))) d) /\
          (g_mode (hov_general ho) = 2 ->
           tick_dist_ge k (catch_tick_dist (hov_control_points ho) (h_start h) (bmv_version m)
                                           (d_slider_tick_rate (hov_difficulty ho))
                                           (d_slider_multiplier (hov_difficulty ho))) d)
    | _ => True
    end.

  (* OutOfFuel can only come out of the slider-event calls: the curve returned
     a value for the same arguments during decoding, `0..=span_count` is a
     bounded loop because repeat_count >= 0 *)
  Theorem encode_fuel_only_events lines bv :
    decode_beatmap (dist_of_curve lm) lines = Done bv ->
    map_events_avoid dreal ereal BFuel bv ->
    encode_tokens dreal ereal bv <> OutOfFuel.
  Proof.
    intros H He. apply avoids_fuel_iff. apply encode_avoids; [exact (decoded_shape lm lines bv H)|exact He].
  Qed.

  (* and with tick distances bounded below, the stated fuel is enough *)
  Theorem map_avoids_fuel k m :
    map_shape dreal m -> 0 <= k <= 30 ->
    Forall (slider_ticks_ok k m) (hov_hit_objects (bmv_ho m)) ->
    100000 * 2 ^ k + 1 < Z.of_nat tf ->
    3 + repeat_cap * (100000 * 2 ^ k + 1) < Z.of_nat fuel ->
    map_events_avoid dreal ereal BFuel m.
  Proof.
    intros (Hc & Hf) Hk Ht Htf Hfuel. unfold map_events_avoid.
    apply Forall_forall. intros h Hin. rewrite Forall_forall in Hf, Ht.
    specialize (Hf h Hin). specialize (Ht h Hin).
    unfold events_avoid, obj_fin, slider_ticks_ok in *.
    destruct (h_kind h) as [ci|s|sp|hd] eqn:Ek; try exact I.
    destruct Hf as (((Hr0 & Hr1) & Hreq & _) & d & Hd).
    destruct (Ht d Hd) as (T0 & T2).
    assert (Hrange : 0 <= sl_repeat_count s + 1 <= i32_max) by (pose proof repeat_cap_i32; lia).
    assert (Hfuel' : 3 + (sl_repeat_count s + 1) * (100000 * 2 ^ k + 1) < Z.of_nat fuel).
    { assert (0 <= 100000 * 2 ^ k + 1) by (assert (0 < 2 ^ k) by (apply Z.pow_pos_nonneg; lia); lia). nia. }
    split; intros Hm.
    - rewrite (slider_events_unfold dreal ereal _ _ _ _ _ d Hc Hd).
      exact (events_with_no_fuel chk fuel tf _ _ _ _ _ _ k Hrange Hk (T0 Hm) Htf Hfuel').
    - rewrite (juicestream_events_unfold dreal ereal _ _ _ _ _ _ d Hc Hd).
      exact (events_with_no_fuel chk fuel tf _ _ _ _ _ _ k Hrange Hk (T2 Hm) Htf Hfuel').
  Qed.

  (* with tick distances bounded below the encoder never runs out of the stated fuel *)
  Theorem encode_no_fuel lines bv k :
    decode_beatmap (dist_of_curve lm) lines = Done bv -> 0 <= k <= 30 ->
    Forall (slider_ticks_ok k bv) (hov_hit_objects (bmv_ho bv)) ->
    100000 * 2 ^ k + 1 < Z.of_nat tf ->
    3 + repeat_cap * (100000 * 2 ^ k + 1) < Z.of_nat fuel ->
    encode_tokens dreal ereal bv <> OutOfFuel.
  Proof.
    intros H Hk Ht Htf Hfuel. apply (encode_fuel_only_events lines bv H).
    exact (map_avoids_fuel k bv (decoded_shape lm lines bv H) Hk Ht Htf Hfuel).
  Qed.

  (* RE-ENCODING COMPLETES: a decoded map outside the negative-distance class
     whose sliders have tick distances >= 2^-k yields its token stream *)
  Theorem encode_completes lines bv k :
    decode_beatmap (dist_of_curve lm) lines = Done bv ->
    neg_dist_class lm bv = false -> 0 <= k <= 30 ->
    Forall (slider_ticks_ok k bv) (hov_hit_objects (bmv_ho bv)) ->
    100000 * 2 ^ k + 1 < Z.of_nat tf ->
    3 + repeat_cap * (100000 * 2 ^ k + 1) < Z.of_nat fuel ->
    exists toks, encode_tokens dreal ereal bv = Done toks.
  Proof.
    intros H Hn Hk Ht Htf Hfuel. pose proof (decoded_shape lm lines bv H) as Hm.
    apply encode_done; [exact Hm| |].
    - exact (map_avoids_panic lm chk fuel tf bv Hm Hn).
    - exact (map_avoids_fuel k bv Hm Hk Ht Htf Hfuel).
  Qed.

  (* taiko and mania maps: no slider events at all; always completes *)
  Theorem encode_completes_taiko_mania lines bv :
    decode_beatmap (dist_of_curve lm) lines = Done bv ->
    g_mode (hov_general (bmv_ho bv)) <> 0 -> g_mode (hov_general (bmv_ho bv)) <> 2 ->
    exists toks, encode_tokens dreal ereal bv = Done toks.
  Proof.
    intros H H0 H2. pose proof (decoded_shape lm lines bv H) as Hm.
    apply encode_done; [exact Hm| |]; unfold map_events_avoid; apply Forall_forall; intros h _;
      apply events_avoid_other_modes; assumption.
  Qed.
End RealFuel.

(* Enc3Objects: T02b / T02e composed -- the whole [HitObjects] section of an encoding, read back
   line by line ([ho_run]) and pushed through the map-level processing of the second decode
   (stable sort, break post-processing, per-object loop).

   Part 1 (raw list): the object list that [ho_run] builds from the written lines stands, object
   by object, in the relation [raw_rel] to the written objects: a circle / spinner / hold is
   EXACTLY [reread_object] (a function of "does the parser force a new combo here" and the
   object); a slider satisfies the conclusion of the per-line slider theorem (T02e).

   Part 2 (finish): the written list is sorted (it is the output of the first decode), so the
   stable sort of the re-read list is the identity; the break post-processing re-derives flags that
   are already set ([combo_chain]); the per-object loop re-applies sample points, which only
   touches what [carry_object] erases. *)
From RM Require Import Model.EncSpec Model.EncObjCarry Model.EncPathSpec Proofs.EncFmt Proofs.EncObjectsRT
     Proofs.Enc2Samples Proofs.Enc2SampleShape Proofs.MapLevelFacts Proofs.MapLevelConcrete Proofs.Enc2Slider
     Proofs.HitObjectLineFacts Proofs.Enc3Framing Proofs.Enc3Nodes.
From RM Require Proofs.C14Clauses.
From RM Require Import Model.DrvEnc Model.HitObjectSpec.
From RM Require Model.Curve.
From RM Require Import Gen.Generated.
From Coq Require Import Sorting.Sorted ZifyBool Lia.
Open Scope Z_scope.

(* ---------- vocabulary ---------- *)

(* "the parser forces a new combo on the next circle / slider": first object, or right after a spinner *)
Definition fs (st : HOState) : bool := first_object st || last_object_was_spinner st.
Definition is_spinner (h : HitObject) : bool := match h_kind h with KSpinner _ => true | _ => false end.

(* [reread_object] as a function of that bit *)
Definition reread_kind_f (f : bool) (start : F64) (k : HitObjectKind) : HitObjectKind :=
  match k with
  | KCircle c =>
      KCircle (mkCircle (ci_pos c) (f || ci_new_combo c) (if ci_new_combo c then ci_combo_offset c else 0))
  | KSpinner s =>
      KSpinner (mkSpinner spinner_pos (f64_max_lit (D.sub (D.add start (sp_duration s)) start) D.zero)
                          (sp_new_combo s))
  | KHold hd =>
      KHold (mkHold (hd_pos_x hd) (D.sub (D.max start (D.add start (hd_duration hd))) start))
  | KSlider s => KSlider s
  end.
Definition reread_f (f : bool) (mode : Z) (h : HitObject) : HitObject :=
  mkHObj (h_start h) (reread_kind_f f (h_start h) (h_kind h)) (reread_samples mode (h_samples h)).

Lemma reread_object_f st mode h : reread_object st mode h = reread_f (fs st) mode h.
Proof.
  unfold reread_object, reread_f, reread_kind, reread_kind_f, forced_new_combo, fs.
  destruct (h_kind h); reflexivity.
Qed.

(* what is known of a re-read slider (the conclusion of the per-line theorem T02e) *)
Definition slider_rel (lm : Curve.Libm) (f : bool) (h : HitObject) (s : Slider) (o : HitObject) : Prop :=
  exists c s',
    slider_curve lm s = Done c /\
    h_start o = h_start h /\ h_kind o = KSlider s' /\
    sl_pos s' = sl_pos s /\
    sl_control_points s' = sl_control_points s /\
    sl_repeat_count s' = sl_repeat_count s /\
    length (sl_node_samples s') = Z.to_nat (sl_repeat_count s + 2) /\
    sl_expected_dist s' = reread_len (written_of (sl_expected_dist s) c) /\
    slider_curve lm s' = Done c /\
    (* ... and exactly (Proofs/Enc3Nodes.v): *)
    sl_mode s' = sl_mode s /\
    sl_new_combo s' = f || sl_new_combo s /\
    sl_combo_offset s' = (if sl_new_combo s then sl_combo_offset s else 0) /\
    sl_node_samples s' = reread_nodes 0 0 (Z.to_nat (sl_repeat_count s + 2)) 0 (sl_node_samples s) /\
    h_samples o = convert_sound_type (node_info 0 0 (Some (h_samples h))) (node_sound (Some (h_samples h))).

Definition raw_rel (lm : Curve.Libm) (mode : Z) (f : bool) (h o : HitObject) : Prop :=
  match h_kind h with
  | KSlider s => slider_rel lm f h s o
  | _ => o = reread_f f mode h
  end.

Fixpoint raw_chain (lm : Curve.Libm) (mode : Z) (f : bool) (objs raws : list HitObject) : Prop :=
  match objs, raws with
  | [], [] => True
  | h :: r, o :: ro => raw_rel lm mode f h o /\ raw_chain lm mode (is_spinner h) r ro
  | _, _ => False
  end.

(* the recorded classes, object by object: D30 (sample file name ending in white space), D26 (end
   beyond the parse limit), D33 (the time condition); for a slider [slider_ok] (D13 / D17 /
   consecutive Catmull, D21, D30) and "read under the map's mode" (the other order is D22) *)
Definition obj_classes (lm : Curve.Libm) (mode : Z) (h : HitObject) : Prop :=
  match h_kind h with
  | KCircle _ => d30_class h = false
  | KSpinner s => d30_class h = false /\ d26_class h = false /\ spinner_time_ok (h_start h) (sp_duration s)
  | KHold hd => d30_class h = false /\ d26_class h = false /\ hold_time_ok (h_start h) (hd_duration hd)
  | KSlider s => exists c, slider_curve lm s = Done c /\
                           slider_ok h s (written_of (sl_expected_dist s) c) = true /\ sl_mode s = mode
  end.

(* ---------- the parser state after an accepted line ---------- *)

Lemma fs_push st o : fs (push st o) = is_spinner o.
Proof. unfold fs, push, first_object, last_object_was_spinner, is_spinner. cbn [ho_last]. destruct (h_kind o); reflexivity. Qed.

Lemma reread_f_spinner f mode h : is_spinner (reread_f f mode h) = is_spinner h.
Proof. unfold is_spinner, reread_f. cbn [h_kind]. destruct (h_kind h); reflexivity. Qed.

Lemma fs_after_accepted st line st' o :
  parse_hit_objects st line = Done (st', Ok) -> ho_objects st' = ho_objects st ++ [o] ->
  fs st' = is_spinner o /\ ho_mode st' = ho_mode st.
Proof.
  intros H Ho. destruct (C14Clauses.accepted_line _ _ _ H) as (f & k & obj & _ & Hk & Hobj & Hl & Hm & _ & Ht & _).
  rewrite Ho in Hobj. apply app_inv_head in Hobj. injection Hobj as <-.
  split; [|exact Hm]. unfold fs, first_object. rewrite last_object_was_spinner_spec, Hl. cbn [orb].
  unfold type_is_spinner. rewrite C14Clauses.kind_of_kept_type, Hk, <- Ht. unfold is_spinner.
  destruct (h_kind o); reflexivity.
Qed.

(* ---------- part 1: the raw list ---------- *)

Section Raw.
  Variable lm : Curve.Libm.
  Variables (fmt_f64 : F64 -> str) (fmt_f32 : F32 -> str) (fmt_int : Z -> str).
  Hypothesis Hfmt : fmt_ok fmt_f64 fmt_f32 fmt_int.
  Hypothesis H32 : fmt_f32_int fmt_f32 fmt_int.
  Notation rline := (render fmt_f64 fmt_f32 fmt_int).

  (* what part 1 needs of each object: [object_ok] for a circle / spinner / hold, the hypotheses of the
     per-line theorem for a slider *)
  Definition line_hyps (mode : Z) (h : HitObject) : Prop :=
    match h_kind h with
    | KSlider s => elen_img h /\ exists c, slider_curve lm s = Done c /\
                                          slider_ok h s (written_of (sl_expected_dist s) c) = true /\ sl_mode s = mode
    | _ => object_ok h = true
    end.

  Theorem object_lines_reread mode : forall objs ls,
    object_lines (dist_real lm) mode objs = Done ls -> Forall (line_hyps mode) objs ->
    forall st, ho_mode st = mode ->
    exists st' rs raws,
      ho_run st (map rline ls) = Done (st', rs) /\
      ho_objects st' = ho_objects st ++ raws /\
      raw_chain lm mode (fs st) objs raws.
  Proof.
    induction objs as [|h r IH]; intros ls Hls Hall st Hmode; cbn [object_lines] in Hls.
    - injection Hls as <-. exists st, [], []. cbn [map ho_run raw_chain]. rewrite app_nil_r. repeat split.
    - destruct (object_line (dist_real lm) mode h) as [l|w|] eqn:El; cbn [obind] in Hls; try discriminate.
      destruct (object_lines (dist_real lm) mode r) as [lr|w|] eqn:Er; cbn [obind] in Hls; try discriminate.
      injection Hls as <-. pose proof (Forall_inv Hall) as Hh. pose proof (Forall_inv_tail Hall) as Hr.
      assert (Hstep : exists st1 o, parse_hit_objects st (rline l) = Done (st1, Ok) /\
                                    ho_objects st1 = ho_objects st ++ [o] /\ raw_rel lm mode (fs st) h o /\
                                    is_spinner o = is_spinner h).
      { unfold line_hyps in Hh. unfold raw_rel.
        destruct (h_kind h) as [c|s|s|hd] eqn:Hk.
        1,3,4: exists (push st (reread_object st mode h)), (reread_object st mode h);
          split; [exact (object_line_reread fmt_f64 fmt_f32 fmt_int Hfmt (dist_real lm) mode h l Hh El st)|];
          split; [reflexivity|]; split; [apply reread_object_f|];
          rewrite reread_object_f, reread_f_spinner; reflexivity.
        destruct Hh as (Hi & c & Hc & Hok & Hsm).
        destruct (slider_round_trip_full lm fmt_f64 fmt_f32 fmt_int Hfmt H32 mode h s c l Hk Hi Hc Hok El st
                    ltac:(rewrite Hsm; exact Hmode))
          as (st1 & o & s' & Hp & Ho & Q1 & Q2 & Q3 & Q4 & Q5 & Q6 & Q7 & Q8 & Q9 & Q10 & Q11 & Q12 & Q13).
        exists st1, o. split; [exact Hp|]. split; [exact Ho|]. split.
        - exists c, s'.
          exact (conj Hc (conj Q1 (conj Q2 (conj Q3 (conj Q4 (conj Q5 (conj Q6 (conj Q7 (conj Q8 (conj Q9 (conj Q10 (conj Q11 (conj Q12 Q13))))))))))))).
        - unfold is_spinner. rewrite Q2, Hk. reflexivity. }
      destruct Hstep as (st1 & o & Hp & Ho & Hrel & Hsp).
      destruct (fs_after_accepted _ _ _ _ Hp Ho) as (Hfs & Hm1).
      destruct (IH lr eq_refl Hr st1 ltac:(rewrite Hm1; exact Hmode)) as (st2 & rs & raws & Hrun & Hobjs & Hchain).
      exists st2, (Ok :: rs), (o :: raws). cbn [map ho_run]. rewrite Hp. cbn [obind]. rewrite Hrun. cbn [obind].
      split; [reflexivity|]. split.
      + rewrite Hobjs, Ho, <- app_assoc. reflexivity.
      + cbn [raw_chain]. split; [exact Hrel|]. rewrite Hfs, Hsp in Hchain. exact Hchain.
  Qed.
End Raw.

(* ---------- part 2: the map-level processing of the second decode ---------- *)

(* a sorted list is a fixed point of the stable sort *)
Lemma sinsert_le_all {O} (key : O -> Z) x l :
  Forall (fun y => key x <= key y) l -> sinsert key x l = x :: l.
Proof.
  destruct l as [|y r]; [reflexivity|]. intros H. inversion H; subst. cbn [sinsert].
  replace (key x <=? key y) with true by lia. reflexivity.
Qed.

Lemma ssort_sorted_id {O} (key : O -> Z) l : StronglySorted Z.le (map key l) -> ssort key l = l.
Proof.
  induction l as [|x r IH]; intros H; [reflexivity|]. cbn [map] in H. inversion H as [|? ? Hr Hx]; subst.
  cbn [ssort]. rewrite (IH Hr). apply sinsert_le_all. rewrite Forall_map in Hx. exact Hx.
Qed.

Lemma raw_chain_starts lm mode : forall objs raws f, raw_chain lm mode f objs raws -> map h_start raws = map h_start objs.
Proof.
  induction objs as [|h r IH]; intros [|o ro] f H; cbn [raw_chain] in H; try contradiction; [reflexivity|].
  destruct H as [Hrel Hch]. cbn [map]. rewrite (IH ro _ Hch). f_equal.
  unfold raw_rel in Hrel. destruct (h_kind h); try (subst o; reflexivity).
  destruct Hrel as (c & s' & _ & Hs & _). exact Hs.
Qed.

(* the new-combo flags the second decode derives are already there: the first object and every
   object after a spinner (circles, sliders) and the first object after each break (circles,
   sliders, spinners) carry the flag.  True of every decoded map whose hit-object lines were in
   chronological order (the property's hypothesis): the first decode set exactly these flags. *)
Fixpoint combo_chain (bs : list BreakPeriod) (f : bool) (objs : list HitObject) : bool :=
  match objs with
  | [] => true
  | h :: r =>
      let '(bs', fb) := skip_breaks bs (h_start h) false in
      match h_kind h with
      | KCircle c => implb (f || fb) (ci_new_combo c)
      | KSlider s => implb (f || fb) (sl_new_combo s)
      | KSpinner s => implb fb (sp_new_combo s)
      | KHold _ => true
      end && combo_chain bs' (is_spinner h) r
  end.

(* what the composed theorem says of one object of the second decode *)
Definition final_rel (lm : Curve.Libm) (h o : HitObject) : Prop :=
  match h_kind h with
  | KSlider s =>
      exists c s',
        slider_curve lm s = Done c /\
        h_start o = h_start h /\ h_kind o = KSlider s' /\
        sl_pos s' = sl_pos s /\
        sl_control_points s' = sl_control_points s /\
        sl_repeat_count s' = sl_repeat_count s /\
        length (sl_node_samples s') = Z.to_nat (sl_repeat_count s + 2) /\
        sl_expected_dist s' = reread_len (written_of (sl_expected_dist s) c) /\
        slider_curve lm s' = Done c /\
        sl_mode s' = sl_mode s /\
        sl_new_combo s' = sl_new_combo s /\
        sl_combo_offset s' = (if sl_new_combo s then sl_combo_offset s else 0) /\
        (* names and banks of the slider's own samples (a decoded slider has no file name of its own:
           the decoder reads its extras field banks-only) *)
        (first_file (h_samples h) = None -> carry_samples (h_samples o) = carry_samples (h_samples h)) /\
        (* names and banks of every node without a file name (a file name on a node: class D31) *)
        (forall i l, (i < Z.to_nat (sl_repeat_count s + 2))%nat -> nth_error (sl_node_samples s) i = Some l ->
           samples_image l = true -> first_file l = None ->
           exists l2, nth_error (sl_node_samples s') i = Some l2 /\ carry_samples l2 = carry_samples l)
  | _ => carry_object o = carry_object h
  end.

(* the per-object facts part 2 uses (all hold of decoded objects outside D33) *)
Definition finish_hyps (h : HitObject) : Prop :=
  kind_image (h_kind h) = true /\ samples_image (h_samples h) = true /\
  match h_kind h with
  | KSpinner s => spinner_time_ok (h_start h) (sp_duration s)
  | KHold hd => hold_time_ok (h_start h) (hd_duration hd)
  | _ => True
  end.

Lemma apply_nodes_length c start dur spans : forall nodes i,
  length (apply_nodes c start dur spans i nodes) = length nodes.
Proof. induction nodes as [|n r IH]; intros i; [reflexivity|]. cbn [apply_nodes length]. rewrite IH. reflexivity. Qed.

Lemma apply_nodes_nth c start dur spans : forall nodes i j n,
  nth_error nodes j = Some n ->
  exists p, nth_error (apply_nodes c start dur spans i nodes) j = Some (map (sp_apply p) n).
Proof.
  induction nodes as [|x r IH]; intros i j n H; [destruct j; discriminate|].
  cbn [apply_nodes]. destruct j as [|j']; cbn [nth_error] in H |- *.
  - injection H as <-. eexists. reflexivity.
  - exact (IH (i + 1) j' n H).
Qed.

Lemma carry_eq o h :
  h_start o = h_start h -> carry_kind (h_kind o) = carry_kind (h_kind h) ->
  carry_samples (h_samples o) = carry_samples (h_samples h) -> carry_object o = carry_object h.
Proof. intros H1 H2 H3. unfold carry_object. rewrite H1, H2, H3. reflexivity. Qed.

Section Finish.
  Variable lm : Curve.Libm.
  Variable dist2 : Z -> list PCP -> option F64 -> outcome F64.

  Lemma process_one c sm mode0 mode f fb h o o2 :
    raw_rel lm mode f h o -> finish_hyps h ->
    match h_kind h with
    | KCircle ci => implb (f || fb) (ci_new_combo ci)
    | KSlider s => implb (f || fb) (sl_new_combo s)
    | KSpinner s => implb fb (sp_new_combo s)
    | KHold _ => true
    end = true ->
    process_object dist2 c sm mode0 (force_new_combo o fb) = Done o2 ->
    final_rel lm h o2.
  Proof.
    intros Hrel (Hki & Hsi & Ht) Hcombo Hp. unfold raw_rel in Hrel. unfold final_rel.
    destruct (h_kind h) as [ci|s|s|hd] eqn:Hk.
    - (* circle *)
      subst o.
      destruct (process_object_non_slider dist2 c sm mode0 (force_new_combo (reread_f f mode h) fb)) as (e & Hp' & _).
      { intros s0. unfold force_new_combo, reread_f. cbn [h_kind]. rewrite Hk. cbn [reread_kind_f h_kind]. discriminate. }
      rewrite Hp' in Hp. injection Hp as <-.
      unfold carry_object. rewrite force_start, force_samples. cbn [h_start h_kind h_samples reread_f].
      rewrite (reread_apply_carry mode _ _ Hsi). f_equal.
      unfold force_new_combo, reread_f. cbn [h_kind]. rewrite Hk. cbn [reread_kind_f h_kind h_start h_samples ci_pos ci_new_combo ci_combo_offset carry_kind].
      cbn [kind_image] in Hki. unfold circle_image in Hki.
      destruct ci as [pos nc off]. cbn [ci_new_combo ci_combo_offset ci_pos] in *.
      destruct nc; cbn [orb implb] in *.
      + rewrite !orb_true_r. reflexivity.
      + rewrite orb_false_r in *. destruct (f || fb); [discriminate|]. replace off with 0 by lia. reflexivity.
    - (* slider *)
      destruct Hrel as (cv & s' & Hc & Q1 & Q2 & Q3 & Q4 & Q5 & Q6 & Q7 & Q8 & Q9 & Q10 & Q11 & Q12 & Q13).
      set (s'' := mkSlider (sl_pos s') (sl_new_combo s' || fb) (sl_combo_offset s') (sl_mode s')
                           (sl_control_points s') (sl_expected_dist s') (sl_node_samples s')
                           (sl_repeat_count s') (sl_velocity s')).
      assert (Hf : force_new_combo o fb = mkHObj (h_start o) (KSlider s'') (h_samples o)).
      { unfold force_new_combo. rewrite Q2. reflexivity. }
      rewrite Hf in Hp.
      destruct (process_object_slider dist2 c sm mode0 (mkHObj (h_start o) (KSlider s'') (h_samples o)) s'' o2 eq_refl Hp) as (dp & d & _ & _ & Ho2).
      cbv zeta in Ho2. cbn [h_start h_samples sl_pos sl_new_combo sl_combo_offset sl_mode sl_control_points
                            sl_expected_dist sl_node_samples sl_repeat_count s''] in Ho2.
      exists cv. eexists. split; [exact Hc|]. rewrite Ho2. cbn [h_start h_kind h_samples].
      split; [exact Q1|]. split; [reflexivity|].
      cbn [sl_pos sl_control_points sl_repeat_count sl_node_samples sl_expected_dist sl_mode sl_new_combo sl_combo_offset].
      split; [exact Q3|]. split; [exact Q4|]. split; [exact Q5|]. split; [rewrite apply_nodes_length; exact Q6|].
      split; [exact Q7|]. split; [unfold slider_curve in Q8 |- *; cbn [sl_mode sl_control_points sl_expected_dist]; exact Q8|].
      split; [exact Q9|]. split.
      { rewrite Q10. destruct (sl_new_combo s); cbn [orb implb] in *; [rewrite !orb_true_r; reflexivity|].
        rewrite orb_false_r. destruct (f || fb); [discriminate|reflexivity]. }
      split; [exact Q11|]. split.
      { intros Hnf. rewrite Q13. exact (proj2 (node_reread_carry _ Hsi Hnf) _). }
      intros i l Hi Hn Himg Hnf.
      assert (Hrr : nth_error (sl_node_samples s') i =
                    Some (convert_sound_type (node_info 0 0 (Some l)) (node_sound (Some l)))).
      { rewrite Q12, (reread_nodes_nth 0 0 _ _ 0 i Hi). cbn [Nat.add]. rewrite Hn. reflexivity. }
      destruct (apply_nodes_nth c (h_start o) (D.div (D.mul (D.of_Z (sl_repeat_count s' + 1)) d)
                  (slider_velocity_of sm match dp with Some p => dp_sv p | None => D.one end
                     match timing_point_at c (h_start o) with Some p => tp_beat_len p | None => default_beat_len end mode0))
                  (D.of_Z (sl_repeat_count s' + 1)) _ 0 i _ Hrr) as (p & Hp2).
      eexists. split; [exact Hp2|]. exact (proj2 (node_reread_carry l Himg Hnf) p).
    - (* spinner *)
      subst o.
      destruct (process_object_non_slider dist2 c sm mode0 (force_new_combo (reread_f f mode h) fb)) as (e & Hp' & _).
      { intros s0. unfold force_new_combo, reread_f. cbn [h_kind]. rewrite Hk. cbn [reread_kind_f h_kind]. discriminate. }
      rewrite Hp' in Hp. injection Hp as <-.
      unfold carry_object. rewrite force_start, force_samples. cbn [h_start h_kind h_samples reread_f].
      rewrite (reread_apply_carry mode _ _ Hsi). f_equal.
      unfold force_new_combo, reread_f. cbn [h_kind]. rewrite Hk.
      cbn [reread_kind_f h_kind h_start h_samples sp_pos sp_duration sp_new_combo carry_kind].
      unfold spinner_time_ok in Ht. rewrite Ht.
      destruct (sp_new_combo s); cbn [orb implb] in *; [reflexivity|]. destruct fb; [discriminate|reflexivity].
    - (* hold *)
      subst o.
      assert (Hf : force_new_combo (reread_f f mode h) fb = reread_f f mode h).
      { unfold force_new_combo, reread_f. cbn [h_kind]. rewrite Hk. reflexivity. }
      rewrite Hf in Hp.
      destruct (process_object_non_slider dist2 c sm mode0 (reread_f f mode h)) as (e & Hp' & _).
      { intros s0. unfold reread_f. cbn [h_kind]. rewrite Hk. cbn [reread_kind_f]. discriminate. }
      rewrite Hp' in Hp. injection Hp as <-.
      apply carry_eq.
      + reflexivity.
      + change (h_kind (reread_f f mode h)) with (reread_kind_f f (h_start h) (h_kind h)).
        rewrite Hk. cbn [reread_kind_f carry_kind]. unfold hold_time_ok in Ht. rewrite Ht. destruct hd; reflexivity.
      + exact (reread_apply_carry mode _ _ Hsi).
  Qed.

  Lemma process_chain c sm mode0 mode : forall objs raws bs f out,
    raw_chain lm mode f objs raws -> Forall finish_hyps objs -> combo_chain bs f objs = true ->
    process_objects dist2 c sm mode0 (post_process_breaks h_start force_new_combo bs raws) = Done out ->
    Forall2 (final_rel lm) objs out.
  Proof.
    induction objs as [|h r IH]; intros [|o ro] bs f out Hch Hall Hcc Hp; cbn [raw_chain] in Hch; try contradiction.
    - cbn [post_process_breaks process_objects] in Hp. injection Hp as <-. constructor.
    - destruct Hch as [Hrel Hch]. inversion Hall as [|? ? Hh Hr]; subst.
      cbn [post_process_breaks] in Hp. cbn [combo_chain] in Hcc.
      assert (Hs : h_start o = h_start h).
      { unfold raw_rel in Hrel. destruct (h_kind h); try (subst o; reflexivity).
        destruct Hrel as (cv & s' & _ & Hs & _). exact Hs. }
      rewrite Hs in Hp.
      destruct (skip_breaks bs (h_start h) false) as [bs' fb] eqn:Eb.
      apply andb_true_iff in Hcc. destruct Hcc as [Hc1 Hc2].
      cbn [process_objects] in Hp.
      destruct (process_object dist2 c sm mode0 (force_new_combo o fb)) as [o2| |] eqn:E1; cbn [obind] in Hp; try discriminate.
      destruct (process_objects dist2 c sm mode0 _) as [out'| |] eqn:E2; cbn [obind] in Hp; try discriminate.
      injection Hp as <-. constructor.
      + exact (process_one c sm mode0 mode f fb h o o2 Hrel Hh Hc1 E1).
      + exact (IH ro bs' (is_spinner h) out' Hch Hr Hc2 E2).
  Qed.

  Theorem finish_reread c bs sm mode0 mode objs raws out :
    raw_chain lm mode true objs raws -> Forall finish_hyps objs ->
    StronglySorted Z.le (map start_key objs) -> combo_chain bs true objs = true ->
    finish_hit_objects dist2 c bs sm mode0 raws = Done out ->
    Forall2 (final_rel lm) objs out.
  Proof.
    intros Hch Hall Hsorted Hcc Hf. unfold finish_hit_objects in Hf.
    assert (E : map start_key raws = map start_key objs).
    { unfold start_key. rewrite <- !(map_map h_start D.key), (raw_chain_starts lm mode _ _ _ Hch). reflexivity. }
    rewrite (ssort_sorted_id start_key raws) in Hf by (rewrite E; exact Hsorted).
    exact (process_chain c sm mode0 mode objs raws bs true out Hch Hall Hcc Hf).
  Qed.
End Finish.

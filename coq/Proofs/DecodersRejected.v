(* DecodersRejected: a line that a section parser rejects has no effect on
   the decoded result (C06), for the nine decoders of Model/Decoders.v.

   [≈] ("equal up to the declared scratch fields"): equality for the states
   of the six single-section decoders and of TimingPoints; for HitObjects and
   Beatmap the two scratch buffers [curve_points] and [vertices] of the
   hit-object part are left out ([same_but_scratch] of Proofs/C14Clauses.v,
   lifted through HOD, BMD and [outcome]).

   T06a  a parser that answers Rejected returns a state ≈ the one it got;
   T06b  ≈ is a congruence for every parse_* of every decoder, result flag
         included, and the finishing conversions agree on ≈-related states;
   T06c  hence (Proofs/FramingFacts.v, [rejected_line_absent_upto]) a line
         that is routed to a parser and rejected there can be deleted from
         the file without changing the decoded value. *)
From RM Require Import Model.Decoders Proofs.FramingFacts Proofs.SectionsFacts
     Proofs.HitObjectLineFacts Proofs.C14Clauses Proofs.DecodersFacts Proofs.DecodersTotal.
Open Scope Z_scope.

(* ------------------------------------------------------------------ *)
(* ≈                                                                   *)

Definition hod_eqv (a b : HOD) : Prop :=
  hod_tp a = hod_tp b /\ hod_difficulty a = hod_difficulty b /\ hod_events a = hod_events b /\
  same_but_scratch (hod_core a) (hod_core b).

Definition bmd_eqv (a b : BMD) : Prop :=
  bmd_version a = bmd_version b /\ bmd_editor a = bmd_editor b /\
  bmd_metadata a = bmd_metadata b /\ bmd_colors a = bmd_colors b /\
  hod_eqv (bmd_ho a) (bmd_ho b).

(* through [outcome]: a panicked state is only related to the same panic *)
Definition oeqv {A} (E : A -> A -> Prop) (x y : outcome A) : Prop :=
  match x, y with
  | Done a, Done b => E a b
  | Panic v, Panic w => v = w
  | OutOfFuel, OutOfFuel => True
  | _, _ => False
  end.

Lemma hod_eqv_refl : forall a, hod_eqv a a.
Proof. intros a. repeat split. Qed.
Lemma bmd_eqv_refl : forall a, bmd_eqv a a.
Proof. intros a. repeat split. Qed.
Lemma oeqv_refl {A} (E : A -> A -> Prop) : (forall a, E a a) -> forall x, oeqv E x x.
Proof. intros H [a|w|]; cbn; auto. Qed.

(* what ≈ says, field by field: everything but curve_points and vertices *)
Lemma hod_eqv_fields : forall a b,
  hod_eqv a b <->
  hod_tp a = hod_tp b /\ hod_difficulty a = hod_difficulty b /\ hod_events a = hod_events b /\
  hod_last a = hod_last b /\ hod_objects a = hod_objects b.
Proof.
  intros [tp d e la cu ve ob] [tp' d' e' la' cu' ve' ob'].
  unfold hod_eqv, same_but_scratch, hod_core.
  cbn [hod_tp hod_difficulty hod_events hod_last hod_objects hod_curve hod_vertices
       ho_last ho_objects ho_mode].
  split.
  - intros (-> & -> & -> & -> & -> & _). repeat split.
  - intros (-> & -> & -> & -> & ->). repeat split.
Qed.

Lemma bmd_eqv_ho : forall v ed md co h h',
  hod_eqv h h' -> bmd_eqv (mkBMD v ed md co h) (mkBMD v ed md co h').
Proof. intros. unfold bmd_eqv. cbn [bmd_version bmd_editor bmd_metadata bmd_colors bmd_ho]. auto. Qed.

Lemma hod_eqv_sym : forall a b, hod_eqv a b -> hod_eqv b a.
Proof. intros a b. rewrite !hod_eqv_fields. intros (-> & -> & -> & -> & ->). repeat split. Qed.
Lemma hod_eqv_trans : forall a b c, hod_eqv a b -> hod_eqv b c -> hod_eqv a c.
Proof.
  intros a b c. rewrite !hod_eqv_fields.
  intros (-> & -> & -> & -> & ->) (-> & -> & -> & -> & ->). repeat split.
Qed.

(* ------------------------------------------------------------------ *)
(* T06a                                                                *)

(* the six single-section decoders: the own parser by SectionsFacts, every
   other entry of the record is a no-op that never rejects *)
Lemma simple_rejected_noop : forall S (p : S -> str -> S * res),
  (forall st l, snd (p st l) = Rejected -> fst (p st l) = st) ->
  forall which sec st l,
  snd (parser_of (simple_parsers which p) sec st l) = Rejected ->
  fst (parser_of (simple_parsers which p) sec st l) = st.
Proof. intros S p Hp which sec st l. destruct which, sec; cbn; auto. Qed.

(* case on the inner parser of the wrapper at hand, bringing in its own
   "Rejected leaves the state alone" fact *)
Ltac rej_kv lem a b :=
  let HR := fresh "HR" in
  pose proof (lem a b) as HR;
  destruct (_ a b) as [? ?] in HR |- *.

Ltac rej_inner :=
  match goal with
  | |- context [parse_general ?a ?b] =>
      let HR := fresh "HR" in pose proof (parse_general_rejected a b) as HR;
      destruct (parse_general a b) as [? ?]
  | |- context [parse_editor ?a ?b] =>
      let HR := fresh "HR" in pose proof (parse_editor_rejected a b) as HR;
      destruct (parse_editor a b) as [? ?]
  | |- context [parse_metadata ?a ?b] =>
      let HR := fresh "HR" in pose proof (parse_metadata_rejected a b) as HR;
      destruct (parse_metadata a b) as [? ?]
  | |- context [parse_difficulty ?a ?b] =>
      let HR := fresh "HR" in pose proof (parse_difficulty_rejected a b) as HR;
      destruct (parse_difficulty a b) as [? ?]
  | |- context [parse_events ?a ?b] =>
      let HR := fresh "HR" in pose proof (parse_events_rejected a b) as HR;
      destruct (parse_events a b) as [? ?]
  | |- context [parse_colors ?a ?b] =>
      let HR := fresh "HR" in pose proof (parse_colors_rejected a b) as HR;
      destruct (parse_colors a b) as [? ?]
  | |- context [parse_timing_points ?a ?b] =>
      let HR := fresh "HR" in pose proof (parse_timing_points_rejected a b) as HR;
      destruct (parse_timing_points a b) as [[? ?]| |]
  | |- context [parse_hit_objects ?a ?b] =>
      let HR := fresh "HR" in pose proof (rejected_state a b) as HR;
      destruct (parse_hit_objects a b) as [[? ?]| |]
  end;
  cbn [obind fst snd] in *.

Ltac ids :=
  rewrite ?tpd_with_general_id, ?tpd_with_core_id, ?hod_with_tp_id, ?hod_with_core_id.

Theorem tp_rejected_noop : forall sec st l,
  snd (parser_of tp_parsers sec st l) = Rejected ->
  fst (parser_of tp_parsers sec st l) = st.
Proof.
  intros sec [s|w|] l; [|destruct sec; cbn; discriminate ..].
  destruct sec; open_parsers; unwrap; try reflexivity; rej_inner; try discriminate;
    intros ->.
  - rewrite (HR eq_refl). ids. reflexivity.
  - rewrite (HR _ eq_refl). ids. reflexivity.
Qed.

Lemma hod_with_core_eqv : forall s c, same_but_scratch (hod_core s) c -> hod_eqv (hod_with_core s c) s.
Proof.
  intros [tp d e la cu ve ob] [la' cu' ve' ob' m'] (H1 & H2 & H3).
  cbn in H1, H2. subst la' ob'. apply hod_eqv_fields. cbn. repeat split.
Qed.

Theorem ho_rejected_noop : forall sec st l,
  snd (parser_of ho_parsers sec st l) = Rejected ->
  oeqv hod_eqv (fst (parser_of ho_parsers sec st l)) st.
Proof.
  intros sec [s|w|] l; [|destruct sec; cbn; discriminate ..].
  destruct sec; open_parsers; unwrap; try discriminate; rej_inner; try discriminate;
    intros ->; cbn [oeqv].
  - rewrite (HR eq_refl). ids. apply hod_eqv_refl.
  - rewrite (HR eq_refl). destruct s; apply hod_eqv_refl.
  - rewrite (HR eq_refl). destruct s; apply hod_eqv_refl.
  - rewrite (HR _ eq_refl). ids. apply hod_eqv_refl.
  - apply hod_with_core_eqv. exact (HR _ eq_refl).
Qed.

Theorem bm_rejected_noop : forall sec st l,
  snd (parser_of bm_parsers sec st l) = Rejected ->
  oeqv bmd_eqv (fst (parser_of bm_parsers sec st l)) st.
Proof.
  intros sec [s|w|] l; [|destruct sec; cbn; discriminate ..].
  destruct sec; open_parsers; unwrap; try discriminate; rej_inner; try discriminate;
    intros ->; cbn [oeqv].
  - rewrite (HR eq_refl). ids. destruct s; apply bmd_eqv_refl.
  - rewrite (HR eq_refl). destruct s; apply bmd_eqv_refl.
  - rewrite (HR eq_refl). destruct s; apply bmd_eqv_refl.
  - rewrite (HR eq_refl). destruct s as [v ed md co hh]; destruct hh; apply bmd_eqv_refl.
  - rewrite (HR eq_refl). destruct s as [v ed md co hh]; destruct hh; apply bmd_eqv_refl.
  - rewrite (HR _ eq_refl). ids. destruct s; apply bmd_eqv_refl.
  - rewrite (HR eq_refl). destruct s; apply bmd_eqv_refl.
  - destruct s as [v ed md co hh]. proj_simpl. apply bmd_eqv_ho.
    apply hod_with_core_eqv. exact (HR _ eq_refl).
Qed.

(* ------------------------------------------------------------------ *)
(* T06b                                                                *)

(* the hit-object parser on two states that differ in the scratch buffers *)
Ltac scratch_inner :=
  match goal with
  | Hs : same_but_scratch ?a ?a' |- context [parse_hit_objects ?a ?l] =>
      let c1 := fresh "c" in let r1 := fresh "r" in let E1 := fresh "E" in
      let c2 := fresh "c" in let r2 := fresh "r" in let E2 := fresh "E" in
      let Hc := fresh "Hc" in
      destruct (parse_hit_objects_total a l) as (c1 & r1 & E1);
      destruct (parse_hit_objects_total a' l) as (c2 & r2 & E2);
      destruct (scratch_irrelevant _ _ _ _ _ _ _ Hs E1 E2) as (-> & Hc);
      rewrite E1, E2; cbn [obind fst snd]
  end.

Lemma hod_with_core_congr : forall tp d e la cu ve ob cu' ve' c c',
  same_but_scratch c c' ->
  hod_eqv (hod_with_core (mkHOD tp d e la cu ve ob) c) (hod_with_core (mkHOD tp d e la cu' ve' ob) c').
Proof.
  intros tp d e la cu ve ob cu' ve' [l1 c1 v1 o1 m1] [l2 c2 v2 o2 m2] (H1 & H2 & H3).
  cbn in H1, H2. subst l2 o2. apply hod_eqv_fields. cbn. repeat split.
Qed.

Theorem ho_congruence : forall sec st st' l,
  oeqv hod_eqv st st' ->
  oeqv hod_eqv (fst (parser_of ho_parsers sec st l)) (fst (parser_of ho_parsers sec st' l)) /\
  snd (parser_of ho_parsers sec st l) = snd (parser_of ho_parsers sec st' l).
Proof.
  intros sec [a|v|] [b|w|] l H; cbn [oeqv] in H; try contradiction;
    [| subst w; destruct sec; split; reflexivity | destruct sec; split; exact I || reflexivity ].
  pose proof H as (_ & _ & _ & Hs).
  apply hod_eqv_fields in H.
  destruct a as [tp d e la cu ve ob], b as [tp' d' e' la' cu' ve' ob'].
  cbn [hod_tp hod_difficulty hod_events hod_last hod_objects] in H.
  destruct H as (<- & <- & <- & <- & <-).
  destruct sec; open_parsers; unwrap; proj_simpl;
    try (split; [apply hod_eqv_fields; cbn; repeat split|reflexivity]);
    try scratch_inner; repeat case_inner;
    (split; [cbn [oeqv]|reflexivity]);
    try reflexivity; try exact I;
    try (apply hod_eqv_fields; cbn; repeat split; fail).
  apply hod_with_core_congr. exact Hc.
Qed.

Theorem bm_congruence : forall sec st st' l,
  oeqv bmd_eqv st st' ->
  oeqv bmd_eqv (fst (parser_of bm_parsers sec st l)) (fst (parser_of bm_parsers sec st' l)) /\
  snd (parser_of bm_parsers sec st l) = snd (parser_of bm_parsers sec st' l).
Proof.
  intros sec [a|v|] [b|w|] l H; cbn [oeqv] in H; try contradiction;
    [| subst w; destruct sec; split; reflexivity | destruct sec; split; exact I || reflexivity ].
  destruct a as [v ed md co ha], b as [v' ed' md' co' hb].
  destruct H as (H1 & H2 & H3 & H4 & H). cbn in H1, H2, H3, H4. subst v' ed' md' co'.
  cbn [bmd_ho] in H.
  pose proof H as (_ & _ & _ & Hs).
  apply hod_eqv_fields in H.
  destruct ha as [tp d e la cu ve ob], hb as [tp' d' e' la' cu' ve' ob'].
  cbn [hod_tp hod_difficulty hod_events hod_last hod_objects] in H.
  destruct H as (<- & <- & <- & <- & <-).
  destruct sec; open_parsers; unwrap; proj_simpl;
    try (split; [apply bmd_eqv_ho; apply hod_eqv_fields; cbn; repeat split|reflexivity]);
    try scratch_inner; repeat case_inner;
    (split; [cbn [oeqv]|reflexivity]);
    try reflexivity; try exact I;
    try (apply bmd_eqv_ho; apply hod_eqv_fields; cbn; repeat split; fail).
  apply bmd_eqv_ho. apply hod_with_core_congr. exact Hc.
Qed.

(* the finishing conversions read hit_objects, never the scratch buffers *)
Section WithDist.
  Variable dist_of : Z -> list PCP -> option F64 -> outcome F64.

  Lemma hod_finish_eqv : forall a b, hod_eqv a b -> hod_finish dist_of a = hod_finish dist_of b.
  Proof.
    intros a b H. apply hod_eqv_fields in H. destruct H as (Ht & Hd & He & _ & Ho).
    unfold hod_finish. rewrite Ht, Hd, He, Ho. reflexivity.
  Qed.

  Lemma ho_finish_eqv : forall st st', oeqv hod_eqv st st' ->
    obind st (hod_finish dist_of) = obind st' (hod_finish dist_of).
  Proof.
    intros [a|v|] [b|w|] H; cbn [oeqv] in H; try contradiction; cbn [obind];
      [apply hod_finish_eqv; exact H | congruence | reflexivity].
  Qed.

  Lemma bm_finish_eqv : forall st st', oeqv bmd_eqv st st' ->
    obind st (bmd_finish dist_of) = obind st' (bmd_finish dist_of).
  Proof.
    intros [a|v|] [b|w|] H; cbn [oeqv] in H; try contradiction; cbn [obind];
      [| congruence | reflexivity].
    destruct H as (H1 & H2 & H3 & H4 & H). unfold bmd_finish.
    rewrite (hod_finish_eqv _ _ H), H1, H2, H3, H4. reflexivity.
  Qed.

  (* ---------------------------------------------------------------- *)
  (* T06c                                                               *)

  (* "l is routed to the parser of sec and rejected there", after [pre] *)
  Definition rejected_after {S} (create : Z -> S) (ps : parsers S) (pre : list str) (l : str)
             (sec : section) : Prop :=
    section_after (skip ps) pre = Some sec /\ skip ps l = false /\ section_of_line l = None /\
    snd (parser_of ps sec (state_after create ps pre) l) = Rejected.

  Lemma simple_rejected_absent : forall S (dflt : S) which (p : S -> str -> S * res),
    (forall st l, snd (p st l) = Rejected -> fst (p st l) = st) ->
    forall pre l post sec,
    rejected_after (fun _ => dflt) (simple_parsers which p) pre l sec ->
    driver (fun _ => dflt) (simple_parsers which p) (fun s => s) (pre ++ l :: post)
    = driver (fun _ => dflt) (simple_parsers which p) (fun s => s) (pre ++ post).
  Proof.
    intros S dflt which p Hp pre l post sec (Hsec & Hs & Hh & Hrej).
    apply (FramingFacts.rejected_line_absent _ _ _ _ _ pre l post sec Hsec Hs Hh); [|exact Hrej].
    intros st. apply simple_rejected_noop. exact Hp.
  Qed.

  Theorem general_rejected_absent : forall pre l post sec,
    rejected_after (fun _ => general_default) (simple_parsers SecGeneral parse_general) pre l sec ->
    decode_general (pre ++ l :: post) = decode_general (pre ++ post).
  Proof. apply simple_rejected_absent. exact parse_general_rejected. Qed.
  Theorem editor_rejected_absent : forall pre l post sec,
    rejected_after (fun _ => editor_default) (simple_parsers SecEditor parse_editor) pre l sec ->
    decode_editor (pre ++ l :: post) = decode_editor (pre ++ post).
  Proof. apply simple_rejected_absent. exact parse_editor_rejected. Qed.
  Theorem metadata_rejected_absent : forall pre l post sec,
    rejected_after (fun _ => metadata_default) (simple_parsers SecMetadata parse_metadata) pre l sec ->
    decode_metadata (pre ++ l :: post) = decode_metadata (pre ++ post).
  Proof. apply simple_rejected_absent. exact parse_metadata_rejected. Qed.
  Theorem difficulty_rejected_absent : forall pre l post sec,
    rejected_after (fun _ => difficulty_default) (simple_parsers SecDifficulty parse_difficulty) pre l sec ->
    decode_difficulty (pre ++ l :: post) = decode_difficulty (pre ++ post).
  Proof. apply simple_rejected_absent. exact parse_difficulty_rejected. Qed.
  Theorem events_rejected_absent : forall pre l post sec,
    rejected_after (fun _ => events_default) (simple_parsers SecEvents parse_events) pre l sec ->
    decode_events (pre ++ l :: post) = decode_events (pre ++ post).
  Proof. apply simple_rejected_absent. exact parse_events_rejected. Qed.
  Theorem colors_rejected_absent : forall pre l post sec,
    rejected_after (fun _ => colors_default) (simple_parsers SecColors parse_colors) pre l sec ->
    decode_colors (pre ++ l :: post) = decode_colors (pre ++ post).
  Proof. apply simple_rejected_absent. exact parse_colors_rejected. Qed.

  Theorem timing_points_rejected_absent : forall pre l post sec,
    rejected_after (fun _ => Done tpd_create) tp_parsers pre l sec ->
    decode_timing_points (pre ++ l :: post) = decode_timing_points (pre ++ post).
  Proof.
    intros pre l post sec (Hsec & Hs & Hh & Hrej). unfold decode_timing_points.
    apply (FramingFacts.rejected_line_absent _ _ _ _ _ pre l post sec Hsec Hs Hh); [|exact Hrej].
    intros st. apply tp_rejected_noop.
  Qed.

  Theorem hit_objects_rejected_absent : forall pre l post sec,
    rejected_after (fun _ => Done hod_create) ho_parsers pre l sec ->
    decode_hit_objects dist_of (pre ++ l :: post) = decode_hit_objects dist_of (pre ++ post).
  Proof.
    intros pre l post sec (Hsec & Hs & Hh & Hrej). unfold decode_hit_objects.
    apply (rejected_line_absent_upto _ ho_parsers _ (oeqv hod_eqv)) with (sec := sec);
      try assumption.
    - intros sec' st st' l' H. exact (proj1 (ho_congruence sec' st st' l' H)).
    - exact ho_finish_eqv.
    - intros st. apply ho_rejected_noop.
  Qed.

  Theorem beatmap_rejected_absent : forall pre l post sec,
    rejected_after (fun v => Done (bmd_create v)) bm_parsers pre l sec ->
    decode_beatmap dist_of (pre ++ l :: post) = decode_beatmap dist_of (pre ++ post).
  Proof.
    intros pre l post sec (Hsec & Hs & Hh & Hrej). unfold decode_beatmap.
    apply (rejected_line_absent_upto _ bm_parsers _ (oeqv bmd_eqv)) with (sec := sec);
      try assumption.
    - intros sec' st st' l' H. exact (proj1 (bm_congruence sec' st st' l' H)).
    - exact bm_finish_eqv.
    - intros st. apply bm_rejected_noop.
  Qed.
End WithDist.

(* ------------------------------------------------------------------ *)
(* which lines the Beatmap decoder rejects, in terms of the section
   parsers themselves (the state is never a panic: bm_state_ok)          *)

Definition bm_rejects (sec : section) (s : BMD) (l : str) : Prop :=
  match sec with
  | SecGeneral => snd (parse_general (tpd_general (hod_tp (bmd_ho s))) l) = Rejected
  | SecEditor => snd (parse_editor (bmd_editor s) l) = Rejected
  | SecMetadata => snd (parse_metadata (bmd_metadata s) l) = Rejected
  | SecDifficulty => snd (parse_difficulty (hod_difficulty (bmd_ho s)) l) = Rejected
  | SecEvents => snd (parse_events (hod_events (bmd_ho s)) l) = Rejected
  | SecTimingPoints => parse_tp_line (tpg_of (tpd_general (hod_tp (bmd_ho s)))) l = None
  | SecColors => snd (parse_colors (bmd_colors s) l) = Rejected
  | SecHitObjects => exists c, parse_hit_objects (hod_core (bmd_ho s)) l = Done (c, Rejected)
  | SecVariables | SecCatchTheBeat | SecMania => False
  end.

Lemma bm_rejects_iff : forall sec s l,
  snd (parser_of bm_parsers sec (Done s) l) = Rejected <-> bm_rejects sec s l.
Proof.
  intros sec s l. destruct sec; open_parsers; unwrap; cbn [bm_rejects];
    try (split; [discriminate|contradiction]).
  - destruct (parse_general _ l); cbn [fst snd]. reflexivity.
  - destruct (parse_editor _ l); cbn [fst snd]. reflexivity.
  - destruct (parse_metadata _ l); cbn [fst snd]. reflexivity.
  - destruct (parse_difficulty _ l); cbn [fst snd]. reflexivity.
  - destruct (parse_events _ l); cbn [fst snd]. reflexivity.
  - unfold parse_timing_points. cbn [tpd_core ts_general].
    destruct (parse_tp_line _ l) as [r|]; cbn [obind fst snd].
    + destruct (apply_line _ r); cbn [obind fst snd]; split; discriminate.
    + split; reflexivity.
  - destruct (parse_colors _ l); cbn [fst snd]. reflexivity.
  - destruct (parse_hit_objects _ l) as [[c r]| |]; cbn [obind fst snd].
    + split; [intros ->; exists c; reflexivity|intros (c' & [= _ ->]); reflexivity].
    + split; [discriminate|intros (c' & ?); discriminate].
    + split; [discriminate|intros (c' & ?); discriminate].
Qed.

(* Consequences of [parse_hit_objects_spec], one per clause of the property
   text of C14, the C06-relevant facts (a rejected line only touches scratch
   buffers, scratch buffers never matter, a rejected line is as if absent), and
   "follows a spinner" in terms of the kind of the object produced. *)
From RM Require Import Model.Text Model.Num Model.HitSamples Model.PathString
     Model.HitObjectLine Model.HitObjectSpec.
From RM Require Import Proofs.HitSamplesFacts Proofs.PathStringFacts Proofs.FloatFacts14
     Proofs.HitObjectLineFacts.
From RM Require Import Gen.Generated.
From Coq Require Import ZifyBool.
From Flocq Require Import BinarySingleNaN.
Open Scope Z_scope.

(* ---------- a rejected line: which state fields can differ ---------- *)
(* two states agree up to the scratch buffers [curve_points] and [vertices] *)
Definition same_but_scratch (st st' : HOState) : Prop :=
  ho_last st' = ho_last st /\ ho_objects st' = ho_objects st /\ ho_mode st' = ho_mode st.

Lemma same_refl : forall st, same_but_scratch st st.
Proof. intros st. repeat split. Qed.

Ltac rejected_leaf :=
  match goal with
  | |- (?st, Rejected) = (?st', Rejected) -> _ => intros [= <-]; apply same_refl
  | |- accept _ _ _ _ = (_, Rejected) -> _ => unfold accept; discriminate
  end.

Theorem rejected_state : forall st line st',
  parse_hit_objects st line = Done (st', Rejected) -> same_but_scratch st st'.
Proof.
  intros st line st' H. destruct (parse_hit_objects_spec st line) as [scratch Hs].
  rewrite Hs in H. injection H as H. revert H. clear Hs. unfold line_spec_with.
  destruct (common_spec line) as [f|]; [|rejected_leaf].
  unfold kind_of_type.
  destruct (flag_bit hot_circle (f_type f)).
  { destruct (extras_spec _); rejected_leaf. }
  destruct (flag_bit hot_slider (f_type f)).
  { destruct (slider_fields_spec _ _) as [pre|]; [|rejected_leaf].
    destruct (path_spec _ _) as [cps ok]. destruct ok; [rejected_leaf|].
    intros [= <-]. repeat split. }
  destruct (flag_bit hot_spinner (f_type f)).
  { destruct (obnd _ _); [|rejected_leaf]. destruct (extras_spec _); rejected_leaf. }
  destruct (flag_bit hot_hold (f_type f)); [|rejected_leaf].
  destruct (nth_error _ 0) as [[|c s]|]; try rejected_leaf.
  destruct (obnd _ _); [|rejected_leaf]. destruct (banks_spec _ _ _); rejected_leaf.
Qed.

(* a rejected line that is not a slider line leaves curve_points alone *)
Theorem rejected_non_slider : forall st line st' f,
  parse_hit_objects st line = Done (st', Rejected) ->
  common_spec line = Some f -> kind_of_type (f_type f) <> Some 1 ->
  st' = st.
Proof.
  intros st line st' f H Hc Hk. destruct (parse_hit_objects_spec st line) as [scratch Hs].
  rewrite Hs in H. injection H as H. revert H. clear Hs. unfold line_spec_with. rewrite Hc.
  unfold kind_of_type in *.
  destruct (flag_bit hot_circle (f_type f)).
  { destruct (extras_spec _); [unfold accept; discriminate|intros [= <-]; reflexivity]. }
  destruct (flag_bit hot_slider (f_type f)); [exfalso; apply Hk; reflexivity|].
  destruct (flag_bit hot_spinner (f_type f)).
  { destruct (obnd _ _); [|intros [= <-]; reflexivity].
    destruct (extras_spec _); [unfold accept; discriminate|intros [= <-]; reflexivity]. }
  destruct (flag_bit hot_hold (f_type f)); [|intros [= <-]; reflexivity].
  destruct (nth_error _ 0) as [[|c s]|]; try (unfold accept; discriminate).
  destruct (obnd _ _); [|intros [= <-]; reflexivity].
  destruct (banks_spec _ _ _); [unfold accept; discriminate|intros [= <-]; reflexivity].
Qed.

(* ---------- an accepted line ---------- *)
Definition kind_tag (k : HitObjectKind) : Z :=
  match k with KCircle _ => 0 | KSlider _ => 1 | KSpinner _ => 2 | KHold _ => 3 end.

Definition kind_ok (st : HOState) (f : Fields) (k : HitObjectKind) : Prop :=
  let t := f_type f in
  match k with
  | KCircle c =>
      ci_pos c = f_pos f /\ ci_new_combo c = starts_combo st t /\ ci_combo_offset c = combo_offset_spec t
  | KSlider s =>
      sl_pos s = f_pos f /\ sl_new_combo s = starts_combo st t /\ sl_combo_offset s = combo_offset_spec t /\
      sl_mode s = ho_mode st /\
      (exists raw, obnd (nth_error (f_rest f) 1) pn_i32 = Some raw /\ raw <= repeat_cap /\
                   sl_repeat_count s = Z.max 0 (raw - 1)) /\
      length (sl_node_samples s) = Z.to_nat (sl_repeat_count s + 2) /\
      sl_expected_dist s = odflt None (length_spec (nth_error (f_rest f) 2)) /\
      (forall v, sl_expected_dist s = Some v -> D.ge v D.eps = true /\ D.lt D.zero v = true) /\
      sl_control_points s = fst (path_spec (odflt [] (nth_error (f_rest f) 0)) (f_pos f)) /\
      snd (path_spec (odflt [] (nth_error (f_rest f) 0)) (f_pos f)) = true
  | KSpinner s =>
      sp_pos s = spinner_pos /\ D.le D.zero (sp_duration s) = true /\
      sp_new_combo s = flag_bit hot_new_combo t
  | KHold h =>
      hd_pos_x h = px (f_pos f) /\ D.le D.zero (hd_duration h) = true
  end.

Lemma node_samples_length : forall n bank sound a b nodes,
  node_samples_spec n bank sound a b = Some nodes -> length nodes = n.
Proof.
  intros n bank sound a b nodes. unfold node_samples_spec.
  destruct (all_some _) as [banks|] eqn:E; cbn [omap]; [|discriminate]. intros [= <-].
  apply all_some_length in E. rewrite map_length, seq_length in E.
  rewrite map_length, combine_length, seq_length, E. apply Nat.min_id.
Qed.

Lemma common_spec_start_finite : forall line f, common_spec line = Some f -> is_finite (f_start f) = true.
Proof.
  intros line f. unfold common_spec.
  destruct (nth_error _ 0); [|discriminate]. destruct (nth_error _ 1); [|discriminate].
  destruct (nth_error _ 2) as [t|]; [|discriminate]. destruct (nth_error _ 3); [|discriminate].
  destruct (nth_error _ 4); [|discriminate].
  destruct (pn_f32_lim _ _); [|discriminate]. destruct (pn_f32_lim _ _); [|discriminate].
  destruct (pn_f64 t) as [tv|] eqn:Et; [|discriminate].
  destruct (parse_i32_raw _); [|discriminate]. destruct (parse_i32_raw _); [|discriminate].
  intros [= <-]. cbn [f_start]. eapply pn_f64_finite. exact Et.
Qed.

Ltac leaf K B0 B1 B2 B3 f :=
  eexists f, K, _;
  split; [reflexivity|];
  split; [unfold kind_of_type; rewrite ?B0, ?B1, ?B2, ?B3; reflexivity|];
  cbn [ho_objects ho_last ho_mode ho_curve ho_vertices h_start h_kind kind_tag kind_ok
       ci_pos ci_new_combo ci_combo_offset sp_pos sp_duration sp_new_combo hd_pos_x hd_duration].

Theorem accepted_line : forall st line st',
  parse_hit_objects st line = Done (st', Ok) ->
  exists f k obj,
    common_spec line = Some f /\ kind_of_type (f_type f) = Some k /\
    ho_objects st' = ho_objects st ++ [obj] /\
    ho_last st' = Some (kept_type (f_type f)) /\ ho_mode st' = ho_mode st /\
    h_start obj = f_start f /\ kind_tag (h_kind obj) = k /\ kind_ok st f (h_kind obj) /\
    (k <> 1 -> ho_curve st' = ho_curve st /\ ho_vertices st' = ho_vertices st) /\
    (k = 1 -> ho_curve st' = []).
Proof.
  intros st line st' H. destruct (parse_hit_objects_spec st line) as [scratch Hs].
  rewrite Hs in H. injection H as H. revert H. clear Hs. unfold line_spec_with.
  destruct (common_spec line) as [f|] eqn:Ec; [|discriminate].
  pose proof (common_spec_start_finite _ _ Ec) as Fstart.
  unfold kind_of_type.
  destruct (flag_bit hot_circle (f_type f)) eqn:B0; [|
  destruct (flag_bit hot_slider (f_type f)) eqn:B1; [|
  destruct (flag_bit hot_spinner (f_type f)) eqn:B2; [|
  destruct (flag_bit hot_hold (f_type f)) eqn:B3; [|discriminate]]]].
  - (* circle *)
    destruct (extras_spec _) as [bank|]; [|discriminate]. unfold accept. intros [= <-].
    leaf 0 B0 B0 B0 B0 f. repeat split; try reflexivity; try (intros _; split; reflexivity); try (intros; discriminate).
  - (* slider *)
    destruct (slider_fields_spec _ _) as [pre|] eqn:Epre; [|discriminate].
    destruct (path_spec _ _) as [cps ok] eqn:Epath. destruct ok; [|discriminate].
    unfold accept. intros [= <-].
    leaf 1 B0 B1 B1 B1 f.
    do 5 (split; [reflexivity|]).
    split; [|split; [intros Hn; exfalso; apply Hn; reflexivity|intros _; reflexivity]].
    cbn [kind_ok h_kind].
    unfold slider_fields_spec in Epre.
    destruct (nth_error (f_rest f) 0) as [path|] eqn:E0; [|discriminate].
    destruct (obnd (nth_error (f_rest f) 1) pn_i32) as [raw|] eqn:E1; [|discriminate].
    destruct (repeat_cap <? raw) eqn:Ecap; [discriminate|].
    destruct (length_spec (nth_error (f_rest f) 2)) as [len|] eqn:El; [|discriminate].
    destruct (match nth_error (f_rest f) 5 with Some s => _ | None => _ end) as [bank|]; [|discriminate].
    destruct (node_samples_spec _ _ _ _ _) as [nodes|] eqn:En; cbn [omap] in Epre; [|discriminate].
    injection Epre as <-. cbn [spre_point_str spre_repeat spre_len spre_nodes spre_bank] in *.
    cbn [sl_pos sl_new_combo sl_combo_offset sl_mode sl_repeat_count sl_node_samples
         sl_expected_dist sl_control_points odflt].
    rewrite Epath. cbn [fst snd].
    do 4 (split; [reflexivity|]).
    split; [exists raw; split; [reflexivity|split; [lia|reflexivity]]|].
    split; [eapply node_samples_length; exact En|].
    split; [reflexivity|].
    split; [|split; reflexivity].
    intros v Hv. subst len. unfold length_spec in El.
    destruct (nth_error (f_rest f) 2) as [s|]; [|discriminate].
    destruct (pn_f64_lim coord_lim64 s) as [w|]; cbn [omap] in El; [|discriminate].
    injection El as El. destruct (D.ge w D.eps) eqn:Eg; [|discriminate]. injection El as <-.
    split; [exact Eg|apply ge_eps_pos; exact Eg].
  - (* spinner *)
    destruct (obnd _ _) as [e|]; [|discriminate].
    destruct (extras_spec _) as [bank|]; [|discriminate]. unfold accept. intros [= <-].
    leaf 2 B0 B1 B2 B2 f. repeat split; try reflexivity; try (intros _; split; reflexivity); try (intros; discriminate).
    apply max_lit_zero_nonneg.
  - (* hold *)
    destruct (nth_error (f_rest f) 0) as [[|c s]|].
    + unfold accept. intros [= <-]. leaf 3 B0 B1 B2 B3 f. repeat split; try reflexivity; try (intros _; split; reflexivity); try (intros; discriminate).
      apply hold_duration_nonneg; assumption.
    + destruct (obnd (nth_error (split_on 58 (c :: s)) 0) pn_f64) as [e|] eqn:Ee; [|discriminate].
      destruct (banks_spec _ _ _) as [bank|]; [|discriminate]. unfold accept. intros [= <-].
      leaf 3 B0 B1 B2 B3 f. repeat split; try reflexivity; try (intros _; split; reflexivity); try (intros; discriminate).
      apply hold_duration_nonneg; [assumption|].
      destruct (nth_error (split_on 58 (c :: s)) 0) as [es|]; [|discriminate]. cbn [obnd] in Ee.
      eapply pn_f64_finite. exact Ee.
    + unfold accept. intros [= <-]. leaf 3 B0 B1 B2 B3 f. repeat split; try reflexivity; try (intros _; split; reflexivity); try (intros; discriminate).
      apply hold_duration_nonneg; assumption.
Qed.

(* ---------- positions ---------- *)
Lemma parse_pos_bound : forall s v, pn_f32_lim coord_lim32 s = Some v ->
  exists n, trunc32 v = S.of_Z n /\ - max_coordinate_value <= n <= max_coordinate_value.
Proof.
  intros s v H. destruct (coord_trunc_bound s v H) as [E B].
  exists (Btrunc v). unfold trunc32. rewrite E. split; [reflexivity|exact B].
Qed.

Theorem position_truncated : forall line f, common_spec line = Some f ->
  exists nx ny, f_pos f = mkPos (S.of_Z nx) (S.of_Z ny) /\
                - max_coordinate_value <= nx <= max_coordinate_value /\
                - max_coordinate_value <= ny <= max_coordinate_value.
Proof.
  intros line f. unfold common_spec.
  destruct (nth_error _ 0) as [x|]; [|discriminate]. destruct (nth_error _ 1) as [y|]; [|discriminate].
  destruct (nth_error _ 2); [|discriminate]. destruct (nth_error _ 3); [|discriminate].
  destruct (nth_error _ 4); [|discriminate].
  destruct (pn_f32_lim coord_lim32 x) as [xv|] eqn:Ex; [|discriminate].
  destruct (pn_f32_lim coord_lim32 y) as [yv|] eqn:Ey; [|discriminate].
  destruct (pn_f64 _); [|discriminate].
  destruct (parse_i32_raw _); [|discriminate]. destruct (parse_i32_raw _); [|discriminate].
  intros [= <-]. cbn [f_pos].
  destruct (parse_pos_bound _ _ Ex) as [nx [Enx Bx]]. destruct (parse_pos_bound _ _ Ey) as [ny [Eny By]].
  exists nx, ny. rewrite Enx, Eny. repeat split; lia.
Qed.

(* path points: truncated likewise, then made relative to the slider position *)
Theorem path_point_truncated : forall tok off p, read_point tok off = Some p ->
  exists sx sy x y rest, split_on 58 tok = sx :: sy :: rest /\
    pn_f64_lim coord_lim64 sx = Some x /\ pn_f64_lim coord_lim64 sy = Some y /\
    p = mkPCP (pos_sub (mkPos (S.of_Z (f64_as_i32 x)) (S.of_Z (f64_as_i32 y))) off) None.
Proof.
  intros tok off p. unfold read_point.
  destruct (split_on 58 tok) as [|sx [|sy rest]]; try discriminate.
  destruct (pn_f64_lim coord_lim64 sx) as [x|] eqn:Ex; [|discriminate].
  destruct (pn_f64_lim coord_lim64 sy) as [y|] eqn:Ey; [|discriminate].
  intros [= <-]. exists sx, sy, x, y, rest. repeat split; try assumption; reflexivity.
Qed.

(* ---------- lines that are rejected outright ---------- *)
Theorem no_kind_bit_rejected : forall st line f,
  common_spec line = Some f -> kind_of_type (f_type f) = None ->
  parse_hit_objects st line = Done (st, Rejected).
Proof.
  intros st line f Hc Hk. destruct (parse_hit_objects_spec st line) as [scratch Hs].
  rewrite Hs. unfold line_spec_with. rewrite Hc, Hk. reflexivity.
Qed.

Theorem bad_common_fields_rejected : forall st line,
  common_spec line = None -> parse_hit_objects st line = Done (st, Rejected).
Proof.
  intros st line Hc. destruct (parse_hit_objects_spec st line) as [scratch Hs].
  rewrite Hs. unfold line_spec_with. rewrite Hc. reflexivity.
Qed.

Theorem repeats_over_cap_rejected : forall st line f raw,
  common_spec line = Some f -> kind_of_type (f_type f) = Some 1 ->
  obnd (nth_error (f_rest f) 1) pn_i32 = Some raw -> repeat_cap < raw ->
  parse_hit_objects st line = Done (st, Rejected).
Proof.
  intros st line f raw Hc Hk Hr Hcap. destruct (parse_hit_objects_spec st line) as [scratch Hs].
  rewrite Hs. unfold line_spec_with. rewrite Hc, Hk. unfold slider_fields_spec. rewrite Hr.
  destruct (nth_error (f_rest f) 0); [|reflexivity].
  replace (repeat_cap <? raw) with true by lia. reflexivity.
Qed.

(* ---------- combo offset ---------- *)
Theorem combo_offset_only_with_new_combo : forall t,
  (flag_bit hot_new_combo t = false -> combo_offset_spec t = 0) /\
  (flag_bit hot_new_combo t = true -> combo_offset_spec t = combo_bits t) /\
  0 <= combo_offset_spec t <= 7.
Proof.
  intros t. unfold combo_offset_spec. pose proof (combo_bits_range t).
  destruct (flag_bit hot_new_combo t); repeat split; try discriminate; try reflexivity; lia.
Qed.

(* ---------- "follows a spinner": the remembered type bits name the object's kind ---------- *)
Definition last_is_spinner (st : HOState) : bool :=
  match last_opt (ho_objects st) with
  | Some o => kind_tag (h_kind o) =? 2
  | None => false
  end.

(* the state's [last_object] describes the last pushed object *)
Definition coherent (st : HOState) : Prop :=
  match ho_last st, last_opt (ho_objects st) with
  | None, None => True
  | Some k, Some o => exists t, k = kept_type t /\ kind_of_type t = Some (kind_tag (h_kind o))
  | _, _ => False
  end.

Lemma last_opt_snoc : forall {A} (l : list A) x, last_opt (l ++ [x]) = Some x.
Proof.
  intros A l x. induction l as [|a l IH]; [reflexivity|].
  cbn [app]. destruct (l ++ [x]) eqn:E; [destruct l; discriminate|]. exact IH.
Qed.

Lemma coherent_create : forall mode, coherent (ho_create mode).
Proof. intros mode. exact I. Qed.

Theorem coherent_step : forall st line st' r,
  coherent st -> parse_hit_objects st line = Done (st', r) -> coherent st'.
Proof.
  intros st line st' r Hc H. destruct r.
  - destruct (accepted_line _ _ _ H) as (f & k & obj & _ & Hk & Ho & Hl & _ & _ & Ht & _).
    unfold coherent. rewrite Hl, Ho, last_opt_snoc. exists (f_type f). rewrite Ht. split; [reflexivity|exact Hk].
  - destruct (rejected_state _ _ _ H) as (Hl & Ho & _). unfold coherent. rewrite Hl, Ho. exact Hc.
Qed.

Lemma kept_type_bit : forall f t, 0 < f -> f = 2 ^ Z.log2 f ->
  Z.testbit hot_combo_offset (Z.log2 f) = false -> Z.testbit hot_new_combo (Z.log2 f) = false ->
  flag_bit f (kept_type t) = flag_bit f t.
Proof.
  intros f t H1 H2 H3 H4. rewrite <- cleared_kept. unfold flag_bit.
  apply cleared_bit; try assumption. apply Z.log2_nonneg.
Qed.

(* dropping the combo bits does not change which kind a type names *)
Lemma kind_of_kept_type : forall t, kind_of_type (kept_type t) = kind_of_type t.
Proof.
  intros t. unfold kind_of_type. rewrite !kept_type_bit by reflexivity. reflexivity.
Qed.

(* the parser's spinner test on the remembered type bits IS "the last object
   pushed is a spinner", in every reachable state and with no exception *)
Theorem follows_spinner_by_kind : forall st,
  coherent st -> last_object_was_spinner st = last_is_spinner st.
Proof.
  intros st Hc. rewrite last_object_was_spinner_spec. unfold coherent in Hc. unfold last_is_spinner.
  destruct (ho_last st) as [k|] eqn:El; destruct (last_opt (ho_objects st)) as [o|]; try contradiction;
    [|reflexivity].
  destruct Hc as [t [Hk Ht]]. subst k. unfold type_is_spinner. rewrite kind_of_kept_type, Ht.
  destruct (h_kind o); reflexivity.
Qed.

Theorem first_object_by_objects : forall st,
  coherent st -> first_object st = match ho_objects st with [] => true | _ => false end.
Proof.
  intros st Hc. unfold coherent in Hc. unfold first_object.
  destruct (ho_last st) as [k|]; destruct (ho_objects st) as [|o r] eqn:Eo; try reflexivity.
  - contradiction.
  - exfalso. change (o :: r) with ([] ++ o :: r) in Hc.
    destruct (last_opt ([] ++ o :: r)) eqn:El; [exact Hc|].
    clear - El. cbn [app] in El. revert o El. induction r as [|a r IH]; intros o El; [discriminate|].
    cbn [last_opt] in El. apply (IH a). exact El.
Qed.

(* "is the first object or directly follows a spinner", read off the list of
   objects produced so far (rejected lines leave no trace there) *)
Definition follows_by_kind (objs : list HitObject) : bool :=
  match last_opt objs with
  | None => true
  | Some o => match h_kind o with KSpinner _ => true | _ => false end
  end.

Lemma last_opt_none : forall {A} (l : list A), last_opt l = None -> l = [].
Proof.
  intros A l. induction l as [|a l IH]; [reflexivity|]. cbn [last_opt].
  destruct l as [|b l]; [discriminate|]. intros H. apply IH in H. discriminate.
Qed.

Theorem starts_combo_by_kind : forall st t,
  coherent st ->
  starts_combo st t = flag_bit hot_new_combo t || follows_by_kind (ho_objects st).
Proof.
  intros st t Hc. unfold starts_combo, follows_by_kind. f_equal.
  unfold coherent in Hc.
  destruct (ho_last st) as [k|]; destruct (last_opt (ho_objects st)) as [o|]; try contradiction;
    [|reflexivity].
  destruct Hc as [t0 [Hk Ht]]. subst k. unfold type_is_spinner. rewrite kind_of_kept_type, Ht.
  destruct (h_kind o); reflexivity.
Qed.

(* the new-combo flag of a circle or slider *)
Definition new_combo_of (k : HitObjectKind) : option bool :=
  match k with
  | KCircle c => Some (ci_new_combo c)
  | KSlider s => Some (sl_new_combo s)
  | _ => None
  end.

(* an accepted circle / slider line, in a state whose remembered type
   describes the last object: the flag is the line's own new-combo bit, or
   first object, or the object pushed before it is a spinner -- by KIND *)
Theorem new_combo_by_kind : forall st line st',
  coherent st ->
  parse_hit_objects st line = Done (st', Ok) ->
  exists f obj,
    common_spec line = Some f /\ ho_objects st' = ho_objects st ++ [obj] /\
    forall b, new_combo_of (h_kind obj) = Some b ->
      b = flag_bit hot_new_combo (f_type f) || follows_by_kind (ho_objects st).
Proof.
  intros st line st' Hc H.
  destruct (accepted_line _ _ _ H) as (f & k & obj & Hf & _ & Ho & _ & _ & _ & _ & Hk & _).
  exists f, obj. split; [exact Hf|]. split; [exact Ho|].
  intros b Hb. rewrite <- starts_combo_by_kind by exact Hc.
  destruct (h_kind obj) as [c|s|s|h]; cbn [new_combo_of kind_ok] in Hb, Hk; try discriminate.
  - injection Hb as <-. apply Hk.
  - injection Hb as <-. apply Hk.
Qed.

(* ---------- the scratch buffers never influence the outcome ---------- *)
Lemma same_sym : forall a b, same_but_scratch a b -> same_but_scratch b a.
Proof. intros a b (H1 & H2 & H3). repeat split; symmetry; assumption. Qed.
Lemma same_trans : forall a b c, same_but_scratch a b -> same_but_scratch b c -> same_but_scratch a c.
Proof. intros a b c (H1 & H2 & H3) (G1 & G2 & G3). repeat split; congruence. Qed.

Lemma line_spec_scratch : forall st1 st2 line s1 s2,
  same_but_scratch st1 st2 ->
  snd (line_spec_with st1 line s1) = snd (line_spec_with st2 line s2) /\
  same_but_scratch (fst (line_spec_with st1 line s1)) (fst (line_spec_with st2 line s2)).
Proof.
  intros [l1 c1 v1 o1 m1] [l2 c2 v2 o2 m2] line s1 s2 (Hl & Ho & Hm).
  cbn [ho_last ho_objects ho_mode] in Hl, Ho, Hm. subst l2 o2 m2.
  unfold line_spec_with, accept, starts_combo, same_but_scratch.
  cbn [ho_last ho_curve ho_vertices ho_objects ho_mode].
  repeat match goal with
         | |- context [match ?x with _ => _ end] => destruct x
         end; cbn [fst snd ho_last ho_objects ho_mode]; repeat split; reflexivity.
Qed.

(* two states that agree on everything except curve_points and vertices:
   same result flag, same hit_objects (hence the same pushed object), same
   last_object, and the output states again agree up to the two buffers *)
Theorem scratch_irrelevant : forall st1 st2 line st1' r1 st2' r2,
  same_but_scratch st1 st2 ->
  parse_hit_objects st1 line = Done (st1', r1) ->
  parse_hit_objects st2 line = Done (st2', r2) ->
  r1 = r2 /\ same_but_scratch st1' st2'.
Proof.
  intros st1 st2 line st1' r1 st2' r2 Hs H1 H2.
  destruct (parse_hit_objects_spec st1 line) as [s1 E1].
  destruct (parse_hit_objects_spec st2 line) as [s2 E2].
  rewrite E1 in H1. rewrite E2 in H2. injection H1 as H1. injection H2 as H2.
  pose proof (line_spec_scratch st1 st2 line s1 s2 Hs) as [Hr Hq].
  rewrite H1, H2 in Hr, Hq. cbn [fst snd] in Hr, Hq. split; assumption.
Qed.

(* ---------- running several lines (for examples and for C01/C06 users) ---------- *)
Definition step_line (st : HOState) (line : str) : HOState :=
  match parse_hit_objects st line with
  | Done (st', _) => st'
  | _ => st
  end.
Definition run_from (st : HOState) (lines : list str) : HOState := fold_left step_line lines st.
Definition run_lines (mode : Z) (lines : list str) : HOState := run_from (ho_create mode) lines.

Lemma step_scratch : forall st1 st2 l,
  same_but_scratch st1 st2 -> same_but_scratch (step_line st1 l) (step_line st2 l).
Proof.
  intros st1 st2 l Hs. unfold step_line.
  destruct (parse_hit_objects_total st1 l) as (a & ra & Ea).
  destruct (parse_hit_objects_total st2 l) as (b & rb & Eb).
  rewrite Ea, Eb. eapply scratch_irrelevant; eassumption.
Qed.

Lemma run_scratch : forall lines st1 st2,
  same_but_scratch st1 st2 -> same_but_scratch (run_from st1 lines) (run_from st2 lines).
Proof.
  intros lines. induction lines as [|l r IH]; intros st1 st2 Hs; [exact Hs|].
  unfold run_from in *. cbn [fold_left]. apply IH. apply step_scratch. exact Hs.
Qed.

(* a rejected line is as if absent: same hit_objects, same last_object at the end *)
Theorem rejected_line_absent : forall st pre l post st',
  parse_hit_objects (run_from st pre) l = Done (st', Rejected) ->
  same_but_scratch (run_from st (pre ++ l :: post)) (run_from st (pre ++ post)).
Proof.
  intros st pre l post st' H. unfold run_from in *.
  rewrite !fold_left_app. cbn [fold_left].
  apply run_scratch.
  replace (step_line (fold_left step_line pre st) l) with st'
    by (unfold step_line at 1; rewrite H; reflexivity).
  apply same_sym. eapply rejected_state. exact H.
Qed.

Lemma coherent_fold : forall lines st, coherent st -> coherent (fold_left step_line lines st).
Proof.
  intros lines. induction lines as [|l r IH]; intros st Hc; [exact Hc|].
  cbn [fold_left]. apply IH. unfold step_line.
  destruct (parse_hit_objects st l) as [[st' res]| |] eqn:E; try exact Hc.
  eapply coherent_step; eassumption.
Qed.

Lemma coherent_run : forall mode lines, coherent (run_lines mode lines).
Proof. intros. unfold run_lines, run_from. apply coherent_fold. apply coherent_create. Qed.

(* objects are only ever appended *)
Lemma step_objects : forall st l, exists rest, ho_objects (step_line st l) = ho_objects st ++ rest.
Proof.
  intros st l. unfold step_line.
  destruct (parse_hit_objects st l) as [[st' [|]]| |] eqn:E.
  - destruct (accepted_line _ _ _ E) as (f & k & obj & _ & _ & Ho & _). exists [obj]. exact Ho.
  - destruct (rejected_state _ _ _ E) as (_ & Ho & _). exists []. rewrite app_nil_r. exact Ho.
  - exists []. rewrite app_nil_r. reflexivity.
  - exists []. rewrite app_nil_r. reflexivity.
Qed.

Lemma run_objects : forall lines st, exists rest, ho_objects (run_from st lines) = ho_objects st ++ rest.
Proof.
  intros lines. induction lines as [|l r IH]; intros st.
  - exists []. rewrite app_nil_r. reflexivity.
  - unfold run_from in *. cbn [fold_left]. destruct (IH (step_line st l)) as [r2 H2].
    destruct (step_objects st l) as [r1 H1]. exists (r1 ++ r2). rewrite H2, H1, app_assoc. reflexivity.
Qed.

(* the forced new combo over a whole [HitObjects] section, for every sequence of
   lines: when line [l] is accepted after the lines [pre], the object it adds
   stands in the final list right behind the objects of [pre]; if it is a circle
   or a slider, its new-combo flag is the line's own new-combo bit, or it is the
   first object of the list, or the object right before it IS a spinner.
   Rejected lines in [pre] contribute no object, so they do not count. *)
Theorem new_combo_in_sequence : forall mode pre l post st',
  parse_hit_objects (run_lines mode pre) l = Done (st', Ok) ->
  exists f obj rest,
    common_spec l = Some f /\
    ho_objects (run_lines mode (pre ++ l :: post)) = ho_objects (run_lines mode pre) ++ obj :: rest /\
    forall b, new_combo_of (h_kind obj) = Some b ->
      b = flag_bit hot_new_combo (f_type f) || follows_by_kind (ho_objects (run_lines mode pre)).
Proof.
  intros mode pre l post st' H.
  destruct (new_combo_by_kind _ _ _ (coherent_run mode pre) H) as (f & obj & Hf & Ho & Hb).
  destruct (run_objects post st') as [rest Hr].
  exists f, obj, rest. split; [exact Hf|]. split; [|exact Hb].
  unfold run_lines, run_from in *. rewrite fold_left_app. cbn [fold_left].
  replace (step_line (fold_left step_line pre (ho_create mode)) l) with st'
    by (unfold step_line at 1; rewrite H; reflexivity).
  rewrite Hr, Ho, <- app_assoc. reflexivity.
Qed.

(* observations on a state, as integers *)
Definition obs_combo (st : HOState) : list (Z * Z) :=
  map (fun o => (kind_tag (h_kind o),
                 match h_kind o with
                 | KCircle c => hbz (ci_new_combo c)
                 | KSlider s => hbz (sl_new_combo s)
                 | KSpinner s => hbz (sp_new_combo s)
                 | KHold _ => 0 end)) (ho_objects st).
Definition obs_cp_counts (st : HOState) : list Z :=
  flat_map (fun o => match h_kind o with
                     | KSlider s => [Z.of_nat (length (sl_control_points s))]
                     | _ => [] end) (ho_objects st).


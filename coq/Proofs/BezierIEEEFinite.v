(* BezierIEEEFinite: some bound on FINITE coordinates is needed for T01g in
   binary32.  Witness: the Bezier segment
       P Q Q,   P = (2^23, 2^23 + 1),  Q = (2^23, 2^23)
   (from 2^23 on, neighbouring binary32 numbers are 1 apart).
     - its second difference is (0, 1): 1 > 0.25, not flat;
     - the midpoint of P and Q is (2^23, 2^23 + 1/2), a tie, rounded to the
       even neighbour: Q.  So the left child of P Q Q is P Q Q itself, bit
       for bit, and the right child is Q Q Q.
   The loop of approximate_bspline pops the segment, pushes Q Q Q and the
   segment, and is back where it started with a deeper stack: it never
   returns, for any amount of fuel; in the code `to_flatten` grows until the
   allocation fails.

   Not reachable from decoding (control points are within +-2^18 of the slider
   position); reachable through the public constructors.  Confirmed on the
   crate (probes/T01g_search, stream `out`; finding D25, extended). *)
From RM Require Import Model.ControlPoints Model.Curve Proofs.BezierRefine Proofs.BezierTermination.
From Flocq Require Import BinarySingleNaN.
Open Scope nat_scope.

Definition p_fin : Pos := mkPos (S.of_Z 8388608) (S.of_Z 8388609).
Definition q_fin : Pos := mkPos (S.of_Z 8388608) (S.of_Z 8388608).
Definition seg_fin : list Pos := [p_fin; q_fin; q_fin].
Definition seg_fin_right : list Pos := [q_fin; q_fin; q_fin].

Lemma avg2_p_q : avg2 p_fin q_fin = q_fin.
Proof.
  unfold avg2, pdiv, padd, p_fin, q_fin. cbn [px py].
  f_equal; apply B2SF_inj; vm_compute; reflexivity.
Qed.

Lemma avg2_q_q : avg2 q_fin q_fin = q_fin.
Proof.
  unfold avg2, pdiv, padd, q_fin. cbn [px py].
  f_equal; apply B2SF_inj; vm_compute; reflexivity.
Qed.

Lemma seg_fin_not_flat : flat_enough seg_fin = false.
Proof. vm_compute. reflexivity. Qed.

(* every coordinate is finite; on bits: 2^23 = 0x4B000000, 2^23 + 1 = 0x4B000001 *)
Lemma seg_fin_dump :
  map dump_pos seg_fin = [[1258291200; 1258291201]; [1258291200; 1258291200]; [1258291200; 1258291200]]%Z.
Proof. vm_compute. reflexivity. Qed.

Lemma seg_fin_finite :
  forallb (fun p => is_finite_SF (B2SF (px p)) && is_finite_SF (B2SF (py p))) seg_fin = true.
Proof. vm_compute. reflexivity. Qed.

(* the left child of the segment is the segment *)
Lemma seg_fin_subdiv : subdiv 3 seg_fin = (seg_fin, seg_fin_right).
Proof.
  unfold seg_fin, seg_fin_right. cbn [subdiv avg_step hd last app].
  rewrite !avg2_p_q, !avg2_q_q. reflexivity.
Qed.

Lemma step_seg_fin rest path :
  bspline_step1 (seg_fin :: rest, path) = inl (seg_fin :: seg_fin_right :: rest, path).
Proof.
  unfold bspline_step1. cbn [fst snd]. rewrite seg_fin_not_flat.
  change (length seg_fin) with 3. rewrite seg_fin_subdiv. reflexivity.
Qed.

(* n iterations later the segment is on top again, above n more arrays; the path is untouched *)
Lemma run_seg_fin n : forall rest path,
  run bspline_step1 n (seg_fin :: rest, path) = inl (seg_fin :: repeat seg_fin_right n ++ rest, path).
Proof.
  induction n as [|n IH]; intros rest path; [reflexivity|].
  cbn [run]. rewrite step_seg_fin, IH. f_equal. f_equal. f_equal.
  change (seg_fin_right :: rest) with ([seg_fin_right] ++ rest).
  rewrite app_assoc. f_equal. change [seg_fin_right] with (repeat seg_fin_right 1).
  rewrite <- repeat_app. replace (n + 1) with (S n) by lia. reflexivity.
Qed.

(* T01g for the IEEE instance, refuted for finite coordinates of magnitude 2^23: no fuel is enough *)
Theorem bezier_fin_never_returns fuel path :
  approximate_bezier_L1 fuel path seg_fin tt = OutOfFuel.
Proof.
  unfold approximate_bezier_L1, iter_fuel. rewrite iterP_run, run_seg_fin. reflexivity.
Qed.

(* the whole constructor, every libm, every fuel, every mode, every requested length *)
Definition slider_fin : list PathControlPoint :=
  [mkPCP p_fin (Some BSpline); mkPCP q_fin None; mkPCP q_fin None].

Theorem curve_fin_never_returns lm fuel mode e :
  curve_L1 lm fuel mode slider_fin e = OutOfFuel.
Proof.
  unfold curve_L1, calculate_path_L1, slider_fin.
  cbn [length map pc_pos cpath_loop aget nth_error obind pc_type andb Nat.ltb Nat.leb Nat.sub orb
       firstn skipn app calculate_subpath bez3].
  unfold bez3. fold seg_fin. rewrite bezier_fin_never_returns. reflexivity.
Qed.

(* ------------------------------------------------------------------ *)
(* The same from 2^22 on, where neighbouring binary32 numbers are 1/2 apart:
       P Q Q,   P = (2^22, 2^22 + 1),  Q = (2^22 + 1/2, 2^22 + 1/2).
   The second difference is (-1/2, 1/2), squared length 1/2 > 0.25.  The sums
   2^23 + 1/2 and 2^23 + 3/2 are ties at a spacing of 1 and round to even:
   the computed midpoint of P and Q is P.  So the left child is P P P (flat)
   and the right child is P Q Q, the segment itself: two iterations later the
   loop is where it started, with a longer path.  (Below 2^22 the search of
   probes/T01g_search found no segment on which the loop does not return.) *)
Definition p22 : Pos := mkPos (S.of_Z 4194304) (S.of_Z 4194305).
Definition q22 : Pos := mkPos (S.of_ZE 8388609 (-1) false) (S.of_ZE 8388609 (-1) false).
Definition seg22 : list Pos := [p22; q22; q22].
Definition seg22_left : list Pos := [p22; p22; p22].

Lemma avg2_p22_q22 : avg2 p22 q22 = p22.
Proof.
  unfold avg2, pdiv, padd, p22, q22. cbn [px py].
  f_equal; apply B2SF_inj; vm_compute; reflexivity.
Qed.

Lemma avg2_q22_q22 : avg2 q22 q22 = q22.
Proof.
  unfold avg2, pdiv, padd, q22. cbn [px py].
  f_equal; apply B2SF_inj; vm_compute; reflexivity.
Qed.

Lemma seg22_not_flat : flat_enough seg22 = false.
Proof. vm_compute. reflexivity. Qed.

Lemma seg22_left_flat : flat_enough seg22_left = true.
Proof. vm_compute. reflexivity. Qed.

(* 2^22 = 0x4A800000, 2^22 + 1/2 = 0x4A800001, 2^22 + 1 = 0x4A800002 *)
Lemma seg22_dump :
  map dump_pos seg22 = [[1249902592; 1249902594]; [1249902593; 1249902593]; [1249902593; 1249902593]]%Z.
Proof. vm_compute. reflexivity. Qed.

Lemma seg22_finite :
  forallb (fun p => is_finite_SF (B2SF (px p)) && is_finite_SF (B2SF (py p))) seg22 = true.
Proof. vm_compute. reflexivity. Qed.

Lemma seg22_subdiv : subdiv 3 seg22 = (seg22_left, seg22).
Proof.
  unfold seg22, seg22_left. cbn [subdiv avg_step hd last app].
  rewrite !avg2_p22_q22, !avg2_q22_q22, !avg2_p22_q22. reflexivity.
Qed.

Lemma step_seg22 rest path :
  bspline_step1 (seg22 :: rest, path) = inl (seg22_left :: seg22 :: rest, path).
Proof.
  unfold bspline_step1. cbn [fst snd]. rewrite seg22_not_flat.
  change (length seg22) with 3. rewrite seg22_subdiv. reflexivity.
Qed.

Lemma step_seg22_left rest path :
  bspline_step1 (seg22_left :: rest, path) = inl (rest, path ++ bezier_approx_pts seg22_left).
Proof. unfold bspline_step1. cbn [fst snd]. rewrite seg22_left_flat. reflexivity. Qed.

Lemma run_seg22 n : forall rest path,
  exists path', run bspline_step1 (2 * n) (seg22 :: rest, path) = inl (seg22 :: rest, path').
Proof.
  induction n as [|n IH]; intros rest path; [exists path; reflexivity|].
  replace (2 * S n) with (S (S (2 * n))) by lia.
  cbn [run]. rewrite step_seg22, step_seg22_left. apply IH.
Qed.

Theorem bezier_22_never_returns fuel path :
  approximate_bezier_L1 fuel path seg22 tt = OutOfFuel.
Proof.
  unfold approximate_bezier_L1, iter_fuel. rewrite iterP_run.
  destruct (Nat.Even_or_Odd (Pos.to_nat fuel)) as [[n Hn]|[n Hn]]; rewrite Hn.
  - destruct (run_seg22 n [] path) as (p' & ->). reflexivity.
  - rewrite run_add. destruct (run_seg22 n [] path) as (p' & ->).
    cbn [run]. rewrite step_seg22. reflexivity.
Qed.

(* CatmullSurplusSeg: the binary32 length of a segment whose exact length is
   at least 2^-60 (instead of the 2^-10 of AdjustIEEE.plen_rel): for
   coordinates |c| <= 2^20,
       |b - a| >= 2^-60   ==>   (b - a).length() = |b - a| (1 + d),  |d| <= 3.1 * 2^-24
       |b - a| <  2^-60   ==>   (b - a).length() < 2^-59.
   The squares of the coordinate differences are then >= 2^-120 in sum, far
   above the binary32 underflow threshold (an absolute error of 2^-149 is a
   relative error of 2^-29 there).  Decoded sliders have integer control
   points within +-2^18; the steps of their Catmull sub-paths were never
   seen below 2^-22 (probes/C01_negdist, Q1u intstep). *)
From RM Require Import Model.ControlPoints Model.Curve Proofs.FloatFacts Proofs.LengthFacts Proofs.LengthBound
  Proofs.AdjustExact Proofs.AdjustIEEEBase Proofs.AdjustIEEE Proofs.AdjustIEEESum Proofs.AdjustIEEELen.
From Flocq Require Import Core BinarySingleNaN.
From Coq Require Import Reals Lra Psatz Lia List.
Import ListNotations.
Open Scope R_scope.

Local Notation fin x := (is_finite x = true).
Local Notation pw k := (bpow radix2 k).

Definition t29 : R := pw (-29).
Definition t80 : R := pw (-80).
Lemma t29_le : t29 <= 0.04 * u32. Proof. unfold t29, u32. cbn. lra. Qed.
Lemma t29_pos : 0 < t29. Proof. apply bpow_gt_0. Qed.
Lemma t80_le : t80 <= / 1000000 * u32. Proof. unfold t80, u32. cbn. lra. Qed.
Lemma t80_pos : 0 < t80. Proof. apply bpow_gt_0. Qed.

(* the length of a vector of exact length >= 2^-60: relative error 3.1 u *)
Lemma plen_rel60 (dx dy : F32) (Dx Dy : R) :
  fin dx -> fin dy -> Rabs (B2R dx) <= pw 21 -> Rabs (B2R dy) <= pw 21 ->
  rel (B2R dx) Dx u32 -> rel (B2R dy) Dy u32 ->
  pw (-120) <= Dx * Dx + Dy * Dy <= pw 44 ->
  fin (plen (mkPos dx dy)) /\ Rabs (B2R (plen (mkPos dx dy))) <= pw 22 /\
  rel (B2R (plen (mkPos dx dy))) (sqrt (Dx * Dx + Dy * Dy)) (3.1 * u32).
Proof.
  intros Fdx Fdy Mdx Mdy Rdx Rdy [HS HS'].
  pose proof tiny_pos as Tp. pose proof tiny_le as Tl. pose proof u32_pos as Up.
  pose proof u64_pos as Vp. pose proof u64_le as Vl.
  pose proof eta32_pos as E32. pose proof eta64_pos as E64.
  pose proof t29_le as T29. pose proof t29_pos as T29p. pose proof t80_le as T80. pose proof t80_pos as T80p.
  set (SS := Dx * Dx + Dy * Dy) in *.
  assert (HS0 : 0 < SS) by (pose proof (bpow_gt_0 radix2 (-120)); lra).
  unfold plen. cbn [px py].
  (* squares *)
  destruct (S_mul_spec dx dx 42 Fdx Fdx ltac:(zl) (abs_mul_bpow _ _ 21 21 Mdx Mdx)) as (Fsx & Msx & Rsx).
  destruct (S_mul_spec dy dy 42 Fdy Fdy ltac:(zl) (abs_mul_bpow _ _ 21 21 Mdy Mdy)) as (Fsy & Msy & Rsy).
  assert (Asx : rela (B2R (S.mul dx dx)) (Dx * Dx) (3.001 * u32) eta32).
  { eapply rela_weaken; [exact (rela_round _ _ _ _ _ _ _ (rel_rela _ _ _ (rel_mul _ _ _ _ _ _ Rdx Rdx)) Rsx)|wk|wk]. }
  assert (Asy : rela (B2R (S.mul dy dy)) (Dy * Dy) (3.001 * u32) eta32).
  { eapply rela_weaken; [exact (rela_round _ _ _ _ _ _ _ (rel_rela _ _ _ (rel_mul _ _ _ _ _ _ Rdy Rdy)) Rsy)|wk|wk]. }
  (* sum *)
  pose proof (rela_add_nonneg _ _ _ _ _ _ _ Asx Asy (sqr_nonneg Dx) (sqr_nonneg Dy)) as Asum. fold SS in Asum.
  assert (Rsum : rel (B2R (S.mul dx dx) + B2R (S.mul dy dy)) SS (3.001 * u32 + t29)).
  { apply (rela_absorb _ _ _ _ (pw (-120)) t29 Asum); [apply bpow_gt_0|rewrite Rabs_pos_eq by lra; exact HS|].
    rewrite eta32_2. unfold t29. apply (small_le _ (-149)); [lra|zl]. }
  destruct (S_add_spec _ _ 43 Fsx Fsy ltac:(zl) (abs_add_bpow _ _ 42 Msx Msy)) as (Fs & Ms & Rs).
  assert (Rs' : rel (B2R (S.add (S.mul dx dx) (S.mul dy dy))) SS (4.05 * u32)).
  { eapply rel_weaken; [exact (rel_compose _ _ _ _ _ Rsum Rs)|]. unfold u32 in *. nra. }
  set (s := S.add (S.mul dx dx) (S.mul dy dy)) in *.
  (* widening, square root *)
  destruct (f64_of_f32_exact s Fs) as (Fw & Ew).
  assert (Hs0 : 0 < B2R s) by (apply (rel_pos _ _ _ Rs'); [wk|exact HS0]).
  assert (Hsq : sqrt (B2R (f64_of_f32 s)) <= pw 22).
  { rewrite Ew, <- (sqrt_bpow radix2 22). apply sqrt_le_1_alt.
    apply Rle_trans with (pw 43); [rewrite <- (Rabs_pos_eq (B2R s)) by lra; exact Ms|apply bpow_le; zl]. }
  destruct (D_sqrt_spec (f64_of_f32 s) 22 Fw ltac:(rewrite Ew; exact Hs0) ltac:(zl) Hsq) as (Fr & Mr & Rr).
  rewrite Ew in Rr.
  assert (Rsq : rel (sqrt (B2R s)) (sqrt SS) (2.03 * u32)).
  { apply (rel_sqrt_half _ _ (4.05 * u32)); [exact Rs'|lra|wk|wk]. }
  assert (HL : pw (-60) <= sqrt SS).
  { rewrite <- (sqrt_bpow radix2 (-60)). apply sqrt_le_1_alt. exact HS. }
  assert (HL0 : 0 < sqrt SS) by (pose proof (bpow_gt_0 radix2 (-60)); lra).
  assert (Rr' : rel (B2R (D.sqrt (f64_of_f32 s))) (sqrt SS) (2.04 * u32)).
  { eapply rel_weaken.
    - apply (rela_absorb _ _ _ _ (pw (-60)) tiny (rela_round _ _ _ _ _ _ _ (rel_rela _ _ _ Rsq) Rr));
        [apply bpow_gt_0|rewrite Rabs_pos_eq by lra; exact HL|].
      unfold tiny, eta64. apply (small_le _ (-1075)); [lra|zl].
    - unfold u32 in *. nra. }
  (* narrowing *)
  destruct (f32_of_f64_spec _ 22 Fr ltac:(zl) Mr) as (Fl & Ml & Rl).
  split; [exact Fl|]. split; [exact Ml|].
  eapply rel_weaken.
  - apply (rela_absorb _ _ _ _ (pw (-60)) t80 (rela_round _ _ _ _ _ _ _ (rel_rela _ _ _ Rr') Rl));
      [apply bpow_gt_0|rewrite Rabs_pos_eq by lra; exact HL|].
    unfold t80, eta32. apply (small_le _ (-150)); [lra|zl].
  - unfold u32 in *. nra.
Qed.

(* a vector shorter than 2^-60 has a computed length below 2^-59 *)
Lemma plen_upper60 (dx dy : F32) (Dx Dy : R) :
  fin dx -> fin dy -> Rabs (B2R dx) <= pw 21 -> Rabs (B2R dy) <= pw 21 ->
  rel (B2R dx) Dx u32 -> rel (B2R dy) Dy u32 ->
  Dx * Dx + Dy * Dy < pw (-120) ->
  B2R (plen (mkPos dx dy)) < pw (-59).
Proof.
  intros Fdx Fdy Mdx Mdy Rdx Rdy HS.
  pose proof u32_pos as Up. pose proof u64_pos as Vp. pose proof u64_le as Vl.
  pose proof eta32_pos as E32. pose proof eta64_pos as E64.
  set (q := pw (-60)).
  assert (Hq : 0 < q) by apply bpow_gt_0.
  assert (Hq1 : q <= 1) by (unfold q; change 1 with (pw 0); apply bpow_le; zl).
  assert (P120 : pw (-120) = q * q) by (unfold q; rewrite <- bpow_plus; reflexivity).
  assert (P59 : pw (-59) = 2 * q) by (unfold q; change (-59)%Z with (1 + -60)%Z; rewrite bpow_plus; reflexivity).
  assert (Pe32 : eta32 <= / 100000000 * (q * q)).
  { unfold eta32. rewrite <- P120. apply Rle_trans with (pw (-30) * pw (-120)); [rewrite <- bpow_plus; apply bpow_le; zl|].
    apply Rmult_le_compat_r; [left; apply bpow_gt_0|]. cbn. lra. }
  assert (Pe32q : eta32 <= / 100000000 * q).
  { apply Rle_trans with (1 := Pe32). assert (q * q <= 1 * q) by (apply Rmult_le_compat_r; lra). lra. }
  assert (Pe64 : eta64 <= eta32) by (unfold eta64, eta32; apply bpow_le; zl).
  set (SS := Dx * Dx + Dy * Dy) in *.
  assert (HS0 : 0 <= SS) by (unfold SS; pose proof (sqr_nonneg Dx); pose proof (sqr_nonneg Dy); lra).
  unfold plen. cbn [px py].
  destruct (S_mul_spec dx dx 42 Fdx Fdx ltac:(zl) (abs_mul_bpow _ _ 21 21 Mdx Mdx)) as (Fsx & Msx & Rsx).
  destruct (S_mul_spec dy dy 42 Fdy Fdy ltac:(zl) (abs_mul_bpow _ _ 21 21 Mdy Mdy)) as (Fsy & Msy & Rsy).
  pose proof (S_mul_nonneg dx 42 Fdx ltac:(zl) (abs_mul_bpow _ _ 21 21 Mdx Mdx)) as Nsx.
  pose proof (S_mul_nonneg dy 42 Fdy ltac:(zl) (abs_mul_bpow _ _ 21 21 Mdy Mdy)) as Nsy.
  assert (Asx : rela (B2R (S.mul dx dx)) (Dx * Dx) (3.001 * u32) eta32).
  { eapply rela_weaken; [exact (rela_round _ _ _ _ _ _ _ (rel_rela _ _ _ (rel_mul _ _ _ _ _ _ Rdx Rdx)) Rsx)|wk|wk]. }
  assert (Asy : rela (B2R (S.mul dy dy)) (Dy * Dy) (3.001 * u32) eta32).
  { eapply rela_weaken; [exact (rela_round _ _ _ _ _ _ _ (rel_rela _ _ _ (rel_mul _ _ _ _ _ _ Rdy Rdy)) Rsy)|wk|wk]. }
  pose proof (rela_add_nonneg _ _ _ _ _ _ _ Asx Asy (sqr_nonneg Dx) (sqr_nonneg Dy)) as Asum. fold SS in Asum.
  destruct (S_add_spec _ _ 43 Fsx Fsy ltac:(zl) (abs_add_bpow _ _ 42 Msx Msy)) as (Fs & Ms & Rs).
  pose proof (S_add_nonneg _ _ 43 Fsx Fsy ltac:(zl) (abs_add_bpow _ _ 42 Msx Msy) Nsx Nsy) as Ns.
  set (s := S.add (S.mul dx dx) (S.mul dy dy)) in *.
  (* s <= q^2 * 1.0001 *)
  assert (Us : B2R s <= q * q * 1.0001).
  { pose proof (rela_abs_le _ _ _ _ Asum) as A1. pose proof (rel_abs_le _ _ _ Rs) as A2.
    rewrite (Rabs_pos_eq SS) in A1 by exact HS0. rewrite (Rabs_pos_eq (B2R s)) in A2 by exact Ns.
    pose proof (Rabs_pos (B2R (S.mul dx dx) + B2R (S.mul dy dy))) as A0.
    rewrite P120 in HS. set (qq := q * q) in *. assert (0 < qq) by (unfold qq; nra).
    unfold u32 in *. lra. }
  destruct (f64_of_f32_exact s Fs) as (Fw & Ew).
  destruct (Rle_lt_or_eq_dec _ _ Ns) as [Hpos|Hz].
  - assert (Hsq : sqrt (B2R (f64_of_f32 s)) <= pw 22).
    { rewrite Ew, <- (sqrt_bpow radix2 22). apply sqrt_le_1_alt.
      apply Rle_trans with (pw 43); [rewrite <- (Rabs_pos_eq (B2R s)) by lra; exact Ms|apply bpow_le; zl]. }
    destruct (D_sqrt_spec (f64_of_f32 s) 22 Fw ltac:(rewrite Ew; exact Hpos) ltac:(zl) Hsq) as (Fr & Mr & Rr).
    rewrite Ew in Rr.
    destruct (f32_of_f64_spec _ 22 Fr ltac:(zl) Mr) as (Fl & Ml & Rl).
    assert (Usq : sqrt (B2R s) <= q * 1.0001).
    { rewrite <- (sqrt_pow2 (q * 1.0001)) by lra. apply sqrt_le_1_alt.
      apply Rle_trans with (1 := Us). assert (0 < q * q) by nra. replace ((q * 1.0001) ^ 2) with (q * q * (1.0001 * 1.0001)) by ring. lra. }
    pose proof (rela_abs_le _ _ _ _ Rr) as A3. rewrite (Rabs_pos_eq (sqrt (B2R s))) in A3 by apply sqrt_pos.
    pose proof (rela_abs_le _ _ _ _ Rl) as A4.
    pose proof (Rle_abs (B2R (f32_of_f64 (D.sqrt (f64_of_f32 s))))) as A5.
    pose proof (Rabs_pos (B2R (D.sqrt (f64_of_f32 s)))) as A6.
    pose proof (sqrt_pos (B2R s)) as A7.
    rewrite P59. unfold u32, u64 in *. lra.
  - (* the sum of squares underflowed to zero: the length is exactly zero *)
    destruct (fin_zero_is_zero s Fs (eq_sym Hz)) as (sg & Es). rewrite Es.
    assert (H : B2SF (f32_of_f64 (D.sqrt (f64_of_f32 (B754_zero sg)))) = SpecFloat.S754_zero sg) by (destruct sg; vm_compute; reflexivity).
    destruct (f32_of_f64 (D.sqrt (f64_of_f32 (B754_zero sg)))) as [s0|s0| |s0 m e Hm]; try discriminate.
    cbn [B2R]. apply bpow_gt_0.
Qed.

(* ---------- segments ---------- *)

(* numerically equal end points, or at least 2^-60 apart *)
Definition cseg_ok (a b : Pos) : Prop := R2 a = R2 b \/ pw (-60) <= edist (R2 a) (R2 b).

Lemma seg_ok_cseg_ok a b : seg_ok a b -> cseg_ok a b.
Proof.
  intros [E|H]; [left; exact E|right]. apply Rle_trans with (2 := H). apply bpow_le. zl.
Qed.

Lemma cseg_ok_sym a b : cseg_ok a b -> cseg_ok b a.
Proof. intros [E|H]; [left; symmetry; exact E|right; rewrite edist_sym; exact H]. Qed.

Lemma cseg_rel (a b : Pos) : coord_le a 20 -> coord_le b 20 -> cseg_ok a b ->
  fin (f64_of_f32 (plen (psub b a))) /\ rel (B2R (f64_of_f32 (plen (psub b a)))) (edist (R2 a) (R2 b)) (3.1 * u32).
Proof.
  intros ((Fx0 & Mx0) & (Fy0 & My0)) ((Fx1 & Mx1) & (Fy1 & My1)) Hok.
  destruct (S_sub_spec (px b) (px a) 21 Fx1 Fx0 ltac:(zl) (abs_sub_bpow _ _ 20 Mx1 Mx0)) as (Fdx & Mdx & Rdx).
  destruct (S_sub_spec (py b) (py a) 21 Fy1 Fy0 ltac:(zl) (abs_sub_bpow _ _ 20 My1 My0)) as (Fdy & Mdy & Rdy).
  unfold psub.
  set (Dx := B2R (px b) - B2R (px a)) in *. set (Dy := B2R (py b) - B2R (py a)) in *.
  destruct Hok as [Heq|Hlen].
  - assert (Zx : Dx = 0) by (unfold Dx; unfold R2 in Heq; inversion Heq; lra).
    assert (Zy : Dy = 0) by (unfold Dy; unfold R2 in Heq; inversion Heq; lra).
    assert (Rx0 : B2R (S.sub (px b) (px a)) = 0) by (destruct Rdx as (d & E & _); rewrite E, Zx; ring).
    assert (Ry0 : B2R (S.sub (py b) (py a)) = 0) by (destruct Rdy as (d & E & _); rewrite E, Zy; ring).
    destruct (plen_zero _ _ Fdx Fdy Rx0 Ry0) as (F & R). split; [exact F|]. rewrite R, Heq, edist_refl.
    exists 0. split; [ring|rewrite Rabs_R0; unfold u32; lra].
  - assert (HSS : pw (-120) <= Dx * Dx + Dy * Dy <= pw 44).
    { split.
      - pose proof (edist_sq (R2 a) (R2 b)) as Q. cbn [R2 fst snd] in Q. fold Dx Dy in Q.
        replace (Dx * Dx + Dy * Dy) with (edist (R2 a) (R2 b) ^ 2) by (rewrite Q; ring).
        change (-120)%Z with (-60 + -60)%Z. rewrite bpow_plus. pose proof (bpow_gt_0 radix2 (-60)). nra.
      - assert (Ax : Rabs Dx <= pw 21) by (apply (abs_sub_bpow _ _ 20); assumption).
        assert (Ay : Rabs Dy <= pw 21) by (apply (abs_sub_bpow _ _ 20); assumption).
        pose proof (abs_mul_bpow _ _ 21 21 Ax Ax) as Bx. pose proof (abs_mul_bpow _ _ 21 21 Ay Ay) as By.
        rewrite Rabs_pos_eq in Bx by apply sqr_nonneg. rewrite Rabs_pos_eq in By by apply sqr_nonneg.
        change (21 + 21)%Z with 42%Z in *. change 44%Z with (42 + 2)%Z. rewrite bpow_plus.
        change (pw 2) with 4. pose proof (bpow_gt_0 radix2 42). lra. }
    destruct (plen_rel60 _ _ Dx Dy Fdx Fdy Mdx Mdy Rdx Rdy HSS) as (Fl & _ & Rl).
    destruct (f64_of_f32_exact _ Fl) as (Fw & Ew). split; [exact Fw|]. rewrite Ew.
    replace (edist (R2 a) (R2 b)) with (sqrt (Dx * Dx + Dy * Dy)); [exact Rl|].
    unfold edist. cbn [R2 fst snd]. fold Dx Dy. f_equal. ring.
Qed.

Fixpoint csegs_ok (path : list Pos) : Prop :=
  match path with
  | a :: ((b :: _) as t) => cseg_ok a b /\ csegs_ok t
  | _ => True
  end.

Lemma segs_ok_csegs_ok path : segs_ok path -> csegs_ok path.
Proof.
  induction path as [|a [|b t] IH]; try (intros; exact I).
  intros (H1 & H2). split; [exact (seg_ok_cseg_ok a b H1)|exact (IH H2)].
Qed.

(* the error of a running binary64 sum of k such lengths *)
Definition calpha (n : nat) : R := 3.1 * u32 + 2 * INR n * u64.

Lemma calpha_S n : calpha (S n) = calpha n + 2 * u64.
Proof. unfold calpha. rewrite S_INR. ring. Qed.

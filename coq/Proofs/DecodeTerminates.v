(* DecodeTerminates: C01, "never hangs", at the level of whole files.

   DecodeNoPanic leaves one outcome besides a value open for the HitObjects /
   Beatmap decoders: [OutOfFuel], out of the Bezier subdivision of a slider
   curve.  BezierIEEECurve.curve_L1_bounded closes it for a slider of n control
   points within +-2^E when n * 2^E <= 2^22.  Here the two are joined:

   1. the hit objects of the parser state after ANY list of lines satisfy
      [object_image] (EncMapImage; here also for the HitObjects decoder), hence
      every control point of every slider is an integer point within +-262144
      of the slider head: [pcp_point_ok 18] (DecodeTerminatesPoints);
   2. so a slider of the parser state whose control points are inside +-2^E of
      its head with n * 2^E <= 2^22 ([slider_fits E], a boolean on the state;
      n <= 16 is enough for E = 18, i.e. anywhere in the parser's range) has a
      curve that returns a value -- for every libm record whose atan2 has its
      values in [-PI, PI] or NaN;
   3. hence decode_hit_objects / decode_beatmap, with the pinned fuels, return
      a value on every list of lines all of whose parsed sliders fit; the same
      for every reader state that delivers lines (from_bytes in particular).

   The sort, the break pass and the per-object loop of the finishing conversion
   neither add nor change control points; the invariant is carried through
   them for the decoded values as well ([decoded_points_ok_*]). *)
From RM Require Import Model.Decoders Model.CurveDist Model.EncPathSpec Model.Reader Model.Encoding.
From RM Require Import Proofs.FramingFacts Proofs.ControlPointsFacts Proofs.HitObjectLineFacts
     Proofs.MapLevelFacts Proofs.DecodersFacts Proofs.DecodersTotal Proofs.EncMapImage
     Proofs.DecodeTerminatesPoints Proofs.ReaderFacts Proofs.TransparencyFacts Proofs.C01Bytes.
From RM Require Model.Curve Proofs.ThetaLoop Proofs.BezierIEEE Proofs.BezierIEEECurve.
From RM Require Import Gen.Generated.
From Coq Require Import ZifyBool Permutation.
Open Scope Z_scope.

(* ================================================================== *)
(* 1. one slider                                                        *)
(* ================================================================== *)

(* n control points, each within +-2^E of the slider head, n * 2^E <= 2^22 *)
Definition cps_fit (E : Z) (cps : list PCP) : bool :=
  (0 <=? E) && (E <=? 22) && (Z.of_nat (length cps) * 2 ^ E <=? 2 ^ 22) && cps_within E cps.

Definition slider_fits (E : Z) (s : Slider) : bool := cps_fit E (sl_control_points s).

Definition obj_fits (E : Z) (h : HitObject) : bool :=
  match h_kind h with KSlider s => slider_fits E s | _ => true end.

(* for some E in 0..22 (decidable) *)
Definition obj_fits_some (h : HitObject) : bool :=
  existsb (fun n => obj_fits (Z.of_nat n) h) (seq 0 23).

(* at most n control points *)
Definition obj_cps_le (n : nat) (h : HitObject) : bool :=
  match h_kind h with KSlider s => (length (sl_control_points s) <=? n)%nat | _ => true end.

Lemma conv_pcp_pos p : Curve.pc_pos (conv_pcp p) = conv_pos (cp_pos p).
Proof. reflexivity. Qed.

(* the curve of control points in the decoder's image that fit returns a value *)
Theorem curve_of_done lm mode pos cps e E :
  ThetaLoop.atan2_in_range lm -> path_image pos cps = true -> cps_fit E cps = true ->
  exists c, curve_of lm mode cps e = Done c.
Proof.
  intros Hlm Hi Hf. unfold cps_fit in Hf.
  apply andb_true_iff in Hf. destruct Hf as [Hf Hw]. apply andb_true_iff in Hf. destruct Hf as [Hf Hn].
  apply andb_true_iff in Hf. destruct Hf as [E0 E22].
  unfold curve_of. apply (BezierIEEECurve.curve_L1_bounded lm mode (map conv_pcp cps) e E Hlm); [lia| |].
  - rewrite map_length. lia.
  - apply Forall_map. apply (path_image_points_ok_graded pos cps E); [lia|exact Hi|exact Hw].
Qed.

Corollary dist_of_curve_done lm mode pos cps e E :
  ThetaLoop.atan2_in_range lm -> path_image pos cps = true -> cps_fit E cps = true ->
  exists d, dist_of_curve lm mode cps e = Done d.
Proof.
  intros Hlm Hi Hf. unfold dist_of_curve. destruct (curve_of_done lm mode pos cps e E Hlm Hi Hf) as (c & ->).
  cbn [obind]. eauto.
Qed.

(* anywhere in the parser's range: 16 control points *)
Lemma cps_fit_16 pos cps : path_image pos cps = true -> (length cps <= 16)%nat -> cps_fit 18 cps = true.
Proof.
  intros Hi Hl. unfold cps_fit. change (2 ^ 18) with 262144. change (2 ^ 22) with 4194304.
  assert (Hw : cps_within 18 cps = true).
  { unfold cps_within. apply forallb_forall. intros p Hp.
    pose proof (path_image_within pos cps Hi) as HA. rewrite Forall_forall in HA. exact (proj2 (HA p Hp)). }
  rewrite Hw. lia.
Qed.

(* graded examples of the table n * 2^E <= 2^22: the bound on n for a given E *)
Lemma cps_fit_count E cps : 0 <= E <= 22 -> cps_within E cps = true ->
  Z.of_nat (length cps) <= 2 ^ (22 - E) -> cps_fit E cps = true.
Proof.
  intros HE Hw Hl. unfold cps_fit. rewrite Hw.
  assert (2 ^ 22 = 2 ^ (22 - E) * 2 ^ E) by (rewrite <- Z.pow_add_r by lia; f_equal; lia).
  assert (0 < 2 ^ E) by (apply Z.pow_pos_nonneg; lia).
  assert (Z.of_nat (length cps) * 2 ^ E <= 2 ^ 22) by nia. lia.
Qed.

(* ================================================================== *)
(* 2. one object of the parser state                                    *)
(* ================================================================== *)

Lemma object_image_slider h s : object_image h = true -> h_kind h = KSlider s ->
  path_image (sl_pos s) (sl_control_points s) = true.
Proof.
  unfold object_image. intros H E. rewrite E in H.
  apply andb_true_iff in H. destruct H as [_ H].
  repeat (apply andb_true_iff in H; destruct H as [H ?]). assumption.
Qed.

Lemma obj_fits_some_exists h : obj_fits_some h = true -> exists E, obj_fits E h = true.
Proof.
  unfold obj_fits_some. intros H. apply existsb_exists in H. destruct H as (n & _ & H). eauto.
Qed.

Lemma obj_fits_some_of E h : 0 <= E <= 22 -> obj_fits E h = true -> obj_fits_some h = true.
Proof.
  intros HE H. unfold obj_fits_some. apply existsb_exists. exists (Z.to_nat E). split.
  - apply in_seq. lia.
  - rewrite Z2Nat.id by lia. exact H.
Qed.

Lemma obj_cps_le_fits h : object_image h = true -> obj_cps_le 16 h = true -> obj_fits 18 h = true.
Proof.
  intros Hi Hl. unfold obj_fits, obj_cps_le in *. destruct (h_kind h) as [c|s|sp|hd] eqn:E; try reflexivity.
  unfold slider_fits. apply (cps_fit_16 (sl_pos s)); [exact (object_image_slider h s Hi E)|].
  apply Nat.leb_le. exact Hl.
Qed.

Lemma obj_fits_dist_ok lm h E : ThetaLoop.atan2_in_range lm ->
  object_image h = true -> obj_fits E h = true -> slider_dist_ok (dist_of_curve lm) h.
Proof.
  intros Hlm Hi Hf. unfold slider_dist_ok, obj_fits in *.
  destruct (h_kind h) as [c|s|sp|hd] eqn:Ek; try exact I.
  exact (dist_of_curve_done lm (sl_mode s) (sl_pos s) (sl_control_points s) (sl_expected_dist s) E Hlm
           (object_image_slider h s Hi Ek) Hf).
Qed.

Lemma objs_fit_dist_ok lm objs : ThetaLoop.atan2_in_range lm ->
  Forall img objs -> Forall (fun h => obj_fits_some h = true) objs ->
  Forall (slider_dist_ok (dist_of_curve lm)) objs.
Proof.
  intros Hlm Hi Hf. rewrite Forall_forall in *. intros h Hh.
  destruct (obj_fits_some_exists h (Hf h Hh)) as (E & HE).
  exact (obj_fits_dist_ok lm h E Hlm (Hi h Hh) HE).
Qed.

Lemma objs_le16_fit objs :
  Forall img objs -> Forall (fun h => obj_cps_le 16 h = true) objs -> Forall (fun h => obj_fits_some h = true) objs.
Proof.
  intros Hi Hl. rewrite Forall_forall in *. intros h Hh.
  apply (obj_fits_some_of 18); [lia|]. exact (obj_cps_le_fits h (Hi h Hh) (Hl h Hh)).
Qed.

(* every control point of an object in the image is [point_ok 18] *)
Definition obj_points_ok (E : Z) (h : HitObject) : Prop :=
  match h_kind h with KSlider s => Forall (pcp_point_ok E) (sl_control_points s) | _ => True end.

Lemma object_image_points_ok h : object_image h = true -> obj_points_ok 18 h.
Proof.
  intros Hi. unfold obj_points_ok. destruct (h_kind h) as [c|s|sp|hd] eqn:E; try exact I.
  exact (path_image_points_ok _ _ (object_image_slider h s Hi E)).
Qed.

(* ================================================================== *)
(* 3. the parser states                                                 *)
(* ================================================================== *)

(* the HitObjects decoder: the same invariant as EncMapImage.objs_inv *)
Definition ho_objs_inv (os : outcome HOD) : Prop :=
  match os with Done s => Forall img (hod_objects s) | _ => True end.

Lemma ho_objs_step sec os l : ho_objs_inv os -> ho_objs_inv (fst (parser_of ho_parsers sec os l)).
Proof.
  intros Hos. destruct os as [s|w|]; [|destruct sec; exact I|destruct sec; exact I].
  cbn [ho_objs_inv] in Hos. destruct s as [tp df ev last curve verts objs]. cbn [hod_objects] in Hos.
  destruct sec; cbn [parser_of ho_parsers p_general p_editor p_metadata p_difficulty p_events p_timing_points
                     p_colors p_hit_objects p_variables p_catch_the_beat p_mania];
    unfold liftp, liftt, noop; cbn [obind fst].
  - unfold hod_parse_general. destruct (tpd_parse_general _ l) as [g r]. cbn [obind fst ho_objs_inv hod_with_tp hod_objects]. exact Hos.
  - exact Hos.
  - exact Hos.
  - unfold hod_parse_difficulty. destruct (parse_difficulty _ l) as [d r]. cbn [obind fst ho_objs_inv hod_objects]. exact Hos.
  - unfold hod_parse_events. destruct (parse_events _ l) as [e r]. cbn [obind fst ho_objs_inv hod_objects]. exact Hos.
  - unfold hod_parse_timing_points. destruct (tpd_parse_timing_points _ l) as [[t r]|w|]; cbn [obind fst ho_objs_inv]; try exact I.
    cbn [hod_with_tp hod_objects]. exact Hos.
  - exact Hos.
  - unfold hod_parse_hit_objects. destruct (parse_hit_objects _ l) as [[c r]|w|] eqn:E; cbn [obind fst ho_objs_inv]; try exact I.
    cbn [hod_with_core hod_objects]. eapply parse_objects_image; [|exact E]. exact Hos.
  - exact Hos.
  - exact Hos.
  - exact Hos.
Qed.

(* the hit objects the parsers have collected after the lines [lines] *)
Definition ho_parsed (lines : list str) : list HitObject :=
  match state_after (fun _ => Done hod_create) ho_parsers lines with
  | Done s => hod_objects s
  | _ => []
  end.
Definition bm_parsed (lines : list str) : list HitObject :=
  match state_after (fun v => Done (bmd_create v)) bm_parsers lines with
  | Done s => hod_objects (bmd_ho s)
  | _ => []
  end.

Lemma ho_state lines : exists s,
  state_after (fun _ => Done hod_create) ho_parsers lines = Done s /\
  cp_sorted (tpd_cp (hod_tp s)) /\ Forall img (hod_objects s) /\ ho_parsed lines = hod_objects s.
Proof.
  destruct (ho_state_ok lines) as (s & Es & Hs). exists s. split; [exact Es|]. split; [exact Hs|].
  pose proof (state_after_invariant (fun _ => Done hod_create) ho_parsers ho_objs_inv
                (fun _ => Forall_nil _) ho_objs_step lines) as Hi.
  unfold ho_parsed. rewrite Es in Hi |- *. split; [exact Hi|reflexivity].
Qed.

Lemma bm_state lines : exists s,
  state_after (fun v => Done (bmd_create v)) bm_parsers lines = Done s /\
  cp_sorted (tpd_cp (hod_tp (bmd_ho s))) /\ Forall img (hod_objects (bmd_ho s)) /\
  bm_parsed lines = hod_objects (bmd_ho s).
Proof.
  destruct (bm_state_ok lines) as (s & Es & Hs). exists s. split; [exact Es|]. split; [exact Hs|].
  pose proof (state_after_invariant (fun v => Done (bmd_create v)) bm_parsers objs_inv
                (fun _ => Forall_nil _) objs_step lines) as Hi.
  unfold bm_parsed. rewrite Es in Hi |- *. split; [exact Hi|reflexivity].
Qed.

(* the parser bound: after ANY list of lines (rejected lines included) every
   control point of every collected slider is finite and within +-2^18 *)
Theorem parsed_points_ok lines :
  Forall (obj_points_ok 18) (ho_parsed lines) /\ Forall (obj_points_ok 18) (bm_parsed lines).
Proof.
  split.
  - destruct (ho_state lines) as (s & _ & _ & Hi & ->).
    eapply Forall_impl; [|exact Hi]. intros h. exact (object_image_points_ok h).
  - destruct (bm_state lines) as (s & _ & _ & Hi & ->).
    eapply Forall_impl; [|exact Hi]. intros h. exact (object_image_points_ok h).
Qed.

Lemma decode_hit_objects_state dist_of lines :
  decode_hit_objects dist_of lines
  = obind (state_after (fun _ => Done hod_create) ho_parsers lines) (hod_finish dist_of).
Proof. unfold decode_hit_objects. rewrite driver_refines. reflexivity. Qed.

Lemma decode_beatmap_state dist_of lines :
  decode_beatmap dist_of lines
  = obind (state_after (fun v => Done (bmd_create v)) bm_parsers lines) (bmd_finish dist_of).
Proof. unfold decode_beatmap. rewrite driver_refines. reflexivity. Qed.

(* ... and the same of the decoded values: the finishing conversion (stable
   sort, break pass, per-object loop) keeps the control points *)
Theorem decoded_points_ok_hit_objects dist_of lines hv :
  decode_hit_objects dist_of lines = Done hv -> Forall (obj_points_ok 18) (hov_hit_objects hv).
Proof.
  rewrite decode_hit_objects_state. destruct (ho_state lines) as (s & -> & _ & Hi & _). cbn [obind].
  unfold hod_finish. destruct (tpd_finish (hod_tp s)) as [tv|w|]; cbn [obind]; try discriminate.
  destruct (finish_hit_objects _ _ _ _ _ _) as [objs|w|] eqn:E; cbn [obind]; try discriminate.
  intros H; inversion H; subst. cbn [hov_hit_objects].
  eapply Forall_impl; [|exact (finish_image dist_of _ _ _ _ _ objs Hi E)].
  intros h. exact (object_image_points_ok h).
Qed.

Theorem decoded_points_ok_beatmap dist_of lines bv :
  decode_beatmap dist_of lines = Done bv -> Forall (obj_points_ok 18) (hov_hit_objects (bmv_ho bv)).
Proof.
  intros H. eapply Forall_impl; [|exact (decoded_objects_image dist_of lines bv H)].
  intros h. exact (object_image_points_ok h).
Qed.

(* ================================================================== *)
(* 4. the decode returns a value                                        *)
(* ================================================================== *)

Section Decode.
  Variable lm : Curve.Libm.
  Hypothesis Hlm : ThetaLoop.atan2_in_range lm.

  Lemma hod_finish_done s :
    cp_sorted (tpd_cp (hod_tp s)) -> Forall img (hod_objects s) ->
    Forall (fun h => obj_fits_some h = true) (hod_objects s) ->
    exists hv, hod_finish (dist_of_curve lm) s = Done hv.
  Proof.
    intros Hs Hi Hf. unfold hod_finish.
    destruct (tpd_finish_total (hod_tp s) Hs) as (tv & -> & Hc). cbn [obind].
    destruct (finish_hit_objects_total_on (dist_of_curve lm) (tpv_control_points tv) (ev_breaks (hod_events s))
                (d_slider_multiplier (hod_difficulty s)) (g_mode (tpv_general tv))
                (hod_objects s) Hc (objs_fit_dist_ok lm _ Hlm Hi Hf)) as (objs & ->).
    cbn [obind]. eauto.
  Qed.

  (* graded: every parsed slider fits for some E *)
  Theorem decode_hit_objects_fits lines :
    Forall (fun h => obj_fits_some h = true) (ho_parsed lines) ->
    exists hv, decode_hit_objects (dist_of_curve lm) lines = Done hv.
  Proof.
    rewrite decode_hit_objects_state. destruct (ho_state lines) as (s & -> & Hs & Hi & ->). cbn [obind].
    exact (hod_finish_done s Hs Hi).
  Qed.

  Theorem decode_beatmap_fits lines :
    Forall (fun h => obj_fits_some h = true) (bm_parsed lines) ->
    exists bv, decode_beatmap (dist_of_curve lm) lines = Done bv.
  Proof.
    rewrite decode_beatmap_state. destruct (bm_state lines) as (s & -> & Hs & Hi & ->). cbn [obind].
    intros Hf. unfold bmd_finish. destruct (hod_finish_done (bmd_ho s) Hs Hi Hf) as (hv & ->).
    cbn [obind]. eauto.
  Qed.

  (* at most 16 control points per slider, anywhere in the parser's range *)
  Theorem decode_hit_objects_16 lines :
    Forall (fun h => obj_cps_le 16 h = true) (ho_parsed lines) ->
    exists hv, decode_hit_objects (dist_of_curve lm) lines = Done hv.
  Proof.
    intros H. apply decode_hit_objects_fits. destruct (ho_state lines) as (s & _ & _ & Hi & E).
    rewrite E in *. exact (objs_le16_fit _ Hi H).
  Qed.

  Theorem decode_beatmap_16 lines :
    Forall (fun h => obj_cps_le 16 h = true) (bm_parsed lines) ->
    exists bv, decode_beatmap (dist_of_curve lm) lines = Done bv.
  Proof.
    intros H. apply decode_beatmap_fits. destruct (bm_state lines) as (s & _ & _ & Hi & E).
    rewrite E in *. exact (objs_le16_fit _ Hi H).
  Qed.

  (* both decoders, the form quoted by Properties/C01.v *)
  Theorem decode_terminates_bounded lines :
    (Forall (fun h => obj_cps_le 16 h = true) (ho_parsed lines) ->
     exists hv, decode_hit_objects (dist_of_curve lm) lines = Done hv) /\
    (Forall (fun h => obj_cps_le 16 h = true) (bm_parsed lines) ->
     exists bv, decode_beatmap (dist_of_curve lm) lines = Done bv).
  Proof. exact (conj (decode_hit_objects_16 lines) (decode_beatmap_16 lines)). Qed.

  Theorem decode_terminates_graded lines :
    (Forall (fun h => obj_fits_some h = true) (ho_parsed lines) ->
     exists hv, decode_hit_objects (dist_of_curve lm) lines = Done hv) /\
    (Forall (fun h => obj_fits_some h = true) (bm_parsed lines) ->
     exists bv, decode_beatmap (dist_of_curve lm) lines = Done bv).
  Proof. exact (conj (decode_hit_objects_fits lines) (decode_beatmap_fits lines)). Qed.

  (* ---------- with the reader layer ---------- *)

  (* any reader state (bytes, buffered part, schedule) that delivers lines *)
  Theorem decode_reader_beatmap_fits r lines :
    read_all_lines r = IoDone lines ->
    Forall (fun h => obj_fits_some h = true) (bm_parsed lines) ->
    exists v, io_bind (read_all_lines r) (fun ls => io_of_outcome (decode_beatmap (dist_of_curve lm) ls)) = IoDone v.
  Proof.
    intros -> Hf. cbn [io_bind]. destruct (decode_beatmap_fits lines Hf) as (bv & ->). exists bv. reflexivity.
  Qed.

  Theorem decode_reader_hit_objects_fits r lines :
    read_all_lines r = IoDone lines ->
    Forall (fun h => obj_fits_some h = true) (ho_parsed lines) ->
    exists v, io_bind (read_all_lines r) (fun ls => io_of_outcome (decode_hit_objects (dist_of_curve lm) ls)) = IoDone v.
  Proof.
    intros -> Hf. cbn [io_bind]. destruct (decode_hit_objects_fits lines Hf) as (hv & ->). exists hv. reflexivity.
  Qed.

  (* from_bytes: the lines are those the bytes determine *)
  Theorem decode_bytes_fits (b : bytes) :
    exists lines, read_all_lines (mk_reader b []) = IoDone lines /\
    (Forall (fun h => obj_fits_some h = true) (bm_parsed lines) ->
     exists v, decode_bytes_beatmap (dist_of_curve lm) b = IoDone v) /\
    (Forall (fun h => obj_fits_some h = true) (ho_parsed lines) ->
     exists v, decode_bytes_hit_objects (dist_of_curve lm) b = IoDone v).
  Proof.
    destruct (clean_stream_never_fails b [] faultless_nil) as (lines & E). exists lines.
    split; [exact E|]. split; intros Hf.
    - exact (decode_reader_beatmap_fits _ lines E Hf).
    - exact (decode_reader_hit_objects_fits _ lines E Hf).
  Qed.

  Theorem decode_bytes_16 (b : bytes) :
    exists lines, read_all_lines (mk_reader b []) = IoDone lines /\
    (Forall (fun h => obj_cps_le 16 h = true) (bm_parsed lines) ->
     exists v, decode_bytes_beatmap (dist_of_curve lm) b = IoDone v) /\
    (Forall (fun h => obj_cps_le 16 h = true) (ho_parsed lines) ->
     exists v, decode_bytes_hit_objects (dist_of_curve lm) b = IoDone v).
  Proof.
    destruct (decode_bytes_fits b) as (lines & E & H1 & H2). exists lines. split; [exact E|].
    split; intros H.
    - apply H1. destruct (bm_state lines) as (s & _ & _ & Hi & Es). rewrite Es in *. exact (objs_le16_fit _ Hi H).
    - apply H2. destruct (ho_state lines) as (s & _ & _ & Hi & Es). rewrite Es in *. exact (objs_le16_fit _ Hi H).
  Qed.
End Decode.

(* ================================================================== *)
(* 5. the boolean conditions, read as propositions                      *)
(* ================================================================== *)

Lemma obj_cps_le_spec n h :
  obj_cps_le n h = true <->
  match h_kind h with KSlider s => (length (sl_control_points s) <= n)%nat | _ => True end.
Proof.
  unfold obj_cps_le. destruct (h_kind h) as [c|s|sp|hd]; try (split; [intros _; exact I|reflexivity]).
  apply Nat.leb_le.
Qed.

Lemma obj_fits_spec E h :
  obj_fits E h = true <->
  match h_kind h with
  | KSlider s =>
      0 <= E <= 22 /\ Z.of_nat (length (sl_control_points s)) * 2 ^ E <= 2 ^ 22 /\
      Forall (fun p => Z.abs (f32_as_i32 (px (cp_pos p))) <= 2 ^ E /\
                       Z.abs (f32_as_i32 (py (cp_pos p))) <= 2 ^ E) (sl_control_points s)
  | _ => True
  end.
Proof.
  unfold obj_fits. destruct (h_kind h) as [c|s|sp|hd]; try (split; [intros _; exact I|reflexivity]).
  unfold slider_fits, cps_fit, cps_within. rewrite !andb_true_iff, forallb_forall, Forall_forall.
  unfold pos_within. split.
  - intros [[[A B] C] D]. split; [lia|]. split; [lia|]. intros p Hp. specialize (D p Hp).
    apply andb_true_iff in D. lia.
  - intros [A [B C]]. split; [split; [split; lia|lia]|]. intros p Hp. specialize (C p Hp).
    apply andb_true_iff. lia.
Qed.

Lemma obj_fits_some_spec h : obj_fits_some h = true <-> exists E, obj_fits E h = true.
Proof.
  split; [apply obj_fits_some_exists|]. intros (E & H).
  destruct (h_kind h) as [c|s|sp|hd] eqn:Ek.
  1,3,4: (apply (obj_fits_some_of 0); [lia|]; unfold obj_fits; rewrite Ek; reflexivity).
  apply (obj_fits_some_of E); [|exact H].
  apply obj_fits_spec in H. rewrite Ek in H. tauto.
Qed.

(* EncodeScalar: the encoder's token stream only contains scalar strings.
   Every [TStr] token of [encode_tokens] is either a literal of the encoder
   (keys, headers, separators, path letters: ASCII) or one of the map's strings
   covered by [bmv_scalar] (Proofs/DecodeScalar.v): audio file, metadata
   texts, background file, custom colour names, sample file names.  With
   number formatters that produce scalar strings, the rendered text is a
   scalar string, i.e. a Rust `String`. *)
From RM Require Import Model.Encoding Model.Encode Model.Render Proofs.EncodingFacts
     Proofs.TransparencyFacts Proofs.DecodeScalar.
From RM Require Import Gen.Generated.
From Coq Require Import ZifyBool.
Open Scope Z_scope.

Definition tok_scalar (t : tok) : Prop := match t with TStr s => scalar_str s | _ => True end.
Definition line_scalar (l : line) : Prop := Forall tok_scalar l.

Lemma Forall_app_i {A} (P : A -> Prop) a b : Forall P a -> Forall P b -> Forall P (a ++ b).
Proof. intros Ha Hb. apply Forall_app. split; assumption. Qed.

Lemma Done_inj {A} (a b : A) : Done a = Done b -> a = b.
Proof. intros H. inversion H. reflexivity. Qed.

(* ---------- literals ---------- *)

Lemma ascii_scalar a : is_scalar (Z.of_N (N_of_ascii a)) = true.
Proof. destruct a as [[|] [|] [|] [|] [|] [|] [|] [|]]; reflexivity. Qed.

Lemma lit_scalar s : scalar_str (lit s).
Proof. induction s as [|a r IH]; cbn [lit]; constructor; [apply ascii_scalar|exact IH]. Qed.

Lemma key_name_scalar names i : scalar_str (key_name names i).
Proof. apply lit_scalar. Qed.

Lemma header_scalar s : scalar_str (odflt [] (header_line s)).
Proof.
  unfold header_line, header_name. destruct (find _ section_table) as [p|]; cbn [omap odflt]; [|constructor].
  constructor; [reflexivity|]. apply scalar_app. split; [apply lit_scalar|]. constructor; [reflexivity|constructor].
Qed.

Lemma colon_space_scalar : scalar_str colon_space.
Proof. unfold colon_space. constructor; [reflexivity|]. constructor; [reflexivity|constructor]. Qed.

Lemma key_colon_scalar k : scalar_str k -> scalar_str (k ++ colon_space).
Proof. intros H. apply scalar_app. split; [exact H|exact colon_space_scalar]. Qed.

(* explicit token lists whose strings are literals or hypotheses *)
Ltac toks :=
  repeat first
    [ apply Forall_nil
    | apply Forall_cons
    | apply Forall_app_i
    | exact I
    | assumption
    | apply lit_scalar
    | apply key_name_scalar
    | apply header_scalar
    | exact colon_space_scalar
    | apply key_colon_scalar
    | match goal with |- is_scalar _ = true => reflexivity end
    | progress unfold line_scalar
    | progress cbn [tok_scalar ts tb t_comma t_colon t_pipe t_lf kv_line header_tok gkey ekey mkey dkey] ].

Lemma kv_line_scalar key v : scalar_str key -> tok_scalar v -> line_scalar (kv_line key v).
Proof. intros Hk Hv. toks. Qed.

Lemma header_tok_scalar s : line_scalar (header_tok s).
Proof. toks. Qed.

(* ---------- the simple sections ---------- *)

Lemma enc_version_scalar v : line_scalar (enc_version v).
Proof. unfold enc_version. toks. Qed.

Lemma enc_general_scalar g c : scalar_str (g_audio_file g) -> Forall line_scalar (enc_general g c).
Proof.
  intros H. unfold enc_general.
  repeat match goal with |- context [if ?b then _ else _] => destruct b end; toks.
Qed.

Lemma bookmarks_scalar bs : Forall line_scalar (bookmarks_line bs).
Proof.
  destruct bs as [|b r]; cbn [bookmarks_line]; [constructor|]. toks.
  apply Forall_flat_map. apply Forall_forall. intros x _. toks.
Qed.

Lemma enc_editor_scalar e : Forall line_scalar (enc_editor e).
Proof. unfold enc_editor. toks. apply bookmarks_scalar. Qed.

Lemma opt_text_scalar key v : scalar_str key -> scalar_str v -> Forall line_scalar (opt_text_line key v).
Proof. intros Hk Hv. unfold opt_text_line. destruct (is_empty v); toks. Qed.

Lemma enc_metadata_scalar m : meta_scalar m -> Forall line_scalar (enc_metadata m).
Proof.
  intros (H1 & H2 & H3 & H4 & H5 & H6 & H7 & H8). unfold enc_metadata.
  repeat match goal with |- context [if ?b then _ else _] => destruct b end;
    toks; apply opt_text_scalar; toks.
Qed.

Lemma enc_difficulty_scalar d : Forall line_scalar (enc_difficulty d).
Proof. unfold enc_difficulty. toks. Qed.

Lemma break_lines_scalar bs : Forall line_scalar (map break_line bs).
Proof. apply Forall_map. apply Forall_forall. intros b _. unfold break_line. toks. Qed.

Lemma background_line_scalar f : scalar_str f -> line_scalar (background_line f).
Proof. intros H. unfold background_line. toks. Qed.

Lemma enc_events_scalar e : scalar_str (ev_background_file e) -> Forall line_scalar (enc_events e).
Proof.
  intros H. unfold enc_events. apply Forall_app_i; [toks|]. apply Forall_app_i; [|apply break_lines_scalar].
  destruct (is_empty (ev_background_file e)); constructor; [|constructor].
  apply background_line_scalar. exact H.
Qed.

Lemma color_toks_scalar c : line_scalar (color_toks c).
Proof. unfold color_toks. toks. Qed.

Lemma combo_lines_scalar : forall l i, Forall line_scalar (combo_lines i l).
Proof.
  induction l as [|c r IH]; intros i; cbn [combo_lines]; [constructor|].
  constructor; [|apply IH]. toks; try apply color_toks_scalar.
Qed.

Lemma enc_colors_scalar c : colors_scalar c -> Forall line_scalar (enc_colors c).
Proof.
  intros H. unfold enc_colors. toks; [apply combo_lines_scalar|].
  apply Forall_map. unfold colors_scalar in H. eapply Forall_impl; [|exact H].
  intros x Hx. unfold custom_color_line. toks; try apply color_toks_scalar.
Qed.

(* ---------- hit objects ---------- *)

Lemma first_file_scalar : forall l f, Forall name_scalar l -> first_file l = Some f -> scalar_str f.
Proof.
  induction l as [|s r IH]; intros f Hl H; cbn [first_file] in H; [discriminate|].
  inversion Hl as [|? ? Hs Hr]; subst.
  destruct (nonempty_file s) as [g|] eqn:E; [|exact (IH f Hr H)].
  inversion H; subst. unfold nonempty_file in E. unfold name_scalar in Hs.
  destruct (hs_name s) as [n|[|c t]]; try discriminate. inversion E; subst. exact Hs.
Qed.

Lemma sample_bank_toks_scalar samples bo mode : Forall name_scalar samples ->
  line_scalar (sample_bank_toks samples bo mode).
Proof.
  intros H. unfold sample_bank_toks. cbv zeta. destruct bo; toks.
  destruct (first_file samples) as [f|] eqn:E; toks. exact (first_file_scalar _ _ H E).
Qed.

Lemma path_type_toks_scalar t : line_scalar (path_type_toks t).
Proof.
  unfold path_type_toks.
  destruct (pt_kind t =? sk_bspline); [destruct (pt_degree t); toks|].
  destruct (pt_kind t =? sk_catmull); [toks|].
  destruct (pt_kind t =? sk_perfect); toks.
Qed.

Lemma point_toks_scalar pos p : line_scalar (point_toks pos p).
Proof. unfold point_toks. cbv zeta. toks. Qed.

Lemma path_loop_toks_scalar pos all : forall rest i lt, line_scalar (path_loop_toks pos all i rest lt).
Proof.
  induction rest as [|point r IH]; intros i lt; cbn [path_loop_toks]; [constructor|].
  match goal with |- line_scalar (let '(a, b) := ?X in _) =>
    assert (HX : line_scalar (fst X)); [|destruct X as [typed lt']] end.
  { destruct (cp_type point) as [pt|]; [|constructor]. cbv zeta.
    match goal with |- line_scalar (fst (if ?b then _ else _)) => destruct b end; cbn [fst].
    - apply Forall_app_i; [apply path_type_toks_scalar|]. destruct (length all =? 1)%nat; toks.
    - apply Forall_app_i; [apply point_toks_scalar|toks]. }
  cbn [fst] in HX. apply Forall_app_i; [exact HX|]. apply Forall_app_i; [|apply IH].
  destruct (i =? 0)%nat; [constructor|]. apply Forall_app_i; [apply point_toks_scalar|].
  destruct (i =? length all - 1)%nat; toks.
Qed.

Lemma node_sound_toks_scalar nodes : forall n i, line_scalar (node_sound_toks n i nodes).
Proof.
  induction n as [|k IH]; intros i; cbn [node_sound_toks]; [constructor|].
  apply Forall_app_i; [|apply IH]. destruct k; toks.
Qed.

Lemma node_bank_toks_scalar nodes mode : Forall (Forall name_scalar) nodes ->
  forall n i, line_scalar (node_bank_toks n i nodes mode).
Proof.
  intros Hn. induction n as [|k IH]; intros i; cbn [node_bank_toks]; [constructor|].
  apply Forall_app_i.
  - destruct (nth_error nodes i) as [l|] eqn:E; [|toks].
    apply sample_bank_toks_scalar. rewrite Forall_forall in Hn. exact (Hn l (nth_error_In _ _ E)).
  - apply Forall_app_i; [destruct k; toks|apply IH].
Qed.

Section Enc.
  Variable dist_of : Z -> list PCP -> option F64 -> outcome F64.
  Variable events_of : F64 -> F64 -> F64 -> F64 -> F64 -> Z -> outcome (list EncEvent).

  Lemma slider_toks_scalar s pos mode l : Forall (Forall name_scalar) (sl_node_samples s) ->
    slider_toks dist_of s pos mode = Done l -> line_scalar l.
  Proof.
    intros Hn H. unfold slider_toks in H.
    destruct (match sl_expected_dist s with Some d => Done d | None => _ end) as [dist|w|];
      cbn [obind] in H; try discriminate.
    destruct (span_iters s) as [n|w|]; cbn [obind] in H; try discriminate.
    apply Done_inj in H; rewrite <- H; clear H. apply Forall_app_i; [apply path_loop_toks_scalar|].
    repeat (apply Forall_cons; [solve [toks]|]). apply Forall_app_i; [apply node_sound_toks_scalar|].
    apply node_bank_toks_scalar. exact Hn.
  Qed.

  Lemma object_line_scalar mode h l : obj_scalar h -> object_line dist_of mode h = Done l -> line_scalar l.
  Proof.
    intros [Hs Hk] H. unfold object_line in H. cbv zeta in H.
    destruct (match h_kind h with KCircle _ => _ | KSlider s => _ | KSpinner s => _ | KHold hd => _ end)
      as [mid|w|] eqn:Em; cbn [obind] in H; try discriminate.
    assert (Hmid : line_scalar mid).
    { destruct (h_kind h) as [c|s|s|hd].
      - inversion Em; subst. constructor.
      - exact (slider_toks_scalar _ _ _ _ Hk Em).
      - inversion Em; subst. toks.
      - inversion Em; subst. toks. }
    apply Done_inj in H; rewrite <- H; clear H. repeat (apply Forall_cons; [solve [toks]|]). apply Forall_app_i; [exact Hmid|].
    apply sample_bank_toks_scalar. exact Hs.
  Qed.

  Lemma object_lines_scalar mode : forall objs ls, Forall obj_scalar objs ->
    object_lines dist_of mode objs = Done ls -> Forall line_scalar ls.
  Proof.
    induction objs as [|h r IH]; intros ls Ho H; cbn [object_lines] in H; [inversion H; constructor|].
    inversion Ho as [|? ? Hh Hr]; subst.
    destruct (object_line dist_of mode h) as [x|w|] eqn:Ex; cbn [obind] in H; try discriminate.
    destruct (object_lines dist_of mode r) as [xs|w|] eqn:Exs; cbn [obind] in H; try discriminate.
    inversion H; subst. constructor; [exact (object_line_scalar _ _ _ Hh Ex)|exact (IH _ Hr eq_refl)].
  Qed.

  Lemma enc_hit_objects_scalar mode objs ls : Forall obj_scalar objs ->
    enc_hit_objects dist_of mode objs = Done ls -> Forall line_scalar ls.
  Proof.
    intros Ho H. unfold enc_hit_objects in H.
    destruct (object_lines dist_of mode objs) as [xs|w|] eqn:E; cbn [obind] in H; try discriminate.
    inversion H; subst. constructor; [apply header_tok_scalar|exact (object_lines_scalar _ _ _ Ho E)].
  Qed.

  (* ---------- timing points: numbers and separators only ---------- *)

  Lemma props_toks_scalar p b : line_scalar (props_toks p b).
  Proof. unfold props_toks. destruct b; toks. Qed.

  Lemma timing_line_scalar (a b : F64) props : line_scalar ([TF64 a; t_comma; TF64 b; t_comma] ++ props_toks props true).
  Proof. apply Forall_app_i; [toks|apply props_toks_scalar]. Qed.
  Lemma group_line_scalar (a b : F64) props : line_scalar ([TF64 a; t_comma; TF64 b; t_comma] ++ props_toks props false).
  Proof. apply Forall_app_i; [toks|apply props_toks_scalar]. Qed.

  Lemma group_lines_scalar c : forall gs last ls, group_lines c last gs = Done ls -> Forall line_scalar ls.
  Proof.
    induction gs as [|g r IH]; intros last ls H; cbn [group_lines] in H; [inversion H; constructor|].
    destruct (props_new _ c last _) as [props|w|]; cbn [obind] in H; try discriminate.
    destruct (gr_timing g) as [t|];
      (destruct (props_redundant props _);
       [ destruct (group_lines c _ r) as [xs|w|] eqn:E
       | destruct (group_lines c props r) as [xs|w|] eqn:E ]; cbn [obind] in H; try discriminate;
       apply Done_inj in H; rewrite <- H; clear H;
       repeat (apply Forall_cons; [first [apply timing_line_scalar | apply group_line_scalar]|]);
       exact (IH _ _ E)).
  Qed.

  Lemma enc_timing_points_scalar m ls : enc_timing_points dist_of events_of m = Done ls -> Forall line_scalar ls.
  Proof.
    intros H. unfold enc_timing_points in H. cbv zeta in H.
    destruct (collect_samples _ _ _ _ _ _ _ _) as [c|w|]; cbn [obind] in H; try discriminate.
    destruct (group_lines c props_default (groups_of c)) as [xs|w|] eqn:E; cbn [obind] in H; try discriminate.
    inversion H; subst. constructor; [apply header_tok_scalar|exact (group_lines_scalar _ _ _ _ E)].
  Qed.

  (* ---------- Beatmap::encode ---------- *)

  Lemma sec_app (l r : list line) : Forall line_scalar l -> Forall line_scalar r ->
    Forall line_scalar ([] :: l ++ r).
  Proof. intros Hl Hr. apply Forall_cons; [constructor|]. apply Forall_app_i; assumption. Qed.

  Lemma encode_lines_scalar m ls : bmv_scalar m -> encode_lines dist_of events_of m = Done ls ->
    Forall line_scalar ls.
  Proof.
    intros (Hg & Hm & He & Hc & Ho) H. unfold encode_lines in H. cbv zeta in H.
    destruct (enc_timing_points dist_of events_of m) as [tp|w|] eqn:Et; cbn [obind] in H; try discriminate.
    destruct (enc_hit_objects dist_of _ _) as [objs|w|] eqn:Eo; cbn [obind] in H; try discriminate.
    apply Done_inj in H; rewrite <- H; clear H.
    pose proof (enc_timing_points_scalar _ _ Et) as Ht.
    pose proof (enc_hit_objects_scalar _ _ _ Ho Eo) as Hobjs.
    apply Forall_cons; [apply enc_version_scalar|].
    apply sec_app; [apply enc_general_scalar; exact Hg|].
    apply sec_app; [apply enc_editor_scalar|].
    apply sec_app; [apply enc_metadata_scalar; exact Hm|].
    apply sec_app; [apply enc_difficulty_scalar|].
    apply sec_app; [apply enc_events_scalar; exact He|].
    apply sec_app; [exact Ht|].
    apply sec_app; [apply enc_colors_scalar; exact Hc|].
    apply Forall_cons; [constructor|exact Hobjs].
  Qed.

  Theorem encode_tokens_scalar m toks :
    bmv_scalar m -> encode_tokens dist_of events_of m = Done toks -> Forall tok_scalar toks.
  Proof.
    intros Hm H. unfold encode_tokens in H.
    destruct (encode_lines dist_of events_of m) as [ls|w|] eqn:E; cbn [obind] in H; try discriminate.
    inversion H; subst. apply Forall_flat_map.
    eapply Forall_impl; [|exact (encode_lines_scalar _ _ Hm E)].
    intros l Hl. apply Forall_app_i; [exact Hl|]. toks.
  Qed.
End Enc.

(* ---------- the rendered text ---------- *)

Section Rendered.
  Variables (fmt_f64 : F64 -> str) (fmt_f32 : F32 -> str) (fmt_int : Z -> str).
  Hypothesis fmt_scalar : (forall x, scalar_str (fmt_f64 x)) /\ (forall x, scalar_str (fmt_f32 x)) /\
                          (forall n, scalar_str (fmt_int n)).

  Lemma render_tok_scalar t : tok_scalar t -> scalar_str (render_tok fmt_f64 fmt_f32 fmt_int t).
  Proof.
    destruct fmt_scalar as (H64 & H32 & Hi). intros H. destruct t as [s|x|x|n]; cbn [render_tok];
      [exact H|apply H64|apply H32|apply Hi].
  Qed.

  Theorem rendered_scalar toks : Forall tok_scalar toks ->
    scalar_str (flat_map (render_tok fmt_f64 fmt_f32 fmt_int) toks).
  Proof.
    intros H. unfold scalar_str. apply Forall_flat_map.
    eapply Forall_impl; [|exact H]. exact render_tok_scalar.
  Qed.
End Rendered.

(* decoder and encoder together: what a decoded map is encoded to is a Rust `String` *)
Corollary decode_encode_scalar dist dist_of events_of fmt_f64 fmt_f32 fmt_int lines m toks :
  (forall x, scalar_str (fmt_f64 x)) /\ (forall x, scalar_str (fmt_f32 x)) /\ (forall n, scalar_str (fmt_int n)) ->
  Forall scalar_str lines -> decode_beatmap dist lines = Done m ->
  encode_tokens dist_of events_of m = Done toks ->
  scalar_str (flat_map (render_tok fmt_f64 fmt_f32 fmt_int) toks).
Proof.
  intros Hf Hl Hd He. apply (rendered_scalar _ _ _ Hf).
  exact (encode_tokens_scalar _ _ _ _ (decode_beatmap_scalar _ _ _ Hl Hd) He).
Qed.

Print Assumptions encode_tokens_scalar.
Print Assumptions rendered_scalar.

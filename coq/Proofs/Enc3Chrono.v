(* Enc3Chrono: the hypothesis [combo_chain] of the whole-map theorem is a FACT about every decoded
   map whose accepted hit-object lines were in chronological order -- the hypothesis of property C02.

   [raw_objects lines]: the object list the line parsers have built when the last line is read
   (file order, before the stable sort).  If it is sorted by start time, the stable sort is the
   identity, the flags the parser forced (first object, after a spinner) sit on the objects the
   second decode will force them on, and the flags of the break post-processing are a function of
   start times and breaks alone. *)
From RM Require Import Model.EncSpec Model.EncObjCarry Model.HitObjectSpec Proofs.EncObjectsRT Proofs.MapLevelFacts
     Proofs.MapLevelConcrete Proofs.HitObjectLineFacts Proofs.FramingFacts Proofs.DecodersFacts Proofs.DecodersTotal
     Proofs.Enc3Framing Proofs.Enc3Objects.
From RM Require Proofs.C14Clauses.
From RM Require Import Gen.Generated.
From Coq Require Import Sorting.Sorted ZifyBool Lia.
Open Scope Z_scope.

(* the flags the parser forces are set: a circle / slider that is first or follows a spinner has new_combo *)
Fixpoint raw_combo (f : bool) (l : list HitObject) : bool :=
  match l with
  | [] => true
  | h :: r =>
      match h_kind h with
      | KCircle c => implb f (ci_new_combo c)
      | KSlider s => implb f (sl_new_combo s)
      | _ => true
      end && raw_combo (is_spinner h) r
  end.

Definition last_forces (f : bool) (l : list HitObject) : bool :=
  match last_opt l with Some o => is_spinner o | None => f end.

Lemma last_opt_snoc' {A} (l : list A) x : last_opt (l ++ [x]) = Some x.
Proof. apply C14Clauses.last_opt_snoc. Qed.

Lemma last_opt_cons_some {A} : forall (l : list A) x, exists y, last_opt (x :: l) = Some y.
Proof.
  induction l as [|a r IH]; intros x; [exists x; reflexivity|].
  destruct (IH a) as [y Ey]. exists y. change (last_opt (x :: a :: r)) with (last_opt (a :: r)). exact Ey.
Qed.

Lemma raw_combo_snoc o : forall l f,
  raw_combo f (l ++ [o]) =
  raw_combo f l && match h_kind o with
                   | KCircle c => implb (last_forces f l) (ci_new_combo c)
                   | KSlider s => implb (last_forces f l) (sl_new_combo s)
                   | _ => true
                   end.
Proof.
  induction l as [|h r IH]; intros f.
  - cbn [app raw_combo]. unfold last_forces. cbn [last_opt andb]. apply andb_true_r.
  - cbn [app raw_combo]. rewrite IH, andb_assoc. f_equal.
    unfold last_forces. destruct r as [|h2 r2]; [reflexivity|].
    change (last_opt (h :: h2 :: r2)) with (last_opt (h2 :: r2)).
    destruct (last_opt_cons_some r2 h2) as [y Ey]. rewrite Ey. reflexivity.
Qed.

(* the parser-state invariant *)
Definition combo_inv (st : HOState) : Prop :=
  raw_combo true (ho_objects st) = true /\ fs st = last_forces true (ho_objects st).

Lemma combo_inv_step st line st' r : combo_inv st -> parse_hit_objects st line = Done (st', r) -> combo_inv st'.
Proof.
  intros (H1 & H2) H. destruct r.
  - destruct (C14Clauses.accepted_line _ _ _ H) as (f & k & obj & _ & Hk & Hobj & Hl & Hm & _ & Ht & Hok & _).
    destruct (fs_after_accepted _ _ _ _ H Hobj) as (Hfs & _).
    split.
    + rewrite Hobj, raw_combo_snoc, H1. cbn [andb]. rewrite <- H2.
      unfold C14Clauses.kind_ok in Hok. destruct (h_kind obj) as [c|s| |]; try reflexivity.
      * destruct Hok as (_ & Hn & _). rewrite Hn, <- forced_new_combo_spec. unfold forced_new_combo. fold (fs st).
        destruct (fs st); reflexivity.
      * destruct Hok as (_ & Hn & _). rewrite Hn, <- forced_new_combo_spec. unfold forced_new_combo. fold (fs st).
        destruct (fs st); reflexivity.
    + rewrite Hfs, Hobj. unfold last_forces. rewrite last_opt_snoc'. reflexivity.
  - destruct (C14Clauses.rejected_state _ _ _ H) as (Hl & Ho & _). unfold combo_inv, fs, first_object, last_object_was_spinner.
    rewrite Hl, Ho. exact (conj H1 H2).
Qed.

Definition combo_inv_bm (os : outcome BMD) : Prop :=
  match os with Done b => combo_inv (hod_core (bmd_ho b)) | _ => True end.

Lemma combo_inv_ext st st' : ho_last st' = ho_last st -> ho_objects st' = ho_objects st -> combo_inv st -> combo_inv st'.
Proof. intros Hl Ho (H1 & H2). unfold combo_inv, fs, first_object, last_object_was_spinner in *. rewrite Hl, Ho. exact (conj H1 H2). Qed.

Lemma combo_inv_bm_step sec os l : combo_inv_bm os -> combo_inv_bm (fst (parser_of bm_parsers sec os l)).
Proof.
  intros Hos. destruct os as [b|w|]; [|destruct sec; exact I|destruct sec; exact I].
  cbn [combo_inv_bm] in Hos. destruct b as [ver ed md co ho]. destruct ho as [tp df ev last curve verts objs].
  cbn [bmd_ho] in Hos.
  destruct sec; cbn [parser_of bm_parsers p_general p_editor p_metadata p_difficulty p_events p_timing_points
                     p_colors p_hit_objects p_variables p_catch_the_beat p_mania];
    unfold liftp, liftt, on_ho, noop; cbn [obind bmd_ho bmd_version bmd_editor bmd_metadata bmd_colors fst].
  - unfold hod_parse_general. destruct (tpd_parse_general _ l) as [g r]. cbn [obind fst combo_inv_bm bmd_ho hod_with_tp].
    exact (combo_inv_ext _ _ eq_refl eq_refl Hos).
  - unfold bmd_parse_editor. destruct (parse_editor _ l) as [e r]. cbn [fst combo_inv_bm bmd_ho]. exact Hos.
  - unfold bmd_parse_metadata. destruct (parse_metadata _ l) as [m r]. cbn [fst combo_inv_bm bmd_ho]. exact Hos.
  - unfold hod_parse_difficulty. destruct (parse_difficulty _ l) as [d r]. cbn [obind fst combo_inv_bm bmd_ho].
    exact (combo_inv_ext _ _ eq_refl eq_refl Hos).
  - unfold hod_parse_events. destruct (parse_events _ l) as [e r]. cbn [obind fst combo_inv_bm bmd_ho].
    exact (combo_inv_ext _ _ eq_refl eq_refl Hos).
  - unfold hod_parse_timing_points. destruct (tpd_parse_timing_points _ l) as [[t r]|w|]; cbn [obind fst combo_inv_bm]; try exact I.
    cbn [bmd_ho hod_with_tp]. exact (combo_inv_ext _ _ eq_refl eq_refl Hos).
  - unfold bmd_parse_colors. destruct (parse_colors _ l) as [c r]. cbn [fst combo_inv_bm bmd_ho]. exact Hos.
  - unfold hod_parse_hit_objects. destruct (parse_hit_objects _ l) as [[c r]|w|] eqn:E; cbn [obind fst combo_inv_bm]; try exact I.
    cbn [bmd_ho]. apply (combo_inv_ext c); [reflexivity|reflexivity|]. exact (combo_inv_step _ _ _ _ Hos E).
  - exact Hos.
  - exact Hos.
  - exact Hos.
Qed.

(* the object list at the end of the file, in file order *)
Definition raw_objects (lines : list str) : list HitObject :=
  match feed bm_parsers (Done (bmd_create (version_of lines))) (route (skip bm_parsers) None (body_of lines)) with
  | Done s => hod_objects (bmd_ho s)
  | _ => []
  end.

(* ---------- through the map-level processing ---------- *)

Definition flag_of (h : HitObject) : option bool :=
  match h_kind h with
  | KCircle c => Some (ci_new_combo c) | KSlider s => Some (sl_new_combo s)
  | KSpinner s => Some (sp_new_combo s) | KHold _ => None
  end.

Section WithDist.
  Variable dist : Z -> list PCP -> option F64 -> outcome F64.

  Lemma process_object_flag c sm mode h h' : process_object dist c sm mode h = Done h' ->
    h_start h' = h_start h /\ flag_of h' = flag_of h /\ is_spinner h' = is_spinner h /\
    (match h_kind h, h_kind h' with
     | KCircle _, KCircle _ | KSlider _, KSlider _ | KSpinner _, KSpinner _ | KHold _, KHold _ => True
     | _, _ => False end).
  Proof.
    intros H. destruct (h_kind h) as [ci|s|s|hd] eqn:Hk.
    2: { destruct (process_object_slider dist c sm mode h s h' Hk H) as (dp & d & _ & _ & E). cbv zeta in E. subst h'.
         unfold flag_of, is_spinner. cbn [h_start h_kind]. rewrite Hk. cbn [sl_new_combo]. repeat split. }
    all: destruct (process_object_non_slider dist c sm mode h) as (e & E & _);
      [intros s0; rewrite Hk; discriminate|]; rewrite E in H; injection H as <-;
      unfold flag_of, is_spinner; cbn [h_start h_kind]; rewrite Hk; repeat split.
  Qed.

  Lemma force_flag_of h fb :
    h_start (force_new_combo h fb) = h_start h /\ is_spinner (force_new_combo h fb) = is_spinner h /\
    flag_of (force_new_combo h fb) = option_map (fun b => b || fb) (flag_of h).
  Proof. unfold force_new_combo, flag_of, is_spinner. destruct (h_kind h) eqn:E; cbn [h_start h_kind option_map]; rewrite ?E; repeat split. Qed.

  Lemma combo_chain_processed c sm mode : forall raw bs f out,
    raw_combo f raw = true ->
    process_objects dist c sm mode (post_process_breaks h_start force_new_combo bs raw) = Done out ->
    combo_chain bs f out = true.
  Proof.
    induction raw as [|h r IH]; intros bs f out Hraw Hp.
    - cbn [post_process_breaks process_objects] in Hp. injection Hp as <-. reflexivity.
    - cbn [post_process_breaks] in Hp. destruct (skip_breaks bs (h_start h) false) as [bs' fb] eqn:Eb.
      cbn [process_objects] in Hp.
      destruct (process_object dist c sm mode (force_new_combo h fb)) as [o2| |] eqn:E1; cbn [obind] in Hp; try discriminate.
      destruct (process_objects dist c sm mode _) as [out'| |] eqn:E2; cbn [obind] in Hp; try discriminate.
      injection Hp as <-. cbn [raw_combo] in Hraw. apply andb_true_iff in Hraw. destruct Hraw as [Hr1 Hr2].
      destruct (process_object_flag _ _ _ _ _ E1) as (Ps & Pf & Psp & Pk).
      destruct (force_flag_of h fb) as (Fs & Fsp & Ff).
      cbn [combo_chain]. rewrite Ps, Fs, Eb. apply andb_true_iff. split.
      + rewrite Ff in Pf. unfold flag_of in Pf.
        assert (Hkk : match h_kind h, h_kind (force_new_combo h fb) with
                      | KCircle _, KCircle _ | KSlider _, KSlider _ | KSpinner _, KSpinner _ | KHold _, KHold _ => True
                      | _, _ => False end).
        { unfold force_new_combo. destruct (h_kind h) eqn:E; cbn [h_kind]; rewrite ?E; exact I. }
        destruct (h_kind h) as [ci|s|s|hd]; destruct (h_kind (force_new_combo h fb)); try contradiction;
          destruct (h_kind o2); try contradiction; cbn [option_map] in Pf; try reflexivity;
          injection Pf as ->.
        * destruct (ci_new_combo ci); cbn [orb implb] in *; [destruct (f || fb); reflexivity|].
          destruct f; [discriminate|]. cbn [orb]. destruct fb; reflexivity.
        * destruct (sl_new_combo s); cbn [orb implb] in *; [destruct (f || fb); reflexivity|].
          destruct f; [discriminate|]. cbn [orb]. destruct fb; reflexivity.
        * destruct (sp_new_combo s), fb; reflexivity.
      + rewrite Psp, Fsp. exact (IH bs' (is_spinner h) out' Hr2 E2).
  Qed.

  (* the decoded map of a file whose accepted hit-object lines are chronological satisfies [combo_chain] *)
  Theorem decoded_combo_chain lines m :
    decode_beatmap dist lines = Done m ->
    StronglySorted Z.le (map start_key (raw_objects lines)) ->
    combo_chain (ev_breaks (hov_events (bmv_ho m))) true (hov_hit_objects (bmv_ho m)) = true.
  Proof.
    unfold decode_beatmap, raw_objects. rewrite driver_refines.
    pose proof (feed_invariant bm_parsers combo_inv_bm combo_inv_bm_step
                  (route (skip bm_parsers) None (body_of lines)) (Done (bmd_create (version_of lines)))) as Hinv.
    destruct (feed bm_parsers _ _) as [s|w|]; cbn [obind]; try discriminate.
    intros Hb Hsorted. destruct (bmd_finish_inv dist s m Hb) as (_ & _ & _ & _ & Hh).
    destruct (hod_finish_inv dist _ _ Hh) as (_ & _ & He & _ & Hf).
    assert (Hi : combo_inv (hod_core (bmd_ho s))).
    { apply Hinv. unfold combo_inv_bm, combo_inv, bmd_create, hod_create, hod_core. cbn. split; reflexivity. }
    destruct Hi as (Hraw & _). cbn [hod_core ho_objects] in Hraw.
    unfold finish_hit_objects in Hf. rewrite (ssort_sorted_id start_key _ Hsorted) in Hf. rewrite He.
    exact (combo_chain_processed _ _ _ _ _ true _ Hraw Hf).
  Qed.
End WithDist.

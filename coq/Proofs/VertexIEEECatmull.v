(* VertexIEEECatmull: C17, Catmull segments -- the binary32 rounding error
   between the vertices computed by catmull_subpath and the exact Catmull-Rom
   polynomial of the same (binary32) control points.

   One coordinate, control values v1 v2 v3 finite with |v| <= U = 2^E, v4 finite
   with |v4| <= 3U (v4 may be the phantom point 2 v3 - v2), w = 2^(E-24):
     coefficients (code's association, each line: magnitude bound, error)
       x1 = 2 v2                              2U    0        (exact)
       x2 = -v1 + v3                          2U    1w
       x3 = 2 v1 - 5 v2 + 4 v3 - v4          14U   24w      (5 v2: 4w, -: 4w, +: 8w, -: 8w)
       x4 = -v1 + 3 (v2 - v3) + v4           10U   19w      (1w, *3: 3w + 4w, +: 4w, +: 8w)
     evaluation at a binary32 t in [0, 1] (t2 = t*t: 2^-25, t3 = t2*t: 2^-24)
       x2 t   2U  2w;   x1 + .  4U  4w;   x3 t2  14U  39w;   + .  18U  59w;
       x4 t3  10U  37w;  + .  28U  112w;  0.5 * .  14U  56w + 2^-150
                                                           [catmull_eval_ieee]
     parameter: t = fl(c / 50) (c an integer <= 50, exact in binary32) lies in
     [0, 1] and is within 2^-25 of c / 50 [catmull_param]; the polynomial is
     30U-Lipschitz on [0, 1] [catmull_lipschitz]: 15w more.
   Total per coordinate: 71 w + 2^-150 <= E_cat E = 72 * 2^(E-24)
                                                           [catmull_vertex_coord].
   In the plane (both coordinates): distance <= 3/2 E_cat E (sqrt 2 <= 3/2)
                                                           [catmull_subpath_ieee],
   and with the chord bound of HausdorffCatmull:
                                                           [catmull_span_hausdorff_ieee]. *)
From RM Require Import Model.ControlPoints Model.Curve Gen.Generated Proofs.EncFloat Proofs.EncPathFloat Proofs.CatmullFacts
  Proofs.BezierEqualPoints Proofs.BezierIEEEScalar Proofs.BezierIEEE Proofs.ArcExact Proofs.HausdorffPlane Proofs.HausdorffCatmull
  Proofs.VertexIEEEBase.
From Flocq Require Import Core BinarySingleNaN.
From Coq Require Import Reals Lra Lia Psatz.
Open Scope R_scope.

Local Notation fin x := (is_finite x = true).
Local Notation fexp32 := (SpecFloat.fexp 24 128).
Local Notation RN := (round radix2 fexp32 (round_mode mode_NE)).
Local Notation bp := (bpow radix2).

Definition u24 : R := / 16777216.

Lemma bp_m25 : bp (-25) = u24 / 2.
Proof. unfold u24. cbn. lra. Qed.
Lemma bp_m24 : bp (-24) = u24.
Proof. unfold u24. cbn. lra. Qed.

Lemma S_ofZ' n : (Z.abs n < 2 ^ 24)%Z -> fin (S.of_Z n) /\ B2R (S.of_Z n) = IZR n.
Proof. intros H. destruct (of_Z_exact 24 128 Hp32 He32 n H) as (R & F). split; assumption. Qed.

Section Scale.
  Variable E : Z.
  Hypothesis HE : (0 <= E <= 100)%Z.
  Let U : R := bp E.

  Lemma U_pos : 0 < U.
  Proof. apply bpow_gt_0. Qed.

  Lemma bp_Ej j p : (p = 2 ^ j)%Z -> (0 <= j)%Z -> bp (E + j) = IZR p * U.
  Proof.
    intros -> Hj. rewrite bpow_plus, Rmult_comm. f_equal.
    change 2%Z with (radix_val radix2). rewrite IZR_Zpower by exact Hj. reflexivity.
  Qed.

  Lemma bp_Ej25 j p : (p = 2 ^ j)%Z -> (0 <= j)%Z -> bp (E + j - 25) = IZR p / 2 * (U * u24).
  Proof.
    intros Hp Hj. replace (E + j - 25)%Z with ((E + j) + -25)%Z by ring.
    rewrite bpow_plus, (bp_Ej j p Hp Hj), bp_m25. field.
  Qed.

  Lemma w_eq : bp (E - 24) = U * u24.
  Proof. replace (E - 24)%Z with (E + -24)%Z by ring. rewrite bpow_plus, bp_m24. reflexivity. Qed.

  Lemma mU_le m j p : (p = 2 ^ j)%Z -> (0 <= j)%Z -> (m <= p)%Z -> IZR m * U <= bp (E + j).
  Proof.
    intros Hp Hj Hm. rewrite (bp_Ej j p Hp Hj). apply Rmult_le_compat_r; [left; apply U_pos|apply IZR_le; exact Hm].
  Qed.

  Lemma nU_add a b va vb Ba Bb da db m j p :
    nearv a va Ba da -> nearv b vb Bb db -> (p = 2 ^ j)%Z -> (0 <= j <= 20)%Z -> (0 <= m <= p)%Z ->
    Ba + Bb <= IZR m * U ->
    nearv (S.add a b) (va + vb) (IZR m * U) (da + db + IZR p / 2 * (U * u24)).
  Proof.
    intros Ha Hb Hp Hj Hm HB. rewrite <- (bp_Ej25 j p Hp ltac:(lia)).
    assert (p <= 2 ^ 20)%Z by (subst p; apply Z.pow_le_mono_r; lia).
    apply (near_add a b va vb Ba Bb da db); try assumption.
    - apply fmt_mU; lia.
    - apply (mU_le m j p); lia.
    - lia.
  Qed.

  Lemma nU_sub a b va vb Ba Bb da db m j p :
    nearv a va Ba da -> nearv b vb Bb db -> (p = 2 ^ j)%Z -> (0 <= j <= 20)%Z -> (0 <= m <= p)%Z ->
    Ba + Bb <= IZR m * U ->
    nearv (S.sub a b) (va - vb) (IZR m * U) (da + db + IZR p / 2 * (U * u24)).
  Proof.
    intros Ha Hb Hp Hj Hm HB. rewrite <- (bp_Ej25 j p Hp ltac:(lia)).
    assert (p <= 2 ^ 20)%Z by (subst p; apply Z.pow_le_mono_r; lia).
    apply (near_sub a b va vb Ba Bb da db); try assumption.
    - apply fmt_mU; lia.
    - apply (mU_le m j p); lia.
    - lia.
  Qed.

  Lemma nU_mul a b va vb Ba Bb da db m j p :
    nearv a va Ba da -> nearv b vb Bb db -> (p = 2 ^ j)%Z -> (0 <= j <= 20)%Z -> (0 <= m <= p)%Z ->
    Ba * Bb <= IZR m * U ->
    nearv (S.mul a b) (va * vb) (IZR m * U) (da * Bb + Ba * db + IZR p / 2 * (U * u24)).
  Proof.
    intros Ha Hb Hp Hj Hm HB. rewrite <- (bp_Ej25 j p Hp ltac:(lia)).
    assert (p <= 2 ^ 20)%Z by (subst p; apply Z.pow_le_mono_r; lia).
    apply (near_mul a b va vb Ba Bb da db); try assumption.
    - apply fmt_mU; lia.
    - apply (mU_le m j p); lia.
    - lia.
  Qed.

  (* the integer literal p = 2^j times a *)
  Lemma nU_pow2 a va Ba da m j p :
    nearv a va Ba da -> (p = 2 ^ j)%Z -> (0 <= j <= 20)%Z -> (0 <= m <= 2 ^ 20)%Z ->
    IZR p * Ba <= IZR m * U ->
    nearv (S.mul (S.of_Z p) a) (IZR p * va) (IZR m * U) (IZR p * da).
  Proof.
    intros Ha Hp Hj Hm HB.
    assert (Hp20 : (0 < p <= 2 ^ 20)%Z).
    { subst p. split; [apply Z.pow_pos_nonneg; lia|apply Z.pow_le_mono_r; lia]. }
    destruct (S_ofZ' p ltac:(lia)) as [Fc Rc].
    assert (Ebp : IZR p = bp j).
    { subst p. change 2%Z with (radix_val radix2). rewrite IZR_Zpower by lia. reflexivity. }
    rewrite Ebp in *.
    apply (near_mul_pow2 (S.of_Z p) j a va Ba da (IZR m * U) (E + 20)); try assumption; try lia.
    apply (mU_le m 20 (2 ^ 20)); lia.
  Qed.

  (* an integer literal as an operand *)
  Lemma near_lit n : (0 <= n < 2 ^ 24)%Z -> nearv (S.of_Z n) (IZR n) (IZR n) 0.
  Proof.
    intros Hn. destruct (S_ofZ' n ltac:(lia)) as [F Rn]. rewrite <- Rn at 1.
    apply nearv_self; [exact F|]. rewrite Rn, Rabs_pos_eq by (apply IZR_le; lia). lra.
  Qed.

  (* ---------- the coefficients ---------- *)

  Definition coordU (k : R) (x : F32) : Prop := fin x /\ Rabs (B2R x) <= k * U.

  Lemma coordU_near k x : coordU k x -> nearv x (B2R x) (k * U) 0.
  Proof. intros [F B]. apply nearv_self; assumption. Qed.

  Lemma catmull_coord_near v1 v2 v3 v4 :
    coordU 1 v1 -> coordU 1 v2 -> coordU 1 v3 -> coordU 3 v4 ->
    let '(x1, x2, x3, x4) := catmull_coord v1 v2 v3 v4 in
    let '(r1, r2, r3, r4) := catmull_coord_g real_ops (B2R v1) (B2R v2) (B2R v3) (B2R v4) in
    nearv x1 r1 (2 * U) 0 /\ nearv x2 r2 (2 * U) (1 * (U * u24)) /\
    nearv x3 r3 (14 * U) (24 * (U * u24)) /\ nearv x4 r4 (10 * U) (19 * (U * u24)).
  Proof.
    intros C1 C2 C3 C4.
    pose proof U_pos as HU.
    assert (Hu : 0 < u24) by (unfold u24; lra).
    pose proof (coordU_near _ _ C1) as N1. pose proof (coordU_near _ _ C2) as N2.
    pose proof (coordU_near _ _ C3) as N3. pose proof (coordU_near _ _ C4) as N4.
    unfold catmull_coord, catmull_coord_g, f32_ops, real_ops.
    cbn [o_add o_sub o_mul o_neg o_of_Z o_half].
    (* x1 *)
    pose proof (nU_pow2 v2 _ _ _ 2 1 2 N2 eq_refl ltac:(lia) ltac:(lia) ltac:(lra)) as X1.
    (* x2 *)
    pose proof (nU_add _ _ _ _ _ _ _ _ 2 1 2 (near_neg _ _ _ _ N1) N3 eq_refl ltac:(lia) ltac:(lia) ltac:(lra)) as X2.
    (* x3 *)
    pose proof (nU_pow2 v1 _ _ _ 2 1 2 N1 eq_refl ltac:(lia) ltac:(lia) ltac:(lra)) as A1.
    pose proof (nU_mul _ _ _ _ _ _ _ _ 5 3 8 (near_lit 5 ltac:(lia)) N2 eq_refl ltac:(lia) ltac:(lia) ltac:(lra)) as A2.
    pose proof (nU_sub _ _ _ _ _ _ _ _ 7 3 8 A1 A2 eq_refl ltac:(lia) ltac:(lia) ltac:(lra)) as A3.
    pose proof (nU_pow2 v3 _ _ _ 4 2 4 N3 eq_refl ltac:(lia) ltac:(lia) ltac:(lra)) as A4.
    pose proof (nU_add _ _ _ _ _ _ _ _ 11 4 16 A3 A4 eq_refl ltac:(lia) ltac:(lia) ltac:(lra)) as A5.
    pose proof (nU_sub _ _ _ _ _ _ _ _ 14 4 16 A5 N4 eq_refl ltac:(lia) ltac:(lia) ltac:(lra)) as X3.
    (* x4 *)
    pose proof (nU_sub _ _ _ _ _ _ _ _ 2 1 2 N2 N3 eq_refl ltac:(lia) ltac:(lia) ltac:(lra)) as B1.
    pose proof (nU_mul _ _ _ _ _ _ _ _ 6 3 8 (near_lit 3 ltac:(lia)) B1 eq_refl ltac:(lia) ltac:(lia) ltac:(lra)) as B2.
    pose proof (nU_add _ _ _ _ _ _ _ _ 7 3 8 (near_neg _ _ _ _ N1) B2 eq_refl ltac:(lia) ltac:(lia) ltac:(lra)) as B3.
    pose proof (nU_add _ _ _ _ _ _ _ _ 10 4 16 B3 N4 eq_refl ltac:(lia) ltac:(lia) ltac:(lra)) as X4.
    assert (HUu : 0 < U * u24) by (apply Rmult_lt_0_compat; assumption).
    split; [eapply nearv_weaken; [exact X1|lra]|].
    split; [eapply nearv_weaken; [exact X2|lra]|].
    split; [eapply nearv_weaken; [exact X3|lra]|].
    eapply nearv_weaken; [exact X4|lra].
  Qed.

  (* ---------- the evaluation ---------- *)

  Lemma format_one : generic_format radix2 fexp32 1.
  Proof. replace 1 with (bp 0) by reflexivity. apply format_bpow32. lia. Qed.

  Lemma catmull_eval_near x1 x2 x3 x4 r1 r2 r3 r4 t :
    nearv x1 r1 (2 * U) 0 -> nearv x2 r2 (2 * U) (1 * (U * u24)) ->
    nearv x3 r3 (14 * U) (24 * (U * u24)) -> nearv x4 r4 (10 * U) (19 * (U * u24)) ->
    fin t -> 0 <= B2R t <= 1 ->
    nearv (catmull_eval (x1, x2, x3, x4) t) (catmull_eval_g real_ops (r1, r2, r3, r4) (B2R t))
          (14 * U) (56 * (U * u24) + bp (-150)).
  Proof.
    intros X1 X2 X3 X4 Ft Ht.
    pose proof U_pos as HU.
    assert (Hu : 0 < u24) by (unfold u24; lra).
    assert (HUu : 0 < U * u24) by (apply Rmult_lt_0_compat; assumption).
    assert (NT : nearv t (B2R t) 1 0) by (apply nearv_self; [exact Ft|rewrite Rabs_pos_eq; lra]).
    unfold catmull_eval, catmull_eval_g, f32_ops, real_ops.
    cbn [o_add o_sub o_mul o_neg o_of_Z o_half].
    assert (H1 : (1 : R) <= bp 0) by (cbn; lra).
    pose proof (near_mul _ _ _ _ _ _ _ _ 1 0 NT NT ltac:(lra) format_one H1 ltac:(lia)) as T2.
    pose proof (near_mul _ _ _ _ _ _ _ _ 1 0 T2 NT ltac:(lra) format_one H1 ltac:(lia)) as T3.
    change (0 - 25)%Z with (-25)%Z in T2, T3. rewrite bp_m25 in T2, T3.
    pose proof (nU_mul _ _ _ _ _ _ _ _ 2 1 2 X2 NT eq_refl ltac:(lia) ltac:(lia) ltac:(lra)) as P2.
    pose proof (nU_add _ _ _ _ _ _ _ _ 4 2 4 X1 P2 eq_refl ltac:(lia) ltac:(lia) ltac:(lra)) as S1.
    pose proof (nU_mul _ _ _ _ _ _ _ _ 14 4 16 X3 T2 eq_refl ltac:(lia) ltac:(lia) ltac:(lra)) as P3.
    pose proof (nU_add _ _ _ _ _ _ _ _ 18 5 32 S1 P3 eq_refl ltac:(lia) ltac:(lia) ltac:(lra)) as S2.
    pose proof (nU_mul _ _ _ _ _ _ _ _ 10 4 16 X4 T3 eq_refl ltac:(lia) ltac:(lia) ltac:(lra)) as P4.
    pose proof (nU_add _ _ _ _ _ _ _ _ 28 5 32 S2 P4 eq_refl ltac:(lia) ltac:(lia) ltac:(lra)) as S3.
    pose proof (near_half _ _ _ _ (14 * U) (E + 4) S3 ltac:(lra) (fmt_mU 14 E ltac:(lia) ltac:(lia))
                  (mU_le 14 4 16 eq_refl ltac:(lia) ltac:(lia)) ltac:(lia)) as R0.
    eapply nearv_weaken; [exact R0|]. lra.
  Qed.

  Definition E_cat_eval : R := 56 * bp (E - 24) + bp (-150).

  (* one coordinate, any binary32 parameter in [0, 1] *)
  Theorem catmull_eval_ieee v1 v2 v3 v4 t :
    coordU 1 v1 -> coordU 1 v2 -> coordU 1 v3 -> coordU 3 v4 -> fin t -> 0 <= B2R t <= 1 ->
    fin (catmull_eval (catmull_coord v1 v2 v3 v4) t) /\
    Rabs (B2R (catmull_eval (catmull_coord v1 v2 v3 v4) t)
          - catmull_rom (B2R v1) (B2R v2) (B2R v3) (B2R v4) (B2R t)) <= E_cat_eval.
  Proof.
    intros C1 C2 C3 C4 Ft Ht.
    pose proof (catmull_coord_near v1 v2 v3 v4 C1 C2 C3 C4) as HC.
    rewrite <- catmull_is_catmull_rom. unfold catmull_R.
    destruct (catmull_coord v1 v2 v3 v4) as [[[x1 x2] x3] x4].
    destruct (catmull_coord_g real_ops (B2R v1) (B2R v2) (B2R v3) (B2R v4)) as [[[r1 r2] r3] r4].
    destruct HC as (X1 & X2 & X3 & X4).
    destruct (catmull_eval_near x1 x2 x3 x4 r1 r2 r3 r4 t X1 X2 X3 X4 Ft Ht) as (F & _ & _ & D).
    split; [exact F|]. unfold E_cat_eval. rewrite w_eq. exact D.
  Qed.

  (* the computed value stays below 14 * 2^E *)
  Theorem catmull_eval_bound v1 v2 v3 v4 t :
    coordU 1 v1 -> coordU 1 v2 -> coordU 1 v3 -> coordU 3 v4 -> fin t -> 0 <= B2R t <= 1 ->
    Rabs (B2R (catmull_eval (catmull_coord v1 v2 v3 v4) t)) <= 14 * U.
  Proof.
    intros C1 C2 C3 C4 Ft Ht.
    pose proof (catmull_coord_near v1 v2 v3 v4 C1 C2 C3 C4) as HC.
    destruct (catmull_coord v1 v2 v3 v4) as [[[x1 x2] x3] x4].
    destruct (catmull_coord_g real_ops (B2R v1) (B2R v2) (B2R v3) (B2R v4)) as [[[r1 r2] r3] r4].
    destruct HC as (X1 & X2 & X3 & X4).
    destruct (catmull_eval_near x1 x2 x3 x4 r1 r2 r3 r4 t X1 X2 X3 X4 Ft Ht) as (_ & Bd & _). exact Bd.
  Qed.

  (* ---------- the polynomial is Lipschitz on [0, 1] ---------- *)

  Lemma catmull_lipschitz r1 r2 r3 r4 a b :
    Rabs r1 <= U -> Rabs r2 <= U -> Rabs r3 <= U -> Rabs r4 <= 3 * U -> 0 <= a <= 1 -> 0 <= b <= 1 ->
    Rabs (catmull_rom r1 r2 r3 r4 a - catmull_rom r1 r2 r3 r4 b) <= 30 * U * Rabs (a - b).
  Proof.
    intros H1 H2 H3 H4 Ha Hb. pose proof U_pos as HU.
    apply Rabs_le_inv in H1, H2, H3, H4.
    set (x2 := - r1 + r3). set (x3 := 2 * r1 - 5 * r2 + 4 * r3 - r4). set (x4 := - r1 + 3 * r2 - 3 * r3 + r4).
    set (g3 := a + b). set (g4 := a * a + a * b + b * b).
    replace (catmull_rom r1 r2 r3 r4 a - catmull_rom r1 r2 r3 r4 b)
      with ((a - b) * ((x2 + x3 * g3 + x4 * g4) / 2)) by (unfold catmull_rom, x2, x3, x4, g3, g4; field).
    rewrite Rabs_mult, Rmult_comm. apply Rmult_le_compat_r; [apply Rabs_pos|].
    assert (A2 : Rabs x2 <= 2 * U) by (apply Rabs_le; unfold x2; lra).
    assert (A3 : Rabs x3 <= 14 * U) by (apply Rabs_le; unfold x3; lra).
    assert (A4 : Rabs x4 <= 10 * U) by (apply Rabs_le; unfold x4; lra).
    assert (G3 : 0 <= g3 <= 2) by (unfold g3; lra).
    assert (G4 : 0 <= g4 <= 3) by (unfold g4; nra).
    assert (M3 : Rabs (x3 * g3) <= 14 * U * 2).
    { rewrite Rabs_mult, (Rabs_pos_eq g3) by lra. apply Rmult_le_compat; try apply Rabs_pos; lra. }
    assert (M4 : Rabs (x4 * g4) <= 10 * U * 3).
    { rewrite Rabs_mult, (Rabs_pos_eq g4) by lra. apply Rmult_le_compat; try apply Rabs_pos; lra. }
    unfold Rdiv. rewrite Rabs_mult, (Rabs_pos_eq (/ 2)) by lra.
    assert (Rabs (x2 + x3 * g3 + x4 * g4) <= 60 * U); [|lra].
    eapply Rle_trans; [apply Rabs_triang|]. eapply Rle_trans; [apply Rplus_le_compat_r, Rabs_triang|]. lra.
  Qed.
End Scale.

(* ---------- the parameter ---------- *)

Lemma detail_f_R : fin catmull_detail_f /\ B2R catmull_detail_f = 50.
Proof. unfold catmull_detail_f. change catmull_detail with 50%Z. apply S_ofZ'. lia. Qed.

Lemma catmull_param_Z c : (0 <= c <= 50)%Z ->
  let t := S.div (S.of_Z c) catmull_detail_f in
  fin t /\ 0 <= B2R t <= 1 /\ Rabs (B2R t - IZR c / 50) <= bp (-25).
Proof.
  intros Hc t. destruct detail_f_R as [F50 R50]. destruct (S_ofZ' c ltac:(lia)) as [Fc Rc].
  assert (N50 : B2R catmull_detail_f <> 0) by (rewrite R50; lra).
  pose proof (Bdiv_correct 24 128 Hp32 He32 mode_NE (S.of_Z c) catmull_detail_f N50) as H.
  rewrite R50, Rc in H.
  assert (Hq : 0 <= IZR c / 50 <= 1).
  { assert (0 <= IZR c) by (apply IZR_le; lia). assert (IZR c <= 50) by (apply IZR_le; lia). lra. }
  assert (Hb : Rabs (IZR c / 50) <= bp 0) by (rewrite Rabs_pos_eq by lra; cbn; lra).
  rewrite Rlt_bool_true in H
    by (eapply Rle_lt_trans; [apply (RN_bound _ 0); [lia|exact Hb]|apply bpow_lt_emax; lia]).
  destruct H as (HR & HF & _). unfold S.div, fdiv in t. fold t in HR, HF.
  split; [rewrite HF; exact Fc|]. rewrite HR. split.
  - split.
    + rewrite <- (round_0 radix2 fexp32 (round_mode mode_NE)).
      apply round_le; [apply FLT_exp_valid; reflexivity|apply valid_rnd_N|lra].
    + eapply Rle_trans; [apply Rle_abs|]. replace 1 with (bp 0) by reflexivity. apply RN_bound; [lia|exact Hb].
  - pose proof (RN_err (IZR c / 50) 0 ltac:(lia) Hb) as He.
    rewrite half_ulp in He by lia. exact He.
Qed.

Lemma catmull_param_a c : (c < 50)%nat ->
  let t := S.div (S.of_Z (Z.of_nat c)) catmull_detail_f in
  fin t /\ 0 <= B2R t <= 1 /\ Rabs (B2R t - INR c / 50) <= bp (-25).
Proof. intros Hc. rewrite INR_IZR_INZ. apply catmull_param_Z. lia. Qed.

Lemma catmull_param_b c : (c < 50)%nat ->
  let t := S.div (S.add (S.of_Z (Z.of_nat c)) S.one) catmull_detail_f in
  fin t /\ 0 <= B2R t <= 1 /\ Rabs (B2R t - (INR c + 1) / 50) <= bp (-25).
Proof.
  intros Hc.
  assert (Ea : S.add (S.of_Z (Z.of_nat c)) S.one = S.of_Z (Z.of_nat c + 1)).
  { unfold S.add, fadd, S.one, S.of_Z. apply (of_Z_add 24 128 Hp32 He32); lia. }
  rewrite Ea. replace (INR c + 1) with (IZR (Z.of_nat c + 1)) by (rewrite plus_IZR, <- INR_IZR_INZ; reflexivity).
  apply catmull_param_Z. lia.
Qed.

(* ---------- one computed vertex coordinate ---------- *)

Definition E_cat (E : Z) : R := 72 * bp (E - 24).

Lemma E_cat_pos E : 0 < E_cat E.
Proof. unfold E_cat. pose proof (bpow_gt_0 radix2 (E - 24)). lra. Qed.

Theorem catmull_vertex_coord E v1 v2 v3 v4 t q :
  (0 <= E <= 100)%Z ->
  coordU E 1 v1 -> coordU E 1 v2 -> coordU E 1 v3 -> coordU E 3 v4 ->
  fin t -> 0 <= B2R t <= 1 -> 0 <= q <= 1 -> Rabs (B2R t - q) <= bp (-25) ->
  fin (catmull_eval (catmull_coord v1 v2 v3 v4) t) /\
  Rabs (B2R (catmull_eval (catmull_coord v1 v2 v3 v4) t)
        - catmull_rom (B2R v1) (B2R v2) (B2R v3) (B2R v4) q) <= E_cat E.
Proof.
  intros HE C1 C2 C3 C4 Ft Ht Hq Htq.
  destruct (catmull_eval_ieee E HE v1 v2 v3 v4 t C1 C2 C3 C4 Ft Ht) as [F D].
  split; [exact F|].
  pose proof (catmull_lipschitz E (B2R v1) (B2R v2) (B2R v3) (B2R v4) (B2R t) q
                ltac:(destruct C1 as [_ B]; lra) ltac:(destruct C2 as [_ B]; lra)
                ltac:(destruct C3 as [_ B]; lra) (proj2 C4) Ht Hq) as L.
  set (c := B2R (catmull_eval (catmull_coord v1 v2 v3 v4) t)) in *.
  set (P := catmull_rom (B2R v1) (B2R v2) (B2R v3) (B2R v4)) in *.
  replace (c - P q) with ((c - P (B2R t)) + (P (B2R t) - P q)) by ring.
  eapply Rle_trans; [apply Rabs_triang|].
  unfold E_cat_eval in D. unfold E_cat.
  pose proof (bpow_gt_0 radix2 E) as HU.
  assert (L' : Rabs (P (B2R t) - P q) <= 15 * bp (E - 24)).
  { eapply Rle_trans; [exact L|]. rewrite (w_eq E).
    apply Rle_trans with (30 * bp E * bp (-25)); [apply Rmult_le_compat_l; [lra|exact Htq]|].
    rewrite bp_m25. lra. }
  assert (bp (-150) <= bp (E - 24)) by (apply bpow_le; lia).
  lra.
Qed.

(* EncTiming: T04b for timing-point lines, at the level of the line grammar:
   every line of the [TimingPoints] section has the shape [tp_line], and such a
   line is accepted by the decoder's field parser ([parse_tp_line] returns the
   record, so [parse_timing_points] does not reject it), with the time and the
   uninherited flag it was written from. *)
From RM Require Import Model.EncSpec Proofs.EncText Proofs.EncFmt Proofs.EncSimple Proofs.EncObjects Proofs.FramingFacts Proofs.NumFacts.
From RM Require Import Gen.Generated.
From Flocq Require Import BinarySingleNaN.
From Coq Require Import ZifyBool.
Open Scope Z_scope.

(* every body line of the section is a [tp_line] *)
Lemma group_lines_shape c : forall gs last ls,
  group_lines c last gs = Done ls ->
  Forall (fun l => exists time beat p tc, l = tp_line time beat p tc) ls.
Proof.
  induction gs as [|g r IH]; intros last ls H; cbn [group_lines] in H.
  - inversion H. constructor.
  - destruct (props_new (gr_time g) c last _) as [props|w|]; cbn [obind] in H; try discriminate.
    destruct (gr_timing g) as [t|]; cbv zeta beta iota in H.
    + match type of H with (if ?b then _ else _) = _ => destruct b end.
      * destruct (group_lines c _ r) as [ls'|w|] eqn:E; cbn [obind] in H; try discriminate.
        inversion H; subst. constructor; [do 4 eexists; reflexivity|]. exact (IH _ _ E).
      * destruct (group_lines c _ r) as [ls'|w|] eqn:E; cbn [obind] in H; try discriminate.
        inversion H; subst. constructor; [do 4 eexists; reflexivity|].
        constructor; [do 4 eexists; reflexivity|]. exact (IH _ _ E).
    + match type of H with (if ?b then _ else _) = _ => destruct b end.
      * destruct (group_lines c _ r) as [ls'|w|] eqn:E; cbn [obind] in H; try discriminate.
        inversion H; subst. exact (IH _ _ E).
      * destruct (group_lines c _ r) as [ls'|w|] eqn:E; cbn [obind] in H; try discriminate.
        inversion H; subst. constructor; [do 4 eexists; reflexivity|]. exact (IH _ _ E).
Qed.

Section Timing.
  Variables (fmt_f64 : F64 -> str) (fmt_f32 : F32 -> str) (fmt_int : Z -> str).
  Hypothesis Hfmt : fmt_ok fmt_f64 fmt_f32 fmt_int.
  Notation rline := (render fmt_f64 fmt_f32 fmt_int).

  Definition tp_text (time beat : F64) (p : Props) (tc : bool) : str :=
    fmt_f64 time ++ comma :: fmt_f64 beat ++ comma :: fmt_int (pr_sig p) ++ comma :: fmt_int (pr_bank p) ++
    comma :: fmt_int (pr_custom p) ++ comma :: fmt_int (pr_vol p) ++ comma ::
    (if tc then [49] else [48]) ++ comma :: fmt_int (pr_flags p).

  Lemma render_tp_line time beat p tc : rline (tp_line time beat p tc) = tp_text time beat p tc.
  Proof.
    unfold tp_line, props_toks, tp_text, render. cbn [app flat_map render_tok t_comma].
    rewrite app_nil_r. unfold comma. destruct tc; repeat (progress (rewrite <- ?app_assoc; cbn [app])); reflexivity.
  Qed.

  Lemma tp_text_safe time beat p tc : forallb safec (tp_text time beat p tc) = true.
  Proof.
    unfold tp_text. repeat (rewrite forallb_app || cbn [forallb]).
    rewrite !(f64_safe _ _ _ Hfmt), !(int_safe _ _ _ Hfmt). destruct tc; reflexivity.
  Qed.

  Lemma f_beat_fmt x : in_lim64 x = true -> f_beat (fmt_f64 x) = Some x.
  Proof.
    intros H. unfold f_beat. rewrite (plain_trim _ (f64_chars _ _ _ Hfmt x)).
    rewrite (f64_parse _ _ _ Hfmt x (in_lim64_finite x H)). cbn [obnd].
    unfold in_lim64 in H. apply andb_true_iff in H. destruct H as [H H2]. apply andb_true_iff in H. destruct H as [_ H1].
    assert (L1 : D.lt x (D.of_Z (- max_parse_value)) = false).
    { apply (Proofs.FloatCmp.fle_nlt 53 1024). revert H1. unfold lim64, D.le, D.neg.
      replace (fneg 53 1024 (D.of_Z max_parse_value)) with (D.of_Z (- max_parse_value)); [exact (fun h => h)|].
      apply B2SF_inj. vm_compute. reflexivity. }
    assert (L2 : D.gt x (D.of_Z max_parse_value) = false) by (apply (Proofs.FloatCmp.fle_nlt 53 1024); exact H2).
    rewrite L1, L2. reflexivity.
  Qed.

  (* the decoder's field parser accepts the line and reads the time and the flag back *)
  Theorem tp_line_accepted time beat p tc : tp_line_ok time beat p tc = true ->
    forall g, exists r, parse_tp_line g (rline (tp_line time beat p tc)) = Some r /\
                        l_time r = time /\ l_tc r = tc /\ l_beat r = beat /\ l_custom r = pr_custom p /\ l_vol r = pr_vol p.
  Proof.
    unfold tp_line_ok. intros H g.
    repeat match type of H with _ && _ = true => let X := fresh "X" in
             apply andb_true_iff in H; destruct H as [H X] end.
    rewrite render_tp_line. unfold parse_tp_line.
    destruct (safe_value _ (tp_text_safe time beat p tc)) as [A B].
    rewrite (trim_comment_clean _ B (tidy_last _ A)). unfold tp_text.
    rewrite (split_on_field comma (fmt_f64 time)) by (apply (f64_no _ _ _ Hfmt); reflexivity).
    rewrite (split_on_field comma (fmt_f64 beat)) by (apply (f64_no _ _ _ Hfmt); reflexivity).
    rewrite (split_on_field comma (fmt_int (pr_sig p))) by (apply (int_no _ _ _ Hfmt); reflexivity).
    rewrite (split_on_field comma (fmt_int (pr_bank p))) by (apply (int_no _ _ _ Hfmt); reflexivity).
    rewrite (split_on_field comma (fmt_int (pr_custom p))) by (apply (int_no _ _ _ Hfmt); reflexivity).
    rewrite (split_on_field comma (fmt_int (pr_vol p))) by (apply (int_no _ _ _ Hfmt); reflexivity).
    rewrite (split_on_field comma (if tc then [49] else [48])) by (destruct tc; reflexivity).
    rewrite (split_no_comma (fmt_int (pr_flags p))) by (apply (int_no _ _ _ Hfmt); reflexivity).
    unfold parse_fields. cbn [next obnd].
    rewrite (pn_f64_fmt _ _ _ Hfmt time H), (f_beat_fmt beat X5). cbn [obnd].
    assert (Hsig : exists n, f_sig (Some (fmt_int (pr_sig p))) = Some n).
    { unfold f_sig. destruct (fmt_int (pr_sig p)) as [|ch rest] eqn:E.
      - exfalso. exact (int_nonempty' _ _ _ Hfmt _ E).
      - destruct (ch =? tp_sig_skip_char); [eexists; reflexivity|]. rewrite <- E.
        rewrite (pn_i32_fmt _ _ _ Hfmt _ X3). cbn [obnd]. unfold time_signature_new. rewrite X4. eexists. reflexivity. }
    destruct Hsig as [sg Hsg]. rewrite Hsg. cbn [obnd].
    unfold f_bank, f_custom, f_vol, f_flags.
    rewrite (pn_i32_fmt _ _ _ Hfmt _ X2), (pn_i32_fmt _ _ _ Hfmt _ X1), (pn_i32_fmt _ _ _ Hfmt _ X0). cbn [obnd].
    rewrite (int_parse _ _ _ Hfmt (pr_flags p)) by (unfold raw_i32_ok in X; lia). cbn [obnd].
    assert (Hn : D.is_nan beat = false).
    { unfold in_lim64 in X5. apply andb_prop_l in X5. apply andb_prop_l in X5. apply negb_true_iff in X5. exact X5. }
    rewrite Hn, andb_false_r. eexists. split; [reflexivity|]. cbn [l_time l_tc l_beat l_custom l_vol].
    repeat split; try reflexivity. destruct tc; reflexivity.
  Qed.
End Timing.

(* ReaderScalar: every line the READER model produces is a string of Unicode
   scalar values (what a Rust `String` is), for every byte input and every
   reader schedule.

   The model's `str := list Z` is untyped, and so is `bytes := list Z`.  The
   decoders of Model/Encoding.v do arithmetic on the "bytes" without checking
   0 <= b < 256, so for out-of-range integers they do emit non-scalars
   ([decode Utf8 [-1] = Done [-1]], [decode Utf16LE [0; 5000] = Done [1280000]],
   see the Examples at the end).  Hence the hypothesis
       bytes_ok b := Forall (fun x => 0 <= x < 256) b
   which is what `&[u8]` guarantees.  For UTF-8 alone [0 <= x] suffices
   ([decode_utf8_scalar]). *)
From RM Require Import Model.Text Model.Encoding Model.Reader.
From RM Require Import Proofs.EncodingFacts Proofs.ReaderFacts Proofs.TransparencyFacts.
From RM Require Import Gen.Generated.
Require Import Lia ZArith List ZifyBool.
Import ListNotations.
Open Scope Z_scope.

(* ------------------------------------------------------------------ *)
(* generic: Forall is kept by everything that only drops / reorders    *)
(* ------------------------------------------------------------------ *)

Section ForallGen.
Context {A : Type}.
Variable P : A -> Prop.

Lemma Forall_incl_gen : forall l l' : list A, incl l' l -> Forall P l -> Forall P l'.
Proof.
  intros l l' Hi Hl. rewrite Forall_forall in *. intros x Hx. apply Hl, Hi, Hx.
Qed.

Lemma Forall_firstn_gen : forall n (l : list A), Forall P l -> Forall P (firstn n l).
Proof.
  intros n l H. rewrite <- (firstn_skipn n l) in H. apply Forall_app in H. tauto.
Qed.

Lemma Forall_skipn_gen : forall n (l : list A), Forall P l -> Forall P (skipn n l).
Proof.
  intros n l H. rewrite <- (firstn_skipn n l) in H. apply Forall_app in H. tauto.
Qed.

Lemma Forall_rev_gen : forall l : list A, Forall P l -> Forall P (rev l).
Proof.
  intros l H. apply (Forall_incl_gen l); [|exact H]. intros x Hx. apply in_rev. exact Hx.
Qed.

Lemma Forall_filter_gen : forall f (l : list A), Forall P l -> Forall P (filter f l).
Proof.
  intros f l H. apply (Forall_incl_gen l); [|exact H]. intros x Hx.
  apply filter_In in Hx. tauto.
Qed.

Lemma Forall_prefix_gen : forall p q : list A, Forall P (p ++ q) -> Forall P p.
Proof. intros p q H. apply Forall_app in H. tauto. Qed.

Lemma Forall_suffix_gen : forall p q : list A, Forall P (p ++ q) -> Forall P q.
Proof. intros p q H. apply Forall_app in H. tauto. Qed.

Lemma Forall_infix_gen : forall p m q : list A, Forall P (p ++ m ++ q) -> Forall P m.
Proof. intros p m q H. apply Forall_suffix_gen in H. apply Forall_prefix_gen in H. exact H. Qed.

(* a (not necessarily contiguous) sublist *)
Inductive sublist : list A -> list A -> Prop :=
| sub_nil : sublist [] []
| sub_skip : forall x l l', sublist l l' -> sublist l (x :: l')
| sub_keep : forall x l l', sublist l l' -> sublist (x :: l) (x :: l').

Lemma Forall_sublist_gen : forall l l' : list A, sublist l l' -> Forall P l' -> Forall P l.
Proof.
  intros l l' S. induction S as [|x l l' S IH|x l l' S IH]; intros H.
  - constructor.
  - inversion H as [|x' t Hx Ht]; subst. apply IH; assumption.
  - inversion H as [|x' t Hx Ht]; subst. constructor; [assumption|apply IH; assumption].
Qed.
End ForallGen.

(* ------------------------------------------------------------------ *)
(* scalar strings: closure properties                                 *)
(* ------------------------------------------------------------------ *)

Lemma scalar_REPL : is_scalar REPL = true.
Proof. reflexivity. Qed.

Lemma scalar_nil : scalar_str [].
Proof. constructor. Qed.

Lemma scalar_cons : forall c s, is_scalar c = true -> scalar_str s -> scalar_str (c :: s).
Proof. intros c s Hc Hs. constructor; assumption. Qed.

Lemma scalar_incl : forall s s' : str, incl s' s -> scalar_str s -> scalar_str s'.
Proof. intros s s'. apply Forall_incl_gen. Qed.

Lemma scalar_sublist : forall s s' : str, sublist s' s -> scalar_str s -> scalar_str s'.
Proof. intros s s' S. apply Forall_sublist_gen. exact S. Qed.

Lemma scalar_firstn : forall n s, scalar_str s -> scalar_str (firstn n s).
Proof. intros n s. apply Forall_firstn_gen. Qed.

Lemma scalar_skipn : forall n s, scalar_str s -> scalar_str (skipn n s).
Proof. intros n s. apply Forall_skipn_gen. Qed.

Lemma scalar_rev : forall s, scalar_str s -> scalar_str (rev s).
Proof. intros s. apply Forall_rev_gen. Qed.

Lemma scalar_filter : forall f s, scalar_str s -> scalar_str (filter f s).
Proof. intros f s. apply Forall_filter_gen. Qed.

Lemma trim_start_suffix : forall s, exists p, s = p ++ trim_start s.
Proof.
  induction s as [|c r IH].
  - exists []. reflexivity.
  - cbn [trim_start]. destruct (is_ws c).
    + destruct IH as [p Hp]. exists (c :: p). cbn [app]. rewrite <- Hp. reflexivity.
    + exists []. reflexivity.
Qed.

Lemma Forall_trim_start : forall (P : Z -> Prop) s, Forall P s -> Forall P (trim_start s).
Proof.
  intros P s H. destruct (trim_start_suffix s) as [p Hp]. rewrite Hp in H.
  apply Forall_suffix_gen in H. exact H.
Qed.

Lemma Forall_trim_end : forall (P : Z -> Prop) s, Forall P s -> Forall P (trim_end s).
Proof.
  intros P s H. unfold trim_end. apply Forall_rev_gen, Forall_trim_start, Forall_rev_gen. exact H.
Qed.

Lemma Forall_trim : forall (P : Z -> Prop) s, Forall P s -> Forall P (trim s).
Proof. intros P s H. unfold trim. apply Forall_trim_end, Forall_trim_start. exact H. Qed.

Lemma scalar_trim_start : forall s, scalar_str s -> scalar_str (trim_start s).
Proof. intros s. apply Forall_trim_start. Qed.

Lemma scalar_trim_end : forall s, scalar_str s -> scalar_str (trim_end s).
Proof. intros s. apply Forall_trim_end. Qed.

Lemma scalar_trim : forall s, scalar_str s -> scalar_str (trim s).
Proof. intros s. apply Forall_trim. Qed.

(* ------------------------------------------------------------------ *)
(* the byte hypothesis                                                *)
(* ------------------------------------------------------------------ *)

Definition bytes_ok (b : bytes) : Prop := Forall (fun x => 0 <= x < 256) b.
Definition bytes_nonneg (b : bytes) : Prop := Forall (fun x => 0 <= x) b.

Lemma bytes_ok_nonneg : forall b, bytes_ok b -> bytes_nonneg b.
Proof.
  intros b H. unfold bytes_ok, bytes_nonneg in *. rewrite Forall_forall in *.
  intros x Hx. specialize (H x Hx). cbv beta in H. lia.
Qed.

Lemma bytes_ok_nil : bytes_ok [].
Proof. constructor. Qed.

Lemma bytes_ok_app : forall a b, bytes_ok (a ++ b) <-> bytes_ok a /\ bytes_ok b.
Proof. intros; apply Forall_app. Qed.

Lemma bytes_ok_firstn : forall n b, bytes_ok b -> bytes_ok (firstn n b).
Proof. intros n b. apply Forall_firstn_gen. Qed.

Lemma bytes_ok_skipn : forall n b, bytes_ok b -> bytes_ok (skipn n b).
Proof. intros n b. apply Forall_skipn_gen. Qed.

(* ------------------------------------------------------------------ *)
(* UTF-8: the one-pass automaton emits scalars only                   *)
(* ------------------------------------------------------------------ *)

(* weight of the bits still to come after the next byte *)
Definition pw (n : nat) : Z :=
  match n with O => 1 | S O => 64 | _ => 4096 end.

(* every integer of [a, b] is a scalar value *)
Definition scalar_ivl (a b : Z) : Prop :=
  (0 <= a /\ b < 55296) \/ (57344 <= a /\ b <= 1114111).

(* [SNeed n lo hi acc]: whatever continuation bytes are accepted from here
   (the next in lo..hi, then n more in 128..191), the code point completed
   lies in an interval of scalar values *)
Definition st_ok (st : lstate) : Prop :=
  match st with
  | SStart => True
  | SNeed n lo hi acc =>
      (n <= 2)%nat /\ 128 <= lo /\ hi <= 191 /\
      scalar_ivl ((acc * 64 + (lo - 128)) * pw n)
                 ((acc * 64 + (hi - 128)) * pw n + pw n - 1)
  end.

Ltac sc1 := cbv beta; unfold is_scalar, REPL; lia.

Lemma lossy_start_ok : forall b, 0 <= b ->
  scalar_str (fst (lossy_start b)) /\ st_ok (snd (lossy_start b)).
Proof.
  intros b Hb. unfold lossy_start, in_rng.
  case_ifs; cbn [fst snd st_ok pw];
    (split; [repeat constructor; sc1|]);
    try exact I;
    (split; [lia|]); (split; [lia|]); (split; [lia|]); unfold scalar_ivl; zdm.
Qed.

Lemma lossy_step_ok : forall st b, st_ok st -> 0 <= b ->
  scalar_str (fst (lossy_step st b)) /\ st_ok (snd (lossy_step st b)).
Proof.
  intros st b Hst Hb. destruct st as [|n lo hi acc]; cbn [lossy_step].
  - apply lossy_start_ok; assumption.
  - cbn [st_ok] in Hst. destruct Hst as (Hn & Hlo & Hhi & Hiv).
    destruct (in_rng lo hi b) eqn:E.
    + unfold in_rng in E. unfold scalar_ivl in Hiv.
      destruct n as [|[|[|n]]]; cbn [pw] in Hiv; cbn [fst snd st_ok pw]; [| | |lia].
      * split; [|exact I]. constructor; [|constructor]. cbv beta. unfold is_scalar. zdm.
      * split; [constructor|]. split; [lia|]. split; [lia|]. split; [lia|].
        unfold scalar_ivl. zdm.
      * split; [constructor|]. split; [lia|]. split; [lia|]. split; [lia|].
        unfold scalar_ivl. zdm.
    + pose proof (lossy_start_ok b Hb) as (So & St).
      destruct (lossy_start b) as [o st']. cbn [fst snd] in *.
      split; [constructor; [reflexivity|assumption]|assumption].
Qed.

Lemma lossy_run_scalar : forall v st, st_ok st -> bytes_nonneg v -> scalar_str (lossy_run st v).
Proof.
  induction v as [|b r IH]; intros st Hst Hv.
  - cbn [lossy_run]. destruct st; [constructor|repeat constructor].
  - inversion Hv as [|b' r' Hb Hr]; subst. cbn [lossy_run].
    pose proof (lossy_step_ok st b Hst Hb) as (So & St).
    destruct (lossy_step st b) as [o st']. cbn [fst snd] in *.
    apply scalar_app. split; [assumption|]. apply IH; assumption.
Qed.

Theorem lossy_spec_scalar : forall v, bytes_nonneg v -> scalar_str (lossy_spec v).
Proof. intros v H. unfold lossy_spec. apply lossy_run_scalar; [exact I|exact H]. Qed.

(* UTF-8 needs only non-negative "bytes": a lead byte >= 245 is rejected
   and a would-be continuation byte outside 128..191 never enters a code point *)
Theorem decode_utf8_scalar : forall v s, bytes_nonneg v -> decode_utf8 v = Done s -> scalar_str s.
Proof.
  intros v s Hv H. rewrite decode_utf8_lossy_spec in H. inversion H; subst.
  apply lossy_spec_scalar; assumption.
Qed.

(* a by-product: the chars of a slice that passed validation are scalars *)
Theorem utf8_chars_valid_scalar : forall v, bytes_nonneg v -> from_utf8 v = None ->
  scalar_str (utf8_chars v).
Proof.
  intros v Hv H. rewrite <- (from_utf8_none _ H). apply lossy_spec_scalar; assumption.
Qed.

(* ------------------------------------------------------------------ *)
(* UTF-16                                                             *)
(* ------------------------------------------------------------------ *)

Definition units_ok (us : list Z) : Prop := Forall (fun u => 0 <= u < 65536) us.

Lemma u16_le_units_ok_aux : forall b, bytes_ok b ->
  units_ok (u16_le b) /\ forall x, 0 <= x < 256 -> units_ok (u16_le (x :: b)).
Proof.
  induction b as [|a b IH]; intros Hb.
  - split; [constructor|]. intros x Hx. cbn [u16_le]. constructor.
  - inversion Hb as [|a' b' Ha Hb']; subst. destruct (IH Hb') as (I1 & I2). split.
    + apply I2; assumption.
    + intros x Hx. cbn [u16_le]. constructor; [cbv beta in *; lia|assumption].
Qed.

Lemma u16_be_units_ok_aux : forall b, bytes_ok b ->
  units_ok (u16_be b) /\ forall x, 0 <= x < 256 -> units_ok (u16_be (x :: b)).
Proof.
  induction b as [|a b IH]; intros Hb.
  - split; [constructor|]. intros x Hx. cbn [u16_be]. constructor.
  - inversion Hb as [|a' b' Ha Hb']; subst. destruct (IH Hb') as (I1 & I2). split.
    + apply I2; assumption.
    + intros x Hx. cbn [u16_be]. constructor; [cbv beta in *; lia|assumption].
Qed.

Lemma u16_le_units_ok : forall b, bytes_ok b -> units_ok (u16_le b).
Proof. intros b H. apply (u16_le_units_ok_aux b H). Qed.

Lemma u16_be_units_ok : forall b, bytes_ok b -> units_ok (u16_be b).
Proof. intros b H. apply (u16_be_units_ok_aux b H). Qed.

Lemma decode_utf16_scalar_len : forall n us, (length us <= n)%nat -> units_ok us ->
  scalar_str (decode_utf16 us).
Proof.
  induction n as [|n IH]; intros us L U.
  - destruct us as [|u r]; [constructor|cbn [length] in L; lia].
  - destruct us as [|u r]; [constructor|].
    cbn [length] in L. inversion U as [|u' r' Hu Ur]; subst. cbv beta in Hu.
    cbn [decode_utf16]. unfold is_surrogate.
    destruct (negb ((55296 <=? u) && (u <=? 57343))) eqn:E1.
    + constructor; [sc1|]. apply IH; [lia|assumption].
    + destruct (56320 <=? u) eqn:E2.
      * constructor; [reflexivity|]. apply IH; [lia|assumption].
      * destruct r as [|u2 r2]; [repeat constructor|].
        destruct ((u2 <? 56320) || (57343 <? u2)) eqn:E3.
        -- constructor; [reflexivity|]. apply IH; [lia|assumption].
        -- inversion Ur as [|u2' r2' Hu2 Ur2]; subst. cbn [length] in L.
           constructor; [cbv beta; unfold is_scalar; zdm|]. apply IH; [lia|assumption].
Qed.

Theorem decode_utf16_scalar : forall us, units_ok us -> scalar_str (decode_utf16 us).
Proof. intros us U. apply (decode_utf16_scalar_len (length us)); [lia|exact U]. Qed.

(* ------------------------------------------------------------------ *)
(* Encoding::decode                                                   *)
(* ------------------------------------------------------------------ *)

Theorem decode_scalar : forall e (b : bytes) s,
  bytes_ok b -> decode e b = Done s -> scalar_str s.
Proof.
  intros e b s Hb H. destruct e; cbn [decode] in H.
  - apply (decode_utf8_scalar b); [apply bytes_ok_nonneg; assumption|assumption].
  - inversion H; subst. apply decode_utf16_scalar, u16_be_units_ok. assumption.
  - inversion H; subst. apply decode_utf16_scalar, u16_le_units_ok. assumption.
Qed.

(* the total form used by ReaderFacts *)
Theorem dec_scalar : forall e (b : bytes), bytes_ok b -> scalar_str (dec e b).
Proof.
  intros e b Hb. apply (decode_scalar e b); [assumption|].
  apply (decode_dec decode_utf8_lossy_spec).
Qed.

(* ------------------------------------------------------------------ *)
(* the reader hands on only bytes it was given                        *)
(* ------------------------------------------------------------------ *)

Definition reader_ok (r : reader) : Prop := bytes_ok (buffered r) /\ bytes_ok (rest r).

Lemma mk_reader_ok : forall b s, bytes_ok b -> reader_ok (mk_reader b s).
Proof. intros b s H. split; [constructor|exact H]. Qed.

Lemma fill_buf_ok : forall r x r', reader_ok r -> fill_buf r = (x, r') ->
  reader_ok r' /\ match x with FbBuf a => bytes_ok a | _ => True end.
Proof.
  intros [bf rs sc] x r' [Hb Hr] H. cbn [buffered rest] in Hb, Hr.
  unfold fill_buf in H. cbn [buffered rest sched] in H.
  destruct bf as [|y bt].
  - destruct sc as [|[n| |k] s]; inversion H; subst; clear H; unfold reader_ok;
      cbn [buffered rest].
    + split; [split; [assumption|constructor]|assumption].
    + split; [split|]; [apply bytes_ok_firstn|apply bytes_ok_skipn|apply bytes_ok_firstn];
        assumption.
    + split; [split; [constructor|assumption]|exact I].
    + split; [split; [constructor|assumption]|exact I].
  - inversion H; subst; clear H. unfold reader_ok; cbn [buffered rest].
    split; [split; assumption|assumption].
Qed.

Lemma consume_ok : forall k r, reader_ok r -> reader_ok (consume k r).
Proof.
  intros k r [Hb Hr]. unfold consume, reader_ok. cbn [buffered rest].
  split; [apply bytes_ok_skipn; assumption|assumption].
Qed.

Lemma read_until_bytes_ok : forall fuel d r buf buf' r',
  reader_ok r -> bytes_ok buf -> read_until fuel d r buf = IoDone (buf', r') ->
  bytes_ok buf' /\ reader_ok r'.
Proof.
  induction fuel as [|f IH]; intros d r buf buf' r' Hr Hbuf H; [discriminate|].
  rewrite read_until_S in H. destruct (fill_buf r) as [[a| |k] r1] eqn:Hfb.
  - destruct (fill_buf_ok _ _ _ Hr Hfb) as (Hr1 & Ha).
    destruct (memchr d a) as [i|] eqn:Hm.
    + inversion H; subst buf' r'; clear H. split.
      * apply bytes_ok_app. split; [assumption|apply bytes_ok_firstn; assumption].
      * apply consume_ok; assumption.
    + destruct a as [|x t].
      * inversion H; subst buf' r'; clear H. split; [assumption|apply consume_ok; assumption].
      * apply IH in H; [exact H|apply consume_ok; assumption|].
        apply bytes_ok_app. split; assumption.
  - destruct (fill_buf_ok _ _ _ Hr Hfb) as (Hr1 & _). apply IH in H; assumption.
  - discriminate.
Qed.

Lemma read_exact_bytes_ok : forall fuel n r acc acc' r',
  reader_ok r -> bytes_ok acc -> read_exact fuel n r acc = IoDone (acc', r') ->
  bytes_ok acc' /\ reader_ok r'.
Proof.
  induction fuel as [|f IH]; intros n r acc acc' r' Hr Hacc H.
  - destruct n; [inversion H; subst; split; assumption|discriminate].
  - destruct n as [|n0]; [inversion H; subst; split; assumption|].
    rewrite read_exact_S in H.
    destruct (fill_buf r) as [[a| |k] r1] eqn:Hfb.
    + destruct (fill_buf_ok _ _ _ Hr Hfb) as (Hr1 & Ha).
      destruct (firstn (S n0) a) as [|g gt] eqn:Hg; [discriminate|].
      apply IH in H; [exact H|apply consume_ok; assumption|].
      apply bytes_ok_app. split; [assumption|]. rewrite <- Hg. apply bytes_ok_firstn. assumption.
    + destruct (fill_buf_ok _ _ _ Hr Hfb) as (Hr1 & _). apply IH in H; assumption.
    + discriminate.
Qed.

(* the extra-byte loop of read_line (UTF-16LE line feed), on the reader *)
Lemma read_extra_r_bytes_ok : forall fuel r buf buf' r',
  reader_ok r -> bytes_ok buf -> read_extra_r fuel r buf = IoDone (buf', r') ->
  bytes_ok buf' /\ reader_ok r'.
Proof.
  induction fuel as [|f IH]; intros r buf buf' r' Hr Hbuf H; [discriminate|].
  rewrite read_extra_r_S in H. destruct (fill_buf r) as [[a| |k] r1] eqn:Hfb.
  - destruct (fill_buf_ok _ _ _ Hr Hfb) as (Hr1 & Ha).
    destruct a as [|x t]; inversion H; subst buf' r'; clear H.
    + split; assumption.
    + split; [|apply consume_ok; assumption].
      apply bytes_ok_app. split; [assumption|]. inversion Ha; subst. constructor; [assumption|constructor].
  - destruct (fill_buf_ok _ _ _ Hr Hfb) as (Hr1 & _). apply IH in H; assumption.
  - discriminate.
Qed.

(* the Chain of the bytes read_bom took and the reader *)
Definition chain_ok (c : chain) : Prop := bytes_ok (pending c) /\ reader_ok (second c).

Lemma chain_read_until_bytes_ok : forall fuel d c buf buf' c',
  chain_ok c -> bytes_ok buf -> chain_read_until fuel d c buf = IoDone (buf', c') ->
  bytes_ok buf' /\ chain_ok c'.
Proof.
  intros fuel d [p dn r] buf buf' c' [Hp Hr] Hbuf H. rewrite chain_read_until_eq in H.
  cbn [pending done_first second] in *. destruct dn.
  - apply lift_done in H. destruct H as (r' & H & ->).
    destruct (read_until_bytes_ok _ _ _ _ _ _ Hr Hbuf H) as (Hb & Hr').
    split; [exact Hb|split; assumption].
  - destruct (memchr d p) as [i|].
    + inversion H; subst buf' c'; clear H. split.
      * apply bytes_ok_app. split; [assumption|apply bytes_ok_firstn; assumption].
      * split; [apply bytes_ok_skipn; assumption|assumption].
    + apply lift_done in H. destruct H as (r' & H & ->).
      assert (Hbp : bytes_ok (buf ++ p)) by (apply bytes_ok_app; split; assumption).
      destruct (read_until_bytes_ok _ _ _ _ _ _ Hr Hbp H) as (Hb & Hr').
      split; [exact Hb|split; [constructor|assumption]].
Qed.

Lemma read_extra_bytes_ok : forall fuel c buf buf' c',
  chain_ok c -> bytes_ok buf -> read_extra fuel c buf = IoDone (buf', c') ->
  bytes_ok buf' /\ chain_ok c'.
Proof.
  intros [|f] [p dn r] buf buf' c' [Hp Hr] Hbuf H; [discriminate|]. rewrite read_extra_eq in H.
  cbn [pending done_first second] in *. destruct dn.
  - apply lift_done in H. destruct H as (r' & H & ->).
    destruct (read_extra_r_bytes_ok _ _ _ _ _ Hr Hbuf H) as (Hb & Hr').
    split; [exact Hb|split; assumption].
  - destruct p as [|x t].
    + apply lift_done in H. destruct H as (r' & H & ->).
      destruct (read_extra_r_bytes_ok _ _ _ _ _ Hr Hbuf H) as (Hb & Hr').
      split; [exact Hb|split; [constructor|assumption]].
    + inversion H; subst buf' c'; clear H. inversion Hp; subst. split.
      * apply bytes_ok_app. split; [assumption|]. constructor; [assumption|constructor].
      * split; assumption.
Qed.

(* read_bom: the bytes it keeps are bytes of the stream *)
Lemma read_bom_reader_ok : forall fuel r head e h r',
  reader_ok r -> bytes_ok head -> read_bom fuel r head = IoDone (e, h, r') ->
  bytes_ok h /\ reader_ok r'.
Proof.
  induction fuel as [|f IH]; intros r head e h r' Hr Hh H; rewrite read_bom_unfold in H;
    destruct (length head <? min_bom_len)%nat;
    try (rewrite bom_finish_eq in H; inversion H; subst; split; [apply bytes_ok_skipn|]; assumption);
    [discriminate|].
  destruct (fill_buf r) as [[a| |k] r1] eqn:Hfb.
  - destruct (fill_buf_ok _ _ _ Hr Hfb) as (Hr1 & Ha).
    destruct a as [|x t].
    + rewrite bom_finish_eq in H. inversion H; subst. split; [apply bytes_ok_skipn|]; assumption.
    + apply IH in H; [exact H|apply consume_ok; assumption|].
      apply bytes_ok_app. split; [assumption|apply bytes_ok_firstn; assumption].
  - destruct (fill_buf_ok _ _ _ Hr Hfb) as (Hr1 & _). apply IH in H; assumption.
  - discriminate.
Qed.

(* Decoder::curr_line: decode, then trim_end *)
Lemma curr_line_scalar : forall d l, bytes_ok (read_buf d) -> curr_line d = IoDone l -> scalar_str l.
Proof.
  intros d l Hb H. unfold curr_line in H.
  destruct (decode (enc d) (read_buf d)) as [s|w|] eqn:D; cbn [io_of_outcome io_bind] in H;
    try discriminate.
  inversion H; subst. apply scalar_trim_end. apply (decode_scalar _ _ _ Hb D).
Qed.

Definition decoder_ok (d : decoder) : Prop := chain_ok (inner d) /\ bytes_ok (read_buf d).

Lemma line_step_bytes_ok : forall fuel e c buf k buf' c',
  chain_ok c -> bytes_ok buf -> line_step fuel e c buf = IoDone (k, buf', c') ->
  bytes_ok buf' /\ chain_ok c'.
Proof.
  intros fuel e c buf k buf' c' Hc Hb H. unfold line_step in H. destruct e.
  - inversion H; subst. split; assumption.
  - destruct (Nat.even (length buf)).
    + destruct (nth_error buf (length buf - 2)); [inversion H; subst; split; assumption|discriminate].
    + inversion H; subst. split; assumption.
  - destruct (Nat.even (length buf)); [inversion H; subst; split; assumption|].
    destruct (read_extra fuel c buf) as [[b c2]|k0|w|] eqn:RE; cbn [io_bind] in H; try discriminate.
    inversion H; subst. exact (read_extra_bytes_ok _ _ _ _ _ Hc Hb RE).
Qed.

Lemma read_line_loop_bytes_ok : forall n fuel e c buf buf' c',
  chain_ok c -> bytes_ok buf -> read_line_loop n fuel e c buf = IoDone (buf', c') ->
  bytes_ok buf' /\ chain_ok c'.
Proof.
  induction n as [|n IH]; intros fuel e c buf buf' c' Hc Hb H; [discriminate|]. cbn [read_line_loop] in H.
  destruct (chain_read_until fuel LF c buf) as [[buf1 c1]|k|w|] eqn:RU; cbn [io_bind] in H; try discriminate.
  destruct (chain_read_until_bytes_ok _ _ _ _ _ _ Hc Hb RU) as (Hb1 & Hc1).
  destruct ((length buf <? length buf1)%nat && ends_with_lf buf1).
  - destruct (line_step fuel e c1 buf1) as [[[f buf2] c2]|k|w|] eqn:LS; cbn [io_bind] in H; try discriminate.
    destruct (line_step_bytes_ok _ _ _ _ _ _ _ Hc1 Hb1 LS) as (Hb2 & Hc2). destruct f.
    + inversion H; subst. split; assumption.
    + exact (IH _ _ _ _ _ _ Hc2 Hb2 H).
  - inversion H; subst. split; assumption.
Qed.

Lemma read_line_scalar : forall fuel d o d',
  chain_ok (inner d) -> read_line fuel d = IoDone (o, d') ->
  decoder_ok d' /\ match o with Some l => scalar_str l | None => True end.
Proof.
  intros fuel d o d' Hr H. unfold read_line in H.
  destruct (read_line_loop fuel fuel (enc d) (inner d) []) as [[buf r]|k|w|] eqn:RU; cbn [io_bind] in H;
    try discriminate.
  destruct (read_line_loop_bytes_ok _ _ _ _ _ _ _ Hr bytes_ok_nil RU) as (Hbuf & Hr1).
  destruct buf as [|x t].
  - inversion H; subst o d'; clear H. split; [split; [assumption|constructor]|exact I].
  - destruct (curr_line (mkDecoder r (x :: t) (enc d))) as [l|k|w|] eqn:CL;
      cbn [io_bind] in H; try discriminate.
    inversion H; subst o d'; clear H.
    split; [split; assumption|]. apply curr_line_scalar in CL; [exact CL|exact Hbuf].
Qed.

Lemma lines_loop_scalar : forall n fuel d lines,
  chain_ok (inner d) -> lines_loop n fuel d = IoDone lines -> Forall scalar_str lines.
Proof.
  induction n as [|n IH]; intros fuel d lines Hr H; [discriminate|].
  cbn [lines_loop] in H.
  destruct (read_line fuel d) as [[o d1]|k|w|] eqn:RL; cbn [io_bind] in H; try discriminate.
  destruct (read_line_scalar _ _ _ _ Hr RL) as ((Hr1 & _) & Ho).
  destruct o as [l|].
  - destruct (lines_loop n fuel d1) as [ls|k|w|] eqn:LL; cbn [io_bind] in H; try discriminate.
    inversion H; subst lines; clear H. constructor; [exact Ho|]. apply (IH _ _ _ Hr1 LL).
  - inversion H; subst. constructor.
Qed.

(* any reader state whose pending bytes are bytes *)
Theorem read_all_lines_scalar_gen : forall r lines,
  reader_ok r -> read_all_lines r = IoDone lines -> Forall scalar_str lines.
Proof.
  intros r lines Hr H. unfold read_all_lines, decoder_new in H.
  destruct (read_bom (S (S (msr r))) r []) as [[[e h] r1]|k|w|] eqn:RB; cbn [io_bind] in H;
    try discriminate.
  destruct (read_bom_reader_ok _ _ _ _ _ _ Hr bytes_ok_nil RB) as (Hh & Hr1).
  apply lines_loop_scalar in H; [exact H|split; assumption].
Qed.

Theorem read_all_lines_scalar : forall (b : bytes) sched lines,
  bytes_ok b -> read_all_lines (mk_reader b sched) = IoDone lines -> Forall scalar_str lines.
Proof.
  intros b sc lines Hb H. apply (read_all_lines_scalar_gen (mk_reader b sc)); [|exact H].
  apply mk_reader_ok. exact Hb.
Qed.

(* ------------------------------------------------------------------ *)
(* the schedule-free reference (lines_pure / decode_stream) as well   *)
(* ------------------------------------------------------------------ *)

Lemma Forall_split_line : forall (P : Z -> Prop) d l, Forall P l ->
  Forall P (fst (split_line d l)) /\ Forall P (snd (split_line d l)).
Proof.
  intros P d l H. induction H as [|x t Hx Ht IH]; cbn [split_line].
  - split; constructor.
  - destruct (x =? d).
    + cbn [fst snd]. split; [constructor; [assumption|constructor]|assumption].
    + destruct (split_line d t) as [a b]. cbn [fst snd] in *.
      split; [constructor; tauto|tauto].
Qed.

Lemma Forall_scan16 : forall (P : Z -> Prop) le b st, Forall P b ->
  Forall P (fst (scan16 le st b)) /\ Forall P (snd (scan16 le st b)).
Proof.
  intros P le b. induction b as [|y t IH]; intros st H; cbn [scan16]; [split; constructor|].
  inversion H as [|y' t' Hy Ht]; subst. destruct st as [x|].
  - destruct (is_lf_unit le x y); cbn [fst snd]; [split; [constructor; [assumption|constructor]|assumption]|].
    destruct (IH None Ht) as (A & B). destruct (scan16 le None t). cbn [fst snd] in *. split; [constructor|]; assumption.
  - destruct (IH (Some y) Ht) as (A & B). destruct (scan16 le (Some y) t). cbn [fst snd] in *. split; [constructor|]; assumption.
Qed.

Lemma next_raw_bytes_ok : forall e b l r, bytes_ok b -> next_raw e b = Some (l, r) ->
  bytes_ok l /\ bytes_ok r.
Proof.
  intros e b l r Hb H. unfold next_raw in H.
  assert (X : bytes_ok (fst (raw_split e b)) /\ bytes_ok (snd (raw_split e b))).
  { destruct e; cbn [raw_split]; [apply Forall_split_line|apply Forall_scan16|apply Forall_scan16]; exact Hb. }
  destruct (raw_split e b) as [l0 r0]. cbn [fst snd] in X.
  destruct l0 as [|x t]; [discriminate|]. inversion H; subst. exact X.
Qed.

Theorem lines_pure_scalar : forall n e b lines,
  bytes_ok b -> lines_pure n e b = IoDone lines -> Forall scalar_str lines.
Proof.
  induction n as [|n IH]; intros e b lines Hb H; [discriminate|].
  cbn [lines_pure] in H.
  destruct (next_raw e b) as [[l r]|] eqn:NR.
  - destruct (next_raw_bytes_ok _ _ _ _ Hb NR) as (Hl & Hr).
    destruct (decode e l) as [s|w|] eqn:D; cbn [io_of_outcome io_bind] in H; try discriminate.
    destruct (lines_pure n e r) as [ls|k|w|] eqn:LP; cbn [io_bind] in H; try discriminate.
    inversion H; subst lines; clear H. constructor.
    + apply scalar_trim_end. apply (decode_scalar _ _ _ Hl D).
    + apply (IH _ _ _ Hr LP).
  - inversion H; subst. constructor.
Qed.

Theorem decode_stream_scalar : forall b lines,
  bytes_ok b -> decode_stream b = IoDone lines -> Forall scalar_str lines.
Proof.
  intros b lines Hb H. unfold decode_stream in H.
  destruct (from_bom b) as [e c].
  apply (lines_pure_scalar _ _ _ _ (bytes_ok_skipn c b Hb) H).
Qed.

(* ------------------------------------------------------------------ *)
(* the hypothesis is needed: the model computes on any integers        *)
(* ------------------------------------------------------------------ *)

Lemma not_scalar_single : forall c, is_scalar c = false -> ~ scalar_str [c].
Proof.
  intros c Hc H. inversion H as [|c' t Hc' Ht]; subst. cbv beta in Hc'. congruence.
Qed.

(* a negative "byte" passes the ASCII test of run_utf8_validation *)
Example decode_utf8_negative : decode Utf8 [-1] = Done [-1] /\ ~ scalar_str [-1].
Proof. split; [reflexivity|apply not_scalar_single; reflexivity]. Qed.

(* a "byte" above 255 makes a UTF-16 unit above 0xFFFF, taken as a BMP unit *)
Example decode_utf16_big : decode Utf16LE [0; 5000] = Done [1280000] /\ ~ scalar_str [1280000].
Proof. split; [reflexivity|apply not_scalar_single; reflexivity]. Qed.

Theorem decode_scalar_needs_bytes_ok :
  exists e (b : bytes) s, decode e b = Done s /\ ~ scalar_str s.
Proof. exists Utf8, [-1], [-1]. exact decode_utf8_negative. Qed.

Theorem read_all_lines_scalar_needs_bytes_ok :
  exists (b : bytes) sc lines,
    read_all_lines (mk_reader b sc) = IoDone lines /\ ~ Forall scalar_str lines.
Proof.
  exists [-1; -1; -1], [], [[-1; -1; -1]]. split; [vm_compute; reflexivity|].
  intro H. inversion H as [|l t Hl Ht]; subst.
  inversion Hl as [|c t' Hc Ht']; subst. cbv beta in Hc. vm_compute in Hc. discriminate.
Qed.

Print Assumptions decode_scalar.
Print Assumptions read_all_lines_scalar.
Print Assumptions decode_stream_scalar.

(* EncPathExamples: the path-string vocabulary on concrete decoded sliders
   (non-vacuity of T02c, and the recorded inputs of D13 / D17 fall in their classes). *)
From RM Require Import Model.EncPathSpec Proofs.EncRound.
Open Scope Z_scope.

(* per slider of a decoded map: in the image?  in D13?  in D17?  consecutive Catmull? *)
Definition path_facts (m : BeatmapV) : list (bool * bool * bool * bool) :=
  flat_map (fun h => match h_kind h with
                     | KSlider s =>
                         let cps := sl_control_points s in
                         [(path_image (sl_pos s) cps, d13_class cps, d17_class cps, consec_catmull cps)]
                     | _ => [] end) (hov_hit_objects (bmv_ho m)).

Definition cps_dump (m : BeatmapV) : list (list Z) :=
  flat_map (fun h => match h_kind h with KSlider s => [dump_pcps (sl_control_points s)] | _ => [] end)
           (hov_hit_objects (bmv_ho m)).

(* an implicit Bezier segment (duplicated point), an explicit perfect curve, a linear tail with a
   repeated last point, a Catmull slider, a single-point path *)
Definition paths_text : str :=
  join_lines ["osu file format v14"; "[HitObjects]";
              "100,100,1000,2,0,B|200:200|200:200|300:100|P|350:150|400:100|L|450:180|450:180,1,100";
              "-50,300,2000,6,0,C|0:0|64:-20|64:-20|111:89,2,150";
              "10,10,3000,2,0,L,1,100";
              "256,192,4000,2,0,B3|300:200|300:200|350:250|B3|400:300|400:300|450:250,1,90"]%string.

Lemma paths_example :
  match round_trip paths_text with
  | Done (m1, m2) =>
      path_facts m1 = [(true, false, false, false); (true, false, false, false);
                       (true, false, false, false); (true, false, false, false)] /\
      map (fun l => hd 0 l) (cps_dump m1) = [7; 5; 1; 5] /\
      cps_dump m2 = cps_dump m1
  | _ => False
  end.
Proof. vm_compute. repeat split; reflexivity. Qed.

(* the recorded inputs of the known classes lie in their classes (and in the image) *)
Lemma d13_in_class :
  match round_trip d13_text with Done (m1, _) => path_facts m1 = [(true, true, false, false)] | _ => False end.
Proof. vm_compute. reflexivity. Qed.

Lemma d17_in_class :
  match round_trip d17_text with Done (m1, _) => path_facts m1 = [(true, false, true, false)] | _ => False end.
Proof. vm_compute. reflexivity. Qed.

Definition cc_text : str :=
  join_lines ["osu file format v14"; "[HitObjects]"; "0,0,1000,2,0,C|10:10|20:0|C|30:10|40:0,1,100"]%string.
Lemma cc_in_class :
  match round_trip cc_text with
  | Done (m1, m2) => path_facts m1 = [(true, false, false, true)] /\
                     map (fun l => hd 0 l) (cps_dump m1) = [5] /\ map (fun l => hd 0 l) (cps_dump m2) = [6]
  | _ => False
  end.
Proof. vm_compute. repeat split; reflexivity. Qed.

(* ReaderFacts: lemmas about Model/Reader.v -- measure and fuel, schedule
   independence on ALL faultless schedules (T08), hard failures are returned
   (T09a), Interrupted is transparent (T09b), errors only from the reader
   (T01e), the writer (T09c). *)
From RM Require Import Model.Text Model.Encoding Model.Reader.
From RM Require Import Gen.Generated.
Require Import Lia ZArith List ZifyBool.
Import ListNotations.
Open Scope Z_scope.

(* ---------- basics ---------- *)

Definition bytes_of (r : reader) : bytes := buffered r ++ rest r.

Lemma msr_mk : forall b rs sc, msr (mkReader b rs sc) = (length b + length rs + length sc)%nat.
Proof. reflexivity. Qed.

Lemma faultless_nil : faultless [].
Proof. intros k H; inversion H. Qed.

Lemma faultless_cons : forall e s, faultless (e :: s) -> faultless s.
Proof. intros e s H k Hin. apply (H k). right; exact Hin. Qed.

Lemma faultless_not_fail : forall k s, ~ faultless (Fail k :: s).
Proof. intros k s H. apply (H k). left; reflexivity. Qed.

(* ---------- split_line / memchr ---------- *)

Lemma split_line_length : forall d l,
  (length (fst (split_line d l)) + length (snd (split_line d l)) = length l)%nat.
Proof.
  induction l as [|x t IH]; cbn [split_line]; [reflexivity|].
  destruct (x =? d); cbn [fst snd length]; [lia|].
  destruct (split_line d t) as [a b]; cbn [fst snd length] in *; lia.
Qed.

Lemma split_line_nil_iff : forall d l, fst (split_line d l) = [] <-> l = [].
Proof.
  intros d l; split; intros H; [|subst; reflexivity].
  destruct l as [|x t]; [reflexivity|]. cbn [split_line] in H.
  destruct (x =? d); [discriminate|]. destruct (split_line d t); discriminate.
Qed.

Lemma memchr_none_split : forall d l m, memchr d l = None ->
  split_line d (l ++ m) = (l ++ fst (split_line d m), snd (split_line d m)).
Proof.
  induction l as [|x t IH]; intros m H; cbn [app].
  - destruct (split_line d m); reflexivity.
  - cbn [memchr] in H. cbn [split_line]. destruct (x =? d); [discriminate|].
    destruct (memchr d t) eqn:E; [discriminate|]. rewrite (IH m eq_refl). reflexivity.
Qed.

Lemma memchr_some_split : forall d l m i, memchr d l = Some i ->
  split_line d (l ++ m) = (firstn (S i) l, skipn (S i) l ++ m).
Proof.
  induction l as [|x t IH]; intros m i H; [discriminate|].
  cbn [memchr] in H. cbn [app split_line]. destruct (x =? d).
  - inversion H; subst. reflexivity.
  - destruct (memchr d t) as [j|] eqn:E; [|discriminate]. inversion H; subst.
    rewrite (IH m j eq_refl). reflexivity.
Qed.

Lemma memchr_some_lt : forall d l i, memchr d l = Some i -> (i < length l)%nat.
Proof.
  induction l as [|x t IH]; intros i H; [discriminate|]. cbn [memchr] in H.
  destruct (x =? d); [inversion H; cbn; lia|].
  destruct (memchr d t) as [j|]; [|discriminate]. inversion H; subst. specialize (IH j eq_refl). cbn; lia.
Qed.

(* ---------- fill_buf / consume ---------- *)

(* everything the loops need to know about a successful fill_buf *)
Lemma fill_buf_buf : forall r a r', fill_buf r = (FbBuf a, r') ->
  buffered r' = a /\ bytes_of r' = bytes_of r /\ (msr r' <= msr r)%nat /\
  (forall k, In (Fail k) (sched r') -> In (Fail k) (sched r)) /\
  (a = [] -> bytes_of r = []).
Proof.
  intros [bf rs sc] a r' H. unfold fill_buf in H. cbn [buffered rest sched] in H.
  destruct bf as [|x bt].
  - destruct sc as [|[n| |k] s]; inversion H; subst; clear H; unfold bytes_of; cbn [buffered rest sched].
    + rewrite app_nil_r. repeat split; auto. rewrite !msr_mk. cbn [length]. lia.
    + rewrite firstn_skipn. repeat split; auto.
      * rewrite !msr_mk. cbn [length].
        pose proof (firstn_skipn (Pos.to_nat n) rs) as E. apply (f_equal (@length Z)) in E.
        rewrite app_length in E. lia.
      * intros k Hk. right; exact Hk.
      * intros E. cbn [app]. destruct rs as [|y t]; [reflexivity|].
        assert (Hp : exists m, Pos.to_nat n = S m) by (exists (pred (Pos.to_nat n)); lia).
        destruct Hp as [m Hm]. rewrite Hm in E. discriminate.
  - inversion H; subst. repeat split; auto. discriminate.
Qed.

Lemma fill_buf_int : forall r r', fill_buf r = (FbInt, r') ->
  buffered r = [] /\ buffered r' = [] /\ rest r' = rest r /\ sched r = Interrupted :: sched r'.
Proof.
  intros [bf rs sc] r' H. unfold fill_buf in H. cbn [buffered rest sched] in H.
  destruct bf as [|x bt]; [|discriminate].
  destruct sc as [|[n| |k] s]; inversion H; subst. cbn. auto.
Qed.

Lemma fill_buf_err : forall r k r', fill_buf r = (FbErr k, r') ->
  buffered r = [] /\ exists s, sched r = Fail k :: s.
Proof.
  intros [bf rs sc] k r' H. unfold fill_buf in H. cbn [buffered rest sched] in H.
  destruct bf as [|x bt]; [|discriminate].
  destruct sc as [|[n| |k'] s]; inversion H; subst. cbn. eauto.
Qed.

Lemma fill_buf_int_msr : forall r r', fill_buf r = (FbInt, r') ->
  bytes_of r' = bytes_of r /\ (S (msr r') = msr r)%nat.
Proof.
  intros r r' H. destruct (fill_buf_int _ _ H) as (B & B' & R & S).
  unfold bytes_of, msr. rewrite B, B', R, S. cbn [length]. split; [reflexivity|lia].
Qed.

Lemma consume_bytes : forall k r, (k <= length (buffered r))%nat ->
  bytes_of (consume k r) = skipn k (bytes_of r) /\ sched (consume k r) = sched r /\
  (msr (consume k r) + k = msr r)%nat.
Proof.
  intros k [bf rs sc] H. cbn [buffered] in H. unfold consume, bytes_of, msr. cbn [buffered rest sched].
  repeat split.
  - rewrite skipn_app. replace (k - length bf)%nat with O by lia. reflexivity.
  - rewrite skipn_length. lia.
Qed.

(* ---------- list facts (stated while firstn / skipn still compute) ---------- *)

Lemma firstn_split : forall (m n : nat) (l : bytes), (m <= n)%nat ->
  firstn n l = firstn m l ++ firstn (n - m) (skipn m l).
Proof.
  induction m as [|m IH]; intros n l H.
  - rewrite Nat.sub_0_r. reflexivity.
  - destruct n as [|n]; [lia|]. destruct l as [|x t].
    + cbn [firstn skipn app]. rewrite firstn_nil. reflexivity.
    + cbn [firstn skipn app]. f_equal. replace (S n - S m)%nat with (n - m)%nat by lia. apply IH. lia.
Qed.

Lemma skipn_add : forall (m n : nat) (l : bytes), skipn n (skipn m l) = skipn (m + n) l.
Proof.
  induction m as [|m IH]; intros n l; [reflexivity|]. destruct l as [|x t].
  - cbn [skipn Nat.add]. apply skipn_nil.
  - cbn [skipn Nat.add]. apply IH.
Qed.

Lemma skipn_app_le : forall (k : nat) (a b : bytes), (k <= length a)%nat -> skipn k (a ++ b) = skipn k a ++ b.
Proof. intros k a b H. rewrite skipn_app. replace (k - length a)%nat with O by lia. reflexivity. Qed.

Lemma last_opt_app_cons : forall (a : bytes) y t, last_opt (a ++ y :: t) = last_opt (y :: t).
Proof.
  induction a as [|x a IH]; intros y t; [reflexivity|]. cbn [app].
  destruct (a ++ y :: t) as [|z u] eqn:E.
  - apply app_eq_nil in E. destruct E as (_ & E). discriminate.
  - change (last_opt (x :: z :: u)) with (last_opt (z :: u)). rewrite <- E. apply IH.
Qed.

(* the test of Chain::read_until after the cursor part: a delimiter was found *)
Lemma memchr_some_ends : forall d p i buf, memchr d p = Some i ->
  match last_opt (buf ++ firstn (S i) p) with Some b => b =? d | None => false end = true.
Proof.
  induction p as [|a p IH]; intros i buf H; [discriminate|]. cbn [memchr] in H.
  destruct (a =? d) eqn:E.
  - inversion H; subst i. rewrite firstn_cons, firstn_O. rewrite last_opt_app_cons. cbn [last_opt]. exact E.
  - destruct (memchr d p) as [j|] eqn:M; [|discriminate]. inversion H; subst i. rewrite firstn_cons.
    replace (buf ++ a :: firstn (S j) p) with ((buf ++ [a]) ++ firstn (S j) p) by (rewrite <- app_assoc; reflexivity).
    apply IH. reflexivity.
Qed.

(* ... or the cursor ran out without one *)
Lemma memchr_none_ends : forall d p buf, memchr d p = None -> p <> [] ->
  match last_opt (buf ++ p) with Some b => b =? d | None => false end = false.
Proof.
  induction p as [|a p IH]; intros buf H N; [contradiction|]. cbn [memchr] in H.
  destruct (a =? d) eqn:E; [discriminate|].
  destruct (memchr d p) as [j|] eqn:M; [discriminate|].
  destruct p as [|y t].
  - rewrite last_opt_app_cons. cbn [last_opt]. exact E.
  - replace (buf ++ a :: y :: t) with ((buf ++ [a]) ++ y :: t) by (rewrite <- app_assoc; reflexivity).
    apply IH; [reflexivity|discriminate].
Qed.

(* ---------- unfolding equations (one loop iteration) ---------- *)

Lemma read_until_S : forall f d r buf,
  read_until (S f) d r buf =
  match fill_buf r with
  | (FbInt, r') => read_until f d r' buf
  | (FbErr k, _) => IoErr k
  | (FbBuf a, r') =>
      match memchr d a with
      | Some i => IoDone (buf ++ firstn (S i) a, consume (S i) r')
      | None =>
          match a with
          | [] => IoDone (buf, consume (length a) r')
          | _ :: _ => read_until f d (consume (length a) r') (buf ++ a)
          end
      end
  end.
Proof. intros. cbn [read_until]. destruct (fill_buf r) as [[a| |k] r']; reflexivity. Qed.

Lemma read_exact_S : forall f n r acc,
  read_exact (S f) (S n) r acc =
  match fill_buf r with
  | (FbBuf a, r') =>
      match firstn (S n) a with
      | [] => IoErr UnexpectedEof
      | g :: gt => read_exact f (S n - length (g :: gt)) (consume (length (g :: gt)) r') (acc ++ g :: gt)
      end
  | (FbInt, r') => read_exact f (S n) r' acc
  | (FbErr k, _) => IoErr k
  end.
Proof. intros. cbn [read_exact]. unfold read. destruct (fill_buf r) as [[a| |k] r']; try reflexivity.
  cbn [fst snd]. destruct (firstn (S n) a); reflexivity. Qed.

(* the extra-byte loop of read_line on the reader alone (what the loop on the
   Chain comes to once the cursor is used up); auxiliary, proofs only *)
Fixpoint read_extra_r (fuel : nat) (r : reader) (buf : bytes) : io (bytes * reader) :=
  match fuel with
  | O => IoFuel
  | S f =>
      match fill_buf r with
      | (FbBuf (byte :: _), r') => IoDone (buf ++ [byte], consume 1 r')
      | (FbBuf [], r') => IoDone (buf, r')
      | (FbInt, r') => read_extra_r f r' buf
      | (FbErr k, _) => IoErr k
      end
  end.

Lemma read_extra_r_S : forall f r buf,
  read_extra_r (S f) r buf =
  match fill_buf r with
  | (FbBuf (byte :: _), r') => IoDone (buf ++ [byte], consume 1 r')
  | (FbBuf [], r') => IoDone (buf, r')
  | (FbInt, r') => read_extra_r f r' buf
  | (FbErr k, _) => IoErr k
  end.
Proof. reflexivity. Qed.

Lemma read_bom_unfold : forall fuel r head,
  read_bom fuel r head =
  if (length head <? min_bom_len)%nat then
    match fuel with
    | O => IoFuel
    | S f =>
        match fill_buf r with
        | (FbInt, r') => read_bom f r' head
        | (FbErr k, _) => IoErr k
        | (FbBuf a, r') =>
            match a with
            | [] => bom_finish head r'
            | _ :: _ =>
                read_bom f (consume (Nat.min (length a) (min_bom_len - length head)) r')
                         (head ++ firstn (Nat.min (length a) (min_bom_len - length head)) a)
            end
        end
    end
  else bom_finish head r.
Proof. destruct fuel; reflexivity. Qed.

Lemma bom_finish_eq : forall head r,
  bom_finish head r = IoDone (fst (from_bom head), skipn (snd (from_bom head)) head, r).
Proof. intros. unfold bom_finish. destruct (from_bom head); reflexivity. Qed.

(* ---------- the Chain: closed forms over the reader-level loops ---------- *)

(* what a reader-level result looks like once the Chain has switched to its
   second part *)
Definition lift (p : bytes) (x : io (bytes * reader)) : io (bytes * chain) :=
  io_bind x (fun '(b, r') => IoDone (b, mkChain p true r')).

Lemma lift_done : forall p x b c, lift p x = IoDone (b, c) ->
  exists r', x = IoDone (b, r') /\ c = mkChain p true r'.
Proof. intros p [[b0 r0]|k|w|] b c H; cbn in H; try discriminate. inversion H; subst. eauto. Qed.

Lemma lift_err : forall p x k, lift p x = IoErr k -> x = IoErr k.
Proof. intros p [[b0 r0]|k0|w|] k H; cbn in H; try discriminate. inversion H; reflexivity. Qed.

(* Chain::read_until: the cursor part up to the delimiter, or -- when the
   cursor holds none -- all of it and then the reader's read_until *)
Lemma chain_read_until_eq : forall fuel d c buf,
  chain_read_until fuel d c buf =
  if done_first c then lift (pending c) (read_until fuel d (second c) buf)
  else match memchr d (pending c) with
       | Some i => IoDone (buf ++ firstn (S i) (pending c), mkChain (skipn (S i) (pending c)) false (second c))
       | None => lift [] (read_until fuel d (second c) (buf ++ pending c))
       end.
Proof.
  intros fuel d [p dn r] buf. unfold chain_read_until, cursor_read_until, lift. cbn [pending done_first second].
  destruct dn; [reflexivity|].
  destruct (memchr d p) as [i|] eqn:M.
  - rewrite (memchr_some_ends _ _ _ buf M). pose proof (memchr_some_lt _ _ _ M) as L.
    rewrite firstn_length. replace (Nat.min (S i) (length p)) with (S i) by lia. reflexivity.
  - destruct p as [|x t].
    + rewrite app_nil_r. cbn [length Nat.eqb negb]. rewrite Bool.andb_false_r. reflexivity.
    + rewrite (memchr_none_ends d (x :: t) buf M) by discriminate. reflexivity.
Qed.

Lemma read_extra_done : forall fuel p r buf,
  read_extra fuel (mkChain p true r) buf = lift p (read_extra_r fuel r buf).
Proof.
  induction fuel as [|f IH]; intros p r buf; [reflexivity|].
  cbn [read_extra read_extra_r]. unfold chain_fill_buf. cbn [done_first second pending].
  destruct (fill_buf r) as [[a| |k] r1]; unfold lift; cbn [io_bind].
  - destruct a; reflexivity.
  - apply IH.
  - reflexivity.
Qed.

(* the extra-byte loop on the Chain: the next byte of the cursor if it has
   one, else the loop on the reader *)
Lemma read_extra_eq : forall fuel c buf,
  read_extra (S fuel) c buf =
  if done_first c then lift (pending c) (read_extra_r (S fuel) (second c) buf)
  else match pending c with
       | x :: t => IoDone (buf ++ [x], mkChain t false (second c))
       | [] => lift [] (read_extra_r (S fuel) (second c) buf)
       end.
Proof.
  intros fuel [p dn r] buf. cbn [pending done_first second]. destruct dn; [apply read_extra_done|].
  destruct p as [|x t]; [|reflexivity].
  cbn [read_extra read_extra_r]. unfold chain_fill_buf. cbn [done_first second pending].
  destruct (fill_buf r) as [[a| |k] r1]; unfold lift; cbn [io_bind].
  - destruct a; reflexivity.
  - apply read_extra_done.
  - reflexivity.
Qed.

Global Opaque firstn skipn.

(* all the bytes still to be read through the Chain, and its measure *)
Definition cbytes (c : chain) : bytes :=
  if done_first c then bytes_of (second c) else pending c ++ bytes_of (second c).
Definition cmsr (c : chain) : nat :=
  ((if done_first c then 0 else length (pending c)) + msr (second c))%nat.

Lemma msr_le_cmsr : forall c, (msr (second c) <= cmsr c)%nat.
Proof. intros c. unfold cmsr. lia. Qed.

(* ---------- the measure never grows; a line costs at least one unit ---------- *)

Lemma read_until_msr : forall fuel d r buf buf' r',
  read_until fuel d r buf = IoDone (buf', r') ->
  (msr r' + length buf' <= msr r + length buf)%nat /\ (length buf <= length buf')%nat.
Proof.
  induction fuel as [|f IH]; intros d r buf buf' r' H; [discriminate|].
  rewrite read_until_S in H. destruct (fill_buf r) as [[a| |k] r1] eqn:Hfb.
  - destruct (fill_buf_buf _ _ _ Hfb) as (Ba & _ & M & _ & _).
    destruct (memchr d a) as [i|] eqn:Hm.
    + inversion H; subst buf' r'; clear H. pose proof (memchr_some_lt _ _ _ Hm) as Hi.
      destruct (consume_bytes (S i) r1) as (_ & _ & C); [rewrite Ba; lia|].
      rewrite app_length, firstn_length. lia.
    + destruct (consume_bytes (length a) r1) as (_ & _ & C); [rewrite Ba; lia|].
      destruct a as [|x t].
      * inversion H; subst buf' r'; clear H. cbn [length] in C. lia.
      * apply IH in H. rewrite app_length in H. lia.
  - apply IH in H. destruct (fill_buf_int_msr _ _ Hfb). lia.
  - discriminate.
Qed.

Lemma read_exact_msr : forall fuel n r acc acc' r',
  read_exact fuel n r acc = IoDone (acc', r') ->
  (msr r' + length acc' <= msr r + length acc)%nat /\ (length acc' = length acc + n)%nat.
Proof.
  induction fuel as [|f IH]; intros n r acc acc' r' H.
  - destruct n; [inversion H; subst; lia | discriminate].
  - destruct n as [|n0]; [inversion H; subst; lia|].
    rewrite read_exact_S in H.
    destruct (fill_buf r) as [[a| |k] r1] eqn:Hfb.
    + destruct (fill_buf_buf _ _ _ Hfb) as (Ba & _ & M & _ & _).
      destruct (firstn (S n0) a) as [|g gt] eqn:Hg; [discriminate|].
      apply IH in H.
      assert (Hl : (length (g :: gt) <= length a)%nat /\ (length (g :: gt) <= S n0)%nat).
      { rewrite <- Hg, firstn_length. lia. }
      destruct (consume_bytes (length (g :: gt)) r1) as (_ & _ & C); [rewrite Ba; lia|].
      rewrite app_length in H. lia.
    + apply IH in H. destruct (fill_buf_int_msr _ _ Hfb). lia.
    + discriminate.
Qed.

Lemma read_extra_r_msr : forall fuel r buf buf' r',
  read_extra_r fuel r buf = IoDone (buf', r') ->
  (msr r' + length buf' <= msr r + length buf)%nat /\ (length buf <= length buf')%nat.
Proof.
  induction fuel as [|f IH]; intros r buf buf' r' H; [discriminate|].
  rewrite read_extra_r_S in H. destruct (fill_buf r) as [[a| |k] r1] eqn:Hfb.
  - destruct (fill_buf_buf _ _ _ Hfb) as (Ba & _ & M & _ & _).
    destruct a as [|x t].
    + inversion H; subst buf' r'; clear H. lia.
    + inversion H; subst buf' r'; clear H.
      destruct (consume_bytes 1 r1) as (_ & _ & C); [rewrite Ba; cbn [length]; lia|].
      rewrite app_length. cbn [length]. lia.
  - apply IH in H. destruct (fill_buf_int_msr _ _ Hfb). lia.
  - discriminate.
Qed.

Lemma chain_read_until_msr : forall fuel d c buf buf' c',
  chain_read_until fuel d c buf = IoDone (buf', c') ->
  (cmsr c' + length buf' <= cmsr c + length buf)%nat /\ (length buf <= length buf')%nat.
Proof.
  intros fuel d [p dn r] buf buf' c' H. rewrite chain_read_until_eq in H. cbn [done_first pending second] in H.
  unfold cmsr. cbn [done_first pending second]. destruct dn.
  - apply lift_done in H. destruct H as (r' & H & ->). apply read_until_msr in H. cbn [done_first second pending]. lia.
  - destruct (memchr d p) as [i|] eqn:M.
    + inversion H; subst buf' c'; clear H. pose proof (memchr_some_lt _ _ _ M). cbn [done_first second pending].
      rewrite app_length, firstn_length, skipn_length. lia.
    + apply lift_done in H. destruct H as (r' & H & ->). apply read_until_msr in H. cbn [done_first second pending].
      rewrite app_length in H. lia.
Qed.

Lemma read_extra_msr : forall fuel c buf buf' c',
  read_extra fuel c buf = IoDone (buf', c') ->
  (cmsr c' + length buf' <= cmsr c + length buf)%nat /\ (length buf <= length buf')%nat.
Proof.
  intros [|f] [p dn r] buf buf' c' H; [discriminate|]. rewrite read_extra_eq in H.
  cbn [done_first pending second] in H. unfold cmsr. cbn [done_first pending second]. destruct dn.
  - apply lift_done in H. destruct H as (r' & H & ->). apply read_extra_r_msr in H. cbn [done_first second pending]. lia.
  - destruct p as [|x t].
    + apply lift_done in H. destruct H as (r' & H & ->). apply read_extra_r_msr in H. cbn [done_first second pending length]. lia.
    + inversion H; subst buf' c'; clear H. cbn [done_first second pending]. rewrite app_length. cbn [length]. lia.
Qed.

Lemma from_bom_le3 : forall a, (snd (from_bom a) <= 3)%nat /\ (snd (from_bom a) <= length a)%nat.
Proof.
  intros a. unfold from_bom, bom_table. cbn [from_bom_tab].
  destruct a as [|x [|y [|z t]]]; cbn [is_prefix length].
  - cbn. lia.
  - destruct (239 =? x), (255 =? x), (254 =? x); cbn; lia.
  - destruct (239 =? x), (187 =? y), (255 =? x), (254 =? y), (254 =? x), (255 =? y); cbn; lia.
  - destruct (239 =? x), (187 =? y), (191 =? z), (255 =? x), (254 =? y), (254 =? x), (255 =? y); cbn; lia.
Qed.

Lemma min_bom_len_3 : min_bom_len = 3%nat.
Proof. reflexivity. Qed.

(* read_bom moves bytes from the reader into the head, never more *)
Lemma read_bom_msr : forall fuel r head e h r',
  read_bom fuel r head = IoDone (e, h, r') -> (msr r' + length h <= msr r + length head)%nat.
Proof.
  induction fuel as [|f IH]; intros r head e h r' H; rewrite read_bom_unfold in H;
    destruct (length head <? min_bom_len)%nat eqn:E;
    try (rewrite bom_finish_eq in H; inversion H; subst; rewrite skipn_length; lia);
    [discriminate|].
  destruct (fill_buf r) as [[a| |k] r1] eqn:Hfb.
  - destruct (fill_buf_buf _ _ _ Hfb) as (Ba & _ & M & _ & _).
    destruct a as [|x t].
    + rewrite bom_finish_eq in H. inversion H; subst. rewrite skipn_length. lia.
    + apply IH in H. rewrite app_length, firstn_length in H.
      destruct (consume_bytes (Nat.min (length (x :: t)) (min_bom_len - length head)) r1) as (_ & _ & C); [rewrite Ba; lia|].
      lia.
  - apply IH in H. destruct (fill_buf_int_msr _ _ Hfb). lia.
  - discriminate.
Qed.

Lemma bytes_of_consume : forall k r, bytes_of (consume k r) = skipn k (buffered r) ++ rest r.
Proof. reflexivity. Qed.

Lemma sched_consume : forall k r, sched (consume k r) = sched r.
Proof. reflexivity. Qed.

Lemma faultless_sub : forall s s' : list ev,
  (forall k, In (Fail k) s' -> In (Fail k) s) -> faultless s -> faultless s'.
Proof. intros s s' H F k Hin. exact (F k (H k Hin)). Qed.

Lemma read_exact_0 : forall f r acc, read_exact f 0 r acc = IoDone (acc, r).
Proof. destruct f; reflexivity. Qed.

(* ---------- decoding never fails: Encoding.decode as a total function ---------- *)

Definition dec (e : encoding) (v : bytes) : str :=
  match e with
  | Utf8 => lossy_spec v
  | Utf16LE => decode_utf16 (u16_le v)
  | Utf16BE => decode_utf16 (u16_be v)
  end.

Section WithDecode.
(* discharged in Properties/ with EncodingFacts.decode_utf8_lossy_spec (T10b) *)
Hypothesis decode_utf8_total : forall v, decode_utf8 v = Done (lossy_spec v).

Lemma decode_dec : forall e v, decode e v = Done (dec e v).
Proof. intros [] v; cbn [decode dec]; auto. Qed.

Lemma curr_line_dec : forall r b e, curr_line (mkDecoder r b e) = IoDone (trim_end (dec e b)).
Proof. intros. unfold curr_line. cbn [enc read_buf]. rewrite decode_dec. reflexivity. Qed.

(* ---------- T08: on faultless schedules the primitives see only the bytes ---------- *)

Lemma read_until_faultless : forall fuel d r buf,
  faultless (sched r) -> (msr r < fuel)%nat ->
  exists r', read_until fuel d r buf = IoDone (buf ++ fst (split_line d (bytes_of r)), r') /\
             bytes_of r' = snd (split_line d (bytes_of r)) /\ faultless (sched r').
Proof.
  induction fuel as [|f IH]; intros d r buf F M; [lia|].
  rewrite read_until_S. destruct (fill_buf r) as [[a| |k] r1] eqn:Hfb.
  - destruct (fill_buf_buf _ _ _ Hfb) as (Ba & Bo & M1 & F1 & E).
    assert (Hb : bytes_of r = a ++ rest r1) by (rewrite <- Bo; unfold bytes_of; rewrite Ba; reflexivity).
    pose proof (faultless_sub _ _ F1 F) as Fr1.
    destruct (memchr d a) as [i|] eqn:Hm.
    + eexists; split; [|split].
      * rewrite Hb, (memchr_some_split _ _ _ _ Hm). reflexivity.
      * rewrite bytes_of_consume, Ba, Hb, (memchr_some_split _ _ _ _ Hm). reflexivity.
      * exact Fr1.
    + destruct a as [|x t].
      * specialize (E eq_refl). rewrite E. cbn [split_line fst snd]. rewrite app_nil_r.
        eexists; split; [reflexivity|]. split; [|exact Fr1].
        rewrite bytes_of_consume, Ba. rewrite E in Hb. cbn [app] in Hb. rewrite <- Hb. reflexivity.
      * destruct (IH d (consume (length (x :: t)) r1) (buf ++ x :: t)) as (r' & Hr & Hb' & Fr').
        { exact Fr1. }
        { destruct (consume_bytes (length (x :: t)) r1) as (_ & _ & C); [rewrite Ba; lia|]. cbn [length] in *. lia. }
        assert (Hc : bytes_of (consume (length (x :: t)) r1) = rest r1).
        { rewrite bytes_of_consume, Ba, skipn_all. reflexivity. }
        rewrite Hc in Hr, Hb'.
        exists r'. rewrite Hb, (memchr_none_split _ _ _ Hm). cbn [fst snd].
        split; [|split; assumption]. rewrite Hr, <- app_assoc. reflexivity.
  - destruct (fill_buf_int _ _ Hfb) as (B & B' & R & S).
    destruct (fill_buf_int_msr _ _ Hfb) as (Bo & M1).
    rewrite S in F. destruct (IH d r1 buf (faultless_cons _ _ F)) as (r' & Hr & Hb' & Fr'); [lia|].
    exists r'. rewrite <- Bo. auto.
  - destruct (fill_buf_err _ _ _ Hfb) as (_ & s & S). rewrite S in F. destruct (faultless_not_fail _ _ F).
Qed.

(* the extra byte of a UTF-16LE line feed: the next byte of the stream if there
   is one; at the end of the stream the line is kept as it is -- no error *)
Lemma read_extra_r_faultless : forall fuel r buf,
  faultless (sched r) -> (msr r < fuel)%nat ->
  exists r', read_extra_r fuel r buf =
               IoDone (match bytes_of r with [] => buf | x :: _ => buf ++ [x] end, r') /\
             bytes_of r' = tl (bytes_of r) /\ faultless (sched r').
Proof.
  induction fuel as [|f IH]; intros r buf F M; [lia|].
  rewrite read_extra_r_S. destruct (fill_buf r) as [[a| |k] r1] eqn:Hfb.
  - destruct (fill_buf_buf _ _ _ Hfb) as (Ba & Bo & M1 & F1 & E).
    assert (Hb : bytes_of r = a ++ rest r1) by (rewrite <- Bo; unfold bytes_of; rewrite Ba; reflexivity).
    destruct a as [|x t].
    + rewrite (E eq_refl). exists r1. split; [reflexivity|]. split; [|exact (faultless_sub _ _ F1 F)].
      rewrite Bo, (E eq_refl). reflexivity.
    + rewrite Hb. cbn [app tl]. eexists; split; [reflexivity|].
      split; [|rewrite sched_consume; exact (faultless_sub _ _ F1 F)].
      rewrite bytes_of_consume, Ba, skipn_cons, skipn_O. reflexivity.
  - destruct (fill_buf_int _ _ Hfb) as (B & B' & R & S).
    destruct (fill_buf_int_msr _ _ Hfb) as (Bo & M1).
    rewrite S in F. destruct (IH r1 buf (faultless_cons _ _ F)) as (r' & H & Hb & Fr); [lia|].
    rewrite Bo in H, Hb. exists r'. auto.
  - destruct (fill_buf_err _ _ _ Hfb) as (_ & s & S). rewrite S in F. destruct (faultless_not_fail _ _ F).
Qed.

Lemma chain_read_until_faultless : forall fuel d c buf,
  faultless (sched (second c)) -> (cmsr c < fuel)%nat ->
  exists c', chain_read_until fuel d c buf = IoDone (buf ++ fst (split_line d (cbytes c)), c') /\
             cbytes c' = snd (split_line d (cbytes c)) /\ faultless (sched (second c')).
Proof.
  intros fuel d [p dn r] buf F M. rewrite chain_read_until_eq. unfold cmsr, cbytes in *.
  cbn [done_first pending second] in *. destruct dn.
  - destruct (read_until_faultless fuel d r buf F) as (r' & H & Hb & Fr); [lia|].
    rewrite H. eexists; split; [reflexivity|]. cbn [done_first second]. auto.
  - destruct (memchr d p) as [i|] eqn:Hm.
    + rewrite (memchr_some_split _ _ _ _ Hm). cbn [fst snd].
      eexists; split; [reflexivity|]. cbn [done_first pending second]. auto.
    + destruct (read_until_faultless fuel d r (buf ++ p) F) as (r' & H & Hb & Fr); [lia|].
      rewrite H, (memchr_none_split _ _ _ Hm). cbn [fst snd lift io_bind].
      eexists; split; [rewrite <- app_assoc; reflexivity|]. cbn [done_first second]. auto.
Qed.

(* the extra byte of a UTF-16LE line feed: the next byte of the stream if there
   is one; at the end of the stream the line is kept as it is -- no error *)
Lemma read_extra_faultless : forall fuel c buf,
  faultless (sched (second c)) -> (cmsr c < fuel)%nat ->
  exists c', read_extra fuel c buf =
               IoDone (match cbytes c with [] => buf | x :: _ => buf ++ [x] end, c') /\
             cbytes c' = tl (cbytes c) /\ faultless (sched (second c')).
Proof.
  intros [|f] [p dn r] buf F M; [lia|]. rewrite read_extra_eq. unfold cmsr, cbytes in *.
  cbn [done_first pending second] in *. destruct dn.
  - destruct (read_extra_r_faultless (S f) r buf F) as (r' & H & Hb & Fr); [lia|].
    rewrite H. eexists; split; [reflexivity|]. cbn [done_first second]. auto.
  - destruct p as [|x t].
    + destruct (read_extra_r_faultless (S f) r buf F) as (r' & H & Hb & Fr); [cbn [length] in M; lia|].
      rewrite H. eexists; split; [reflexivity|]. cbn [done_first second app]. auto.
    + eexists; split; [reflexivity|]. cbn [done_first pending second app tl]. auto.
Qed.

(* from_bom looks at no more than three bytes *)
Lemma from_bom_app : forall a m, (3 <= length a)%nat -> from_bom (a ++ m) = from_bom a.
Proof.
  intros a m H. destruct a as [|x [|y [|z t]]]; cbn [length] in H; try lia.
  unfold from_bom, bom_table. cbn [from_bom_tab app is_prefix]. reflexivity.
Qed.

(* from_bom looks at the first three bytes only *)
Lemma from_bom_firstn3 : forall b : bytes, from_bom (firstn 3 b) = from_bom b.
Proof.
  intros b. destruct (Nat.ltb (length b) 3) eqn:E.
  - apply Nat.ltb_lt in E. rewrite firstn_all2 by lia. reflexivity.
  - apply Nat.ltb_ge in E. rewrite <- (firstn_skipn 3 b) at 2.
    rewrite from_bom_app; [reflexivity|]. rewrite firstn_length. lia.
Qed.

(* read_bom on a faultless schedule: the head is the first three bytes of the
   stream (fewer if the stream is shorter), however they are chunked *)
Lemma read_bom_faultless : forall fuel r head,
  faultless (sched r) -> (msr r < fuel)%nat -> (length head <= 3)%nat ->
  exists r', read_bom fuel r head = bom_finish (head ++ firstn (3 - length head) (bytes_of r)) r' /\
             bytes_of r' = skipn (3 - length head) (bytes_of r) /\ faultless (sched r').
Proof.
  induction fuel as [|f IH]; intros r head F M L; [lia|].
  rewrite read_bom_unfold, min_bom_len_3. destruct (length head <? 3)%nat eqn:E.
  - apply Nat.ltb_lt in E. destruct (fill_buf r) as [[a| |k] r1] eqn:Hfb.
    + destruct (fill_buf_buf _ _ _ Hfb) as (Ba & Bo & M1 & F1 & E0).
      assert (Hb : bytes_of r = a ++ rest r1) by (rewrite <- Bo; unfold bytes_of; rewrite Ba; reflexivity).
      pose proof (faultless_sub _ _ F1 F) as Fr1.
      destruct a as [|x t].
      * rewrite (E0 eq_refl). rewrite firstn_nil, skipn_nil, app_nil_r.
        exists r1. split; [reflexivity|]. split; [|exact Fr1]. rewrite Bo. exact (E0 eq_refl).
      * set (len := Nat.min (length (x :: t)) (3 - length head)).
        assert (L1 : (1 <= len)%nat) by (unfold len; cbn [length]; lia).
        assert (L2 : (len <= length (x :: t))%nat) by (unfold len; lia).
        assert (L3 : (len <= 3 - length head)%nat) by (unfold len; lia).
        destruct (consume_bytes len r1) as (Cb & Cs & Cm); [rewrite Ba; exact L2|].
        destruct (IH (consume len r1) (head ++ firstn len (x :: t))) as (r' & H & Hb' & Fr').
        { rewrite Cs. exact Fr1. }
        { lia. }
        { rewrite app_length, firstn_length. lia. }
        exists r'. rewrite H, Cb, Bo in *. split; [|split; [|exact Fr']].
        -- f_equal. rewrite <- app_assoc. f_equal. rewrite app_length, firstn_length.
           replace (Nat.min len (length (x :: t))) with len by lia.
           rewrite (firstn_split len (3 - length head) (bytes_of r)) by exact L3.
           f_equal; [rewrite Hb, firstn_app; replace (len - length (x :: t))%nat with O by lia;
                     rewrite firstn_O, app_nil_r; reflexivity|].
           f_equal. lia.
        -- rewrite Hb', app_length, firstn_length.
           replace (Nat.min len (length (x :: t))) with len by lia.
           rewrite skipn_add. f_equal. lia.
    + destruct (fill_buf_int _ _ Hfb) as (_ & _ & _ & S).
      destruct (fill_buf_int_msr _ _ Hfb) as (Bo & M1).
      rewrite S in F. destruct (IH r1 head (faultless_cons _ _ F)) as (r' & H & Hb' & Fr'); [lia|exact L|].
      exists r'. rewrite <- Bo. auto.
    + destruct (fill_buf_err _ _ _ Hfb) as (_ & s & S). rewrite S in F. destruct (faultless_not_fail _ _ F).
  - apply Nat.ltb_ge in E. replace (3 - length head)%nat with O by lia.
    rewrite firstn_O, skipn_O, app_nil_r. exists r. auto.
Qed.

Lemma bytes_of_le_msr : forall r, (length (bytes_of r) <= msr r)%nat.
Proof. intros r. unfold bytes_of, msr. rewrite app_length. lia. Qed.

(* ---------- the loop of read_line: measure ---------- *)

Lemma line_step_msr : forall fuel e c buf k buf' c',
  line_step fuel e c buf = IoDone (k, buf', c') ->
  (cmsr c' + length buf' <= cmsr c + length buf)%nat /\ (length buf <= length buf')%nat.
Proof.
  intros fuel e c buf k buf' c' H. unfold line_step in H. destruct e.
  - inversion H; subst. lia.
  - destruct (Nat.even (length buf)).
    + destruct (nth_error buf (length buf - 2)); [inversion H; subst; lia|discriminate].
    + inversion H; subst. lia.
  - destruct (Nat.even (length buf)); [inversion H; subst; lia|].
    destruct (read_extra fuel c buf) as [[b c2]| | |] eqn:He; cbn [io_bind] in H; try discriminate.
    inversion H; subst. exact (read_extra_msr _ _ _ _ _ He).
Qed.

Lemma read_line_loop_msr : forall n fuel e c buf buf' c',
  read_line_loop n fuel e c buf = IoDone (buf', c') ->
  (cmsr c' + length buf' <= cmsr c + length buf)%nat /\ (length buf <= length buf')%nat.
Proof.
  induction n as [|n IH]; intros fuel e c buf buf' c' H; [discriminate|]. cbn [read_line_loop] in H.
  destruct (chain_read_until fuel LF c buf) as [[buf1 c1]| | |] eqn:Hr; cbn [io_bind] in H; try discriminate.
  apply chain_read_until_msr in Hr.
  destruct ((length buf <? length buf1)%nat && ends_with_lf buf1).
  - destruct (line_step fuel e c1 buf1) as [[[k buf2] c2]| | |] eqn:Hs; cbn [io_bind] in H; try discriminate.
    apply line_step_msr in Hs. destruct k.
    + inversion H; subst. lia.
    + apply IH in H. lia.
  - inversion H; subst. lia.
Qed.

Lemma read_line_msr : forall fuel d l d',
  read_line fuel d = IoDone (Some l, d') -> (cmsr (inner d') < cmsr (inner d))%nat.
Proof.
  intros fuel d l d' H. unfold read_line in H.
  destruct (read_line_loop fuel fuel (enc d) (inner d) []) as [[buf c]| | |] eqn:Hr; try discriminate.
  apply read_line_loop_msr in Hr. cbn [io_bind length] in *.
  destruct buf as [|x t]; [discriminate|]. cbn [length] in Hr.
  rewrite curr_line_dec in H. cbn [io_bind] in H. inversion H; subst. cbn [inner]. lia.
Qed.

(* ---------- the reference cut of a UTF-16 stream ---------- *)

Definition nolf (l : list Z) : Prop := Forall (fun c => c <> LF) l.

Lemma split_line_decomp : forall l : list Z,
  (nolf l /\ split_line LF l = (l, [])) \/
  (exists p q, l = p ++ LF :: q /\ nolf p /\ split_line LF l = (p ++ [LF], q)).
Proof.
  induction l as [|x t IH].
  - left. split; [constructor|reflexivity].
  - cbn [split_line]. destruct (Z.eqb_spec x LF) as [E|E].
    + right. exists [], t. subst x. repeat split. constructor.
    + destruct IH as [(N & H)|(p & q & Ht & N & H)].
      * left. rewrite H. split; [constructor; assumption|reflexivity].
      * right. exists (x :: p), q. rewrite H, Ht. repeat split. constructor; assumption.
Qed.

Lemma ends_with_lf_snoc : forall a x, ends_with_lf (a ++ [x]) = (x =? LF).
Proof. intros. unfold ends_with_lf. rewrite last_opt_app_cons. reflexivity. Qed.

Lemma ends_with_lf_nolf : forall a r, nolf r -> r <> [] -> ends_with_lf (a ++ r) = false.
Proof.
  intros a r N Hr. destruct (@exists_last _ r Hr) as (r0 & x & ->).
  rewrite app_assoc, ends_with_lf_snoc. apply Forall_app in N. destruct N as (_ & N).
  inversion N; subst. apply Z.eqb_neq. assumption.
Qed.

(* the scanning state: None at a unit boundary, Some x inside a unit *)
Definition st_step (st : option Z) (y : Z) : option Z :=
  match st with None => Some y | Some _ => None end.
Fixpoint st_after (st : option Z) (q : bytes) : option Z :=
  match q with [] => st | y :: t => st_after (st_step st y) t end.
Definition st_of (buf : bytes) : option Z := st_after None buf.

Lemma st_after_app : forall a b st, st_after st (a ++ b) = st_after (st_after st a) b.
Proof. induction a as [|y a IH]; intros b st; [reflexivity|]. cbn [app st_after]. apply IH. Qed.

Lemma st_of_app : forall a b, st_of (a ++ b) = st_after (st_of a) b.
Proof. intros. apply st_after_app. Qed.

Lemma st_of_spec : forall b : bytes,
  (Nat.even (length b) = true /\ st_of b = None) \/
  (Nat.even (length b) = false /\ exists x, st_of b = Some x /\ nth_error b (length b - 1) = Some x).
Proof.
  induction b as [|y b IH] using rev_ind; [left; split; reflexivity|].
  rewrite app_length, st_of_app. cbn [length]. rewrite Nat.add_1_r, Nat.even_succ, <- Nat.negb_even.
  destruct IH as [(E & Hs)|(E & x & Hs & N)]; rewrite E, Hs; cbn [negb st_after st_step].
  - right. split; [reflexivity|]. exists y. split; [reflexivity|].
    replace (S (length b) - 1)%nat with (length b) by lia. rewrite nth_error_app2 by lia.
    rewrite Nat.sub_diag. reflexivity.
  - left. split; reflexivity.
Qed.

Lemma scan16_length : forall le b st,
  (length (fst (scan16 le st b)) + length (snd (scan16 le st b)) = length b)%nat.
Proof.
  induction b as [|y t IH]; intros st; cbn [scan16]; [reflexivity|]. destruct st as [x|].
  - destruct (is_lf_unit le x y); cbn [fst snd length]; [lia|].
    specialize (IH None). destruct (scan16 le None t); cbn [fst snd length] in *; lia.
  - specialize (IH (Some y)). destruct (scan16 le (Some y) t); cbn [fst snd length] in *; lia.
Qed.

Lemma scan16_nil_iff : forall le st b, fst (scan16 le st b) = [] <-> b = [].
Proof.
  intros le st b; split; intros H; [|subst; reflexivity].
  destruct b as [|y t]; [reflexivity|]. cbn [scan16] in H. destruct st as [x|].
  - destruct (is_lf_unit le x y); [discriminate|]. destruct (scan16 le None t); discriminate.
  - destruct (scan16 le (Some y) t); discriminate.
Qed.

(* a stretch without any byte 0x0A cannot end a line: BE needs the byte itself,
   LE needs it as the first byte of the unit *)
Lemma scan16_app_be : forall q st m, nolf q ->
  scan16 false st (q ++ m) =
  (q ++ fst (scan16 false (st_after st q) m), snd (scan16 false (st_after st q) m)).
Proof.
  induction q as [|y t IH]; intros st m N; cbn [app st_after].
  - destruct (scan16 false st m); reflexivity.
  - inversion N as [|y' t' Ny Nt]; subst. cbn [scan16]. destruct st as [x|]; cbn [st_step].
    + unfold is_lf_unit. replace (y =? LF) with false by (symmetry; apply Z.eqb_neq; exact Ny).
      rewrite Bool.andb_false_r. rewrite (IH None m Nt). reflexivity.
    + rewrite (IH (Some y) m Nt). reflexivity.
Qed.

Lemma scan16_app_le : forall q st m, nolf q -> st <> Some LF ->
  scan16 true st (q ++ m) =
  (q ++ fst (scan16 true (st_after st q) m), snd (scan16 true (st_after st q) m)).
Proof.
  induction q as [|y t IH]; intros st m N Hst; cbn [app st_after].
  - destruct (scan16 true st m); reflexivity.
  - inversion N as [|y' t' Ny Nt]; subst. cbn [scan16]. destruct st as [x|]; cbn [st_step].
    + unfold is_lf_unit. replace (x =? LF) with false by (symmetry; apply Z.eqb_neq; congruence).
      cbn [andb]. rewrite (IH None m Nt) by discriminate. reflexivity.
    + rewrite (IH (Some y) m Nt) by congruence. reflexivity.
Qed.

(* ... so the first byte 0x0A of the rest decides, by its position in its unit
   and by the other byte of that unit *)
Lemma scan_be_cut : forall buf q r, nolf q ->
  scan16 false (st_of buf) (q ++ LF :: r) =
  match st_of (buf ++ q) with
  | None => (q ++ LF :: fst (scan16 false (Some LF) r), snd (scan16 false (Some LF) r))
  | Some x => if x =? 0 then (q ++ [LF], r)
              else (q ++ LF :: fst (scan16 false None r), snd (scan16 false None r))
  end.
Proof.
  intros buf q r N. rewrite (scan16_app_be q _ _ N), <- st_of_app.
  destruct (st_of (buf ++ q)) as [x|]; cbn [scan16 fst snd].
  - unfold is_lf_unit. rewrite Z.eqb_refl, Bool.andb_true_r.
    destruct (x =? 0); [reflexivity|]. destruct (scan16 false None r); reflexivity.
  - destruct (scan16 false (Some LF) r); reflexivity.
Qed.

Lemma scan_le_cut : forall buf q r, nolf q -> st_of buf = None ->
  scan16 true (st_of buf) (q ++ LF :: r) =
  match st_of (buf ++ q) with
  | Some _ => (q ++ LF :: fst (scan16 true None r), snd (scan16 true None r))
  | None =>
      match r with
      | [] => (q ++ [LF], [])
      | h :: r2 => if h =? 0 then (q ++ [LF; h], r2)
                   else (q ++ LF :: h :: fst (scan16 true None r2), snd (scan16 true None r2))
      end
  end.
Proof.
  intros buf q r N Hb. rewrite (scan16_app_le q _ _ N) by (rewrite Hb; discriminate). rewrite <- st_of_app.
  destruct (st_of (buf ++ q)) as [x|]; cbn [scan16 fst snd].
  - unfold is_lf_unit. change (LF =? 0) with false. rewrite Bool.andb_false_r.
    destruct (scan16 true None r); reflexivity.
  - destruct r as [|h r2]; cbn [scan16]; [reflexivity|].
    unfold is_lf_unit. rewrite Z.eqb_refl. cbn [andb].
    destruct (h =? 0); [reflexivity|]. destruct (scan16 true None r2); reflexivity.
Qed.

Lemma raw_split_length : forall e b,
  (length (fst (raw_split e b)) + length (snd (raw_split e b)) = length b)%nat.
Proof. intros [] b; cbn [raw_split]; [apply split_line_length|apply scan16_length|apply scan16_length]. Qed.

Lemma next_raw_length : forall e b l rem,
  next_raw e b = Some (l, rem) -> (length rem < length b)%nat.
Proof.
  intros e b l rem H. unfold next_raw in H. pose proof (raw_split_length e b) as L.
  destruct (raw_split e b) as [l0 r0]. cbn [fst snd] in L.
  destruct l0 as [|x t]; [discriminate|]. inversion H; subst. cbn [length] in L. lia.
Qed.

(* ---------- the loop of read_line on a faultless schedule ---------- *)

(* how the cut goes on behind what read_buf already holds *)
Definition cont (e : encoding) (buf rest : bytes) : bytes * bytes :=
  match e with
  | Utf8 => split_line LF rest
  | Utf16LE => scan16 true (st_of buf) rest
  | Utf16BE => scan16 false (st_of buf) rest
  end.
(* UTF-16LE re-enters the loop at unit boundaries only *)
Definition loop_inv (e : encoding) (buf : bytes) : Prop :=
  match e with Utf16LE => st_of buf = None | _ => True end.

Lemma cont_nolf : forall e buf r, nolf r -> loop_inv e buf -> cont e buf r = (r, []).
Proof.
  intros e buf r N I. destruct e; cbn [cont loop_inv] in *.
  - destruct (split_line_decomp r) as [(_ & H)|(p & q & Hr & _ & _)]; [exact H|].
    subst r. apply Forall_app in N. destruct N as (_ & N). inversion N; subst. contradiction.
  - rewrite <- (app_nil_r r) at 1. rewrite (scan16_app_be r _ _ N). cbn [scan16 fst snd].
    rewrite app_nil_r. reflexivity.
  - rewrite <- (app_nil_r r) at 1. rewrite (scan16_app_le r _ _ N) by (rewrite I; discriminate).
    cbn [scan16 fst snd]. rewrite app_nil_r. reflexivity.
Qed.

Lemma cond_nolf : forall buf r, nolf r ->
  (length buf <? length (buf ++ r))%nat && ends_with_lf (buf ++ r) = false.
Proof.
  intros buf r N. destruct r as [|y t].
  - rewrite app_nil_r, Nat.ltb_irrefl. reflexivity.
  - rewrite (ends_with_lf_nolf buf (y :: t) N) by discriminate. apply Bool.andb_false_r.
Qed.

Lemma cond_lf : forall buf q,
  (length buf <? length (buf ++ q ++ [LF]))%nat && ends_with_lf (buf ++ q ++ [LF]) = true.
Proof.
  intros buf q. rewrite (app_assoc buf q [LF]), ends_with_lf_snoc, Z.eqb_refl, Bool.andb_true_r.
  apply Nat.ltb_lt. rewrite !app_length. cbn [length]. lia.
Qed.

Lemma pushed_none : forall buf : bytes, pushed buf buf = None.
Proof. intros. unfold pushed. apply nth_error_None. lia. Qed.
Lemma pushed_some : forall (buf : bytes) h, pushed buf (buf ++ [h]) = Some h.
Proof. intros. unfold pushed. rewrite nth_error_app2 by lia. rewrite Nat.sub_diag. reflexivity. Qed.

Lemma read_line_loop_faultless : forall n fuel e c buf,
  faultless (sched (second c)) -> (cmsr c < fuel)%nat -> (length (cbytes c) < n)%nat -> loop_inv e buf ->
  exists c', read_line_loop n fuel e c buf = IoDone (buf ++ fst (cont e buf (cbytes c)), c') /\
             cbytes c' = snd (cont e buf (cbytes c)) /\ faultless (sched (second c')).
Proof.
  induction n as [|n IH]; intros fuel e c buf F M Ln I; [lia|]. cbn [read_line_loop].
  destruct (chain_read_until_faultless fuel LF c buf F M) as (c1 & Hr & Hb & Fr).
  pose proof (chain_read_until_msr _ _ _ _ _ _ Hr) as (M1 & _). rewrite Hr. cbn [io_bind].
  destruct (split_line_decomp (cbytes c)) as [(N & Hs)|(q & r & Hc & N & Hs)]; rewrite Hs in *; cbn [fst snd] in *.
  - (* the rest holds no byte 0x0A: the stream ends with this line *)
    rewrite (cond_nolf buf _ N), (cont_nolf e buf _ N I). cbn [fst snd]. exists c1. auto.
  - rewrite cond_lf. rewrite Hc in Ln |- *. rewrite app_length in Ln. cbn [length] in Ln.
    assert (E1 : buf ++ q ++ [LF] = (buf ++ q) ++ [LF]) by apply app_assoc.
    assert (L1 : length ((buf ++ q) ++ [LF]) = S (length (buf ++ q))) by (rewrite app_length; cbn [length]; lia).
    rewrite app_length in M1.
    unfold line_step. destruct e; cbn [cont loop_inv] in *.
    + (* UTF-8 *)
      cbn [io_bind]. exists c1. rewrite <- Hc, Hs. cbn [fst snd]. auto.
    + (* UTF-16BE *)
      rewrite (scan_be_cut buf q r N). rewrite E1, L1, Nat.even_succ, <- Nat.negb_even.
      destruct (st_of_spec (buf ++ q)) as [(Ev & Sb)|(Ev & x & Sb & Nx)]; rewrite Ev, Sb; cbn [negb io_bind].
      * destruct (IH fuel Utf16BE c1 ((buf ++ q) ++ [LF]) Fr) as (c' & H & Hb' & F'); [lia|rewrite Hb; lia|exact Logic.I|].
        cbn [cont] in H, Hb'. rewrite st_of_app, Sb in H, Hb'. cbn [st_after st_step] in H, Hb'. rewrite Hb in H, Hb'.
        exists c'. rewrite H. cbn [fst snd]. rewrite <- !app_assoc. auto.
      * replace (S (length (buf ++ q)) - 2)%nat with (length (buf ++ q) - 1)%nat by lia.
        assert (Lp : (length (buf ++ q) - 1 < length (buf ++ q))%nat).
        { destruct (buf ++ q); [discriminate Ev|cbn [length]; lia]. }
        rewrite nth_error_app1 by exact Lp. rewrite Nx. destruct (x =? 0); cbn [io_bind].
        -- exists c1. cbn [fst snd]. rewrite <- !app_assoc. auto.
        -- destruct (IH fuel Utf16BE c1 ((buf ++ q) ++ [LF]) Fr) as (c' & H & Hb' & F'); [lia|rewrite Hb; lia|exact Logic.I|].
           cbn [cont] in H, Hb'. rewrite st_of_app, Sb in H, Hb'. cbn [st_after st_step] in H, Hb'. rewrite Hb in H, Hb'.
           exists c'. rewrite H. cbn [fst snd]. rewrite <- !app_assoc. auto.
    + (* UTF-16LE *)
      rewrite (scan_le_cut buf q r N I). rewrite E1, L1, Nat.even_succ, <- Nat.negb_even.
      destruct (st_of_spec (buf ++ q)) as [(Ev & Sb)|(Ev & x & Sb & Nx)]; rewrite Ev, Sb; cbn [negb io_bind].
      * destruct (read_extra_faultless fuel c1 ((buf ++ q) ++ [LF]) Fr) as (c2 & He & Hb2 & F2); [lia|].
        pose proof (read_extra_msr _ _ _ _ _ He) as (M2 & _).
        rewrite He. cbn [io_bind]. rewrite Hb in *. destruct r as [|h r2]; cbn [tl] in *.
        -- rewrite pushed_none. cbn [io_bind]. exists c2. cbn [fst snd]. rewrite <- !app_assoc. auto.
        -- rewrite pushed_some. rewrite !app_length in M2. cbn [length] in *. destruct h as [|p|p]; cbn [Z.eqb io_bind].
           ++ exists c2. cbn [fst snd]. rewrite <- !app_assoc. auto.
           ++ destruct (IH fuel Utf16LE c2 (((buf ++ q) ++ [LF]) ++ [Zpos p]) F2) as (c' & H & Hb' & F'); [lia|rewrite Hb2; lia| |].
              { cbn [loop_inv]. rewrite st_of_app, st_of_app, Sb. reflexivity. }
              cbn [cont] in H, Hb'. rewrite st_of_app, st_of_app, Sb in H, Hb'. cbn [st_after st_step] in H, Hb'. rewrite Hb2 in H, Hb'.
              exists c'. rewrite H. cbn [fst snd]. rewrite <- !app_assoc. auto.
           ++ destruct (IH fuel Utf16LE c2 (((buf ++ q) ++ [LF]) ++ [Zneg p]) F2) as (c' & H & Hb' & F'); [lia|rewrite Hb2; lia| |].
              { cbn [loop_inv]. rewrite st_of_app, st_of_app, Sb. reflexivity. }
              cbn [cont] in H, Hb'. rewrite st_of_app, st_of_app, Sb in H, Hb'. cbn [st_after st_step] in H, Hb'. rewrite Hb2 in H, Hb'.
              exists c'. rewrite H. cbn [fst snd]. rewrite <- !app_assoc. auto.
      * destruct (IH fuel Utf16LE c1 ((buf ++ q) ++ [LF]) Fr) as (c' & H & Hb' & F'); [lia|rewrite Hb; lia| |].
        { cbn [loop_inv]. rewrite st_of_app, Sb. reflexivity. }
        cbn [cont] in H, Hb'. rewrite st_of_app, Sb in H, Hb'. cbn [st_after st_step] in H, Hb'. rewrite Hb in H, Hb'.
        exists c'. rewrite H. cbn [fst snd]. rewrite <- !app_assoc. auto.
Qed.

Lemma cbytes_le_cmsr : forall c, (length (cbytes c) <= cmsr c)%nat.
Proof.
  intros [p dn r]. unfold cbytes, cmsr. cbn [done_first pending second].
  pose proof (bytes_of_le_msr r). destruct dn; [lia|]. rewrite app_length. lia.
Qed.

Lemma read_line_faultless : forall fuel d,
  faultless (sched (second (inner d))) -> (cmsr (inner d) < fuel)%nat ->
  match next_raw (enc d) (cbytes (inner d)) with
  | None => exists d', read_line fuel d = IoDone (None, d')
  | Some (l, rem) =>
      exists c', read_line fuel d = IoDone (Some (trim_end (dec (enc d) l)), mkDecoder c' l (enc d)) /\
                 cbytes c' = rem /\ faultless (sched (second c'))
  end.
Proof.
  intros fuel d F M. pose proof (cbytes_le_cmsr (inner d)) as Lc.
  destruct (read_line_loop_faultless fuel fuel (enc d) (inner d) [] F M) as (c1 & Hr & Hb & Fr); [lia| |].
  { destruct (enc d); exact Logic.I || reflexivity. }
  assert (Ec : cont (enc d) [] (cbytes (inner d)) = raw_split (enc d) (cbytes (inner d))) by (destruct (enc d); reflexivity).
  rewrite Ec in *. unfold next_raw, read_line. rewrite Hr.
  destruct (raw_split (enc d) (cbytes (inner d))) as [l rem]. cbn [fst snd app io_bind] in *.
  destruct l as [|x t].
  - eexists; reflexivity.
  - rewrite curr_line_dec. cbn [io_bind]. exists c1. auto.
Qed.

Lemma lines_loop_faultless : forall n m fuel d,
  faultless (sched (second (inner d))) -> (cmsr (inner d) < fuel)%nat ->
  (length (cbytes (inner d)) < n)%nat -> (length (cbytes (inner d)) < m)%nat ->
  lines_loop n fuel d = lines_pure m (enc d) (cbytes (inner d)).
Proof.
  induction n as [|n IH]; intros m fuel d F M Ln Lm; [lia|]. destruct m as [|m]; [lia|].
  cbn [lines_loop lines_pure]. pose proof (read_line_faultless fuel d F M) as X.
  destruct (next_raw (enc d) (cbytes (inner d))) as [[l rem]|] eqn:Hn.
  - destruct X as (c' & Hl & Hb & Fr). pose proof (read_line_msr _ _ _ _ Hl) as M1. cbn [inner] in M1.
    pose proof (next_raw_length _ _ _ _ Hn) as L1.
    rewrite Hl. cbn [io_bind]. rewrite decode_dec. cbn [io_of_outcome io_bind].
    rewrite (IH m fuel (mkDecoder c' l (enc d))); cbn [inner enc]; try rewrite Hb; try assumption; try lia.
    reflexivity.
  - destruct X as (d' & Hl). rewrite Hl. reflexivity.
Qed.


(* T08, full strength: for EVERY reader state with a faultless schedule --
   any chunking (first chunks of one or two bytes, single-byte delivery, a BOM
   split over several chunks), any placement of Interrupted -- the lines are
   those the bytes alone determine *)
Theorem read_all_lines_faultless_gen : forall r,
  faultless (sched r) -> read_all_lines r = decode_stream (bytes_of r).
Proof.
  intros r F. unfold read_all_lines, decode_stream, decoder_new.
  set (fuel := S (S (msr r))).
  assert (M : (msr r < fuel)%nat) by (unfold fuel; lia).
  destruct (read_bom_faultless fuel r [] F M) as (r' & Hr & Hb & Fr); [cbn [length]; lia|].
  pose proof Hr as Hm. rewrite bom_finish_eq in Hm. apply read_bom_msr in Hm. cbn [length] in Hm.
  rewrite Hr, bom_finish_eq. cbn [app length io_bind] in *. rewrite Nat.sub_0_r in *.
  rewrite from_bom_firstn3 in *. pose proof (from_bom_le3 (firstn 3 (bytes_of r))) as (_ & Lc).
  rewrite from_bom_firstn3 in Lc.
  destruct (from_bom (bytes_of r)) as [e c]. cbn [fst snd] in *.
  pose proof (bytes_of_le_msr r) as Lb.
  assert (Hc : cbytes (mkChain (skipn c (firstn 3 (bytes_of r))) false r') = skipn c (bytes_of r)).
  { unfold cbytes. cbn [done_first pending second]. rewrite Hb, <- skipn_app_le by exact Lc.
    rewrite firstn_skipn. reflexivity. }
  assert (Lk : (length (skipn c (bytes_of r)) <= length (bytes_of r))%nat) by (rewrite skipn_length; lia).
  rewrite (lines_loop_faultless fuel (S (length (bytes_of r))) fuel); cbn [inner enc]; rewrite ?Hc;
    try assumption; try lia; try reflexivity.
  unfold cmsr. cbn [done_first pending second]. unfold fuel. lia.
Qed.

Theorem read_all_lines_faultless : forall b s,
  faultless s -> read_all_lines (mk_reader b s) = decode_stream b.
Proof. intros b s F. exact (read_all_lines_faultless_gen (mk_reader b s) F). Qed.

(* the statement of C08: the delivery does not matter *)
Corollary schedule_independent : forall b s1 s2,
  faultless s1 -> faultless s2 ->
  read_all_lines (mk_reader b s1) = read_all_lines (mk_reader b s2).
Proof.
  intros b s1 s2 F1 F2.
  rewrite (read_all_lines_faultless b s1 F1), (read_all_lines_faultless b s2 F2). reflexivity.
Qed.

(* ---------- T09a: a hard failure scheduled before EOF is returned ---------- *)

Definition will_fail (k : io_kind) (r : reader) : Prop :=
  reaches_fail (length (rest r)) (sched r) = Some k.

Lemma will_fail_consume : forall k n r, will_fail k r -> will_fail k (consume n r).
Proof. intros k n r H. exact H. Qed.

(* under will_fail the source cannot report EOF, and its error is k *)
Lemma fill_buf_will_fail : forall k r, will_fail k r ->
  match fill_buf r with
  | (FbBuf a, r') => a <> [] /\ will_fail k r'
  | (FbInt, r') => will_fail k r'
  | (FbErr k', _) => k' = k
  end.
Proof.
  intros k [bf rs sc] H. unfold will_fail in *. unfold fill_buf. cbn [buffered rest sched] in *.
  destruct bf as [|x bt].
  - destruct sc as [|[n| |k'] s]; cbn [reaches_fail] in H.
    + discriminate.
    + destruct rs as [|y t]; [discriminate|]. cbn [length] in H. split.
      * assert (Hp : exists m, Pos.to_nat n = S m) by (exists (pred (Pos.to_nat n)); lia).
        destruct Hp as [m Hm]. rewrite Hm, firstn_cons. discriminate.
      * cbn [rest sched]. rewrite skipn_length. exact H.
    + exact H.
    + inversion H; reflexivity.
  - split; [discriminate|exact H].
Qed.

Lemma read_until_will_fail : forall k fuel d r buf,
  will_fail k r -> (msr r < fuel)%nat ->
  read_until fuel d r buf = IoErr k \/
  exists buf' r', read_until fuel d r buf = IoDone (buf', r') /\ will_fail k r' /\ buf' <> [].
Proof.
  induction fuel as [|f IH]; intros d r buf W M; [lia|].
  rewrite read_until_S. pose proof (fill_buf_will_fail k r W) as X.
  destruct (fill_buf r) as [[a| |k'] r1] eqn:Hfb.
  - destruct X as (Na & W1). destruct (fill_buf_buf _ _ _ Hfb) as (Ba & _ & M1 & _ & _).
    destruct (memchr d a) as [i|] eqn:Hm.
    + right. eexists _, _. split; [reflexivity|]. split; [exact W1|].
      destruct a as [|x t]; [contradiction|]. rewrite firstn_cons. destruct buf; discriminate.
    + destruct a as [|x t]; [contradiction|].
      destruct (consume_bytes (length (x :: t)) r1) as (_ & _ & C); [rewrite Ba; lia|].
      apply IH; [exact W1|cbn [length] in *; lia].
  - destruct (fill_buf_int_msr _ _ Hfb) as (_ & M1). apply IH; [exact X|lia].
  - left. rewrite X. reflexivity.
Qed.

Lemma read_extra_r_will_fail : forall k fuel r buf,
  will_fail k r -> (msr r < fuel)%nat ->
  read_extra_r fuel r buf = IoErr k \/
  exists b r', read_extra_r fuel r buf = IoDone (b, r') /\ will_fail k r'.
Proof.
  induction fuel as [|f IH]; intros r buf W M; [lia|].
  rewrite read_extra_r_S. pose proof (fill_buf_will_fail k r W) as X.
  destruct (fill_buf r) as [[a| |k'] r1] eqn:Hfb.
  - destruct X as (Na & W1). destruct a as [|x t]; [contradiction|].
    right. eexists _, _. split; [reflexivity|exact W1].
  - destruct (fill_buf_int_msr _ _ Hfb) as (_ & M1). apply IH; [exact X|lia].
  - left. rewrite X. reflexivity.
Qed.

Lemma chain_read_until_will_fail : forall k fuel d c buf,
  will_fail k (second c) -> (cmsr c < fuel)%nat ->
  chain_read_until fuel d c buf = IoErr k \/
  exists buf' c', chain_read_until fuel d c buf = IoDone (buf', c') /\ will_fail k (second c') /\ buf' <> [].
Proof.
  intros k fuel d [p dn r] buf W M. rewrite chain_read_until_eq. unfold cmsr in M.
  cbn [done_first pending second] in *. destruct dn.
  - destruct (read_until_will_fail k fuel d r buf W) as [E|(b' & r' & E & W' & N)]; [lia| |]; rewrite E.
    + left; reflexivity.
    + right. eexists _, _. split; [reflexivity|]. cbn [second]. auto.
  - destruct (memchr d p) as [i|] eqn:Hm.
    + right. eexists _, _. split; [reflexivity|]. cbn [second]. split; [exact W|].
      pose proof (memchr_some_lt _ _ _ Hm) as L. intros E. apply (f_equal (@length Z)) in E.
      rewrite app_length, firstn_length in E. cbn [length] in E. lia.
    + destruct (read_until_will_fail k fuel d r (buf ++ p) W) as [E|(b' & r' & E & W' & N)]; [lia| |]; rewrite E.
      * left; reflexivity.
      * right. eexists _, _. split; [reflexivity|]. cbn [second]. auto.
Qed.

Lemma read_extra_will_fail : forall k fuel c buf,
  will_fail k (second c) -> (cmsr c < fuel)%nat ->
  read_extra fuel c buf = IoErr k \/
  exists b c', read_extra fuel c buf = IoDone (b, c') /\ will_fail k (second c').
Proof.
  intros k [|f] [p dn r] buf W M; [lia|]. rewrite read_extra_eq. unfold cmsr in M.
  cbn [done_first pending second] in *. destruct dn.
  - destruct (read_extra_r_will_fail k (S f) r buf W) as [E|(b' & r' & E & W')]; [lia| |]; rewrite E.
    + left; reflexivity.
    + right. eexists _, _. split; [reflexivity|]. exact W'.
  - destruct p as [|x t].
    + destruct (read_extra_r_will_fail k (S f) r buf W) as [E|(b' & r' & E & W')]; [cbn [length] in M; lia| |]; rewrite E.
      * left; reflexivity.
      * right. eexists _, _. split; [reflexivity|]. exact W'.
    + right. eexists _, _. split; [reflexivity|]. exact W.
Qed.

(* a failure while read_bom is still collecting bytes is returned *)
Lemma read_bom_will_fail : forall k fuel r head,
  will_fail k r -> (msr r < fuel)%nat ->
  read_bom fuel r head = IoErr k \/
  exists e h r', read_bom fuel r head = IoDone (e, h, r') /\ will_fail k r'.
Proof.
  induction fuel as [|f IH]; intros r head W M; [lia|].
  rewrite read_bom_unfold, min_bom_len_3. destruct (length head <? 3)%nat eqn:E.
  - apply Nat.ltb_lt in E. pose proof (fill_buf_will_fail k r W) as X.
    destruct (fill_buf r) as [[a| |k'] r1] eqn:Hfb.
    + destruct X as (Na & W1). destruct (fill_buf_buf _ _ _ Hfb) as (Ba & _ & M1 & _ & _).
      destruct a as [|x t]; [contradiction|].
      destruct (consume_bytes (Nat.min (length (x :: t)) (3 - length head)) r1) as (_ & _ & C); [rewrite Ba; lia|].
      apply IH; [exact W1|cbn [length] in *; lia].
    + destruct (fill_buf_int_msr _ _ Hfb) as (_ & M1). apply IH; [exact X|lia].
    + left. rewrite X. reflexivity.
  - right. rewrite bom_finish_eq. eexists _, _, _. split; [reflexivity|exact W].
Qed.

(* the index read_buf[len - 2] of the UTF-16BE arm is in bounds *)
Lemma idx2_some : forall buf : bytes, ends_with_lf buf = true ->
  exists b, nth_error buf (length buf - 2) = Some b.
Proof.
  intros buf H. destruct (nth_error buf (length buf - 2)) eqn:E; [eauto|].
  apply nth_error_None in E. destruct buf; [discriminate H|cbn [length] in E; lia].
Qed.

Lemma line_step_will_fail : forall k fuel e c buf,
  will_fail k (second c) -> (cmsr c < fuel)%nat -> ends_with_lf buf = true ->
  line_step fuel e c buf = IoErr k \/
  exists f buf' c', line_step fuel e c buf = IoDone (f, buf', c') /\ will_fail k (second c').
Proof.
  intros k fuel e c buf W M El. unfold line_step. destruct e.
  - right. eexists _, _, _. split; [reflexivity|exact W].
  - destruct (Nat.even (length buf)).
    + destruct (idx2_some buf El) as (b & ->). right. eexists _, _, _. split; [reflexivity|exact W].
    + right. eexists _, _, _. split; [reflexivity|exact W].
  - destruct (Nat.even (length buf)); [right; eexists _, _, _; split; [reflexivity|exact W]|].
    destruct (read_extra_will_fail k fuel c buf W M) as [E|(b & c2 & E & W2)]; rewrite E; cbn [io_bind].
    + left; reflexivity.
    + right. eexists _, _, _. split; [reflexivity|exact W2].
Qed.

Lemma read_line_loop_will_fail : forall k n fuel e c buf,
  will_fail k (second c) -> (cmsr c < fuel)%nat -> (cmsr c < n)%nat ->
  read_line_loop n fuel e c buf = IoErr k \/
  exists buf' c', read_line_loop n fuel e c buf = IoDone (buf', c') /\ will_fail k (second c') /\ buf' <> [].
Proof.
  induction n as [|n IH]; intros fuel e c buf W M Mn; [lia|]. cbn [read_line_loop].
  destruct (chain_read_until_will_fail k fuel LF c buf W M) as [E|(buf1 & c1 & E & W1 & Nb)]; rewrite E; cbn [io_bind].
  - left; reflexivity.
  - pose proof (chain_read_until_msr _ _ _ _ _ _ E) as (M1 & _).
    destruct ((length buf <? length buf1)%nat && ends_with_lf buf1) eqn:C.
    + apply Bool.andb_true_iff in C. destruct C as (Cl & Ce). apply Nat.ltb_lt in Cl.
      destruct (line_step_will_fail k fuel e c1 buf1 W1) as [E2|(f & buf2 & c2 & E2 & W2)]; [lia|exact Ce| |]; rewrite E2; cbn [io_bind].
      * left; reflexivity.
      * pose proof (line_step_msr _ _ _ _ _ _ _ E2) as (M2 & L2). destruct f.
        -- right. eexists _, _. split; [reflexivity|]. split; [exact W2|].
           destruct buf2; [destruct buf1; [contradiction|cbn [length] in L2; lia]|discriminate].
        -- apply IH; [exact W2|lia|lia].
    + right. eexists _, _. split; [reflexivity|]. split; assumption.
Qed.

Lemma read_line_will_fail : forall k fuel d,
  will_fail k (second (inner d)) -> (cmsr (inner d) < fuel)%nat ->
  read_line fuel d = IoErr k \/
  exists l d', read_line fuel d = IoDone (Some l, d') /\ will_fail k (second (inner d')).
Proof.
  intros k fuel d W M. unfold read_line.
  destruct (read_line_loop_will_fail k fuel fuel (enc d) (inner d) [] W M M) as [E|(buf & c1 & E & W1 & Nb)]; rewrite E.
  - left; reflexivity.
  - cbn [io_bind]. destruct buf as [|x t]; [contradiction|].
    right. rewrite curr_line_dec. cbn [io_bind]. eexists _, _. split; [reflexivity|exact W1].
Qed.

Lemma lines_loop_will_fail : forall k n fuel d,
  will_fail k (second (inner d)) -> (cmsr (inner d) < fuel)%nat -> (cmsr (inner d) < n)%nat ->
  lines_loop n fuel d = IoErr k.
Proof.
  induction n as [|n IH]; intros fuel d W M Mn; [lia|].
  cbn [lines_loop]. destruct (read_line_will_fail k fuel d W M) as [E|(l & d' & E & W')]; rewrite E.
  - reflexivity.
  - pose proof (read_line_msr _ _ _ _ E) as M1. cbn [io_bind].
    rewrite (IH fuel d' W'); [reflexivity|lia|lia].
Qed.

Theorem read_all_lines_fail : forall b s k,
  reaches_fail (length b) s = Some k -> read_all_lines (mk_reader b s) = IoErr k.
Proof.
  intros b s k H. unfold read_all_lines, decoder_new.
  set (r := mk_reader b s). set (fuel := S (S (msr r))).
  assert (W : will_fail k r) by exact H.
  destruct (read_bom_will_fail k fuel r [] W) as [E|(e & h & r' & E & W')]; [unfold fuel; lia| |]; rewrite E.
  - reflexivity.
  - pose proof (read_bom_msr _ _ _ _ _ _ E) as M1. cbn [io_bind length] in *.
    apply lines_loop_will_fail; unfold cmsr; cbn [inner done_first pending second]; [exact W'|unfold fuel; lia|unfold fuel; lia].
Qed.

(* a failure placed after exactly o <= length b delivered bytes, whatever the
   chunking and interruptions before it, is reached *)
Fixpoint delivered (s : list ev) : nat :=
  match s with
  | [] => O
  | Chunk c :: t => (Pos.to_nat c + delivered t)%nat
  | _ :: t => delivered t
  end.

Lemma reaches_fail_prefix : forall pre n k post,
  faultless pre -> (delivered pre <= n)%nat ->
  reaches_fail n (pre ++ Fail k :: post) = Some k.
Proof.
  induction pre as [|e pre IH]; intros n k post F D; cbn [app reaches_fail]; [reflexivity|].
  destruct e as [c| |k'].
  - cbn [delivered] in D. destruct n as [|n']; [lia|].
    apply IH; [exact (faultless_cons _ _ F)|lia].
  - cbn [delivered] in D. apply IH; [exact (faultless_cons _ _ F)|exact D].
  - destruct (faultless_not_fail _ _ F).
Qed.

Corollary fail_at_offset_is_returned : forall b pre k post,
  faultless pre -> (delivered pre <= length b)%nat ->
  read_all_lines (mk_reader b (pre ++ Fail k :: post)) = IoErr k.
Proof.
  intros b pre k post F D. apply read_all_lines_fail. apply reaches_fail_prefix; assumption.
Qed.

(* ---------- T09b: Interrupted is transparent ---------- *)

(* r2 is r1 with every Interrupted removed from the schedule *)
Definition sim (r1 r2 : reader) : Prop :=
  buffered r1 = buffered r2 /\ rest r1 = rest r2 /\ sched r2 = strip_interrupted (sched r1).

Definition io_rel {A B} (R : A -> B -> Prop) (x : io A) (y : io B) : Prop :=
  match x, y with
  | IoDone a, IoDone b => R a b
  | IoErr k1, IoErr k2 => k1 = k2
  | IoPanic a, IoPanic b => a = b
  | IoFuel, IoFuel => True
  | _, _ => False
  end.

Definition pair_sim {A} (x y : A * reader) : Prop := fst x = fst y /\ sim (snd x) (snd y).

Definition csim (c1 c2 : chain) : Prop :=
  pending c1 = pending c2 /\ done_first c1 = done_first c2 /\ sim (second c1) (second c2).
Definition cpair_sim {A} (x y : A * chain) : Prop := fst x = fst y /\ csim (snd x) (snd y).

Lemma sim_consume : forall n r1 r2, sim r1 r2 -> sim (consume n r1) (consume n r2).
Proof. intros n r1 r2 (B & R & S). unfold sim, consume. cbn [buffered rest sched]. rewrite B. auto. Qed.

Lemma fill_buf_sim : forall r1 r2, sim r1 r2 ->
  match fill_buf r1 with
  | (FbInt, r1') => sim r1' r2
  | (FbBuf a, r1') => exists r2', fill_buf r2 = (FbBuf a, r2') /\ sim r1' r2'
  | (FbErr k, _) => exists r2', fill_buf r2 = (FbErr k, r2')
  end.
Proof.
  intros [b1 rs1 sc1] [b2 rs2 sc2] (B & R & S). cbn [buffered rest sched] in *. subst b2 rs2 sc2.
  unfold fill_buf. cbn [buffered rest sched].
  destruct b1 as [|x t].
  - destruct sc1 as [|[n| |k] s]; cbn [strip_interrupted].
    + eexists; split; [reflexivity|]. repeat split.
    + eexists; split; [reflexivity|]. repeat split.
    + repeat split.
    + eexists; reflexivity.
  - eexists; split; [reflexivity|]. repeat split.
Qed.

Lemma read_until_sim : forall f1 f2 d r1 r2 buf,
  sim r1 r2 -> (msr r1 < f1)%nat -> (msr r2 < f2)%nat ->
  io_rel pair_sim (read_until f1 d r1 buf) (read_until f2 d r2 buf).
Proof.
  induction f1 as [|f1 IH]; intros f2 d r1 r2 buf S M1 M2; [lia|].
  rewrite read_until_S. pose proof (fill_buf_sim r1 r2 S) as X.
  destruct (fill_buf r1) as [[a| |k] r1'] eqn:Hfb.
  - destruct X as (r2' & Hfb2 & S'). destruct f2 as [|f2]; [lia|]. rewrite read_until_S, Hfb2.
    destruct (fill_buf_buf _ _ _ Hfb) as (Ba & _ & Ma & _ & _).
    destruct (fill_buf_buf _ _ _ Hfb2) as (Ba2 & _ & Ma2 & _ & _).
    destruct (memchr d a) as [i|].
    + cbn [io_rel]. split; [reflexivity|]. cbn [snd]. apply sim_consume; exact S'.
    + destruct a as [|x t].
      * cbn [io_rel]. split; [reflexivity|]. cbn [snd]. apply sim_consume; exact S'.
      * destruct (consume_bytes (length (x :: t)) r1') as (_ & _ & C1); [rewrite Ba; lia|].
        destruct (consume_bytes (length (x :: t)) r2') as (_ & _ & C2); [rewrite Ba2; lia|].
        apply IH; [apply sim_consume; exact S'| |]; cbn [length] in *; lia.
  - destruct (fill_buf_int_msr _ _ Hfb) as (_ & Mi). apply IH; [exact X|lia|exact M2].
  - destruct X as (r2' & Hfb2). destruct f2 as [|f2]; [lia|]. rewrite read_until_S, Hfb2. reflexivity.
Qed.

Lemma read_extra_r_sim : forall f1 f2 r1 r2 buf,
  sim r1 r2 -> (msr r1 < f1)%nat -> (msr r2 < f2)%nat ->
  io_rel pair_sim (read_extra_r f1 r1 buf) (read_extra_r f2 r2 buf).
Proof.
  induction f1 as [|f1 IH]; intros f2 r1 r2 buf S M1 M2; [lia|].
  rewrite read_extra_r_S. pose proof (fill_buf_sim r1 r2 S) as X.
  destruct (fill_buf r1) as [[a| |k] r1'] eqn:Hfb.
  - destruct X as (r2' & Hfb2 & S'). destruct f2 as [|f2]; [lia|]. rewrite read_extra_r_S, Hfb2.
    destruct a as [|x t]; cbn [io_rel]; (split; [reflexivity|]); cbn [snd]; [exact S'|apply sim_consume; exact S'].
  - destruct (fill_buf_int_msr _ _ Hfb) as (_ & Mi). apply IH; [exact X|lia|exact M2].
  - destruct X as (r2' & Hfb2). destruct f2 as [|f2]; [lia|]. rewrite read_extra_r_S, Hfb2. reflexivity.
Qed.

Lemma lift_rel : forall p (x y : io (bytes * reader)),
  io_rel pair_sim x y -> io_rel cpair_sim (lift p x) (lift p y).
Proof.
  intros p [[b1 r1]|k1|w1|] [[b2 r2]|k2|w2|] H; cbn [lift io_bind io_rel] in *; try assumption.
  destruct H as (Hb & Hs). cbn [fst snd] in *. split; [exact Hb|]. split; [reflexivity|]. split; [reflexivity|exact Hs].
Qed.

Lemma chain_read_until_sim : forall f1 f2 d c1 c2 buf,
  csim c1 c2 -> (cmsr c1 < f1)%nat -> (cmsr c2 < f2)%nat ->
  io_rel cpair_sim (chain_read_until f1 d c1 buf) (chain_read_until f2 d c2 buf).
Proof.
  intros f1 f2 d [p1 dn1 r1] [p2 dn2 r2] buf (Hp & Hd & Hs) M1 M2. unfold cmsr in *.
  cbn [pending done_first second] in *. subst p2 dn2. rewrite !chain_read_until_eq.
  cbn [pending done_first second]. destruct dn1.
  - apply lift_rel. apply read_until_sim; [exact Hs|lia|lia].
  - destruct (memchr d p1) as [i|].
    + cbn [io_rel]. split; [reflexivity|]. split; [reflexivity|]. split; [reflexivity|exact Hs].
    + apply lift_rel. apply read_until_sim; [exact Hs|lia|lia].
Qed.

Lemma read_extra_sim : forall f1 f2 c1 c2 buf,
  csim c1 c2 -> (cmsr c1 < f1)%nat -> (cmsr c2 < f2)%nat ->
  io_rel cpair_sim (read_extra f1 c1 buf) (read_extra f2 c2 buf).
Proof.
  intros [|f1] [|f2] [p1 dn1 r1] [p2 dn2 r2] buf (Hp & Hd & Hs) M1 M2; try lia. unfold cmsr in *.
  cbn [pending done_first second] in *. subst p2 dn2. rewrite !read_extra_eq.
  cbn [pending done_first second]. destruct dn1.
  - apply lift_rel. apply read_extra_r_sim; [exact Hs|lia|lia].
  - destruct p1 as [|x t].
    + apply lift_rel. apply read_extra_r_sim; [exact Hs|cbn [length] in *; lia|cbn [length] in *; lia].
    + cbn [io_rel]. split; [reflexivity|]. split; [reflexivity|]. split; [reflexivity|exact Hs].
Qed.

Definition bom_sim (x y : encoding * bytes * reader) : Prop := fst x = fst y /\ sim (snd x) (snd y).

(* Interrupted while read_bom collects its bytes is retried transparently *)
Lemma read_bom_sim : forall f1 f2 r1 r2 head,
  sim r1 r2 -> (msr r1 < f1)%nat -> (msr r2 < f2)%nat ->
  io_rel bom_sim (read_bom f1 r1 head) (read_bom f2 r2 head).
Proof.
  induction f1 as [|f1 IH]; intros f2 r1 r2 head Sm M1 M2; [lia|].
  rewrite (read_bom_unfold (S f1) r1). destruct (length head <? min_bom_len)%nat eqn:E.
  - pose proof (fill_buf_sim r1 r2 Sm) as X.
    destruct (fill_buf r1) as [[a| |k] r1'] eqn:Hfb.
    + destruct X as (r2' & Hfb2 & S'). destruct f2 as [|f2]; [lia|].
      rewrite (read_bom_unfold (S f2) r2), E, Hfb2.
      destruct (fill_buf_buf _ _ _ Hfb) as (Ba & _ & Ma & _ & _).
      destruct (fill_buf_buf _ _ _ Hfb2) as (Ba2 & _ & Ma2 & _ & _).
      destruct a as [|x t].
      * rewrite !bom_finish_eq. cbn [io_rel]. split; [reflexivity|exact S'].
      * rewrite min_bom_len_3 in *. apply Nat.ltb_lt in E.
        destruct (consume_bytes (Nat.min (length (x :: t)) (3 - length head)) r1') as (_ & _ & C1); [rewrite Ba; lia|].
        destruct (consume_bytes (Nat.min (length (x :: t)) (3 - length head)) r2') as (_ & _ & C2); [rewrite Ba2; lia|].
        apply IH; [apply sim_consume; exact S'| |]; cbn [length] in *; lia.
    + destruct (fill_buf_int_msr _ _ Hfb) as (_ & Mi). apply IH; [exact X|lia|exact M2].
    + destruct X as (r2' & Hfb2). destruct f2 as [|f2]; [lia|].
      rewrite (read_bom_unfold (S f2) r2), E, Hfb2. reflexivity.
  - rewrite (read_bom_unfold f2 r2), E, !bom_finish_eq. cbn [io_rel]. split; [reflexivity|exact Sm].
Qed.

Definition dec_sim (x y : option str * decoder) : Prop :=
  fst x = fst y /\ csim (inner (snd x)) (inner (snd y)) /\ enc (snd x) = enc (snd y).

Lemma line_step_sim : forall f1 f2 e c1 c2 buf,
  csim c1 c2 -> (cmsr c1 < f1)%nat -> (cmsr c2 < f2)%nat ->
  io_rel cpair_sim (line_step f1 e c1 buf) (line_step f2 e c2 buf).
Proof.
  intros f1 f2 e c1 c2 buf Sm M1 M2. unfold line_step. destruct e.
  - cbn [io_rel]. split; [reflexivity|exact Sm].
  - destruct (Nat.even (length buf)).
    + destruct (nth_error buf (length buf - 2)); cbn [io_rel]; [split; [reflexivity|exact Sm]|reflexivity].
    + cbn [io_rel]. split; [reflexivity|exact Sm].
  - destruct (Nat.even (length buf)); [cbn [io_rel]; split; [reflexivity|exact Sm]|].
    pose proof (read_extra_sim f1 f2 c1 c2 buf Sm M1 M2) as Y.
    destruct (read_extra f1 c1 buf) as [[b1 q1]| | |];
      destruct (read_extra f2 c2 buf) as [[b2 q2]| | |]; cbn [io_rel io_bind] in *; try contradiction; try assumption.
    destruct Y as (Eb & Sq). cbn [fst snd] in *. subst b2. split; [reflexivity|exact Sq].
Qed.

Lemma read_line_loop_sim : forall n1 n2 f1 f2 e c1 c2 buf,
  csim c1 c2 -> (cmsr c1 < f1)%nat -> (cmsr c2 < f2)%nat -> (cmsr c1 < n1)%nat -> (cmsr c2 < n2)%nat ->
  io_rel cpair_sim (read_line_loop n1 f1 e c1 buf) (read_line_loop n2 f2 e c2 buf).
Proof.
  induction n1 as [|n1 IH]; intros n2 f1 f2 e c1 c2 buf Sm M1 M2 N1 N2; [lia|].
  destruct n2 as [|n2]; [lia|]. cbn [read_line_loop].
  pose proof (chain_read_until_sim f1 f2 LF c1 c2 buf Sm M1 M2) as X.
  destruct (chain_read_until f1 LF c1 buf) as [[b1 r1]| | |] eqn:H1;
    destruct (chain_read_until f2 LF c2 buf) as [[b2 r2]| | |] eqn:H2; cbn [io_rel io_bind] in *; try contradiction; try assumption.
  destruct X as (Eb & S'). cbn [fst snd] in *. subst b2.
  pose proof (chain_read_until_msr _ _ _ _ _ _ H1) as (Ma & _).
  pose proof (chain_read_until_msr _ _ _ _ _ _ H2) as (Mb & _).
  destruct ((length buf <? length b1)%nat && ends_with_lf b1) eqn:C.
  - apply Bool.andb_true_iff in C. destruct C as (Cl & _). apply Nat.ltb_lt in Cl.
    pose proof (line_step_sim f1 f2 e r1 r2 b1 S') as Y.
    destruct (line_step f1 e r1 b1) as [[[k1 x1] q1]| | |] eqn:L1;
      destruct (line_step f2 e r2 b1) as [[[k2 x2] q2]| | |] eqn:L2; cbn [io_rel io_bind] in *;
      try (exfalso; apply Y; lia); try (apply Y; lia).
    destruct Y as (Ek & Sq); [lia|lia|]. cbn [fst snd] in *. inversion Ek; subst k2 x2.
    pose proof (line_step_msr _ _ _ _ _ _ _ L1) as (Mc & Lc1).
    pose proof (line_step_msr _ _ _ _ _ _ _ L2) as (Md & Lc2).
    destruct k1.
    + cbn [io_rel]. split; [reflexivity|exact Sq].
    + apply IH; [exact Sq|lia..].
  - cbn [io_rel]. split; [reflexivity|exact S'].
Qed.

Lemma read_line_sim : forall f1 f2 d1 d2,
  csim (inner d1) (inner d2) -> enc d1 = enc d2 ->
  (cmsr (inner d1) < f1)%nat -> (cmsr (inner d2) < f2)%nat ->
  io_rel dec_sim (read_line f1 d1) (read_line f2 d2).
Proof.
  intros f1 f2 d1 d2 Sm E M1 M2. unfold read_line. rewrite <- E.
  pose proof (read_line_loop_sim f1 f2 f1 f2 (enc d1) _ _ [] Sm M1 M2 M1 M2) as X.
  destruct (read_line_loop f1 f1 (enc d1) (inner d1) []) as [[b1 r1]| | |] eqn:H1;
    destruct (read_line_loop f2 f2 (enc d1) (inner d2) []) as [[b2 r2]| | |] eqn:H2; cbn [io_rel] in X; try contradiction;
    try (cbn [io_bind io_rel]; assumption).
  destruct X as (Eb & S'). cbn [fst snd] in *. subst b2.
  cbn [io_bind]. destruct b1 as [|x t].
  - cbn [io_rel]. unfold dec_sim. cbn [fst snd inner enc]. auto.
  - rewrite !curr_line_dec. cbn [io_bind io_rel]. unfold dec_sim. cbn [fst snd inner enc]. auto.
Qed.

Lemma lines_loop_sim : forall n1 n2 f1 f2 d1 d2,
  csim (inner d1) (inner d2) -> enc d1 = enc d2 ->
  (cmsr (inner d1) < f1)%nat -> (cmsr (inner d2) < f2)%nat ->
  (cmsr (inner d1) < n1)%nat -> (cmsr (inner d2) < n2)%nat ->
  lines_loop n1 f1 d1 = lines_loop n2 f2 d2.
Proof.
  induction n1 as [|n1 IH]; intros n2 f1 f2 d1 d2 S E M1 M2 N1 N2; [lia|].
  destruct n2 as [|n2]; [lia|]. cbn [lines_loop].
  pose proof (read_line_sim f1 f2 d1 d2 S E M1 M2) as X.
  destruct (read_line f1 d1) as [[o1 e1]| | |] eqn:H1;
    destruct (read_line f2 d2) as [[o2 e2]| | |] eqn:H2; cbn [io_rel] in X; try contradiction;
    try (cbn [io_bind]; congruence).
  destruct X as (Eo & S' & E'). cbn [fst snd] in *. subst o2. cbn [io_bind].
  destruct o1 as [l|]; [|reflexivity].
  pose proof (read_line_msr _ _ _ _ H1). pose proof (read_line_msr _ _ _ _ H2).
  rewrite (IH n2 f1 f2 e1 e2 S' E'); [reflexivity|lia..].
Qed.

Lemma msr_strip : forall s, (length (strip_interrupted s) <= length s)%nat.
Proof. induction s as [|[n| |k] s IH]; cbn [strip_interrupted length]; lia. Qed.

Theorem interrupted_transparent : forall b s,
  read_all_lines (mk_reader b s) = read_all_lines (mk_reader b (strip_interrupted s)).
Proof.
  intros b s. unfold read_all_lines, decoder_new.
  set (r1 := mk_reader b s). set (r2 := mk_reader b (strip_interrupted s)).
  set (f1 := S (S (msr r1))). set (f2 := S (S (msr r2))).
  assert (S0 : sim r1 r2) by (repeat split).
  pose proof (read_bom_sim f1 f2 r1 r2 [] S0) as X.
  destruct (read_bom f1 r1 []) as [[[e1 h1] q1]| | |] eqn:H1;
    destruct (read_bom f2 r2 []) as [[[e2 h2] q2]| | |] eqn:H2; cbn [io_rel] in X;
    try (exfalso; apply X; unfold f1, f2; lia); try (cbn [io_bind]; f_equal; apply X; unfold f1, f2; lia).
  - destruct X as (Ee & Sq); [unfold f1; lia|unfold f2; lia|]. cbn [fst snd] in *. inversion Ee; subst e2 h2.
    pose proof (read_bom_msr _ _ _ _ _ _ H1). pose proof (read_bom_msr _ _ _ _ _ _ H2).
    cbn [io_bind length] in *.
    apply lines_loop_sim; unfold cmsr, csim; cbn [inner enc pending done_first second]; auto; unfold f1, f2; lia.
Qed.

(* two schedules that differ only in their Interrupted events give the same outcome *)
Corollary interrupted_irrelevant : forall b s1 s2,
  strip_interrupted s1 = strip_interrupted s2 ->
  read_all_lines (mk_reader b s1) = read_all_lines (mk_reader b s2).
Proof.
  intros b s1 s2 H. rewrite (interrupted_transparent b s1), (interrupted_transparent b s2), H. reflexivity.
Qed.

(* ---------- the fuel is sufficient; the line layer never panics ---------- *)

Definition io_ok {A} (x : io A) : Prop :=
  match x with IoDone _ | IoErr _ => True | _ => False end.

Lemma read_until_ok : forall fuel d r buf, (msr r < fuel)%nat -> io_ok (read_until fuel d r buf).
Proof.
  induction fuel as [|f IH]; intros d r buf M; [lia|].
  rewrite read_until_S. destruct (fill_buf r) as [[a| |k] r1] eqn:Hfb; [| |exact I].
  - destruct (fill_buf_buf _ _ _ Hfb) as (Ba & _ & M1 & _ & _).
    destruct (memchr d a); [exact I|]. destruct a as [|x t]; [exact I|].
    destruct (consume_bytes (length (x :: t)) r1) as (_ & _ & C); [rewrite Ba; lia|].
    apply IH. cbn [length] in *. lia.
  - destruct (fill_buf_int_msr _ _ Hfb) as (_ & M1). apply IH. lia.
Qed.

Lemma read_exact_ok : forall fuel n r acc, (msr r < fuel)%nat -> io_ok (read_exact fuel n r acc).
Proof.
  induction fuel as [|f IH]; intros n r acc M; [lia|].
  destruct n as [|n]; [exact I|].
  rewrite read_exact_S. destruct (fill_buf r) as [[a| |k] r1] eqn:Hfb; [| |exact I].
  - destruct (fill_buf_buf _ _ _ Hfb) as (Ba & _ & M1 & _ & _).
    destruct (firstn (S n) a) as [|g gt] eqn:Hg; [exact I|].
    assert (Hl : (length (g :: gt) <= length a)%nat) by (rewrite <- Hg, firstn_length; lia).
    destruct (consume_bytes (length (g :: gt)) r1) as (_ & _ & C); [rewrite Ba; lia|].
    apply IH. cbn [length] in *. lia.
  - destruct (fill_buf_int_msr _ _ Hfb) as (_ & M1). apply IH. lia.
Qed.

Lemma read_extra_r_ok : forall fuel r buf, (msr r < fuel)%nat -> io_ok (read_extra_r fuel r buf).
Proof.
  induction fuel as [|f IH]; intros r buf M; [lia|].
  rewrite read_extra_r_S. destruct (fill_buf r) as [[a| |k] r1] eqn:Hfb; [| |exact I].
  - destruct a; exact I.
  - destruct (fill_buf_int_msr _ _ Hfb) as (_ & M1). apply IH. lia.
Qed.

Lemma lift_ok : forall p x, io_ok x -> io_ok (lift p x).
Proof. intros p [[b r]|k|w|] H; cbn in *; auto. Qed.

Lemma chain_read_until_ok : forall fuel d c buf, (cmsr c < fuel)%nat -> io_ok (chain_read_until fuel d c buf).
Proof.
  intros fuel d [p dn r] buf M. rewrite chain_read_until_eq. unfold cmsr in M. cbn [pending done_first second] in *.
  destruct dn; [apply lift_ok, read_until_ok; lia|].
  destruct (memchr d p); [exact I|apply lift_ok, read_until_ok; lia].
Qed.

Lemma read_extra_ok : forall fuel c buf, (cmsr c < fuel)%nat -> io_ok (read_extra fuel c buf).
Proof.
  intros [|f] [p dn r] buf M; [lia|]. rewrite read_extra_eq. unfold cmsr in M. cbn [pending done_first second] in *.
  destruct dn; [apply lift_ok, read_extra_r_ok; lia|].
  destruct p; [apply lift_ok, read_extra_r_ok; cbn [length] in M; lia|exact I].
Qed.

Lemma read_bom_ok : forall fuel r head, (msr r < fuel)%nat -> io_ok (read_bom fuel r head).
Proof.
  induction fuel as [|f IH]; intros r head M; [lia|].
  rewrite read_bom_unfold, min_bom_len_3. destruct (length head <? 3)%nat eqn:E; [|rewrite bom_finish_eq; exact I].
  apply Nat.ltb_lt in E. destruct (fill_buf r) as [[a| |k] r1] eqn:Hfb; [| |exact I].
  - destruct (fill_buf_buf _ _ _ Hfb) as (Ba & _ & M1 & _ & _).
    destruct a as [|x t]; [rewrite bom_finish_eq; exact I|].
    destruct (consume_bytes (Nat.min (length (x :: t)) (3 - length head)) r1) as (_ & _ & C); [rewrite Ba; lia|].
    apply IH. cbn [length] in *. lia.
  - destruct (fill_buf_int_msr _ _ Hfb) as (_ & M1). apply IH. lia.
Qed.

Lemma line_step_ok : forall fuel e c buf,
  (cmsr c < fuel)%nat -> ends_with_lf buf = true -> io_ok (line_step fuel e c buf).
Proof.
  intros fuel e c buf M El. unfold line_step. destruct e; [exact I| |].
  - destruct (Nat.even (length buf)); [|exact I]. destruct (idx2_some buf El) as (b & ->). exact I.
  - destruct (Nat.even (length buf)); [exact I|].
    pose proof (read_extra_ok fuel c buf M) as Y.
    destruct (read_extra fuel c buf) as [[b c2]| | |]; cbn [io_bind] in *; auto.
Qed.

(* the loop of read_line never panics (the index is in bounds) and [n] = the
   fuel of read_line is enough: every round that goes on has consumed a byte *)
Lemma read_line_loop_ok : forall n fuel e c buf,
  (cmsr c < fuel)%nat -> (cmsr c < n)%nat -> io_ok (read_line_loop n fuel e c buf).
Proof.
  induction n as [|n IH]; intros fuel e c buf M Mn; [lia|]. cbn [read_line_loop].
  pose proof (chain_read_until_ok fuel LF c buf M) as X.
  destruct (chain_read_until fuel LF c buf) as [[buf1 c1]| | |] eqn:Hr; try contradiction; [|exact I].
  pose proof (chain_read_until_msr _ _ _ _ _ _ Hr) as (M1 & _). cbn [io_bind].
  destruct ((length buf <? length buf1)%nat && ends_with_lf buf1) eqn:C; [|exact I].
  apply Bool.andb_true_iff in C. destruct C as (Cl & Ce). apply Nat.ltb_lt in Cl.
  assert (Y : io_ok (line_step fuel e c1 buf1)) by (apply line_step_ok; [lia|exact Ce]).
  destruct (line_step fuel e c1 buf1) as [[[k buf2] c2]| | |] eqn:Hs; try contradiction; cbn [io_bind]; [|exact I].
  pose proof (line_step_msr _ _ _ _ _ _ _ Hs) as (M2 & L2).
  destruct k; [exact I|]. apply IH; lia.
Qed.

Lemma read_line_ok : forall fuel d, (cmsr (inner d) < fuel)%nat -> io_ok (read_line fuel d).
Proof.
  intros fuel d M. unfold read_line. pose proof (read_line_loop_ok fuel fuel (enc d) (inner d) [] M M) as X.
  destruct (read_line_loop fuel fuel (enc d) (inner d) []) as [[buf r]| | |] eqn:Hr; try contradiction; [|exact I].
  cbn [io_bind]. destruct buf as [|x t]; [exact I|]. rewrite curr_line_dec. exact I.
Qed.

Lemma lines_loop_ok : forall n fuel d,
  (cmsr (inner d) < fuel)%nat -> (cmsr (inner d) < n)%nat -> io_ok (lines_loop n fuel d).
Proof.
  induction n as [|n IH]; intros fuel d M N; [lia|]. cbn [lines_loop].
  pose proof (read_line_ok fuel d M) as X.
  destruct (read_line fuel d) as [[o d']| | |] eqn:Hl; try contradiction; [|exact I].
  cbn [io_bind]. destruct o as [l|]; [|exact I].
  pose proof (read_line_msr _ _ _ _ Hl) as M1. specialize (IH fuel d').
  destruct (lines_loop n fuel d'); cbn [io_bind]; try exact I; apply IH; lia.
Qed.

(* no Panic, no OutOfFuel, for every reader state: the result is the list of
   lines or an I/O error *)
Theorem read_all_lines_ok : forall r, io_ok (read_all_lines r).
Proof.
  intros r. unfold read_all_lines, decoder_new.
  pose proof (read_bom_ok (S (S (msr r))) r []) as X.
  destruct (read_bom (S (S (msr r))) r []) as [[[e h] r']| | |] eqn:Hb; try (apply X; lia); cbn [io_bind]; try exact I.
  pose proof (read_bom_msr _ _ _ _ _ _ Hb) as Mb. cbn [length] in Mb.
  apply lines_loop_ok; unfold cmsr; cbn [inner done_first pending second]; lia.
Qed.

(* ---------- T01e: an error is one the reader reported ---------- *)

(* the schedule only ever loses events *)
(* the schedule only ever loses events *)
Lemma fill_buf_sched : forall r x r', fill_buf r = (x, r') ->
  forall k, In (Fail k) (sched r') -> In (Fail k) (sched r).
Proof.
  intros [bf rs sc] x r' H k Hin. unfold fill_buf in H. cbn [buffered rest sched] in *.
  destruct bf as [|y bt]; [|inversion H; subst; exact Hin].
  destruct sc as [|[n| |k'] s]; inversion H; subst; cbn [sched] in Hin; try (right; exact Hin).
  destruct Hin.
Qed.

Lemma fill_buf_err_in : forall r k r', fill_buf r = (FbErr k, r') -> In (Fail k) (sched r).
Proof. intros r k r' H. destruct (fill_buf_err _ _ _ H) as (_ & s & S). rewrite S. left; reflexivity. Qed.

Definition from_sched {A} (proj : A -> reader) (r : reader) (x : io A) : Prop :=
  match x with
  | IoErr k => In (Fail k) (sched r)
  | IoDone a => forall k, In (Fail k) (sched (proj a)) -> In (Fail k) (sched r)
  | _ => True
  end.

Lemma read_until_from_sched : forall fuel d r buf, from_sched snd r (read_until fuel d r buf).
Proof.
  induction fuel as [|f IH]; intros d r buf; [exact I|].
  rewrite read_until_S. destruct (fill_buf r) as [[a| |k] r1] eqn:Hfb.
  - pose proof (fill_buf_sched _ _ _ Hfb) as F1.
    destruct (memchr d a); [exact F1|]. destruct a as [|x t]; [exact F1|].
    specialize (IH d (consume (length (x :: t)) r1) (buf ++ x :: t)).
    destruct (read_until f d (consume (length (x :: t)) r1) (buf ++ x :: t)) as [[b r2]|k| |];
      cbn [from_sched snd] in *; try exact I; rewrite ?sched_consume in IH; auto.
  - pose proof (fill_buf_sched _ _ _ Hfb) as F1. specialize (IH d r1 buf).
    destruct (read_until f d r1 buf) as [[b r2]|k| |]; cbn [from_sched snd] in *; try exact I; auto.
  - exact (fill_buf_err_in _ _ _ Hfb).
Qed.

Lemma read_extra_r_from_sched : forall fuel r buf, from_sched snd r (read_extra_r fuel r buf).
Proof.
  induction fuel as [|f IH]; intros r buf; [exact I|].
  rewrite read_extra_r_S. destruct (fill_buf r) as [[a| |k] r1] eqn:Hfb.
  - pose proof (fill_buf_sched _ _ _ Hfb) as F1. destruct a; exact F1.
  - pose proof (fill_buf_sched _ _ _ Hfb) as F1. specialize (IH r1 buf).
    destruct (read_extra_r f r1 buf) as [[b r2]|k| |]; cbn [from_sched snd] in *; try exact I; auto.
  - exact (fill_buf_err_in _ _ _ Hfb).
Qed.

Lemma lift_from_sched : forall p r x,
  from_sched snd r x -> from_sched (fun y : bytes * chain => second (snd y)) r (lift p x).
Proof. intros p r [[b r1]|k|w|] H; cbn in *; auto. Qed.

Lemma chain_read_until_from_sched : forall fuel d c buf,
  from_sched (fun y : bytes * chain => second (snd y)) (second c) (chain_read_until fuel d c buf).
Proof.
  intros fuel d [p dn r] buf. rewrite chain_read_until_eq. cbn [pending done_first second].
  destruct dn; [apply lift_from_sched, read_until_from_sched|].
  destruct (memchr d p); [cbn; auto|apply lift_from_sched, read_until_from_sched].
Qed.

Lemma read_extra_from_sched : forall fuel c buf,
  from_sched (fun y : bytes * chain => second (snd y)) (second c) (read_extra fuel c buf).
Proof.
  intros [|f] [p dn r] buf; [exact I|]. rewrite read_extra_eq. cbn [pending done_first second].
  destruct dn; [apply lift_from_sched, read_extra_r_from_sched|].
  destruct p; [apply lift_from_sched, read_extra_r_from_sched|cbn; auto].
Qed.

Lemma read_bom_from_sched : forall fuel r head, from_sched snd r (read_bom fuel r head).
Proof.
  induction fuel as [|f IH]; intros r head; rewrite read_bom_unfold;
    destruct (length head <? min_bom_len)%nat; try (rewrite bom_finish_eq; cbn; auto); [exact I|].
  destruct (fill_buf r) as [[a| |k] r1] eqn:Hfb.
  - pose proof (fill_buf_sched _ _ _ Hfb) as F1.
    destruct a as [|x t]; [rewrite bom_finish_eq; exact F1|].
    set (len := Nat.min (length (x :: t)) (min_bom_len - length head)).
    specialize (IH (consume len r1) (head ++ firstn len (x :: t))).
    destruct (read_bom f (consume len r1) (head ++ firstn len (x :: t))) as [[[e h] r2]|k| |];
      cbn [from_sched snd] in *; try exact I; rewrite ?sched_consume in IH; auto.
  - pose proof (fill_buf_sched _ _ _ Hfb) as F1. specialize (IH r1 head).
    destruct (read_bom f r1 head) as [[[e h] r2]|k| |]; cbn [from_sched snd] in *; try exact I; auto.
  - exact (fill_buf_err_in _ _ _ Hfb).
Qed.

(* Decoder::read_line: an Err is a failure event of the underlying reader *)
Lemma line_step_from_sched : forall fuel e c buf,
  from_sched (fun y : flow * bytes * chain => second (snd y)) (second c) (line_step fuel e c buf).
Proof.
  intros fuel e c buf. unfold line_step. destruct e.
  - cbn. auto.
  - destruct (Nat.even (length buf)); [|cbn; auto]. destruct (nth_error buf (length buf - 2)); cbn; auto.
  - destruct (Nat.even (length buf)); [cbn; auto|].
    pose proof (read_extra_from_sched fuel c buf) as Y.
    destruct (read_extra fuel c buf) as [[b c2]|k| |]; cbn [io_bind from_sched snd] in *; auto.
Qed.

Lemma read_line_loop_from_sched : forall n fuel e c buf,
  from_sched (fun y : bytes * chain => second (snd y)) (second c) (read_line_loop n fuel e c buf).
Proof.
  induction n as [|n IH]; intros fuel e c buf; [exact I|]. cbn [read_line_loop].
  pose proof (chain_read_until_from_sched fuel LF c buf) as X.
  destruct (chain_read_until fuel LF c buf) as [[buf1 c1]|k| |]; cbn [io_bind from_sched snd] in *; try exact I; [|exact X].
  destruct ((length buf <? length buf1)%nat && ends_with_lf buf1); [|exact X].
  pose proof (line_step_from_sched fuel e c1 buf1) as Y.
  destruct (line_step fuel e c1 buf1) as [[[f buf2] c2]|k| |]; cbn [io_bind from_sched snd] in *; try exact I; auto.
  destruct f; [cbn [from_sched snd]; auto|].
  specialize (IH fuel e c2 buf2).
  destruct (read_line_loop n fuel e c2 buf2) as [[b3 c3]|k| |]; cbn [from_sched snd] in *; try exact I; auto.
Qed.

(* Decoder::read_line: an Err is a failure event of the underlying reader *)
Lemma read_line_from_sched : forall fuel d,
  from_sched (fun x => second (inner (snd x))) (second (inner d)) (read_line fuel d).
Proof.
  intros fuel d. unfold read_line.
  pose proof (read_line_loop_from_sched fuel fuel (enc d) (inner d) []) as X.
  destruct (read_line_loop fuel fuel (enc d) (inner d) []) as [[buf c]|k| |]; cbn [io_bind from_sched snd] in *; try exact I;
    [|exact X].
  destruct buf as [|x t]; [exact X|].
  rewrite curr_line_dec. cbn [io_bind from_sched snd inner]. exact X.
Qed.

Theorem read_line_err_from_reader : forall fuel d k,
  read_line fuel d = IoErr k -> In (Fail k) (sched (second (inner d))).
Proof. intros fuel d k H. pose proof (read_line_from_sched fuel d) as X. rewrite H in X. exact X. Qed.

Lemma lines_loop_err_from_reader : forall n fuel d k,
  lines_loop n fuel d = IoErr k -> In (Fail k) (sched (second (inner d))).
Proof.
  induction n as [|n IH]; intros fuel d k H; [discriminate|]. cbn [lines_loop] in H.
  pose proof (read_line_from_sched fuel d) as X.
  destruct (read_line fuel d) as [[o d']|k'| |]; cbn [io_bind from_sched snd] in *; try discriminate.
  - destruct o as [l|]; [|discriminate].
    destruct (lines_loop n fuel d') as [ls|k'| |] eqn:Hl; cbn [io_bind] in H; try discriminate.
    inversion H; subst k'. exact (X k (IH fuel d' k Hl)).
  - inversion H; subst k'. exact X.
Qed.

(* T01e: whatever the bytes, the chunking and the reader state, an error result
   of the decode is a failure event of the schedule *)
Theorem read_all_lines_err_from_reader : forall r k,
  read_all_lines r = IoErr k -> In (Fail k) (sched r).
Proof.
  intros r k H. unfold read_all_lines, decoder_new in H.
  pose proof (read_bom_from_sched (S (S (msr r))) r []) as X.
  destruct (read_bom (S (S (msr r))) r []) as [[[e h] r']|k'| |]; cbn [io_bind from_sched snd] in *; try discriminate.
  - apply lines_loop_err_from_reader in H. cbn [inner second] in H. exact (X k H).
  - inversion H; subst k'. exact X.
Qed.

(* a reader that reports no failure gets a list of lines, for every stream,
   chunking and encoding *)
Theorem read_line_faultless_done : forall fuel d,
  faultless (sched (second (inner d))) -> (cmsr (inner d) < fuel)%nat ->
  exists o d', read_line fuel d = IoDone (o, d').
Proof.
  intros fuel d F M. pose proof (read_line_ok fuel d M) as Ok.
  destruct (read_line fuel d) as [[o d']|k| |] eqn:H; try contradiction.
  - eauto.
  - destruct (F k (read_line_err_from_reader _ _ _ H)).
Qed.

Theorem read_all_lines_faultless_done : forall r,
  faultless (sched r) -> exists ls, read_all_lines r = IoDone ls.
Proof.
  intros r F. pose proof (read_all_lines_ok r) as Ok.
  destruct (read_all_lines r) as [ls|k| |] eqn:H; try contradiction.
  - eauto.
  - destruct (F k (read_all_lines_err_from_reader _ _ H)).
Qed.

(* one step of the extra-byte loop, event by event (C09): Interrupted is
   retried, a hard failure is returned, EOF keeps the line, a byte is taken --
   from the bytes read_bom left over first, then from the reader *)
Lemma read_extra_interrupted : forall f dn rs s buf,
  read_extra (S f) (mkChain [] dn (mkReader [] rs (Interrupted :: s))) buf =
  read_extra f (mkChain [] true (mkReader [] rs s)) buf.
Proof. intros f [|] rs s buf; reflexivity. Qed.

Lemma read_extra_fail : forall f dn rs s buf k,
  read_extra (S f) (mkChain [] dn (mkReader [] rs (Fail k :: s))) buf = IoErr k.
Proof. intros f [|] rs s buf k; reflexivity. Qed.

Lemma read_extra_eof : forall f dn buf,
  read_extra (S f) (mkChain [] dn (mkReader [] [] [])) buf = IoDone (buf, mkChain [] true (mkReader [] [] [])).
Proof. intros f [|] buf; reflexivity. Qed.

Lemma read_extra_byte : forall f dn x bt rs s buf,
  read_extra (S f) (mkChain [] dn (mkReader (x :: bt) rs s)) buf =
  IoDone (buf ++ [x], mkChain [] true (mkReader bt rs s)).
Proof.
  intros f dn x bt rs s buf. rewrite read_extra_eq. cbn [done_first pending second].
  assert (H : read_extra_r (S f) (mkReader (x :: bt) rs s) buf = IoDone (buf ++ [x], mkReader bt rs s)).
  { rewrite read_extra_r_S. cbn [fill_buf buffered]. unfold consume. cbn [buffered rest sched].
    rewrite skipn_cons, skipn_O. reflexivity. }
  destruct dn; rewrite H; reflexivity.
Qed.

Lemma read_extra_pending_byte : forall f x t r buf,
  read_extra (S f) (mkChain (x :: t) false r) buf = IoDone (buf ++ [x], mkChain t false r).
Proof. intros. rewrite read_extra_eq. reflexivity. Qed.

(* the same for the loop of read_bom while it still lacks bytes *)
Lemma read_bom_interrupted : forall f rs s head, (length head < 3)%nat ->
  read_bom (S f) (mkReader [] rs (Interrupted :: s)) head = read_bom f (mkReader [] rs s) head.
Proof.
  intros f rs s head L. rewrite read_bom_unfold, min_bom_len_3.
  replace (length head <? 3)%nat with true by (symmetry; apply Nat.ltb_lt; exact L). reflexivity.
Qed.

Lemma read_bom_fail : forall f rs s head k, (length head < 3)%nat ->
  read_bom (S f) (mkReader [] rs (Fail k :: s)) head = IoErr k.
Proof.
  intros f rs s head k L. rewrite read_bom_unfold, min_bom_len_3.
  replace (length head <? 3)%nat with true by (symmetry; apply Nat.ltb_lt; exact L). reflexivity.
Qed.

End WithDecode.

(* ---------- T09c: the writer ---------- *)

Definition wev_fails (e : wev) : bool :=
  match e with WZero | WFail _ => true | _ => false end.
Definition wfault (e : wev) : io_kind :=
  match e with WFail k => k | _ => WriteZero end.

(* number of bytes a failure-free schedule prefix takes when it is offered
   enough: the sum of its accept counts *)
Fixpoint capacity (s : list wev) : nat :=
  match s with
  | [] => O
  | WAccept c :: t => (Pos.to_nat c + capacity t)%nat
  | _ :: t => capacity t
  end.

Ltac fix_count := apply f_equal; apply f_equal; lia.

Definition nofail (s : list wev) : Prop := Forall (fun e => wev_fails e = false) s.

Lemma rev_append_app : forall (l1 l2 acc : bytes),
  rev_append (l1 ++ l2) acc = rev_append l2 (rev_append l1 acc).
Proof. induction l1 as [|x t IH]; intros; cbn [app rev_append]; [reflexivity|apply IH]. Qed.

Lemma write_all_s_nil : forall s acc n, write_all_s s [] acc n = (IoDone tt, (s, acc, n)).
Proof. destruct s; reflexivity. Qed.

(* one write_all against a schedule without failing events: everything is
   taken (short writes and interruptions are retried) *)
Lemma write_all_s_nofail : forall s buf acc n, nofail s ->
  exists s' n', write_all_s s buf acc n = (IoDone tt, (s', rev_append buf acc, n')) /\ nofail s'.
Proof.
  induction s as [|e s IH]; intros buf acc n F.
  - destruct buf as [|x t]; cbn [write_all_s]; eexists _, _; split; try reflexivity; constructor.
  - destruct buf as [|x t]; [rewrite write_all_s_nil; eexists _, _; split; [reflexivity|exact F]|].
    inversion F as [|e' s' Fe Fs]; subst. cbn [write_all_s]. destruct e as [c| | |k]; try discriminate.
    + destruct (IH (skipn (Pos.to_nat c) (x :: t)) (rev_append (firstn (Pos.to_nat c) (x :: t)) acc) (S n) Fs)
        as (s1 & n1 & H & F1).
      rewrite H, <- rev_append_app, firstn_skipn. eexists _, _; split; [reflexivity|exact F1].
    + destruct (IH (x :: t) acc (S n) Fs) as (s1 & n1 & H & F1). rewrite H. eexists _, _; split; [reflexivity|exact F1].
Qed.

(* the failure-free prefix s1 cannot take all of buf: the failing event e is
   hit, nothing after it is consumed, one call per consumed event *)
Lemma write_all_s_fail : forall s1 e s2 buf acc n,
  nofail s1 -> wev_fails e = true -> (capacity s1 < length buf)%nat ->
  exists pre post, buf = pre ++ post /\
    write_all_s (s1 ++ e :: s2) buf acc n =
      (IoErr (wfault e), (s2, rev_append pre acc, (n + S (length s1))%nat)).
Proof.
  induction s1 as [|a s1 IH]; intros e s2 buf acc n F E C.
  - cbn [capacity] in C. destruct buf as [|x t]; [cbn [length] in C; lia|].
    exists [], (x :: t). split; [reflexivity|]. cbn [app write_all_s length rev_append].
    replace (n + 1)%nat with (S n) by lia. destruct e; try discriminate; reflexivity.
  - inversion F as [|a' s' Fa Fs]; subst. destruct buf as [|x t]; [cbn [length] in C; lia|].
    cbn [app write_all_s]. destruct a as [c| | |k]; try discriminate; cbn [capacity] in C.
    + assert (Lc : (Pos.to_nat c <= length (x :: t))%nat) by lia.
      destruct (IH e s2 (skipn (Pos.to_nat c) (x :: t)) (rev_append (firstn (Pos.to_nat c) (x :: t)) acc) (S n) Fs E)
        as (pre & post & Hb & H).
      { rewrite skipn_length. lia. }
      exists (firstn (Pos.to_nat c) (x :: t) ++ pre), post. split.
      * rewrite <- app_assoc, <- Hb, firstn_skipn. reflexivity.
      * rewrite H, rev_append_app. cbn [length]. fix_count.
    + destruct (IH e s2 (x :: t) acc (S n) Fs E C) as (pre & post & Hb & H).
      exists pre, post. split; [exact Hb|]. rewrite H. cbn [length]. fix_count.
Qed.

(* the failure-free prefix can take all of buf: it does, and what is left of
   the prefix has lost at least length buf of its capacity *)
Lemma write_all_s_ok : forall s1 e s2 buf acc n,
  nofail s1 -> (length buf <= capacity s1)%nat ->
  exists s1a s1b, s1 = s1a ++ s1b /\ nofail s1b /\
    (capacity s1b + length buf <= capacity s1)%nat /\
    write_all_s (s1 ++ e :: s2) buf acc n =
      (IoDone tt, (s1b ++ e :: s2, rev_append buf acc, (n + length s1a)%nat)).
Proof.
  induction s1 as [|a s1 IH]; intros e s2 buf acc n F C.
  - cbn [capacity] in C. destruct buf as [|x t]; [|cbn [length] in C; lia].
    exists [], []. cbn [app length capacity rev_append]. rewrite write_all_s_nil. repeat split; auto; try lia; try fix_count.
  - destruct buf as [|x t].
    + exists [], (a :: s1). cbn [app length rev_append]. rewrite write_all_s_nil. repeat split; auto; try lia; try fix_count.
    + inversion F as [|a' s' Fa Fs]; subst. cbn [app write_all_s].
      destruct a as [c| | |k]; try discriminate; cbn [capacity] in C.
      * destruct (IH e s2 (skipn (Pos.to_nat c) (x :: t)) (rev_append (firstn (Pos.to_nat c) (x :: t)) acc) (S n) Fs)
          as (s1a & s1b & Hs & Fb & Cb & H).
        { rewrite skipn_length. lia. }
        exists (WAccept c :: s1a), s1b. rewrite Hs. repeat split; auto.
        -- rewrite skipn_length in Cb. cbn [capacity]. rewrite <- Hs. lia.
        -- rewrite <- Hs, H, <- rev_append_app, firstn_skipn. cbn [length]. fix_count.
      * destruct (IH e s2 (x :: t) acc (S n) Fs C) as (s1a & s1b & Hs & Fb & Cb & H).
        exists (WInterrupted :: s1a), s1b. rewrite Hs. repeat split; auto.
        -- cbn [capacity]. rewrite <- Hs. lia.
        -- rewrite <- Hs, H. cbn [length]. fix_count.
Qed.

Definition is_prefix_of (p l : bytes) : Prop := exists q, l = p ++ q.

(* T09c (i): the writer fails, or stops accepting data (Ok(0)), before all of
   concat ws has been taken: the error is returned (WriteZero for Ok(0)), no
   call is issued after the failure -- the schedule behind it is untouched and
   there was exactly one call per consumed event --, flush is not reached, and
   what was taken is a prefix of the output *)
Lemma write_chunks_fail : forall ws s1 e s2 fl acc n,
  nofail s1 -> wev_fails e = true -> (capacity s1 < length (concat ws))%nat ->
  exists pre, is_prefix_of pre (concat ws) /\
    write_chunks ws (mkWriter (s1 ++ e :: s2) fl acc n) =
      (IoErr (wfault e), mkWriter s2 fl (rev_append pre acc) (n + S (length s1))%nat).
Proof.
  induction ws as [|c ws IH]; intros s1 e s2 fl acc n F E C; [cbn [concat length] in C; lia|].
  cbn [concat] in C. rewrite app_length in C. cbn [write_chunks]. unfold write_all. cbn [wsched accepted_rev calls flush_result].
  destruct (Nat.ltb (capacity s1) (length c)) eqn:Hc.
  - apply Nat.ltb_lt in Hc. destruct (write_all_s_fail s1 e s2 c acc n F E Hc) as (pre & post & Hb & H).
    rewrite H. exists pre. split; [|reflexivity]. exists (post ++ concat ws). cbn [concat]. rewrite Hb, <- app_assoc. reflexivity.
  - apply Nat.ltb_ge in Hc. destruct (write_all_s_ok s1 e s2 c acc n F Hc) as (s1a & s1b & Hs & Fb & Cb & H).
    rewrite H. destruct (IH s1b e s2 fl (rev_append c acc) (n + length s1a)%nat Fb E) as (pre & (q & Hq) & H2); [lia|].
    rewrite H2. exists (c ++ pre). split.
    + exists q. cbn [concat]. rewrite Hq, app_assoc. reflexivity.
    + rewrite rev_append_app, Hs, app_length. fix_count.
Qed.

Theorem encode_writes_fail : forall ws s1 e s2 fl,
  nofail s1 -> wev_fails e = true -> (capacity s1 < length (concat ws))%nat ->
  exists w', encode_writes ws (mkWriter (s1 ++ e :: s2) fl [] 0) = (IoErr (wfault e), w') /\
    wsched w' = s2 /\ calls w' = S (length s1) /\ is_prefix_of (accepted w') (concat ws).
Proof.
  intros ws s1 e s2 fl F E C. unfold encode_writes.
  destruct (write_chunks_fail ws s1 e s2 fl [] 0 F E C) as (pre & P & H). rewrite H.
  eexists; split; [reflexivity|]. cbn [wsched calls]. repeat split.
  unfold accepted. cbn [accepted_rev]. rewrite rev_append_rev, app_nil_r, rev_involutive. exact P.
Qed.

(* T09c (ii): short writes and interruptions only: everything arrives, then
   the result of flush is the result *)
Lemma write_chunks_nofail : forall ws s fl acc n, nofail s ->
  exists s' n', write_chunks ws (mkWriter s fl acc n) =
    (IoDone tt, mkWriter s' fl (rev_append (concat ws) acc) n') /\ nofail s'.
Proof.
  induction ws as [|c ws IH]; intros s fl acc n F.
  - cbn [write_chunks concat rev_append]. eexists _, _; split; [reflexivity|exact F].
  - cbn [write_chunks]. unfold write_all. cbn [wsched accepted_rev calls flush_result].
    destruct (write_all_s_nofail s c acc n F) as (s1 & n1 & H & F1). rewrite H.
    destruct (IH s1 fl (rev_append c acc) n1 F1) as (s2 & n2 & H2 & F2). rewrite H2.
    cbn [concat]. rewrite rev_append_app. eexists _, _; split; [reflexivity|exact F2].
Qed.

Theorem encode_writes_nofail : forall ws s fl, nofail s ->
  exists w', encode_writes ws (mkWriter s fl [] 0) =
    (match fl with None => IoDone tt | Some k => IoErr k end, w') /\ accepted w' = concat ws.
Proof.
  intros ws s fl F. unfold encode_writes.
  destruct (write_chunks_nofail ws s fl [] 0 F) as (s' & n' & H & _). rewrite H.
  eexists; split; [unfold flush; cbn [flush_result]; reflexivity|].
  unfold accepted. cbn [accepted_rev]. rewrite rev_append_rev, app_nil_r, rev_involutive. reflexivity.
Qed.

(* T09c (iii): never a panic or a stuck loop *)
Lemma write_all_s_ok_or_err : forall s buf acc n, io_ok (fst (write_all_s s buf acc n)).
Proof.
  induction s as [|e s IH]; intros buf acc n; destruct buf as [|x t]; cbn [write_all_s fst]; try exact I.
  destruct e; cbn [fst]; try exact I; apply IH.
Qed.

Theorem encode_writes_ok_or_err : forall ws w, io_ok (fst (encode_writes ws w)).
Proof.
  intros ws w. unfold encode_writes.
  assert (H : forall ws w, io_ok (fst (write_chunks ws w))).
  { induction ws0 as [|c ws0 IH]; intros w0; cbn [write_chunks fst]; [exact I|].
    unfold write_all. pose proof (write_all_s_ok_or_err (wsched w0) c (accepted_rev w0) (calls w0)) as X.
    destruct (write_all_s (wsched w0) c (accepted_rev w0) (calls w0)) as [res [[s a] n]]. cbn [fst] in X.
    destruct res; try contradiction; cbn [fst]; try exact I. apply IH. }
  specialize (H ws w). destruct (write_chunks ws w) as [res w']. cbn [fst] in *.
  destruct res; try contradiction; cbn [fst]; try exact I. unfold flush. destruct (flush_result w'); exact I.
Qed.

(* HausdorffArc: T17e for the circular arc, in exact (real) arithmetic.

   The sub-point count and the arc points of the model are written once over
   abstract operations ([arc_sub_points_g], [arc_point_g]); the model is the
   IEEE instance (by reflexivity), the theorems are about the real instance
   with Coq's own cos / sin / acos.

   Result.  The source takes  n = max(ceil(range / (2 acos(1 - tol/r))), 2)
   VERTICES, i.e. n - 1 chords, so the angle per chord is range / (n - 1),
   which may be up to TWICE the angle 2 acos(1 - tol/r) that meets the
   tolerance: the sagitta is bounded by  4 tol - 2 tol^2 / r  <  4 tol = 0.4,
   not by tol = 0.1 (and 0.38 is reached: [arc_tolerance_not_met]).
   Two-sided Hausdorff bound 4 * tol between the emitted polyline and the arc
   { centre + r (cos th, sin th) : th = theta_start + f * dir * range, 0<=f<=1 }. *)
From RM Require Import Model.ControlPoints Model.Curve Gen.Generated Proofs.ArcExact Proofs.HausdorffPlane.
From Coq Require Import Reals Lra Lia Psatz.
From Flocq Require Import Raux.
Open Scope R_scope.

(* ---------- points of a circle ---------- *)

Section Circle.
  Variables X Y r : R.

  (* centre + (cos, sin) * radius, with the formula of the model (arc_coord_g) *)
  Definition cpt (th : R) : R * R := (arc_coord_R X (cos th) r, arc_coord_R Y (sin th) r).

  Lemma cpt_on_circle th : sqd2 (cpt th) (X, Y) = r ^ 2.
  Proof.
    unfold sqd2, cpt. cbn [fst snd]. apply arc_point_on_circle.
    pose proof (sin2_cos2 th) as H. unfold Rsqr in H. lra.
  Qed.

  (* a chord point and the arc point with the same offset along the chord *)
  Lemma chord_sqd mu h psi s :
    sin psi = (2 * s - 1) * sin h ->
    sqd2 (lerp2 (cpt (mu - h)) (cpt (mu + h)) s) (cpt (mu + psi)) = (r * (cos psi - cos h)) ^ 2.
  Proof.
    intros Hs. unfold sqd2, sqd, lerp2, cpt, arc_coord_R, arc_coord_g. cbn [fst snd].
    rewrite cos_minus, !cos_plus, sin_minus, !sin_plus. rewrite Hs.
    transitivity ((r * (cos psi - cos h)) ^ 2 * (Rsqr (sin mu) + Rsqr (cos mu))).
    - unfold Rsqr. ring.
    - rewrite sin2_cos2. ring.
  Qed.

  Lemma circle_sqd a b : sqd2 (cpt a) (cpt b) = r ^ 2 * (2 - 2 * cos (a - b)).
  Proof.
    unfold sqd2, sqd, cpt, arc_coord_R, arc_coord_g. cbn [fst snd]. rewrite cos_minus.
    transitivity (r ^ 2 * ((Rsqr (sin a) + Rsqr (cos a)) + (Rsqr (sin b) + Rsqr (cos b))
                           - 2 * (cos a * cos b + sin a * sin b))).
    - unfold Rsqr. ring.
    - rewrite !sin2_cos2. ring.
  Qed.

  Lemma cos_between H psi : 0 <= H <= PI -> - H <= psi <= H -> cos H <= cos psi <= 1.
  Proof.
    intros HH Hp. split; [|apply COS_bound].
    destruct (Rle_dec 0 psi) as [Hs|Hs].
    - apply cos_decr_1; lra.
    - rewrite <- (cos_neg psi). apply cos_decr_1; lra.
  Qed.

  Lemma sq_le_sq a b : 0 <= a <= b -> a ^ 2 <= b ^ 2.
  Proof. intros. nra. Qed.

  (* every chord point is within the sagitta of an arc point *)
  Lemma chord_to_arc mu H s :
    0 <= r -> 0 <= H <= PI -> 0 <= s <= 1 ->
    exists psi, - H <= psi <= H /\
      sqd2 (lerp2 (cpt (mu - H)) (cpt (mu + H)) s) (cpt (mu + psi)) <= (r * (1 - cos H)) ^ 2.
  Proof.
    intros Hr HH Hs.
    assert (HsH : 0 <= sin H) by (apply sin_ge_0; lra).
    assert (HsH1 : sin H <= 1) by apply SIN_bound.
    set (y := (2 * s - 1) * sin H).
    assert (Hy : - sin H <= y <= sin H) by (unfold y; split; nra).
    assert (Hy1 : -1 <= y <= 1) by lra.
    pose proof (asin_bound y) as Hab.
    pose proof (sin_asin y Hy1) as Hsa.
    exists (asin y). assert (Hpsi : - H <= asin y <= H).
    { destruct (Rle_dec (PI / 2) H) as [Hb|Hb]; [lra|].
      split.
      - apply sin_incr_0; try lra. rewrite sin_neg, Hsa. lra.
      - apply sin_incr_0; try lra. }
    split; [exact Hpsi|].
    rewrite (chord_sqd mu H (asin y) s Hsa).
    pose proof (cos_between H (asin y) HH Hpsi) as Hc.
    apply sq_le_sq. split; [|]; nra.
  Qed.

  (* pure trigonometry for the far end of a chord spanning more than PI *)
  Lemma far_end H a :
    0 <= H <= PI -> 0 <= a <= H -> sin H < sin a ->
    2 - 2 * cos (H - a) <= (1 - cos H) ^ 2.
  Proof.
    intros HH Ha Hsin.
    assert (H1 : PI / 2 < H).
    { destruct (Rlt_dec (PI / 2) H) as [|Hn]; [assumption|]. exfalso.
      assert (sin a <= sin H) by (apply sin_incr_1; lra). lra. }
    assert (H2 : PI - H < a).
    { destruct (Rlt_dec (PI - H) a) as [|Hn]; [assumption|]. exfalso.
      assert (sin a <= sin (PI - H)) by (apply sin_incr_1; lra).
      rewrite sin_PI_x in H0. lra. }
    assert (Hc : cos (2 * H - PI) <= cos (H - a)) by (apply cos_decr_1; lra).
    assert (E : cos (2 * H - PI) = 1 - 2 * cos H * cos H).
    { rewrite cos_minus, cos_PI, sin_PI, cos_2a_cos. ring. }
    rewrite E in Hc.
    assert (Hn : cos H <= 0) by (apply cos_le_0; lra).
    pose proof (COS_bound H) as Hb. nra.
  Qed.

  (* every arc point is within the sagitta of a chord point *)
  Lemma arc_to_chord mu H psi :
    0 <= r -> 0 <= H <= PI -> - H <= psi <= H ->
    exists s, 0 <= s <= 1 /\
      sqd2 (cpt (mu + psi)) (lerp2 (cpt (mu - H)) (cpt (mu + H)) s) <= (r * (1 - cos H)) ^ 2.
  Proof.
    intros Hr HH Hp.
    assert (HsH : 0 <= sin H) by (apply sin_ge_0; lra).
    pose proof (COS_bound H) as HcH.
    assert (Hr2 : 0 <= r ^ 2) by nra.
    destruct (Rlt_dec (sin H) (sin psi)) as [Hbig|Hbig].
    { (* beyond the end mu + H *)
      assert (Hpos : 0 <= psi).
      { destruct (Rle_dec 0 psi) as [|Hn]; [assumption|]. exfalso.
        assert (0 <= sin (- psi)) by (apply sin_ge_0; lra). rewrite sin_neg in H0. lra. }
      exists 1. split; [lra|]. rewrite lerp2_1, circle_sqd.
      replace (mu + psi - (mu + H)) with (- (H - psi)) by ring. rewrite cos_neg.
      pose proof (far_end H psi HH (conj Hpos (proj2 Hp)) Hbig) as Hf.
      replace ((r * (1 - cos H)) ^ 2) with (r ^ 2 * (1 - cos H) ^ 2) by ring.
      apply Rmult_le_compat_l; assumption. }
    destruct (Rlt_dec (sin psi) (- sin H)) as [Hsmall|Hsmall].
    { (* beyond the end mu - H *)
      assert (Hneg : psi <= 0).
      { destruct (Rle_dec psi 0) as [|Hn]; [assumption|]. exfalso.
        assert (0 <= sin psi) by (apply sin_ge_0; lra). lra. }
      exists 0. split; [lra|]. rewrite lerp2_0, circle_sqd.
      replace (mu + psi - (mu - H)) with (H - - psi) by ring.
      assert (Hs' : sin H < sin (- psi)) by (rewrite sin_neg; lra).
      pose proof (far_end H (- psi) HH ltac:(lra) Hs') as Hf.
      replace ((r * (1 - cos H)) ^ 2) with (r ^ 2 * (1 - cos H) ^ 2) by ring.
      apply Rmult_le_compat_l; assumption. }
    (* the foot of the perpendicular lies on the chord *)
    assert (Hmid : - sin H <= sin psi <= sin H) by lra.
    pose proof (cos_between H psi HH Hp) as Hc.
    destruct (Req_dec (sin H) 0) as [Hz|Hnz].
    - exists (1 / 2). split; [lra|]. rewrite sqd2_sym.
      rewrite (chord_sqd mu H psi (1 / 2)) by (rewrite Hz in *; lra).
      apply sq_le_sq. split; nra.
    - exists ((1 + sin psi / sin H) / 2).
      assert (Hq : -1 <= sin psi / sin H <= 1).
      { assert (0 < sin H) by lra. split.
        - apply Rmult_le_reg_r with (sin H); [assumption|]. unfold Rdiv. rewrite Rmult_assoc, Rinv_l by assumption. lra.
        - apply Rmult_le_reg_r with (sin H); [assumption|]. unfold Rdiv. rewrite Rmult_assoc, Rinv_l by assumption. lra. }
      split; [lra|]. rewrite sqd2_sym.
      rewrite (chord_sqd mu H psi ((1 + sin psi / sin H) / 2)) by (field; assumption).
      apply sq_le_sq. split; nra.
  Qed.

  (* the same for a signed half-angle hs (the arc is run through in the
     direction of hs); arc points of the chord's sector are mu + k hs, -1<=k<=1 *)
  Lemma chord_to_arc_signed mu hs s :
    0 <= r -> - PI <= hs <= PI -> 0 <= s <= 1 ->
    exists k, -1 <= k <= 1 /\
      sqd2 (lerp2 (cpt (mu - hs)) (cpt (mu + hs)) s) (cpt (mu + k * hs)) <= (r * (1 - cos hs)) ^ 2.
  Proof.
    intros Hr Hh Hs. destruct (Rle_dec 0 hs) as [Hp|Hn].
    - destruct (chord_to_arc mu hs s Hr ltac:(lra) Hs) as (psi & Hpsi & Hb).
      destruct (Req_dec hs 0) as [Hz|Hnz].
      + exists 0. split; [lra|]. replace (mu + 0 * hs) with (mu + psi) by lra. exact Hb.
      + exists (psi / hs). assert (0 < hs) by lra. split.
        * split; (apply Rmult_le_reg_r with hs; [assumption|]); unfold Rdiv; rewrite Rmult_assoc, Rinv_l by assumption; lra.
        * replace (mu + psi / hs * hs) with (mu + psi) by (field; assumption). exact Hb.
    - assert (Hneg : hs < 0) by lra.
      destruct (chord_to_arc mu (- hs) (1 - s) Hr ltac:(lra) ltac:(lra)) as (psi & Hpsi & Hb).
      rewrite cos_neg in Hb.
      replace (mu - - hs) with (mu + hs) in Hb by ring.
      replace (mu + - hs) with (mu - hs) in Hb by ring.
      rewrite <- lerp2_swap in Hb.
      exists (psi / hs). split.
      + assert (Hq : psi / hs = (- psi) / (- hs)) by (field; lra). rewrite Hq.
        assert (0 < - hs) by lra.
        split; (apply Rmult_le_reg_r with (- hs); [assumption|]); unfold Rdiv; rewrite Rmult_assoc, Rinv_l by lra; lra.
      + replace (mu + psi / hs * hs) with (mu + psi) by (field; lra). exact Hb.
  Qed.

  Lemma arc_to_chord_signed mu hs k :
    0 <= r -> - PI <= hs <= PI -> -1 <= k <= 1 ->
    exists s, 0 <= s <= 1 /\
      sqd2 (cpt (mu + k * hs)) (lerp2 (cpt (mu - hs)) (cpt (mu + hs)) s) <= (r * (1 - cos hs)) ^ 2.
  Proof.
    intros Hr Hh Hk. destruct (Rle_dec 0 hs) as [Hp|Hn].
    - apply arc_to_chord; try lra. split; nra.
    - destruct (arc_to_chord mu (- hs) (k * hs) Hr ltac:(lra) ltac:(split; nra)) as (s & Hs & Hb).
      rewrite cos_neg in Hb.
      replace (mu - - hs) with (mu + hs) in Hb by ring.
      replace (mu + - hs) with (mu - hs) in Hb by ring.
      rewrite lerp2_swap in Hb.
      exists (1 - s). split; [lra|exact Hb].
  Qed.

  (* the middle of a chord of half-angle h (cos h >= 0) is at least the
     sagitta away from EVERY point of the circle *)
  Lemma chord_mid_far mu h th :
    0 <= cos h ->
    (r * (1 - cos h)) ^ 2 <= sqd2 (lerp2 (cpt (mu - h)) (cpt (mu + h)) (1 / 2)) (cpt th).
  Proof.
    intros Hc.
    assert (E : sqd2 (lerp2 (cpt (mu - h)) (cpt (mu + h)) (1 / 2)) (cpt th) =
                r ^ 2 * (cos h ^ 2 * (Rsqr (sin mu) + Rsqr (cos mu)) - 2 * cos h * cos (mu - th)
                         + (Rsqr (sin th) + Rsqr (cos th)))).
    { unfold sqd2, sqd, lerp2, cpt, arc_coord_R, arc_coord_g. cbn [fst snd].
      rewrite !cos_minus, !cos_plus, sin_minus, !sin_plus. unfold Rsqr. field. }
    rewrite E, !sin2_cos2. pose proof (COS_bound (mu - th)) as Hb.
    assert (H0 : 0 <= r ^ 2 * (2 * cos h * (1 - cos (mu - th)))).
    { apply Rmult_le_pos; [apply pow2_ge_0|]. apply Rmult_le_pos; lra. }
    lra.
  Qed.
End Circle.

(* ---------- the tolerance and the sagitta ---------- *)

Definition arc_tol_R : R := dec_R circular_arc_tolerance_dec.

Lemma arc_tol_value : arc_tol_R = 1 / 10.
Proof. unfold arc_tol_R, dec_R, circular_arc_tolerance_dec. cbn. change (Pos.to_nat 1) with 1%nat. field. Qed.

(* h = half the angle of one chord.  Either the circle is tiny (2 r <= tol) or
   h is at most twice the half-angle acos(1 - tol/r) that meets the tolerance *)
Lemma sagitta_bound r h :
  0 < r -> 0 <= h <= PI ->
  (2 * r <= arc_tol_R \/ (arc_tol_R < 2 * r /\ h <= 2 * acos (1 - arc_tol_R / r))) ->
  0 <= r * (1 - cos h) <= 4 * arc_tol_R.
Proof.
  intros Hr Hh Hcase. pose proof (COS_bound h) as Hc. rewrite arc_tol_value in *.
  split; [nra|].
  destruct Hcase as [Htiny|[Hbig Hle]]; [nra|].
  set (u := 1 / 10 / r) in *.
  assert (Hu : r * u = 1 / 10) by (unfold u; field; lra).
  assert (Hu0 : 0 < u) by (unfold u; apply Rdiv_lt_0_compat; lra).
  assert (Hu2 : u < 2) by nra.
  pose proof (acos_bound (1 - u)) as Hab.
  pose proof (cos_acos (1 - u) ltac:(lra)) as Hca.
  destruct (Rle_dec (2 * acos (1 - u)) PI) as [Hs|Hs].
  - assert (Hcos : cos (2 * acos (1 - u)) <= cos h) by (apply cos_decr_1; lra).
    rewrite cos_2a_cos, Hca in Hcos. nra.
  - assert (Hneg : cos (acos (1 - u)) <= 0) by (apply cos_le_0; lra).
    rewrite Hca in Hneg. nra.
Qed.

(* what the comment in the source intends: with the angle per chord at most
   2 acos(1 - tol/r) the sagitta is at most tol *)
Lemma sagitta_intended r h :
  0 < r -> arc_tol_R < 2 * r -> 0 <= h <= acos (1 - arc_tol_R / r) ->
  0 <= r * (1 - cos h) <= arc_tol_R.
Proof.
  intros Hr Hbig Hh. pose proof (COS_bound h) as Hc. rewrite arc_tol_value in *.
  split; [nra|].
  set (u := 1 / 10 / r) in *.
  assert (Hu : r * u = 1 / 10) by (unfold u; field; lra).
  assert (Hu0 : 0 < u) by (unfold u; apply Rdiv_lt_0_compat; lra).
  assert (Hu2 : u < 2) by nra.
  pose proof (acos_bound (1 - u)) as Hab.
  pose proof (cos_acos (1 - u) ltac:(lra)) as Hca.
  assert (Hcos : cos (acos (1 - u)) <= cos h) by (apply cos_decr_1; lra).
  rewrite Hca in Hcos. nra.
Qed.

(* ---------- the routine, written once ---------- *)

Section SubPointsG.
  Context {T32 T64 : Type}.
  Variables (le32 : T32 -> T32 -> bool) (mul32 sub32 div32 : T32 -> T32 -> T32) (abs32 acosf : T32 -> T32)
            (two one tol eps : T32) (conv : T32 -> T64) (div64 : T64 -> T64 -> T64) (ceil_usize : T64 -> Z).
  Definition arc_sub_points_g (radius : T32) (range : T64) : Z :=
    if le32 (mul32 two radius) tol then 2%Z
    else
      let divisor := mul32 two (acosf (sub32 one (div32 tol radius))) in
      if le32 (abs32 divisor) eps then 2%Z
      else Z.max (ceil_usize (div64 range (conv divisor))) 2.
End SubPointsG.

Lemma model_arc_sub_points lm pr :
  arc_sub_points lm pr =
  arc_sub_points_g S.le S.mul S.sub S.div S.abs (l_acosf lm) s2 S.one circular_arc_tolerance S.eps
                   f64_of_f32 D.div (fun x => f64_as_usize (D.ceil x)) (a_radius pr) (a_theta_range pr).
Proof. reflexivity. Qed.

Section ArcPointG.
  Context {T32 T64 : Type}.
  Variables (of_nat64 : nat -> T64) (add64 mul64 div64 : T64 -> T64 -> T64) (cosf sinf : T64 -> T64)
            (conv : T64 -> T32) (add32 mul32 : T32 -> T32 -> T32).
  Definition arc_point_g (cx cy r : T32) (ts divisor directed : T64) (i : nat) : T32 * T32 :=
    let fract := div64 (of_nat64 i) divisor in
    let theta := add64 ts (mul64 fract directed) in
    (arc_coord_g conv add32 mul32 cx (cosf theta) r, arc_coord_g conv add32 mul32 cy (sinf theta) r).
  Definition arc_path_g (of_Z64 : Z -> T64) (cx cy r : T32) (ts dir range : T64) (n : Z) : list (T32 * T32) :=
    map (arc_point_g cx cy r ts (of_Z64 (n - 1)%Z) (mul64 dir range)) (seq 0 (Z.to_nat n)).
End ArcPointG.

Definition pos_of (q : F32 * F32) : Pos := mkPos (fst q) (snd q).

Lemma model_arc_point_g lm pr divisor directed i :
  arc_point lm pr divisor directed i =
  pos_of (arc_point_g (fun k => D.of_Z (Z.of_nat k)) D.add D.mul D.div (l_cos lm) (l_sin lm) f32_of_f64 S.add S.mul
                      (px (a_centre pr)) (py (a_centre pr)) (a_radius pr) (a_theta_start pr) divisor directed i).
Proof. reflexivity. Qed.

(* the arc emitted by approximate_circular_arc is the generic path *)
Lemma model_arc_path lm a b c pr :
  circular_arc_properties lm a b c = Done (Some pr) ->
  (arc_subpoint_cap <=? arc_sub_points lm pr)%Z = false ->
  approximate_circular_arc lm a b c =
  Done (Some (map pos_of
    (arc_path_g (fun k => D.of_Z (Z.of_nat k)) D.add D.mul D.div (l_cos lm) (l_sin lm) f32_of_f64 S.add S.mul D.of_Z
                (px (a_centre pr)) (py (a_centre pr)) (a_radius pr) (a_theta_start pr)
                (a_direction pr) (a_theta_range pr) (arc_sub_points lm pr)))).
Proof.
  intros Hp Hcap. unfold approximate_circular_arc. rewrite Hp. cbn [obind]. rewrite Hcap.
  unfold arc_path_g. rewrite map_map. reflexivity.
Qed.

(* ---------- the real instance ---------- *)

Definition Rleb (x y : R) : bool := if Rle_dec x y then true else false.

(* "as usize" of a real: saturating *)
Definition usize_of_R (x : R) : Z := Z.max 0 (Z.min (2 ^ 64 - 1) (Zceil x)).

Definition arc_sub_points_R (eps r range : R) : Z :=
  arc_sub_points_g Rleb Rmult Rminus Rdiv Rabs acos 2 1 arc_tol_R eps (fun x => x) Rdiv usize_of_R r range.

Definition arc_path_R (X Y r ts dir range : R) (n : Z) : list (R * R) :=
  arc_path_g INR Rplus Rmult Rdiv cos sin (fun x => x) Rplus Rmult IZR X Y r ts dir range n.

Lemma arc_path_R_nth X Y r ts dir range n i :
  (i < Z.to_nat n)%nat ->
  nth i (arc_path_R X Y r ts dir range n) (0, 0) = cpt X Y r (ts + INR i / IZR (n - 1) * (dir * range)).
Proof.
  intros Hi. unfold arc_path_R, arc_path_g.
  rewrite (nth_indep _ (0, 0) (arc_point_g INR Rplus Rmult Rdiv cos sin (fun x => x) Rplus Rmult X Y r ts (IZR (n - 1)) (dir * range) 0%nat))
    by (rewrite map_length, seq_length; exact Hi).
  rewrite map_nth, seq_nth by exact Hi. reflexivity.
Qed.

Lemma arc_path_R_length X Y r ts dir range n : length (arc_path_R X Y r ts dir range n) = Z.to_nat n.
Proof. unfold arc_path_R, arc_path_g. rewrite map_length, seq_length. reflexivity. Qed.

(* the count: at least 2; when the arc is emitted (count below the cap) and the
   "(int)Infinity" branch is not the one taken, range / (n - 1) is at most
   twice the angle 2 acos(1 - tol/r) *)
Lemma arc_sub_points_R_spec eps r range :
  0 < r -> 0 <= range -> 0 <= eps ->
  let n := arc_sub_points_R eps r range in
  (n < arc_subpoint_cap)%Z ->
  (arc_tol_R < 2 * r -> eps < 2 * acos (1 - arc_tol_R / r)) ->
  (2 <= n)%Z /\
  (2 * r <= arc_tol_R \/
   (arc_tol_R < 2 * r /\ range / (2 * IZR (n - 1)) <= 2 * acos (1 - arc_tol_R / r))).
Proof.
  intros Hr Hrange Heps n Hcap Hbr. subst n. revert Hcap.
  unfold arc_sub_points_R, arc_sub_points_g, Rleb.
  destruct (Rle_dec (2 * r) arc_tol_R) as [Ht|Ht].
  - intros _. split; [lia|]. left. exact Ht.
  - assert (Hbig : arc_tol_R < 2 * r) by lra. specialize (Hbr Hbig).
    set (dv := 2 * acos (1 - arc_tol_R / r)) in *.
    destruct (Rle_dec (Rabs dv) eps) as [He|He].
    { exfalso. pose proof (Rle_abs dv). lra. }
    intros Hcap. unfold arc_subpoint_cap in Hcap.
    set (c := Zceil (range / dv)) in *.
    assert (Hn2 : (2 <= Z.max (usize_of_R (range / dv)) 2)%Z) by lia.
    split; [exact Hn2|]. right. split; [exact Hbig|].
    set (n := Z.max (usize_of_R (range / dv)) 2) in *.
    assert (Hc : (c <= n)%Z).
    { subst n. unfold usize_of_R in *. fold c in Hcap |- *. lia. }
    assert (Hdv : 0 < dv) by lra.
    assert (Hq : range / dv <= IZR n).
    { apply Rle_trans with (IZR c); [apply Zceil_ub|apply IZR_le; exact Hc]. }
    assert (Hn1 : 1 <= IZR (n - 1)) by (apply IZR_le; lia).
    assert (Hnn : IZR n <= 2 * IZR (n - 1)).
    { rewrite minus_IZR. assert (2 <= IZR n) by (apply IZR_le; lia). lra. }
    assert (Hrd : range <= IZR n * dv).
    { apply Rmult_le_reg_r with (/ dv); [apply Rinv_0_lt_compat; exact Hdv|].
      rewrite Rmult_assoc, Rinv_r by lra. unfold Rdiv in Hq. lra. }
    apply Rmult_le_reg_r with (2 * IZR (n - 1)); [lra|].
    unfold Rdiv. rewrite Rmult_assoc, Rinv_l by lra. nra.
Qed.

(* ---------- T17e for the arc ---------- *)

Section ArcHausdorff.
  Variables X Y r ts dir range eps : R.
  Hypothesis Hr : 0 < r.
  Hypothesis Hrange : 0 <= range <= 2 * PI.
  Hypothesis Hdir : dir = 1 \/ dir = -1.
  Hypothesis Heps : 0 <= eps.

  Let n := arc_sub_points_R eps r range.
  Let path := arc_path_R X Y r ts dir range n.
  (* the exact arc, run through by the fraction f in [0, 1] *)
  Definition arc_at (f : R) : R * R := cpt X Y r (ts + f * (dir * range)).

  Hypothesis Hcap : (n < arc_subpoint_cap)%Z.
  Hypothesis Hbranch : arc_tol_R < 2 * r -> eps < 2 * acos (1 - arc_tol_R / r).

  Let N := IZR (n - 1).
  Let hs := dir * range / (2 * N).

  Lemma n_ge_2 : (2 <= n)%Z.
  Proof. exact (proj1 (arc_sub_points_R_spec eps r range Hr (proj1 Hrange) Heps Hcap Hbranch)). Qed.

  Lemma N_ge_1 : 1 <= N.
  Proof. unfold N. apply IZR_le. pose proof n_ge_2. lia. Qed.

  Lemma hs_range : - PI <= hs <= PI.
  Proof.
    pose proof N_ge_1 as HN. unfold hs.
    assert (Hq : 0 <= range / (2 * N) <= PI).
    { split.
      - apply Rmult_le_pos; [lra|]. apply Rlt_le, Rinv_0_lt_compat. lra.
      - apply Rmult_le_reg_r with (2 * N); [lra|]. unfold Rdiv. rewrite Rmult_assoc, Rinv_l by lra. nra. }
    destruct Hdir as [-> | ->].
    - replace (1 * range / (2 * N)) with (range / (2 * N)) by (field; lra). lra.
    - replace (-1 * range / (2 * N)) with (- (range / (2 * N))) by (field; lra). lra.
  Qed.

  Lemma cos_hs : cos hs = cos (range / (2 * N)).
  Proof.
    pose proof N_ge_1 as HN. unfold hs. destruct Hdir as [-> | ->].
    - f_equal. field. lra.
    - replace (-1 * range / (2 * N)) with (- (range / (2 * N))) by (field; lra). apply cos_neg.
  Qed.

  Lemma sagitta_4tol : 0 <= r * (1 - cos hs) <= 4 * arc_tol_R.
  Proof.
    pose proof N_ge_1 as HN. rewrite cos_hs. apply sagitta_bound; [exact Hr| |].
    - split.
      + apply Rmult_le_pos; [lra|]. apply Rlt_le, Rinv_0_lt_compat. lra.
      + apply Rmult_le_reg_r with (2 * N); [lra|]. unfold Rdiv. rewrite Rmult_assoc, Rinv_l by lra. nra.
    - exact (proj2 (arc_sub_points_R_spec eps r range Hr (proj1 Hrange) Heps Hcap Hbranch)).
  Qed.

  (* vertex i is the arc point of fraction i / (n - 1) *)
  Lemma vertex_on_arc i : (i < Z.to_nat n)%nat ->
    nth i path (0, 0) = arc_at (INR i / N) /\ 0 <= INR i / N <= 1.
  Proof.
    intros Hi. split; [apply arc_path_R_nth; exact Hi|].
    pose proof N_ge_1 as HN. pose proof (pos_INR i) as Hpos.
    assert (Hle : INR i <= N).
    { unfold N. rewrite <- (Z2Nat.id (n - 1)) by (pose proof n_ge_2; lia).
      rewrite <- INR_IZR_INZ. apply le_INR. lia. }
    split.
    - apply Rmult_le_pos; [lra|]. apply Rlt_le, Rinv_0_lt_compat. lra.
    - apply Rmult_le_reg_r with N; [lra|]. unfold Rdiv. rewrite Rmult_assoc, Rinv_l by lra. lra.
  Qed.

  (* chord i runs from mu - hs to mu + hs with mu = ts + (2 i + 1) hs *)
  Lemma chord_ends i :
    ts + INR i / N * (dir * range) = ts + (2 * INR i + 1) * hs - hs /\
    ts + INR (S i) / N * (dir * range) = ts + (2 * INR i + 1) * hs + hs.
  Proof.
    pose proof N_ge_1 as HN. rewrite S_INR. unfold hs. split; field; lra.
  Qed.

  Lemma sector_point i k :
    ts + (2 * INR i + 1) * hs + k * hs = ts + ((2 * INR i + 1 + k) / (2 * N)) * (dir * range).
  Proof. pose proof N_ge_1 as HN. unfold hs. field. lra. Qed.

  Theorem arc_hausdorff :
    length path = Z.to_nat n /\ (2 <= n)%Z /\
    (* every vertex is a point of the arc *)
    (forall i, (i < Z.to_nat n)%nat -> exists f, 0 <= f <= 1 /\ nth i path (0, 0) = arc_at f) /\
    (* every point of every chord is within 4 tol of the arc *)
    (forall i s, (S i < Z.to_nat n)%nat -> 0 <= s <= 1 ->
       exists f, 0 <= f <= 1 /\
         dist2 (lerp2 (nth i path (0, 0)) (nth (S i) path (0, 0)) s) (arc_at f) <= 4 * arc_tol_R) /\
    (* every point of the arc is within 4 tol of a chord *)
    (forall f, 0 <= f <= 1 ->
       exists i s, (S i < Z.to_nat n)%nat /\ 0 <= s <= 1 /\
         dist2 (arc_at f) (lerp2 (nth i path (0, 0)) (nth (S i) path (0, 0)) s) <= 4 * arc_tol_R).
  Proof.
    pose proof N_ge_1 as HN. pose proof n_ge_2 as Hn2. pose proof hs_range as Hhs.
    pose proof sagitta_4tol as Hsag.
    split; [apply arc_path_R_length|]. split; [exact Hn2|]. split; [|split].
    - intros i Hi. destruct (vertex_on_arc i Hi) as [E Hf]. eexists. split; [exact Hf|exact E].
    - intros i s Hi Hs.
      destruct (vertex_on_arc i ltac:(lia)) as [E1 _]. destruct (vertex_on_arc (S i) Hi) as [E2 _].
      rewrite E1, E2. unfold arc_at at 1 2. destruct (chord_ends i) as [C1 C2]. rewrite C1, C2.
      destruct (chord_to_arc_signed X Y r (ts + (2 * INR i + 1) * hs) hs s (Rlt_le _ _ Hr) Hhs Hs) as (k & Hk & Hb).
      exists ((2 * INR i + 1 + k) / (2 * N)). split.
      + pose proof (pos_INR i) as Hpos.
        assert (Hle : INR (S i) <= N).
        { unfold N. rewrite <- (Z2Nat.id (n - 1)) by lia. rewrite <- INR_IZR_INZ. apply le_INR. lia. }
        rewrite S_INR in Hle. split.
        * apply Rmult_le_pos; [lra|]. apply Rlt_le, Rinv_0_lt_compat. lra.
        * apply Rmult_le_reg_r with (2 * N); [lra|]. unfold Rdiv. rewrite Rmult_assoc, Rinv_l by lra. lra.
      + unfold arc_at. rewrite <- sector_point. apply dist2_le; [lra|].
        eapply Rle_trans; [exact Hb|]. apply sq_le_sq. lra.
    - intros f Hf.
      (* the chord whose sector contains f *)
      set (j := Z.min (Zfloor (f * N)) (n - 2)).
      assert (Hfl : IZR (Zfloor (f * N)) <= f * N < IZR (Zfloor (f * N)) + 1).
      { split; [apply Zfloor_lb|apply Zfloor_ub]. }
      assert (Hj0 : (0 <= j)%Z).
      { subst j. apply Z.min_glb; [|lia]. apply Zfloor_lub. cbn. nra. }
      assert (HNn : N = IZR (n - 2) + 1) by (unfold N; rewrite !minus_IZR; lra).
      assert (Hjb : IZR j <= f * N <= IZR j + 1).
      { subst j. destruct (Z.min_spec (Zfloor (f * N)) (n - 2)) as [[Hlt ->]|[Hge ->]].
        - lra.
        - split; [apply Rle_trans with (IZR (Zfloor (f * N))); [apply IZR_le; lia|lra]|]. nra. }
      set (i := Z.to_nat j).
      assert (Hi : (S i < Z.to_nat n)%nat) by (subst i j; lia).
      assert (Ei : INR i = IZR j) by (subst i; rewrite INR_IZR_INZ, Z2Nat.id by lia; reflexivity).
      set (k := 2 * (f * N - INR i) - 1).
      assert (Hk : -1 <= k <= 1) by (subst k; rewrite Ei; lra).
      destruct (arc_to_chord_signed X Y r (ts + (2 * INR i + 1) * hs) hs k (Rlt_le _ _ Hr) Hhs Hk) as (s & Hs & Hb).
      exists i, s. split; [exact Hi|]. split; [exact Hs|].
      destruct (vertex_on_arc i ltac:(lia)) as [E1 _]. destruct (vertex_on_arc (S i) Hi) as [E2 _].
      rewrite E1, E2. unfold arc_at. destruct (chord_ends i) as [C1 C2]. rewrite C1, C2.
      replace (ts + f * (dir * range)) with (ts + (2 * INR i + 1) * hs + k * hs)
        by (rewrite sector_point; subst k; f_equal; field; lra).
      apply dist2_le; [lra|]. eapply Rle_trans; [exact Hb|]. apply sq_le_sq. lra.
  Qed.
End ArcHausdorff.

(* ---------- the tolerance 0.1 itself is NOT met ----------
   radius 1, range = 2 * (2 acos(1 - 0.1/1)): the count is 2 (one chord for an
   angle of twice the tolerated one); the middle of that chord is 0.38 away
   from every point of the circle.  All hypotheses of [arc_hausdorff] hold. *)
Lemma acos_09 : 0 < acos (9 / 10) < PI / 2.
Proof.
  pose proof (acos_bound (9 / 10)) as Hb. pose proof (cos_acos (9 / 10) ltac:(lra)) as Hc.
  split.
  - destruct (Req_dec (acos (9 / 10)) 0) as [E|E]; [|lra]. rewrite E, cos_0 in Hc. lra.
  - destruct (Rlt_dec (acos (9 / 10)) (PI / 2)) as [|Hn]; [assumption|]. exfalso.
    assert (cos (acos (9 / 10)) <= 0) by (apply cos_le_0; lra). lra.
Qed.

Lemma arc_tolerance_not_met :
  let range := 4 * acos (9 / 10) in
  let n := arc_sub_points_R 0 1 range in
  let path := arc_path_R 0 0 1 0 1 range n in
  n = 2%Z /\ 0 <= range <= 2 * PI /\ (n < arc_subpoint_cap)%Z /\
  0 < 2 * acos (1 - arc_tol_R / 1) /\
  forall th, 38 / 100 <= dist2 (lerp2 (nth 0 path (0, 0)) (nth 1 path (0, 0)) (1 / 2)) (cpt 0 0 1 th).
Proof.
  intros range n path. pose proof acos_09 as Hb.
  assert (Ea : 1 - arc_tol_R / 1 = 9 / 10) by (rewrite arc_tol_value; field).
  assert (En : n = 2%Z).
  { subst n. unfold arc_sub_points_R, arc_sub_points_g, Rleb. rewrite Ea.
    destruct (Rle_dec (2 * 1) arc_tol_R) as [H|_]; [rewrite arc_tol_value in H; lra|].
    destruct (Rle_dec (Rabs (2 * acos (9 / 10))) 0) as [H|_].
    { pose proof (Rle_abs (2 * acos (9 / 10))). lra. }
    replace (range / (2 * acos (9 / 10))) with (IZR 2) by (subst range; field; lra).
    unfold usize_of_R. rewrite Zceil_IZR. reflexivity. }
  split; [exact En|]. split; [subst range; lra|]. split; [rewrite En; reflexivity|].
  split; [rewrite Ea; lra|].
  intros th. subst path. rewrite En.
  rewrite !arc_path_R_nth by (cbn; lia).
  replace (0 + INR 0 / IZR (2 - 1) * (1 * range)) with (2 * acos (9 / 10) - 2 * acos (9 / 10)) by (cbn; field).
  replace (0 + INR 1 / IZR (2 - 1) * (1 * range)) with (2 * acos (9 / 10) + 2 * acos (9 / 10)) by (subst range; cbn; field).
  assert (Hc : cos (2 * acos (9 / 10)) = 62 / 100).
  { rewrite cos_2a_cos, cos_acos by lra. field. }
  apply dist2_ge; [lra|].
  eapply Rle_trans; [|apply chord_mid_far; rewrite Hc; lra]. rewrite Hc. right. field.
Qed.

(* VertexIEEEBezier: C17, Bezier / B-spline segments -- every vertex emitted by
   the binary32 subdivision loop (the model's approximate_bezier_L1) lies
   within an explicit distance of the EXACT Bezier curve of the same
   (binary32) control points.

   n control points (degree m = n - 1), finite coordinates |x| <= 2^E,
   u = uE E = 2^(E-25) + 2^-150 (one computed midpoint, BezierIEEEScalar).

   1. Loop invariant, generic ([loop_inv]): if [Node k c] holds of the root
      with k = 0, is inherited by both children with k + 1, and a flat node
      at depth k emits points satisfying [Good k], then for a tree that is
      flat within depth d every emitted point satisfies [Good d] -- whatever
      the fuel.
   2. [Node k c]: there is a REAL control polygon Q of a piece of the curve
      (Bez Q s = B t) with every coordinate of c within k * m * u of Q's
      (BezierIEEE.nearL_subdiv + exact subdivision is an averaging).
   3. A flat node ([node_emit]): the emitted points are within
      e' = (k + 1) m u + 2^(E-24) + 2^-150 (per coordinate) of the real emitted
      points of Q ([emit_near], VertexIEEEBezierScalar.tri1_spec); the binary32
      flatness test bounds the real second differences of c in norm by
      1/2 + 2^-20 + 3/2 * 2^(E-22) ([flat_enough_inv]), hence those of Q by
      M_k = 1/2 + 2^-20 + 3/2 (2^(E-22) + 4 k m u); the real emitted points of
      Q are within m (2m - 1) / 8 * M_k of Q's curve ([piece_close_2D_gen]).
   4. With W's depth bound 19 for n * 2^E <= 2^22 ([within32_bounded_tight]):
      every emitted vertex is within Kbez m + E_bez E m 19 of the curve
                                                        [bezier_vertices_ieee]. *)
From RM Require Import Model.ControlPoints Model.Curve Proofs.BezierTermination Proofs.DeCasteljau
     Proofs.BezierEqualPoints Proofs.BezierIEEEScalar Proofs.BezierIEEE Proofs.BezierIEEETight Proofs.ArcExact Proofs.HausdorffPlane
     Proofs.HausdorffBezierCore Proofs.HausdorffBezier Proofs.HausdorffCatmull Proofs.VertexIEEEBezierScalar Proofs.VertexIEEECatmullPath.
From Flocq Require Import Core BinarySingleNaN.
From Coq Require Import Reals Lra Lia Psatz.
Open Scope R_scope.

Local Notation fin x := (is_finite x = true).
Local Notation bp := (bpow radix2).

(* ---------- 1. the loop, generically ---------- *)

Section LoopInv.
  Context {P : Type}.
  Variables (flat : list P -> bool) (sub : list P -> list P * list P) (emit : list P -> list P).
  Variables (Node : nat -> list P -> Prop) (Good : nat -> P -> Prop).
  Hypothesis H_mono : forall k k' p, (k <= k')%nat -> Good k p -> Good k' p.
  Hypothesis H_sub : forall k c, Node k c -> flat c = false ->
    Node (S k) (fst (sub c)) /\ Node (S k) (snd (sub c)).
  Hypothesis H_emit : forall k c, Node k c -> flat c = true -> Forall (Good k) (emit c).

  Lemma Forall_mono_good k k' l : (k <= k')%nat -> Forall (Good k) l -> Forall (Good k') l.
  Proof. intros Hk H. eapply Forall_impl; [|exact H]. intros p. apply H_mono. exact Hk. Qed.

  Lemma within_run_inv d : forall k c rest path, within flat sub d c -> Node k c ->
    exists n new,
      (forall m, run (bstep_g flat sub emit) (n + m) (c :: rest, path)
                 = run (bstep_g flat sub emit) m (rest, path ++ new)) /\
      Forall (Good (k + d)) new.
  Proof.
    induction d as [|d IH]; intros k c rest path [Hne H] HN.
    - destruct H as [H|[]]. exists 1%nat, (emit c). split.
      + intros m. cbn [Nat.add run]. unfold bstep_g at 1. cbn [fst snd]. rewrite H.
        destruct c; [congruence|reflexivity].
      + apply (Forall_mono_good k); [lia|]. apply H_emit; assumption.
    - destruct (flat c) eqn:Ef.
      + exists 1%nat, (emit c). split.
        * intros m. cbn [Nat.add run]. unfold bstep_g at 1. cbn [fst snd]. rewrite Ef.
          destruct c; [congruence|reflexivity].
        * apply (Forall_mono_good k); [lia|]. apply H_emit; assumption.
      + destruct H as [H|[H1 H2]]; [congruence|].
        destruct (H_sub k c HN Ef) as [N1 N2].
        destruct (sub c) as [l r] eqn:Es. cbn [fst snd] in H1, H2, N1, N2.
        destruct (IH (S k) l (r :: rest) path H1 N1) as (n1 & new1 & R1 & G1).
        destruct (IH (S k) r rest (path ++ new1) H2 N2) as (n2 & new2 & R2 & G2).
        exists (1 + (n1 + n2))%nat, (new1 ++ new2). split.
        * intros m. cbn [Nat.add run]. unfold bstep_g at 1. cbn [fst snd]. rewrite Ef, Es.
          destruct c; [congruence|].
          rewrite <- Nat.add_assoc, R1, R2, app_assoc. reflexivity.
        * replace (k + S d)%nat with (S k + d)%nat by lia. apply Forall_app. split; assumption.
  Qed.

  Theorem loop_inv d c path fuel path' : within flat sub d c -> Node 0 c ->
    iter_fuel (bstep_g flat sub emit) fuel ([c], path) = Done path' ->
    exists new, path' = path ++ new /\ Forall (Good d) new.
  Proof.
    intros HW HN Hrun. destruct (within_run_inv d 0 c [] path HW HN) as (n & new & R & G).
    exists new. split; [|exact G].
    specialize (R 1%nat). cbn [run] in R. unfold bstep_g at 2 in R. cbn [fst snd] in R.
    unfold iter_fuel in Hrun. rewrite iterP_run in Hrun.
    destruct (le_lt_dec (n + 1) (Pos.to_nat fuel)) as [Hle|Hlt].
    - rewrite (run_stop _ (n + 1) _ _ _ R Hle) in Hrun. cbn [cont] in Hrun. congruence.
    - replace (n + 1)%nat with (Pos.to_nat fuel + (n + 1 - Pos.to_nat fuel))%nat in R by lia.
      rewrite run_add in R.
      destruct (run (bstep_g flat sub emit) (Pos.to_nat fuel) ([c], path)) as [s'|r]; cbn [cont] in Hrun.
      + discriminate Hrun.
      + congruence.
  Qed.
End LoopInv.

(* ---------- 2. the emitted points, one coordinate ---------- *)

Lemma Forall2_nth {X Y} (Rel : X -> Y -> Prop) dx dy : forall l l', Forall2 Rel l l' ->
  forall j, (j < length l)%nat -> Rel (nth j l dx) (nth j l' dy).
Proof.
  induction 1 as [|x y l l' Hxy HF IH]; intros j Hj; [cbn [length] in Hj; lia|].
  destruct j as [|j]; [exact Hxy|]. cbn [nth]. apply IH. cbn [length] in Hj. lia.
Qed.

Lemma Forall2_len {X Y} (Rel : X -> Y -> Prop) l l' : Forall2 Rel l l' -> length l = length l'.
Proof. induction 1; [reflexivity|cbn [length]; congruence]. Qed.

Section Emit.
  Variable E : Z.
  Hypothesis HE : (0 <= E <= 100)%Z.
  Let HE126 : (0 <= E <= 126)%Z. Proof. lia. Qed.

  Definition terr : R := bp (E - 24) + bp (-150).

  Lemma terr_pos : 0 < terr.
  Proof. unfold terr. pose proof (bpow_gt_0 radix2 (E - 24)). pose proof (bpow_gt_0 radix2 (-150)). lra. Qed.

  Lemma near_tri e a b c ra rb rc : near E e a ra -> near E e b rb -> near E e c rc ->
    near E (e + terr) (tri1 a b c) (triR ra rb rc).
  Proof.
    intros [Oa Ha] [Ob Hb] [Oc Hc]. destruct (tri1_spec E a b c HE Oa Ob Oc) as [Ot Ht].
    split; [exact Ot|]. fold terr in Ht. unfold triR, tri_g.
    replace (B2R (tri1 a b c) - (ra + rb * 2 + rc) * (1 / 4))
      with ((B2R (tri1 a b c) - (B2R a + 2 * B2R b + B2R c) / 4)
            + ((B2R a - ra) / 4 + (B2R b - rb) / 2 + (B2R c - rc) / 4)) by field.
    eapply Rle_trans; [apply Rabs_triang|]. rewrite Rplus_comm. apply Rplus_le_compat; [|exact Ht].
    eapply Rle_trans; [apply Rabs_triang|]. eapply Rle_trans; [apply Rplus_le_compat_r, Rabs_triang|].
    unfold Rdiv. rewrite !Rabs_mult, (Rabs_pos_eq (/ 4)), (Rabs_pos_eq (/ 2)) by lra. lra.
  Qed.

  Lemma nearL_triples_aux e xs rs : nearL E e xs rs ->
    nearL E (e + terr) (triples_g tri1 xs) (triples_g triR rs) /\
    forall x r, near E e x r -> nearL E (e + terr) (triples_g tri1 (x :: xs)) (triples_g triR (r :: rs)).
  Proof.
    unfold nearL. induction 1 as [|a ra xs' rs' Ha HF [IH1 IH2]].
    - split; [constructor|]. intros x r _. constructor.
    - split; [apply IH2; exact Ha|]. intros x r Hx.
      inversion HF as [|c rc t rt Hc HF']; subst; [constructor|].
      change (triples_g tri1 (x :: a :: c :: t)) with (tri1 x a c :: triples_g tri1 (c :: t)).
      change (triples_g triR (r :: ra :: rc :: rt)) with (triR r ra rc :: triples_g triR (rc :: rt)).
      constructor; [apply near_tri; assumption|exact IH1].
  Qed.

  Lemma nearL_triples e xs rs : nearL E e xs rs -> nearL E (e + terr) (triples_g tri1 xs) (triples_g triR rs).
  Proof. intros H. exact (proj1 (nearL_triples_aux e xs rs H)). Qed.

  Lemma nearL_tl e xs rs : nearL E e xs rs -> nearL E e (tl xs) (tl rs).
  Proof. intros [|x r xs' rs' _ H]; [constructor|exact H]. Qed.

  Lemma emit_near e xs rs n : 0 <= e -> nearL E e xs rs -> length xs = n ->
    nearL E (e + INR (Nat.pred n) * uE E + terr) (approx_pts_g avg1 tri1 S.zero xs) (approx_pts_g avgR triR 0 rs).
  Proof.
    intros He H Hn.
    assert (Hr : length rs = n) by (rewrite <- Hn; symmetry; apply (Forall2_len _ _ _ H)).
    pose proof (uE_pos E) as Hu. pose proof terr_pos as Ht.
    assert (Hpu : 0 <= INR (Nat.pred n) * uE E) by (apply Rmult_le_pos; [apply pos_INR|lra]).
    rewrite approx_pts_R_eq, Hr. unfold approx_pts_g. rewrite Hn.
    destruct (nearL_subdiv E HE126 n e xs rs He H) as [NL NR].
    destruct (subdiv_g avg1 S.zero n xs) as [l r]. cbn [fst snd] in NL, NR.
    constructor.
    - apply (near_mono E e); [lra|]. apply nearL_hd; assumption.
    - apply nearL_triples, nearL_tl. apply Forall2_app; [exact NL|apply nearL_tl; exact NR].
  Qed.
End Emit.

(* ---------- plane: the norm of a perturbed vector ---------- *)

Lemma norm_perturb X Y dx dy r e : 0 <= r -> 0 <= e -> X * X + Y * Y <= r * r ->
  Rabs (dx - X) <= e -> Rabs (dy - Y) <= e ->
  dx * dx + dy * dy <= (r + 3 / 2 * e) * (r + 3 / 2 * e).
Proof.
  intros Hr He H Hx Hy.
  assert (H0 : dist2 (0, 0) (X, Y) <= r).
  { apply dist2_le; [exact Hr|]. unfold sqd2, sqd. cbn [fst snd]. nra. }
  pose proof (dist2_perturb (0, 0) (X, Y) (dx, dy) r e Hr He H0 Hx Hy) as H1.
  unfold dist2, sqd2, sqd in H1. cbn [fst snd] in H1.
  pose proof (sq_of_sqrt_le _ _ (r + 3 / 2 * e) ltac:(lra) H1) as H2. nra.
Qed.

(* ---------- 2./3. the nodes of the subdivision tree ---------- *)

Section Nodes.
  Variable E : Z.
  Hypothesis HE : (0 <= E <= 40)%Z.
  Let HE100 : (0 <= E <= 100)%Z. Proof. lia. Qed.
  Let HE126 : (0 <= E <= 126)%Z. Proof. lia. Qed.
  Variable n' : nat.
  Let n : nat := S (S n').
  Variable B : R -> RP.

  Definition ue : R := INR (S n') * uE E.
  Lemma ue_pos : 0 < ue.
  Proof.
    unfold ue. apply Rmult_lt_0_compat; [|apply uE_pos].
    replace 0 with (INR 0) by reflexivity. apply lt_INR. lia.
  Qed.

  Definition onB (Q : list RP) : Prop := forall s, 0 <= s <= 1 -> exists t, 0 <= t <= 1 /\ Bez Q s = B t.

  Definition Node (k : nat) (c : list Pos) : Prop :=
    length c = n /\
    exists Q : list RP, length Q = n /\ onB Q /\
      nearL E (INR k * ue) (xs_of c) (map fst Q) /\ nearL E (INR k * ue) (ys_of c) (map snd Q).

  Definition Kn : R := INR (S n') * (2 * INR (S n') - 1) / 8.
  Definition Mk (k : nat) : R := 1 / 2 + bp (-20) + 3 / 2 * (bp (E - 22) + 4 * (INR k * ue)).
  Definition e'k (k : nat) : R := INR k * ue + ue + terr E.
  Definition Dk (k : nat) : R := Kn * Mk k + 3 / 2 * e'k k.

  Definition Good (k : nat) (p : Pos) : Prop :=
    pos_fin p /\ exists t, 0 <= t <= 1 /\ dist2 (B t) (posR p) <= Dk k.

  Lemma Kn_nonneg : 0 <= Kn.
  Proof.
    unfold Kn. assert (1 <= INR (S n')) by (replace 1 with (INR 1) by reflexivity; apply le_INR; lia). nra.
  Qed.

  Lemma ke_nonneg k : 0 <= INR k * ue.
  Proof. apply Rmult_le_pos; [apply pos_INR|left; apply ue_pos]. Qed.

  Lemma Dk_mono k k' : (k <= k')%nat -> Dk k <= Dk k'.
  Proof.
    intros Hk. pose proof ue_pos as Hu. pose proof Kn_nonneg as HK.
    assert (Hi : INR k * ue <= INR k' * ue) by (apply Rmult_le_compat_r; [lra|apply le_INR; exact Hk]).
    unfold Dk, Mk, e'k.
    assert (Kn * (1 / 2 + bp (-20) + 3 / 2 * (bp (E - 22) + 4 * (INR k * ue)))
            <= Kn * (1 / 2 + bp (-20) + 3 / 2 * (bp (E - 22) + 4 * (INR k' * ue))))
      by (apply Rmult_le_compat_l; [exact HK|lra]).
    lra.
  Qed.

  Lemma Good_mono k k' p : (k <= k')%nat -> Good k p -> Good k' p.
  Proof.
    intros Hk [F (t & Ht & D)]. split; [exact F|]. exists t. split; [exact Ht|].
    eapply Rle_trans; [exact D|apply Dk_mono; exact Hk].
  Qed.

  Lemma node_sub k c : Node k c -> flat_enough c = false ->
    Node (S k) (fst (sub32 c)) /\ Node (S k) (snd (sub32 c)).
  Proof.
    intros (Hlen & Q & HQ & HB & Nx & Ny) _.
    destruct (sub32_length c) as [LL LR].
    destruct (sub32_xs c) as [X1 X2]. destruct (sub32_ys c) as [Y1 Y2].
    assert (Lx : length (xs_of c) = n) by (unfold xs_of; rewrite map_length; exact Hlen).
    assert (Ly : length (ys_of c) = n) by (unfold ys_of; rewrite map_length; exact Hlen).
    rewrite Lx in X1, X2. rewrite Ly in Y1, Y2.
    destruct (sub_R_Bez Q (S n') HQ) as (QL & QR & HBez).
    destruct (sub_R_fst Q) as [F1 F2]. destruct (sub_R_snd Q) as [S1 S2]. rewrite HQ in F1, F2, S1, S2.
    pose proof (ke_nonneg k) as Hk0.
    destruct (nearL_subdiv E HE126 n (INR k * ue) _ _ Hk0 Nx) as [NLx NRx].
    destruct (nearL_subdiv E HE126 n (INR k * ue) _ _ Hk0 Ny) as [NLy NRy].
    assert (Ek : INR k * ue + INR (Nat.pred n) * uE E = INR (S k) * ue).
    { unfold n, ue. cbn [Nat.pred]. rewrite (S_INR k). ring. }
    rewrite Ek in NLx, NRx, NLy, NRy.
    rewrite <- X1, <- F1 in NLx. rewrite <- X2, <- F2 in NRx. rewrite <- Y1, <- S1 in NLy. rewrite <- Y2, <- S2 in NRy.
    split.
    - split; [rewrite LL; exact Hlen|]. exists (fst (sub_R Q)). split; [exact QL|]. split; [|split; assumption].
      intros s Hs. destruct (HB (s / 2) ltac:(lra)) as (t & Ht & Et). exists t. split; [exact Ht|].
      rewrite (proj1 (HBez s)). exact Et.
    - split; [rewrite LR; exact Hlen|]. exists (snd (sub_R Q)). split; [exact QR|]. split; [|split; assumption].
      intros s Hs. destruct (HB ((1 + s) / 2) ltac:(lra)) as (t & Ht & Et). exists t. split; [exact Ht|].
      rewrite (proj2 (HBez s)). exact Et.
  Qed.

  Lemma map_px_emit c : map px (bezier_approx_pts c) = approx_pts_g avg1 tri1 S.zero (xs_of c).
  Proof.
    rewrite model_approx_pts. unfold xs_of.
    apply (map_approx_pts avg2 avg1 tri tri1 pos0 S.zero px); try reflexivity.
  Qed.

  Lemma map_py_emit c : map py (bezier_approx_pts c) = approx_pts_g avg1 tri1 S.zero (ys_of c).
  Proof.
    rewrite model_approx_pts. unfold ys_of.
    apply (map_approx_pts avg2 avg1 tri tri1 pos0 S.zero py); try reflexivity.
  Qed.

  Lemma map_fst_emit Q : map fst (emit_R Q) = approx_pts_g avgR triR 0 (map fst Q).
  Proof.
    unfold emit_R. apply (map_approx_pts avgRR avgR triRR triR zeroRR 0 fst); try reflexivity.
  Qed.

  Lemma map_snd_emit Q : map snd (emit_R Q) = approx_pts_g avgR triR 0 (map snd Q).
  Proof.
    unfold emit_R. apply (map_approx_pts avgRR avgR triRR triR zeroRR 0 snd); try reflexivity.
  Qed.

  Lemma node_emit k c : Node k c -> flat_enough c = true -> Forall (Good k) (bezier_approx_pts c).
  Proof.
    intros (Hlen & Q & HQ & HB & Nx & Ny) Hflat.
    pose proof (ke_nonneg k) as Hk0. pose proof ue_pos as Hue. pose proof (terr_pos E) as Hte.
    assert (Lx : length (xs_of c) = n) by (unfold xs_of; rewrite map_length; exact Hlen).
    assert (Ly : length (ys_of c) = n) by (unfold ys_of; rewrite map_length; exact Hlen).
    pose proof (emit_near E HE100 _ _ _ n Hk0 Nx Lx) as EX.
    pose proof (emit_near E HE100 _ _ _ n Hk0 Ny Ly) as EY.
    rewrite <- map_px_emit, <- map_fst_emit in EX. rewrite <- map_py_emit, <- map_snd_emit in EY.
    assert (Ee : INR k * ue + INR (Nat.pred n) * uE E + terr E = e'k k) by (unfold e'k, n, ue; cbn [Nat.pred]; ring).
    rewrite Ee in EX, EY.
    assert (Lem : length (bezier_approx_pts c) = S n').
    { rewrite model_approx_pts. apply approx_pts_length. exact Hlen. }
    assert (LemR : length (emit_R Q) = S n') by (apply approx_pts_length; exact HQ).
    (* points of c are covered coordinates; real second differences of Q *)
    assert (Hok : Forall (point_ok E) c).
    { pose proof (nearL_ok E _ _ _ Nx) as Ox. pose proof (nearL_ok E _ _ _ Ny) as Oy.
      unfold xs_of, ys_of in Ox, Oy. rewrite Forall_forall in *. intros p Hp.
      split; [apply Ox|apply Oy]; apply in_map; exact Hp. }
    assert (HM : 0 <= Mk k).
    { unfold Mk. pose proof (bpow_gt_0 radix2 (-20)). pose proof (bpow_gt_0 radix2 (E - 22)). lra. }
    assert (Hdd : forall i, (i + 2 < length Q)%nat ->
       (fst (nth i Q zeroRR) - 2 * fst (nth (S i) Q zeroRR) + fst (nth (S (S i)) Q zeroRR)) *
       (fst (nth i Q zeroRR) - 2 * fst (nth (S i) Q zeroRR) + fst (nth (S (S i)) Q zeroRR)) +
       (snd (nth i Q zeroRR) - 2 * snd (nth (S i) Q zeroRR) + snd (nth (S (S i)) Q zeroRR)) *
       (snd (nth i Q zeroRR) - 2 * snd (nth (S i) Q zeroRR) + snd (nth (S (S i)) Q zeroRR)) <= Mk k * Mk k).
    { intros i Hi. rewrite HQ in Hi.
      destruct (flat_enough_inv E c HE Hok Hflat i ltac:(rewrite Hlen; exact Hi)) as (X & Y & HX & HY & HXY).
      assert (Cx : forall j, (j < n)%nat -> Rabs (B2R (px (nth j c pos0)) - fst (nth j Q zeroRR)) <= INR k * ue).
      { intros j Hj. pose proof (Forall2_nth _ S.zero 0 _ _ Nx j ltac:(rewrite Lx; exact Hj)) as [_ H].
        unfold xs_of in H. change S.zero with (px pos0) in H. rewrite map_nth in H.
        change 0 with (fst zeroRR) in H. rewrite map_nth in H. exact H. }
      assert (Cy : forall j, (j < n)%nat -> Rabs (B2R (py (nth j c pos0)) - snd (nth j Q zeroRR)) <= INR k * ue).
      { intros j Hj. pose proof (Forall2_nth _ S.zero 0 _ _ Ny j ltac:(rewrite Ly; exact Hj)) as [_ H].
        unfold ys_of in H. change S.zero with (py pos0) in H. rewrite map_nth in H.
        change 0 with (snd zeroRR) in H. rewrite map_nth in H. exact H. }
      pose proof (Cx i ltac:(lia)) as A0. pose proof (Cx (S i) ltac:(lia)) as A1. pose proof (Cx (S (S i)) ltac:(lia)) as A2.
      pose proof (Cy i ltac:(lia)) as B0. pose proof (Cy (S i) ltac:(lia)) as B1. pose proof (Cy (S (S i)) ltac:(lia)) as B2.
      set (r := 1 / 2 + bp (-20)).
      assert (Hr : X * X + Y * Y <= r * r).
      { unfold r. pose proof (bpow_gt_0 radix2 (-20)). nra. }
      replace (Mk k) with (r + 3 / 2 * (bp (E - 22) + 4 * (INR k * ue))) by (unfold Mk, r; ring).
      pose proof (bpow_gt_0 radix2 (-20)). pose proof (bpow_gt_0 radix2 (E - 22)).
      apply (norm_perturb X Y); try assumption; try (unfold r; lra).
      - apply Rabs_le_inv in HX, A0, A1, A2. apply Rabs_le. lra.
      - apply Rabs_le_inv in HY, B0, B1, B2. apply Rabs_le. lra. }
    rewrite Forall_forall. intros p Hp.
    destruct (In_nth _ _ pos0 Hp) as (j & Hj & Ep). rewrite Lem in Hj.
    pose proof (Forall2_nth _ S.zero 0 _ _ EX j ltac:(rewrite map_length, Lem; exact Hj)) as [[Fx _] Dx].
    pose proof (Forall2_nth _ S.zero 0 _ _ EY j ltac:(rewrite map_length, Lem; exact Hj)) as [[Fy _] Dy].
    change S.zero with (px pos0) in Fx, Dx. change S.zero with (py pos0) in Fy, Dy. rewrite map_nth in Fx, Dx, Fy, Dy.
    change 0 with (fst zeroRR) in Dx. change 0 with (snd zeroRR) in Dy. rewrite map_nth in Dx, Dy.
    rewrite Ep in Fx, Fy, Dx, Dy.
    split; [split; assumption|].
    pose proof (piece_close_2D_gen Q n' (Mk k) j 0 HQ HM Hdd Hj ltac:(lra)) as HP.
    rewrite lerp2_0 in HP. unfold Epts in HP. rewrite app_nth1 in HP by (rewrite LemR; exact Hj).
    assert (Hs : 0 <= (INR j + 0) / INR (S n') <= 1).
    { pose proof (pos_INR j). assert (INR j + 1 <= INR (S n')) by (rewrite <- S_INR; apply le_INR; lia).
      assert (0 < INR (S n')) by lra. split.
      - apply Rmult_le_pos; [lra|]. apply Rlt_le, Rinv_0_lt_compat. lra.
      - apply Rmult_le_reg_r with (INR (S n')); [lra|]. unfold Rdiv. rewrite Rmult_assoc, Rinv_l by lra. lra. }
    destruct (HB _ Hs) as (t & Ht & Et). exists t. split; [exact Ht|]. rewrite <- Et.
    fold Kn in HP. unfold Dk.
    assert (HKM : 0 <= Kn * Mk k) by (apply Rmult_le_pos; [apply Kn_nonneg|exact HM]).
    assert (He' : 0 <= e'k k) by (unfold e'k; lra).
    apply (dist2_perturb _ (nth j (emit_R Q) zeroRR)); try assumption.
  Qed.
End Nodes.

(* ---------- 4. the routine ---------- *)

(* the rounding allowance on top of the exact bound Kbez m: m = degree,
   k = depth of the subdivision tree *)
Definition E_bez (E : Z) (m k : nat) : R :=
  INR m * (2 * INR m - 1) / 8 * (bp (-20) + 3 / 2 * (bp (E - 22) + 4 * (INR k * (INR m * uE E))))
  + 3 / 2 * (INR k * (INR m * uE E) + INR m * uE E + (bp (E - 24) + bp (-150))).

Lemma Dk_split E n' k : Dk E n' k = Kbez (S n') + E_bez E (S n') k.
Proof.
  unfold Dk, Kn, Mk, e'k, ue, terr, E_bez, Kbez. rewrite bez_tol_value. field.
Qed.

Lemma map_fst_posR pts : map fst (map posR pts) = map B2R (xs_of pts).
Proof. unfold xs_of. rewrite !map_map. reflexivity. Qed.
Lemma map_snd_posR pts : map snd (map posR pts) = map B2R (ys_of pts).
Proof. unfold ys_of. rewrite !map_map. reflexivity. Qed.

Definition bez_vertex_ok (E : Z) (points : list Pos) (m k : nat) (p : Pos) : Prop :=
  pos_fin p /\ exists t, 0 <= t <= 1 /\ dist2 (Bez (map posR points) t) (posR p) <= Kbez m + E_bez E m k.

(* any depth bound d of the binary32 subdivision tree *)
Theorem bezier_vertices_ieee_depth E points n' d path fuel path' :
  (0 <= E <= 40)%Z -> length points = S (S n') -> Forall (point_ok E) points ->
  within32 d points ->
  approximate_bezier_L1 fuel path points tt = Done (path', tt) ->
  exists new, path' = path ++ new ++ [last points pos0] /\
    Forall (bez_vertex_ok E points (S n') d) new.
Proof.
  intros HE Hlen Hok HW Hrun.
  rewrite model_approximate_bezier in Hrun. unfold approximate_bezier_g in Hrun.
  destruct (iter_fuel (bstep_g flat_enough sub32 bezier_approx_pts) fuel ([points], path)) as [p1| |] eqn:Eit;
    cbn [obind] in Hrun; try discriminate Hrun.
  destruct points as [|p0 pts]; [discriminate Hlen|]. cbn [obind] in Hrun.
  injection Hrun as <-.
  set (points := p0 :: pts) in *.
  set (B := Bez (map posR points)).
  assert (HN : Node E n' B 0 points).
  { split; [exact Hlen|]. exists (map posR points). split; [rewrite map_length; exact Hlen|]. split.
    - intros s Hs. exists s. split; [exact Hs|reflexivity].
    - assert (Hx : Forall (coord_ok E) (xs_of points))
        by (unfold xs_of; apply Forall_map; eapply Forall_impl; [|exact Hok]; intros p [Hp _]; exact Hp).
      assert (Hy : Forall (coord_ok E) (ys_of points))
        by (unfold ys_of; apply Forall_map; eapply Forall_impl; [|exact Hok]; intros p [_ Hp]; exact Hp).
      replace (INR 0 * ue E n') with 0 by (cbn [INR]; ring).
      rewrite map_fst_posR, map_snd_posR. split; apply nearL_self; assumption. }
  destruct (loop_inv flat_enough sub32 bezier_approx_pts (Node E n' B) (Good E n' B)
              (Good_mono E n' B) (node_sub E HE n' B) (node_emit E HE n' B) d points path fuel p1 HW HN Eit)
    as (new & -> & G).
  exists new. split; [rewrite app_assoc; reflexivity|].
  eapply Forall_impl; [|exact G]. intros p [F (t & Ht & D)]. split; [exact F|]. exists t. split; [exact Ht|].
  rewrite <- Dk_split. exact D.
Qed.

(* W's range: n * 2^E <= 2^22 gives depth 19 *)
Theorem bezier_vertices_ieee E points n' path fuel path' :
  (0 <= E)%Z -> (Z.of_nat (length points) * 2 ^ E <= 2 ^ 22)%Z ->
  length points = S (S n') -> Forall (point_ok E) points ->
  approximate_bezier_L1 fuel path points tt = Done (path', tt) ->
  exists new, path' = path ++ new ++ [last points pos0] /\
    Forall (bez_vertex_ok E points (S n') 19) new.
Proof.
  intros HE HK Hlen Hok Hrun.
  assert (Hne : points <> []) by (intros ->; discriminate Hlen).
  assert (H40 : (E <= 40)%Z).
  { destruct (Z_le_gt_dec E 40) as [H|H]; [exact H|]. exfalso.
    assert (2 ^ 41 <= 2 ^ E)%Z by (apply Z.pow_le_mono_r; lia).
    rewrite Hlen in HK. change (2 ^ 22)%Z with 4194304%Z in HK. change (2 ^ 41)%Z with 2199023255552%Z in H0. nia. }
  apply (bezier_vertices_ieee_depth E points n' 19 path fuel path'); try assumption; [lia|].
  apply (within32_bounded_tight E); assumption.
Qed.

(* the vertex pushed after the loop is the end point of the curve *)
Lemma bez_last_posR points n' : length points = S n' -> Bez (map posR points) 1 = posR (last points pos0).
Proof.
  intros H. rewrite (Bez_1 _ n') by (rewrite map_length; exact H).
  symmetry. apply (map_last' pos0 zeroRR posR). reflexivity.
Qed.

(* the size of the allowance, cubic segments with coordinates up to 1024 *)
Lemma E_bez_10_3_19 : E_bez 10 3 19 <= 1 / 40.
Proof.
  unfold E_bez, uE.
  change (10 - 22)%Z with (-12)%Z. change (10 - 25)%Z with (-15)%Z. change (10 - 24)%Z with (-14)%Z.
  assert (H150 : bp (-150) <= bp (-30)) by (apply bpow_le; lia).
  pose proof (bpow_gt_0 radix2 (-150)) as P150.
  replace (bp (-30)) with (/ 1073741824) in H150 by (cbn; lra).
  replace (bp (-20)) with (/ 1048576) by (cbn; lra).
  replace (bp (-12)) with (/ 4096) by (cbn; lra).
  replace (bp (-15)) with (/ 32768) by (cbn; lra).
  replace (bp (-14)) with (/ 16384) by (cbn; lra).
  replace (INR 3) with 3 by (cbn; lra). replace (INR 19) with 19 by (cbn; lra).
  set (z := bp (-150)) in *. lra.
Qed.

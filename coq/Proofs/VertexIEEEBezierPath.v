(* VertexIEEEBezierPath: C17, Bezier / B-spline segments -- the two-sided
   Hausdorff bound between the polyline computed in binary32 (the model's
   approximate_bezier_L1) and the EXACT Bezier curve of the same control points.

   Same setting and constants as VertexIEEEBezier (Kbez m + E_bez E m k); what
   is added is the parametrisation: a node of the binary32 subdivision tree at
   depth k stands for the curve on a parameter interval [a, b] ([NodeI]), its
   two children for [a, (a+b)/2] and [(a+b)/2, b]; the last point of the left
   child IS the first point of the right child (the same binary32 number:
   [subdiv_g_ends]), so the polylines of the sub-trees chain up ([PL_join]).
   A flat node's polyline (its emitted points, then its last control point)
   follows the curve with equally spaced parameters ([piece_follows_ieee]):
   every vertex is within e'_k per coordinate of the real polyline of Q,
   linear interpolation does not increase that, and the real polyline follows
   Q's curve within m (2m - 1) / 8 * M_k ([piece_close_2D_gen]).
   Result ([bezier_hausdorff_ieee]): vertices, chord points and curve points
   within Kbez m + E_bez E m 19 of each other, for n * 2^E <= 2^22. *)
From RM Require Import Model.ControlPoints Model.Curve Proofs.PathFacts Proofs.BezierTermination Proofs.DeCasteljau
     Proofs.BezierEqualPoints Proofs.BezierIEEEScalar Proofs.BezierIEEE Proofs.BezierIEEETight Proofs.ArcExact Proofs.HausdorffPlane
     Proofs.HausdorffBezierCore Proofs.HausdorffBezier Proofs.HausdorffCatmull Proofs.VertexIEEEBezierScalar Proofs.VertexIEEECatmullPath
     Proofs.VertexIEEEBezier.
From Flocq Require Import Core BinarySingleNaN.
From Coq Require Import Reals Lra Lia Psatz.
Open Scope R_scope.

Local Notation fin x := (is_finite x = true).
Local Notation bp := (bpow radix2).

(* ---------- lists ---------- *)

Lemma avg_step_g_length {T} (avg : T -> T -> T) : forall m, length (avg_step_g avg m) = Nat.pred (length m).
Proof.
  induction m as [|a m IH]; [reflexivity|]. destruct m as [|b r]; [reflexivity|].
  change (avg_step_g avg (a :: b :: r)) with (avg a b :: avg_step_g avg (b :: r)).
  cbn [length Nat.pred] in *. rewrite IH. reflexivity.
Qed.

(* the two children share their junction point, and keep the parent's ends *)
Lemma subdiv_g_ends {T} (avg : T -> T -> T) (d : T) n : forall m, length m = n -> (1 <= n)%nat ->
  hd d (fst (subdiv_g avg d n m)) = hd d m /\
  last (snd (subdiv_g avg d n m)) d = last m d /\
  last (fst (subdiv_g avg d n m)) d = hd d (snd (subdiv_g avg d n m)).
Proof.
  induction n as [|k IH]; intros m Hm Hn; [lia|].
  cbn [subdiv_g].
  pose proof (subdiv_g_length avg d k (avg_step_g avg m)) as [L1 L2].
  specialize (IH (avg_step_g avg m)).
  destruct (subdiv_g avg d k (avg_step_g avg m)) as [l r]. cbn [fst snd] in *.
  split; [reflexivity|]. split; [apply last_last|].
  destruct k as [|k].
  - destruct l; [|discriminate L1]. destruct r; [|discriminate L2]. cbn [app hd last].
    destruct m as [|a [|b t]]; try discriminate Hm. reflexivity.
  - destruct (IH ltac:(rewrite avg_step_g_length, Hm; reflexivity) ltac:(lia)) as (_ & _ & I3).
    destruct l as [|l0 l]; [discriminate L1|]. destruct r as [|r0 r]; [discriminate L2|].
    change (last (hd d m :: l0 :: l) d) with (last (l0 :: l) d). rewrite I3. reflexivity.
Qed.

Lemma sub32_ends c : (1 <= length c)%nat ->
  hd pos0 (fst (sub32 c)) = hd pos0 c /\ last (snd (sub32 c)) pos0 = last c pos0 /\
  last (fst (sub32 c)) pos0 = hd pos0 (snd (sub32 c)).
Proof.
  intros H. unfold sub32. rewrite model_subdiv. apply subdiv_g_ends; [reflexivity|exact H].
Qed.

(* ---------- polylines that follow a curve: weakening, and the final reading ---------- *)

Lemma follows_weaken (B : R -> RP) K K' l : K <= K' -> follows B K l -> follows B K' l.
Proof.
  intros HK. induction l as [|x l IH]; intros H; [exact I|].
  destruct l as [|y r]; [exact I|]. destruct H as [[Hle He] H]. split; [|apply IH; exact H].
  split; [exact Hle|]. intros s Hs. eapply Rle_trans; [apply He; exact Hs|exact HK].
Qed.

(* a parametrised polyline from parameter 0 to parameter 1 that follows B
   within K: the three statements of the Hausdorff bound *)
Lemma follows_hausdorff (B : R -> RP) K (taus : list R) (new : list RP) :
  length taus = length new -> hd 1 taus = 0 -> last taus 0 = 1 -> follows B K (combine taus new) ->
  (2 <= length new)%nat /\
  (forall k, (k < length new)%nat ->
     exists t, 0 <= t <= 1 /\ dist2 (B t) (nth k new zeroRR) <= K) /\
  (forall k s, (S k < length new)%nat -> 0 <= s <= 1 ->
     exists t, 0 <= t <= 1 /\ dist2 (B t) (lerp2 (nth k new zeroRR) (nth (S k) new zeroRR) s) <= K) /\
  (forall t, 0 <= t <= 1 ->
     exists k s, (S k < length new)%nat /\ 0 <= s <= 1 /\
       dist2 (B t) (lerp2 (nth k new zeroRR) (nth (S k) new zeroRR) s) <= K).
Proof.
  intros Hl Hhd Hlast Hfol.
  set (l := combine taus new) in *.
  assert (Ll : length l = length new) by (unfold l; rewrite combine_length, Hl, Nat.min_id; reflexivity).
  assert (Hnth : forall k, nth k l (0, zeroRR) = (nth k taus 0, nth k new zeroRR)).
  { intros k. unfold l. apply combine_nth. exact Hl. }
  assert (Hlen2 : (2 <= length new)%nat).
  { rewrite <- Hl. destruct taus as [|t0 [|t1 r]]; cbn [hd last length] in *; try lra. lia. }
  assert (H0 : fst (nth 0 l (0, zeroRR)) = 0).
  { rewrite Hnth. cbn [fst]. destruct taus; [cbn [length] in Hl; lia|exact Hhd]. }
  assert (H1 : fst (nth (Nat.pred (length l)) l (0, zeroRR)) = 1).
  { rewrite Hnth. cbn [fst]. rewrite Ll, <- Hl, <- last_as_nth. exact Hlast. }
  assert (Hrange : forall k, (k < length l)%nat -> 0 <= fst (nth k l (0, zeroRR)) <= 1).
  { intros k Hk. split.
    - apply Rle_trans with (fst (nth 0 l (0, zeroRR))); [rewrite H0; lra|].
      apply (follows_mono B K); [exact Hfol|lia|exact Hk].
    - apply Rle_trans with (fst (nth (Nat.pred (length l)) l (0, zeroRR))); [|rewrite H1; lra].
      apply (follows_mono B K); [exact Hfol|lia|lia]. }
  assert (Hedge : forall k s, (S k < length new)%nat -> 0 <= s <= 1 ->
            exists t, 0 <= t <= 1 /\ dist2 (B t) (lerp2 (nth k new zeroRR) (nth (S k) new zeroRR) s) <= K).
  { intros k s Hk Hs.
    pose proof (follows_edge B K (0, zeroRR) l k Hfol ltac:(lia)) as [Hle He].
    specialize (He s Hs). rewrite !Hnth in He. cbn [fst snd] in He.
    pose proof (Hrange k ltac:(lia)) as R0. pose proof (Hrange (S k) ltac:(lia)) as R1.
    rewrite !Hnth in R0, R1, Hle. cbn [fst] in R0, R1, Hle.
    eexists. split; [|exact He]. split; nra. }
  split; [exact Hlen2|]. split; [|split; [exact Hedge|]].
  - intros k Hk. destruct (Nat.eq_dec (S k) (length new)) as [E|E].
    + destruct k as [|k]; [lia|].
      destruct (Hedge k 1 ltac:(lia) ltac:(lra)) as (t & Ht & Hd). rewrite lerp2_1 in Hd. eauto.
    + destruct (Hedge k 0 ltac:(lia) ltac:(lra)) as (t & Ht & Hd). rewrite lerp2_0 in Hd. eauto.
  - intros t Ht.
    destruct (follows_cover B K (0, zeroRR) l Hfol ltac:(lia) t ltac:(rewrite H0, H1; exact Ht))
      as [[L1 _]|(j & s & Hj & Hs & Et)]; [lia|].
    exists j, s. split; [lia|]. split; [exact Hs|].
    pose proof (follows_edge B K (0, zeroRR) l j Hfol Hj) as [_ He].
    specialize (He s Hs). rewrite <- Et in He. rewrite !Hnth in He. exact He.
Qed.

(* linear interpolation of perturbed end points *)
Lemma lerp2_perturb a b a' b' s e : 0 <= s <= 1 ->
  Rabs (fst a' - fst a) <= e -> Rabs (snd a' - snd a) <= e ->
  Rabs (fst b' - fst b) <= e -> Rabs (snd b' - snd b) <= e ->
  Rabs (fst (lerp2 a' b' s) - fst (lerp2 a b s)) <= e /\ Rabs (snd (lerp2 a' b' s) - snd (lerp2 a b s)) <= e.
Proof.
  intros Hs A1 A2 B1 B2. unfold lerp2. cbn [fst snd].
  apply Rabs_le_inv in A1, A2, B1, B2. split; apply Rabs_le; nra.
Qed.

(* ---------- the nodes, with their parameter intervals ---------- *)

Section Path.
  Variable E : Z.
  Hypothesis HE : (0 <= E <= 40)%Z.
  Let HE100 : (0 <= E <= 100)%Z. Proof. lia. Qed.
  Let HE126 : (0 <= E <= 126)%Z. Proof. lia. Qed.
  Variable n' : nat.
  Let n : nat := S (S n').
  Let m : nat := S n'.
  Variable B : R -> RP.

  Definition NodeI (k : nat) (c : list Pos) (a b : R) : Prop :=
    length c = n /\ a <= b /\
    exists Q : list RP, length Q = n /\ (forall t, Bez Q t = B (a + t * (b - a))) /\
      nearL E (INR k * ue E n') (xs_of c) (map fst Q) /\ nearL E (INR k * ue E n') (ys_of c) (map snd Q).

  (* the polyline of the sub-tree of c: [new], then the last point of c *)
  Definition PL (D : R) (c : list Pos) (a b : R) (new : list Pos) : Prop :=
    exists taus' new', new = hd pos0 c :: new' /\ length taus' = length new' /\ Forall pos_fin new /\
      follows B D ((a, posR (hd pos0 c)) :: combine taus' (map posR new') ++ [(b, posR (last c pos0))]).

  Lemma PL_weaken D D' c a b new : D <= D' -> PL D c a b new -> PL D' c a b new.
  Proof.
    intros HD (taus' & new' & E1 & E2 & F & H). exists taus', new'. repeat split; try assumption.
    eapply follows_weaken; eassumption.
  Qed.

  Lemma PL_join D c l r a mid b newl newr :
    hd pos0 l = hd pos0 c -> last r pos0 = last c pos0 -> last l pos0 = hd pos0 r ->
    PL D l a mid newl -> PL D r mid b newr -> PL D c a b (newl ++ newr).
  Proof.
    intros H1 H2 H3 (tl' & nl' & El & Ll & Fl & Hl) (tr' & nr' & Er & Lr & Fr & Hr).
    exists (tl' ++ mid :: tr'), (nl' ++ hd pos0 r :: nr').
    split; [rewrite El, Er, H1; reflexivity|].
    split; [rewrite !app_length; cbn [length]; lia|].
    split; [apply Forall_app; split; assumption|].
    rewrite map_app. cbn [map]. rewrite combine_app by (rewrite map_length; exact Ll). cbn [combine].
    rewrite <- H1, <- H2. rewrite H3 in Hl.
    rewrite <- app_assoc. cbn [app].
    change ((a, posR (hd pos0 l)) :: combine tl' (map posR nl') ++ (mid, posR (hd pos0 r)) :: combine tr' (map posR nr') ++ [(b, posR (last r pos0))])
      with (((a, posR (hd pos0 l)) :: combine tl' (map posR nl')) ++ (mid, posR (hd pos0 r)) :: (combine tr' (map posR nr') ++ [(b, posR (last r pos0))])).
    apply follows_app; assumption.
  Qed.

  Definition tau (a b : R) (j : nat) : R := a + INR j / INR m * (b - a).

  Lemma INRm_pos : 1 <= INR m.
  Proof. unfold m. rewrite S_INR. pose proof (pos_INR n'). lra. Qed.

  (* the children *)
  Lemma nodeI_sub k c a b : NodeI k c a b ->
    NodeI (S k) (fst (sub32 c)) a ((a + b) / 2) /\ NodeI (S k) (snd (sub32 c)) ((a + b) / 2) b.
  Proof.
    intros (Hlen & Hab & Q & HQ & HB & Nx & Ny).
    destruct (sub32_length c) as [LL LR].
    destruct (sub32_xs c) as [X1 X2]. destruct (sub32_ys c) as [Y1 Y2].
    assert (Lx : length (xs_of c) = n) by (unfold xs_of; rewrite map_length; exact Hlen).
    assert (Ly : length (ys_of c) = n) by (unfold ys_of; rewrite map_length; exact Hlen).
    rewrite Lx in X1, X2. rewrite Ly in Y1, Y2.
    destruct (sub_R_Bez Q (S n') HQ) as (QL & QR & HBez).
    destruct (sub_R_fst Q) as [F1 F2]. destruct (sub_R_snd Q) as [S1 S2]. rewrite HQ in F1, F2, S1, S2.
    pose proof (ke_nonneg E n' k) as Hk0.
    destruct (nearL_subdiv E HE126 n (INR k * ue E n') _ _ Hk0 Nx) as [NLx NRx].
    destruct (nearL_subdiv E HE126 n (INR k * ue E n') _ _ Hk0 Ny) as [NLy NRy].
    assert (Ek : INR k * ue E n' + INR (Nat.pred n) * uE E = INR (S k) * ue E n').
    { unfold n, ue. cbn [Nat.pred]. rewrite (S_INR k). ring. }
    rewrite Ek in NLx, NRx, NLy, NRy.
    rewrite <- X1, <- F1 in NLx. rewrite <- X2, <- F2 in NRx. rewrite <- Y1, <- S1 in NLy. rewrite <- Y2, <- S2 in NRy.
    split.
    - split; [rewrite LL; exact Hlen|]. split; [lra|]. exists (fst (sub_R Q)). split; [exact QL|]. split; [|split; assumption].
      intros t. rewrite (proj1 (HBez t)), HB. f_equal. field.
    - split; [rewrite LR; exact Hlen|]. split; [lra|]. exists (snd (sub_R Q)). split; [exact QR|]. split; [|split; assumption].
      intros t. rewrite (proj2 (HBez t)), HB. f_equal. field.
  Qed.

  (* a flat node *)
  Lemma piece_follows_ieee k c a b : NodeI k c a b -> flat_enough c = true ->
    PL (Dk E n' k) c a b (bezier_approx_pts c).
  Proof.
    intros (Hlen & Hab & Q & HQ & HB & Nx & Ny) Hflat.
    pose proof (ke_nonneg E n' k) as Hk0. pose proof (ue_pos E n') as Hue. pose proof (terr_pos E) as Hte.
    pose proof INRm_pos as HN.
    assert (Lx : length (xs_of c) = n) by (unfold xs_of; rewrite map_length; exact Hlen).
    assert (Ly : length (ys_of c) = n) by (unfold ys_of; rewrite map_length; exact Hlen).
    pose proof (emit_near E HE100 _ _ _ n Hk0 Nx Lx) as EX.
    pose proof (emit_near E HE100 _ _ _ n Hk0 Ny Ly) as EY.
    rewrite <- map_px_emit, <- map_fst_emit in EX. rewrite <- map_py_emit, <- map_snd_emit in EY.
    assert (Ee : INR k * ue E n' + INR (Nat.pred n) * uE E + terr E = e'k E n' k) by (unfold e'k, n, ue; cbn [Nat.pred]; ring).
    rewrite Ee in EX, EY.
    set (em := bezier_approx_pts c) in *.
    assert (Lem : length em = m).
    { unfold em. rewrite model_approx_pts. apply approx_pts_length. exact Hlen. }
    assert (LemR : length (emit_R Q) = m) by (apply approx_pts_length; exact HQ).
    assert (He' : 0 <= e'k E n' k) by (unfold e'k; lra).
    assert (Hke : INR k * ue E n' <= e'k E n' k) by (unfold e'k; lra).
    assert (Hok : Forall (point_ok E) c).
    { pose proof (nearL_ok E _ _ _ Nx) as Ox. pose proof (nearL_ok E _ _ _ Ny) as Oy.
      unfold xs_of, ys_of in Ox, Oy. rewrite Forall_forall in *. intros p Hp.
      split; [apply Ox|apply Oy]; apply in_map; exact Hp. }
    assert (HM : 0 <= Mk E n' k).
    { unfold Mk. pose proof (bpow_gt_0 radix2 (-20)). pose proof (bpow_gt_0 radix2 (E - 22)). lra. }
    (* the real second differences of Q *)
    assert (Hdd : forall i, (i + 2 < length Q)%nat ->
       (fst (nth i Q zeroRR) - 2 * fst (nth (S i) Q zeroRR) + fst (nth (S (S i)) Q zeroRR)) *
       (fst (nth i Q zeroRR) - 2 * fst (nth (S i) Q zeroRR) + fst (nth (S (S i)) Q zeroRR)) +
       (snd (nth i Q zeroRR) - 2 * snd (nth (S i) Q zeroRR) + snd (nth (S (S i)) Q zeroRR)) *
       (snd (nth i Q zeroRR) - 2 * snd (nth (S i) Q zeroRR) + snd (nth (S (S i)) Q zeroRR)) <= Mk E n' k * Mk E n' k).
    { intros i Hi. rewrite HQ in Hi.
      destruct (flat_enough_inv E c HE Hok Hflat i ltac:(rewrite Hlen; exact Hi)) as (X & Y & HX & HY & HXY).
      assert (Cx : forall j, (j < n)%nat -> Rabs (B2R (px (nth j c pos0)) - fst (nth j Q zeroRR)) <= INR k * ue E n').
      { intros j Hj. pose proof (Forall2_nth _ S.zero 0 _ _ Nx j ltac:(rewrite Lx; exact Hj)) as [_ H].
        unfold xs_of in H. change S.zero with (px pos0) in H. rewrite map_nth in H.
        change 0 with (fst zeroRR) in H. rewrite map_nth in H. exact H. }
      assert (Cy : forall j, (j < n)%nat -> Rabs (B2R (py (nth j c pos0)) - snd (nth j Q zeroRR)) <= INR k * ue E n').
      { intros j Hj. pose proof (Forall2_nth _ S.zero 0 _ _ Ny j ltac:(rewrite Ly; exact Hj)) as [_ H].
        unfold ys_of in H. change S.zero with (py pos0) in H. rewrite map_nth in H.
        change 0 with (snd zeroRR) in H. rewrite map_nth in H. exact H. }
      pose proof (Cx i ltac:(lia)) as A0. pose proof (Cx (S i) ltac:(lia)) as A1. pose proof (Cx (S (S i)) ltac:(lia)) as A2.
      pose proof (Cy i ltac:(lia)) as B0. pose proof (Cy (S i) ltac:(lia)) as B1. pose proof (Cy (S (S i)) ltac:(lia)) as B2.
      set (r := 1 / 2 + bp (-20)).
      assert (Hr : X * X + Y * Y <= r * r).
      { unfold r. pose proof (bpow_gt_0 radix2 (-20)). nra. }
      replace (Mk E n' k) with (r + 3 / 2 * (bp (E - 22) + 4 * (INR k * ue E n'))) by (unfold Mk, r; ring).
      pose proof (bpow_gt_0 radix2 (-20)). pose proof (bpow_gt_0 radix2 (E - 22)).
      apply (norm_perturb X Y); try assumption; try (unfold r; lra).
      - apply Rabs_le_inv in HX, A0, A1, A2. apply Rabs_le. lra.
      - apply Rabs_le_inv in HY, B0, B1, B2. apply Rabs_le. lra. }
    (* the computed polyline against the real one, vertex by vertex *)
    set (PLp := map posR em ++ [posR (last c pos0)]).
    assert (LPL : length PLp = S m) by (unfold PLp; rewrite app_length, map_length, Lem; cbn [length]; lia).
    assert (LEp : length (Epts Q) = S m) by (unfold Epts; rewrite app_length, LemR; cbn [length]; lia).
    assert (Hfin : Forall pos_fin em).
    { rewrite Forall_forall. intros p Hp. destruct (In_nth _ _ pos0 Hp) as (j & Hj & Ep).
      pose proof (Forall2_nth _ S.zero 0 _ _ EX j ltac:(rewrite map_length; exact Hj)) as [[Fx _] _].
      pose proof (Forall2_nth _ S.zero 0 _ _ EY j ltac:(rewrite map_length; exact Hj)) as [[Fy _] _].
      change S.zero with (px pos0) in Fx. change S.zero with (py pos0) in Fy. rewrite map_nth in Fx, Fy.
      rewrite Ep in Fx, Fy. split; assumption. }
    assert (Hclose : forall j, (j < S m)%nat ->
              Rabs (fst (nth j PLp zeroRR) - fst (nth j (Epts Q) zeroRR)) <= e'k E n' k /\
              Rabs (snd (nth j PLp zeroRR) - snd (nth j (Epts Q) zeroRR)) <= e'k E n' k).
    { intros j Hj. unfold PLp, Epts. destruct (Nat.eq_dec j m) as [->|Hne].
      - rewrite !app_nth2 by (rewrite ?map_length, ?Lem, ?LemR; lia).
        rewrite map_length, Lem, LemR, Nat.sub_diag. cbn [nth].
        pose proof (nearL_last E _ _ _ Hk0 Nx) as [_ Hx]. pose proof (nearL_last E _ _ _ Hk0 Ny) as [_ Hy].
        unfold xs_of in Hx. unfold ys_of in Hy.
        rewrite <- (map_last' pos0 S.zero px eq_refl) in Hx. rewrite <- (map_last' pos0 S.zero py eq_refl) in Hy.
        rewrite <- (map_last' zeroRR 0 fst eq_refl) in Hx. rewrite <- (map_last' zeroRR 0 snd eq_refl) in Hy.
        unfold posR. cbn [fst snd]. split; lra.
      - assert (Hjm : (j < m)%nat) by lia.
        rewrite !app_nth1 by (rewrite ?map_length, ?Lem, ?LemR; exact Hjm).
        pose proof (Forall2_nth _ S.zero 0 _ _ EX j ltac:(rewrite map_length, Lem; exact Hjm)) as [_ Dx].
        pose proof (Forall2_nth _ S.zero 0 _ _ EY j ltac:(rewrite map_length, Lem; exact Hjm)) as [_ Dy].
        change S.zero with (px pos0) in Dx. change S.zero with (py pos0) in Dy. rewrite map_nth in Dx, Dy.
        change 0 with (fst zeroRR) in Dx. change 0 with (snd zeroRR) in Dy. rewrite map_nth in Dx, Dy.
        change zeroRR with (posR pos0) at 1 3. rewrite map_nth. unfold posR at 1 2. cbn [fst snd]. split; assumption. }
    (* the parametrised polyline follows the curve *)
    assert (HF : follows B (Dk E n' k) (combine (map (tau a b) (seq 0 (S m))) PLp)).
    { apply (follows_nth B _ (0, zeroRR)). intros j Hj.
      rewrite combine_length, map_length, seq_length, LPL, Nat.min_id in Hj.
      assert (Hcn : forall i, nth i (combine (map (tau a b) (seq 0 (S m))) PLp) (0, zeroRR)
                              = (nth i (map (tau a b) (seq 0 (S m))) 0, nth i PLp zeroRR)).
      { intros i. apply combine_nth. rewrite map_length, seq_length. symmetry. exact LPL. }
      rewrite !Hcn. clear Hcn.
      rewrite !nth_map_seq by lia.
      unfold edge_ok. cbn [fst snd]. split.
      - unfold tau. rewrite S_INR.
        assert (0 <= / INR m * (b - a)) by (apply Rmult_le_pos; [apply Rlt_le, Rinv_0_lt_compat; lra|lra]).
        unfold Rdiv. nra.
      - intros s Hs.
        replace ((1 - s) * tau a b j + s * tau a b (S j)) with (a + (INR j + s) / INR m * (b - a))
          by (unfold tau; rewrite S_INR; field; lra).
        rewrite <- HB.
        pose proof (piece_close_2D_gen Q n' (Mk E n' k) j s HQ HM Hdd ltac:(unfold m in Hj; lia) Hs) as HP.
        fold m in HP. fold (Kn n') in HP.
        destruct (Hclose j ltac:(lia)) as [C1 C2]. destruct (Hclose (S j) ltac:(lia)) as [C3 C4].
        destruct (lerp2_perturb _ _ _ _ s _ Hs C1 C2 C3 C4) as [L1 L2].
        assert (HKM : 0 <= Kn n' * Mk E n' k) by (apply Rmult_le_pos; [apply Kn_nonneg|exact HM]).
        unfold Dk. apply (dist2_perturb _ (lerp2 (nth j (Epts Q) zeroRR) (nth (S j) (Epts Q) zeroRR) s)); assumption. }
    (* shape *)
    destruct (bezier_approx_pts_hd c) as (rest & Eem). fold em in Eem.
    assert (Lrest : length rest = n') by (rewrite Eem in Lem; cbn [length] in Lem; unfold m in Lem; lia).
    exists (map (tau a b) (seq 1 n')), rest.
    split; [exact Eem|]. split; [rewrite map_length, seq_length, Lrest; reflexivity|]. split; [exact Hfin|].
    assert (Etau_0 : tau a b 0 = a) by (unfold tau; cbn [INR]; field; lra).
    assert (Etau_m : tau a b m = b) by (unfold tau; field; lra).
    assert (Eseq : seq 0 (S m) = 0%nat :: seq 1 n' ++ [m]).
    { unfold m. change (seq 0 (S (S n'))) with (0%nat :: seq 1 (S n')). rewrite (seq_S n' 1). reflexivity. }
    rewrite Eseq in HF. unfold PLp in HF. rewrite Eem in HF. cbn [map app combine] in HF.
    rewrite map_app in HF. cbn [map] in HF.
    rewrite combine_app in HF by (rewrite !map_length, seq_length, Lrest; reflexivity).
    cbn [combine] in HF. rewrite Etau_0, Etau_m in HF. exact HF.
  Qed.

  (* the sub-tree of a node *)
  Lemma tree_follows d : forall k c a b rest path, within32 d c -> NodeI k c a b ->
    exists nn new,
      (forall mm, run (bstep_g flat_enough sub32 bezier_approx_pts) (nn + mm) (c :: rest, path)
                  = run (bstep_g flat_enough sub32 bezier_approx_pts) mm (rest, path ++ new)) /\
      PL (Dk E n' (k + d)) c a b new.
  Proof.
    induction d as [|d IH]; intros k c a b rest path [Hne H] HN.
    - destruct H as [H|[]]. exists 1%nat, (bezier_approx_pts c). split.
      + intros mm. cbn [Nat.add run]. unfold bstep_g at 1. cbn [fst snd]. rewrite H.
        destruct c; [congruence|reflexivity].
      + apply (PL_weaken (Dk E n' k)); [apply Dk_mono; lia|]. apply piece_follows_ieee; assumption.
    - destruct (flat_enough c) eqn:Ef.
      + exists 1%nat, (bezier_approx_pts c). split.
        * intros mm. cbn [Nat.add run]. unfold bstep_g at 1. cbn [fst snd]. rewrite Ef.
          destruct c; [congruence|reflexivity].
        * apply (PL_weaken (Dk E n' k)); [apply Dk_mono; lia|]. apply piece_follows_ieee; assumption.
      + destruct H as [H|[H1 H2]]; [congruence|].
        destruct (nodeI_sub k c a b HN) as [N1 N2].
        assert (Hc1 : (1 <= length c)%nat) by (destruct HN as [Hl _]; rewrite Hl; unfold n; lia).
        destruct (sub32_ends c Hc1) as (E1 & E2 & E3).
        destruct (sub32 c) as [l r] eqn:Es. cbn [fst snd] in *.
        destruct (IH (S k) l a ((a + b) / 2) (r :: rest) path H1 N1) as (n1 & new1 & R1 & G1).
        destruct (IH (S k) r ((a + b) / 2) b rest (path ++ new1) H2 N2) as (n2 & new2 & R2 & G2).
        exists (1 + (n1 + n2))%nat, (new1 ++ new2). split.
        * intros mm. cbn [Nat.add run]. unfold bstep_g at 1. cbn [fst snd]. rewrite Ef, Es.
          destruct c; [congruence|].
          rewrite <- Nat.add_assoc, R1, R2, app_assoc. reflexivity.
        * replace (k + S d)%nat with (S k + d)%nat by lia.
          apply (PL_join _ c l r a ((a + b) / 2) b); assumption.
  Qed.
End Path.

(* ---------- the routine ---------- *)

Theorem bezier_hausdorff_ieee_depth E points n' d path fuel path' :
  (0 <= E <= 40)%Z -> length points = S (S n') -> Forall (point_ok E) points ->
  within32 d points ->
  approximate_bezier_L1 fuel path points tt = Done (path', tt) ->
  let K := Kbez (S n') + E_bez E (S n') d in
  let B := Bez (map posR points) in
  exists new, path' = path ++ new /\ (2 <= length new)%nat /\ Forall pos_fin new /\
    (forall k, (k < length new)%nat ->
       exists t, 0 <= t <= 1 /\ dist2 (B t) (posR (nth k new pos0)) <= K) /\
    (forall k s, (S k < length new)%nat -> 0 <= s <= 1 ->
       exists t, 0 <= t <= 1 /\ dist2 (B t) (lerp2 (posR (nth k new pos0)) (posR (nth (S k) new pos0)) s) <= K) /\
    (forall t, 0 <= t <= 1 ->
       exists k s, (S k < length new)%nat /\ 0 <= s <= 1 /\
         dist2 (B t) (lerp2 (posR (nth k new pos0)) (posR (nth (S k) new pos0)) s) <= K).
Proof.
  intros HE Hlen Hok HW Hrun K B.
  rewrite model_approximate_bezier in Hrun. unfold approximate_bezier_g in Hrun.
  destruct (iter_fuel (bstep_g flat_enough sub32 bezier_approx_pts) fuel ([points], path)) as [p1| |] eqn:Eit;
    cbn [obind] in Hrun; try discriminate Hrun.
  assert (Hp1 : path' = p1 ++ [last points pos0]).
  { destruct points; [discriminate Hlen|]. cbn [obind] in Hrun. injection Hrun as <-. reflexivity. }
  clear Hrun.
  assert (HN : NodeI E n' B 0 points 0 1).
  { split; [exact Hlen|]. split; [lra|]. exists (map posR points). split; [rewrite map_length; exact Hlen|]. split.
    - intros t. unfold B. f_equal. ring.
    - assert (Hx : Forall (coord_ok E) (xs_of points))
        by (unfold xs_of; apply Forall_map; eapply Forall_impl; [|exact Hok]; intros p [Hp _]; exact Hp).
      assert (Hy : Forall (coord_ok E) (ys_of points))
        by (unfold ys_of; apply Forall_map; eapply Forall_impl; [|exact Hok]; intros p [_ Hp]; exact Hp).
      replace (INR 0 * ue E n') with 0 by (cbn [INR]; ring).
      rewrite map_fst_posR, map_snd_posR. split; apply nearL_self; assumption. }
  destruct (tree_follows E HE n' B d 0 points 0 1 [] path HW HN) as (nn & new0 & R & HPL).
  cbn [Nat.add] in HPL.
  (* the loop returns path ++ new0 *)
  assert (Ep1 : p1 = path ++ new0).
  { specialize (R 1%nat). cbn [run] in R. unfold bstep_g at 2 in R. cbn [fst snd] in R.
    unfold iter_fuel in Eit. rewrite iterP_run in Eit.
    destruct (le_lt_dec (nn + 1) (Pos.to_nat fuel)) as [Hle|Hlt].
    - rewrite (run_stop _ (nn + 1) _ _ _ R Hle) in Eit. cbn [cont] in Eit. congruence.
    - replace (nn + 1)%nat with (Pos.to_nat fuel + (nn + 1 - Pos.to_nat fuel))%nat in R by lia.
      rewrite run_add in R.
      destruct (run (bstep_g flat_enough sub32 bezier_approx_pts) (Pos.to_nat fuel) ([points], path)) as [s'|r];
        cbn [cont] in Eit; [discriminate Eit|congruence]. }
  destruct HPL as (taus' & new' & En & Lt & Ffin & Hfol).
  assert (EK : Dk E n' d = K) by (unfold K; apply Dk_split). rewrite EK in Hfol.
  set (new := new0 ++ [last points pos0]).
  exists new. split; [rewrite Hp1, Ep1, <- app_assoc; reflexivity|].
  (* the parametrised polyline, as one combine *)
  assert (Hcomb : (0, posR (hd pos0 points)) :: combine taus' (map posR new') ++ [(1, posR (last points pos0))]
                  = combine (0 :: taus' ++ [1]) (map posR new)).
  { unfold new. rewrite En. cbn [app map combine]. f_equal. rewrite map_app. cbn [map].
    rewrite combine_app by (rewrite map_length; exact Lt). reflexivity. }
  rewrite Hcomb in Hfol.
  assert (Hlast_fin : pos_fin (last points pos0)).
  { assert (Hin : In (last points pos0) points).
    { destruct points as [|p0 pts]; [discriminate Hlen|].
      destruct (@exists_last _ (p0 :: pts) ltac:(discriminate)) as (l0 & x & Ex). rewrite Ex, last_last.
      apply in_or_app. right. left. reflexivity. }
    rewrite Forall_forall in Hok. destruct (Hok _ Hin) as [[F1 _] [F2 _]]. split; assumption. }
  destruct (follows_hausdorff B K (0 :: taus' ++ [1]) (map posR new)) as (H2 & Hv & He & Hc).
  - unfold new. rewrite En. cbn [length app map]. rewrite !app_length, map_length, app_length. cbn [length]. lia.
  - reflexivity.
  - change (0 :: taus' ++ [1]) with ((0 :: taus') ++ [1]). apply last_last.
  - exact Hfol.
  - rewrite map_length in H2, Hv, He, Hc.
    assert (Enth : forall k, nth k (map posR new) zeroRR = posR (nth k new pos0)).
    { intros k. change zeroRR with (posR pos0). apply map_nth. }
    split; [exact H2|]. split; [unfold new; apply Forall_app; split; [exact Ffin|constructor; [exact Hlast_fin|constructor]]|].
    split; [|split].
    + intros k Hk. destruct (Hv k Hk) as (t & Ht & D). rewrite Enth in D. eauto.
    + intros k s Hk Hs. destruct (He k s Hk Hs) as (t & Ht & D). rewrite !Enth in D. eauto.
    + intros t Ht. destruct (Hc t Ht) as (k & s & Hk & Hs & D). rewrite !Enth in D. eauto.
Qed.

Theorem bezier_hausdorff_ieee E points n' path fuel path' :
  (0 <= E)%Z -> (Z.of_nat (length points) * 2 ^ E <= 2 ^ 22)%Z ->
  length points = S (S n') -> Forall (point_ok E) points ->
  approximate_bezier_L1 fuel path points tt = Done (path', tt) ->
  let K := Kbez (S n') + E_bez E (S n') 19 in
  let B := Bez (map posR points) in
  exists new, path' = path ++ new /\ (2 <= length new)%nat /\ Forall pos_fin new /\
    (forall k, (k < length new)%nat ->
       exists t, 0 <= t <= 1 /\ dist2 (B t) (posR (nth k new pos0)) <= K) /\
    (forall k s, (S k < length new)%nat -> 0 <= s <= 1 ->
       exists t, 0 <= t <= 1 /\ dist2 (B t) (lerp2 (posR (nth k new pos0)) (posR (nth (S k) new pos0)) s) <= K) /\
    (forall t, 0 <= t <= 1 ->
       exists k s, (S k < length new)%nat /\ 0 <= s <= 1 /\
         dist2 (B t) (lerp2 (posR (nth k new pos0)) (posR (nth (S k) new pos0)) s) <= K).
Proof.
  intros HE HK Hlen Hok Hrun.
  assert (Hne : points <> []) by (intros ->; discriminate Hlen).
  assert (H40 : (E <= 40)%Z).
  { destruct (Z_le_gt_dec E 40) as [H|H]; [exact H|]. exfalso.
    assert (2 ^ 41 <= 2 ^ E)%Z by (apply Z.pow_le_mono_r; lia).
    rewrite Hlen in HK. change (2 ^ 22)%Z with 4194304%Z in HK. change (2 ^ 41)%Z with 2199023255552%Z in H0. nia. }
  apply (bezier_hausdorff_ieee_depth E points n' 19 path fuel path'); try assumption; [lia|].
  apply (within32_bounded_tight E); assumption.
Qed.

(* EncPathImage: every control-point list that the decoder's path_spec
   (= convert_path_str) produces for a slider at an integer position within the
   coordinate limit satisfies [path_image] (Model/EncPathSpec.v): the domain of
   the path-string round trip is the decoder's image. *)
From RM Require Import Model.EncPathSpec Model.HitObjectSpec Proofs.EncText Proofs.EncFmt Proofs.EncFloat Proofs.EncPathFloat
     Proofs.EncSimple Proofs.EncObjects Proofs.FramingFacts Proofs.PathStringFacts Proofs.EncPathEnc Proofs.EncPathDec
     Proofs.EncPathRT Proofs.NumFacts Proofs.FloatFacts14.
From RM Require Import Gen.Generated.
From Flocq Require Import BinarySingleNaN.
From Coq Require Import ZifyBool.
Open Scope Z_scope.

(* ---------- integer mirror of split_dups ---------- *)

Fixpoint zmark (ty : PathType) (seg : list ZCP) : list ZCP :=
  match seg with
  | [] => []
  | [z] => [(fst z, Some ty)]
  | z :: r => z :: zmark ty r
  end.

Definition zdrop (ty : PathType) (i : nat) (pq v : ZPt) (r : list ZPt) : bool :=
  zeq v pq && negb (is_cat ty && (1 <? i)%nat) && negb (nil_b r).

Fixpoint zsplit (ty : PathType) (i : nat) (pq : ZPt) (seg : list ZCP) (qs : list ZPt) : list ZCP :=
  match qs with
  | [] => seg
  | v :: r =>
      if zdrop ty i pq v r then zmark ty seg ++ zsplit ty (S i) v [] r
      else zsplit ty (S i) v (seg ++ [(v, None)]) r
  end.

(* the same, deciding the mark of a point by looking at its successor *)
Definition next_drop (ty : PathType) (i : nat) (v : ZPt) (r : list ZPt) : bool :=
  match r with v' :: r' => zdrop ty i v v' r' | [] => false end.

Fixpoint zsplit2 (ty : PathType) (i : nat) (pq : ZPt) (qs : list ZPt) : list ZCP :=
  match qs with
  | [] => []
  | v :: r =>
      if zdrop ty i pq v r then zsplit2 ty (S i) v r
      else (v, if next_drop ty (S i) v r then Some ty else None) :: zsplit2 ty (S i) v r
  end.

Lemma zmark_snoc ty seg z : zmark ty (seg ++ [z]) = seg ++ [(fst z, Some ty)].
Proof.
  induction seg as [|a seg IH]; [reflexivity|].
  cbn [app]. remember (seg ++ [z]) as x eqn:E. destruct x as [|b x]; [destruct seg; discriminate|].
  change (zmark ty (a :: b :: x)) with (a :: zmark ty (b :: x)). rewrite IH. reflexivity.
Qed.

Lemma zsplit_eq ty : forall qs i pq seg,
  zsplit ty i pq seg qs
  = (if next_drop ty i pq qs then zmark ty seg else seg) ++ zsplit2 ty i pq qs.
Proof.
  induction qs as [|v r IH]; intros i pq seg.
  - cbn. rewrite app_nil_r. reflexivity.
  - cbn [zsplit zsplit2 next_drop]. destruct (zdrop ty i pq v r) eqn:E.
    + rewrite (IH (S i) v []). destruct (next_drop ty (S i) v r); reflexivity.
    + rewrite (IH (S i) v (seg ++ [(v, None)])).
      destruct (next_drop ty (S i) v r).
      * rewrite zmark_snoc, <- app_assoc. reflexivity.
      * rewrite <- app_assoc. reflexivity.
Qed.

Lemma mark_last_icp ty seg : mark_last ty (map icp seg) = map icp (zmark ty seg).
Proof.
  induction seg as [|a seg IH]; [reflexivity|].
  destruct seg as [|b seg']; [reflexivity|].
  change (zmark ty (a :: b :: seg')) with (a :: zmark ty (b :: seg')).
  cbn [map] in *. rewrite <- IH. reflexivity.
Qed.

Lemma split_dups_int ty : forall qs i prev pq seg,
  cp_pos prev = ipos pq -> small pq -> Forall small qs ->
  split_dups ty i prev (map icp seg) (map upt qs) = map icp (zsplit ty i pq seg qs).
Proof.
  induction qs as [|v r IH]; intros i prev pq seg Hprev Hpq Hall; [reflexivity|].
  inversion Hall as [|? ? Hv Hr]; subst.
  cbn [map split_dups zsplit]. unfold zdrop.
  cbn [upt cp_pos]. rewrite Hprev, (pos_eqb_int v pq) by (destruct Hv, Hpq; assumption).
  rewrite map_upt_nil. unfold is_cat.
  destruct (zeq v pq && negb (pt_eqb ty pt_catmull && (1 <? i)%nat) && negb (nil_b r)).
  - rewrite mark_last_icp, map_app. f_equal.
    exact (IH (S i) (upt v) v [] eq_refl Hv Hr).
  - change [upt v] with (map icp [(v, None)]). rewrite <- map_app.
    exact (IH (S i) (upt v) v (seg ++ [(v, None)]) eq_refl Hv Hr).
Qed.

(* ---------- the invariant on one segment's output ---------- *)

Lemma zeq_eq a b : zeq a b = true -> a = b.
Proof. destruct a, b. unfold zeq. cbn [fst snd]. intros H. f_equal; lia. Qed.

Section Image.
  Variable P : ZPt.
  Hypothesis HP : Pok P.

  (* B: what follows the segment -- nothing, or the next segment (which starts with a typed point) *)
  Lemma zsplit2_inv ty B : is_perf ty = false -> pt_ok ty = true ->
    nil_b B || next_typed B = true -> (forall last p, zinv_from P last p B = true) ->
    forall qs i pq, Forall (fun q => abs_ok P q = true) qs ->
    zinv_from P ty pq (zsplit2 ty i pq qs ++ B) = true.
  Proof.
    intros Hnp Hpt HB HBinv. induction qs as [|v r IH]; intros i pq Hall.
    - apply HBinv.
    - inversion Hall as [|? ? Hv Hr]; subst. cbn [zsplit2].
      destruct (zdrop ty i pq v r) eqn:Ed.
      + (* dropped: same position as its predecessor *)
        unfold zdrop in Ed. apply andb_true_iff in Ed. destruct Ed as [Ed _].
        apply andb_true_iff in Ed. destruct Ed as [Ed _]. apply zeq_eq in Ed. subst v.
        apply IH. exact Hr.
      + cbn [app zinv_from fst snd]. rewrite Hv. cbn [andb].
        destruct (next_drop ty (S i) v r).
        * rewrite Hpt. unfold perf_ok. rewrite Hnp. cbn [negb orb andb]. apply IH. exact Hr.
        * rewrite (IH (S i) v Hr), andb_true_r.
          destruct (zeq v pq) eqn:Eq; [|reflexivity]. cbn [negb orb].
          unfold zdrop in Ed. rewrite Eq in Ed. cbn [andb] in Ed.
          destruct (is_cat ty) eqn:Ec; [reflexivity|]. cbn [andb negb orb] in Ed |- *.
          destruct r as [|v' r']; [|discriminate]. cbn [zsplit2 app]. exact HB.
  Qed.

  (* ---------- reading points ---------- *)

  Lemma abs_ok_tight q : abs_ok P q = true -> Z.abs (fst q) <= 262144 /\ Z.abs (snd q) <= 262144.
  Proof.
    destruct HP as [A B]. unfold abs_ok, max_coordinate_value. intros H.
    apply andb_true_iff in H. lia.
  Qed.

  Lemma read_point_image value v : read_point value (ipos P) = Some v ->
    exists q, v = upt q /\ abs_ok P q = true.
  Proof.
    unfold read_point. destruct (split_on 58 value) as [|sx [|sy rest]]; try discriminate.
    destruct (pn_f64_lim coord_lim64 sx) as [x|] eqn:Ex; [|discriminate].
    destruct (pn_f64_lim coord_lim64 sy) as [y|] eqn:Ey; [|discriminate].
    intros [= <-].
    assert (Hb : forall s w, pn_f64_lim coord_lim64 s = Some w -> - 131072 <= f64_as_i32 w <= 131072).
    { intros s w H. pose proof (pn_f64_lim_finite _ _ _ coord_lim64_finite H) as Fw.
      unfold pn_f64_lim in H. destruct (parse_f64_raw (trim s)) as [n|]; [|discriminate].
      destruct (D.lt n (D.neg coord_lim64)) eqn:El; [discriminate|].
      destruct (D.gt n coord_lim64) eqn:Eg; [discriminate|].
      destruct (D.is_nan n); [discriminate|]. injection H as ->.
      apply coord64_trunc_bound; assumption. }
    pose proof (Hb _ _ Ex) as Bx. pose proof (Hb _ _ Ey) as By. destruct HP as [P1 P2].
    exists (f64_as_i32 x - fst P, f64_as_i32 y - snd P). split.
    - unfold upt, pos_sub, trunc64, ipos. cbn [px py fst snd].
      rewrite !S_sub_of_Z by (change (2 ^ 24) with 16777216; lia). reflexivity.
    - unfold abs_ok, max_coordinate_value. cbn [fst snd]. lia.
  Qed.

  Lemma read_all_image : forall pts vs, read_all pts (ipos P) = Some vs ->
    exists qs, vs = map upt qs /\ Forall (fun q => abs_ok P q = true) qs.
  Proof.
    induction pts as [|p r IH]; intros vs H; cbn [read_all] in H.
    - injection H as <-. exists []. split; [reflexivity|constructor].
    - destruct (read_point p (ipos P)) as [v|] eqn:Ev; [|discriminate].
      destruct (read_all r (ipos P)) as [vs'|] eqn:Er; [|discriminate]. injection H as <-.
      destruct (read_point_image p v Ev) as (q & -> & Hq). destruct (IH vs' eq_refl) as (qs & -> & Hqs).
      exists (q :: qs). split; [reflexivity|constructor; assumption].
  Qed.

  (* ---------- path types ---------- *)

  Lemma pt_ok_of_str s : pt_ok (path_type_of_str s) = true.
  Proof.
    unfold path_type_of_str. destruct s as [|c r]; [reflexivity|].
    destruct (c =? path_letter_bspline).
    - destruct (parse_i32_raw r) as [d|] eqn:Ed; [|reflexivity].
      destruct (0 <? d) eqn:E0; [|reflexivity].
      unfold parse_i32_raw in Ed. apply parse_int_raw_spec in Ed. destruct Ed as [_ Hr].
      unfold pt_ok. cbn [pt_kind pt_degree]. rewrite Z.eqb_refl. lia.
    - destruct (c =? path_letter_linear); [reflexivity|].
      destruct (c =? path_letter_perfect); reflexivity.
  Qed.

  Lemma pt_ok_seg_type t all : pt_ok t = true -> pt_ok (seg_type t all) = true.
  Proof.
    intros H. unfold seg_type. destruct (pt_eqb t pt_perfect); [|exact H].
    destruct all as [|a [|b [|c [|d r]]]]; try reflexivity.
    destruct (is_linear (cp_pos a) (cp_pos b) (cp_pos c)); reflexivity.
  Qed.

  (* a perfect curve: exactly three points, not collinear *)
  Lemma seg_type_perf t all : is_perf (seg_type t all) = true ->
    exists a b c, all = [a; b; c] /\ is_linear (cp_pos a) (cp_pos b) (cp_pos c) = false.
  Proof.
    unfold seg_type, is_perf. destruct (pt_eqb t pt_perfect) eqn:E; [|congruence].
    destruct all as [|a [|b [|c [|d r]]]]; try discriminate.
    destruct (is_linear (cp_pos a) (cp_pos b) (cp_pos c)) eqn:El; [discriminate|].
    intros _. exists a, b, c. split; [reflexivity|exact El].
  Qed.

  (* two coinciding points make three points collinear *)
  Lemma is_linear_dup q c : abs_ok P q = true -> abs_ok P c = true ->
    is_linear (ipos q) (ipos q) (ipos c) = true.
  Proof.
    intros Hq Hc. destruct (abs_ok_tight q Hq) as [Q1 Q2]. destruct (abs_ok_tight c Hc) as [C1 C2].
    unfold is_linear, ipos. cbn [px py fst snd].
    rewrite !S_sub_of_Z by (change (2 ^ 24) with 16777216; lia).
    replace (snd q - snd q) with 0 by lia. replace (fst q - fst q) with 0 by lia.
    apply cross_zero_int; change (2 ^ 24) with 16777216; lia.
  Qed.
End Image.

(* ---------- one segment, then all of them ---------- *)

Section Image2.
  Variable P : ZPt.
  Hypothesis HP : Pok P.

  (* what follows a segment: the closing token is the first point of the next segment *)
  Definition follows (closing : option str) (B : list ZCP) : Prop :=
    match closing with
    | None => B = []
    | Some c => exists q' t' B', B = (q', Some t') :: B' /\ read_point c (ipos P) = Some (upt q')
    end.

  Definition seg_inv (t : PathType) (q : ZPt) (R : list ZCP) : Prop :=
    abs_ok P q = true /\ pt_ok t = true /\ perf_ok t q R = true /\ zinv_from P t q R = true.

  Lemma abs_small_all qs : Forall (fun q => abs_ok P q = true) qs -> Forall small qs.
  Proof. intros H. eapply Forall_impl; [|exact H]. intros q Hq. exact (small_of_abs_ok P q HP Hq). Qed.

  Lemma upt_inj_pos a b : upt a = upt b -> ipos a = ipos b.
  Proof. unfold upt. intros H. exact (f_equal cp_pos H). Qed.

  Lemma seg_image first toks closing out B :
    seg_spec first toks closing (ipos P) = Some out ->
    follows closing B -> (forall last p, zinv_from P last p B = true) ->
    exists q t R, out = map icp ((q, Some t) :: R) /\ (first = true -> q = (0, 0)) /\
      (first = false -> exists c pts, tl toks = c :: pts /\ read_point c (ipos P) = Some (upt q)) /\
      seg_inv t q (R ++ B).
  Proof.
    intros Hs HB HBinv. unfold seg_spec in Hs. destruct toks as [|letter pts]; [discriminate|].
    destruct (read_all pts (ipos P)) as [own0|] eqn:Eown; [|discriminate].
    destruct (read_all_image P HP pts own0 Eown) as (qs0 & -> & Hqs0).
    (* the closing point *)
    assert (Hcl : exists clq, (match closing with
                               | Some c => omap (fun p => [p]) (read_point c (ipos P))
                               | None => Some [] end) = Some (map upt clq) /\
                              Forall (fun q => abs_ok P q = true) clq /\
                              match clq with
                              | [] => B = []
                              | c' :: _ => clq = [c'] /\ exists q' t' B', B = (q', Some t') :: B' /\ ipos q' = ipos c'
                              end).
    { destruct closing as [c|]; cbn [follows] in HB.
      - destruct HB as (q' & t' & B' & -> & Hc). rewrite Hc. cbn [omap].
        destruct (read_point_image P HP c _ Hc) as (qc & Eqc & Hqc).
        exists [qc]. split; [rewrite Eqc; reflexivity|]. split; [constructor; [exact Hqc|constructor]|].
        split; [reflexivity|]. exists q', t', B'. split; [reflexivity|exact (upt_inj_pos _ _ Eqc)].
      - exists []. split; [reflexivity|]. split; [constructor|exact HB]. }
    destruct Hcl as (clq & Ecl & Hclq & HclB). rewrite Ecl in Hs.
    (* own points *)
    set (Q := (if first then [(0, 0)] else []) ++ qs0).
    assert (EQ : (if first then [pcp_default] else []) ++ map upt qs0 = map upt Q).
    { unfold Q. destruct first; [rewrite origin_default|]; reflexivity. }
    assert (HQ : Forall (fun q => abs_ok P q = true) Q).
    { unfold Q. destruct first; [constructor; [exact (abs_ok_origin P HP)|exact Hqs0]|exact Hqs0]. }
    rewrite EQ in Hs.
    destruct Q as [|q qs] eqn:EQ2; [discriminate|]. cbn [map] in Hs.
    inversion HQ as [|? ? Hq Hqs]; subst.
    injection Hs as Hout. cbn [app] in Hout.
    set (ty := seg_type (path_type_of_str letter) (upt q :: map upt qs ++ map upt clq)) in *.
    assert (Hpt : pt_ok ty = true) by (apply pt_ok_seg_type, pt_ok_of_str).
    change (pcp_with_type (upt q) ty) with (icp (q, Some ty)) in Hout.
    change [icp (q, Some ty)] with (map icp [(q, Some ty)]) in Hout.
    rewrite (split_dups_int ty qs 1 (icp (q, Some ty)) q [(q, Some ty)] eq_refl
               (small_of_abs_ok P q HP Hq) (abs_small_all qs Hqs)) in Hout.
    rewrite zsplit_eq in Hout.
    assert (Hhead : (if next_drop ty 1 q qs then zmark ty [(q, Some ty)] else [(q, Some ty)]) = [(q, Some ty)])
      by (destruct (next_drop ty 1 q qs); reflexivity).
    rewrite Hhead in Hout. cbn [app] in Hout.
    exists q, ty, (zsplit2 ty 1 q qs). split; [symmetry; exact Hout|].
    split.
    { intros ->. unfold Q in EQ2. cbn [app] in EQ2. injection EQ2 as <- _. reflexivity. }
    split.
    { intros ->. unfold Q in EQ2. cbn [app] in EQ2. subst qs0. cbn [tl].
      destruct pts as [|c pts']; [discriminate|]. cbn [read_all] in Eown.
      destruct (read_point c (ipos P)) as [v|] eqn:Ev; [|discriminate].
      destruct (read_all pts' (ipos P)); [|discriminate]. injection Eown as Ev' _.
      exists c, pts'. split; [reflexivity|]. rewrite Ev, Ev'. reflexivity. }
    (* the invariant *)
    assert (HBt : nil_b B || next_typed B = true).
    { destruct clq as [|c' ?]; [rewrite HclB; reflexivity|].
      destruct HclB as (_ & q' & t' & B' & -> & _). reflexivity. }
    unfold seg_inv. split; [exact Hq|]. split; [exact Hpt|].
    destruct (is_perf ty) eqn:Eperf.
    2:{ split; [unfold perf_ok; rewrite Eperf; reflexivity|].
        apply zsplit2_inv; assumption. }
    (* a perfect curve: three points, no split *)
    destruct (seg_type_perf _ _ Eperf) as (a & b & c & Eabc & Hlin).
    destruct qs as [|b' [|c' [|d' qs']]].
    - (* a single own point: impossible *)
      destruct clq as [|x [|y r]]; cbn in Eabc; try discriminate.
      destruct HclB as (Hx & _). discriminate.
    - (* two own points and the closing one *)
      destruct clq as [|x [|y r]]; cbn in Eabc; try discriminate.
      destruct HclB as (_ & q' & t' & B' & -> & Eq').
      injection Eabc as <- <- <-. cbn [upt cp_pos] in Hlin.
      inversion Hclq as [|? ? Hx _]; subst.
      cbn [zsplit2 next_drop]. unfold zdrop. cbn [nil_b negb]. rewrite !andb_false_r. cbn [app].
      inversion Hqs as [|? ? Hb' _]; subst.
      split.
      + unfold perf_ok. rewrite Eperf. cbn [negb orb typed fst snd andb]. rewrite Eq', Hlin. reflexivity.
      + cbn [zinv_from fst snd nil_b next_typed typed]. rewrite Hb', orb_true_r. cbn [andb].
        exact (HBinv ty b').
    - (* three own points, no closing one *)
      destruct clq as [|x r]; cbn in Eabc; try discriminate. subst B.
      injection Eabc as <- <- <-. cbn [upt cp_pos] in Hlin.
      inversion Hqs as [|? ? Hb' Hqs']; subst. inversion Hqs' as [|? ? Hc' _]; subst.
      assert (Hbq : zeq b' q = false).
      { destruct (zeq b' q) eqn:E; [|reflexivity]. apply zeq_eq in E. subst b'.
        rewrite (is_linear_dup P HP q c' Hq Hc') in Hlin. discriminate. }
      cbn [zsplit2 next_drop]. unfold zdrop. cbn [nil_b negb]. rewrite Hbq. cbn [andb].
      rewrite !andb_false_r. cbn [app]. rewrite ?app_nil_r.
      split.
      + unfold perf_ok. rewrite Eperf. cbn [negb orb typed fst snd andb nil_b]. rewrite Hlin. reflexivity.
      + cbn [zinv_from fst snd nil_b next_typed typed]. rewrite Hb', Hc', Hbq, !orb_true_r. reflexivity.
    - (* more than three points *)
      destruct clq; cbn in Eabc; discriminate.
  Qed.

  Lemma seg_inv_zinv t q R last p : seg_inv t q R -> zinv_from P last p ((q, Some t) :: R) = true.
  Proof.
    intros (A & B & C & D). cbn [zinv_from fst snd]. rewrite A, B, C, D. reflexivity.
  Qed.

  Lemma path_segs_image : forall rest first cur out,
    cur <> [] -> path_segs first cur rest (ipos P) = (out, true) ->
    exists q t R, out = map icp ((q, Some t) :: R) /\ (first = true -> q = (0, 0)) /\
      (first = false -> exists c, hd_error (tl cur ++ rest) = Some c /\ read_point c (ipos P) = Some (upt q)) /\
      seg_inv t q R.
  Proof.
    induction rest as [|tk rest IH]; intros first cur out Hcur H.
    - cbn [path_segs] in H. destruct (seg_spec first cur None (ipos P)) as [a|] eqn:Es; [|discriminate].
      injection H as <-.
      destruct (seg_image first cur None a [] Es eq_refl (fun _ _ => eq_refl)) as (q & t & R & E & H1 & H2 & H3).
      rewrite app_nil_r in H3. exists q, t, R. split; [exact E|]. split; [exact H1|]. split; [|exact H3].
      intros Hf. destruct (H2 Hf) as (c & pts & Et & Hc). exists c. rewrite app_nil_r, Et. split; [reflexivity|exact Hc].
    - cbn [path_segs] in H. destruct tk as [|ch tkr]; [discriminate|].
      destruct (is_ascii_alpha ch) eqn:Ea.
      + destruct (seg_spec first cur (fst (next rest)) (ipos P)) as [a|] eqn:Es; [|discriminate].
        match type of H with (let '(b, ok) := ?X in _) = _ => destruct X as [b ok] eqn:Eb end.
        injection H as <- ->.
        destruct (IH false [ch :: tkr] b ltac:(discriminate) Eb) as (q' & t' & R' & E' & _ & H2' & H3').
        destruct (H2' eq_refl) as (c' & Hc' & Hr'). cbn [tl app] in Hc'.
        assert (Hfol : follows (fst (next rest)) ((q', Some t') :: R')).
        { destruct rest as [|x rest']; [discriminate|]. cbn [hd_error] in Hc'. injection Hc' as ->.
          cbn [next fst follows]. exists q', t', R'. split; [reflexivity|exact Hr']. }
        destruct (seg_image first cur (fst (next rest)) a ((q', Some t') :: R') Es Hfol
                    (fun last p => seg_inv_zinv t' q' R' last p H3')) as (q & t & R & E & H1 & H2 & H3).
        exists q, t, (R ++ (q', Some t') :: R'). split.
        { rewrite E, E'. cbn [map]. rewrite map_app. reflexivity. }
        split; [exact H1|]. split; [|exact H3].
        intros Hf. destruct (H2 Hf) as (c & pts & Et & Hc). exists c. rewrite Et. split; [reflexivity|exact Hc].
      + destruct (IH first (cur ++ [ch :: tkr]) out ltac:(destruct cur; discriminate) H) as (q & t & R & E & H1 & H2 & H3).
        exists q, t, R. split; [exact E|]. split; [exact H1|]. split; [|exact H3].
        intros Hf. destruct (H2 Hf) as (c & Hc & Hr). exists c. split; [|exact Hr].
        destruct cur as [|c0 cur']; [contradiction|]. cbn [tl app] in *. rewrite <- app_assoc in Hc. exact Hc.
  Qed.

  Lemma f32_eqb_refl (x : F32) : f32_eqb x x = true.
  Proof.
    unfold f32_eqb, sf_eqb. destruct (B2SF x) as [s|s| |s m e]; try reflexivity.
    - destruct s; reflexivity.
    - destruct s; reflexivity.
    - rewrite Pos.eqb_refl, Z.eqb_refl. destruct s; reflexivity.
  Qed.

  Lemma int_pos_ipos q : small q -> int_pos (ipos q) = true.
  Proof.
    intros [A B]. unfold int_pos, ipos. cbn [px py]. rewrite !f32_as_i32_of_Z by assumption.
    rewrite !f32_eqb_refl. reflexivity.
  Qed.

  Lemma zinv_small : forall l last p, zinv_from P last p l = true -> Forall (fun z => small (fst z)) l.
  Proof.
    intros l last p H. pose proof (zinv_abs P l last p H) as HA.
    eapply Forall_impl; [|exact HA]. intros z Hz. exact (small_of_abs_ok P _ HP Hz).
  Qed.

  Lemma zcp_icp_all l : Forall (fun z => small (fst z)) l ->
    map zcp (map icp l) = l /\ forallb (fun p => int_pos (cp_pos p)) (map icp l) = true.
  Proof.
    induction l as [|z r IH]; intros H; [split; reflexivity|].
    inversion H as [|? ? Hz Hr]; subst. destruct (IH Hr) as [E1 E2]. cbn [map forallb].
    rewrite E1, E2. destruct z as [q ty]. unfold zcp, icp. cbn [cp_pos cp_type fst snd] in *.
    destruct Hz as [A B]. rewrite (zpt_ipos q A B), (int_pos_ipos q (conj A B)). split; reflexivity.
  Qed.

  (* the decoder's image *)
  Theorem zpath_spec_image s cps :
    path_spec s (ipos P) = (cps, true) ->
    exists zs, cps = map icp zs /\ zimage P zs = true /\ Forall (fun z => small (fst z)) zs.
  Proof.
    unfold path_spec. destruct (split_on 124 s) as [|t0 rest]; [discriminate|]. intros H.
    destruct (path_segs_image rest true [t0] cps ltac:(discriminate) H) as (q & t & R & E & H1 & _ & H3).
    rewrite (H1 eq_refl) in *. destruct H3 as (A & B & C & D).
    exists (((0, 0), Some t) :: R). split; [exact E|]. split.
    - cbn [zimage]. rewrite B, C, D. reflexivity.
    - constructor; [exact (small_of_abs_ok P _ HP A)|exact (zinv_small R t (0, 0) D)].
  Qed.
End Image2.

(* T02c, the domain: whatever the path string, the control points that convert_path_str
   produces for a slider at a decoded position satisfy [path_image] *)
Theorem path_spec_image pos s cps :
  coord_ok (px pos) = true -> coord_ok (py pos) = true ->
  path_spec s pos = (cps, true) -> path_image pos cps = true.
Proof.
  intros Hx Hy H.
  destruct (coord_ok_int _ Hx) as [Ex Bx]. destruct (coord_ok_int _ Hy) as [Ey By].
  assert (HP : Pok (zpt pos)) by (split; assumption).
  assert (Epos : pos = ipos (zpt pos)).
  { destruct pos as [x y]. cbn [px py] in *. unfold ipos, zpt. cbn [px py fst snd]. rewrite <- Ex, <- Ey. reflexivity. }
  rewrite Epos in H.
  destruct (zpath_spec_image (zpt pos) HP s cps H) as (zs & -> & Hz & Hs).
  destruct (zcp_icp_all zs Hs) as [E1 E2].
  unfold path_image. rewrite Hx, Hy, E2, E1, Hz. reflexivity.
Qed.

(* the same, stated on the transcribed convert_path_str (started on an empty curve buffer, as
   parse_hit_objects does) *)
Theorem convert_path_str_image pos s vs cps vs' :
  coord_ok (px pos) = true -> coord_ok (py pos) = true ->
  convert_path_str (mkPB [] vs) s pos = Done (mkPB cps vs', Ok) -> path_image pos cps = true.
Proof.
  intros Hx Hy H. destruct (convert_path_str_spec (mkPB [] vs) s pos) as [V HV]. rewrite HV in H.
  destruct (path_spec s pos) as [c ok] eqn:E. cbn [fst snd pb_curve app] in H.
  destruct ok; [|discriminate]. injection H as <- _. exact (path_spec_image pos s c Hx Hy E).
Qed.

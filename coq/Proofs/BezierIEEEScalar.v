(* BezierIEEEScalar: the binary32 operations of the Bezier subdivision, one
   coordinate at a time, for finite operands of magnitude <= 2^E.

   avg1 a b = (a + b) / 2.0 (one coordinate of `(midpoints[j] + midpoints[j+1]) / 2.0`):
     finite, |avg1 a b| <= 2^E, |avg1 a b - (a + b)/2| <= 2^(E-25) + 2^-150
     (half an ulp of a sum below 2^(E+1) is 2^(E-24); it is halved exactly
     unless the sum is subnormal, where the division rounds by at most
     2^-150)                                                          [avg1_spec]
   dd1 p c n = p - c * 2.0 + n (one coordinate of `prev - curr * 2.0 + next`):
     finite, |dd1 p c n| <= 11/32 whenever the real p - 2c + n has
     magnitude <= 5/16 and E <= 18 (the product is exact, the difference
     p - 2c is off by at most 2^(E-23) <= 1/32, the last sum is then rounded
     monotonically below the representable 11/32)                     [dd1_spec]
   x*x + y*y for |x|, |y| <= 11/32 is <= 1/4 after the three roundings
     (121/1024 <= 1/8; 1/8 and 1/4 are representable), so the comparison
     `> 0.25` is false                                               [far1_false] *)
From RM Require Import Model.ControlPoints Model.Curve Proofs.BezierTermination Proofs.BezierEqualPoints.
From Flocq Require Import Core BinarySingleNaN Mult_error.
From Coq Require Import Reals Lra Lia.
Open Scope R_scope.

Local Notation fin x := (is_finite x = true).
Local Notation fexp32 := (SpecFloat.fexp 24 128).
Local Notation RN := (round radix2 fexp32 (round_mode mode_NE)).
Local Notation bp := (bpow radix2).
Local Instance Hp32i : Prec_gt_0 24 := Hp32.
Local Instance He32i : Prec_lt_emax 24 128 := He32.

(* ---------- rounding to nearest in binary32: bounds ---------- *)

Lemma fexp32_eq e : fexp32 e = Z.max (e - 24) (-149).
Proof. reflexivity. Qed.

Lemma format_bpow32 e : (-149 <= e)%Z -> generic_format radix2 fexp32 (bp e).
Proof. intros H. apply generic_format_bpow. rewrite fexp32_eq. lia. Qed.

(* |x| <= 2^e: the rounding error is at most half an ulp of the binade below 2^e *)
Lemma RN_err x e : (-149 <= e)%Z -> Rabs x <= bp e ->
  Rabs (RN x - x) <= / 2 * bp (fexp32 e).
Proof.
  intros He Hx.
  destruct (generic_format_EM radix2 fexp32 x) as [Fx|Nx].
  - rewrite round_generic by (try apply valid_rnd_N; exact Fx).
    replace (x - x) with 0 by ring. rewrite Rabs_R0.
    pose proof (bpow_gt_0 radix2 (fexp32 e)). lra.
  - assert (Hlt : Rabs x < bp e).
    { destruct Hx as [Hx|Hx]; [exact Hx|]. exfalso. apply Nx.
      apply generic_format_abs_inv. rewrite Hx. apply format_bpow32. exact He. }
    assert (Zx : x <> 0) by (intros ->; apply Nx; apply generic_format_0).
    pose proof (mag_le_bpow radix2 x e Zx Hlt) as Hm.
    eapply Rle_trans; [apply error_le_half_ulp; apply FLT_exp_valid; reflexivity|].
    apply Rmult_le_compat_l; [lra|].
    rewrite ulp_neq_0 by exact Zx. apply bpow_le. unfold cexp.
    rewrite !fexp32_eq. lia.
Qed.

Lemma RN_bound x e : (-149 <= e)%Z -> Rabs x <= bp e -> Rabs (RN x) <= bp e.
Proof.
  intros He Hx. apply abs_round_le_generic; [apply FLT_exp_valid; reflexivity|apply valid_rnd_N| |exact Hx].
  apply format_bpow32. exact He.
Qed.

Lemma RN_le_format x c : generic_format radix2 fexp32 c -> Rabs x <= c -> Rabs (RN x) <= c.
Proof.
  intros Fc Hx. apply abs_round_le_generic; [apply FLT_exp_valid; reflexivity|apply valid_rnd_N|exact Fc|exact Hx].
Qed.

Lemma bpow_lt_emax e : (e <= 127)%Z -> bp e < bp 128.
Proof. intros H. apply bpow_lt. lia. Qed.

(* ---------- the operations on finite operands with a bounded exact result ---------- *)

Lemma add_ok a b e : fin a -> fin b -> (-149 <= e <= 127)%Z -> Rabs (B2R a + B2R b) <= bp e ->
  fin (S.add a b) /\ B2R (S.add a b) = RN (B2R a + B2R b).
Proof.
  intros Fa Fb He Hx.
  pose proof (Bplus_correct 24 128 Hp32 He32 mode_NE a b Fa Fb) as H.
  rewrite Rlt_bool_true in H
    by (eapply Rle_lt_trans; [apply (RN_bound _ e); [lia|exact Hx]|apply bpow_lt_emax; lia]).
  destruct H as (HR & HF & _). unfold S.add, fadd. split; assumption.
Qed.

Lemma sub_ok a b e : fin a -> fin b -> (-149 <= e <= 127)%Z -> Rabs (B2R a - B2R b) <= bp e ->
  fin (S.sub a b) /\ B2R (S.sub a b) = RN (B2R a - B2R b).
Proof.
  intros Fa Fb He Hx.
  pose proof (Bminus_correct 24 128 Hp32 He32 mode_NE a b Fa Fb) as H.
  rewrite Rlt_bool_true in H
    by (eapply Rle_lt_trans; [apply (RN_bound _ e); [lia|exact Hx]|apply bpow_lt_emax; lia]).
  destruct H as (HR & HF & _). unfold S.sub, fsub. split; assumption.
Qed.

Lemma mul_ok a b e : fin a -> fin b -> (-149 <= e <= 127)%Z -> Rabs (B2R a * B2R b) <= bp e ->
  fin (S.mul a b) /\ B2R (S.mul a b) = RN (B2R a * B2R b).
Proof.
  intros Fa Fb He Hx.
  pose proof (Bmult_correct 24 128 Hp32 He32 mode_NE a b) as H.
  rewrite Rlt_bool_true in H
    by (eapply Rle_lt_trans; [apply (RN_bound _ e); [lia|exact Hx]|apply bpow_lt_emax; lia]).
  destruct H as (HR & HF & _). unfold S.mul, fmul. rewrite Fa, Fb in HF. split; assumption.
Qed.

Lemma s2_neq0 : B2R s2 <> 0.
Proof. rewrite s2_R. lra. Qed.

Lemma div2_ok a e : fin a -> (-149 <= e <= 127)%Z -> Rabs (B2R a / 2) <= bp e ->
  fin (S.div a s2) /\ B2R (S.div a s2) = RN (B2R a / 2).
Proof.
  intros Fa He Hx.
  pose proof (Bdiv_correct 24 128 Hp32 He32 mode_NE a s2 s2_neq0) as H.
  rewrite s2_R in H.
  rewrite Rlt_bool_true in H
    by (eapply Rle_lt_trans; [apply (RN_bound _ e); [lia|exact Hx]|apply bpow_lt_emax; lia]).
  destruct H as (HR & HF & _). unfold S.div, fdiv. rewrite Fa in HF. split; assumption.
Qed.

(* halving a binary32 number: exact, or (below 2^-125) off by at most 2^-150 *)
Lemma half_err (a : F32) : Rabs (RN (B2R a / 2) - B2R a / 2) <= bp (-150).
Proof.
  destruct (Rlt_or_le (Rabs (B2R a)) (bp (-125))) as [Hs|Hl].
  - pose proof (RN_err (B2R a / 2) (-125)) as H.
    replace (/ 2 * bp (fexp32 (-125))) with (bp (-150)) in H
      by (change (fexp32 (-125)) with (-149)%Z; change (-150)%Z with (-1 + -149)%Z; rewrite bpow_plus; reflexivity).
    apply H; [lia|]. unfold Rdiv. rewrite Rabs_mult, (Rabs_pos_eq (/ 2)) by lra.
    pose proof (Rabs_pos (B2R a)). lra.
  - rewrite round_generic; [replace (B2R a / 2 - B2R a / 2) with 0 by ring; rewrite Rabs_R0; apply bpow_ge_0|apply valid_rnd_N|].
    replace (B2R a / 2) with (B2R a * bp (-1)) by (cbn; lra).
    apply (mult_bpow_exact_FLT radix2 (3 - 128 - 24) 24); [apply generic_format_B2R|].
    pose proof (mag_ge_bpow radix2 (B2R a) (-124)) as Hm.
    change (-124 - 1)%Z with (-125)%Z in Hm. specialize (Hm Hl). lia.
Qed.

(* ---------- one coordinate of the midpoint ---------- *)

Definition avg1 (a b : F32) : F32 := S.div (S.add a b) s2.

Lemma avg2_coords a b : avg2 a b = mkPos (avg1 (px a) (px b)) (avg1 (py a) (py b)).
Proof. reflexivity. Qed.

Lemma bp_double e : 2 * bp e = bp (e + 1).
Proof. rewrite bpow_plus. cbn. lra. Qed.

Lemma avg1_spec E a b : (0 <= E <= 126)%Z ->
  fin a -> fin b -> Rabs (B2R a) <= bp E -> Rabs (B2R b) <= bp E ->
  fin (avg1 a b) /\ Rabs (B2R (avg1 a b)) <= bp E /\
  Rabs (B2R (avg1 a b) - (B2R a + B2R b) / 2) <= bp (E - 25) + bp (-150).
Proof.
  intros HE Fa Fb Ha Hb. unfold avg1.
  assert (Hs : Rabs (B2R a + B2R b) <= bp (E + 1)).
  { rewrite <- bp_double. eapply Rle_trans; [apply Rabs_triang|]. lra. }
  destruct (add_ok a b (E + 1) Fa Fb ltac:(lia) Hs) as [Fs Rs].
  assert (Hsr : Rabs (B2R (S.add a b)) <= bp (E + 1)) by (rewrite Rs; apply RN_bound; [lia|exact Hs]).
  assert (Hh : Rabs (B2R (S.add a b) / 2) <= bp E).
  { unfold Rdiv. rewrite Rabs_mult, (Rabs_pos_eq (/ 2)) by lra. rewrite <- bp_double in Hsr. lra. }
  destruct (div2_ok (S.add a b) E Fs ltac:(lia) Hh) as [Fd Rd].
  split; [exact Fd|]. split; [rewrite Rd; apply RN_bound; [lia|exact Hh]|].
  rewrite Rd.
  replace (RN (B2R (S.add a b) / 2) - (B2R a + B2R b) / 2)
    with ((RN (B2R (S.add a b) / 2) - B2R (S.add a b) / 2) + (B2R (S.add a b) - (B2R a + B2R b)) / 2) by field.
  eapply Rle_trans; [apply Rabs_triang|]. rewrite Rplus_comm. apply Rplus_le_compat; [|apply half_err].
  unfold Rdiv. rewrite Rabs_mult, (Rabs_pos_eq (/ 2)) by lra. rewrite Rs.
  pose proof (RN_err (B2R a + B2R b) (E + 1) ltac:(lia) Hs) as He.
  rewrite fexp32_eq, Z.max_l in He by lia.
  replace (E + 1 - 24)%Z with (E - 25 + 1 + 1)%Z in He by ring. rewrite <- !bp_double in He.
  pose proof (bpow_gt_0 radix2 (E - 25)). lra.
Qed.

(* ---------- one coordinate of the second difference ---------- *)

Definition dd1 (p c n : F32) : F32 := S.add (S.sub p (S.mul c s2)) n.

Lemma far32_coords p c n :
  far32 p c n =
  S.gt (S.add (S.mul (dd1 (px p) (px c) (px n)) (dd1 (px p) (px c) (px n)))
              (S.mul (dd1 (py p) (py c) (py n)) (dd1 (py p) (py c) (py n)))) bezier_limit.
Proof. reflexivity. Qed.

Lemma format_11_32 : generic_format radix2 fexp32 (11 / 32).
Proof.
  replace (11 / 32) with (F2R (Float radix2 11 (-5))) by (unfold F2R; cbn; lra).
  apply generic_format_F2R. intros _. unfold cexp. rewrite fexp32_eq.
  assert (H : (mag radix2 (F2R (Float radix2 11 (-5))) <= -1)%Z).
  { apply mag_le_bpow; [unfold F2R; cbn; lra|]. unfold F2R. cbn. rewrite Rabs_pos_eq; lra. }
  cbn [Fexp]. lia.
Qed.

Lemma bp_le_32 E : (E <= 18)%Z -> bp (E - 23) <= 1 / 32.
Proof.
  intros H. replace (1 / 32) with (bp (-5)) by (cbn; lra). apply bpow_le. lia.
Qed.

(* general form: the real second difference plus the rounding error 2^(E-23)
   of p - 2c stays below the representable 11/32 *)
Lemma dd1_spec_gen E p c n : (0 <= E <= 100)%Z ->
  fin p -> fin c -> fin n ->
  Rabs (B2R p) <= bp E -> Rabs (B2R c) <= bp E -> Rabs (B2R n) <= bp E ->
  Rabs (B2R p - 2 * B2R c + B2R n) + bp (E - 23) <= 11 / 32 ->
  fin (dd1 p c n) /\ Rabs (B2R (dd1 p c n)) <= 11 / 32.
Proof.
  intros HE Fp Fc Fn Hp Hc Hn Hd. unfold dd1.
  (* c * 2: exact *)
  assert (Hm : Rabs (B2R c * B2R s2) <= bp (E + 1)).
  { rewrite s2_R, Rabs_mult, (Rabs_pos_eq 2) by lra. rewrite <- bp_double. lra. }
  destruct (mul_ok c s2 (E + 1) Fc s2_fin ltac:(lia) Hm) as [Fm Rm].
  rewrite s2_R in Rm.
  rewrite round_generic in Rm by (try apply valid_rnd_N; apply format_double).
  (* p - c*2: off by at most 2^(E-23) *)
  assert (Ht : Rabs (B2R p - B2R (S.mul c s2)) <= bp (E + 2)).
  { rewrite Rm. replace (E + 2)%Z with (E + 1 + 1)%Z by ring. rewrite <- !bp_double.
    eapply Rle_trans; [apply Rabs_triang|]. rewrite Rabs_Ropp, Rabs_mult, (Rabs_pos_eq 2) by lra.
    pose proof (bpow_gt_0 radix2 E). lra. }
  destruct (sub_ok p (S.mul c s2) (E + 2) Fp Fm ltac:(lia) Ht) as [Ft Rt].
  pose proof (RN_err _ (E + 2) ltac:(lia) Ht) as Et. rewrite <- Rt in Et.
  rewrite fexp32_eq, Z.max_l in Et by lia.
  replace (E + 2 - 24)%Z with (E - 23 + 1)%Z in Et by ring. rewrite <- bp_double in Et.
  set (t := B2R (S.sub p (S.mul c s2))) in *.
  assert (Hsum : Rabs (t + B2R n) <= 11 / 32).
  { replace (t + B2R n) with ((t - (B2R p - B2R (S.mul c s2))) + (B2R p - 2 * B2R c + B2R n))
      by (rewrite Rm; ring).
    eapply Rle_trans; [apply Rabs_triang|]. lra. }
  assert (Hs1 : Rabs (t + B2R n) <= bp 0) by (cbn; lra).
  destruct (add_ok (S.sub p (S.mul c s2)) n 0 Ft Fn ltac:(lia) Hs1) as [Fd Rd].
  split; [exact Fd|]. rewrite Rd. apply RN_le_format; [apply format_11_32|exact Hsum].
Qed.

Lemma dd1_spec E p c n : (0 <= E <= 18)%Z ->
  fin p -> fin c -> fin n ->
  Rabs (B2R p) <= bp E -> Rabs (B2R c) <= bp E -> Rabs (B2R n) <= bp E ->
  Rabs (B2R p - 2 * B2R c + B2R n) <= 5 / 16 ->
  fin (dd1 p c n) /\ Rabs (B2R (dd1 p c n)) <= 11 / 32.
Proof.
  intros HE Fp Fc Fn Hp Hc Hn Hd. apply (dd1_spec_gen E); try assumption; [lia|].
  pose proof (bp_le_32 E ltac:(lia)). lra.
Qed.

(* ---------- the comparison ---------- *)

Lemma format_eighth : generic_format radix2 fexp32 (1 / 8).
Proof. replace (1 / 8) with (bp (-3)) by (cbn; lra). apply format_bpow32. lia. Qed.
Lemma format_quarter : generic_format radix2 fexp32 (1 / 4).
Proof. replace (1 / 4) with (bp (-2)) by (cbn; lra). apply format_bpow32. lia. Qed.

Lemma sq_small (x : F32) : fin x -> Rabs (B2R x) <= 11 / 32 ->
  fin (S.mul x x) /\ 0 <= B2R (S.mul x x) <= 1 / 8.
Proof.
  intros Fx Hx.
  assert (Hsq : 0 <= B2R x * B2R x <= 1 / 8).
  { pose proof (Rabs_pos (B2R x)). rewrite <- (Rabs_pos_eq (B2R x * B2R x)) by apply Rle_0_sqr.
    rewrite Rabs_mult. nra. }
  assert (Hb : Rabs (B2R x * B2R x) <= bp 0) by (rewrite Rabs_pos_eq by lra; cbn; lra).
  destruct (mul_ok x x 0 Fx Fx ltac:(lia) Hb) as [Fm Rm].
  split; [exact Fm|]. rewrite Rm. split.
  - rewrite <- (round_0 radix2 fexp32 (round_mode mode_NE)).
    apply round_le; [apply FLT_exp_valid; reflexivity|apply valid_rnd_N|lra].
  - eapply Rle_trans; [apply Rle_abs|]. apply RN_le_format; [apply format_eighth|].
    rewrite Rabs_pos_eq; lra.
Qed.

Lemma far1_false (x y : F32) : fin x -> fin y ->
  Rabs (B2R x) <= 11 / 32 -> Rabs (B2R y) <= 11 / 32 ->
  S.gt (S.add (S.mul x x) (S.mul y y)) bezier_limit = false.
Proof.
  intros Fx Fy Hx Hy.
  destruct (sq_small x Fx Hx) as [F1 R1]. destruct (sq_small y Fy Hy) as [F2 R2].
  assert (Hb : Rabs (B2R (S.mul x x) + B2R (S.mul y y)) <= bp 0) by (rewrite Rabs_pos_eq by lra; cbn; lra).
  destruct (add_ok _ _ 0 F1 F2 ltac:(lia) Hb) as [Fs Rs].
  unfold S.gt, fgt. rewrite Bltb_correct; [|exact limit_fin|exact Fs].
  apply Rlt_bool_false. rewrite limit_R, Rs.
  eapply Rle_trans; [apply Rle_abs|]. apply RN_le_format; [apply format_quarter|].
  rewrite Rabs_pos_eq; lra.
Qed.

(* the flatness test on one triple: finite coordinates below 2^E, E <= 18,
   real second difference at most 5/16 in either coordinate -> not "far" *)
Lemma far32_false E p c n : (0 <= E <= 18)%Z ->
  fin (px p) -> fin (px c) -> fin (px n) -> fin (py p) -> fin (py c) -> fin (py n) ->
  Rabs (B2R (px p)) <= bp E -> Rabs (B2R (px c)) <= bp E -> Rabs (B2R (px n)) <= bp E ->
  Rabs (B2R (py p)) <= bp E -> Rabs (B2R (py c)) <= bp E -> Rabs (B2R (py n)) <= bp E ->
  Rabs (B2R (px p) - 2 * B2R (px c) + B2R (px n)) <= 5 / 16 ->
  Rabs (B2R (py p) - 2 * B2R (py c) + B2R (py n)) <= 5 / 16 ->
  far32 p c n = false.
Proof.
  intros HE F1 F2 F3 F4 F5 F6 B1 B2 B3 B4 B5 B6 Dx Dy.
  rewrite far32_coords.
  destruct (dd1_spec E _ _ _ HE F1 F2 F3 B1 B2 B3 Dx) as [Fx Hx].
  destruct (dd1_spec E _ _ _ HE F4 F5 F6 B4 B5 B6 Dy) as [Fy Hy].
  apply far1_false; assumption.
Qed.

(* general form of the same *)
Lemma far32_false_gen E p c n : (0 <= E <= 100)%Z ->
  fin (px p) -> fin (px c) -> fin (px n) -> fin (py p) -> fin (py c) -> fin (py n) ->
  Rabs (B2R (px p)) <= bp E -> Rabs (B2R (px c)) <= bp E -> Rabs (B2R (px n)) <= bp E ->
  Rabs (B2R (py p)) <= bp E -> Rabs (B2R (py c)) <= bp E -> Rabs (B2R (py n)) <= bp E ->
  Rabs (B2R (px p) - 2 * B2R (px c) + B2R (px n)) + bp (E - 23) <= 11 / 32 ->
  Rabs (B2R (py p) - 2 * B2R (py c) + B2R (py n)) + bp (E - 23) <= 11 / 32 ->
  far32 p c n = false.
Proof.
  intros HE F1 F2 F3 F4 F5 F6 B1 B2 B3 B4 B5 B6 Dx Dy.
  rewrite far32_coords.
  destruct (dd1_spec_gen E _ _ _ HE F1 F2 F3 B1 B2 B3 Dx) as [Fx Hx].
  destruct (dd1_spec_gen E _ _ _ HE F4 F5 F6 B4 B5 B6 Dy) as [Fy Hy].
  apply far1_false; assumption.
Qed.

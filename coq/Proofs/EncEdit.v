(* EncEdit: C03 -- a representable edit keeps the map representable, and reading
   the edited map back is the same as editing the map that was read back. *)
From RM Require Import Model.EncSpec Proofs.EncText Proofs.EncFmt Proofs.EncSimple Proofs.EncImage.
From RM Require Import Gen.Generated.
From Coq Require Import ZifyBool.
Open Scope Z_scope.

Ltac lsplit := match goal with
               | |- ?a && ?b = true => apply andb_true_iff; split; [lsplit|]
               | _ => idtac
               end.

Lemma simple_ok_intro m :
  i32_ok (bmv_version m) = true -> general_ok (hov_general (bmv_ho m)) = true ->
  editor_ok (bmv_editor m) = true -> metadata_ok (bmv_metadata m) = true ->
  difficulty_ok (hov_difficulty (bmv_ho m)) = true -> events_ok (hov_events (bmv_ho m)) = true ->
  colors_ok (bmv_colors m) = true -> sample_banks_ok (hov_control_points (bmv_ho m)) = true ->
  simple_ok m = true.
Proof. intros. unfold simple_ok. lsplit; assumption. Qed.

Lemma simple_ok_elim m : simple_ok m = true ->
  i32_ok (bmv_version m) = true /\ general_ok (hov_general (bmv_ho m)) = true /\
  editor_ok (bmv_editor m) = true /\ metadata_ok (bmv_metadata m) = true /\
  difficulty_ok (hov_difficulty (bmv_ho m)) = true /\ events_ok (hov_events (bmv_ho m)) = true /\
  colors_ok (bmv_colors m) = true /\ sample_banks_ok (hov_control_points (bmv_ho m)) = true.
Proof.
  unfold simple_ok. intros H.
  apply andb_true_iff in H. destruct H as [H Qs]. apply andb_true_iff in H. destruct H as [H Qc].
  apply andb_true_iff in H. destruct H as [H Qe]. apply andb_true_iff in H. destruct H as [H Qd].
  apply andb_true_iff in H. destruct H as [H Qm]. apply andb_true_iff in H. destruct H as [H Qed'].
  apply andb_true_iff in H. destruct H as [Qv Qg]. repeat split; assumption.
Qed.

Ltac ands H := repeat match type of H with _ && _ = true => let X := fresh "X" in
                        apply andb_true_iff in H; destruct H as [H X] end.

(* the edited map is still representable *)
Theorem representable_ok e m : simple_ok m = true -> representable e m = true -> simple_ok (apply_edit e m) = true.
Proof.
  intros Hm He. destruct (simple_ok_elim m Hm) as (Qv & Qg & Qed' & Qm & Qd & Qe & Qc & Qs).
  destruct m as [ver ed md co [gen df ev cp objs]].
  cbn [bmv_version bmv_editor bmv_metadata bmv_colors bmv_ho hov_general hov_difficulty hov_events
       hov_control_points hov_hit_objects] in *.
  destruct e; cbn [representable] in He;
    cbn [apply_edit upd_version upd_general upd_editor upd_metadata upd_difficulty upd_events upd_colors with_ho
         bmv_version bmv_editor bmv_metadata bmv_colors bmv_ho hov_general hov_difficulty hov_events
         hov_control_points hov_hit_objects];
    apply simple_ok_intro;
    cbn [bmv_version bmv_editor bmv_metadata bmv_colors bmv_ho hov_general hov_difficulty hov_events
         hov_control_points hov_hit_objects]; try assumption.
  (* General *)
  all: try (unfold general_ok in *; ands Qg; ands He;
            cbn [g_audio_file g_audio_lead_in g_preview_time g_stack_leniency g_mode g_countdown g_countdown_offset
                 g_default_sample_bank set_g_audio_file set_g_audio_lead_in set_g_preview_time set_g_stack_leniency
                 set_g_mode set_g_letterbox_in_breaks set_g_special_style set_g_widescreen_storyboard
                 set_g_epilepsy_warning set_g_samples_match_playback_rate set_g_countdown set_g_countdown_offset];
            lsplit; assumption).
  (* Editor *)
  all: try (unfold editor_ok in *; ands Qed'; ands He;
            cbn [ed_bookmarks ed_distance_spacing ed_beat_divisor ed_grid_size ed_timeline_zoom
                 set_ed_bookmarks set_ed_distance_spacing set_ed_beat_divisor set_ed_grid_size set_ed_timeline_zoom];
            lsplit; assumption).
  (* Metadata *)
  all: try (unfold metadata_ok in *; ands Qm; ands He;
            cbn [m_title m_title_unicode m_artist m_artist_unicode m_creator m_version m_source m_tags
                 m_beatmap_id m_beatmap_set_id set_m_title set_m_title_unicode set_m_artist set_m_artist_unicode
                 set_m_creator set_m_version set_m_source set_m_tags set_m_beatmap_id set_m_beatmap_set_id];
            lsplit; assumption).
  (* Difficulty *)
  all: try (unfold difficulty_ok in *; ands Qd; ands He;
            cbn [d_hp_drain_rate d_circle_size d_overall_difficulty d_approach_rate d_slider_multiplier
                 d_slider_tick_rate set_d_hp_drain_rate set_d_circle_size set_d_overall_difficulty
                 set_d_approach_rate set_d_slider_multiplier set_d_slider_tick_rate];
            lsplit; assumption).
  (* Events *)
  all: try (unfold events_ok in *; ands Qe;
            cbn [ev_background_file ev_breaks set_ev_background_file set_ev_breaks]; lsplit; assumption).
  (* Colours *)
  all: try (unfold colors_ok in *; ands Qc; ands He;
            cbn [co_custom_combo_colors co_custom_colors set_co_custom_combo_colors set_co_custom_colors];
            lsplit; assumption).
Qed.

(* reading the edited map back = editing the map that was read back: the edited
   field shows the edited value, every other field is what it was *)
Theorem read_back_edit e m : representable e m = true ->
  match e with
  | EdMode _ => without_special (read_back (apply_edit e m)) = without_special (apply_edit e (read_back m))
  | _ => read_back (apply_edit e m) = apply_edit e (read_back m)
  end.
Proof.
  intros He. destruct m as [ver ed md co [gen df ev cp objs]].
  destruct gen as [a1 a2 a3 a4 a5 a6 a7 a8 a9 a10 a11 a12 a13 a14].
  destruct md as [b1 b2 b3 b4 b5 b6 b7 b8 b9 b10].
  destruct e; cbn [representable bmv_ho hov_general g_mode] in He;
    cbn [apply_edit];
    unfold read_back, without_special, upd_version, upd_general, upd_editor, upd_metadata, upd_difficulty,
           upd_events, upd_colors, with_ho;
    cbn [bmv_version bmv_editor bmv_metadata bmv_colors bmv_ho hov_general
         hov_difficulty hov_events hov_control_points hov_hit_objects];
    unfold carry_general, carry_metadata;
    cbn [g_audio_file g_audio_lead_in g_preview_time g_default_sample_bank g_default_sample_volume
         g_stack_leniency g_mode g_letterbox_in_breaks g_special_style g_widescreen_storyboard
         g_epilepsy_warning g_samples_match_playback_rate g_countdown g_countdown_offset
         set_g_audio_file set_g_audio_lead_in set_g_preview_time set_g_stack_leniency set_g_mode
         set_g_letterbox_in_breaks set_g_special_style set_g_widescreen_storyboard set_g_epilepsy_warning
         set_g_samples_match_playback_rate set_g_countdown set_g_countdown_offset
         m_title m_title_unicode m_artist m_artist_unicode m_creator m_version m_source m_tags
         m_beatmap_id m_beatmap_set_id set_m_title set_m_title_unicode set_m_artist set_m_artist_unicode
         set_m_creator set_m_version set_m_source set_m_tags set_m_beatmap_id set_m_beatmap_set_id];
    try reflexivity.
  - (* special style: mania only *)
    rewrite He. reflexivity.
  - (* countdown offset: non-negative *)
    apply andb_true_iff in He. destruct He as [_ He].
    destruct (0 <? n) eqn:E; [reflexivity|]. assert (n = 0) by lia. subst. reflexivity.
  - (* beatmap id: positive *)
    apply andb_true_iff in He. destruct He as [_ He]. rewrite He. reflexivity.
  - apply andb_true_iff in He. destruct He as [_ He]. rewrite He. reflexivity.
Qed.

(* all six sections of a representable map are read back as [read_back] says *)
Section ReadBack.
  Variables (fmt_f64 : F64 -> str) (fmt_f32 : F32 -> str) (fmt_int : Z -> str).
  Hypothesis Hfmt : fmt_ok fmt_f64 fmt_f32 fmt_int.
  Notation rline := (render fmt_f64 fmt_f32 fmt_int).

  Definition sections_read_back (m : BeatmapV) : Prop :=
    let h := bmv_ho m in let r := read_back m in
    run_lines parse_general general_default
      (map rline (body (enc_general (hov_general h) (hov_control_points h)))) = hov_general (bmv_ho r) /\
    run_lines parse_editor editor_default (map rline (body (enc_editor (bmv_editor m)))) = bmv_editor r /\
    run_lines parse_metadata metadata_default (map rline (body (enc_metadata (bmv_metadata m)))) = bmv_metadata r /\
    run_lines parse_difficulty difficulty_default
      (map rline (body (enc_difficulty (hov_difficulty h)))) = hov_difficulty (bmv_ho r) /\
    run_lines parse_events events_default (map rline (body (enc_events (hov_events h)))) = hov_events (bmv_ho r) /\
    run_lines parse_colors colors_default (map rline (body (enc_colors (bmv_colors m)))) = bmv_colors r.

  Theorem simple_sections_read_back m : simple_ok m = true -> sections_read_back m.
  Proof.
    intros H. destruct (simple_ok_parts m H) as (_ & Qg & Qed' & Qm & Qd & Qe & Qc & Qb).
    unfold sections_read_back, read_back. cbv zeta.
    cbn [bmv_version bmv_editor bmv_metadata bmv_colors bmv_ho hov_general hov_difficulty hov_events].
    repeat split.
    - exact (general_section _ _ _ Hfmt _ _ Qg Qb).
    - exact (editor_section _ _ _ Hfmt _ Qed').
    - exact (metadata_section _ _ _ Hfmt _ Qm).
    - exact (difficulty_section _ _ _ Hfmt _ Qd).
    - exact (events_section _ _ _ Hfmt _ Qe).
    - exact (colors_section _ _ _ Hfmt _ Qc).
  Qed.

  (* T03a *)
  Theorem edit_survives e m : simple_ok m = true -> representable e m = true ->
    sections_read_back (apply_edit e m) /\
    match e with
    | EdMode _ => without_special (read_back (apply_edit e m)) = without_special (apply_edit e (read_back m))
    | _ => read_back (apply_edit e m) = apply_edit e (read_back m)
    end.
  Proof.
    intros Hm He. split; [apply simple_sections_read_back, representable_ok; assumption|].
    exact (read_back_edit e m He).
  Qed.

  (* several edits, one after the other *)
  Fixpoint all_representable (es : list edit) (m : BeatmapV) : bool :=
    match es with
    | [] => true
    | e :: r => representable e m && all_representable r (apply_edit e m)
    end.
  Theorem edits_survive es : forall m, simple_ok m = true -> all_representable es m = true ->
    simple_ok (fold_left (fun x e => apply_edit e x) es m) = true /\
    sections_read_back (fold_left (fun x e => apply_edit e x) es m).
  Proof.
    induction es as [|e r IH]; intros m Hm He.
    - cbn [fold_left]. split; [exact Hm|apply simple_sections_read_back; exact Hm].
    - cbn [all_representable] in He. apply andb_true_iff in He. destruct He as [H1 H2].
      cbn [fold_left]. apply IH; [apply representable_ok; assumption|exact H2].
  Qed.
End ReadBack.

(* PositionFacts: T19a -- facts about position_at, progress_to_dist,
   idx_of_dist and interpolate_vertices that hold for all inputs in IEEE
   arithmetic (clamping, end cases, absence of panics). *)
From RM Require Import Model.ControlPoints Model.Curve.
From Flocq Require Import IEEE754.BinarySingleNaN.
Require Import ZifyBool.
Open Scope nat_scope.

(* ---------- the transcribed std search stays within bounds, for any comparator ---------- *)

Lemma bs_loop_bound {P} (f : P -> comparison) (l : list P) fuel : forall base size,
  1 <= size -> base + size <= length l ->
  base <= bs_loop fuel f l base size < base + size.
Proof.
  induction fuel as [|k IH]; intros base size H1 H2; cbn [bs_loop]; [lia|].
  destruct (Nat.leb size 1) eqn:E; [lia|]. apply Nat.leb_gt in E.
  assert (Hh : 1 <= Nat.div size 2 < size).
  { split; [apply (Nat.div_le_lower_bound size 2 1); lia|apply Nat.div_lt; lia]. }
  set (half := Nat.div size 2) in *.
  set (base' := match nth_error l (base + half) with
                | Some p => match f p with Gt => base | _ => base + half end
                | None => base end).
  assert (Hb : base' = base \/ base' = base + half).
  { unfold base'. destruct (nth_error l (base + half)) as [p|]; [destruct (f p)|]; auto. }
  specialize (IH base' (size - half)). destruct Hb as [-> | ->]; lia.
Qed.

Lemma bsearch_by_bound {P} (f : P -> comparison) (l : list P) :
  match bsearch_by f l with inl i => i < length l | inr i => i <= length l end.
Proof.
  unfold bsearch_by. destruct l as [|x t]; [cbn; lia|].
  set (l := x :: t).
  assert (Hb : 0 <= bs_loop (length l) f l 0 (length l) < 0 + length l).
  { apply bs_loop_bound; cbn [length l]; lia. }
  destruct (nth_error l (bs_loop (length l) f l 0 (length l))) as [p|]; [destruct (f p)|]; lia.
Qed.

Lemma idx_of_dist_bound lengths d : idx_of_dist lengths d <= length lengths.
Proof.
  unfold idx_of_dist. pose proof (bsearch_by_bound (cmp_or_equal d) lengths) as H.
  destruct (bsearch_by (cmp_or_equal d) lengths); lia.
Qed.

(* ---------- clamping of the progress ---------- *)

Lemma one_sf : B2SF D.one = SpecFloat.S754_finite false 4503599627370496 (-52).
Proof. vm_compute. reflexivity. Qed.

Lemma zero_not_gt_one : D.gt D.zero D.one = false.
Proof. vm_compute. reflexivity. Qed.
Lemma zero_not_lt_zero : D.lt D.zero D.zero = false.
Proof. vm_compute. reflexivity. Qed.
Lemma one_not_lt_zero : D.lt D.one D.zero = false.
Proof. vm_compute. reflexivity. Qed.
Lemma one_not_gt_one : D.gt D.one D.one = false.
Proof. vm_compute. reflexivity. Qed.

(* above one is not below zero (no NaN involved: the hypothesis excludes it) *)
Lemma gt_one_not_lt_zero p : D.gt p D.one = true -> D.lt p D.zero = false.
Proof.
  unfold D.gt, D.lt, fgt, flt, Bltb, SpecFloat.SFltb. rewrite one_sf.
  destruct p as [s|s| |s m e H]; cbn [B2SF SpecFloat.SFcompare]; try destruct s; try discriminate; reflexivity.
Qed.

Lemma clamp01_unfold p :
  D.clamp p D.zero D.one =
  (if D.gt (if D.lt p D.zero then D.zero else p) D.one then D.one
   else if D.lt p D.zero then D.zero else p).
Proof. reflexivity. Qed.

Lemma clamp01_below p : D.lt p D.zero = true -> D.clamp p D.zero D.one = D.zero.
Proof. intros H. rewrite clamp01_unfold, H, zero_not_gt_one. reflexivity. Qed.

Lemma clamp01_above p : D.gt p D.one = true -> D.clamp p D.zero D.one = D.one.
Proof. intros H. rewrite clamp01_unfold, (gt_one_not_lt_zero p H), H. reflexivity. Qed.

(* inside [0, 1] -- and NaN, which f64::clamp keeps *)
Lemma clamp01_inside p : D.lt p D.zero = false -> D.gt p D.one = false -> D.clamp p D.zero D.one = p.
Proof. intros H0 H1. rewrite clamp01_unfold, H0, H1. reflexivity. Qed.

Lemma clamp01_zero : D.clamp D.zero D.zero D.one = D.zero.
Proof. apply clamp01_inside; [exact zero_not_lt_zero|exact zero_not_gt_one]. Qed.
Lemma clamp01_one : D.clamp D.one D.zero D.one = D.one.
Proof. apply clamp01_inside; [exact one_not_lt_zero|exact one_not_gt_one]. Qed.

(* progress_to_dist: clamp then multiply by the total distance *)
Lemma progress_to_dist_below lengths p :
  D.lt p D.zero = true -> progress_to_dist lengths p = progress_to_dist lengths D.zero.
Proof. intros H. unfold progress_to_dist. now rewrite (clamp01_below p H), clamp01_zero. Qed.

Lemma progress_to_dist_above lengths p :
  D.gt p D.one = true -> progress_to_dist lengths p = progress_to_dist lengths D.one.
Proof. intros H. unfold progress_to_dist. now rewrite (clamp01_above p H), clamp01_one. Qed.

Lemma progress_to_dist_inside lengths p :
  D.lt p D.zero = false -> D.gt p D.one = false ->
  progress_to_dist lengths p = D.mul p (dist lengths).
Proof. intros H0 H1. unfold progress_to_dist. now rewrite (clamp01_inside p H0 H1). Qed.

(* hence position_at clamps *)
Lemma position_at_below path lengths p :
  D.lt p D.zero = true -> position_at path lengths p = position_at path lengths D.zero.
Proof. intros H. unfold position_at. now rewrite (progress_to_dist_below lengths p H). Qed.

Lemma position_at_above path lengths p :
  D.gt p D.one = true -> position_at path lengths p = position_at path lengths D.one.
Proof. intros H. unfold position_at. now rewrite (progress_to_dist_above lengths p H). Qed.

(* dist: the last cumulative length, 0.0 for an empty list *)
Lemma dist_app lengths x : dist (lengths ++ [x]) = x.
Proof.
  unfold dist. replace (last_opt (lengths ++ [x])) with (Some x); [reflexivity|].
  induction lengths as [|a [|b t] IH]; cbn [app last_opt] in *; auto.
Qed.

(* ---------- interpolate_vertices: end cases ---------- *)

Lemma interpolate_empty lengths i d : interpolate_vertices [] lengths i d = Done pos0.
Proof. reflexivity. Qed.

Lemma interpolate_first p path lengths d : interpolate_vertices (p :: path) lengths 0 d = Done p.
Proof. reflexivity. Qed.

Lemma interpolate_past_end path lengths i d :
  path <> [] -> length path <= i -> interpolate_vertices path lengths i d = Done (last path pos0).
Proof.
  intros Hne Hi. unfold interpolate_vertices. destruct path as [|p t]; [congruence|].
  destruct i as [|i1]; [cbn in Hi; lia|].
  replace (nth_error (p :: t) (S i1)) with (@None Pos); [reflexivity|].
  symmetry. apply nth_error_None. exact Hi.
Qed.

(* the general case: between vertex i-1 and vertex i *)
Lemma interpolate_between path lengths i d p0 p1 d0 d1 :
  nth_error path i = Some p0 -> nth_error path (S i) = Some p1 ->
  nth_error lengths i = Some d0 -> nth_error lengths (S i) = Some d1 ->
  interpolate_vertices path lengths (S i) d =
  Done (if D.le (D.abs (D.sub d0 d1)) D.eps then p0
        else padd p0 (pmul (psub p1 p0) (f32_of_f64 (D.div (D.sub d d0) (D.sub d1 d0))))).
Proof.
  intros H0 H1 L0 L1. unfold interpolate_vertices. destruct path as [|p t]; [destruct i; discriminate|].
  rewrite H1. unfold aget. rewrite H0, L0, L1. cbn [obind].
  destruct (D.le (D.abs (D.sub d0 d1)) D.eps); reflexivity.
Qed.

(* no panic when there is a cumulative length for every vertex *)
Lemma interpolate_total path lengths i d :
  length path <= length lengths -> exists q, interpolate_vertices path lengths i d = Done q.
Proof.
  intros Hl. destruct path as [|p t] eqn:Ep; [eexists; reflexivity|]. rewrite <- Ep in *.
  destruct i as [|i1]; [rewrite Ep; eexists; reflexivity|].
  destruct (Nat.le_gt_cases (length path) (S i1)) as [Hi|Hi].
  - eexists. apply interpolate_past_end; [rewrite Ep; discriminate|exact Hi].
  - destruct (nth_error path i1) as [p0|] eqn:E0; [|apply nth_error_None in E0; lia].
    destruct (nth_error path (S i1)) as [p1|] eqn:E1; [|apply nth_error_None in E1; lia].
    destruct (nth_error lengths i1) as [d0|] eqn:F0; [|apply nth_error_None in F0; lia].
    destruct (nth_error lengths (S i1)) as [d1|] eqn:F1; [|apply nth_error_None in F1; lia].
    eexists. apply (interpolate_between path lengths i1 d p0 p1 d0 d1); assumption.
Qed.

Lemma position_at_total path lengths p :
  length path <= length lengths -> exists q, position_at path lengths p = Done q.
Proof. intros H. unfold position_at. apply interpolate_total. exact H. Qed.

(* the result is a vertex of the path or a point "between" two consecutive
   vertices, the second being the vertex the search selected *)
Lemma position_at_shape path lengths p q :
  length path <= length lengths -> position_at path lengths p = Done q ->
  (path = [] /\ q = pos0) \/ In q path \/
  exists i p0 p1 d0 d1,
    S i = idx_of_dist lengths (progress_to_dist lengths p) /\
    nth_error path i = Some p0 /\ nth_error path (S i) = Some p1 /\
    nth_error lengths i = Some d0 /\ nth_error lengths (S i) = Some d1 /\
    q = padd p0 (pmul (psub p1 p0)
          (f32_of_f64 (D.div (D.sub (progress_to_dist lengths p) d0) (D.sub d1 d0)))).
Proof.
  intros Hl. unfold position_at.
  set (d := progress_to_dist lengths p). set (i := idx_of_dist lengths d).
  destruct path as [|p' t] eqn:Ep; [cbn; intros H; inversion H; auto|]. rewrite <- Ep in *.
  destruct i as [|i1] eqn:Ei.
  - rewrite Ep. cbn. intros H. inversion H. right. left. now left.
  - destruct (Nat.le_gt_cases (length path) (S i1)) as [Hi|Hi].
    + rewrite interpolate_past_end by (try exact Hi; rewrite Ep; discriminate).
      intros H. inversion H. right. left. rewrite Ep.
      destruct (@exists_last Pos (p' :: t) ltac:(discriminate)) as (l' & x & E). rewrite E.
      rewrite last_last. apply in_or_app. right. now left.
    + destruct (nth_error path i1) as [p0|] eqn:E0; [|apply nth_error_None in E0; lia].
      destruct (nth_error path (S i1)) as [p1|] eqn:E1; [|apply nth_error_None in E1; lia].
      destruct (nth_error lengths i1) as [d0|] eqn:F0; [|apply nth_error_None in F0; lia].
      destruct (nth_error lengths (S i1)) as [d1|] eqn:F1; [|apply nth_error_None in F1; lia].
      rewrite (interpolate_between path lengths i1 d p0 p1 d0 d1) by assumption.
      destruct (D.le (D.abs (D.sub d0 d1)) D.eps); intros H; inversion H; subst q.
      * right. left. eapply nth_error_In. exact E0.
      * right. right. exists i1, p0, p1, d0, d1. repeat split; try assumption; symmetry; exact Ei.
Qed.

(* NaN progress is kept by f64::clamp: the hypothesis "progress is not NaN" is needed *)
Lemma nan_not_lt_zero : D.lt D.nan D.zero = false.
Proof. vm_compute. reflexivity. Qed.
Lemma nan_not_gt_one : D.gt D.nan D.one = false.
Proof. vm_compute. reflexivity. Qed.
Lemma progress_to_dist_nan lengths : progress_to_dist lengths D.nan = D.mul D.nan (dist lengths).
Proof. apply progress_to_dist_inside; [exact nan_not_lt_zero|exact nan_not_gt_one]. Qed.

Lemma dist_nil : dist [] = D.zero.
Proof. reflexivity. Qed.

(* ---------- progress 0 on a curve whose later cumulative lengths are positive ---------- *)

(* the search when only element 0 compares Equal and every later one Greater *)
Lemma bs_loop_first {P} (f : P -> comparison) (l : list P) fuel : forall size,
  (forall j p, 1 <= j -> nth_error l j = Some p -> f p = Gt) ->
  size <= length l -> bs_loop fuel f l 0 size = 0.
Proof.
  induction fuel as [|k IH]; intros size Hgt Hs; cbn [bs_loop]; [reflexivity|].
  destruct (Nat.leb size 1) eqn:E; [reflexivity|]. apply Nat.leb_gt in E.
  assert (Hh : 1 <= Nat.div size 2 < size).
  { split; [apply (Nat.div_le_lower_bound size 2 1); lia|apply Nat.div_lt; lia]. }
  cbn [Nat.add].
  destruct (nth_error l (Nat.div size 2)) as [p|] eqn:En.
  - rewrite (Hgt _ p (proj1 Hh) En). apply IH; [exact Hgt|lia].
  - apply IH; [exact Hgt|lia].
Qed.

Lemma bsearch_first {P} (f : P -> comparison) x t :
  f x = Eq -> (forall p, In p t -> f p = Gt) -> bsearch_by f (x :: t) = inl 0.
Proof.
  intros Hx Ht. unfold bsearch_by.
  rewrite bs_loop_first; [cbn [nth_error]; rewrite Hx; reflexivity| |lia].
  intros [|j] p Hj Hp; [lia|]. cbn [nth_error] in Hp. apply Ht. eapply nth_error_In. exact Hp.
Qed.

(* a finite, non-NaN total distance *)
Definition finite64 (x : F64) : Prop := match x with B754_zero _ | B754_finite _ _ _ _ => True | _ => False end.
(* strictly positive (not NaN) *)
Definition positive64 (x : F64) : Prop := D.gt x D.zero = true.

Lemma zero_times_finite x : finite64 x -> exists s, D.mul D.zero x = B754_zero s.
Proof. destruct x as [s|s| |s m e H]; cbn [finite64]; try contradiction; intros _; eexists; reflexivity. Qed.

Lemma cmp_zero_zero s : cmp_or_equal (B754_zero s) D.zero = Eq.
Proof. destruct s; reflexivity. Qed.

Lemma cmp_zero_positive s x : positive64 x -> cmp_or_equal (B754_zero s) x = Gt.
Proof.
  unfold positive64, cmp_or_equal, D.gt, D.lt, fgt, flt, Bltb, SpecFloat.SFltb.
  destruct x as [sx|sx| |sx m e H]; destruct s; cbn [B2SF SpecFloat.SFcompare D.zero fzero];
    try destruct sx; try discriminate; reflexivity.
Qed.

(* progress 0 (also -0.0 and every negative progress): exactly the first
   vertex, whenever the total distance is finite and every cumulative length
   after the first is positive *)
Theorem position_at_zero first path t :
  finite64 (dist (D.zero :: t)) -> Forall positive64 t ->
  position_at (first :: path) (D.zero :: t) D.zero = Done first.
Proof.
  intros Hf Hp. unfold position_at, progress_to_dist. rewrite clamp01_zero.
  destruct (zero_times_finite _ Hf) as (s & ->).
  unfold idx_of_dist. rewrite bsearch_first.
  - reflexivity.
  - apply cmp_zero_zero.
  - intros p Hin. apply cmp_zero_positive. rewrite Forall_forall in Hp. apply Hp. exact Hin.
Qed.

Lemma nth_error_app_mid_pos {A} (a : list A) y b : nth_error (a ++ y :: b) (length a) = Some y.
Proof. induction a; cbn; auto. Qed.

(* ---------- progress 1, and a vertex's own cumulative length ---------- *)
From RM Require Import Proofs.FloatFacts.
From Coq Require Import Reals.
Local Open Scope nat_scope.

(* the search when no element compares Greater: the last index *)
Lemma bs_loop_last {P} (f : P -> comparison) (l : list P) fuel : forall base size,
  (forall j p, nth_error l j = Some p -> f p <> Gt) ->
  1 <= size -> size <= S fuel -> base + size <= length l ->
  bs_loop fuel f l base size = base + size - 1.
Proof.
  induction fuel as [|k IH]; intros base size Hng H1 Hf Hl; cbn [bs_loop]; [lia|].
  destruct (Nat.leb size 1) eqn:E; [apply Nat.leb_le in E; lia|]. apply Nat.leb_gt in E.
  assert (Hh : 1 <= Nat.div size 2 < size).
  { split; [apply (Nat.div_le_lower_bound size 2 1); lia|apply Nat.div_lt; lia]. }
  set (half := Nat.div size 2) in *.
  destruct (nth_error l (base + half)) as [p|] eqn:En; [|apply nth_error_None in En; lia].
  pose proof (Hng _ p En) as Hp.
  replace (match f p with Gt => base | _ => base + half end) with (base + half)
    by (destruct (f p); congruence).
  rewrite IH; try assumption; lia.
Qed.

Lemma bsearch_last {P} (f : P -> comparison) pre x :
  f x = Eq -> (forall p, In p pre -> f p = Lt) -> bsearch_by f (pre ++ [x]) = inl (length pre).
Proof.
  intros Hx Hpre. unfold bsearch_by.
  destruct (pre ++ [x]) as [|y t] eqn:E; [destruct pre; discriminate|]. rewrite <- E.
  assert (Hlen : length (pre ++ [x]) = S (length pre)) by (rewrite app_length; cbn; lia).
  rewrite bs_loop_last; try lia.
  - rewrite Hlen. cbn [Nat.add Nat.sub]. rewrite Nat.sub_0_r.
    rewrite nth_error_app2 by lia. rewrite Nat.sub_diag. cbn [nth_error]. rewrite Hx. reflexivity.
  - intros j p Hj. apply nth_error_In in Hj. apply in_app_or in Hj. destruct Hj as [Hj|[<-|[]]].
    + rewrite (Hpre p Hj). discriminate.
    + rewrite Hx. discriminate.
Qed.

Lemma Bltb_irrefl (x : F64) : D.lt x x = false.
Proof.
  unfold D.lt, flt, Bltb, SpecFloat.SFltb.
  destruct x as [s|s| |s m e H]; cbn [B2SF SpecFloat.SFcompare]; try destruct s; try reflexivity;
    rewrite Z.compare_refl, ?Pos.compare_cont_refl; cbn; try rewrite Pos.compare_refl; reflexivity.
Qed.

Lemma cmp_self L : cmp_or_equal L L = Eq.
Proof.
  pose proof (Bltb_irrefl L) as H. unfold cmp_or_equal, D.gt, fgt. unfold D.lt, flt in *.
  rewrite H. reflexivity.
Qed.

Lemma cmp_below L x : D.lt x L = true -> cmp_or_equal L x = Lt.
Proof. intros H. unfold cmp_or_equal. rewrite H. reflexivity. Qed.

(* progress 1: the distance is exactly the last cumulative length, and when
   that length is strictly above all the others the search selects the last
   index *)
Theorem progress_one_selects_last pre L :
  fin64 L -> Forall (fun x => D.lt x L = true) pre ->
  progress_to_dist (pre ++ [L]) D.one = L /\
  idx_of_dist (pre ++ [L]) L = length pre.
Proof.
  intros HL Hpre. split.
  - unfold progress_to_dist. rewrite clamp01_one, dist_app. apply D_mul_one_l. exact HL.
  - unfold idx_of_dist. rewrite bsearch_last; [reflexivity|apply cmp_self|].
    intros p Hin. apply cmp_below. rewrite Forall_forall in Hpre. apply Hpre. exact Hin.
Qed.

(* at the cumulative length d1 of vertex i+1, coming from segment (i, i+1):
   the weight is exactly 1 and the position is p0 + (p1 - p0) -- the vertex p1
   in exact arithmetic, within one rounding of it in IEEE arithmetic *)
Theorem interpolate_at_own_length path lengths i p0 p1 d0 d1 :
  nth_error path i = Some p0 -> nth_error path (S i) = Some p1 ->
  nth_error lengths i = Some d0 -> nth_error lengths (S i) = Some d1 ->
  fin64 (D.sub d1 d0) -> B2R (D.sub d1 d0) <> 0%R ->
  fin32 (px (psub p1 p0)) -> fin32 (py (psub p1 p0)) ->
  interpolate_vertices path lengths (S i) d1 =
  Done (if D.le (D.abs (D.sub d0 d1)) D.eps then p0 else padd p0 (psub p1 p0)).
Proof.
  intros H0 H1 L0 L1 Hf Hnz Hx Hy.
  rewrite (interpolate_between path lengths i d1 p0 p1 d0 d1 H0 H1 L0 L1).
  destruct (D.le (D.abs (D.sub d0 d1)) D.eps); [reflexivity|].
  rewrite (D_div_self _ Hf Hnz), f32_of_one.
  unfold pmul. rewrite (S_mul_one_r _ Hx), (S_mul_one_r _ Hy). destruct (psub p1 p0); reflexivity.
Qed.

(* progress 1 on a curve whose last cumulative length is finite and strictly
   above the others: the last vertex q, up to the single rounding of
   p0 + (q - p0) (or the vertex before it when the last segment is within
   f64::EPSILON of zero length) *)
Theorem position_at_one ppre p0 q pre d0 L :
  length ppre = length pre ->
  fin64 L -> Forall (fun x => D.lt x L = true) (pre ++ [d0]) ->
  fin64 (D.sub L d0) -> B2R (D.sub L d0) <> 0%R ->
  fin32 (px (psub q p0)) -> fin32 (py (psub q p0)) ->
  position_at ((ppre ++ [p0]) ++ [q]) ((pre ++ [d0]) ++ [L]) D.one =
  Done (if D.le (D.abs (D.sub d0 L)) D.eps then p0 else padd p0 (psub q p0)).
Proof.
  intros Hlen HL Hall Hf Hnz Hx Hy.
  destruct (progress_one_selects_last (pre ++ [d0]) L HL Hall) as [Hd Hi].
  unfold position_at. rewrite Hd, Hi. rewrite app_length. cbn [length]. rewrite Nat.add_1_r.
  apply interpolate_at_own_length; try assumption.
  - rewrite <- app_assoc. cbn [app]. rewrite <- Hlen. apply nth_error_app_mid_pos.
  - replace (S (length pre)) with (length (ppre ++ [p0])) by (rewrite app_length; cbn; lia).
    apply nth_error_app_mid_pos.
  - rewrite <- app_assoc. cbn [app]. apply nth_error_app_mid_pos.
  - replace (S (length pre)) with (length (pre ++ [d0])) by (rewrite app_length; cbn; lia).
    apply nth_error_app_mid_pos.
Qed.

(* a single vertex: progress 1 is that vertex *)
Theorem position_at_one_single q L : fin64 L ->
  position_at [q] [L] D.one = Done q.
Proof.
  intros HL. destruct (progress_one_selects_last [] L HL (Forall_nil _)) as [Hd Hi].
  unfold position_at. cbn [app] in *. rewrite Hd, Hi. reflexivity.
Qed.

(* VertexIEEEArc: C17, circular arcs -- the vertices centre + (cos, sin)(theta_i) * radius
   as computed (theta_i in binary64, the conversion to binary32, one binary32
   product and one binary32 sum per coordinate) against the exact points of
   the circle with the SAME centre, radius, start angle and range (the real
   numbers denoted by the computed arc properties).

   libm enters as hypotheses of a Section ([cos_ok], [sin_ok]): for a finite
   binary64 argument the result is finite, of magnitude <= 1 and within el of
   the real cosine / sine.  (glibc documents errors below 1 ulp, i.e.
   el = 2^-53 would do for |result| <= 1; nothing here depends on the value.)

   theta_i = ts + fl(fl(i / (n-1)) * fl(dir * range)), |ts| <= 4, 0 <= range <= 8,
   dir = +-1, 1 <= n - 1, i <= n - 1:  |theta_i - exact| <= 40 u64 + 10 eta64 <= 2^-47
                                                                [theta_ieee]
   cos, sin are 1-Lipschitz                                      [cos_lip, sin_lip]
   coordinate: |c|, r <= 2^E:  2^E * (el + 2^-47) + 2^(E-23)        [arc_coord_ieee]
     (conversion 2^-25, product 2^(E-25), sum 2^(E-24))
   [arc_path_ieee]: every vertex of the generic path, binary32/binary64
     instance, within E_arc E el per coordinate of the vertex of arc_path_R
     with the same number of points. *)
From RM Require Import Model.ControlPoints Model.Curve Gen.Generated Proofs.EncFloat Proofs.AdjustIEEEBase Proofs.AdjustIEEESum
  Proofs.BezierEqualPoints Proofs.BezierIEEEScalar Proofs.BezierIEEE Proofs.ArcExact Proofs.HausdorffPlane Proofs.HausdorffArc
  Proofs.HausdorffCatmull Proofs.VertexIEEEBase Proofs.VertexIEEECatmull Proofs.VertexIEEECatmullPath.
From Flocq Require Import Core BinarySingleNaN.
From Coq Require Import Reals Lra Lia Psatz.
Open Scope R_scope.

Local Notation fin x := (is_finite x = true).
Local Notation fexp32 := (SpecFloat.fexp 24 128).
Local Notation RN := (round radix2 fexp32 (round_mode mode_NE)).
Local Notation bp := (bpow radix2).

(* ---------- sine and cosine are 1-Lipschitz ---------- *)

Lemma sin_abs_le x : Rabs (sin x) <= Rabs x.
Proof.
  assert (P : forall y, 0 <= y -> Rabs (sin y) <= y).
  { intros y Hy. destruct (Req_dec y 0) as [->|Hn]; [rewrite sin_0, Rabs_R0; lra|].
    assert (Hpos : 0 < y) by lra. pose proof (sin_lt_x y Hpos) as Hu. pose proof (SIN_bound y) as [Hl _].
    apply Rabs_le. split; [|lra].
    destruct (Rle_or_lt 1 y) as [H1|H1]; [lra|].
    assert (0 <= sin y); [|lra]. apply sin_ge_0; [lra|]. pose proof PI2_1. lra. }
  destruct (Rle_or_lt 0 x) as [H|H].
  - rewrite (Rabs_pos_eq x H). apply P. exact H.
  - rewrite (Rabs_left x H). replace (sin x) with (- sin (- x)) by (rewrite sin_neg; ring).
    rewrite Rabs_Ropp. apply P. lra.
Qed.

Lemma cos_lip a b : Rabs (cos a - cos b) <= Rabs (a - b).
Proof.
  rewrite form2, !Rabs_mult. replace (Rabs (-2)) with 2 by (rewrite Rabs_left; lra).
  pose proof (sin_abs_le ((a - b) / 2)) as H1. pose proof (SIN_bound ((a + b) / 2)) as H2.
  assert (H3 : Rabs (sin ((a + b) / 2)) <= 1) by (apply Rabs_le; lra).
  assert (H4 : Rabs ((a - b) / 2) = Rabs (a - b) / 2).
  { unfold Rdiv. rewrite Rabs_mult, (Rabs_pos_eq (/ 2)) by lra. reflexivity. }
  rewrite H4 in H1. pose proof (Rabs_pos (sin ((a - b) / 2))). pose proof (Rabs_pos (sin ((a + b) / 2))).
  pose proof (Rabs_pos (a - b)). nra.
Qed.

Lemma sin_lip a b : Rabs (sin a - sin b) <= Rabs (a - b).
Proof.
  rewrite form4, !Rabs_mult. rewrite (Rabs_pos_eq 2) by lra.
  pose proof (sin_abs_le ((a - b) / 2)) as H1. pose proof (COS_bound ((a + b) / 2)) as H2.
  assert (H3 : Rabs (cos ((a + b) / 2)) <= 1) by (apply Rabs_le; lra).
  assert (H4 : Rabs ((a - b) / 2) = Rabs (a - b) / 2).
  { unfold Rdiv. rewrite Rabs_mult, (Rabs_pos_eq (/ 2)) by lra. reflexivity. }
  rewrite H4 in H1. pose proof (Rabs_pos (sin ((a - b) / 2))). pose proof (Rabs_pos (cos ((a + b) / 2))).
  pose proof (Rabs_pos (a - b)). nra.
Qed.

(* ---------- f64 -> f32 is one binary32 rounding ---------- *)

Lemma f32_of_f64_RN (x : F64) k : fin x -> (-149 <= k < 128)%Z -> Rabs (B2R x) <= bp k ->
  fin (f32_of_f64 x) /\ B2R (f32_of_f64 x) = RN (B2R x).
Proof.
  intros Fx Hk H. destruct x as [s|s| |s m e Hm]; try discriminate.
  - split; [reflexivity|]. cbn [f32_of_f64 B2R]. rewrite round_0; [reflexivity|apply valid_rnd_N].
  - cbn [f32_of_f64]. unfold S.of_ZE, of_ZE.
    assert (Em : (if s then Z.neg m else Z.pos m) = cond_Zopp s (Z.pos m)) by (destruct s; reflexivity).
    rewrite Em. cbn [B2R] in H |- *.
    destruct (normalize_spec 24 128 Hp32 He32 (cond_Zopp s (Z.pos m)) e s k ltac:(lia) H) as (F & M & R).
    split; [exact F|exact R].
Qed.

(* ---------- the angle ---------- *)

Lemma D_ofZ' n : (Z.abs n < 2 ^ 53)%Z -> fin (D.of_Z n) /\ B2R (D.of_Z n) = IZR n.
Proof. intros H. destruct (of_Z_exact 53 1024 Hp64 He64 n H) as (R & F). split; assumption. Qed.

Lemma u64_small : 40 * u64 + 10 * eta64 <= bp (-47).
Proof.
  unfold u64, eta64. assert (bp (-1075) <= bp (-60)) by (apply bpow_le; lia).
  replace (bp (-60)) with (/ 1152921504606846976) in H by (cbn; lra).
  replace (bp (-47)) with (/ 140737488355328) by (cbn; lra). lra.
Qed.

Lemma theta_ieee (ts dir range : F64) (n : Z) (i : nat) :
  fin ts -> fin dir -> fin range -> Rabs (B2R ts) <= 4 -> (B2R dir = 1 \/ B2R dir = -1) -> 0 <= B2R range <= 8 ->
  (2 <= n <= 1000)%Z -> (Z.of_nat i <= n - 1)%Z ->
  let theta := D.add ts (D.mul (D.div (D.of_Z (Z.of_nat i)) (D.of_Z (n - 1))) (D.mul dir range)) in
  fin theta /\
  Rabs (B2R theta - (B2R ts + INR i / IZR (n - 1) * (B2R dir * B2R range))) <= bp (-47).
Proof.
  intros Fts Fdir Frg Hts Hdir Hrg Hn Hi theta.
  destruct (D_ofZ' (Z.of_nat i) ltac:(lia)) as [Fi Ri]. destruct (D_ofZ' (n - 1) ltac:(lia)) as [Fd Rd].
  assert (Hd1 : 1 <= IZR (n - 1)) by (apply IZR_le; lia).
  assert (Hi0 : 0 <= IZR (Z.of_nat i)) by (apply IZR_le; lia).
  assert (Hin : IZR (Z.of_nat i) <= IZR (n - 1)) by (apply IZR_le; exact Hi).
  set (f := IZR (Z.of_nat i) / IZR (n - 1)).
  assert (Hf : 0 <= f <= 1).
  { unfold f. split; [apply Rmult_le_pos; [exact Hi0|left; apply Rinv_0_lt_compat; lra]|].
    apply Rmult_le_reg_r with (IZR (n - 1)); [lra|]. unfold Rdiv. rewrite Rmult_assoc, Rinv_l by lra. lra. }
  set (dr := B2R dir * B2R range).
  assert (Hdr : Rabs dr <= 8).
  { unfold dr. destruct Hdir as [-> | ->]; [rewrite Rmult_1_l|replace (-1 * B2R range) with (- B2R range) by ring; rewrite Rabs_Ropp];
      rewrite Rabs_pos_eq; lra. }
  assert (u64p : 0 < u64) by (unfold u64; lra). assert (e64p : 0 < eta64) by (unfold eta64; apply bpow_gt_0).
  (* directed *)
  destruct (D_mul_spec dir range 3 Fdir Frg ltac:(lia) ltac:(fold dr; replace (bp 3) with 8 by (cbn; lra); exact Hdr))
    as (Fdd & Bdd & Rdd).
  pose proof (rela_abs_err _ _ _ _ Rdd) as Edd. fold dr in Edd.
  replace (bp 3) with 8 in Bdd by (cbn; lra).
  (* fract *)
  assert (Nd : B2R (D.of_Z (n - 1)) <> 0) by (rewrite Rd; lra).
  destruct (D_div_spec (D.of_Z (Z.of_nat i)) (D.of_Z (n - 1)) 0 Fi Fd Nd ltac:(lia)
              ltac:(rewrite Ri, Rd; fold f; rewrite Rabs_pos_eq by lra; cbn; lra)) as (Ffr & Bfr & Rfr).
  pose proof (rela_abs_err _ _ _ _ Rfr) as Efr. rewrite Ri, Rd in Efr. fold f in Efr.
  replace (bp 0) with 1 in Bfr by reflexivity. rewrite (Rabs_pos_eq f) in Efr by lra.
  set (fr := D.div (D.of_Z (Z.of_nat i)) (D.of_Z (n - 1))) in *. set (dd := D.mul dir range) in *.
  (* product *)
  assert (Hpb : Rabs (B2R fr * B2R dd) <= bp 3).
  { replace (bp 3) with 8 by (cbn; lra). rewrite Rabs_mult. pose proof (Rabs_pos (B2R fr)). pose proof (Rabs_pos (B2R dd)). nra. }
  destruct (D_mul_spec fr dd 3 Ffr Fdd ltac:(lia) Hpb) as (Fpr & Bpr & Rpr).
  pose proof (rela_abs_err _ _ _ _ Rpr) as Epr.
  replace (bp 3) with 8 in Bpr, Hpb by (cbn; lra).
  set (pr := D.mul fr dd) in *.
  (* sum *)
  assert (Hsb : Rabs (B2R ts + B2R pr) <= bp 4).
  { replace (bp 4) with 16 by (cbn; lra). eapply Rle_trans; [apply Rabs_triang|]. lra. }
  destruct (D_add_spec ts pr 4 Fts Fpr ltac:(lia) Hsb) as (Fth & _ & Rth).
  pose proof (rela_abs_err _ _ _ _ (rel_rela _ _ _ Rth)) as Eth.
  replace (bp 4) with 16 in Hsb by (cbn; lra).
  split; [exact Fth|]. fold theta in Eth.
  rewrite INR_IZR_INZ. fold f. fold dr.
  assert (Edd' : Rabs (B2R dd - dr) <= u64 * 8 + eta64).
  { assert (u64 * Rabs dr <= u64 * 8) by (apply Rmult_le_compat_l; lra). lra. }
  assert (Efr' : Rabs (B2R fr - f) <= u64 * 1 + eta64).
  { assert (u64 * f <= u64 * 1) by (apply Rmult_le_compat_l; lra). lra. }
  assert (Ecross : Rabs (B2R fr * B2R dd - f * dr) <= 1 * (u64 * 8 + eta64) + 8 * (u64 * 1 + eta64)).
  { replace (B2R fr * B2R dd - f * dr) with (B2R fr * (B2R dd - dr) + dr * (B2R fr - f)) by ring.
    eapply Rle_trans; [apply Rabs_triang|]. rewrite !Rabs_mult.
    pose proof (Rabs_pos (B2R fr)). pose proof (Rabs_pos (B2R dd - dr)). pose proof (Rabs_pos dr). pose proof (Rabs_pos (B2R fr - f)).
    apply Rplus_le_compat; apply Rmult_le_compat; try assumption; lra. }
  replace (B2R theta - (B2R ts + f * dr))
    with ((B2R theta - (B2R ts + B2R pr)) + ((B2R pr - B2R fr * B2R dd) + (B2R fr * B2R dd - f * dr))) by ring.
  eapply Rle_trans; [apply Rabs_triang|]. eapply Rle_trans; [apply Rplus_le_compat_l, Rabs_triang|].
  eapply Rle_trans; [|exact u64_small].
  assert (u64 * Rabs (B2R ts + B2R pr) <= u64 * 16) by (apply Rmult_le_compat_l; lra).
  assert (u64 * Rabs (B2R fr * B2R dd) <= u64 * 8) by (apply Rmult_le_compat_l; lra).
  lra.
Qed.

(* ---------- one coordinate ---------- *)

Definition E_arc (E : Z) (el : R) : R := bp E * (el + bp (-47)) + bp (E - 23).

Lemma arc_coord_ieee E (c r : F32) (trig : F64) (v el : R) :
  (0 <= E <= 100)%Z -> coord_ok E c -> coord_ok E r ->
  fin trig -> Rabs (B2R trig) <= 1 -> Rabs v <= 1 -> 0 <= el -> Rabs (B2R trig - v) <= el + bp (-47) ->
  fin (arc_coord_g f32_of_f64 S.add S.mul c trig r) /\
  Rabs (B2R (arc_coord_g f32_of_f64 S.add S.mul c trig r) - arc_coord_R (B2R c) v (B2R r)) <= E_arc E el.
Proof.
  intros HE [Fc Bc] [Fr Br] Ft Bt Bv Hel Dt.
  pose proof (bpow_gt_0 radix2 E) as HU. pose proof (bpow_gt_0 radix2 (-47)) as H47.
  destruct (f32_of_f64_RN trig 0 Ft ltac:(lia) ltac:(cbn; lra)) as [F32 R32].
  assert (N32 : nearv (f32_of_f64 trig) v 1 (el + bp (-47) + bp (0 - 25))).
  { apply (round_near _ (B2R trig)); try assumption; try lia; [apply format_one|cbn; lra]. }
  change (0 - 25)%Z with (-25)%Z in N32. rewrite bp_m25 in N32.
  assert (Nr : nearv r (B2R r) (1 * bp E) 0) by (apply nearv_self; [exact Fr|lra]).
  assert (Nc : nearv c (B2R c) (1 * bp E) 0) by (apply nearv_self; [exact Fc|lra]).
  pose proof (nU_mul E HE _ _ _ _ _ _ _ _ 1 0 1 N32 Nr eq_refl ltac:(lia) ltac:(lia) ltac:(lra)) as P.
  pose proof (nU_add E HE _ _ _ _ _ _ _ _ 2 1 2 Nc P eq_refl ltac:(lia) ltac:(lia) ltac:(lra)) as S0.
  destruct S0 as (F & _ & _ & D). unfold arc_coord_g, arc_coord_R. split; [exact F|].
  eapply Rle_trans; [exact D|]. unfold E_arc.
  replace (E - 23)%Z with (E + -23)%Z by ring. rewrite bpow_plus.
  replace (bp (-23)) with (2 * u24) by (unfold u24; cbn; lra). unfold u24. lra.
Qed.

(* ---------- the path ---------- *)

Section Arc.
  Variable lm : Libm.
  Variable el : R.
  Hypothesis el_nonneg : 0 <= el.
  Hypothesis cos_ok : forall x : F64, fin x ->
    fin (l_cos lm x) /\ Rabs (B2R (l_cos lm x)) <= 1 /\ Rabs (B2R (l_cos lm x) - cos (B2R x)) <= el.
  Hypothesis sin_ok : forall x : F64, fin x ->
    fin (l_sin lm x) /\ Rabs (B2R (l_sin lm x)) <= 1 /\ Rabs (B2R (l_sin lm x) - sin (B2R x)) <= el.

  (* the hypotheses on the computed arc properties *)
  Definition arc_props_ok (E : Z) (pr : ArcProps) : Prop :=
    point_ok E (a_centre pr) /\ coord_ok E (a_radius pr) /\
    fin (a_theta_start pr) /\ Rabs (B2R (a_theta_start pr)) <= 4 /\
    fin (a_direction pr) /\ (B2R (a_direction pr) = 1 \/ B2R (a_direction pr) = -1) /\
    fin (a_theta_range pr) /\ 0 <= B2R (a_theta_range pr) <= 8.

  Theorem arc_point_ieee E pr (n : Z) (i : nat) :
    (0 <= E <= 100)%Z -> arc_props_ok E pr -> (2 <= n <= 1000)%Z -> (Z.of_nat i <= n - 1)%Z ->
    let p := arc_point lm pr (D.of_Z (n - 1)) (D.mul (a_direction pr) (a_theta_range pr)) i in
    let q := cpt (B2R (px (a_centre pr))) (B2R (py (a_centre pr))) (B2R (a_radius pr))
                 (B2R (a_theta_start pr) + INR i / IZR (n - 1) * (B2R (a_direction pr) * B2R (a_theta_range pr))) in
    vertex_near (E_arc E el) p q.
  Proof.
    intros HE ([Ocx Ocy] & Or & Fts & Bts & Fdir & Hdir & Frg & Brg) Hn Hi p q.
    destruct (theta_ieee _ _ _ n i Fts Fdir Frg Bts Hdir Brg Hn Hi) as [Fth Dth]. cbv zeta in Fth, Dth.
    unfold p. rewrite model_arc_point.
    set (theta := D.add (a_theta_start pr) (D.mul (D.div (D.of_Z (Z.of_nat i)) (D.of_Z (n - 1))) (D.mul (a_direction pr) (a_theta_range pr)))) in *.
    set (thx := B2R (a_theta_start pr) + INR i / IZR (n - 1) * (B2R (a_direction pr) * B2R (a_theta_range pr))) in *.
    destruct (cos_ok theta Fth) as (Fc & Bc & Dc). destruct (sin_ok theta Fth) as (Fs & Bs & Ds).
    assert (Dc' : Rabs (B2R (l_cos lm theta) - cos thx) <= el + bp (-47)).
    { replace (B2R (l_cos lm theta) - cos thx) with ((B2R (l_cos lm theta) - cos (B2R theta)) + (cos (B2R theta) - cos thx)) by ring.
      eapply Rle_trans; [apply Rabs_triang|]. pose proof (cos_lip (B2R theta) thx). lra. }
    assert (Ds' : Rabs (B2R (l_sin lm theta) - sin thx) <= el + bp (-47)).
    { replace (B2R (l_sin lm theta) - sin thx) with ((B2R (l_sin lm theta) - sin (B2R theta)) + (sin (B2R theta) - sin thx)) by ring.
      eapply Rle_trans; [apply Rabs_triang|]. pose proof (sin_lip (B2R theta) thx). lra. }
    assert (Bcx : Rabs (cos thx) <= 1) by (apply Rabs_le; pose proof (COS_bound thx); lra).
    assert (Bsx : Rabs (sin thx) <= 1) by (apply Rabs_le; pose proof (SIN_bound thx); lra).
    destruct (arc_coord_ieee E _ _ _ _ el HE Ocx Or Fc Bc Bcx el_nonneg Dc') as [F1 D1].
    destruct (arc_coord_ieee E _ _ _ _ el HE Ocy Or Fs Bs Bsx el_nonneg Ds') as [F2 D2].
    unfold vertex_near, pos_fin, q, cpt. cbn [px py fst snd]. repeat split; assumption.
  Qed.

  (* the emitted arc, vertex by vertex, against the exact arc with the same
     number of points *)
  Theorem arc_path_ieee E a b c pr arc :
    (0 <= E <= 100)%Z ->
    circular_arc_properties lm a b c = Done (Some pr) -> arc_props_ok E pr ->
    approximate_circular_arc lm a b c = Done (Some arc) ->
    let n := arc_sub_points lm pr in
    let arcR := arc_path_R (B2R (px (a_centre pr))) (B2R (py (a_centre pr))) (B2R (a_radius pr))
                           (B2R (a_theta_start pr)) (B2R (a_direction pr)) (B2R (a_theta_range pr)) n in
    (2 <= n < arc_subpoint_cap)%Z /\ length arc = Z.to_nat n /\ length arcR = Z.to_nat n /\
    forall i, (i < Z.to_nat n)%nat -> vertex_near (E_arc E el) (nth i arc pos0) (nth i arcR (0, 0)).
  Proof.
    intros HE Hp Hok Hrun n arcR.
    unfold approximate_circular_arc in Hrun. rewrite Hp in Hrun. cbn [obind] in Hrun. fold n in Hrun.
    destruct (arc_subpoint_cap <=? n)%Z eqn:Ecap; [discriminate Hrun|].
    injection Hrun as <-.
    assert (Hcap : (n < arc_subpoint_cap)%Z) by (apply Z.leb_gt; exact Ecap).
    assert (Hn2 : (2 <= n)%Z).
    { unfold n, arc_sub_points. destruct (S.le _ _); [lia|]. destruct (S.le _ _); [lia|]. apply Z.le_max_r. }
    change arc_subpoint_cap with 1000%Z in Hcap.
    split; [change arc_subpoint_cap with 1000%Z; lia|].
    split; [rewrite map_length, seq_length; reflexivity|].
    split; [apply arc_path_R_length|].
    intros i Hi.
    rewrite (nth_indep _ pos0 (arc_point lm pr (D.of_Z (n - 1)) (D.mul (a_direction pr) (a_theta_range pr)) 0%nat))
      by (rewrite map_length, seq_length; exact Hi).
    rewrite map_nth, seq_nth by exact Hi. cbn [Nat.add].
    unfold arcR. rewrite arc_path_R_nth by exact Hi.
    apply arc_point_ieee; try assumption; lia.
  Qed.
End Arc.

(* ---------- the hypotheses on the arc properties are satisfiable ---------- *)

Definition ex_arc_props : ArcProps :=
  mkArc (D.of_Z 0) (D.of_Z 3) D.one (S.of_Z 100) (mkPos (S.of_Z 256) (S.of_Z 192)).

Lemma ex_arc_props_ok : arc_props_ok 8 ex_arc_props.
Proof.
  unfold arc_props_ok, ex_arc_props. cbn [a_centre a_radius a_theta_start a_direction a_theta_range].
  destruct (D_ofZ' 0 ltac:(lia)) as [F0 R0]. destruct (D_ofZ' 3 ltac:(lia)) as [F3 R3].
  destruct (D_ofZ' 1 ltac:(lia)) as [F1 R1]. change (D.of_Z 1) with D.one in F1, R1.
  split; [split; cbn [px py]; apply coord_ok_ofZ; lia|]. split; [apply coord_ok_ofZ; lia|].
  split; [exact F0|]. split; [rewrite R0, Rabs_R0; lra|]. split; [exact F1|]. split; [left; exact R1|].
  split; [exact F3|]. rewrite R3. lra.
Qed.

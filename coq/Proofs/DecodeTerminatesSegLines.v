(* DecodeTerminatesSegLines: the per-segment hypothesis of
   DecodeTerminatesSegments read off the INPUT.

   In a path field `B|p|p|..|L|q|q|..` every piece that starts with an ASCII
   letter opens a segment; its first point gets the type.  A run of k
   point pieces between two letters gives k - 1 untyped control points
   between two typed ones (k after the first letter, the origin being the typed
   one), the duplicate rule only adds types and drops points.  So the longest
   run of untyped control points is at most the longest run of pieces that do
   not start with a letter ([max_piece_run]), whatever the points are, and a
   line whose runs are at most 14 pieces long only produces sliders whose
   segments have at most 16 control points.  Together with the whole-field
   count of DecodeTerminatesLines: a decidable condition on the lines under
   which the decode returns a value. *)
From RM Require Import Model.Decoders Model.CurveDist Model.HitObjectSpec Model.EncPathSpec Model.Reader Model.Encoding.
From RM Require Import Proofs.FramingFacts Proofs.ControlPointsFacts Proofs.HitObjectLineFacts Proofs.MapLevelFacts
     Proofs.C14Clauses Proofs.DecodersFacts Proofs.DecodersTotal Proofs.DecodedObjects Proofs.EncMapImage
     Proofs.DecodeTerminatesPoints Proofs.DecodeTerminates Proofs.DecodeTerminatesLines
     Proofs.DecodeTerminatesSegments Proofs.ReaderFacts Proofs.TransparencyFacts Proofs.C01Bytes.
From RM Require Model.Curve Proofs.ThetaLoop Proofs.DecodeTerminatesSegLoop.
From Coq Require Import ZifyBool Lia.
Open Scope Z_scope.

(* ================================================================== *)
(* 1. runs of untyped control points, as a proposition                  *)
(* ================================================================== *)

Definition runs_le (k : nat) (l : list PCP) : Prop :=
  forall a b, (a <= b <= length l)%nat -> untyped_block l a b -> (b - a <= k)%nat.

Definition head_typed (l : list PCP) : Prop :=
  match l with [] => True | p :: _ => cp_type p <> None end.

Lemma runs_le_mono k k' l : (k <= k')%nat -> runs_le k l -> runs_le k' l.
Proof. intros Hk H a b Hab Hb. specialize (H a b Hab Hb). lia. Qed.

Lemma runs_le_head_typed k l : head_typed l -> (length l <= S k)%nat -> runs_le k l.
Proof.
  intros Hh Hl a b Hab Hblk. destruct a as [|a']; [|lia].
  destruct b as [|b']; [lia|]. exfalso.
  destruct (Hblk 0%nat ltac:(lia)) as (p & Ep & Tp). destruct l as [|q r]; [discriminate|].
  cbn [nth_error] in Ep. injection Ep as <-. exact (Hh Tp).
Qed.

Lemma runs_le_app k1 k2 a b : runs_le k1 a -> runs_le k2 b -> head_typed b ->
  runs_le (Nat.max k1 k2) (a ++ b).
Proof.
  intros Ha Hb Hh x y Hxy Hblk. rewrite app_length in Hxy.
  destruct (le_lt_dec y (length a)) as [Hy|Hy].
  - assert (B : untyped_block a x y).
    { intros j Hj. destruct (Hblk j Hj) as (p & Ep & Tp). rewrite nth_error_app1 in Ep by lia. eauto. }
    specialize (Ha x y ltac:(lia) B). lia.
  - destruct (le_lt_dec (length a) x) as [Hx|Hx].
    + assert (B : untyped_block b (x - length a) (y - length a)).
      { intros j Hj. destruct (Hblk (j + length a)%nat ltac:(lia)) as (p & Ep & Tp).
        rewrite nth_error_app2 in Ep by lia. replace (j + length a - length a)%nat with j in Ep by lia. eauto. }
      specialize (Hb (x - length a)%nat (y - length a)%nat ltac:(lia) B). lia.
    + exfalso. destruct (Hblk (length a) ltac:(lia)) as (p & Ep & Tp).
      rewrite nth_error_app2, Nat.sub_diag in Ep by lia.
      destruct b as [|q r]; [discriminate|]. cbn [nth_error] in Ep. injection Ep as <-. exact (Hh Tp).
Qed.

Lemma runs_le_removelast k l : runs_le k l -> runs_le k (removelast l).
Proof.
  intros H a b Hab Hblk. rewrite removelast_length in Hab.
  apply (H a b); [lia|]. intros j Hj. destruct (Hblk j Hj) as (p & Ep & Tp).
  rewrite nth_error_removelast in Ep by lia. eauto.
Qed.

(* the boolean measure satisfies it *)
Lemma runs_le_max_untyped_run l : runs_le (max_untyped_run l) l.
Proof. intros a b Hab Hblk. exact (proj1 (run_scan_block l 0 0 a b Hab Hblk)). Qed.

(* a slice between two indices without typed point strictly between *)
Lemma seg_slice_length_runs k cps start i : runs_le k cps -> (start <= i < length cps)%nat ->
  DecodeTerminatesSegLoop.untyped_between (map conv_pcp cps) start i -> (S i - start <= k + 2)%nat.
Proof.
  intros Hr Hi Hu. destruct (Nat.eq_dec start i) as [->|Hne]; [lia|].
  assert (Hblk : untyped_block cps (S start) i).
  { intros j Hj. destruct (nth_error cps j) as [p|] eqn:Ep; [|apply nth_error_None in Ep; lia].
    exists p. split; [reflexivity|]. apply pc_type_conv.
    apply (Hu j (conv_pcp p)); [lia|]. rewrite nth_error_map, Ep. reflexivity. }
  specialize (Hr (S start) i ltac:(lia) Hblk). lia.
Qed.

(* ================================================================== *)
(* 2. the path string                                                   *)
(* ================================================================== *)

Lemma mark_last_head ty seg : seg <> [] -> head_typed seg -> head_typed (mark_last ty seg).
Proof.
  destruct seg as [|p [|q r]]; intros Hne Hh; [contradiction| |].
  - cbn. discriminate.
  - exact Hh.
Qed.

Lemma split_dups_head ty : forall rest i prev seg, seg <> [] -> head_typed seg ->
  head_typed (split_dups ty i prev seg rest).
Proof.
  induction rest as [|v rest' IH]; intros i prev seg Hne Hh; cbn [split_dups]; [exact Hh|].
  destruct (pos_eqb (cp_pos v) (cp_pos prev) && negb (pt_eqb ty pt_catmull && (1 <? i)%nat) && negb (is_nil rest'))%bool.
  - pose proof (mark_last_head ty seg Hne Hh) as Hm. pose proof (mark_last_nonnil ty seg Hne) as Hn.
    destruct (mark_last ty seg) as [|m mr]; [contradiction|]. exact Hm.
  - apply IH.
    + destruct seg; discriminate.
    + destruct seg as [|p r]; [contradiction|]. exact Hh.
Qed.

Lemma seg_spec_head first toks closing offset a : seg_spec first toks closing offset = Some a -> head_typed a.
Proof.
  unfold seg_spec. destruct toks as [|letter pts]; [discriminate|].
  destruct (read_all pts offset) as [own|]; [|discriminate].
  destruct (match closing with Some c => _ | None => _ end) as [cl|]; [|discriminate].
  destruct ((if first then [pcp_default] else []) ++ own) as [|v0 rest]; [discriminate|].
  intros [= <-]. apply split_dups_head; [discriminate|]. cbn. discriminate.
Qed.

(* the longest run of pieces that do not start with an ASCII letter; [cur]: the
   pieces of the current run so far *)
Fixpoint piece_runs (cur : nat) (rest : list str) : nat :=
  match rest with
  | [] => cur
  | t :: r =>
      match t with
      | [] => cur
      | c :: _ => if is_ascii_alpha c then Nat.max cur (piece_runs 0 r) else piece_runs (S cur) r
      end
  end.

Definition max_piece_run (s : str) : nat :=
  match split_on 124 s with [] => 0%nat | _ :: rest => piece_runs 0 rest end.

Lemma path_segs_runs : forall rest first cur offset, cur <> [] ->
  head_typed (fst (path_segs first cur rest offset)) /\
  runs_le (piece_runs (length cur - 1) rest) (fst (path_segs first cur rest offset)).
Proof.
  induction rest as [|t rest' IH]; intros first cur offset Hne; cbn [path_segs piece_runs].
  - destruct (seg_spec first cur None offset) as [a|] eqn:E; cbn [fst].
    + pose proof (seg_spec_head _ _ _ _ _ E) as Hh. split; [exact Hh|].
      apply runs_le_head_typed; [exact Hh|]. pose proof (seg_spec_length _ _ _ _ _ E).
      destruct cur; [contradiction|]. cbn [length] in *. lia.
    + split; [exact I|]. intros a b Hab _. cbn [length] in Hab. lia.
  - destruct t as [|c t'].
    { cbn [fst]. split; [exact I|]. intros a b Hab _. cbn [length] in Hab. lia. }
    destruct (is_ascii_alpha c).
    + destruct (seg_spec first cur (fst (next rest')) offset) as [a|] eqn:E.
      2:{ cbn [fst]. split; [exact I|]. intros x y Hxy _. cbn [length] in Hxy. lia. }
      match goal with |- context [path_segs false ?x rest' offset] =>
        destruct (IH false x offset ltac:(discriminate)) as [Hbh Hbr];
        destruct (path_segs false x rest' offset) as [b ok] end.
      cbn [fst length] in Hbh, Hbr |- *. replace (1 - 1)%nat with 0%nat in Hbr by reflexivity.
      pose proof (seg_spec_head _ _ _ _ _ E) as Hh.
      pose proof (seg_spec_nonnil _ _ _ _ _ E) as Hn. split.
      * destruct a as [|p r]; [contradiction|]. exact Hh.
      * apply runs_le_app; [|exact Hbr|exact Hbh].
        apply runs_le_head_typed; [exact Hh|]. pose proof (seg_spec_length _ _ _ _ _ E).
        destruct cur; [contradiction|]. cbn [length] in *. lia.
    + match goal with |- context [path_segs first ?x rest' offset] =>
        destruct (IH first x offset) as [H1 H2] end.
      { destruct cur; discriminate. }
      split; [exact H1|]. rewrite app_length in H2. cbn [length] in H2.
      replace (length cur + 1 - 1)%nat with (S (length cur - 1)) in H2; [exact H2|].
      destruct cur; [contradiction|]. cbn [length]. lia.
Qed.

Theorem path_spec_runs s offset : runs_le (max_piece_run s) (fst (path_spec s offset)).
Proof.
  unfold path_spec, max_piece_run. destruct (split_on 124 s) as [|t0 rest].
  - cbn [fst]. intros a b Hab _. cbn [length] in Hab. lia.
  - destruct (path_segs_runs rest true [t0] offset ltac:(discriminate)) as [_ H]. exact H.
Qed.

(* ================================================================== *)
(* 3. one line, one object                                              *)
(* ================================================================== *)

Definition line_path_field (line : str) : str :=
  odflt [] (nth_error (skipn 5 (split_on 44 (trim_comment line))) 0).

(* at most 16 pieces, or every run of point pieces at most 14 long *)
Definition line_seg_fits (line : str) : bool :=
  (line_path_pieces line <=? 16)%nat || (max_piece_run (line_path_field line) <=? 14)%nat.
Definition lines_seg_fit (lines : list str) : bool := forallb line_seg_fits lines.

Definition obj_seg_ok (h : HitObject) : Prop :=
  match h_kind h with
  | KSlider s => (length (sl_control_points s) <= 16)%nat \/ runs_le 14 (sl_control_points s)
  | _ => True
  end.

Lemma parse_objects_seg_ok st line st' r :
  line_seg_fits line = true -> Forall obj_seg_ok (ho_objects st) ->
  parse_hit_objects st line = Done (st', r) -> Forall obj_seg_ok (ho_objects st').
Proof.
  intros Hq Hst H. destruct r.
  - destruct (accepted_line st line st' H) as (f & k & obj & Hc & _ & Ho & _ & _ & _ & _ & Hk & _).
    rewrite Ho. apply Forall_app. split; [exact Hst|]. constructor; [|constructor].
    unfold obj_seg_ok. destruct (h_kind obj) as [c|s|sp|hd]; try exact I.
    cbn [kind_ok] in Hk. destruct Hk as (_ & _ & _ & _ & _ & _ & _ & _ & Hcps & _).
    rewrite Hcps, (common_spec_rest line f Hc).
    unfold line_seg_fits in Hq. apply orb_true_iff in Hq. destruct Hq as [Hq|Hq]; apply Nat.leb_le in Hq.
    + left. unfold line_path_pieces in Hq. eapply Nat.le_trans; [apply path_spec_length|exact Hq].
    + right. eapply runs_le_mono; [exact Hq|]. apply path_spec_runs.
  - rewrite (parse_rejected_objects st line st' H). exact Hst.
Qed.

Lemma lines_seg_fit_Forall lines : lines_seg_fit lines = true -> Forall (fun l => line_seg_fits l = true) lines.
Proof. unfold lines_seg_fit. intros H. apply Forall_forall. apply forallb_forall. exact H. Qed.

Theorem parsed_seg_ok lines : lines_seg_fit lines = true ->
  Forall obj_seg_ok (ho_parsed lines) /\ Forall obj_seg_ok (bm_parsed lines).
Proof.
  intros H. apply lines_seg_fit_Forall in H.
  exact (parsed_P (fun l => line_seg_fits l = true) obj_seg_ok parse_objects_seg_ok lines H).
Qed.

(* such a slider's curve returns *)
Lemma obj_seg_ok_dist_ok lm h : ThetaLoop.atan2_in_range lm ->
  object_image h = true -> obj_seg_ok h -> slider_dist_ok (dist_of_curve lm) h.
Proof.
  intros Hlm Hi Hok. unfold obj_seg_ok in Hok. unfold slider_dist_ok.
  destruct (h_kind h) as [c|s|sp|hd] eqn:Ek; try exact I.
  pose proof (object_image_slider h s Hi Ek) as Himg.
  destruct Hok as [Hl|Hr].
  - exact (dist_of_curve_done lm (sl_mode s) (sl_pos s) (sl_control_points s) (sl_expected_dist s) 18 Hlm Himg
             (cps_fit_16 _ _ Himg Hl)).
  - assert (Hw : cps_within 18 (sl_control_points s) = true).
    { unfold cps_within. apply forallb_forall. intros p Hp.
      pose proof (path_image_within _ _ Himg) as HA. rewrite Forall_forall in HA. exact (proj2 (HA p Hp)). }
    unfold dist_of_curve.
    destruct (curve_of_done_slices lm (sl_mode s) (sl_pos s) (sl_control_points s) (sl_expected_dist s) 18 16
                Hlm Himg ltac:(lia) Hw ltac:(reflexivity)) as (c & ->).
    + intros start i Hsi Hu. exact (seg_slice_length_runs 14 _ start i Hr Hsi Hu).
    + cbn [obind]. eauto.
Qed.

(* ================================================================== *)
(* 4. the decode returns a value                                        *)
(* ================================================================== *)

Section Decode.
  Variable lm : Curve.Libm.
  Hypothesis Hlm : ThetaLoop.atan2_in_range lm.

  Lemma objs_seg_ok_dist_ok objs : Forall img objs -> Forall obj_seg_ok objs ->
    Forall (slider_dist_ok (dist_of_curve lm)) objs.
  Proof.
    intros Hi Hf. rewrite Forall_forall in *. intros h Hh.
    exact (obj_seg_ok_dist_ok lm h Hlm (Hi h Hh) (Hf h Hh)).
  Qed.

  Lemma hod_finish_done_ok s :
    cp_sorted (tpd_cp (hod_tp s)) -> Forall img (hod_objects s) -> Forall obj_seg_ok (hod_objects s) ->
    exists hv, hod_finish (dist_of_curve lm) s = Done hv.
  Proof.
    intros Hs Hi Hf. unfold hod_finish.
    destruct (tpd_finish_total (hod_tp s) Hs) as (tv & -> & Hc). cbn [obind].
    destruct (finish_hit_objects_total_on (dist_of_curve lm) (tpv_control_points tv) (ev_breaks (hod_events s))
                (d_slider_multiplier (hod_difficulty s)) (g_mode (tpv_general tv))
                (hod_objects s) Hc (objs_seg_ok_dist_ok _ Hi Hf)) as (objs & ->).
    cbn [obind]. eauto.
  Qed.

  Theorem decode_terminates_seg_lines lines : lines_seg_fit lines = true ->
    (exists hv, decode_hit_objects (dist_of_curve lm) lines = Done hv) /\
    (exists bv, decode_beatmap (dist_of_curve lm) lines = Done bv).
  Proof.
    intros H. destruct (parsed_seg_ok lines H) as [Hh Hb]. split.
    - rewrite decode_hit_objects_state. destruct (ho_state lines) as (s & -> & Hs & Hi & E). cbn [obind].
      rewrite E in Hh. exact (hod_finish_done_ok s Hs Hi Hh).
    - rewrite decode_beatmap_state. destruct (bm_state lines) as (s & -> & Hs & Hi & E). cbn [obind].
      rewrite E in Hb. unfold bmd_finish. destruct (hod_finish_done_ok (bmd_ho s) Hs Hi Hb) as (hv & ->).
      cbn [obind]. eauto.
  Qed.

  Theorem decode_reader_terminates_seg_lines r lines :
    read_all_lines r = IoDone lines -> lines_seg_fit lines = true ->
    (exists v, io_bind (read_all_lines r) (fun ls => io_of_outcome (decode_hit_objects (dist_of_curve lm) ls)) = IoDone v) /\
    (exists v, io_bind (read_all_lines r) (fun ls => io_of_outcome (decode_beatmap (dist_of_curve lm) ls)) = IoDone v).
  Proof.
    intros E H. destruct (decode_terminates_seg_lines lines H) as [(hv & Hh) (bv & Hb)].
    rewrite E. cbn [io_bind]. rewrite Hh, Hb. split; eexists; reflexivity.
  Qed.

  Theorem decode_bytes_terminates_seg_lines (b : bytes) :
    exists lines, read_all_lines (mk_reader b []) = IoDone lines /\
    (lines_seg_fit lines = true ->
     (exists v, decode_bytes_hit_objects (dist_of_curve lm) b = IoDone v) /\
     (exists v, decode_bytes_beatmap (dist_of_curve lm) b = IoDone v)).
  Proof.
    destruct (clean_stream_never_fails b [] faultless_nil) as (lines & E). exists lines.
    split; [exact E|]. intros H. exact (decode_reader_terminates_seg_lines _ lines E H).
  Qed.
End Decode.

(* the whole-field condition of DecodeTerminatesLines is a special case *)
Lemma lines_fit_seg_fit lines : lines_fit 16 lines = true -> lines_seg_fit lines = true.
Proof.
  unfold lines_fit, lines_seg_fit. intros H. apply forallb_forall. intros l Hl.
  rewrite forallb_forall in H. specialize (H l Hl). unfold line_fits in H. unfold line_seg_fits. rewrite H. reflexivity.
Qed.

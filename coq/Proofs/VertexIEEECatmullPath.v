(* VertexIEEECatmullPath: C17, Catmull segments -- the computed polyline
   (binary32, the model's catmull_subpath / approximate_catmull) against the
   exact Catmull-Rom curve of the same binary32 control points.

   [catmull_subpath_ieee]: 100 finite vertices per span, each coordinate within
     E_cat E = 72 * 2^(E-24) of the exact polynomial at k/50 resp. (k+1)/50.
   [catmull_span_hausdorff_ieee]: vertices within 3/2 E_cat E of the curve
     point, every chord point within S/8/2500 + 3/2 E_cat E of the curve point
     of the same parameter (S bounds |P''| at both ends of the span); the
     chords' parameters cover [0, 1] (HausdorffCatmull.param_cover).
   [catmull_hausdorff_ieee]: the whole segment, span by span, 3 L / 10000 +
     3/2 E_cat E with L the longest edge of the spans' control polygons.
   The last span's fourth control point is the COMPUTED phantom point
   fl(fl(2 v3) - v2): finite, magnitude <= 3 * 2^E, within 3 * 2^(E-24) of
   2 v3 - v2 per coordinate [phantom_coord]. *)
From RM Require Import Model.ControlPoints Model.Curve Gen.Generated Proofs.EncFloat Proofs.CatmullFacts
  Proofs.BezierEqualPoints Proofs.BezierIEEEScalar Proofs.BezierIEEE Proofs.ArcExact Proofs.HausdorffPlane Proofs.HausdorffCatmull
  Proofs.VertexIEEEBase Proofs.VertexIEEECatmull.
From Flocq Require Import Core BinarySingleNaN.
From Coq Require Import Reals Lra Lia Psatz.
Open Scope R_scope.

Local Notation fin x := (is_finite x = true).
Local Notation bp := (bpow radix2).

Definition posR (p : Pos) : RP2 := (B2R (px p), B2R (py p)).
Definition pointU (E : Z) (k : R) (p : Pos) : Prop := coordU E k (px p) /\ coordU E k (py p).
Definition pos_fin (p : Pos) : Prop := fin (px p) /\ fin (py p).

(* ---------- plane: perturbing one end ---------- *)

Lemma sq_le_of_abs d e : Rabs d <= e -> d * d <= e * e.
Proof. intros H. apply Rabs_le_inv in H. nra. Qed.

Lemma dist2_close a b e : 0 <= e -> Rabs (fst a - fst b) <= e -> Rabs (snd a - snd b) <= e ->
  dist2 a b <= 3 / 2 * e.
Proof.
  intros He Hx Hy. apply dist2_le; [lra|]. unfold sqd2, sqd.
  pose proof (sq_le_of_abs _ _ Hx). pose proof (sq_le_of_abs _ _ Hy). nra.
Qed.

Lemma dist2_perturb p q q' K e : 0 <= K -> 0 <= e -> dist2 p q <= K ->
  Rabs (fst q' - fst q) <= e -> Rabs (snd q' - snd q) <= e -> dist2 p q' <= K + 3 / 2 * e.
Proof.
  intros HK He H Hx Hy. unfold dist2, sqd2, sqd in *. apply norm_by_proj; [lra|]. intros ux uy Hu.
  pose proof (sq_of_sqrt_le _ _ K HK H) as H1.
  pose proof (proj_le_norm ux uy _ _ K Hu HK H1) as P1. apply Rabs_le_inv in P1.
  assert (H2 : (fst q' - fst q) * (fst q' - fst q) + (snd q' - snd q) * (snd q' - snd q) <= 3 / 2 * e * (3 / 2 * e)).
  { pose proof (sq_le_of_abs _ _ Hx). pose proof (sq_le_of_abs _ _ Hy). nra. }
  pose proof (proj_le_norm ux uy _ _ (3 / 2 * e) Hu ltac:(lra) H2) as P2. apply Rabs_le_inv in P2.
  lra.
Qed.

(* ---------- the vertices of one span ---------- *)

Lemma subpath_length v1 v2 v3 v4 : length (catmull_subpath v1 v2 v3 v4) = 100%nat.
Proof.
  unfold catmull_subpath. change (Z.to_nat catmull_detail) with 50%nat.
  set (f := fun c : nat => _).
  assert (H : forall l, length (flat_map f l) = (2 * length l)%nat).
  { induction l as [|c l IH]; [reflexivity|]. cbn [flat_map]. unfold f at 1. cbn [app length]. rewrite IH. lia. }
  rewrite H, seq_length. reflexivity.
Qed.

Definition vertex_near (e : R) (p : Pos) (q : RP2) : Prop :=
  pos_fin p /\ Rabs (B2R (px p) - fst q) <= e /\ Rabs (B2R (py p) - snd q) <= e.

Theorem catmull_subpath_ieee E v1 v2 v3 v4 :
  (0 <= E <= 100)%Z -> pointU E 1 v1 -> pointU E 1 v2 -> pointU E 1 v3 -> pointU E 3 v4 ->
  let path := catmull_subpath v1 v2 v3 v4 in
  length path = 100%nat /\
  forall k, (k < 50)%nat ->
    vertex_near (E_cat E) (nth (2 * k) path pos0) (crP (posR v1) (posR v2) (posR v3) (posR v4) (INR k / 50)) /\
    vertex_near (E_cat E) (nth (S (2 * k)) path pos0) (crP (posR v1) (posR v2) (posR v3) (posR v4) ((INR k + 1) / 50)).
Proof.
  intros HE [X1 Y1] [X2 Y2] [X3 Y3] [X4 Y4] path. split; [apply subpath_length|]. intros k Hk.
  unfold path, catmull_subpath. change (Z.to_nat catmull_detail) with 50%nat.
  set (kx := catmull_coord (px v1) (px v2) (px v3) (px v4)).
  set (ky := catmull_coord (py v1) (py v2) (py v3) (py v4)).
  destruct (nth_pairs
    (fun c => mkPos (catmull_eval kx (S.div (S.of_Z (Z.of_nat c)) catmull_detail_f))
                    (catmull_eval ky (S.div (S.of_Z (Z.of_nat c)) catmull_detail_f)))
    (fun c => mkPos (catmull_eval kx (S.div (S.add (S.of_Z (Z.of_nat c)) S.one) catmull_detail_f))
                    (catmull_eval ky (S.div (S.add (S.of_Z (Z.of_nat c)) S.one) catmull_detail_f)))
    pos0 (seq 0 50) k ltac:(rewrite seq_length; exact Hk)) as [H1 H2].
  rewrite seq_nth in H1, H2 by exact Hk. cbn [Nat.add] in H1, H2.
  rewrite H1, H2. clear H1 H2.
  destruct (catmull_param_a k Hk) as (Fa & Ra & Da). destruct (catmull_param_b k Hk) as (Fb & Rb & Db).
  assert (Qa : 0 <= INR k / 50 <= 1).
  { pose proof (pos_INR k). assert (INR k <= 50) by (replace 50 with (INR 50) by (cbn; lra); apply le_INR; lia). lra. }
  assert (Qb : 0 <= (INR k + 1) / 50 <= 1).
  { pose proof (pos_INR k). assert (INR k + 1 <= 50) by (replace 50 with (INR 50) by (cbn; lra); rewrite <- S_INR; apply le_INR; lia). lra. }
  unfold vertex_near, pos_fin, crP, posR. cbn [px py fst snd].
  destruct (catmull_vertex_coord E _ _ _ _ _ _ HE X1 X2 X3 X4 Fa Ra Qa Da) as [F1 D1].
  destruct (catmull_vertex_coord E _ _ _ _ _ _ HE Y1 Y2 Y3 Y4 Fa Ra Qa Da) as [F2 D2].
  destruct (catmull_vertex_coord E _ _ _ _ _ _ HE X1 X2 X3 X4 Fb Rb Qb Db) as [F3 D3].
  destruct (catmull_vertex_coord E _ _ _ _ _ _ HE Y1 Y2 Y3 Y4 Fb Rb Qb Db) as [F4 D4].
  fold kx in F1, D1, F3, D3. fold ky in F2, D2, F4, D4.
  repeat split; assumption.
Qed.

(* ---------- one span: vertices and chords against the curve ---------- *)

Definition span_follows_ieee (bound err : R) (v1 v2 v3 v4 : RP2) (path : list RP2) : Prop :=
  length path = 100%nat /\
  forall k, (k < 50)%nat ->
    dist2 (crP v1 v2 v3 v4 (INR k / 50)) (nth (2 * k) path (0, 0)) <= err /\
    dist2 (crP v1 v2 v3 v4 ((INR k + 1) / 50)) (nth (S (2 * k)) path (0, 0)) <= err /\
    forall s, 0 <= s <= 1 ->
      dist2 (crP v1 v2 v3 v4 ((INR k + s) / 50))
            (lerp2 (nth (2 * k) path (0, 0)) (nth (S (2 * k)) path (0, 0)) s) <= bound + err.

Lemma posR_pos0 : posR pos0 = (0, 0).
Proof. reflexivity. Qed.

Theorem catmull_span_hausdorff_ieee E v1 v2 v3 v4 S :
  (0 <= E <= 100)%Z -> pointU E 1 v1 -> pointU E 1 v2 -> pointU E 1 v3 -> pointU E 3 v4 ->
  0 <= S -> second_le S (posR v1) (posR v2) (posR v3) (posR v4) ->
  span_follows_ieee (S / 8 / 2500) (3 / 2 * E_cat E) (posR v1) (posR v2) (posR v3) (posR v4)
                    (map posR (catmull_subpath v1 v2 v3 v4)).
Proof.
  intros HE P1 P2 P3 P4 HS H2.
  destruct (catmull_subpath_ieee E v1 v2 v3 v4 HE P1 P2 P3 P4) as [Hlen Hv]. cbv zeta in Hv.
  pose proof (E_cat_pos E) as He.
  split; [rewrite map_length; exact Hlen|]. intros k Hk.
  destruct (Hv k Hk) as [(_ & Ax & Ay) (_ & Bx & By)].
  rewrite <- posR_pos0, !map_nth.
  set (a := nth (2 * k) (catmull_subpath v1 v2 v3 v4) pos0) in *.
  set (b := nth (Datatypes.S (2 * k)) (catmull_subpath v1 v2 v3 v4) pos0) in *.
  set (C := crP (posR v1) (posR v2) (posR v3) (posR v4)) in *.
  split; [|split].
  - unfold dist2. rewrite sqd2_sym. apply dist2_close; [lra|exact Ax|exact Ay].
  - unfold dist2. rewrite sqd2_sym. apply dist2_close; [lra|exact Bx|exact By].
  - intros s Hs.
    pose proof (catmull_chord_close (posR v1) (posR v2) (posR v3) (posR v4) S k s HS H2 Hk Hs) as Hc.
    fold C in Hc.
    assert (HK : 0 <= S / 8 / 2500) by lra.
    apply (dist2_perturb _ (lerp2 (C (INR k / 50)) (C ((INR k + 1) / 50)) s)); try assumption; [lra| |].
    + unfold lerp2, posR. cbn [fst snd].
      replace ((1 - s) * B2R (px a) + s * B2R (px b) - ((1 - s) * fst (C (INR k / 50)) + s * fst (C ((INR k + 1) / 50))))
        with ((1 - s) * (B2R (px a) - fst (C (INR k / 50))) + s * (B2R (px b) - fst (C ((INR k + 1) / 50)))) by ring.
      eapply Rle_trans; [apply Rabs_triang|]. rewrite !Rabs_mult, (Rabs_pos_eq (1 - s)), (Rabs_pos_eq s) by lra.
      apply Rabs_le_inv in Ax, Bx. pose proof (Rabs_pos (B2R (px a) - fst (C (INR k / 50)))).
      pose proof (Rabs_pos (B2R (px b) - fst (C ((INR k + 1) / 50)))).
      assert (Ax' : Rabs (B2R (px a) - fst (C (INR k / 50))) <= E_cat E) by (apply Rabs_le; lra).
      assert (Bx' : Rabs (B2R (px b) - fst (C ((INR k + 1) / 50))) <= E_cat E) by (apply Rabs_le; lra).
      nra.
    + unfold lerp2, posR. cbn [fst snd].
      replace ((1 - s) * B2R (py a) + s * B2R (py b) - ((1 - s) * snd (C (INR k / 50)) + s * snd (C ((INR k + 1) / 50))))
        with ((1 - s) * (B2R (py a) - snd (C (INR k / 50))) + s * (B2R (py b) - snd (C ((INR k + 1) / 50)))) by ring.
      eapply Rle_trans; [apply Rabs_triang|]. rewrite !Rabs_mult, (Rabs_pos_eq (1 - s)), (Rabs_pos_eq s) by lra.
      pose proof (Rabs_pos (B2R (py a) - snd (C (INR k / 50)))).
      pose proof (Rabs_pos (B2R (py b) - snd (C ((INR k + 1) / 50)))).
      nra.
Qed.

Corollary catmull_span_hausdorff_ieee_edges E v1 v2 v3 v4 L :
  (0 <= E <= 100)%Z -> pointU E 1 v1 -> pointU E 1 v2 -> pointU E 1 v3 -> pointU E 3 v4 ->
  0 <= L -> span_edges_le L (posR v1) (posR v2) (posR v3) (posR v4) ->
  span_follows_ieee (3 * L / 10000) (3 / 2 * E_cat E) (posR v1) (posR v2) (posR v3) (posR v4)
                    (map posR (catmull_subpath v1 v2 v3 v4)).
Proof.
  intros HE P1 P2 P3 P4 HL He. replace (3 * L / 10000) with (6 * L / 8 / 2500) by field.
  apply catmull_span_hausdorff_ieee; try assumption; [lra|]. apply second_by_edges; assumption.
Qed.

(* ---------- the phantom point v3 * 2.0 - v2 ---------- *)

Lemma phantom_coord E a b : (0 <= E <= 100)%Z -> coord_ok E a -> coord_ok E b ->
  coordU E 3 (S.sub (S.mul a s2) b) /\
  Rabs (B2R (S.sub (S.mul a s2) b) - (B2R a * 2 - B2R b)) <= 3 * bp (E - 24).
Proof.
  intros HE [Fa Ba] [Fb Bb].
  pose proof (bpow_gt_0 radix2 E) as HU.
  assert (Na : nearv a (B2R a) (1 * bp E) 0) by (apply nearv_self; [exact Fa|lra]).
  assert (Nb : nearv b (B2R b) (1 * bp E) 0) by (apply nearv_self; [exact Fb|lra]).
  pose proof (nU_mul E HE _ _ _ _ _ _ _ _ 2 1 2 Na (near_lit 2 ltac:(lia)) eq_refl ltac:(lia) ltac:(lia) ltac:(lra)) as M.
  pose proof (nU_sub E HE _ _ _ _ _ _ _ _ 3 2 4 M Nb eq_refl ltac:(lia) ltac:(lia) ltac:(lra)) as D.
  change (S.of_Z 2) with s2 in D.
  destruct D as (F & B1 & _ & D). split; [split; assumption|].
  eapply Rle_trans; [exact D|]. rewrite (w_eq E). unfold u24. lra.
Qed.

(* ---------- the spans of a segment ---------- *)

Definition span32 : Type := span (T := F32).
Definition spanR (sp : span32) : span (T := R) :=
  let '(v1, v2, v3, v4) := sp in (posR (pos_of2 v1), posR (pos_of2 v2), posR (pos_of2 v3), posR (pos_of2 v4)).
Definition span_pts_ok (E : Z) (sp : span32) : Prop :=
  let '(v1, v2, v3, v4) := sp in
  pointU E 1 (pos_of2 v1) /\ pointU E 1 (pos_of2 v2) /\ pointU E 1 (pos_of2 v3) /\ pointU E 3 (pos_of2 v4).

Lemma point_ok_U1 E p : point_ok E p -> pointU E 1 (pos_of2 (pair_of p)).
Proof. rewrite pos_pair. intros [[F1 B1] [F2 B2]]. split; split; try assumption; lra. Qed.

Lemma point_ok_U3 E p : point_ok E p -> pointU E 3 (pos_of2 (pair_of p)).
Proof.
  rewrite pos_pair. intros [[F1 B1] [F2 B2]]. pose proof (bpow_gt_0 radix2 E).
  split; split; try assumption; lra.
Qed.

Lemma phantom_U3 E a b : (0 <= E <= 100)%Z -> point_ok E a -> point_ok E b ->
  pointU E 3 (pos_of2 (phantom32 (pair_of a) (pair_of b))).
Proof.
  intros HE [Ax Ay] [Bx By]. unfold phantom32. rewrite !pos_pair.
  unfold psub, pmul. cbn [px py]. split.
  - exact (proj1 (phantom_coord E _ _ HE Ax Bx)).
  - exact (proj1 (phantom_coord E _ _ HE Ay By)).
Qed.

Lemma rest_spans_ok E : (0 <= E <= 100)%Z -> forall pts, Forall (point_ok E) pts ->
  Forall (span_pts_ok E) (catmull_rest_spans phantom32 (map pair_of pts)).
Proof.
  intros HE. induction pts as [|v1 pts IH]; intros H; [constructor|].
  destruct pts as [|v2 [|v3 r]]; try constructor.
  - inversion H as [|? ? H1 H']; subst. inversion H' as [|? ? H2 H'']; subst. inversion H'' as [|? ? H3 H''']; subst.
    cbn [map]. unfold span_pts_ok.
    split; [apply point_ok_U1; exact H1|]. split; [apply point_ok_U1; exact H2|]. split; [apply point_ok_U1; exact H3|].
    destruct r as [|v4 r]; cbn [map].
    + apply phantom_U3; assumption.
    + inversion H''' as [|? ? H4 _]; subst. apply point_ok_U3; exact H4.
  - apply IH. inversion H; assumption.
Qed.

Lemma spans_ok E pts : (0 <= E <= 100)%Z -> Forall (point_ok E) pts ->
  Forall (span_pts_ok E) (catmull_spans phantom32 (map pair_of pts)).
Proof.
  intros HE H. destruct pts as [|p0 [|p1 r]]; try constructor.
  - inversion H as [|? ? H0 H']; subst. inversion H' as [|? ? H1 H'']; subst.
    cbn [map]. unfold span_pts_ok.
    split; [apply point_ok_U1; exact H0|]. split; [apply point_ok_U1; exact H0|]. split; [apply point_ok_U1; exact H1|].
    destruct r as [|v4 r]; cbn [map].
    + apply phantom_U3; assumption.
    + inversion H'' as [|? ? H4 _]; subst. apply point_ok_U3; exact H4.
  - apply (rest_spans_ok E HE (p0 :: p1 :: r) H).
Qed.

Definition span_path32 (sp : span32) : list Pos :=
  map pos_of2 (span_path f32_ops S.div S.one catmull_detail_f of_nat32 sp).

Lemma span_path32_subpath v1 v2 v3 v4 :
  span_path32 (v1, v2, v3, v4) = catmull_subpath (pos_of2 v1) (pos_of2 v2) (pos_of2 v3) (pos_of2 v4).
Proof.
  unfold span_path32, span_path. rewrite model_catmull_subpath.
  destruct v1, v2, v3, v4. reflexivity.
Qed.

(* the whole Catmull segment as computed in binary32 *)
Theorem catmull_hausdorff_ieee E points cat L :
  (0 <= E <= 100)%Z -> Forall (point_ok E) points ->
  approximate_catmull points = Done cat -> 0 <= L ->
  let spans := catmull_spans phantom32 (map pair_of points) in
  Forall (fun sp => span_ok L (spanR sp)) spans ->
  cat = flat_map span_path32 spans /\
  Forall (fun sp => let '(v1, v2, v3, v4) := spanR sp in
            span_follows_ieee (3 * L / 10000) (3 / 2 * E_cat E) v1 v2 v3 v4 (map posR (span_path32 sp))) spans.
Proof.
  intros HE Hok Hrun HL spans Hedges. split.
  - rewrite model_approximate_catmull in Hrun. unfold approximate_catmull_g in Hrun.
    destruct points as [|p0 pts]; [discriminate|]. cbn [map] in Hrun.
    injection Hrun as <-. unfold span_path32. rewrite map_flat_map. reflexivity.
  - pose proof (spans_ok E points HE Hok) as Hs. fold spans in Hs.
    induction Hs as [|sp l Hsp _ IH]; [constructor|].
    inversion Hedges as [|? ? He1 He2]; subst. constructor; [|apply IH; exact He2].
    destruct sp as [[[v1 v2] v3] v4]. destruct Hsp as (P1 & P2 & P3 & P4).
    rewrite span_path32_subpath. cbn [spanR] in *.
    apply catmull_span_hausdorff_ieee_edges; assumption.
Qed.

(* ---------- the hypotheses are satisfiable ---------- *)

Lemma coord_ok_ofZ E n : (0 <= E <= 23)%Z -> (Z.abs n <= 2 ^ E)%Z -> coord_ok E (S.of_Z n).
Proof.
  intros HE Hn.
  assert (2 ^ E <= 2 ^ 23)%Z by (apply Z.pow_le_mono_r; lia).
  destruct (S_ofZ' n ltac:(lia)) as [F Rn]. split; [exact F|].
  rewrite Rn, <- abs_IZR. change 2%Z with (radix_val radix2) in Hn.
  rewrite <- IZR_Zpower by lia. apply IZR_le. exact Hn.
Qed.

Definition ex_cat : list Pos :=
  [mkPos (S.of_Z 0) (S.of_Z 0); mkPos (S.of_Z 100) (S.of_Z 50); mkPos (S.of_Z 200) (S.of_Z 0)].

Lemma ex_cat_ok : Forall (point_ok 8) ex_cat.
Proof.
  unfold ex_cat. repeat (apply Forall_cons; [split; cbn [px py]; apply coord_ok_ofZ; lia|]). apply Forall_nil.
Qed.

Lemma ex_cat_runs : exists cat, approximate_catmull ex_cat = Done cat.
Proof. eexists. reflexivity. Qed.

Lemma ex_cat_dump : map dump_pos ex_cat = [[0; 0]; [1120403456; 1112014848]; [1128792064; 0]]%Z.
Proof. vm_compute. reflexivity. Qed.

(* ---------- the edge hypothesis of [catmull_hausdorff_ieee], from the points ----------
   consecutive control points at most L apart (as real points): every span's
   edges, the one to the COMPUTED phantom point included, are at most
   L + 9/2 * 2^(E-24) long *)

Lemma sqd2_le_of_dist2 p q c : 0 <= c -> dist2 p q <= c -> sqd2 p q <= c * c.
Proof.
  intros Hc H. unfold dist2, sqd2, sqd in *. pose proof (sq_of_sqrt_le _ _ c Hc H). nra.
Qed.

Lemma sqd2_mono p q L L' : 0 <= L -> L <= L' -> sqd2 p q <= L * L -> sqd2 p q <= L' * L'.
Proof. intros. nra. Qed.

Lemma phantom_edge E a b L : (0 <= E <= 100)%Z -> point_ok E a -> point_ok E b -> 0 <= L ->
  sqd2 (posR b) (posR a) <= L * L ->
  sqd2 (posR a) (posR (pos_of2 (phantom32 (pair_of a) (pair_of b))))
  <= (L + 9 / 2 * bp (E - 24)) * (L + 9 / 2 * bp (E - 24)).
Proof.
  intros HE [Ax Ay] [Bx By] HL H.
  pose proof (bpow_gt_0 radix2 (E - 24)) as Hw.
  unfold phantom32. rewrite !pos_pair. unfold psub, pmul. cbn [px py].
  destruct (phantom_coord E _ _ HE Ax Bx) as [_ Dx]. destruct (phantom_coord E _ _ HE Ay By) as [_ Dy].
  apply sqd2_le_of_dist2; [lra|].
  replace (9 / 2 * bp (E - 24)) with (3 / 2 * (3 * bp (E - 24))) by field.
  apply (dist2_perturb _ (phantomR (posR a) (posR b))); try lra.
  - apply dist2_le; [exact HL|]. rewrite sqd2_phantom. nra.
  - unfold posR, phantomR. cbn [fst snd px py]. exact Dx.
  - unfold posR, phantomR. cbn [fst snd px py]. exact Dy.
Qed.

Lemma rest_spans_edges_ieee E L : (0 <= E <= 100)%Z -> 0 <= L -> forall pts,
  Forall (point_ok E) pts -> edges_le L (map posR pts) ->
  Forall (fun sp => span_ok (L + 9 / 2 * bp (E - 24)) (spanR sp)) (catmull_rest_spans phantom32 (map pair_of pts)).
Proof.
  intros HE HL. pose proof (bpow_gt_0 radix2 (E - 24)) as Hw.
  induction pts as [|v1 pts IH]; intros Hok H; [constructor|].
  destruct pts as [|v2 [|v3 r]]; try constructor.
  - cbn [map edges_le] in H. destruct H as (H12 & H23 & Hr).
    inversion Hok as [|? ? O1 Hok1]; subst. inversion Hok1 as [|? ? O2 Hok2]; subst. inversion Hok2 as [|? ? O3 Hok3]; subst.
    cbn [map]. unfold spanR, span_ok, span_edges_le. rewrite !pos_pair.
    split; [apply (sqd2_mono _ _ L); [exact HL|lra|exact H12]|].
    split; [apply (sqd2_mono _ _ L); [exact HL|lra|exact H23]|].
    destruct r as [|v4 r]; cbn [map].
    + apply phantom_edge; assumption.
    + rewrite pos_pair. apply (sqd2_mono _ _ L); [exact HL|lra|]. exact (proj1 Hr).
  - apply IH; [inversion Hok; assumption|]. cbn [map edges_le] in H. exact (proj2 H).
Qed.

Lemma spans_edges_ieee E L pts : (0 <= E <= 100)%Z -> 0 <= L ->
  Forall (point_ok E) pts -> edges_le L (map posR pts) ->
  Forall (fun sp => span_ok (L + 9 / 2 * bp (E - 24)) (spanR sp)) (catmull_spans phantom32 (map pair_of pts)).
Proof.
  intros HE HL Hok H. pose proof (bpow_gt_0 radix2 (E - 24)) as Hw.
  destruct pts as [|p0 [|p1 r]]; try constructor.
  - cbn [map edges_le] in H. destruct H as (H01 & Hr).
    inversion Hok as [|? ? O0 Hok1]; subst. inversion Hok1 as [|? ? O1 Hok2]; subst.
    cbn [map]. unfold spanR, span_ok, span_edges_le. rewrite !pos_pair.
    assert (HLL : 0 <= (L + 9 / 2 * bp (E - 24)) * (L + 9 / 2 * bp (E - 24))) by nra.
    split; [rewrite sqd2_refl0; exact HLL|].
    split; [apply (sqd2_mono _ _ L); [exact HL|lra|exact H01]|].
    destruct r as [|v4 r]; cbn [map].
    + apply phantom_edge; assumption.
    + rewrite pos_pair. apply (sqd2_mono _ _ L); [exact HL|lra|]. cbn [map edges_le] in Hr. exact (proj1 Hr).
  - apply (rest_spans_edges_ieee E L HE HL (p0 :: p1 :: r) Hok H).
Qed.

(* the whole segment, hypotheses on the control points only *)
Theorem catmull_hausdorff_ieee_points E points cat L :
  (0 <= E <= 100)%Z -> Forall (point_ok E) points ->
  approximate_catmull points = Done cat -> 0 <= L -> edges_le L (map posR points) ->
  let spans := catmull_spans phantom32 (map pair_of points) in
  let L' := L + 9 / 2 * bp (E - 24) in
  cat = flat_map span_path32 spans /\
  Forall (fun sp => let '(v1, v2, v3, v4) := spanR sp in
            span_follows_ieee (3 * L' / 10000) (3 / 2 * E_cat E) v1 v2 v3 v4 (map posR (span_path32 sp))) spans.
Proof.
  intros HE Hok Hrun HL He spans L'.
  pose proof (bpow_gt_0 radix2 (E - 24)) as Hw.
  apply (catmull_hausdorff_ieee E points cat L' HE Hok Hrun); [unfold L'; lra|].
  apply spans_edges_ieee; assumption.
Qed.

Lemma ex_cat_edges : edges_le 112 (map posR ex_cat).
Proof.
  unfold ex_cat. cbn [map edges_le]. unfold posR, sqd2, sqd. cbn [px py fst snd].
  rewrite (proj2 (S_ofZ' 0 ltac:(lia))), (proj2 (S_ofZ' 100 ltac:(lia))), (proj2 (S_ofZ' 50 ltac:(lia))),
          (proj2 (S_ofZ' 200 ltac:(lia))).
  repeat split; lra.
Qed.

(* ---------- the computed vertices are again bounded: |c| <= 14 * 2^E <= 2^(E+4) ---------- *)

Lemma coordU14 E x : fin x -> Rabs (B2R x) <= 14 * bp E -> coord_ok (E + 4) x.
Proof.
  intros F B. split; [exact F|]. rewrite bpow_plus. replace (bp 4) with 16 by (cbn; lra).
  pose proof (bpow_gt_0 radix2 E). lra.
Qed.

Lemma catmull_subpath_ok E v1 v2 v3 v4 :
  (0 <= E <= 100)%Z -> pointU E 1 v1 -> pointU E 1 v2 -> pointU E 1 v3 -> pointU E 3 v4 ->
  Forall (point_ok (E + 4)) (catmull_subpath v1 v2 v3 v4).
Proof.
  intros HE [X1 Y1] [X2 Y2] [X3 Y3] [X4 Y4]. unfold catmull_subpath.
  change (Z.to_nat catmull_detail) with 50%nat.
  apply Forall_flat_map. rewrite Forall_forall. intros k Hk. apply in_seq in Hk.
  assert (Hk50 : (k < 50)%nat) by lia.
  destruct (catmull_param_a k Hk50) as (Fa & Ra & _). destruct (catmull_param_b k Hk50) as (Fb & Rb & _).
  assert (Q0 : 0 <= 0 <= 1) by lra.
  repeat (apply Forall_cons || apply Forall_nil); split; cbn [px py]; apply coordU14.
  - exact (proj1 (catmull_eval_ieee E HE _ _ _ _ _ X1 X2 X3 X4 Fa Ra)).
  - exact (catmull_eval_bound E HE _ _ _ _ _ X1 X2 X3 X4 Fa Ra).
  - exact (proj1 (catmull_eval_ieee E HE _ _ _ _ _ Y1 Y2 Y3 Y4 Fa Ra)).
  - exact (catmull_eval_bound E HE _ _ _ _ _ Y1 Y2 Y3 Y4 Fa Ra).
  - exact (proj1 (catmull_eval_ieee E HE _ _ _ _ _ X1 X2 X3 X4 Fb Rb)).
  - exact (catmull_eval_bound E HE _ _ _ _ _ X1 X2 X3 X4 Fb Rb).
  - exact (proj1 (catmull_eval_ieee E HE _ _ _ _ _ Y1 Y2 Y3 Y4 Fb Rb)).
  - exact (catmull_eval_bound E HE _ _ _ _ _ Y1 Y2 Y3 Y4 Fb Rb).
Qed.

Theorem approximate_catmull_ok E points cat :
  (0 <= E <= 100)%Z -> Forall (point_ok E) points -> approximate_catmull points = Done cat ->
  Forall (point_ok (E + 4)) cat.
Proof.
  intros HE Hok Hrun.
  rewrite model_approximate_catmull in Hrun. unfold approximate_catmull_g in Hrun.
  destruct points as [|p0 pts]; [discriminate|]. cbn [map] in Hrun. injection Hrun as <-.
  rewrite map_flat_map. apply Forall_flat_map.
  pose proof (spans_ok E (p0 :: pts) HE Hok) as Hs. cbn [map] in Hs.
  eapply Forall_impl; [|exact Hs]. intros sp Hsp. destruct sp as [[[v1 v2] v3] v4].
  destruct Hsp as (P1 & P2 & P3 & P4).
  change (map pos_of2 (span_path f32_ops S.div S.one catmull_detail_f of_nat32 (v1, v2, v3, v4))) with (span_path32 (v1, v2, v3, v4)).
  rewrite span_path32_subpath. apply catmull_subpath_ok; assumption.
Qed.

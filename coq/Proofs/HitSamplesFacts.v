(* Facts about Model/HitSamples.v: the transcribed bank reader and sound-type
   expansion compute the declarative tables of Model/HitObjectSpec.v. *)
From RM Require Import Model.Text Model.Num Model.HitSamples Model.PathString
     Model.HitObjectLine Model.HitObjectSpec.
From RM Require Import Gen.Generated.
From Coq Require Import ZifyBool.
Open Scope Z_scope.

(* ---------- single-bit masks ---------- *)
Lemma land_pow2_testbit : forall t k, 0 <= k ->
  (Z.land t (2 ^ k) =? 0) = negb (Z.testbit t k).
Proof.
  intros t k Hk.
  destruct (Z.testbit t k) eqn:Hb; cbn [negb].
  - apply Z.eqb_neq. intro H0.
    assert (Hx : Z.testbit (Z.land t (2 ^ k)) k = true).
    { rewrite Z.land_spec, Hb, Z.pow2_bits_true by assumption. reflexivity. }
    rewrite H0, Z.bits_0 in Hx. discriminate.
  - apply Z.eqb_eq. apply Z.bits_inj'. intros n Hn.
    rewrite Z.land_spec, Z.bits_0.
    destruct (Z.eq_dec n k) as [->|Hne].
    + rewrite Hb. reflexivity.
    + rewrite Z.pow2_bits_false by (intro; apply Hne; symmetry; assumption).
      apply andb_false_r.
Qed.

Lemma mask_flag_bit : forall f t, 0 < f -> f = 2 ^ Z.log2 f ->
  negb (Z.land t f =? 0) = flag_bit f t.
Proof.
  intros f t Hf Hp. unfold flag_bit.
  rewrite Hp at 1. rewrite land_pow2_testbit by apply Z.log2_nonneg.
  apply negb_involutive.
Qed.

Lemma snd_has_flag_bit : forall f t, 0 < f -> f = 2 ^ Z.log2 f -> snd_has_flag t f = flag_bit f t.
Proof. intros. unfold snd_has_flag. apply mask_flag_bit; assumption. Qed.

(* ---------- convert_sound_type = samples_spec ---------- *)
Lemma convert_sound_type_spec : forall b st, convert_sound_type b st = samples_spec b st.
Proof.
  intros b st. unfold convert_sound_type, samples_spec, addition_table.
  rewrite !snd_has_flag_bit by (reflexivity || (vm_compute; reflexivity)).
  assert (Hn : hitsound_none = 0) by reflexivity. rewrite Hn.
  cbn [filter fst snd].
  destruct (flag_bit hitsound_finish st), (flag_bit hitsound_whistle st),
           (flag_bit hitsound_clap st);
    cbn [filter fst snd map app];
    (destruct (sbi_filename b) as [[|c f]|]; reflexivity).
Qed.

(* ---------- read_custom_sample_banks = banks_spec ---------- *)
Lemma read_custom_sample_banks_spec : forall b fields only,
  read_custom_sample_banks b fields only = banks_spec b fields only.
Proof.
  intros b fields only. unfold read_custom_sample_banks, banks_spec, bank_opt.
  destruct fields as [|f0 r1]; [reflexivity|].
  cbn [nth_error].
  destruct f0 as [|c0 f0]; [reflexivity|].
  destruct (pn_i32 (c0 :: f0)) as [n|]; [|reflexivity].
  destruct r1 as [|s2 r2]; cbn [nth_error obnd]; [reflexivity|].
  destruct (pn_i32 s2) as [a|]; [|reflexivity].
  destruct only; [reflexivity|].
  destruct r2 as [|s3 r3]; cbn [next nth_error fst].
  - reflexivity.
  - destruct (pn_i32 s3) as [cu|]; [|reflexivity].
    destruct r3 as [|s4 r4]; cbn [next nth_error fst].
    + reflexivity.
    + destruct (pn_i32 s4) as [vo|]; cbn [omap]; [|reflexivity].
      destruct r4; reflexivity.
Qed.

(* volume is never negative *)
Lemma banks_spec_volume : forall b fields only b',
  0 <= sbi_volume b -> banks_spec b fields only = Some b' -> 0 <= sbi_volume b'.
Proof.
  intros b fields only b' Hv. unfold banks_spec.
  destruct (nth_error fields 0) as [[|c f]|]; try (intros [= <-]; exact Hv).
  destruct (pn_i32 (c :: f)); [|discriminate].
  destruct (obnd (nth_error fields 1) pn_i32); [|discriminate].
  destruct only; [intros [= <-]; exact Hv|].
  destruct (match nth_error fields 2 with Some s => pn_i32 s | None => Some (sbi_custom b) end); [|discriminate].
  destruct (nth_error fields 3) as [s|].
  - destruct (pn_i32 s); cbn [omap]; [|discriminate]. intros [= <-]. cbn. lia.
  - intros [= <-]. exact Hv.
Qed.

(* bank fallbacks: the addition bank falls back to the normal bank; bank 0 = none; unknown numbers = normal *)
Lemma banks_spec_banks : forall b f0 f1 rest only b' n a,
  f0 <> [] -> pn_i32 f0 = Some n -> pn_i32 f1 = Some a ->
  banks_spec b (f0 :: f1 :: rest) only = Some b' ->
  sbi_normal b' = bank_opt n /\
  sbi_addition b' = match bank_opt a with Some x => Some x | None => bank_opt n end.
Proof.
  intros b f0 f1 rest only b' n a Hne Hn Ha. unfold banks_spec. cbn [nth_error obnd].
  destruct f0 as [|c f0]; [contradiction|]. rewrite Hn, Ha.
  destruct only; [intros [= <-]; split; reflexivity|].
  cbn [nth_error].
  repeat match goal with
         | |- context [match ?x with _ => _ end] => destruct x
         end; try discriminate; intros [= <-]; split; reflexivity.
Qed.

Lemma bank_opt_cases : forall n,
  bank_opt n = if n =? 0 then None else if (n =? 2) then Some 2 else if (n =? 3) then Some 3 else Some 1.
Proof.
  intros n. unfold bank_opt, bank_of_i32, sample_bank_of_int, zassoc, sb_none, sb_normal, odflt.
  destruct (0 =? n) eqn:E0. { assert (n = 0) by lia. subst. reflexivity. }
  destruct (1 =? n) eqn:E1. { assert (n = 1) by lia. subst. reflexivity. }
  destruct (2 =? n) eqn:E2. { assert (n = 2) by lia. subst. reflexivity. }
  destruct (3 =? n) eqn:E3. { assert (n = 3) by lia. subst. reflexivity. }
  replace (n =? 0) with false by lia. replace (n =? 2) with false by lia.
  replace (n =? 3) with false by lia. reflexivity.
Qed.

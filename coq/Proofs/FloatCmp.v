(* FloatCmp: order facts about the IEEE comparisons of Model/Floats.v that do
   not need real numbers: they follow from the comparison function itself
   (Flocq's Bcompare).  Generic in the format. *)
From RM Require Import Model.Floats.
From Flocq Require Import BinarySingleNaN.

Section Cmp.
  Variables prec emax : Z.
  Notation fl := (binary_float prec emax).

  Lemma Bltb_cmp (a b : fl) :
    Bltb a b = match Bcompare a b with Some Lt => true | _ => false end.
  Proof. reflexivity. Qed.

  Lemma Bleb_cmp (a b : fl) :
    Bleb a b = match Bcompare a b with Some Lt | Some Eq => true | _ => false end.
  Proof. unfold Bleb, SpecFloat.SFleb, Bcompare. destruct SpecFloat.SFcompare as [[]|]; reflexivity. Qed.

  Lemma Bcompare_none (a b : fl) :
    Bcompare a b = None -> is_nan a = true \/ is_nan b = true.
  Proof.
    destruct a as [ ? | [] | | [] ? ? ? ]; destruct b as [ ? | [] | | [] ? ? ? ];
      cbn; intros H; try discriminate; auto.
  Qed.

  Lemma Bcompare_some (a b : fl) :
    is_nan a = false -> is_nan b = false -> exists c, Bcompare a b = Some c.
  Proof.
    intros Ha Hb. destruct (Bcompare a b) as [c|] eqn:E; [now exists c|].
    destruct (Bcompare_none _ _ E); congruence.
  Qed.

  Lemma Bcompare_refl (a : fl) : is_nan a = false -> Bcompare a a = Some Eq.
  Proof.
    destruct a as [ ? | [] | | [] m e ? ]; cbn; intros H; try discriminate; try reflexivity.
    - now rewrite Z.compare_refl, Pos.compare_cont_refl.
    - now rewrite Z.compare_refl, Pos.compare_cont_refl.
  Qed.

  (* x <= x for every non-NaN x *)
  Lemma fle_refl (a : fl) : is_nan a = false -> fle prec emax a a = true.
  Proof. intros H. unfold fle. rewrite Bleb_cmp, Bcompare_refl; auto. Qed.

  (* a < b -> a <= b *)
  Lemma flt_fle (a b : fl) : flt prec emax a b = true -> fle prec emax a b = true.
  Proof. unfold flt, fle. rewrite Bltb_cmp, Bleb_cmp. destruct (Bcompare a b) as [[]|]; auto. Qed.

  (* not (a < b), both ordered -> b <= a *)
  Lemma fnlt_fle (a b : fl) :
    is_nan a = false -> is_nan b = false -> flt prec emax a b = false -> fle prec emax b a = true.
  Proof.
    intros Ha Hb. unfold flt, fle. rewrite Bltb_cmp, Bleb_cmp, (Bcompare_swap _ _ a b).
    destruct (Bcompare_some a b Ha Hb) as [c ->]. destruct c; cbn; auto; discriminate.
  Qed.

  (* a <= b -> not (b < a) *)
  Lemma fle_nlt (a b : fl) : fle prec emax a b = true -> flt prec emax b a = false.
  Proof.
    unfold flt, fle. rewrite Bltb_cmp, Bleb_cmp, (Bcompare_swap _ _ a b).
    destruct (Bcompare a b) as [[]|]; cbn; auto; discriminate.
  Qed.

  (* a comparison that holds has ordered operands *)
  Lemma fle_not_nan (a b : fl) : fle prec emax a b = true -> is_nan a = false /\ is_nan b = false.
  Proof.
    unfold fle. destruct a as [ ? | [] | | [] ? ? ? ]; destruct b as [ ? | [] | | [] ? ? ? ];
      cbn; intros H; try discriminate; auto.
  Qed.

  (* between finite bounds -> finite *)
  Lemma fle_finite_between (lo x hi : fl) :
    is_finite lo = true -> is_finite hi = true ->
    fle prec emax lo x = true -> fle prec emax x hi = true -> is_finite x = true.
  Proof.
    unfold fle.
    destruct x as [ ? | [] | | [] ? ? ? ]; try reflexivity;
      destruct lo as [ ? | [] | | [] ? ? ? ]; try discriminate;
      destruct hi as [ ? | [] | | [] ? ? ? ]; try discriminate; cbn; intros; discriminate.
  Qed.

  (* f.clamp(lo, hi) for ordered lo <= hi and non-NaN f lies in [lo, hi] *)
  Lemma fclamp_t_range (x lo hi : fl) :
    is_nan x = false -> fle prec emax lo hi = true ->
    fle prec emax lo (fclamp_t prec emax x lo hi) = true /\
    fle prec emax (fclamp_t prec emax x lo hi) hi = true.
  Proof.
    intros Hx Hlh. destruct (fle_not_nan _ _ Hlh) as [Hlo Hhi].
    pose proof (fle_nlt _ _ Hlh) as Hn. unfold flt in Hn.
    unfold fclamp_t, fgt, flt.
    destruct (Bltb x lo) eqn:E1.
    - rewrite Hn. split; [now apply fle_refl | exact Hlh].
    - destruct (Bltb hi x) eqn:E2.
      + split; [exact Hlh | now apply fle_refl].
      + split; [now apply fnlt_fle | now apply fnlt_fle].
  Qed.

  (* the value is kept when it already lies in the range *)
  Lemma fclamp_t_id (x lo hi : fl) :
    fle prec emax lo x = true -> fle prec emax x hi = true -> fclamp_t prec emax x lo hi = x.
  Proof.
    intros H1 H2. pose proof (fle_nlt _ _ H1) as A. pose proof (fle_nlt _ _ H2) as B.
    unfold flt in A, B. unfold fclamp_t, fgt, flt. now rewrite A, B.
  Qed.

  (* Rust max of two ordered values is >= the first *)
  Lemma fmax_ge_left (a b : fl) :
    is_nan a = false -> is_nan b = false -> fle prec emax a (fmax prec emax a b) = true.
  Proof.
    intros Ha Hb. unfold fmax, fis_nan. rewrite Ha, Hb.
    destruct (flt prec emax a b) eqn:E; [now apply flt_fle | now apply fle_refl].
  Qed.
  Lemma fmax_ge_right (a b : fl) :
    is_nan a = false -> is_nan b = false -> fle prec emax b (fmax prec emax a b) = true.
  Proof.
    intros Ha Hb. unfold fmax, fis_nan. rewrite Ha, Hb.
    destruct (flt prec emax a b) eqn:E; [now apply fle_refl | now apply fnlt_fle].
  Qed.
  Lemma fmax_is_one (a b : fl) : fmax prec emax a b = a \/ fmax prec emax a b = b.
  Proof. unfold fmax. destruct (fis_nan _ _ a), (fis_nan _ _ b), (flt _ _ a b); auto. Qed.
End Cmp.

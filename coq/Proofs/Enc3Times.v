(* Enc3Times: the spinner / hold time condition of the hit-object round trip (C02 / T02b),
   for ALL binary64 times.

   The decoder stores  d = (e - s).max(0.0)  (spinner) resp.  d = max(s, e) - s  (hold) for the
   start time s and the end time e of the line; the encoder writes the end  fl(s + d); the second
   decode stores  fl(fl(s + d) - s)  (clipped the same way).  The condition "the duration
   survives" ([spinner_time_ok] / [hold_time_ok] of Model/EncObjCarry.v) is

     - FALSE in general: s = 2^-43, e = 1024 + 2^-42 gives d = 1024 (e - s is a half-ulp tie,
       rounded to even), fl(s + d) = 1024, fl(1024 - s) = 1024 - 2^-43 rounded = 1023.99...9
       ([times_ok_refuted]; known finding D33, confirmed on the crate by probes/D33_probe);
     - TRUE whenever the written end is the end that was read, fl(s + d) = e ([times_ok_of_end]);
     - TRUE whenever e - s is a binary64 number ([times_ok_exact]) -- in particular when both
       times are multiples of 2^-k with |e - s| < 2^(53-k) ([times_ok_grid]; k = 0: whole
       milliseconds, which is the old [C02_times_ok_partial]). *)
From RM Require Import Model.EncSpec Model.EncObjCarry Proofs.EncFloat Proofs.EncFmt Proofs.EncObjTimes.
From RM Require Import Gen.Generated.
From Flocq Require Import Core BinarySingleNaN.
From Coq Require Import Reals Lia Lra ZArith.
Open Scope Z_scope.

(* the durations the decoder stores for a line with start [s] and end [e]
   (Model/HitObjectSpec.v, kinds 2 and 3; Model/HitObjectLine.v) *)
Definition spinner_dur (s e : F64) : F64 := f64_max_lit (D.sub e s) D.zero.
Definition hold_dur (s e : F64) : F64 := D.sub (D.max s e) s.

Local Notation fexp64 := (SpecFloat.fexp 53 1024).
Local Notation fmt64 := (generic_format radix2 fexp64).
Local Notation RN := (round radix2 fexp64 (round_mode mode_NE)).

(* ---------- 1. the general form: the written end is the end that was read ---------- *)

Theorem times_ok_of_end (s e : F64) :
  (D.add s (spinner_dur s e) = e -> spinner_time_ok s (spinner_dur s e)) /\
  (D.add s (hold_dur s e) = e -> D.lt s e = true -> hold_time_ok s (hold_dur s e)).
Proof.
  split.
  - intros H. unfold spinner_time_ok. rewrite H. reflexivity.
  - intros H Hlt. unfold hold_time_ok. rewrite H. reflexivity.
Qed.

(* ---------- 2. the refutation ---------- *)

(* s = 2^-43 = 0.00000000000011368683772161603 (bits 0x3D40000000000000),
   e = 1024 + 2^-42 = 1024.0000000000002 (bits 0x4090000000000001):
   the stored duration is 1024 (0x4090000000000000), the written end is 1024, and the duration
   read back is 0x408FFFFFFFFFFFFF = 1023.9999999999999 -- for the spinner and for the hold *)
Definition d33_s : F64 := D.of_bits 4413527634823086080.
Definition d33_e : F64 := D.of_bits 4652218415073722369.

Lemma d33_facts :
  in_lim64 d33_s = true /\ in_lim64 d33_e = true /\
  D.bits (spinner_dur d33_s d33_e) = 4652218415073722368 /\
  D.bits (hold_dur d33_s d33_e) = 4652218415073722368 /\
  D.bits (D.add d33_s (spinner_dur d33_s d33_e)) = 4652218415073722368 /\
  D.bits (f64_max_lit (D.sub (D.add d33_s (spinner_dur d33_s d33_e)) d33_s) D.zero) = 4652218415073722367 /\
  D.bits (D.sub (D.max d33_s (D.add d33_s (hold_dur d33_s d33_e))) d33_s) = 4652218415073722367.
Proof. repeat split; vm_compute; reflexivity. Qed.

Theorem times_ok_refuted :
  exists s e,
    in_lim64 s = true /\ in_lim64 e = true /\
    D.bits s = 4413527634823086080 /\ D.bits e = 4652218415073722369 /\
    D.bits (spinner_dur s e) = 4652218415073722368 /\ D.bits (hold_dur s e) = 4652218415073722368 /\
    D.bits (f64_max_lit (D.sub (D.add s (spinner_dur s e)) s) D.zero) = 4652218415073722367 /\
    D.bits (D.sub (D.max s (D.add s (hold_dur s e))) s) = 4652218415073722367 /\
    ~ spinner_time_ok s (spinner_dur s e) /\ ~ hold_time_ok s (hold_dur s e).
Proof.
  exists d33_s, d33_e. destruct d33_facts as (H1 & H2 & H3 & H4 & H5 & H6 & H7).
  repeat split; try assumption; try (vm_compute; reflexivity).
  - unfold spinner_time_ok. intros H. apply (f_equal D.bits) in H. rewrite H6, H3 in H. discriminate H.
  - unfold hold_time_ok. intros H. apply (f_equal D.bits) in H. rewrite H7, H4 in H. discriminate H.
Qed.

(* ---------- 3. the class where it holds: e - s is a binary64 number ---------- *)

Local Notation fin x := (is_finite x = true).

Lemma fin_not_nan (x : F64) : fin x -> D.is_nan x = false.
Proof. destruct x; try discriminate; reflexivity. Qed.

Lemma fin_small (x : F64) : fin x -> (Rabs (B2R x) < bpow radix2 1024)%R.
Proof. intros _. apply abs_B2R_lt_emax. Qed.

Lemma RN_fmt r : fmt64 r -> RN r = r.
Proof. intros H. apply round_generic; [apply valid_rnd_round_mode|exact H]. Qed.

Lemma fmt_B2R (x : F64) : fmt64 (B2R x).
Proof. apply generic_format_B2R. Qed.

(* x - y when the real difference is representable: exact *)
Lemma sub_exact (x y : F64) : fin x -> fin y -> fmt64 (B2R x - B2R y)%R ->
  (Rabs (B2R x - B2R y) < bpow radix2 1024)%R ->
  B2R (D.sub x y) = (B2R x - B2R y)%R /\ fin (D.sub x y).
Proof.
  intros Fx Fy Hf Hs. unfold D.sub, fsub.
  pose proof (Bminus_correct 53 1024 Hp64 He64 mode_NE x y Fx Fy) as H.
  rewrite (RN_fmt _ Hf), (Rlt_bool_true _ _ Hs) in H. destruct H as (H1 & H2 & _). split; assumption.
Qed.

Lemma add_exact (x y : F64) : fin x -> fin y -> fmt64 (B2R x + B2R y)%R ->
  (Rabs (B2R x + B2R y) < bpow radix2 1024)%R ->
  B2R (D.add x y) = (B2R x + B2R y)%R /\ fin (D.add x y).
Proof.
  intros Fx Fy Hf Hs. unfold D.add, fadd.
  pose proof (Bplus_correct 53 1024 Hp64 He64 mode_NE x y Fx Fy) as H.
  rewrite (RN_fmt _ Hf), (Rlt_bool_true _ _ Hs) in H. destruct H as (H1 & H2 & _). split; assumption.
Qed.

(* x - x = +0 for every finite x *)
Lemma sub_self (x y : F64) : fin x -> fin y -> B2R x = B2R y -> Bsign x = Bsign y -> D.sub x y = D.zero.
Proof.
  intros Fx Fy HR HS. unfold D.sub, fsub, D.zero, fzero.
  pose proof (Bminus_correct 53 1024 Hp64 He64 mode_NE x y Fx Fy) as H.
  assert (Hz : (B2R x - B2R y = 0)%R) by lra.
  rewrite Hz, round_0 in H by apply valid_rnd_round_mode.
  rewrite Rabs_R0, (Rlt_bool_true _ _ (bpow_gt_0 radix2 1024)) in H. destruct H as (H1 & H2 & H3).
  apply B2R_Bsign_inj; try assumption; try reflexivity.
  rewrite H3, Rcompare_Eq by reflexivity. rewrite HS. cbn [Bsign]. destruct (Bsign y); reflexivity.
Qed.

Lemma lt_real (x y : F64) : fin x -> fin y -> D.lt x y = Rlt_bool (B2R x) (B2R y).
Proof. intros Fx Fy. unfold D.lt, flt. apply Bltb_correct; assumption. Qed.

Lemma finite_strict_of_nonzero (x : F64) : fin x -> B2R x <> 0%R -> is_finite_strict x = true.
Proof. destruct x; try discriminate; cbn [B2R is_finite_strict]; intros _ H; [contradiction H; reflexivity|reflexivity]. Qed.

(* two finite numbers with the same nonzero real value *)
Lemma eq_of_real (x y : F64) : fin x -> fin y -> B2R x = B2R y -> B2R y <> 0%R -> x = y.
Proof.
  intros Fx Fy HR Hn. apply B2R_inj; try exact HR; apply finite_strict_of_nonzero; try assumption. rewrite HR. exact Hn.
Qed.

Section Exact.
  Variables s e : F64.
  Hypothesis Fs : fin s.
  Hypothesis Fe : fin e.
  Hypothesis Hex : fmt64 (B2R e - B2R s)%R.
  Hypothesis Hsm : (Rabs (B2R e - B2R s) < bpow radix2 1024)%R.

  Let Rd : B2R (D.sub e s) = (B2R e - B2R s)%R := proj1 (sub_exact e s Fe Fs Hex Hsm).
  Let Fd : fin (D.sub e s) := proj2 (sub_exact e s Fe Fs Hex Hsm).

  (* e > s: the difference d is positive, s + d = e in the reals, hence fl(s + d) has the value of e *)
  Lemma exact_back : (B2R s < B2R e)%R ->
    B2R (D.add s (D.sub e s)) = B2R e /\ fin (D.add s (D.sub e s)) /\
    D.sub (D.add s (D.sub e s)) s = D.sub e s.
  Proof.
    intros Hlt.
    assert (Hsum : (B2R s + B2R (D.sub e s) = B2R e)%R) by (rewrite Rd; lra).
    destruct (add_exact s (D.sub e s) Fs Fd) as (Ra & Fa).
    { rewrite Hsum. apply fmt_B2R. }
    { rewrite Hsum. apply fin_small. exact Fe. }
    rewrite Hsum in Ra. split; [exact Ra|split; [exact Fa|]].
    destruct (sub_exact (D.add s (D.sub e s)) s Fa Fs) as (Rb & Fb).
    { rewrite Ra. exact Hex. }
    { rewrite Ra. exact Hsm. }
    apply eq_of_real; try assumption.
    - rewrite Rb, Ra, Rd. reflexivity.
    - rewrite Rd. lra.
  Qed.

  Theorem spinner_ok_exact : spinner_time_ok s (spinner_dur s e).
  Proof.
    unfold spinner_time_ok, spinner_dur.
    destruct (Rlt_dec (B2R s) (B2R e)) as [Hlt|Hge].
    - assert (Hd : f64_max_lit (D.sub e s) D.zero = D.sub e s).
      { unfold f64_max_lit. rewrite (fin_not_nan _ Fd), (lt_real D.zero (D.sub e s) eq_refl Fd).
        rewrite Rlt_bool_true; [reflexivity|]. rewrite Rd. cbn [B2R D.zero fzero]. lra. }
      rewrite Hd. destruct (exact_back Hlt) as (_ & _ & H). rewrite H. exact Hd.
    - assert (Hd : f64_max_lit (D.sub e s) D.zero = D.zero).
      { unfold f64_max_lit. rewrite (fin_not_nan _ Fd), (lt_real D.zero (D.sub e s) eq_refl Fd).
        rewrite Rlt_bool_false; [reflexivity|]. rewrite Rd. cbn [B2R D.zero fzero]. lra. }
      rewrite Hd.
      (* s + 0 has the value of s; (s + 0) - s has the value 0: clipped to the literal *)
      destruct (add_exact s D.zero Fs eq_refl) as (Ra & Fa).
      { cbn [B2R D.zero fzero]. rewrite Rplus_0_r. apply fmt_B2R. }
      { cbn [B2R D.zero fzero]. rewrite Rplus_0_r. apply fin_small. exact Fs. }
      cbn [B2R D.zero fzero] in Ra. rewrite Rplus_0_r in Ra.
      destruct (sub_exact (D.add s D.zero) s Fa Fs) as (Rb & Fb).
      { rewrite Ra. replace (B2R s - B2R s)%R with 0%R by lra. apply generic_format_0. }
      { rewrite Ra. replace (B2R s - B2R s)%R with 0%R by lra. rewrite Rabs_R0. apply bpow_gt_0. }
      unfold f64_max_lit. rewrite (fin_not_nan _ Fb), (lt_real D.zero _ eq_refl Fb).
      rewrite Rlt_bool_false; [reflexivity|]. rewrite Rb, Ra. cbn [B2R D.zero fzero]. lra.
  Qed.

  Theorem hold_ok_exact : hold_time_ok s (hold_dur s e).
  Proof.
    unfold hold_time_ok, hold_dur.
    destruct (Rlt_dec (B2R s) (B2R e)) as [Hlt|Hge].
    - assert (Hm : D.max s e = e).
      { unfold D.max, fmax. fold (D.is_nan s). fold (D.is_nan e). rewrite (fin_not_nan _ Fs), (fin_not_nan _ Fe).
        fold (D.lt s e). rewrite (lt_real s e Fs Fe), Rlt_bool_true by exact Hlt. reflexivity. }
      rewrite Hm. destruct (exact_back Hlt) as (Ra & Fa & H).
      assert (Hm2 : D.max s (D.add s (D.sub e s)) = D.add s (D.sub e s)).
      { unfold D.max, fmax. fold (D.is_nan s). fold (D.is_nan (D.add s (D.sub e s))).
        rewrite (fin_not_nan _ Fs), (fin_not_nan _ Fa).
        fold (D.lt s (D.add s (D.sub e s))). rewrite (lt_real s _ Fs Fa), Ra, Rlt_bool_true by exact Hlt. reflexivity. }
      rewrite Hm2. exact H.
    - assert (Hm : D.max s e = s).
      { unfold D.max, fmax. fold (D.is_nan s). fold (D.is_nan e). rewrite (fin_not_nan _ Fs), (fin_not_nan _ Fe).
        fold (D.lt s e). rewrite (lt_real s e Fs Fe), Rlt_bool_false by lra. reflexivity. }
      rewrite Hm. rewrite (sub_self s s Fs Fs eq_refl eq_refl).
      destruct (add_exact s D.zero Fs eq_refl) as (Ra & Fa).
      { cbn [B2R D.zero fzero]. rewrite Rplus_0_r. apply fmt_B2R. }
      { cbn [B2R D.zero fzero]. rewrite Rplus_0_r. apply fin_small. exact Fs. }
      cbn [B2R D.zero fzero] in Ra. rewrite Rplus_0_r in Ra.
      assert (Hm2 : D.max s (D.add s D.zero) = s).
      { unfold D.max, fmax. fold (D.is_nan s). fold (D.is_nan (D.add s D.zero)).
        rewrite (fin_not_nan _ Fs), (fin_not_nan _ Fa).
        fold (D.lt s (D.add s D.zero)). rewrite (lt_real s _ Fs Fa), Ra, Rlt_bool_false by lra. reflexivity. }
      rewrite Hm2. apply sub_self; try assumption; reflexivity.
  Qed.
End Exact.

(* a number within the parse limits, as a real *)
Lemma in_lim64_bound (x : F64) : in_lim64 x = true -> (Rabs (B2R x) <= IZR max_parse_value)%R.
Proof.
  intros H. pose proof (in_lim64_finite x H) as Fx.
  assert (Hl : Z.abs max_parse_value < 2 ^ 53) by (unfold max_parse_value; cbn; lia).
  assert (Xl : holds lim64 max_parse_value) by exact (of_Z_holds _ Hl).
  assert (Xm : holds (D.neg lim64) (- max_parse_value)) by (apply neg_holds; [exact Xl|discriminate]).
  destruct Xl as (Rl & Fl & _). destruct Xm as (Rm & Fm & _).
  unfold in_lim64 in H. apply andb_true_iff in H. destruct H as [H H2].
  apply andb_true_iff in H. destruct H as [_ H1].
  unfold D.le, fle in H1, H2. rewrite Bleb_correct in H1, H2 by assumption.
  rewrite Rm, opp_IZR in H1. rewrite Rl in H2.
  destruct (Rle_bool_spec (- IZR max_parse_value) (B2R x)) as [A|A]; [|discriminate H1].
  destruct (Rle_bool_spec (B2R x) (IZR max_parse_value)) as [B|B]; [|discriminate H2].
  apply Rabs_le. split; assumption.
Qed.

(* the statement on the decoder's image: start and end within the parse limits (every number the
   line reader accepts is), e - s a binary64 number *)
Theorem times_ok_exact (s e : F64) :
  in_lim64 s = true -> in_lim64 e = true -> fmt64 (B2R e - B2R s)%R ->
  spinner_time_ok s (spinner_dur s e) /\ hold_time_ok s (hold_dur s e).
Proof.
  intros Hs He Hex.
  pose proof (in_lim64_finite s Hs) as Fs. pose proof (in_lim64_finite e He) as Fe.
  assert (Hsm : (Rabs (B2R e - B2R s) < bpow radix2 1024)%R).
  { apply Rle_lt_trans with (Rabs (B2R e) + Rabs (B2R s))%R.
    - unfold Rminus. eapply Rle_trans; [apply Rabs_triang|]. rewrite Rabs_Ropp. lra.
    - pose proof (in_lim64_bound s Hs) as B1. pose proof (in_lim64_bound e He) as B2.
      apply Rle_lt_trans with (IZR (2 * max_parse_value)); [rewrite mult_IZR; lra|].
      apply Rlt_le_trans with (IZR (2 ^ 53)); [apply IZR_lt; unfold max_parse_value; cbn; lia|].
      change 2%Z with (radix_val radix2) at 1. rewrite IZR_Zpower by lia. apply bpow_le. lia. }
  split; [apply spinner_ok_exact|apply hold_ok_exact]; assumption.
Qed.

(* both times multiples of 2^-k, their difference below 2^(53-k) in magnitude: e - s is a
   binary64 number.  k = 0 is "whole milliseconds"; k = 10 covers every time written with a
   binary fraction of up to ten bits below 2^43 ms; every pair of numbers within the parse
   limits (|t| < 2^31) that are multiples of 2^-21 qualifies. *)
Theorem times_ok_grid (k a b : Z) (s e : F64) :
  0 <= k <= 1074 -> in_lim64 s = true -> in_lim64 e = true ->
  B2R s = (IZR a * bpow radix2 (- k))%R -> B2R e = (IZR b * bpow radix2 (- k))%R ->
  Z.abs (b - a) < 2 ^ 53 ->
  spinner_time_ok s (spinner_dur s e) /\ hold_time_ok s (hold_dur s e).
Proof.
  intros Hk Hs He Rs Re Hd. apply times_ok_exact; try assumption.
  replace (B2R e - B2R s)%R with (F2R (Float radix2 (b - a) (- k))).
  - apply (generic_format_FLT radix2 (SpecFloat.emin 53 1024) 53).
    apply (FLT_spec radix2 _ _ _ (Float radix2 (b - a) (- k))); cbn [Fnum Fexp].
    + reflexivity.
    + change (Zpower radix2 53) with (2 ^ 53). exact Hd.
    + unfold SpecFloat.emin. lia.
  - unfold F2R. cbn [Fnum Fexp]. rewrite Rs, Re, minus_IZR. ring.
Qed.

(* whole-millisecond lines: start a, end b, both within the parse limits *)
Corollary times_ok_whole (a b : Z) :
  Z.abs a <= max_parse_value -> Z.abs b <= max_parse_value ->
  spinner_time_ok (D.of_Z a) (spinner_dur (D.of_Z a) (D.of_Z b)) /\
  hold_time_ok (D.of_Z a) (hold_dur (D.of_Z a) (D.of_Z b)).
Proof.
  intros Ha Hb. unfold max_parse_value in *.
  assert (Ha' : Z.abs a < 2 ^ 53) by lia. assert (Hb' : Z.abs b < 2 ^ 53) by lia.
  destruct (of_Z_holds a Ha') as (Ra & _ & _). destruct (of_Z_holds b Hb') as (Rb & _ & _).
  apply (times_ok_grid 0 a b); try lia.
  - apply in_lim64_of_Z. unfold max_parse_value. lia.
  - apply in_lim64_of_Z. unfold max_parse_value. lia.
  - rewrite Ra. cbn [Z.opp bpow]. ring.
  - rewrite Rb. cbn [Z.opp bpow]. ring.
Qed.

(* every pair of accepted times on the 2^-21 grid *)
Corollary times_ok_grid21 (a b : Z) (s e : F64) :
  in_lim64 s = true -> in_lim64 e = true ->
  B2R s = (IZR a * bpow radix2 (- 21))%R -> B2R e = (IZR b * bpow radix2 (- 21))%R ->
  spinner_time_ok s (spinner_dur s e) /\ hold_time_ok s (hold_dur s e).
Proof.
  intros Hs He Rs Re. apply (times_ok_grid 21 a b); try assumption; try lia.
  pose proof (in_lim64_bound s Hs) as B1. pose proof (in_lim64_bound e He) as B2.
  assert (P : (bpow radix2 (-21) * bpow radix2 21 = 1)%R) by (rewrite <- bpow_plus; reflexivity).
  assert (Q : (0 < bpow radix2 21)%R) by apply bpow_gt_0.
  assert (X : forall n (x : F64), B2R x = (IZR n * bpow radix2 (-21))%R -> (Rabs (B2R x) <= IZR max_parse_value)%R ->
              Z.abs n <= max_parse_value * 2 ^ 21).
  { intros n x Rx Bx. apply le_IZR. rewrite abs_IZR, mult_IZR.
    change (IZR (2 ^ 21)) with (bpow radix2 21).
    replace (IZR n) with (B2R x * bpow radix2 21)%R by (rewrite Rx, Rmult_assoc, P; ring).
    rewrite Rabs_mult, (Rabs_pos_eq (bpow radix2 21)) by lra.
    apply Rmult_le_compat_r; lra. }
  pose proof (X a s Rs B1). pose proof (X b e Re B2). unfold max_parse_value in *. lia.
Qed.

(* Sterbenz: an end within a factor two of the start (the object does not last longer than the time
   at which it starts -- every spinner / hold that is not at the very beginning of a map) has an
   exact difference *)
From Flocq Require Import Sterbenz.
Corollary times_ok_sterbenz (s e : F64) :
  in_lim64 s = true -> in_lim64 e = true ->
  (B2R s / 2 <= B2R e <= 2 * B2R s)%R ->
  spinner_time_ok s (spinner_dur s e) /\ hold_time_ok s (hold_dur s e).
Proof.
  intros Hs He Hr. apply times_ok_exact; try assumption.
  apply (@sterbenz radix2 (SpecFloat.fexp 53 1024) (fexp_correct 53 1024 Hp64) (fexp_monotone 53 1024)).
  - apply generic_format_B2R.
  - apply generic_format_B2R.
  - exact Hr.
Qed.

(* CatmullSurplusLen: the binary32 length of a vector as a function of the
   REAL values of its two components.

   [plen (mkPos x y)] = f64::from(x * x + y * y).sqrt() as f32.  For finite
   x, y with |x|, |y| <= 2^21 no operation overflows and the real value of
   the result is
       flen X Y = RN32 (RN64 (sqrt (RN32 (RN32 (X * X) + RN32 (Y * Y)))))
   with X = B2R x, Y = B2R y.  flen is even in both arguments, and rounding
   to nearest-even is odd, hence for vertices with coordinates |c| <= 2^20
       - (a - b).length()  and  (b - a).length()  have the same value
         ([plen_psub_sym]: `last_start.distance(curr)` of the Catmull
         simplification IS the length calculate_length adds for the kept
         segment last_start -> curr),
       - the length does not change when an end point is replaced by a
         numerically equal one (-0.0 for +0.0: the vertex `skip_first`
         drops at a joint). *)
From RM Require Import Model.ControlPoints Model.Curve Proofs.FloatFacts Proofs.LengthFacts Proofs.LengthBound
  Proofs.AdjustExact Proofs.AdjustIEEEBase Proofs.AdjustIEEE Proofs.AdjustIEEESum Proofs.AdjustIEEELen.
From Flocq Require Import Core BinarySingleNaN.
From Coq Require Import Reals Lra Psatz Lia.
Open Scope R_scope.

Local Notation fin x := (is_finite x = true).
Local Notation pw k := (bpow radix2 k).

Definition flen (X Y : R) : R := RN32 (RN64 (sqrt (RN32 (RN32 (X * X) + RN32 (Y * Y))))).

Lemma flen_opp X Y : flen (- X) (- Y) = flen X Y.
Proof. unfold flen. replace (- X * - X) with (X * X) by ring. replace (- Y * - Y) with (Y * Y) by ring. reflexivity. Qed.

Lemma RN32_opp x : RN32 (- x) = - RN32 x.
Proof. apply round_NE_opp. Qed.

(* the narrowing conversion is one binary32 rounding *)
Lemma f32_of_f64_B2R (x : F64) k : fin x -> (-149 <= k < 128)%Z -> Rabs (B2R x) <= pw k ->
  B2R (f32_of_f64 x) = RN32 (B2R x).
Proof.
  intros Fx Hk H. destruct x as [s|s| |s m e Hm]; try discriminate.
  - cbn [f32_of_f64 B2R]. rewrite round_0; [reflexivity|apply valid_rnd_N].
  - cbn [f32_of_f64]. unfold S.of_ZE, of_ZE.
    assert (Em : (if s then Z.neg m else Z.pos m) = cond_Zopp s (Z.pos m)) by (destruct s; reflexivity).
    rewrite Em. cbn [B2R] in H |- *.
    destruct (normalize_spec 24 128 Hp32 He32 (cond_Zopp s (Z.pos m)) e s k ltac:(lia) H) as (_ & _ & R).
    exact R.
Qed.

(* the value of the length *)
Lemma plen_B2R (x y : F32) : fin x -> fin y -> Rabs (B2R x) <= pw 21 -> Rabs (B2R y) <= pw 21 ->
  B2R (plen (mkPos x y)) = flen (B2R x) (B2R y).
Proof.
  intros Fx Fy Mx My. unfold plen, flen. cbn [px py].
  pose proof (abs_mul_bpow _ _ 21 21 Mx Mx) as Hxx. pose proof (abs_mul_bpow _ _ 21 21 My My) as Hyy.
  change (21 + 21)%Z with 42%Z in *.
  destruct (S_mul_spec x x 42 Fx Fx ltac:(zl) Hxx) as (Fsx & Msx & _).
  destruct (S_mul_spec y y 42 Fy Fy ltac:(zl) Hyy) as (Fsy & Msy & _).
  assert (Ex : B2R (S.mul x x) = RN32 (B2R x * B2R x)).
  { pose proof (Bmult_correct 24 128 Hp32 He32 mode_NE x x) as C.
    rewrite (no_overflow 24 128 Hp32 _ 42 ltac:(lia) Hxx) in C. exact (proj1 C). }
  assert (Ey : B2R (S.mul y y) = RN32 (B2R y * B2R y)).
  { pose proof (Bmult_correct 24 128 Hp32 He32 mode_NE y y) as C.
    rewrite (no_overflow 24 128 Hp32 _ 42 ltac:(lia) Hyy) in C. exact (proj1 C). }
  pose proof (S_mul_nonneg x 42 Fx ltac:(zl) Hxx) as Nsx.
  pose proof (S_mul_nonneg y 42 Fy ltac:(zl) Hyy) as Nsy.
  pose proof (abs_add_bpow _ _ 42 Msx Msy) as Hsum. change (42 + 1)%Z with 43%Z in Hsum.
  destruct (S_add_spec _ _ 43 Fsx Fsy ltac:(zl) Hsum) as (Fs & Ms & _).
  pose proof (S_add_nonneg _ _ 43 Fsx Fsy ltac:(zl) Hsum Nsx Nsy) as Ns.
  assert (Es : B2R (S.add (S.mul x x) (S.mul y y)) = RN32 (RN32 (B2R x * B2R x) + RN32 (B2R y * B2R y))).
  { pose proof (Bplus_correct 24 128 Hp32 He32 mode_NE _ _ Fsx Fsy) as C.
    rewrite (no_overflow 24 128 Hp32 _ 43 ltac:(lia) Hsum) in C. rewrite <- Ex, <- Ey. exact (proj1 C). }
  rewrite <- Es.
  set (s := S.add (S.mul x x) (S.mul y y)) in *.
  destruct (f64_of_f32_exact s Fs) as (Fw & Ew).
  destruct (Bsqrt_correct 53 1024 Hp64 He64 mode_NE (f64_of_f32 s)) as (CR & _).
  assert (Er : B2R (D.sqrt (f64_of_f32 s)) = RN64 (sqrt (B2R s))) by (rewrite <- Ew; exact CR).
  rewrite <- Er.
  destruct (Rle_lt_or_eq_dec _ _ Ns) as [Hpos|Hz].
  - assert (Hsq : sqrt (B2R (f64_of_f32 s)) <= pw 22).
    { rewrite Ew, <- (sqrt_bpow radix2 22). apply sqrt_le_1_alt.
      apply Rle_trans with (pw 43); [rewrite <- (Rabs_pos_eq (B2R s)) by lra; exact Ms|apply bpow_le; zl]. }
    destruct (D_sqrt_spec (f64_of_f32 s) 22 Fw ltac:(rewrite Ew; exact Hpos) ltac:(zl) Hsq) as (Fr & Mr & _).
    exact (f32_of_f64_B2R _ 22 Fr ltac:(zl) Mr).
  - destruct (fin_zero_is_zero s Fs (eq_sym Hz)) as (sg & Es0). rewrite Es0.
    assert (H : B2SF (D.sqrt (f64_of_f32 (B754_zero sg))) = SpecFloat.S754_zero sg) by (destruct sg; vm_compute; reflexivity).
    destruct (D.sqrt (f64_of_f32 (B754_zero sg))) as [s0|s0| |s0 m e Hm]; try discriminate.
    cbn [f32_of_f64 B2R]. rewrite round_0; [reflexivity|apply valid_rnd_N].
Qed.

Lemma S_sub_B2R (a b : F32) k : fin a -> fin b -> (-149 <= k < 128)%Z -> Rabs (B2R a - B2R b) <= pw k ->
  B2R (S.sub a b) = RN32 (B2R a - B2R b).
Proof.
  intros Fa Fb Hk H. pose proof (Bminus_correct 24 128 Hp32 He32 mode_NE a b Fa Fb) as C.
  rewrite (no_overflow 24 128 Hp32 _ k ltac:(lia) H) in C. exact (proj1 C).
Qed.

(* (a - b).length() for two vertices with coordinates |c| <= 2^20 *)
Lemma plen_psub_B2R (a b : Pos) : coord_le a 20 -> coord_le b 20 ->
  B2R (plen (psub a b)) = flen (RN32 (B2R (px a) - B2R (px b))) (RN32 (B2R (py a) - B2R (py b))).
Proof.
  intros ((Fxa & Mxa) & (Fya & Mya)) ((Fxb & Mxb) & (Fyb & Myb)).
  pose proof (abs_sub_bpow _ _ 20 Mxa Mxb) as Hx. pose proof (abs_sub_bpow _ _ 20 Mya Myb) as Hy.
  change (20 + 1)%Z with 21%Z in *.
  destruct (S_sub_spec (px a) (px b) 21 Fxa Fxb ltac:(zl) Hx) as (Fdx & Mdx & _).
  destruct (S_sub_spec (py a) (py b) 21 Fya Fyb ltac:(zl) Hy) as (Fdy & Mdy & _).
  unfold psub. rewrite (plen_B2R _ _ Fdx Fdy Mdx Mdy).
  rewrite (S_sub_B2R _ _ 21 Fxa Fxb ltac:(zl) Hx), (S_sub_B2R _ _ 21 Fya Fyb ltac:(zl) Hy). reflexivity.
Qed.

(* `a.distance(b)` and `(b - a).length()` have the same value *)
Theorem plen_psub_sym (a b : Pos) : coord_le a 20 -> coord_le b 20 ->
  B2R (plen (psub a b)) = B2R (plen (psub b a)).
Proof.
  intros Ha Hb. rewrite (plen_psub_B2R a b Ha Hb), (plen_psub_B2R b a Hb Ha).
  replace (B2R (px a) - B2R (px b)) with (- (B2R (px b) - B2R (px a))) by ring.
  replace (B2R (py a) - B2R (py b)) with (- (B2R (py b) - B2R (py a))) by ring.
  rewrite !RN32_opp. apply flen_opp.
Qed.

(* ... and depend on the real values of the coordinates only *)
Theorem plen_psub_ext (a b b' : Pos) : coord_le a 20 -> coord_le b 20 -> coord_le b' 20 ->
  R2 b = R2 b' -> B2R (plen (psub a b)) = B2R (plen (psub a b')).
Proof.
  intros Ha Hb Hb' E. rewrite (plen_psub_B2R a b Ha Hb), (plen_psub_B2R a b' Ha Hb').
  unfold R2 in E. inversion E as [[E1 E2]]. rewrite E1, E2. reflexivity.
Qed.

(* the widened length: finite, not negative *)
Lemma seg_len_fin (a b : Pos) : coord_le a 20 -> coord_le b 20 ->
  fin (f64_of_f32 (plen (psub b a))) /\ B2R (f64_of_f32 (plen (psub b a))) = B2R (plen (psub b a)).
Proof.
  intros Ha Hb. apply f64_of_f32_exact. apply plen_finite_of_bound.
  - destruct Ha as ((F1 & M1) & (F2 & M2)). split; (split; [assumption|eapply abs_le_bpow_mono; [eassumption|zl]]).
  - destruct Hb as ((F1 & M1) & (F2 & M2)). split; (split; [assumption|eapply abs_le_bpow_mono; [eassumption|zl]]).
Qed.

(* SliderEventsRoundTime: binary64 error analysis of the event times (T20c).

   Tick time (event.rs, generate_ticks):
       time = span_start + time_progress * span_duration ,
       time_progress = path_progress          on a forward span,
                     = 1.0 - path_progress    on a reversed span.
   With  0 <= path_progress <= 1  and  span_duration >= 0  every intermediate
   value is bracketed by representable numbers, so a single no-overflow
   hypothesis -- the span's END time  span_start + span_duration  (the time of
   its repeat) is finite -- makes every tick time finite, puts it between the
   span start and the span end, and gives the error bound
       | time - (span_start + TP * dur) |
         <= (prog_err j [+ 2^-53 if reversed]) * dur + ulp(dur)/2 + ulp(M)/2 ,
   TP = (j+1)*td/len  or  1 - (j+1)*td/len,  M = max(|span_start|, |span_end|).
   Consequently the repeat is never before a tick of its span, and the whole
   span (ticks, then the repeat) is in weak chronological order.

   Also: span start, tail and legacy last tick against their exact closed
   forms  start + s*dur ,  start + n*dur ,
   max(start + n*dur/2, start + n*dur - 36). *)
From RM Require Import Model.SliderEvents Proofs.SliderEventsFacts Proofs.SliderEventsExact
     Proofs.SliderEventsMono Proofs.FloatNonneg Proofs.TickBound Proofs.EncFloat
     Proofs.SliderEventsRound.
From RM Require Import Gen.Generated.
From Flocq Require Import Core BinarySingleNaN.
From Coq Require Import Reals Lra Lia ZArith List Sorting.Sorted.
Import ListNotations.
Open Scope R_scope.

Local Notation fin x := (is_finite x = true).
Local Notation fexp64 := (SpecFloat.fexp 53 1024).
Local Notation RN := (round radix2 fexp64 (round_mode mode_NE)).

(* ---------- small facts ---------- *)

Lemma between_abs a x b : a <= x <= b -> Rabs x <= Rmax (Rabs a) (Rabs b).
Proof.
  intros [H1 H2]. unfold Rabs, Rmax.
  destruct (Rcase_abs x), (Rcase_abs a), (Rcase_abs b), (Rle_dec _ _); lra.
Qed.

Lemma fin_lt_emax (x : F64) : Rabs (B2R x) < bpow radix2 1024.
Proof. apply abs_B2R_lt_emax. Qed.

Lemma pow2_53_half : pow2 (-53) = / 2 * pow2 (-52).
Proof. unfold pow2. change (-52)%Z with (-53 + 1)%Z. rewrite bpow_plus. cbn. lra. Qed.

Lemma one_R : B2R (D.of_Z 1) = 1 /\ fin (D.of_Z 1).
Proof. apply (of_Z_exact 53 1024 Hp64 He64 1). reflexivity. Qed.

Lemma ofZ_R (k : Z) : (Z.abs k < 2 ^ 53)%Z -> B2R (D.of_Z k) = IZR k /\ fin (D.of_Z k).
Proof. intros H. apply (of_Z_exact 53 1024 Hp64 He64 k). exact H. Qed.

(* ---------- the three operations of a tick time, on bracketed operands ---------- *)

(* t * dur  with  0 <= t <= 1  and  dur >= 0 *)
Lemma mul_unit (t dur : F64) : fin t -> fin dur -> 0 <= B2R t <= 1 -> 0 <= B2R dur ->
  fin (D.mul t dur) /\ 0 <= B2R (D.mul t dur) <= B2R dur /\
  Rabs (B2R (D.mul t dur) - B2R t * B2R dur) <= / 2 * ulp64 (B2R dur).
Proof.
  intros Ft Fd (H0 & H1) Hd.
  set (x := B2R t * B2R dur).
  assert (Hx : 0 <= x <= B2R dur).
  { unfold x. split; [apply Rmult_le_pos; assumption|].
    rewrite <- (Rmult_1_l (B2R dur)) at 2. apply Rmult_le_compat_r; assumption. }
  assert (Hr : 0 <= RN x <= B2R dur).
  { split; [rewrite <- RN_0 | rewrite <- (RN_id dur)]; apply RN_le; lra. }
  pose proof (Bmult_correct 53 1024 Hp64 He64 mode_NE t dur) as H. fold x in H.
  rewrite Rlt_bool_true in H.
  - destruct H as (HR & HF & _). unfold D.mul, fmul.
    split; [rewrite HF, Ft, Fd; reflexivity|]. rewrite HR. split; [exact Hr|].
    eapply Rle_trans; [apply RN_err|]. apply Rmult_le_compat_l; [lra|]. apply ulp64_le_pos; lra.
  - rewrite Rabs_pos_eq by lra. pose proof (fin_lt_emax dur) as He. rewrite Rabs_pos_eq in He by lra. lra.
Qed.

(* 1.0 - p  with  0 <= p <= 1 *)
Lemma sub_unit (p : F64) : fin p -> 0 <= B2R p <= 1 ->
  fin (D.sub (D.of_Z 1) p) /\ 0 <= B2R (D.sub (D.of_Z 1) p) <= 1 /\
  Rabs (B2R (D.sub (D.of_Z 1) p) - (1 - B2R p)) <= pow2 (-53).
Proof.
  intros Fp (H0 & H1). destruct one_R as (R1 & F1).
  assert (Hr : 0 <= RN (1 - B2R p) <= 1).
  { split; [rewrite <- RN_0; apply RN_le; lra|].
    apply Rle_trans with (RN 1); [apply RN_le; lra | rewrite RN_1; lra]. }
  pose proof (Bminus_correct 53 1024 Hp64 He64 mode_NE (D.of_Z 1) p F1 Fp) as H. rewrite R1 in H.
  rewrite Rlt_bool_true in H.
  - destruct H as (HR & HF & _). unfold D.sub, fsub.
    split; [exact HF|]. rewrite HR. split; [exact Hr|].
    eapply Rle_trans; [apply RN_err|]. rewrite pow2_53_half.
    apply Rmult_le_compat_l; [lra|]. rewrite <- ulp64_1. apply ulp64_le_pos; lra.
  - rewrite Rabs_pos_eq by lra. apply Rle_lt_trans with 1; [lra|].
    change 1 with (bpow radix2 0). apply bpow_lt. lia.
Qed.

(* sst + m  with  0 <= m <= dur  and  sst + dur  finite *)
Lemma add_between (sst m dur : F64) : fin m -> fin dur -> fin (D.add sst dur) ->
  0 <= B2R m <= B2R dur ->
  fin (D.add sst m) /\ B2R sst <= B2R (D.add sst m) <= B2R (D.add sst dur) /\
  Rabs (B2R (D.add sst m) - (B2R sst + B2R m)) <= / 2 * ulp64 (B2R (D.add sst m)).
Proof.
  intros Fm Fd Fe (H0 & H1).
  destruct (fin_add_inv _ _ Fe) as (Fs & _).
  pose proof (add_R _ _ Fs Fd Fe) as He.
  assert (Hr : B2R sst <= RN (B2R sst + B2R m) <= B2R (D.add sst dur)).
  { split; [rewrite <- (RN_id sst) at 1 | rewrite He]; apply RN_le; lra. }
  pose proof (Bplus_correct 53 1024 Hp64 He64 mode_NE sst m Fs Fm) as H.
  rewrite Rlt_bool_true in H.
  - destruct H as (HR & HF & _). unfold D.add, fadd.
    split; [exact HF|]. rewrite HR. split; [exact Hr|]. apply RN_err.
  - eapply Rle_lt_trans; [apply (between_abs _ _ _ Hr)|].
    apply Rmax_lub_lt; apply fin_lt_emax.
Qed.

(* ---------- one tick time ---------- *)

Section OneTick.
  Variables sst dur len d : F64.
  Hypothesis Fl : fin len.
  Hypothesis Fd : fin d.
  Hypothesis Hd : 0 < B2R d <= B2R len.
  Hypothesis Fdur : fin dur.
  Hypothesis Hdur : 0 <= B2R dur.
  Hypothesis Fend : fin (D.add sst dur).

  Lemma tick_time_local (rv : bool) :
    let t := tick_time sst dur len rv d in
    let p := B2R (D.div d len) in
    fin t /\ B2R sst <= B2R t <= B2R (D.add sst dur) /\
    Rabs (B2R t - (B2R sst + (if rv then 1 - p else p) * B2R dur))
      <= (if rv then pow2 (-53) else 0) * B2R dur + / 2 * ulp64 (B2R dur) + / 2 * ulp64 (B2R t).
  Proof.
    cbn zeta. unfold tick_time.
    destruct (div_unit d len Fd Fl Hd) as (Fp & _ & Bp & _).
    set (p := D.div d len) in *.
    destruct rv.
    - destruct (sub_unit p Fp Bp) as (Fq & Bq & Eq).
      set (q := D.sub (D.of_Z 1) p) in *.
      destruct (mul_unit q dur Fq Fdur Bq Hdur) as (Fm & Bm & Em).
      destruct (add_between sst (D.mul q dur) dur Fm Fdur Fend Bm) as (Ft & Bt & Et).
      split; [exact Ft|]. split; [exact Bt|].
      set (t := B2R (D.add sst (D.mul q dur))) in *.
      replace (t - (B2R sst + (1 - B2R p) * B2R dur))
        with ((t - (B2R sst + B2R (D.mul q dur))) + (B2R (D.mul q dur) - B2R q * B2R dur)
              + (B2R q - (1 - B2R p)) * B2R dur) by ring.
      eapply Rle_trans; [apply Rabs_triang|].
      eapply Rle_trans; [apply Rplus_le_compat_r; apply Rabs_triang|].
      assert (Rabs ((B2R q - (1 - B2R p)) * B2R dur) <= pow2 (-53) * B2R dur).
      { rewrite Rabs_mult, (Rabs_pos_eq (B2R dur)) by exact Hdur. apply Rmult_le_compat_r; assumption. }
      lra.
    - destruct (mul_unit p dur Fp Fdur Bp Hdur) as (Fm & Bm & Em).
      destruct (add_between sst (D.mul p dur) dur Fm Fdur Fend Bm) as (Ft & Bt & Et).
      split; [exact Ft|]. split; [exact Bt|].
      set (t := B2R (D.add sst (D.mul p dur))) in *.
      replace (t - (B2R sst + B2R p * B2R dur))
        with ((t - (B2R sst + B2R (D.mul p dur))) + (B2R (D.mul p dur) - B2R p * B2R dur)) by ring.
      eapply Rle_trans; [apply Rabs_triang|]. lra.
  Qed.
End OneTick.

(* ---------- T20c (2): tick times against the exact closed form ---------- *)

Definition span_mag (sst send : R) : R := Rmax (Rabs sst) (Rabs send).

(* error of the time of tick j: [len dur] are the real values of the length
   and of the span duration, [mag] bounds the magnitude of the span's times *)
Definition time_err (len dur mag : R) (rv : bool) (j : nat) : R :=
  (prog_err len j + (if rv then pow2 (-53) else 0)) * dur + / 2 * ulp64 dur + / 2 * ulp64 mag.

Theorem tick_time_error (start dur len mdfe td : F64) (ds : list F64) (s : Z) :
  fin len -> dists_ok ops64 len mdfe td ds ->
  fin dur -> 0 <= B2R dur ->
  let sst := sp_sst ops64 start dur s in
  fin (D.add sst dur) ->
  forall j, (j < length ds)%nat ->
  let e := sp_tick ops64 start dur len s (nth j ds D.zero) in
  let P := INR (S j) * B2R td / B2R len in
  fin (ev_time e) /\
  B2R sst <= B2R (ev_time e) <= B2R (D.add sst dur) /\
  Rabs (B2R (ev_time e) - (B2R sst + (if Z.odd s then 1 - P else P) * B2R dur))
    <= time_err (B2R len) (B2R dur) (span_mag (B2R sst) (B2R (D.add sst dur))) (Z.odd s) j.
Proof.
  intros Fl Hok Fdur Hdur sst Fend j Hj e P.
  destruct (tick_distance_error len mdfe td ds Fl Hok j Hj) as (_ & _ & _ & Fd & Bd & _).
  destruct (tick_progress_error len mdfe td ds Fl Hok j Hj) as (_ & _ & Ep). cbn zeta in Ep. fold P in Ep.
  set (d := nth j ds D.zero) in *.
  assert (Ht : ev_time e = tick_time sst dur len (Z.odd s) d) by reflexivity.
  rewrite Ht.
  destruct (tick_time_local sst dur len d Fl Fd Bd Fdur Hdur Fend (Z.odd s)) as (Ft & Bt & Et).
  cbn zeta in Et.
  split; [exact Ft|]. split; [exact Bt|].
  set (t := B2R (tick_time sst dur len (Z.odd s) d)) in *.
  set (p := B2R (D.div d len)) in *.
  assert (Hu : ulp64 t <= ulp64 (span_mag (B2R sst) (B2R (D.add sst dur)))).
  { apply ulp64_le. unfold span_mag. rewrite (Rabs_pos_eq (Rmax _ _)).
    - apply between_abs. exact Bt.
    - eapply Rle_trans; [apply Rabs_pos | apply Rmax_l]. }
  assert (Hp : Rabs (((if Z.odd s then 1 - p else p) - (if Z.odd s then 1 - P else P)) * B2R dur)
               <= prog_err (B2R len) j * B2R dur).
  { rewrite Rabs_mult, (Rabs_pos_eq (B2R dur)) by exact Hdur. apply Rmult_le_compat_r; [exact Hdur|].
    destruct (Z.odd s); [|exact Ep].
    replace (1 - p - (1 - P)) with (- (p - P)) by ring. rewrite Rabs_Ropp. exact Ep. }
  replace (t - (B2R sst + (if Z.odd s then 1 - P else P) * B2R dur))
    with ((t - (B2R sst + (if Z.odd s then 1 - p else p) * B2R dur))
          + ((if Z.odd s then 1 - p else p) - (if Z.odd s then 1 - P else P)) * B2R dur) by ring.
  eapply Rle_trans; [apply Rabs_triang|]. unfold time_err. lra.
Qed.

(* ---------- T20c (3): the repeat is not before any tick of its span ---------- *)

Theorem span_weakly_chronological (start dur len mdfe td : F64) (ds : list F64) (n s : Z) :
  fin len -> dists_ok ops64 len mdfe td ds ->
  fin dur -> 0 <= B2R dur ->
  fin (D.add (sp_sst ops64 start dur s) dur) ->
  Forall (fun e => fin (ev_time e)) (sp_span ops64 start dur len n ds s) /\
  Forall (fun e => Fle (sp_sst ops64 start dur s) (ev_time e) /\
                   Fle (ev_time e) (ev_time (sp_repeat ops64 start dur s)))
         (sp_span ops64 start dur len n ds s) /\
  StronglySorted Fle (map ev_time (sp_span ops64 start dur len n ds s)).
Proof.
  intros Fl Hok Fdur Hdur Fend.
  set (sst := sp_sst ops64 start dur s) in *.
  assert (Hrep : ev_time (sp_repeat ops64 start dur s) = D.add sst dur) by reflexivity.
  (* every tick: finite, between the span start and the repeat *)
  assert (Htk : forall d, In d ds ->
            fin (ev_time (sp_tick ops64 start dur len s d)) /\
            Fle sst (ev_time (sp_tick ops64 start dur len s d)) /\
            Fle (ev_time (sp_tick ops64 start dur len s d)) (D.add sst dur)).
  { intros d Hd. destruct (In_nth ds d D.zero Hd) as (j & Hj & <-).
    destruct (tick_time_error start dur len mdfe td ds s Fl Hok Fdur Hdur Fend j Hj) as (F & B & _).
    unfold Fle. tauto. }
  assert (Hrange : B2R sst <= B2R (D.add sst dur)).
  { destruct (fin_add_inv _ _ Fend) as (Fs & _). rewrite (add_R _ _ Fs Fdur Fend).
    rewrite <- (RN_id sst) at 1. apply RN_le. lra. }
  set (tks := if Z.odd s then rev (map (sp_tick ops64 start dur len s) ds)
              else map (sp_tick ops64 start dur len s) ds).
  assert (Hin : forall e, In e tks -> exists d, In d ds /\ e = sp_tick ops64 start dur len s d).
  { intros e He. unfold tks in He. destruct (Z.odd s); [apply in_rev in He|];
      apply in_map_iff in He; destruct He as (d & <- & Hd); exists d; split; auto. }
  assert (Hall : forall e, In e (sp_span ops64 start dur len n ds s) ->
            fin (ev_time e) /\ Fle sst (ev_time e) /\ Fle (ev_time e) (D.add sst dur)).
  { intros e He. unfold sp_span in He. fold tks in He. apply in_app_or in He. destruct He as [He|He].
    - destruct (Hin e He) as (d & Hd & ->). apply Htk. exact Hd.
    - destruct (s <? n - 1)%Z; [|destruct He]. destruct He as [<-|[]]. rewrite Hrep.
      unfold Fle. repeat split; [exact Fend | exact Hrange | lra]. }
  split; [apply Forall_forall; intros e He; apply (Hall e He)|].
  split; [apply Forall_forall; intros e He; rewrite Hrep; apply (Hall e He)|].
  (* order *)
  unfold sp_span. fold tks. rewrite map_app. apply SS_app.
  - destruct (Nat.eq_dec (length ds) 0) as [El|El].
    + apply length_zero_iff_nil in El. unfold tks. rewrite El. destruct (Z.odd s); constructor.
    + assert (H0 : (0 < length ds)%nat) by lia.
      destruct (tick_distance_error len mdfe td ds Fl Hok 0%nat H0) as (Ft & Ht & _ & _ & B0 & _).
      destruct Hok as (Hmap & _ & _).
      unfold tks. apply ticks_weakly_chronological with (td := td); auto; [lra|].
      apply Forall_forall. intros e He. apply in_map_iff in He. destruct He as (d & <- & Hd).
      apply Htk. exact Hd.
  - destruct (s <? n - 1)%Z; repeat constructor.
  - intros a b Ha Hb. destruct (s <? n - 1)%Z; [|destruct Hb]. destruct Hb as [<-|[]].
    apply in_map_iff in Ha. destruct Ha as (e & <- & He).
    destruct (Hin e He) as (d & Hd & ->). rewrite Hrep. apply Htk. exact Hd.
Qed.

(* ---------- span start, tail, legacy last tick ---------- *)

(* start + k * dur, the float expression of every span start and of the tail *)
Lemma affine_error (start dur : F64) (k : Z) : (Z.abs k < 2 ^ 53)%Z ->
  let prod := D.mul (D.of_Z k) dur in
  let r := D.add start prod in
  fin r ->
  fin start /\ fin dur /\ fin prod /\
  Rabs (B2R prod - IZR k * B2R dur) <= / 2 * ulp64 (B2R prod) /\
  Rabs (B2R r - (B2R start + IZR k * B2R dur)) <= / 2 * ulp64 (B2R prod) + / 2 * ulp64 (B2R r).
Proof.
  intros Hk prod r Fr. destruct (ofZ_R k Hk) as (Rk & Fk).
  destruct (fin_add_inv _ _ Fr) as (Fs & Fp). destruct (fin_mul_inv _ _ Fp) as (_ & Fd).
  assert (Ep : Rabs (B2R prod - IZR k * B2R dur) <= / 2 * ulp64 (B2R prod)).
  { unfold prod. rewrite (mul_R _ _ Fp), Rk. apply RN_err. }
  repeat split; try assumption.
  replace (B2R r - (B2R start + IZR k * B2R dur))
    with ((B2R r - (B2R start + B2R prod)) + (B2R prod - IZR k * B2R dur)) by ring.
  eapply Rle_trans; [apply Rabs_triang|].
  assert (Rabs (B2R r - (B2R start + B2R prod)) <= / 2 * ulp64 (B2R r)).
  { unfold r. rewrite (add_R _ _ Fs Fp Fr). apply RN_err. }
  lra.
Qed.

Theorem span_start_error (start dur : F64) (s : Z) : (Z.abs s < 2 ^ 53)%Z ->
  let sst := sp_sst ops64 start dur s in
  fin sst ->
  Rabs (B2R sst - (B2R start + IZR s * B2R dur))
    <= / 2 * ulp64 (B2R (D.mul (D.of_Z s) dur)) + / 2 * ulp64 (B2R sst).
Proof. intros Hs sst F. apply (affine_error start dur s Hs F). Qed.

Theorem tail_time_error (start dur : F64) (n : Z) : (Z.abs n < 2 ^ 53)%Z ->
  let t := ev_time (sp_tail ops64 start dur n) in
  fin t ->
  Rabs (B2R t - (B2R start + IZR n * B2R dur))
    <= / 2 * ulp64 (B2R (D.mul (D.of_Z n) dur)) + / 2 * ulp64 (B2R t).
Proof. intros Hn t F. apply (affine_error start dur n Hn F). Qed.

(* the repeat of span s against  start + (s+1) * dur *)
Theorem repeat_time_error (start dur : F64) (s : Z) : (Z.abs s < 2 ^ 53)%Z ->
  let sst := sp_sst ops64 start dur s in
  let t := ev_time (sp_repeat ops64 start dur s) in
  fin t ->
  Rabs (B2R t - (B2R start + IZR (s + 1) * B2R dur))
    <= / 2 * ulp64 (B2R (D.mul (D.of_Z s) dur)) + / 2 * ulp64 (B2R sst) + / 2 * ulp64 (B2R t).
Proof.
  intros Hs sst t F. unfold t, sp_repeat in *. cbn [ev_time] in *. fold sst in F |- *.
  destruct (fin_add_inv _ _ F) as (Fs & Fd).
  pose proof (span_start_error start dur s Hs Fs) as E1. cbn zeta in E1. fold sst in E1.
  assert (E2 : Rabs (B2R (D.add sst dur) - (B2R sst + B2R dur)) <= / 2 * ulp64 (B2R (D.add sst dur))).
  { rewrite (add_R _ _ Fs Fd F). apply RN_err. }
  cbn [ops64 f_add]. rewrite plus_IZR.
  replace (B2R (D.add sst dur) - (B2R start + (IZR s + 1) * B2R dur))
    with ((B2R (D.add sst dur) - (B2R sst + B2R dur)) + (B2R sst - (B2R start + IZR s * B2R dur))) by ring.
  eapply Rle_trans; [apply Rabs_triang|]. lra.
Qed.

(* f64::max on finite operands is the real maximum *)
Lemma max_R (a b : F64) : fin a -> fin b ->
  fin (D.max a b) /\ B2R (D.max a b) = Rmax (B2R a) (B2R b).
Proof.
  intros Fa Fb. unfold D.max, fmax, fis_nan, flt.
  replace (is_nan a) with false by (destruct a; try reflexivity; discriminate).
  replace (is_nan b) with false by (destruct b; try reflexivity; discriminate).
  rewrite (Bltb_correct 53 1024 a b Fa Fb).
  destruct (Rlt_bool_spec (B2R a) (B2R b)) as [H|H].
  - split; [exact Fb|]. rewrite Rmax_right by lra. reflexivity.
  - split; [exact Fa|]. rewrite Rmax_left by lra. reflexivity.
Qed.

Lemma Rmax_lipschitz a b a' b' ea eb : Rabs (a - a') <= ea -> Rabs (b - b') <= eb ->
  Rabs (Rmax a b - Rmax a' b') <= Rmax ea eb.
Proof.
  intros Ha Hb.
  assert (Ha' := Rabs_le_inv _ _ Ha). assert (Hb' := Rabs_le_inv _ _ Hb).
  pose proof (Rmax_l ea eb). pose proof (Rmax_r ea eb).
  set (M := Rmax ea eb) in *. apply Rabs_le. unfold Rmax. destruct (Rle_dec a b), (Rle_dec a' b'); lra.
Qed.

Lemma tail_leniency_sf : B2SF (c_tail_leniency ops64) = SpecFloat.S754_finite true 5066549580791808 (-47).
Proof. vm_compute. reflexivity. Qed.

Lemma tail_leniency_R64 : B2R (c_tail_leniency ops64) = -36 /\ fin (c_tail_leniency ops64).
Proof.
  pose proof tail_leniency_sf as H. destruct (c_tail_leniency ops64) as [s|s| |s m e Hb]; try discriminate.
  cbn in H. inversion H; subst. split; [|reflexivity]. unfold B2R, F2R. cbn. lra.
Qed.

Lemma two_R : B2R (D.of_Z 2) = 2 /\ fin (D.of_Z 2).
Proof. apply (of_Z_exact 53 1024 Hp64 He64 2). reflexivity. Qed.

(* legacy last tick:  max(start + (n*dur)/2, ((start + (n-1)*dur) + dur) + (-36)) *)
Theorem last_tick_time_error (start dur : F64) (n : Z) :
  (Z.abs n < 2 ^ 53)%Z -> (Z.abs (n - 1) < 2 ^ 53)%Z ->
  let total := D.mul (D.of_Z n) dur in
  let half := D.div total (D.of_Z 2) in
  let a := D.add start half in
  let fsst := sp_sst ops64 start dur (n - 1) in
  let send := D.add fsst dur in
  let b := D.add send (c_tail_leniency ops64) in
  let ea := / 2 * ulp64 (B2R total) + / 2 * ulp64 (B2R half) + / 2 * ulp64 (B2R a) in
  let eb := / 2 * ulp64 (B2R (D.mul (D.of_Z (n - 1)) dur)) + / 2 * ulp64 (B2R fsst)
            + / 2 * ulp64 (B2R send) + / 2 * ulp64 (B2R b) in
  fin a -> fin b ->
  let t := ev_time (sp_last_tick ops64 start dur n) in
  fin t /\ B2R t = Rmax (B2R a) (B2R b) /\
  Rabs (B2R a - (B2R start + IZR n * B2R dur / 2)) <= ea /\
  Rabs (B2R b - (B2R start + IZR n * B2R dur - 36)) <= eb /\
  Rabs (B2R t - Rmax (B2R start + IZR n * B2R dur / 2) (B2R start + IZR n * B2R dur - 36)) <= Rmax ea eb.
Proof.
  intros Hn Hn1 total half a fsst send b ea eb Fa Fb t.
  assert (Et : t = D.max a b) by reflexivity.
  destruct (max_R a b Fa Fb) as (Ft & Rt). rewrite Et.
  split; [exact Ft|]. split; [exact Rt|].
  destruct two_R as (R2 & F2). destruct tail_leniency_R64 as (RL & FL).
  destruct (ofZ_R n Hn) as (Rn & Fn).
  (* a *)
  destruct (fin_add_inv _ _ Fa) as (Fs & Fh).
  assert (Ftot : fin total).
  { apply (fin_div_inv total (D.of_Z 2) F2); [rewrite R2; lra | exact Fh]. }
  assert (E1 : Rabs (B2R total - IZR n * B2R dur) <= / 2 * ulp64 (B2R total)).
  { unfold total. rewrite (mul_R _ _ Ftot), Rn. apply RN_err. }
  assert (E2 : Rabs (B2R half - B2R total / 2) <= / 2 * ulp64 (B2R half)).
  { unfold half. rewrite (div_R total (D.of_Z 2)) by (rewrite ?R2; auto; lra). rewrite R2. apply RN_err. }
  assert (E3 : Rabs (B2R a - (B2R start + B2R half)) <= / 2 * ulp64 (B2R a)).
  { unfold a. rewrite (add_R _ _ Fs Fh Fa). apply RN_err. }
  assert (EA : Rabs (B2R a - (B2R start + IZR n * B2R dur / 2)) <= ea).
  { replace (B2R a - (B2R start + IZR n * B2R dur / 2))
      with ((B2R a - (B2R start + B2R half)) + (B2R half - B2R total / 2)
            + (B2R total - IZR n * B2R dur) / 2) by field.
    eapply Rle_trans; [apply Rabs_triang|].
    eapply Rle_trans; [apply Rplus_le_compat_r; apply Rabs_triang|].
    assert (Rabs ((B2R total - IZR n * B2R dur) / 2) <= / 2 * ulp64 (B2R total)).
    { unfold Rdiv. rewrite Rabs_mult, (Rabs_pos_eq (/ 2)) by lra.
      pose proof (ulp64_ge_0 (B2R total)). pose proof (Rabs_pos (B2R total - IZR n * B2R dur)). lra. }
    unfold ea. lra. }
  (* b *)
  destruct (fin_add_inv _ _ Fb) as (Fe & _).
  pose proof (repeat_time_error start dur (n - 1) Hn1) as ER. cbn zeta in ER.
  change (ev_time (sp_repeat ops64 start dur (n - 1))) with send in ER. specialize (ER Fe).
  replace (n - 1 + 1)%Z with n in ER by lia. fold fsst in ER.
  assert (E4 : Rabs (B2R b - (B2R send + -36)) <= / 2 * ulp64 (B2R b)).
  { unfold b. rewrite (add_R _ _ Fe FL Fb), RL. apply RN_err. }
  assert (EB : Rabs (B2R b - (B2R start + IZR n * B2R dur - 36)) <= eb).
  { replace (B2R b - (B2R start + IZR n * B2R dur - 36))
      with ((B2R b - (B2R send + -36)) + (B2R send - (B2R start + IZR n * B2R dur))) by ring.
    eapply Rle_trans; [apply Rabs_triang|]. unfold eb. lra. }
  split; [exact EA|]. split; [exact EB|].
  rewrite Rt. apply Rmax_lipschitz; assumption.
Qed.

(* progress of the legacy last tick:  (time - final_span_start) / dur, mirrored
   (1 - ..) when the span count is even; exact value X = (T - FS) / dur with
   T = max(start + n*dur/2, start + n*dur - 36), FS = start + (n-1)*dur *)
Theorem last_tick_progress_error (start dur : F64) (n : Z) :
  (Z.abs n < 2 ^ 53)%Z -> (Z.abs (n - 1) < 2 ^ 53)%Z -> 0 < B2R dur ->
  let total := D.mul (D.of_Z n) dur in
  let half := D.div total (D.of_Z 2) in
  let a := D.add start half in
  let fsst := sp_sst ops64 start dur (n - 1) in
  let send := D.add fsst dur in
  let b := D.add send (c_tail_leniency ops64) in
  let ea := / 2 * ulp64 (B2R total) + / 2 * ulp64 (B2R half) + / 2 * ulp64 (B2R a) in
  let eb := / 2 * ulp64 (B2R (D.mul (D.of_Z (n - 1)) dur)) + / 2 * ulp64 (B2R fsst)
            + / 2 * ulp64 (B2R send) + / 2 * ulp64 (B2R b) in
  let efs := / 2 * ulp64 (B2R (D.mul (D.of_Z (n - 1)) dur)) + / 2 * ulp64 (B2R fsst) in
  fin a -> fin b ->
  let e := sp_last_tick ops64 start dur n in
  let diff := D.sub (ev_time e) fsst in
  let q := D.div diff dur in
  fin (ev_prog e) ->
  let T := Rmax (B2R start + IZR n * B2R dur / 2) (B2R start + IZR n * B2R dur - 36) in
  let FS := B2R start + IZR (n - 1) * B2R dur in
  let X := (T - FS) / B2R dur in
  Rabs (B2R (ev_prog e) - (if Z.even n then 1 - X else X))
    <= (Rmax ea eb + efs + / 2 * ulp64 (B2R diff)) / B2R dur + / 2 * ulp64 (B2R q)
       + (if Z.even n then / 2 * ulp64 (B2R (ev_prog e)) else 0).
Proof.
  intros Hn Hn1 Hdur total half a fsst send b ea eb efs Fa Fb e diff q Fp T FS X.
  destruct (last_tick_time_error start dur n Hn Hn1 Fa Fb) as (Ft & _ & _ & _ & Et).
  fold total half a fsst send b ea eb in Et. cbn zeta in Et. fold e T in Et.
  assert (Eprog : ev_prog e = if Z.even n then D.sub (D.of_Z 1) q else q) by reflexivity.
  destruct one_R as (R1 & F1).
  assert (Fq : fin q).
  { rewrite Eprog in Fp. destruct (Z.even n); [apply (fin_sub_inv _ _ Fp) | exact Fp]. }
  assert (Fdur : fin dur).
  { destruct dur as [s|s| |s m ex Hb]; try reflexivity; cbn in Hdur; lra. }
  assert (Fdiff : fin diff) by (apply (fin_div_inv diff dur Fdur); [lra | exact Fq]).
  destruct (fin_sub_inv _ _ Fdiff) as (_ & Ffs).
  pose proof (span_start_error start dur (n - 1) Hn1 Ffs) as Efs. cbn zeta in Efs.
  fold fsst efs FS in Efs.
  assert (Ed : Rabs (B2R diff - (T - FS)) <= Rmax ea eb + efs + / 2 * ulp64 (B2R diff)).
  { replace (B2R diff - (T - FS))
      with ((B2R diff - (B2R (ev_time e) - B2R fsst)) + (B2R (ev_time e) - T) - (B2R fsst - FS)) by ring.
    assert (E1 : Rabs (B2R diff - (B2R (ev_time e) - B2R fsst)) <= / 2 * ulp64 (B2R diff)).
    { pose proof (sub_R _ _ Ft Ffs Fdiff) as Hs. change (B2R diff = RN (B2R (ev_time e) - B2R fsst)) in Hs.
      rewrite Hs. apply RN_err. }
    eapply Rle_trans; [apply Rabs_triang|]. rewrite Rabs_Ropp.
    eapply Rle_trans; [apply Rplus_le_compat_r; apply Rabs_triang|]. lra. }
  assert (Eq : Rabs (B2R q - X) <= (Rmax ea eb + efs + / 2 * ulp64 (B2R diff)) / B2R dur + / 2 * ulp64 (B2R q)).
  { replace (B2R q - X) with ((B2R q - B2R diff / B2R dur) + (B2R diff - (T - FS)) / B2R dur)
      by (unfold X; field; lra).
    assert (E2 : Rabs (B2R q - B2R diff / B2R dur) <= / 2 * ulp64 (B2R q)).
    { unfold q. rewrite (div_R diff dur) by (auto; lra). apply RN_err. }
    assert (E3 : Rabs ((B2R diff - (T - FS)) / B2R dur)
                 <= (Rmax ea eb + efs + / 2 * ulp64 (B2R diff)) / B2R dur).
    { unfold Rdiv. rewrite Rabs_mult, (Rabs_pos_eq (/ B2R dur)) by (left; apply Rinv_0_lt_compat; exact Hdur).
      apply Rmult_le_compat_r; [left; apply Rinv_0_lt_compat; exact Hdur | exact Ed]. }
    eapply Rle_trans; [apply Rabs_triang|]. lra. }
  rewrite Eprog in *. destruct (Z.even n).
  - replace (B2R (D.sub (D.of_Z 1) q) - (1 - X))
      with ((B2R (D.sub (D.of_Z 1) q) - (1 - B2R q)) - (B2R q - X)) by ring.
    assert (E4 : Rabs (B2R (D.sub (D.of_Z 1) q) - (1 - B2R q)) <= / 2 * ulp64 (B2R (D.sub (D.of_Z 1) q))).
    { rewrite (sub_R _ _ F1 Fq Fp), R1. apply RN_err. }
    eapply Rle_trans; [apply Rabs_triang|]. rewrite Rabs_Ropp. lra.
  - lra.
Qed.

(* CatmullSurplusEncode: C01 layer 4 -- the encoder does not panic on a
   decoded map all of whose osu!-mode Catmull sliders are bounded
   ([slider_bounded]: the hypotheses of Proofs/CatmullSurplus.v on the
   Catmull sub-paths and on the number of vertices of the computed path).
   For those maps [neg_dist_class] is empty. *)
From RM Require Import Model.Encode Model.CurveDist.
From RM Require Model.DrvEnc Model.Curve Model.SliderEvents.
From RM Require Import Proofs.FloatNonneg Proofs.CurveDistNonneg Proofs.DecodedObjects Proofs.EncodeTotal
     Proofs.CatmullSurplus.
From Coq Require Import ZifyBool.
Open Scope Z_scope.

Section Bounded.
  Variable lm : Curve.Libm.
  Variable chk : bool.
  Variables fuel tf : nat.
  Notation dreal := (DrvEnc.dist_real lm).
  Notation ereal := (events_with chk fuel tf).

  (* the hypotheses of [curve_dist_nn_bounded] for the curve of a slider *)
  Definition slider_bounded (s : Slider) : Prop :=
    catmull_hyp (sl_mode s) (map CurveDist.conv_pcp (sl_control_points s)) /\
    path_small lm Curve.bezier_fuel (sl_mode s) (map CurveDist.conv_pcp (sl_control_points s)).

  (* ... asked of osu!-mode sliders with a Catmull control point only *)
  Definition obj_bounded (h : HitObject) : Prop :=
    match h_kind h with KSlider s => osu_catmull s = true -> slider_bounded s | _ => True end.

  Lemma slider_dist_nn_bounded s d : slider_img s -> slider_bounded s ->
    dist_of_curve lm (sl_mode s) (sl_control_points s) (sl_expected_dist s) = Done d -> nn64 d = true.
  Proof.
    intros (_ & He & _) (Hh & Hs). unfold dist_of_curve, curve_of.
    destruct (Curve.curve_L1 lm Curve.bezier_fuel (sl_mode s) (map CurveDist.conv_pcp (sl_control_points s))
                (sl_expected_dist s)) as [c| |] eqn:Ec; cbn [obind]; try discriminate.
    intros [= <-]. exact (curve_dist_nn_bounded lm _ _ _ _ c Hh Hs He Ec).
  Qed.

  Lemma bounded_class_empty m : map_shape dreal m ->
    Forall obj_bounded (hov_hit_objects (bmv_ho m)) -> neg_dist_class lm m = false.
  Proof.
    intros (_ & Hf) Hs. unfold neg_dist_class.
    replace (existsb (neg_dist_slider lm) (hov_hit_objects (bmv_ho m))) with false; [apply andb_false_r|].
    symmetry. apply not_true_is_false. intros E. apply existsb_exists in E. destruct E as (h & Hin & Hh).
    rewrite Forall_forall in Hf, Hs. specialize (Hf h Hin). specialize (Hs h Hin).
    unfold neg_dist_slider, obj_fin, obj_bounded in *.
    destruct (h_kind h) as [ci|s|sp|hd]; try discriminate.
    destruct Hf as (Hi & _).
    destruct (dist_of_curve lm (sl_mode s) (sl_control_points s) (sl_expected_dist s)) as [d| |] eqn:Ed;
      try discriminate.
    rewrite nn64_lt_zero in Hh.
    destruct (osu_catmull s) eqn:Eoc.
    - rewrite (slider_dist_nn_bounded s d Hi (Hs eq_refl) Ed) in Hh. discriminate.
    - rewrite (slider_dist_nn lm s d Hi (not_osu_catmull_surplus lm s Eoc) Ed) in Hh. discriminate.
  Qed.

  (* THE ENCODER NEVER PANICS on a decoded map whose osu!-mode Catmull
     sliders are bounded *)
  Theorem encode_no_panic_bounded lines bv w :
    decode_beatmap (dist_of_curve lm) lines = Done bv ->
    Forall obj_bounded (hov_hit_objects (bmv_ho bv)) ->
    encode_tokens dreal ereal bv <> Panic w.
  Proof.
    intros H Hs. apply (encode_no_panic_outside lm chk fuel tf lines bv w H).
    exact (bounded_class_empty bv (decoded_shape lm lines bv H) Hs).
  Qed.
End Bounded.

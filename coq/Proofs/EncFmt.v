(* EncFmt: the number-formatting ORACLE of the encoder theorems.
   Rust's `Display` for f64 / f32 / integers is not modelled; the theorems
   about rendered text are proved for ANY three functions that satisfy
   [fmt_ok] below (what is assumed of `Display`):
     - integers print as an optional '-' and digits, parse back to themselves
       (i32 and u8 grammars), and 0..9 print as the single digit;
     - floats print without White_Space and without any of , : | / [ ] v or the double quote,
       and a finite value parses back to exactly itself (shortest round-trip
       printing); integer-valued f64 up to 2^31 print like the integer.
   All three never print the empty text.  Everything else is derived here. *)
From RM Require Import Model.EncSpec Proofs.EncText Proofs.FloatCmp Proofs.NumFacts.
From RM Require Import Gen.Generated.
From Flocq Require Import BinarySingleNaN.
From Coq Require Import ZifyBool.
Open Scope Z_scope.

Record fmt_ok (fmt_f64 : F64 -> str) (fmt_f32 : F32 -> str) (fmt_int : Z -> str) : Prop := mkFmtOk {
  int_chars : forall n, forallb int_char (fmt_int n) = true;
  int_nonempty' : forall n, fmt_int n <> [];
  int_parse : forall n, i32_min <= n <= i32_max -> parse_i32_raw (fmt_int n) = Some n;
  int_parse_u8 : forall n, 0 <= n <= 255 -> parse_u8_raw (fmt_int n) = Some n;
  int_digit : forall d, 0 <= d <= 9 -> fmt_int d = [48 + d];
  f64_chars : forall x, forallb plainc (fmt_f64 x) = true;
  f64_nonempty : forall x, fmt_f64 x <> [];
  f64_parse : forall x, is_finite x = true -> parse_f64_raw (fmt_f64 x) = Some x;
  f64_int : forall n, - 2 ^ 31 <= n <= 2 ^ 31 -> fmt_f64 (D.of_Z n) = fmt_int n;
  f32_chars : forall x, forallb plainc (fmt_f32 x) = true;
  f32_nonempty : forall x, fmt_f32 x <> [];
  f32_parse : forall x, is_finite x = true -> parse_f32_raw (fmt_f32 x) = Some x
}.

(* ---------- plain strings ---------- *)

Lemma int_char_plain c : int_char c = true -> plainc c = true.
Proof. unfold int_char, plainc, is_digit, is_ws. lia. Qed.

Lemma forallb_imp {A} (p q : A -> bool) l :
  (forall x, p x = true -> q x = true) -> forallb p l = true -> forallb q l = true.
Proof. intros H. rewrite !forallb_forall. auto. Qed.

Lemma plain_first_ws s : forallb plainc s = true -> first_ws s = false.
Proof.
  destruct s as [|c r]; [reflexivity|]. cbn [forallb first_ws]. intros H.
  apply andb_true_iff in H. destruct H as [H _]. unfold plainc in H. lia.
Qed.

Lemma forallb_rev {A} (p : A -> bool) l : forallb p l = true -> forallb p (rev l) = true.
Proof. rewrite !forallb_forall. intros H x Hx. apply H. apply in_rev. exact Hx. Qed.

Lemma plain_tidy s : forallb plainc s = true -> tidyb s = true.
Proof.
  intros H. unfold tidyb, last_ws.
  rewrite (plain_first_ws _ H), (plain_first_ws _ (forallb_rev _ _ H)). reflexivity.
Qed.

Lemma plain_no c s : forallb plainc s = true -> plainc c = false -> memb c s = false.
Proof. intros H Hc. exact (forallb_memb plainc c s H Hc). Qed.

Lemma plain_no_ss s : forallb plainc s = true -> has_ss s = false.
Proof. intros H. apply has_ss_no_slash. apply (plain_no slash s H). reflexivity. Qed.

Lemma plain_trim s : forallb plainc s = true -> trim s = s.
Proof. intros H. apply trim_tidy, plain_tidy, H. Qed.

Section Fmt.
  Variables (fmt_f64 : F64 -> str) (fmt_f32 : F32 -> str) (fmt_int : Z -> str).
  Hypothesis Hfmt : fmt_ok fmt_f64 fmt_f32 fmt_int.

  Lemma int_plain n : forallb plainc (fmt_int n) = true.
  Proof. exact (forallb_imp _ _ _ int_char_plain (int_chars _ _ _ Hfmt n)). Qed.

  Lemma int_nonempty n : i32_min <= n <= i32_max -> fmt_int n <> [].
  Proof. intros Hn E. pose proof (int_parse _ _ _ Hfmt n Hn) as H. rewrite E in H. discriminate. Qed.

  Lemma i32_ok_range n : i32_ok n = true -> i32_min <= n <= i32_max.
  Proof. unfold i32_ok, max_parse_value, i32_min, i32_max. lia. Qed.

  Lemma pn_i32_fmt n : i32_ok n = true -> pn_i32 (fmt_int n) = Some n.
  Proof.
    intros Hn. unfold pn_i32, pn_i32_lim. rewrite (plain_trim _ (int_plain n)).
    rewrite (int_parse _ _ _ Hfmt n (i32_ok_range n Hn)).
    unfold i32_ok in Hn.
    replace (n <? - max_parse_value) with false by lia.
    replace (max_parse_value <? n) with false by lia. reflexivity.
  Qed.

  Lemma in_lim64_finite x : in_lim64 x = true -> is_finite x = true.
  Proof.
    unfold in_lim64. intros H. apply andb_true_iff in H. destruct H as [H H2].
    apply andb_true_iff in H. destruct H as [_ H1].
    change lim64 with f64_limit in *.
    apply (fle_finite_between 53 1024 (D.neg f64_limit) x f64_limit); auto;
      try exact f64_limit_finite;
      try (unfold D.neg, fneg; rewrite is_finite_Bopp; exact f64_limit_finite).
  Qed.
  Lemma in_lim32_finite x : in_lim32 x = true -> is_finite x = true.
  Proof.
    unfold in_lim32. intros H. apply andb_true_iff in H. destruct H as [H H2].
    apply andb_true_iff in H. destruct H as [_ H1].
    change lim32 with f32_limit in *.
    apply (fle_finite_between 24 128 (S.neg f32_limit) x f32_limit); auto;
      try exact f32_limit_finite;
      try (unfold S.neg, fneg; rewrite is_finite_Bopp; exact f32_limit_finite).
  Qed.

  Lemma pn_f64_fmt x : in_lim64 x = true -> pn_f64 (fmt_f64 x) = Some x.
  Proof.
    intros H. apply pn_f64_spec. pose proof (in_lim64_finite x H) as Hf.
    unfold in_lim64 in H. change lim64 with f64_limit in H. apply andb_true_iff in H. destruct H as [H H2].
    apply andb_true_iff in H. destruct H as [H0 H1]. apply negb_true_iff in H0.
    rewrite (plain_trim _ (f64_chars _ _ _ Hfmt x)).
    repeat split; auto. exact (f64_parse _ _ _ Hfmt x Hf).
  Qed.
  Lemma pn_f32_fmt x : in_lim32 x = true -> pn_f32 (fmt_f32 x) = Some x.
  Proof.
    intros H. apply pn_f32_spec. pose proof (in_lim32_finite x H) as Hf.
    unfold in_lim32 in H. change lim32 with f32_limit in H. apply andb_true_iff in H. destruct H as [H H2].
    apply andb_true_iff in H. destruct H as [H0 H1]. apply negb_true_iff in H0.
    rewrite (plain_trim _ (f32_chars _ _ _ Hfmt x)).
    repeat split; auto. exact (f32_parse _ _ _ Hfmt x Hf).
  Qed.

  (* the value text of a token *)
  Definition tok_plain (t : tok) : Prop :=
    match t with TStr _ => False | _ => True end.
  Lemma num_tok_plain t : tok_plain t -> forallb plainc (render_tok fmt_f64 fmt_f32 fmt_int t) = true.
  Proof.
    destruct t; cbn; intros H; [contradiction| | |].
    - exact (f64_chars _ _ _ Hfmt x).
    - exact (f32_chars _ _ _ Hfmt x).
    - exact (int_plain n).
  Qed.
End Fmt.

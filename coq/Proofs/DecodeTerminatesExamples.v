(* DecodeTerminatesExamples: the hypotheses of DecodeTerminates /
   DecodeTerminatesLines are satisfiable, at their limits.  Everything is
   computed on booleans, integers and dumps (never on a value of type F32 / F64).

   [ex16]: a Bezier slider whose head is at (-131072, -131072) -- the coordinate
   limit -- with 15 further points at +-131072: 16 control points, the farthest
   exactly 262144 = 2^18 from the head in both coordinates.
   [ex24]: a Bezier slider of 24 control points inside +-4096 of its head: more
   than 16, covered by the graded form (24 * 2^12 <= 2^22). *)
From RM Require Import Model.Decoders Model.CurveDist Model.Reader Model.Encoding.
From RM Require Import Proofs.DecodeTerminatesPoints Proofs.DecodeTerminates Proofs.DecodeTerminatesLines
     Proofs.DecodeTerminatesSegments Proofs.DecodeTerminatesSegLines Proofs.C01Bytes.
From RM Require Model.Curve Proofs.ThetaLoop.
Open Scope Z_scope.

Definition ex16_lines : list str :=
  map lit ["osu file format v14"; "[General]"; "Mode: 0"; "[TimingPoints]"; "0,500,4,1,0,100,1,0";
           "[HitObjects]";
           "-131072,-131072,0,2,0,B|131072:131072|-131072:131072|131072:-131072|131072:131072|-131072:131072|131072:-131072|131072:131072|-131072:131072|131072:-131072|131072:131072|-131072:131072|131072:-131072|131072:131072|-131072:131072|131072:-131072,1,100"]%string.

Definition ex24_lines : list str :=
  map lit ["osu file format v14"; "[HitObjects]";
           "0,0,0,2,0,B|100:200|800:1700|1500:3200|2200:1200|2900:2700|100:700|800:2200|1500:200|2200:1700|2900:3200|100:1200|800:2700|1500:700|2200:2200|2900:200|100:1700|800:3200|1500:1200|2200:2700|2900:700|100:2200|800:200|1500:1700,1,100"]%string.

(* the integer coordinates of the control points of the parsed sliders *)
Definition parsed_coords (objs : list HitObject) : list (list (Z * Z)) :=
  flat_map (fun h => match h_kind h with
                     | KSlider s => [map (fun p => (f32_as_i32 (px (cp_pos p)), f32_as_i32 (py (cp_pos p))))
                                         (sl_control_points s)]
                     | _ => [] end) objs.

(* on the input: every path field has at most 16 pieces *)
Lemma ex16_lines_fit : lines_fit 16 ex16_lines = true /\ lines_fit 15 ex16_lines = false.
Proof. vm_compute. split; reflexivity. Qed.

(* on the parser state: one slider, 16 control points, coordinates up to 2^18
   from the head; it fits for E = 18 and for no smaller E *)
Lemma ex16_parsed :
  parsed_coords (bm_parsed ex16_lines)
  = [[(0, 0); (262144, 262144); (0, 262144); (262144, 0); (262144, 262144); (0, 262144); (262144, 0);
      (262144, 262144); (0, 262144); (262144, 0); (262144, 262144); (0, 262144); (262144, 0);
      (262144, 262144); (0, 262144); (262144, 0)]] /\
  map (obj_cps_le 16) (bm_parsed ex16_lines) = [true] /\
  map (obj_cps_le 15) (bm_parsed ex16_lines) = [false] /\
  map (obj_fits 18) (bm_parsed ex16_lines) = [true] /\
  map (obj_fits 17) (bm_parsed ex16_lines) = [false] /\
  map obj_fits_some (bm_parsed ex16_lines) = [true] /\
  parsed_coords (ho_parsed ex16_lines) = parsed_coords (bm_parsed ex16_lines).
Proof. vm_compute. repeat split; reflexivity. Qed.

Lemma ex16_hyp :
  Forall (fun h => obj_cps_le 16 h = true) (bm_parsed ex16_lines) /\
  Forall (fun h => obj_cps_le 16 h = true) (ho_parsed ex16_lines).
Proof. exact (conj (proj2 (parsed_cps_le 16 ex16_lines (proj1 ex16_lines_fit)))
                   (proj1 (parsed_cps_le 16 ex16_lines (proj1 ex16_lines_fit)))). Qed.

(* hence, for every libm record with atan2 in range, the decode of this file
   returns a value (by the theorem, not by running the curve) *)
Lemma ex16_decodes lm : ThetaLoop.atan2_in_range lm ->
  (exists hv, decode_hit_objects (dist_of_curve lm) ex16_lines = Done hv) /\
  (exists bv, decode_beatmap (dist_of_curve lm) ex16_lines = Done bv).
Proof. intros Hlm. exact (decode_terminates_lines lm Hlm ex16_lines (proj1 ex16_lines_fit)). Qed.

(* the same file as bytes (UTF-8, LF) through the reader *)
Definition ex16_bytes : bytes := flat_map (fun l => l ++ [10]) ex16_lines.

Lemma ex16_bytes_lines : read_all_lines (mk_reader ex16_bytes []) = IoDone ex16_lines.
Proof. vm_compute. reflexivity. Qed.

Lemma ex16_bytes_decode lm : ThetaLoop.atan2_in_range lm ->
  (exists v, decode_bytes_hit_objects (dist_of_curve lm) ex16_bytes = IoDone v) /\
  (exists v, decode_bytes_beatmap (dist_of_curve lm) ex16_bytes = IoDone v).
Proof.
  intros Hlm. destruct (decode_bytes_terminates_lines lm Hlm ex16_bytes) as (lines & E & H).
  rewrite ex16_bytes_lines in E. injection E as <-. exact (H (proj1 ex16_lines_fit)).
Qed.

(* 24 control points inside +-4096: outside the 16-point rule, inside the graded one *)
Lemma ex24_parsed :
  map (fun l => length l) (parsed_coords (bm_parsed ex24_lines)) = [24%nat] /\
  lines_fit 16 ex24_lines = false /\
  map (obj_cps_le 16) (bm_parsed ex24_lines) = [false] /\
  map (obj_fits 12) (bm_parsed ex24_lines) = [true] /\
  map (obj_fits 18) (bm_parsed ex24_lines) = [false] /\
  map obj_fits_some (bm_parsed ex24_lines) = [true] /\
  map obj_fits_some (ho_parsed ex24_lines) = [true].
Proof. vm_compute. repeat split; reflexivity. Qed.

Lemma ex24_hyp :
  Forall (fun h => obj_fits_some h = true) (bm_parsed ex24_lines) /\
  Forall (fun h => obj_fits_some h = true) (ho_parsed ex24_lines).
Proof.
  destruct ex24_parsed as (_ & _ & _ & _ & _ & H & E).
  assert (F : forall l, map obj_fits_some l = [true] -> Forall (fun h => obj_fits_some h = true) l).
  { intros l Hl. apply Forall_forall. intros h Hh. apply (in_map obj_fits_some) in Hh. rewrite Hl in Hh.
    destruct Hh as [Hh|[]]. symmetry. exact Hh. }
  exact (conj (F _ H) (F _ E)).
Qed.

Lemma ex24_decodes lm : ThetaLoop.atan2_in_range lm ->
  (exists hv, decode_hit_objects (dist_of_curve lm) ex24_lines = Done hv) /\
  (exists bv, decode_beatmap (dist_of_curve lm) ex24_lines = Done bv).
Proof.
  intros Hlm. destruct ex24_hyp as [Hb Hh]. split.
  - exact (decode_hit_objects_fits lm Hlm ex24_lines Hh).
  - exact (decode_beatmap_fits lm Hlm ex24_lines Hb).
Qed.

(* [ex43]: three Bezier segments of 14 point pieces each, all at the
   coordinate limits: 43 control points (1 + 3 * 14), far outside the whole-slider
   rule (43 * 2^18 > 2^22), every segment within 16 control points. *)
Definition ex43_lines : list str :=
  map lit ["osu file format v14"; "[HitObjects]";
           "-131072,-131072,0,2,0,B|131072:131072|-131072:131072|131072:-131072|131072:131072|-131072:131072|131072:-131072|131072:131072|-131072:131072|131072:-131072|131072:131072|-131072:131072|131072:-131072|131072:131072|-131072:131072|B|131072:-131072|131072:131072|-131072:131072|131072:-131072|131072:131072|-131072:131072|131072:-131072|131072:131072|-131072:131072|131072:-131072|131072:131072|-131072:131072|131072:-131072|131072:131072|B|-131072:131072|131072:-131072|131072:131072|-131072:131072|131072:-131072|131072:131072|-131072:131072|131072:-131072|131072:131072|-131072:131072|131072:-131072|131072:131072|-131072:131072|131072:-131072,1,100"]%string.

Definition parsed_shape (objs : list HitObject) : list (nat * nat * list bool) :=
  flat_map (fun h => match h_kind h with
                     | KSlider s => [(length (sl_control_points s), max_seg_len (sl_control_points s),
                                      map (fun p => match cp_type p with Some _ => true | None => false end)
                                          (sl_control_points s))]
                     | _ => [] end) objs.

Lemma ex43_lines_fit : lines_seg_fit ex43_lines = true /\ lines_fit 16 ex43_lines = false.
Proof. vm_compute. split; reflexivity. Qed.

Lemma ex43_parsed :
  map (fun x => (fst (fst x), snd (fst x))) (parsed_shape (bm_parsed ex43_lines)) = [(43%nat, 16%nat)] /\
  map (fun x => filter (fun b => b) (snd x)) (parsed_shape (bm_parsed ex43_lines)) = [[true; true; true]] /\
  map (obj_seg_le 16) (bm_parsed ex43_lines) = [true] /\
  map (obj_seg_le 15) (bm_parsed ex43_lines) = [false] /\
  map (obj_seg_fits 18) (bm_parsed ex43_lines) = [true] /\
  map (obj_seg_fits 17) (bm_parsed ex43_lines) = [false] /\
  map obj_fits_some (bm_parsed ex43_lines) = [false] /\
  map (obj_seg_le 16) (ho_parsed ex43_lines) = [true].
Proof. vm_compute. repeat split; reflexivity. Qed.

Lemma ex43_decodes lm : ThetaLoop.atan2_in_range lm ->
  (exists hv, decode_hit_objects (dist_of_curve lm) ex43_lines = Done hv) /\
  (exists bv, decode_beatmap (dist_of_curve lm) ex43_lines = Done bv).
Proof. intros Hlm. exact (decode_terminates_seg_lines lm Hlm ex43_lines (proj1 ex43_lines_fit)). Qed.

Lemma Forall_of_map_true {A} (f : A -> bool) l : map f l = [true] -> Forall (fun x => f x = true) l.
Proof.
  intros H. apply Forall_forall. intros x Hx. apply (in_map f) in Hx. rewrite H in Hx.
  destruct Hx as [Hx|[]]. symmetry. exact Hx.
Qed.

(* ... also by the state-side theorem *)
Lemma ex43_decodes_state lm : ThetaLoop.atan2_in_range lm ->
  (exists hv, decode_hit_objects (dist_of_curve lm) ex43_lines = Done hv) /\
  (exists bv, decode_beatmap (dist_of_curve lm) ex43_lines = Done bv).
Proof.
  intros Hlm. destruct ex43_parsed as (_ & _ & Hb & _ & _ & _ & _ & Hh).
  destruct (decode_terminates_segments lm Hlm ex43_lines) as [H1 H2]. split.
  - exact (H1 (Forall_of_map_true _ _ Hh)).
  - exact (H2 (Forall_of_map_true _ _ Hb)).
Qed.

(* [ex_real]: a slider line of a real map (resources/Within Temptation - The
   Unforgiving (Armin) [Marathon].osu): one letter, 59 point pieces, two
   doubled points (red anchors) that split it into three segments; outside the
   number-free input condition (a run of 59 pieces), inside the graded
   per-segment one with a wide margin (coordinates within +-256 of the head) *)
Definition ex_real_lines : list str :=
  map lit ["osu file format v14"; "[HitObjects]";
           "256,192,2783687,6,0,B|252:203|238:234|285:241|301:236|315:230|336:212|323:182|328:171|332:161|326:145|310:125|295:132|283:107|277:112|244:105|219:108|204:131|189:147|180:169|180:169|169:197|172:220|178:254|191:280|206:310|255:317|286:330|322:338|357:307|381:282|403:250|408:216|414:197|422:176|425:150|406:108|386:57|353:37|305:22|251:26|214:22|174:41|139:77|121:113|107:146|107:146|97:176|87:233|95:284|124:325|166:371|200:383|250:410|330:406|384:383|417:348|445:311|483:242|479:162,1,1799.99994635582"]%string.

Lemma ex_real_parsed :
  lines_seg_fit ex_real_lines = false /\
  map (fun x => (fst (fst x), snd (fst x))) (parsed_shape (bm_parsed ex_real_lines)) = [(58%nat, 26%nat)] /\
  map (fun x => length (filter (fun b => b) (snd x))) (parsed_shape (bm_parsed ex_real_lines)) = [3%nat] /\
  map (obj_seg_fits 8) (bm_parsed ex_real_lines) = [true] /\
  map (obj_seg_fits 7) (bm_parsed ex_real_lines) = [false] /\
  map obj_seg_fits_some (bm_parsed ex_real_lines) = [true] /\
  map obj_seg_fits_some (ho_parsed ex_real_lines) = [true].
Proof. vm_compute. repeat split; reflexivity. Qed.

Lemma ex_real_decodes lm : ThetaLoop.atan2_in_range lm ->
  (exists hv, decode_hit_objects (dist_of_curve lm) ex_real_lines = Done hv) /\
  (exists bv, decode_beatmap (dist_of_curve lm) ex_real_lines = Done bv).
Proof.
  intros Hlm. destruct ex_real_parsed as (_ & _ & _ & _ & _ & Hb & Hh).
  destruct (decode_terminates_segments_graded lm Hlm ex_real_lines) as [H1 H2]. split.
  - exact (H1 (Forall_of_map_true _ _ Hh)).
  - exact (H2 (Forall_of_map_true _ _ Hb)).
Qed.

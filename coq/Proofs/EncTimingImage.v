(* EncTimingImage: side conditions of T02d that hold of EVERY decoded map.
     - the control points of a decoded Beatmap are sorted (C13 carried through the framing
       driver with Proofs/DecodersTotal.v's invariant), hence so are the control points the
       encoder works on after collect_samples;
   [cp_values_good] is proved for the result of the timing-point decoder itself
   (EncTimingRT.decoded_cp_good, from C12); it is NOT an invariant of whole maps w.r.t. the
   map's final mode: a `Mode` record after the [TimingPoints] section (class D22) leaves
   scroll speeds parsed under the earlier mode. *)
From RM Require Import Model.EncTimingSpec Proofs.ControlPointsFacts Proofs.DecodersTotal
  Proofs.EncCollect Proofs.EncFmt Proofs.EncTimingParse Proofs.EncTimingRT.
From RM Require Import Gen.Generated.
Open Scope Z_scope.

Section Image.
  Variable dist_of : Z -> list PCP -> option F64 -> outcome F64.

  Theorem decoded_map_cp_sorted lines m :
    decode_beatmap dist_of lines = Done m -> cp_sorted (hov_control_points (bmv_ho m)).
  Proof.
    revert m. unfold decode_beatmap.
    apply (driver_invariant _ _ _ bm_ok bm_ok_create bm_ok_step
             (fun ov => forall m, ov = Done m -> cp_sorted (hov_control_points (bmv_ho m)))).
    intros st (s & -> & Hs) m. cbn [obind]. unfold bmd_finish, hod_finish.
    destruct (tpd_finish_total (hod_tp (bmd_ho s)) Hs) as (tv & -> & Hc). cbn [obind].
    destruct (finish_hit_objects _ _ _ _ _ _) as [objs| |]; cbn [obind]; try discriminate.
    intros H; inversion H; subst. exact Hc.
  Qed.

  Variable events_of : F64 -> F64 -> F64 -> F64 -> F64 -> Z -> outcome (list EncEvent).

  Corollary decoded_enc_control_points_sorted lines m c :
    decode_beatmap dist_of lines = Done m -> enc_control_points dist_of events_of m = Done c -> cp_sorted c.
  Proof.
    intros Hd E. exact (enc_control_points_sorted dist_of events_of m c (decoded_map_cp_sorted lines m Hd) E).
  Qed.

  (* T02d for decoded maps: sortedness discharged *)
  Theorem decoded_timing_round_trip fmt_f64 fmt_f32 fmt_int :
    fmt_ok fmt_f64 fmt_f32 fmt_int -> no_leading_zero fmt_int ->
    forall lines m c g,
    decode_beatmap dist_of lines = Done m ->
    let c0 := hov_control_points (bmv_ho m) in
    cp_values_good (tpg_mode g) c0 ->
    enc_control_points dist_of events_of m = Done c -> rt_side (tpg_mode g) c = true ->
    exists ls c',
      enc_timing_points dist_of events_of m = Done (header_tok SecTimingPoints :: ls) /\
      tp_decode g (map (render fmt_f64 fmt_f32 fmt_int) ls) = Done (c', map (fun _ => Ok) ls) /\
      cp_timing c' = cp_timing c0 /\
      (forall t, sv_at c' t = sv_at c0 t) /\
      (forall t, kiai_at c' t = kiai_at c0 t) /\
      (forall t, scroll_at c' t = scroll_at c0 t).
  Proof.
    intros Hfmt Hlead lines m c g Hd c0 Hg E Hside.
    exact (enc_timing_round_trip _ _ _ Hfmt Hlead dist_of events_of m c g (decoded_map_cp_sorted lines m Hd) Hg E Hside).
  Qed.
End Image.

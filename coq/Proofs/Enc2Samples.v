(* Enc2Samples: the sample data of EVERY decoded map is representable -- the part of
   [sample_ok] (Model/EncSpec.v) that is an invariant of the decoder:
     custom index and volume within the i32 parse limits, the bank an enum value, a file
     name free of `,` `:` "//" and line feeds                               ([sample_img])
   carried through read_custom_sample_banks / convert_sound_type (line level), the stable
   sort, the break post-processing and SamplePoint::apply in the per-object loop (map
   level), for the samples of every object and every slider node.

   The one component of [sample_ok] that is NOT an invariant is "the file name does not end
   in white space" (class D30: [d30_sample]): the name is the fifth `:` piece of a `,` field
   of the trimmed line, so it keeps trailing white space whenever something follows it
   (`0:0:0:0:a.wav ,x` or `0:0:0:0:a.wav :x`); the encoder writes it at the end of the line
   and trim_comment removes the white space on re-read ([d30_refuted]). *)
From RM Require Import Model.EncPathSpec Model.HitObjectSpec Proofs.EncText Proofs.EncFmt Proofs.EncFloat
     Proofs.EncSimple Proofs.EncObjects Proofs.FramingFacts Proofs.NumFacts Proofs.PathStringFacts
     Proofs.EncPathRT Proofs.EncPathImage Proofs.EncSlider Proofs.EncLineImage Proofs.EncImage
     Proofs.HitObjectLineFacts Proofs.HitSamplesFacts Proofs.DecodersFacts Proofs.DecodersTotal
     Proofs.MapLevelFacts Proofs.EncMapImage Proofs.TimingPointsValues Proofs.Enc2Values Proofs.EncObjectsRT.
From RM Require Import Gen.Generated.
From Coq Require Import ZifyBool Permutation.
Open Scope Z_scope.

(* ---------- vocabulary ---------- *)

(* [fname_ok] without its last clause *)
Definition fname_img (f : str) : bool :=
  negb (memb comma f) && negb (memb colon f) && negb (has_ss f) && negb (memb ch_lf f).
Definition sample_img (s : HitSampleInfo) : bool :=
  i32_ok (hs_custom s) && i32_ok (hs_volume s) && enum4_ok (hs_bank s) &&
  match hs_name s with NFile f => fname_img f | NDefault _ => true end.
(* class D30: a sample file name that ends in white space *)
Definition d30_sample (s : HitSampleInfo) : bool :=
  match hs_name s with NFile f => last_ws f | NDefault _ => false end.

Lemma sample_img_ok s : sample_img s = true -> d30_sample s = false -> sample_ok s = true.
Proof.
  unfold sample_img, d30_sample, sample_ok, fname_img, fname_ok. intros H D.
  apply andb_true_iff in H. destruct H as [H Hn]. rewrite H. cbn [andb].
  destruct (hs_name s) as [n|f]; [reflexivity|]. rewrite Hn, D. reflexivity.
Qed.

Lemma sample_ok_img s : sample_ok s = true -> sample_img s = true /\ d30_sample s = false.
Proof.
  unfold sample_img, d30_sample, sample_ok, fname_img, fname_ok. intros H.
  apply andb_true_iff in H. destruct H as [H Hn]. rewrite H. cbn [andb].
  destruct (hs_name s) as [n|f]; [split; reflexivity|].
  apply andb_true_iff in Hn. destruct Hn as [Hn Hw]. rewrite Hn. apply negb_true_iff in Hw. split; [reflexivity|exact Hw].
Qed.

(* the samples of an object and of its slider nodes *)
Definition obj_simg (h : HitObject) : bool :=
  forallb sample_img (h_samples h) &&
  match h_kind h with KSlider s => forallb (forallb sample_img) (sl_node_samples s) | _ => true end.
Definition d30_class (h : HitObject) : bool :=
  existsb d30_sample (h_samples h) ||
  match h_kind h with KSlider s => existsb (existsb d30_sample) (sl_node_samples s) | _ => false end.

Lemma forallb_img_ok l : forallb sample_img l = true -> existsb d30_sample l = false -> forallb sample_ok l = true.
Proof.
  induction l as [|s r IH]; [reflexivity|]. cbn [forallb existsb]. intros H D.
  apply andb_true_iff in H. destruct H as [H1 H2]. apply orb_false_iff in D. destruct D as [D1 D2].
  rewrite (sample_img_ok s H1 D1), (IH H2 D2). reflexivity.
Qed.

Lemma forallb2_img_ok l : forallb (forallb sample_img) l = true -> existsb (existsb d30_sample) l = false ->
  forallb (forallb sample_ok) l = true.
Proof.
  induction l as [|s r IH]; [reflexivity|]. cbn [forallb existsb]. intros H D.
  apply andb_true_iff in H. destruct H as [H1 H2]. apply orb_false_iff in D. destruct D as [D1 D2].
  rewrite (forallb_img_ok s H1 D1), (IH H2 D2). reflexivity.
Qed.

(* ---------- the pieces of a trimmed line ---------- *)

(* a `,` field of the comment-trimmed line *)
Definition clean (s : str) : bool := negb (memb comma s) && negb (has_ss s) && negb (memb ch_lf s).

Lemma clean_parts s : clean s = true -> memb comma s = false /\ has_ss s = false /\ memb ch_lf s = false.
Proof.
  unfold clean. intros H. apply andb_true_iff in H. destruct H as [H C]. apply andb_true_iff in H. destruct H as [A B].
  apply negb_true_iff in A, B, C. auto.
Qed.

Lemma clean_sub a s : sub a s -> clean s = true -> clean a = true.
Proof.
  intros Hs H. destruct (clean_parts s H) as (A & B & C). unfold clean.
  rewrite (memb_sub _ _ _ Hs A), (has_ss_sub _ _ Hs B), (memb_sub _ _ _ Hs C). reflexivity.
Qed.

Lemma fields_clean line : memb ch_lf line = false ->
  Forall (fun p => clean p = true) (split_on 44 (trim_comment line)).
Proof.
  intros Hl. apply Forall_forall. intros p Hp.
  destruct (split_on_piece 44 _ _ Hp) as [Hs Hm]. unfold clean. change comma with 44. rewrite Hm.
  rewrite (has_ss_sub _ _ Hs (trim_comment_no_ss line)).
  rewrite (memb_sub _ _ _ (sub_trans _ _ _ Hs (trim_comment_sub line)) Hl). reflexivity.
Qed.

Lemma colon_piece s p : clean s = true -> In p (split_on 58 s) -> fname_img p = true.
Proof.
  intros H Hp. destruct (split_on_piece 58 _ _ Hp) as [Hs Hm].
  destruct (clean_parts _ (clean_sub _ _ Hs H)) as (A & B & C).
  unfold fname_img. change colon with 58. rewrite A, Hm, B, C. reflexivity.
Qed.

Lemma bar_piece s p : clean s = true -> In p (split_on 124 s) -> clean p = true.
Proof. intros H Hp. destruct (split_on_piece 124 _ _ Hp) as [Hs _]. exact (clean_sub _ _ Hs H). Qed.

(* ---------- SampleBankInfo ---------- *)

Definition opt_enum (o : option Z) : bool := match o with Some b => enum4_ok b | None => true end.
Definition sbi_img (b : SampleBankInfo) : bool :=
  i32_ok (sbi_volume b) && i32_ok (sbi_custom b) && opt_enum (sbi_normal b) && opt_enum (sbi_addition b) &&
  match sbi_filename b with Some f => fname_img f | None => true end.

Lemma sbi_default_img : sbi_img sbi_default = true.
Proof. reflexivity. Qed.

Lemma bank_opt_enum n : opt_enum (bank_opt n) = true.
Proof.
  unfold bank_opt, bank_of_i32, sample_bank_of_int. cbn [zassoc].
  destruct (0 =? n); [reflexivity|]. destruct (1 =? n); [reflexivity|].
  destruct (2 =? n); [reflexivity|]. destruct (3 =? n); reflexivity.
Qed.

Lemma i32_ok_max0 v : i32_ok v = true -> i32_ok (Z.max 0 v) = true.
Proof. unfold i32_ok, max_parse_value. lia. Qed.

Lemma banks_spec_img b fields bo b' :
  sbi_img b = true -> Forall (fun p => fname_img p = true) fields ->
  banks_spec b fields bo = Some b' -> sbi_img b' = true.
Proof.
  intros Hb Hf H. unfold banks_spec in H.
  remember (nth_error fields 4) as o4 eqn:E4. symmetry in E4.
  destruct (nth_error fields 0) as [[|c0 f0]|]; try (inversion H; subst; exact Hb).
  destruct (pn_i32 (c0 :: f0)) as [n|]; [|discriminate].
  destruct (obnd (nth_error fields 1) pn_i32) as [a|]; [|discriminate].
  unfold sbi_img in Hb.
  apply andb_true_iff in Hb. destruct Hb as [Hb B5]. apply andb_true_iff in Hb. destruct Hb as [Hb B4].
  apply andb_true_iff in Hb. destruct Hb as [Hb B3]. apply andb_true_iff in Hb. destruct Hb as [B1 B2].
  assert (Ha : opt_enum (match bank_opt a with Some x => Some x | None => bank_opt n end) = true).
  { pose proof (bank_opt_enum a) as Ea. destruct (bank_opt a); [exact Ea|apply bank_opt_enum]. }
  destruct bo.
  { injection H as <-. unfold sbi_img. cbn [sbi_volume sbi_custom sbi_normal sbi_addition sbi_filename].
    rewrite B1, B2, (bank_opt_enum n), Ha, B5. reflexivity. }
  destruct (match nth_error fields 2 with Some s => pn_i32 s | None => Some (sbi_custom b) end) as [cu|] eqn:Ec; [|discriminate].
  destruct (match nth_error fields 3 with Some s => omap (Z.max 0) (pn_i32 s) | None => Some (sbi_volume b) end) as [vo|] eqn:Ev;
    [|discriminate].
  injection H as <-. unfold sbi_img. cbn [sbi_volume sbi_custom sbi_normal sbi_addition sbi_filename].
  assert (Hcu : i32_ok cu = true).
  { destruct (nth_error fields 2); [exact (pn_i32_ok _ _ Ec)|inversion Ec; subst; exact B2]. }
  assert (Hvo : i32_ok vo = true).
  { destruct (nth_error fields 3) as [s|]; [|inversion Ev; subst; exact B1].
    destruct (pn_i32 s) as [v|] eqn:Es; [|discriminate]. cbn [omap] in Ev. inversion Ev; subst.
    exact (i32_ok_max0 _ (pn_i32_ok _ _ Es)). }
  rewrite Hvo, Hcu, (bank_opt_enum n), Ha. cbn [andb].
  destruct o4 as [f|]; [|reflexivity].
  rewrite Forall_forall in Hf. exact (Hf f (nth_error_In _ _ E4)).
Qed.

Lemma odflt_enum o : opt_enum o = true -> enum4_ok (odflt sb_normal o) = true.
Proof. destruct o; [exact (fun H => H)|reflexivity]. Qed.

Lemma samples_spec_img b sound : sbi_img b = true -> forallb sample_img (samples_spec b sound) = true.
Proof.
  intros Hb. unfold sbi_img in Hb.
  apply andb_true_iff in Hb. destruct Hb as [Hb B5]. apply andb_true_iff in Hb. destruct Hb as [Hb B4].
  apply andb_true_iff in Hb. destruct Hb as [Hb B3]. apply andb_true_iff in Hb. destruct Hb as [B1 B2].
  unfold samples_spec. cbn [forallb]. apply andb_true_intro. split.
  - destruct (sbi_filename b) as [[|c f]|]; unfold sample_img; cbn [hs_custom hs_volume hs_bank hs_name];
      rewrite ?B1, ?B2, ?(odflt_enum _ B3); try reflexivity.
    cbn [andb]. exact B5.
  - apply forallb_forall. intros s Hs. apply in_map_iff in Hs. destruct Hs as (fn & <- & _).
    unfold sample_img. cbn [hs_custom hs_volume hs_bank hs_name]. rewrite B1, B2, (odflt_enum _ B4). reflexivity.
Qed.

(* ---------- the line parser ---------- *)

Notation cleanP := (fun p : str => clean p = true).

Lemma Forall_skipn {A} (P : A -> Prop) n : forall l, Forall P l -> Forall P (skipn n l).
Proof.
  induction n as [|n IH]; intros l H; [exact H|]. destruct l as [|x r]; [constructor|].
  inversion H; subst. cbn [skipn]. apply IH. assumption.
Qed.

Lemma common_spec_rest line f : memb ch_lf line = false -> common_spec line = Some f -> Forall cleanP (f_rest f).
Proof.
  intros Hl. unfold common_spec.
  destruct (nth_error _ 0) as [x|]; [|discriminate]. destruct (nth_error _ 1) as [y|]; [|discriminate].
  destruct (nth_error _ 2) as [t|]; [|discriminate]. destruct (nth_error _ 3) as [ty|]; [|discriminate].
  destruct (nth_error _ 4) as [sd|]; [|discriminate].
  destruct (pn_f32_lim coord_lim32 x); [|discriminate]. destruct (pn_f32_lim coord_lim32 y); [|discriminate].
  destruct (pn_f64 t); [|discriminate]. destruct (parse_i32_raw ty); [|discriminate]. destruct (parse_i32_raw sd); [|discriminate].
  intros [= <-]. cbn [f_rest]. change (Forall cleanP (skipn 5 (split_on 44 (trim_comment line)))).
  apply Forall_skipn. exact (fields_clean line Hl).
Qed.

Lemma nth_clean r i s : Forall cleanP r -> nth_error r i = Some s -> clean s = true.
Proof. intros H E. rewrite Forall_forall in H. exact (H s (nth_error_In _ _ E)). Qed.

Lemma colon_fields s : clean s = true -> Forall (fun p => fname_img p = true) (split_on 58 s).
Proof. intros H. apply Forall_forall. intros p Hp. exact (colon_piece s p H Hp). Qed.

Lemma extras_spec_img r i b : Forall cleanP r -> extras_spec (nth_error r i) = Some b -> sbi_img b = true.
Proof.
  intros Hr. unfold extras_spec. destruct (nth_error r i) as [s|] eqn:E; [|intros [= <-]; reflexivity].
  intros H. exact (banks_spec_img _ _ _ _ sbi_default_img (colon_fields s (nth_clean _ _ _ Hr E)) H).
Qed.

Lemma all_some_In {A} : forall (l : list (option A)) r x, all_some l = Some r -> In x r -> In (Some x) l.
Proof.
  induction l as [|[a|] l IH]; intros r x H Hx; cbn [all_some] in H; try discriminate.
  - inversion H; subst. destruct Hx.
  - destruct (all_some l) as [r'|] eqn:E; [|discriminate]. cbn [omap] in H. inversion H; subst.
    destruct Hx as [<-|Hx]; [left; reflexivity|right; exact (IH r' x eq_refl Hx)].
Qed.

Lemma node_samples_img n bank sound es ed nodes :
  sbi_img bank = true -> (forall s, es = Some s -> clean s = true) ->
  node_samples_spec n bank sound es ed = Some nodes -> forallb (forallb sample_img) nodes = true.
Proof.
  intros Hb Hes. unfold node_samples_spec.
  destruct (all_some (map (node_bank_at bank (pieces es)) (seq 0 n))) as [banks|] eqn:E; [|discriminate].
  cbn [omap]. intros [= <-]. apply forallb_forall. intros l Hl.
  apply in_map_iff in Hl. destruct Hl as ([i b] & <- & Hib). cbn [snd fst].
  apply samples_spec_img.
  apply in_combine_r in Hib. pose proof (all_some_In _ _ _ E Hib) as Hin.
  apply in_map_iff in Hin. destruct Hin as (j & Hj & _).
  unfold node_bank_at in Hj. destruct (nth_error (pieces es) j) as [s|] eqn:Es; [|inversion Hj; subst; exact Hb].
  apply (banks_spec_img _ _ _ _ Hb) in Hj; [exact Hj|].
  apply colon_fields. unfold pieces in Es. destruct es as [[|c s0]|]; try (destruct j; discriminate).
  exact (bar_piece _ _ (Hes _ eq_refl) (nth_error_In _ _ Es)).
Qed.

Lemma slider_fields_img sound r pre : Forall cleanP r -> slider_fields_spec sound r = Some pre ->
  sbi_img (spre_bank pre) = true /\ forallb (forallb sample_img) (spre_nodes pre) = true.
Proof.
  intros Hr. unfold slider_fields_spec.
  destruct (nth_error r 0) as [path|]; [|discriminate].
  destruct (obnd (nth_error r 1) pn_i32) as [raw|]; [|discriminate].
  destruct (repeat_cap <? raw); [discriminate|].
  destruct (length_spec (nth_error r 2)) as [len|]; [|discriminate].
  destruct (match nth_error r 5 with Some s => _ | None => _ end) as [bank|] eqn:Eb; [|discriminate].
  destruct (node_samples_spec _ bank sound (nth_error r 4) (nth_error r 3)) as [nodes|] eqn:En; [|discriminate].
  cbn [omap]. intros [= <-]. cbn [spre_bank spre_nodes].
  assert (Hbank : sbi_img bank = true).
  { destruct (nth_error r 5) as [s|] eqn:E5; [|inversion Eb; reflexivity].
    exact (banks_spec_img _ _ _ _ sbi_default_img (colon_fields s (nth_clean _ _ _ Hr E5)) Eb). }
  split; [exact Hbank|].
  apply (node_samples_img _ _ _ _ _ _ Hbank) in En; [exact En|].
  intros s Es. exact (nth_clean _ _ _ Hr Es).
Qed.

Notation simg := (fun h : HitObject => obj_simg h = true).

Lemma sub_skipn1 (parts : list str) : forall p, In p (skipn 1 parts) -> In p parts.
Proof. destruct parts as [|x r]; intros p H; [exact H|right; exact H]. Qed.

(* every accepted line adds one object whose samples (and node samples) are in the image *)
Theorem parse_samples_img st line st' r :
  memb ch_lf line = false -> Forall simg (ho_objects st) ->
  parse_hit_objects st line = Done (st', r) -> Forall simg (ho_objects st').
Proof.
  intros Hl Hst H. destruct r; [|rewrite (parse_rejected_objects st line st' H); exact Hst].
  destruct (parse_hit_objects_spec st line) as [scratch Hs]. rewrite Hs in H. clear Hs.
  injection H as H. unfold line_spec_with in H.
  destruct (common_spec line) as [f|] eqn:Ec; [|discriminate].
  pose proof (common_spec_rest line f Hl Ec) as Hr.
  assert (Acc : forall st0 k bank, ho_objects st0 = ho_objects st -> sbi_img bank = true ->
            match k with KSlider s => forallb (forallb sample_img) (sl_node_samples s) | _ => true end = true ->
            accept st0 f k bank = (st', Ok) -> Forall simg (ho_objects st')).
  { intros st0 k bank Ho Hb Hk Ha. unfold accept in Ha. injection Ha as <-. cbn [ho_objects]. rewrite Ho.
    apply Forall_app. split; [exact Hst|]. constructor; [|constructor].
    unfold obj_simg. cbn [h_samples h_kind]. rewrite (samples_spec_img _ _ Hb). exact Hk. }
  unfold kind_of_type in H.
  destruct (flag_bit hot_circle (f_type f)).
  { destruct (extras_spec _) as [bank|] eqn:Ee; [|discriminate].
    refine (Acc _ _ _ eq_refl (extras_spec_img _ _ _ Hr Ee) _ H); reflexivity. }
  destruct (flag_bit hot_slider (f_type f)).
  { destruct (slider_fields_spec (f_sound f) (f_rest f)) as [pre|] eqn:Ep; [|discriminate].
    destruct (slider_fields_img _ _ _ Hr Ep) as (Hb & Hn).
    destruct (path_spec (spre_point_str pre) (f_pos f)) as [cps ok]. destruct ok; [|discriminate].
    refine (Acc (mkHO (ho_last st) [] scratch (ho_objects st) (ho_mode st)) _ _ eq_refl Hb _ H). exact Hn. }
  destruct (flag_bit hot_spinner (f_type f)).
  { destruct (obnd _ pn_f64) as [e|]; [|discriminate]. destruct (extras_spec _) as [bank|] eqn:Ee; [|discriminate].
    refine (Acc _ _ _ eq_refl (extras_spec_img _ _ _ Hr Ee) _ H); reflexivity. }
  destruct (flag_bit hot_hold (f_type f)); [|discriminate].
  destruct (nth_error (f_rest f) 0) as [[|c s]|] eqn:E0.
  - refine (Acc _ _ _ eq_refl sbi_default_img _ H); reflexivity.
  - destruct (obnd _ pn_f64) as [e|]; [|discriminate].
    destruct (banks_spec _ _ _) as [bank|] eqn:Eb; [|discriminate].
    apply (Acc _ _ _ eq_refl) in H; [exact H| |reflexivity].
    apply (banks_spec_img _ _ _ _ sbi_default_img) in Eb; [exact Eb|].
    apply Forall_forall. intros p Hp. apply sub_skipn1 in Hp.
    exact (colon_piece _ _ (nth_clean _ _ _ Hr E0) Hp).
  - refine (Acc _ _ _ eq_refl sbi_default_img _ H); reflexivity.
Qed.

(* ---------- the finishing conversion ---------- *)

(* what the sample points contribute through SamplePoint::apply *)
Definition sp_img (p : SamplePoint) : bool := i32_ok (sp_custom p) && enum4_ok (sp_bank p).

Lemma sp_apply_img p s : sp_img p = true -> sample_img s = true -> sample_img (sp_apply p s) = true.
Proof.
  unfold sp_img, sample_img. intros Hp Hs.
  apply andb_true_iff in Hp. destruct Hp as [P1 P2].
  apply andb_true_iff in Hs. destruct Hs as [Hs S4]. apply andb_true_iff in Hs. destruct Hs as [Hs S3].
  apply andb_true_iff in Hs. destruct Hs as [S1 S2].
  assert (Hv : i32_ok (if hs_volume s =? 0 then zclamp (sp_vol p) (fst sample_volume_clamp) (snd sample_volume_clamp)
                       else hs_volume s) = true).
  { destruct (hs_volume s =? 0); [|exact S2].
    pose proof (zclamp_range (sp_vol p) _ _ vol_bounds) as R. unfold vol_lo, vol_hi in R.
    unfold sample_volume_clamp in *. cbn [fst snd] in *.
    set (z := zclamp (sp_vol p) 0 100) in *. clearbody z. unfold i32_ok, max_parse_value. lia. }
  unfold sp_apply. destruct (hs_name s) as [n|f] eqn:En; cbn [hs_custom hs_volume hs_bank hs_name]; rewrite Hv.
  - destruct (hs_custom s =? 0); destruct (hs_bank_specified s); rewrite ?P1, ?P2, ?S1, ?S3; reflexivity.
  - cbn [andb]. exact S4.
Qed.

Lemma sp_apply_d30 p s : d30_sample (sp_apply p s) = d30_sample s.
Proof. unfold d30_sample, sp_apply. destruct (hs_name s); reflexivity. Qed.

Lemma map_apply_img p l : sp_img p = true -> forallb sample_img l = true -> forallb sample_img (map (sp_apply p) l) = true.
Proof.
  intros Hp. induction l as [|s r IH]; [reflexivity|]. cbn [forallb map]. intros H.
  apply andb_true_iff in H. destruct H as [H1 H2]. rewrite (sp_apply_img p s Hp H1), (IH H2). reflexivity.
Qed.

Lemma force_new_combo_simg h f : obj_simg (force_new_combo h f) = obj_simg h.
Proof. unfold force_new_combo, obj_simg. destruct (h_kind h) eqn:E; cbn [h_samples h_kind sl_node_samples]; rewrite ?E; reflexivity. Qed.

Lemma post_process_simg bs : forall objs, Forall simg objs ->
  Forall simg (post_process_breaks h_start force_new_combo bs objs).
Proof.
  intros objs. revert bs. induction objs as [|h r IH]; intros bs H; cbn [post_process_breaks]; [constructor|].
  inversion H as [|? ? Hh Hr]; subst. destruct (skip_breaks bs (h_start h) false) as [bs' f].
  constructor; [rewrite force_new_combo_simg; exact Hh|apply IH; exact Hr].
Qed.

Section WithDist.
  Variable dist_of : Z -> list PCP -> option F64 -> outcome F64.

  Definition cp_simg (c : ControlPoints) : Prop := Forall (fun p => sp_img p = true) (cp_sample c).

  Lemma point_or_default_img c t : cp_simg c -> sp_img (sample_point_or_default c t) = true.
  Proof.
    intros Hc. unfold sample_point_or_default. destruct (sample_point_at c t) as [p|] eqn:E; [|reflexivity].
    unfold cp_simg in Hc. rewrite Forall_forall in Hc. exact (Hc p (sample_point_in _ _ _ E)).
  Qed.

  Lemma apply_nodes_img c start d sc : cp_simg c -> forall nodes i,
    forallb (forallb sample_img) nodes = true ->
    forallb (forallb sample_img) (apply_nodes c start d sc i nodes) = true.
  Proof.
    intros Hc. induction nodes as [|n r IH]; intros i H; [reflexivity|]. cbn [apply_nodes forallb] in *.
    apply andb_true_iff in H. destruct H as [H1 H2].
    rewrite (map_apply_img _ n (point_or_default_img c _ Hc) H1), (IH _ H2). reflexivity.
  Qed.

  Lemma process_object_simg c sm mode h h' : cp_simg c ->
    obj_simg h = true -> process_object dist_of c sm mode h = Done h' -> obj_simg h' = true.
  Proof.
    intros Hc Hh H. unfold process_object in H. unfold obj_simg in Hh.
    apply andb_true_iff in Hh. destruct Hh as [Hs Hk].
    destruct (h_kind h) as [ci|s|sp|hd] eqn:E; cbn [obind] in H.
    - injection H as <-. unfold obj_simg. cbn [h_samples h_kind]. rewrite andb_true_r.
      exact (map_apply_img _ _ (point_or_default_img c _ Hc) Hs).
    - destruct (difficulty_point_at c (h_start h)) as [dp|w|]; cbn [obind] in H; try discriminate.
      destruct (slider_duration dist_of _) as [d|w|]; cbn [obind] in H; try discriminate.
      injection H as <-. unfold obj_simg. cbn [h_samples h_kind sl_node_samples].
      rewrite (map_apply_img _ _ (point_or_default_img c _ Hc) Hs), (apply_nodes_img c _ _ _ Hc _ _ Hk). reflexivity.
    - injection H as <-. unfold obj_simg. cbn [h_samples h_kind]. rewrite andb_true_r.
      exact (map_apply_img _ _ (point_or_default_img c _ Hc) Hs).
    - injection H as <-. unfold obj_simg. cbn [h_samples h_kind]. rewrite andb_true_r.
      exact (map_apply_img _ _ (point_or_default_img c _ Hc) Hs).
  Qed.

  Lemma process_objects_simg c sm mode : cp_simg c -> forall l l',
    Forall simg l -> process_objects dist_of c sm mode l = Done l' -> Forall simg l'.
  Proof.
    intros Hc. induction l as [|h r IH]; intros l' Hl H; cbn [process_objects] in H.
    - injection H as <-. constructor.
    - inversion Hl as [|? ? Hh Hr]; subst.
      destruct (process_object dist_of c sm mode h) as [h'|w|] eqn:Eh; cbn [obind] in H; try discriminate.
      destruct (process_objects dist_of c sm mode r) as [r'|w|] eqn:Er; cbn [obind] in H; try discriminate.
      injection H as <-. constructor; [exact (process_object_simg c sm mode h h' Hc Hh Eh)|exact (IH r' Hr eq_refl)].
  Qed.

  Lemma finish_simg c breaks sm mode objs objs' : cp_simg c ->
    Forall simg objs -> finish_hit_objects dist_of c breaks sm mode objs = Done objs' -> Forall simg objs'.
  Proof.
    intros Hc H E. unfold finish_hit_objects in E.
    eapply process_objects_simg; [exact Hc| |exact E].
    apply post_process_simg.
    eapply Permutation_Forall; [|exact H]. symmetry. apply ssort_perm.
  Qed.

  (* ---------- the framing driver, with a hypothesis on the lines ---------- *)

  Lemma decode_beatmap_inv_lines (I : outcome BMD -> Prop) (Q : str -> Prop) :
    (forall v, I (Done (bmd_create v))) ->
    (forall sec os l, Q l -> I os -> I (fst (parser_of bm_parsers sec os l))) ->
    forall lines m, Forall Q lines -> decode_beatmap dist_of lines = Done m ->
    exists os, I os /\ obind os (bmd_finish dist_of) = Done m.
  Proof.
    intros Hc Hstep lines m Hl H. unfold decode_beatmap, driver in H.
    set (vr := parse_version lines) in *.
    destruct (parse_first_section (vr_use_curr_line vr) (vr_curr_line vr) (vr_rest vr)) as [[sec rest]|] eqn:Ef.
    - eexists. split; [|exact H].
      apply (section_loop_inv bm_parsers I Q Hstep); [|apply Hc].
      unfold parse_first_section in Ef.
      destruct (if vr_use_curr_line vr then section_of_line (vr_curr_line vr) else None).
      + inversion Ef; subst. apply parse_version_rest. exact Hl.
      + apply (scan_first_rest _ _ _ _ (parse_version_rest _ _ Hl) Ef).
    - eexists. split; [|exact H]. apply Hc.
  Qed.

  Definition objs_simg_inv (os : outcome BMD) : Prop :=
    match os with Done b => Forall simg (hod_objects (bmd_ho b)) | _ => True end.

  Lemma objs_simg_step sec os l : no_lf_line l -> objs_simg_inv os -> objs_simg_inv (fst (parser_of bm_parsers sec os l)).
  Proof.
    intros Hl Hos. destruct os as [b|w|]; [|destruct sec; exact I|destruct sec; exact I].
    cbn [objs_simg_inv] in Hos. destruct b as [ver ed md co ho]. destruct ho as [tp df ev last curve verts objs].
    cbn [bmd_ho hod_objects] in Hos.
    destruct sec; cbn [parser_of bm_parsers p_general p_editor p_metadata p_difficulty p_events p_timing_points
                       p_colors p_hit_objects p_variables p_catch_the_beat p_mania];
      unfold liftp, liftt, on_ho, noop; cbn [obind bmd_ho bmd_version bmd_editor bmd_metadata bmd_colors fst].
    - unfold hod_parse_general. destruct (tpd_parse_general _ l) as [g r]. cbn [obind fst objs_simg_inv bmd_ho hod_with_tp hod_objects]. exact Hos.
    - unfold bmd_parse_editor. destruct (parse_editor _ l) as [e r]. cbn [fst objs_simg_inv bmd_ho hod_objects]. exact Hos.
    - unfold bmd_parse_metadata. destruct (parse_metadata _ l) as [m r]. cbn [fst objs_simg_inv bmd_ho hod_objects]. exact Hos.
    - unfold hod_parse_difficulty. destruct (parse_difficulty _ l) as [d r]. cbn [obind fst objs_simg_inv bmd_ho hod_objects]. exact Hos.
    - unfold hod_parse_events. destruct (parse_events _ l) as [e r]. cbn [obind fst objs_simg_inv bmd_ho hod_objects]. exact Hos.
    - unfold hod_parse_timing_points. destruct (tpd_parse_timing_points _ l) as [[t r]|w|]; cbn [obind fst objs_simg_inv]; try exact I.
      cbn [bmd_ho hod_with_tp hod_objects]. exact Hos.
    - unfold bmd_parse_colors. destruct (parse_colors _ l) as [c r]. cbn [fst objs_simg_inv bmd_ho hod_objects]. exact Hos.
    - unfold hod_parse_hit_objects. destruct (parse_hit_objects _ l) as [[c r]|w|] eqn:E; cbn [obind fst objs_simg_inv]; try exact I.
      cbn [bmd_ho hod_with_core hod_objects]. eapply (parse_samples_img _ l); [exact Hl| |exact E]. exact Hos.
    - exact Hos.
    - exact Hos.
    - exact Hos.
  Qed.

  (* every sample of every hit object (and slider node) of every decoded map *)
  Theorem decoded_samples_img lines m :
    Forall no_lf_line lines -> decode_beatmap dist_of lines = Done m ->
    Forall simg (hov_hit_objects (bmv_ho m)).
  Proof.
    intros Hl Hd.
    (* the sample points: banks are enum values, custom indices are within the limits *)
    assert (Hc : cp_simg (hov_control_points (bmv_ho m))).
    { pose proof (decode_image_pre dist_of lines m Hl Hd) as Hp. unfold simple_pre in Hp. apply andb_prop_r in Hp.
      destruct (decoded_cp_ranges dist_of lines m Hd) as (_ & _ & _ & Hs).
      unfold sample_banks_ok in Hp. rewrite forallb_forall in Hp. rewrite Forall_forall in Hs.
      apply Forall_forall. intros p Hin. unfold sp_img. rewrite (Hp p Hin), (proj2 (Hs p Hin)). reflexivity. }
    destruct (decode_beatmap_inv_lines objs_simg_inv no_lf_line (fun v => Forall_nil _) objs_simg_step lines m Hl Hd)
      as (os & Hos & Hf).
    destruct os as [s|w|]; cbn [obind] in Hf; try discriminate. cbn [objs_simg_inv] in Hos.
    destruct (bmd_finish_inv dist_of s m Hf) as (_ & _ & _ & _ & Hh).
    destruct (hod_finish_inv dist_of _ _ Hh) as (_ & _ & _ & _ & Hfin).
    exact (finish_simg _ _ _ _ _ _ Hc Hos Hfin).
  Qed.

  (* ---------- [residual] reduced to the recorded classes ---------- *)

  (* what is NOT an invariant of decoded maps: exactly the recorded finding classes *)
  Definition residual_classes (h : HitObject) : Prop :=
    d30_class h = false /\
    match h_kind h with
    | KCircle _ => True
    | KSlider s =>
        d13_class (sl_control_points s) = false /\ d17_class (sl_control_points s) = false /\
        consec_catmull (sl_control_points s) = false /\
        exists d, written_len dist_of s = Done d /\ d21_class d = false
    | KSpinner s => in_lim64 (D.add (h_start h) (sp_duration s)) = true           (* outside D26 *)
    | KHold hd => in_lim64 (D.add (h_start h) (hd_duration hd)) = true             (* outside D26 *)
    end.

  Lemma classes_residual h : obj_simg h = true -> residual_classes h -> residual dist_of h.
  Proof.
    unfold obj_simg, residual_classes, residual, d30_class. intros Hi [Hd Hr].
    apply andb_true_iff in Hi. destruct Hi as [Hs Hk]. apply orb_false_iff in Hd. destruct Hd as [Ds Dk].
    split; [exact (forallb_img_ok _ Hs Ds)|].
    destruct (h_kind h) as [c|s|sp|hd]; try exact Hr.
    split; [exact (forallb2_img_ok _ Hk Dk)|exact Hr].
  Qed.

  Theorem decoded_residual lines m :
    Forall no_lf_line lines -> decode_beatmap dist_of lines = Done m ->
    Forall residual_classes (hov_hit_objects (bmv_ho m)) ->
    Forall (residual dist_of) (hov_hit_objects (bmv_ho m)).
  Proof.
    intros Hl Hd Hr. pose proof (decoded_samples_img lines m Hl Hd) as Hi.
    rewrite Forall_forall in *. intros h Hin. exact (classes_residual h (Hi h Hin) (Hr h Hin)).
  Qed.
End WithDist.

(* every non-blank line of the [HitObjects] section of a decoded map whose objects are outside
   the recorded classes D13 / D17 / consecutive Catmull / D21 / D26 / D30 is accepted *)
Section Lines.
  Variables (fmt_f64 : F64 -> str) (fmt_f32 : F32 -> str) (fmt_int : Z -> str).
  Hypothesis Hfmt : fmt_ok fmt_f64 fmt_f32 fmt_int.
  Hypothesis H32 : fmt_f32_int fmt_f32 fmt_int.

  Theorem decoded_hit_object_lines_accepted_classes dist lines m mode ls :
    Forall no_lf_line lines -> decode_beatmap dist lines = Done m ->
    Forall (residual_classes dist) (hov_hit_objects (bmv_ho m)) ->
    object_lines dist mode (hov_hit_objects (bmv_ho m)) = Done ls ->
    Forall2 (fun h l => ho_accepted fmt_f64 fmt_f32 fmt_int (h_start h) l) (hov_hit_objects (bmv_ho m)) ls.
  Proof.
    intros Hl Hd Hr Hls.
    exact (decoded_hit_object_lines_accepted fmt_f64 fmt_f32 fmt_int Hfmt H32 dist lines m mode ls Hd
             (decoded_residual dist lines m Hl Hd Hr) Hls).
  Qed.
End Lines.

Print Assumptions decoded_samples_img.
Print Assumptions decoded_hit_object_lines_accepted_classes.

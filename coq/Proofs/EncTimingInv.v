(* EncTimingInv: T02d (c), second half -- what the decisions of encode_timing_points emit,
   seen from the decoder:
     - a written timing record reads back as the map's own timing point ([emitT_own]);
     - the values of the emitted difficulty / effect points: an inherited record gives back
       the slider velocity it was written from when [sv_round_trips] holds; a timing record
       alone gives 1.0; kiai is the written flag;
     - the invariant of the `last_props` of the encoder loop against the decoder's current
       values: whenever no inherited line is written the active values are unchanged
       ([decisions_consistent]) -- needs [values_separated] because `is_redundant`
       compares with the tolerance f64::EPSILON. *)
From RM Require Import Model.EncTimingSpec Proofs.BSearch Proofs.ControlPointsFacts Proofs.ControlPointsChrono
  Proofs.TPFloatFacts Proofs.TimingPointsFacts Proofs.TimingPointsValues
  Proofs.EncFmt Proofs.EncSimple Proofs.EncTiming Proofs.EncTimingParse Proofs.EncGroups Proofs.EncChrono
  Proofs.EncTimingDecode.
From RM Require Import Gen.Generated.
From Flocq Require Import BinarySingleNaN.
From Coq Require Import Sorting.Sorted.
From Coq Require Import ZifyBool.
Open Scope Z_scope.

(* ---------- small float facts ---------- *)

(* a beat length inside the clamp [6, 60000] is not negative: speed multiplier 1 *)
Lemma speed_multiplier_timing beat : D.le bl_lo beat = true -> speed_multiplier beat = D.one.
Proof.
  intros H. unfold speed_multiplier.
  assert (E : D.lt beat D.zero = false).
  { destruct beat as [s|s| |s m e Hb].
    - reflexivity.
    - destruct s; [exfalso; revert H; vm_compute; intros X; discriminate X | reflexivity].
    - reflexivity.
    - destruct s; [exfalso; revert H; vm_compute; intros X; discriminate X | reflexivity]. }
  rewrite E. reflexivity.
Qed.

Lemma clamp_in_range_id x lo hi : in_range lo hi x -> D.clamp x lo hi = x.
Proof. intros (H1 & H2). exact (Proofs.FloatCmp.fclamp_t_id 53 1024 x lo hi H1 H2). Qed.

Lemma clamp_one_sc : D.clamp D.one sc_lo sc_hi = D.one.
Proof. apply clamp_in_range_id. exact one_in_sc. Qed.

(* the slider velocity 1.0 survives -100/sv -> 100/-x exactly *)
Lemma sv_round_trips_one : sv_round_trips D.one = true.
Proof. vm_compute. reflexivity. Qed.

(* examples of [sv_round_trips] on powers of two and on short decimals (both divisions exact,
   or the second one rounding back) *)
Lemma sv_round_trips_examples :
  forallb sv_round_trips [D.of_Z 2; D.of_Z 4; D.of_Z 8; D.of_Z 10; D.of_decimal false 5 (-1); D.of_decimal false 25 (-2);
                          D.of_decimal false 125 (-3); D.of_decimal false 1 (-1); D.of_decimal false 75 (-2);
                          D.of_decimal false 15 (-1); D.of_decimal false 12 (-1); D.of_decimal false 8 (-1)] = true.
Proof. vm_compute. reflexivity. Qed.

(* ... and it is NOT a theorem about all slider velocities in [0.1, 10] *)
Lemma sv_round_trips_refuted :
  exists sv, in_range sv_lo sv_hi sv /\ sv_round_trips sv = false /\
             D.bits sv = 4600528620883029618 /\ D.bits (sv_back sv) = 4600528620883029617.
Proof.
  exists (D.of_bits 4600528620883029618). repeat split; vm_compute; reflexivity.
Qed.

(* ---------- effect flags ---------- *)

Definition flags_of (kiai omit : bool) : Z :=
  Z.lor (if kiai then effect_kiai else effect_none) (if omit then effect_omit_first_bar_line else effect_none).
Lemma flags_kiai k o : has_flag (flags_of k o) effect_kiai = k.
Proof. destruct k, o; reflexivity. Qed.
Lemma flags_omit k o : has_flag (flags_of k o) effect_omit_first_bar_line = o.
Proof. destruct k, o; reflexivity. Qed.

(* ---------- the properties of a group, field by field ---------- *)

Definition timing_omit_at (c : ControlPoints) (t : F64) : bool :=
  match timing_point_at c t with Some p => tp_omit p | None => false end.
Definition sig_at (c : ControlPoints) (t : F64) : Z :=
  match timing_point_at c t with Some p => tp_sig p | None => tp_default_signature end.

Lemma props_at_sv c t last ub : pr_sv (props_at c t last ub) = dp_sv_or (dp_lookup c t).
Proof. reflexivity. Qed.
Lemma props_at_sig c t last ub : pr_sig (props_at c t last ub) = sig_at c t.
Proof. reflexivity. Qed.
Lemma props_at_flags c t last ub :
  pr_flags (props_at c t last ub) = flags_of (ep_kiai_or (ep_lookup c t)) (timing_omit_at c t).
Proof. reflexivity. Qed.

(* every decision carries the properties computed at its group's time *)
Definition props_of (c : ControlPoints) (d : gdec) : Prop :=
  exists last, gd_props d = props_at c (d_time d) last (has_timing (gd_group d)).

Lemma decisions_props c : forall gs last, Forall (props_of c) (group_decisions c last gs).
Proof.
  induction gs as [|g r IH]; intros last; [constructor|]. cbn [group_decisions].
  destruct (props_redundant _ _); constructor; try apply IH; exists last; reflexivity.
Qed.

Section Inv.
  Variables (c : ControlPoints) (g : tp_general).
  Notation mode := (tpg_mode g).
  Hypothesis Hc : cp_sorted c.
  Hypothesis Gtp : Forall good_tp (cp_timing c).
  Hypothesis Gdp : Forall good_dp (cp_difficulty c).
  Hypothesis Gep : Forall (good_ep mode) (cp_effect c).

  (* ---------- a timing record reads back as the timing point itself ---------- *)

  Lemma timing_point_at_own t : In t (cp_timing c) -> timing_point_at c (tp_time t) = Some t.
  Proof.
    intros Hin. destruct Hc as (Ht & _). unfold timing_point_at. rewrite (at_first_spec tp_time _ _ Ht).
    rewrite (last_not_after_own tp_time _ _ Ht Hin). reflexivity.
  Qed.

  Lemma emitT_own d t :
    props_of c d -> gr_timing (gd_group d) = Some t -> In t (cp_timing c) -> tp_time t = d_time d ->
    emitT g d = Some t.
  Proof.
    intros (last & Hp) Hg Hin Ht. unfold emitT. rewrite Hg. f_equal.
    unfold line_tp, rec_T, parsed_line. cbn [l_time l_beat l_omit l_sig]. unfold tp_new.
    rewrite Hp, props_at_sig, props_at_flags, flags_omit. unfold sig_at, timing_omit_at.
    rewrite <- Ht, (timing_point_at_own t Hin).
    rewrite Forall_forall in Gtp. destruct (Gtp t Hin) as (Hr & _).
    fold bl_lo bl_hi. rewrite (clamp_in_range_id _ _ _ Hr). destruct t; reflexivity.
  Qed.

  (* ---------- values ---------- *)

  Definition full_sv (d : gdec) : F64 := pr_sv (gd_props d).
  Definition full_kiai (d : gdec) : bool := has_flag (pr_flags (gd_props d)) effect_kiai.
  Definition full_scroll (d : gdec) : F64 := if scroll_mode mode then pr_sv (gd_props d) else D.one.

  Lemma lookup_sv_In t : In (dp_sv_or (dp_lookup c t)) (sv_values c).
  Proof.
    rewrite (dp_lookup_sorted c t Hc). destruct (last_not_after dp_time (cp_difficulty c) t) as [p|] eqn:E.
    - right. cbn [dp_sv_or]. apply in_map. destruct Hc as (_ & Hd & _). exact (proj1 (last_not_after_Some dp_time _ _ _ Hd E)).
    - left. reflexivity.
  Qed.

  Lemma full_sv_In d : props_of c d -> In (full_sv d) (sv_values c).
  Proof. intros (last & Hp). unfold full_sv. rewrite Hp, props_at_sv. apply lookup_sv_In. Qed.

  Lemma sv_value_range x : In x (sv_values c) -> D.clamp x sv_lo sv_hi = x.
  Proof.
    intros [<-|Hin]; [exact clamp_one_sv|]. apply in_map_iff in Hin. destruct Hin as (p & <- & Hp).
    rewrite Forall_forall in Gdp. apply clamp_in_range_id. exact (proj1 (Gdp p Hp)).
  Qed.

  (* separation: values within f64::EPSILON are equal *)
  Lemma all_pairs_In {A} (r : A -> A -> bool) l x y : all_pairs r l = true -> In x l -> In y l -> r x y = true.
  Proof.
    unfold all_pairs. intros H Hx Hy. rewrite forallb_forall in H. specialize (H x Hx). rewrite forallb_forall in H. exact (H y Hy).
  Qed.
  Lemma near_eq_eq x y : near_eq x y = true -> near x y = true -> x = y.
  Proof. unfold near_eq. intros H Hn. rewrite Hn in H. cbn in H. exact (f64_eqb_eq _ _ H). Qed.

  Hypothesis Hvs : values_separated c = true.
  Hypothesis Hrt : svs_round_trip c = true.

  Lemma sv_near_eq x y : In x (sv_values c) -> In y (sv_values c) -> near x y = true -> x = y.
  Proof.
    intros Hx Hy. apply near_eq_eq. unfold values_separated in Hvs. apply andb_true_iff in Hvs.
    exact (all_pairs_In near_eq _ x y (proj1 Hvs) Hx Hy).
  Qed.
  Lemma scroll_near_eq x y : In x (scroll_values c) -> In y (scroll_values c) -> near x y = true -> x = y.
  Proof.
    intros Hx Hy. apply near_eq_eq. unfold values_separated in Hvs. apply andb_true_iff in Hvs.
    exact (all_pairs_In near_eq _ x y (proj2 Hvs) Hx Hy).
  Qed.

  Lemma sv_value_back x : In x (sv_values c) -> sv_back x = x.
  Proof.
    intros [<-|Hin]; [exact (f64_eqb_eq _ _ sv_round_trips_one)|].
    unfold svs_round_trip in Hrt. rewrite forallb_forall in Hrt. exact (f64_eqb_eq _ _ (Hrt x Hin)).
  Qed.

  (* the difficulty point of an inherited record: the slider velocity it was written from *)
  Lemma rec_I_sv d : props_of c d -> dp_sv (line_dp (rec_I g d)) = full_sv d.
  Proof.
    intros Hp. unfold line_dp, rec_I, parsed_line, dp_new. cbn [dp_sv l_speed l_beat l_time].
    fold (sv_back (pr_sv (gd_props d))). fold (full_sv d). fold sv_lo sv_hi.
    rewrite (sv_value_back _ (full_sv_In d Hp)). exact (sv_value_range _ (full_sv_In d Hp)).
  Qed.
  (* ... of a timing record: 1.0 *)
  Lemma rec_T_sv d t : In t (cp_timing c) -> dp_sv (line_dp (rec_T g d t)) = D.one.
  Proof.
    intros Hin. unfold line_dp, rec_T, parsed_line, dp_new. cbn [dp_sv l_speed l_beat l_time].
    rewrite Forall_forall in Gtp. destruct (Gtp t Hin) as ((Hlo & _) & _).
    rewrite (speed_multiplier_timing _ Hlo). exact clamp_one_sv.
  Qed.

  Lemma line_ep_kiai m r : ep_kiai (line_ep m r) = l_kiai r.
  Proof. unfold line_ep. destruct (scroll_mode m); reflexivity. Qed.
  Lemma line_ep_scroll m r :
    ep_scroll (line_ep m r) = if scroll_mode m then D.clamp (l_speed r) sc_lo sc_hi else D.one.
  Proof. unfold line_ep. destruct (scroll_mode m); reflexivity. Qed.

  Lemma rec_T_scroll d t : In t (cp_timing c) -> ep_scroll (line_ep mode (rec_T g d t)) = D.one.
  Proof.
    intros Hin. rewrite line_ep_scroll. destruct (scroll_mode mode); [|reflexivity].
    unfold rec_T, parsed_line. cbn [l_speed]. rewrite Forall_forall in Gtp. destruct (Gtp t Hin) as ((Hlo & _) & _).
    rewrite (speed_multiplier_timing _ Hlo). exact clamp_one_sc.
  Qed.

  (* D12 excluded: the scroll speed is the slider velocity (taiko / mania) or 1 *)
  Hypothesis Hd12 : scroll_follows_sv mode c = true.

  Lemma scroll_lookup_In t : In (ep_scroll_or (ep_lookup c t)) (scroll_values c).
  Proof.
    rewrite (ep_lookup_sorted c t Hc). destruct (last_not_after ep_time (cp_effect c) t) as [p|] eqn:E.
    - right. cbn [ep_scroll_or]. apply in_map. destruct Hc as (_ & _ & He & _). exact (proj1 (last_not_after_Some ep_time _ _ _ He E)).
    - left. reflexivity.
  Qed.

  Lemma scroll_value_range x : In x (scroll_values c) -> D.clamp x sc_lo sc_hi = x.
  Proof.
    intros [<-|Hin]; [exact clamp_one_sc|]. apply in_map_iff in Hin. destruct Hin as (p & <- & Hp).
    rewrite Forall_forall in Gep. apply clamp_in_range_id. exact (proj1 (Gep p Hp)).
  Qed.

  (* the scroll speed active at a control-point time, in terms of the slider velocity there *)
  Lemma scroll_is_sv t : In t (cp_times c) ->
    ep_scroll_or (ep_lookup c t) = if scroll_mode mode then dp_sv_or (dp_lookup c t) else D.one.
  Proof.
    intros Hin. unfold scroll_follows_sv in Hd12. destruct (scroll_mode mode).
    - rewrite forallb_forall in Hd12. specialize (Hd12 t Hin). apply f64_eqb_eq in Hd12.
      unfold scroll_lookup, sv_lookup in Hd12. rewrite (scroll_at_sorted c t Hc), (sv_at_sorted c t Hc) in Hd12.
      rewrite (ep_lookup_sorted c t Hc), (dp_lookup_sorted c t Hc). exact Hd12.
    - rewrite (ep_lookup_sorted c t Hc). destruct (last_not_after ep_time (cp_effect c) t) as [p|] eqn:E; [|reflexivity].
      destruct Hc as (_ & _ & He & _). pose proof (proj1 (last_not_after_Some ep_time _ _ _ He E)) as Hp.
      rewrite forallb_forall in Hd12. exact (f64_eqb_eq _ _ (Hd12 p Hp)).
  Qed.

  Lemma full_scroll_eq d : props_of c d -> In (d_time d) (cp_times c) ->
    full_scroll d = ep_scroll_or (ep_lookup c (d_time d)).
  Proof.
    intros (last & Hp) Hin. rewrite (scroll_is_sv _ Hin). unfold full_scroll. rewrite Hp, props_at_sv. reflexivity.
  Qed.

  Lemma full_scroll_In d : props_of c d -> In (d_time d) (cp_times c) -> In (full_scroll d) (scroll_values c).
  Proof. intros Hp Hin. rewrite (full_scroll_eq d Hp Hin). apply scroll_lookup_In. Qed.

  Lemma rec_I_scroll d : props_of c d -> In (d_time d) (cp_times c) ->
    ep_scroll (line_ep mode (rec_I g d)) = full_scroll d.
  Proof.
    intros Hp Hin. rewrite line_ep_scroll. pose proof (full_scroll_In d Hp Hin) as Hs. unfold full_scroll in *.
    destruct (scroll_mode mode); [|reflexivity].
    unfold rec_I, parsed_line. cbn [l_speed]. fold (sv_back (pr_sv (gd_props d))).
    pose proof (sv_value_back _ (full_sv_In d Hp)) as Hb. unfold full_sv in Hb. rewrite Hb. exact (scroll_value_range _ Hs).
  Qed.

  (* ---------- the invariant of `last_props` ---------- *)

  (* what the decoder currently holds, against the encoder's last written properties *)
  Definition last_inv (last : Props) (cur_sv : F64) (cur_kiai : bool) : Prop :=
    In cur_sv (sv_values c) /\
    ((pr_sig last = 0 /\ cur_sv = D.one) \/ pr_sv last = cur_sv) /\
    has_flag (pr_flags last) effect_kiai = cur_kiai.

  Definition cur_scroll (cur_sv : F64) : F64 := if scroll_mode mode then cur_sv else D.one.

  Lemma sig_at_pos t : 0 < sig_at c t.
  Proof.
    unfold sig_at, timing_point_at. destruct Hc as (Ht & _). rewrite (at_first_spec tp_time _ _ Ht).
    rewrite Forall_forall in Gtp.
    destruct (last_not_after tp_time (cp_timing c) t) as [p|] eqn:E.
    - exact (proj1 (proj2 (Gtp p (proj1 (last_not_after_Some tp_time _ _ _ Ht E))))).
    - destruct (cp_timing c) as [|p r]; [reflexivity|]. exact (proj1 (proj2 (Gtp p (or_introl eq_refl)))).
  Qed.

  Lemma props_redundant_parts a b : props_redundant a b = true ->
    near (pr_sv a) (pr_sv b) = true /\ pr_sig a = pr_sig b /\ pr_flags a = pr_flags b.
  Proof.
    unfold props_redundant. intros H.
    repeat match type of H with _ && _ = true => let X := fresh "X" in
             apply andb_true_iff in H; destruct H as [H X] end.
    repeat split; [exact H | lia | lia].
  Qed.

  Definition group_ok (g0 : Group) : Prop :=
    In (gr_time g0) (cp_times c) /\
    forall t, gr_timing g0 = Some t -> In t (cp_timing c).

  (* what one decision emits *)
  Lemma emit_inh d : gd_inh d = true ->
    emitD g d = Some (line_dp (rec_I g d)) /\ emitE g d = Some (line_ep mode (rec_I g d)).
  Proof. intros H. unfold emitD, emitE, win_line. rewrite H. split; reflexivity. Qed.
  Lemma emit_timing_only d t : gd_inh d = false -> gr_timing (gd_group d) = Some t ->
    emitD g d = Some (line_dp (rec_T g d t)) /\ emitE g d = Some (line_ep mode (rec_T g d t)).
  Proof. intros H Hg. unfold emitD, emitE, win_line. rewrite H, Hg. split; reflexivity. Qed.
  Lemma emit_nothing d : gd_inh d = false -> gr_timing (gd_group d) = None ->
    emitD g d = None /\ emitE g d = None.
  Proof. intros H Hg. unfold emitD, emitE, win_line. rewrite H, Hg. split; reflexivity. Qed.

  Lemma cur_scroll_one : cur_scroll D.one = D.one.
  Proof. unfold cur_scroll. destruct (scroll_mode mode); reflexivity. Qed.

  (* the step of a decision that writes the inherited record *)
  Lemma consistent_inh d r :
    props_of c d -> In (d_time d) (cp_times c) -> gd_inh d = true ->
    consistent dp_sv (emitD g) full_sv r (full_sv d) /\
    consistent ep_kiai (emitE g) full_kiai r (full_kiai d) /\
    consistent ep_scroll (emitE g) full_scroll r (cur_scroll (full_sv d)) ->
    forall cur_sv cur_kiai,
    consistent dp_sv (emitD g) full_sv (d :: r) cur_sv /\
    consistent ep_kiai (emitE g) full_kiai (d :: r) cur_kiai /\
    consistent ep_scroll (emitE g) full_scroll (d :: r) (cur_scroll cur_sv).
  Proof.
    intros Hp Htime Hi (I1 & I2 & I3) cur_sv cur_kiai. destruct (emit_inh d Hi) as (ED & EE).
    cbn [consistent]. rewrite ED, EE, (rec_I_sv d Hp), line_ep_kiai, (rec_I_scroll d Hp Htime).
    split; [split; [reflexivity | exact I1]|]. split; [split; [reflexivity | exact I2]|].
    split; [reflexivity|]. unfold cur_scroll, full_scroll, full_sv in *. destruct (scroll_mode mode); exact I3.
  Qed.

  Theorem decisions_consistent : forall gs last cur_sv cur_kiai,
    Forall group_ok gs -> last_inv last cur_sv cur_kiai ->
    consistent dp_sv (emitD g) full_sv (group_decisions c last gs) cur_sv /\
    consistent ep_kiai (emitE g) full_kiai (group_decisions c last gs) cur_kiai /\
    consistent ep_scroll (emitE g) full_scroll (group_decisions c last gs) (cur_scroll cur_sv).
  Proof.
    induction gs as [|g0 r IH]; intros last cur_sv cur_kiai Hok (Hin & Hsv & Hk); [repeat split|].
    destruct (Forall_inv Hok) as (Htime & Htp). pose proof (Forall_inv_tail Hok) as Hokr.
    cbn [group_decisions].
    set (props := props_at c (gr_time g0) last (has_timing g0)).
    assert (Hpo : forall b, props_of c (mkGD g0 props b)) by (intros b; exists last; reflexivity).
    assert (Hfull : In (pr_sv props) (sv_values c)) by (exact (full_sv_In _ (Hpo true))).
    assert (Hwritten :
      consistent dp_sv (emitD g) full_sv (mkGD g0 props true :: group_decisions c props r) cur_sv /\
      consistent ep_kiai (emitE g) full_kiai (mkGD g0 props true :: group_decisions c props r) cur_kiai /\
      consistent ep_scroll (emitE g) full_scroll (mkGD g0 props true :: group_decisions c props r) (cur_scroll cur_sv)).
    { apply (consistent_inh (mkGD g0 props true)); [exact (Hpo true) | exact Htime | reflexivity|].
      apply (IH props (pr_sv props) (full_kiai (mkGD g0 props true)) Hokr).
      split; [exact Hfull|]. split; [right; reflexivity | reflexivity]. }
    destruct (gr_timing g0) as [t|] eqn:Eg.
    - (* the group has a timing point *)
      assert (Eh : has_timing g0 = true) by (unfold has_timing; rewrite Eg; reflexivity).
      rewrite Eh. specialize (Htp t eq_refl).
      destruct (props_redundant props (props_timing props)) eqn:Er; [|exact Hwritten].
      (* timing record only *)
      destruct (props_redundant_parts _ _ Er) as (Hn & _ & _). cbn [props_timing pr_sv] in Hn.
      assert (H1 : pr_sv props = D.one) by (apply sv_near_eq; [exact Hfull | left; reflexivity | exact Hn]).
      destruct (IH (props_timing props) D.one (full_kiai (mkGD g0 props false)) Hokr) as (I1 & I2 & I3).
      { split; [left; reflexivity|]. split; [right; reflexivity | reflexivity]. }
      destruct (emit_timing_only (mkGD g0 props false) t eq_refl Eg) as (ED & EE).
      cbn [consistent]. rewrite ED, EE, (rec_T_sv _ t Htp), line_ep_kiai, (rec_T_scroll _ t Htp).
      rewrite cur_scroll_one in I3.
      split; [split; [unfold full_sv; cbn [gd_props]; symmetry; exact H1 | exact I1]|].
      split; [split; [reflexivity | exact I2]|].
      split; [|exact I3]. unfold full_scroll. cbn [gd_props]. rewrite H1. destruct (scroll_mode mode); reflexivity.
    - (* no timing point in the group *)
      assert (Eh : has_timing g0 = false) by (unfold has_timing; rewrite Eg; reflexivity).
      rewrite Eh.
      destruct (props_redundant props last) eqn:Er; [|exact Hwritten].
      (* nothing written: the active values are the current ones *)
      destruct (props_redundant_parts _ _ Er) as (Hn & Hs & Hf).
      assert (H1 : pr_sv props = cur_sv).
      { destruct Hsv as [(Hz & _)|Hl].
        - exfalso. pose proof (sig_at_pos (gr_time g0)) as Hpos. unfold props in Hs. rewrite props_at_sig in Hs. lia.
        - rewrite <- Hl. apply sv_near_eq; [exact Hfull | rewrite Hl; exact Hin | exact Hn]. }
      destruct (IH last cur_sv cur_kiai Hokr) as (I1 & I2 & I3); [repeat split; assumption|].
      destruct (emit_nothing (mkGD g0 props false) eq_refl Eg) as (ED & EE).
      cbn [consistent]. rewrite ED, EE.
      split; [split; [exact H1 | exact I1]|].
      split; [split; [unfold full_kiai; cbn [gd_props]; rewrite Hf; exact Hk | exact I2]|].
      split; [|exact I3]. unfold full_scroll, cur_scroll. cbn [gd_props]. rewrite H1. reflexivity.
  Qed.
End Inv.

(* Enc2Timing: the side conditions of T02d (C02_timing_round_trip_partial) that ARE facts about
   every decoded map, discharged:
     - [cp_values_good]: beat lengths, slider velocities and scroll speeds within their clamps,
       finite times (Enc2Values), the mode clause of [good_ep] from [scroll_follows_sv];
     - [wrec_ok] of every written record: signature positive and within i32, bank / custom index /
       volume / effect flags within i32, beat length and -100/sv within the parse limits, the
       times of timing / difficulty / effect points within the parse limits.
   What is left of [rt_side] is [rt_classes]: separated times (D28 / D8), separated values (D27),
   the D12 exclusion, and the times of the sample points (those collected from hit objects can
   lie beyond the parse limit: D26 for spinners / holds, D32 for sliders) -- plus the float
   fact [svs_round_trip] (Proofs/Enc2SvRT.v). *)
From RM Require Import Model.EncTimingSpec Proofs.BSearch Proofs.ControlPointsFacts
  Proofs.TPFloatFacts Proofs.TimingPointsFacts Proofs.TimingPointsValues
  Proofs.EncText Proofs.EncFmt Proofs.EncSimple Proofs.EncImage Proofs.EncTiming Proofs.EncTimingParse Proofs.EncCollect Proofs.EncGroups
  Proofs.EncChrono Proofs.EncTimingDecode Proofs.EncTimingInv Proofs.EncTimingRT Proofs.EncTimingImage
  Proofs.EncodeCompletes Proofs.DecodersFacts Proofs.DecodersTotal Proofs.DecodedValues
  Proofs.EncObjectsRT Proofs.Enc2Values Proofs.Enc2Samples Proofs.Enc2Float.
From RM Require Import Gen.Generated.
From Coq Require Import ZifyBool.
Open Scope Z_scope.

(* ================================================================== *)
(* 1. control points of decoded maps: times within the parse limits    *)
(* ================================================================== *)

Definition lim_tp (p : TimingPoint) : Prop :=
  good_tp p /\ in_lim64 (tp_time p) = true /\ i32_ok (tp_sig p) = true.
Definition lim_dp (p : DifficultyPoint) : Prop := good_dp p /\ in_lim64 (dp_time p) = true.
Definition lim_ep (p : EffectPoint) : Prop := range_ep p /\ in_lim64 (ep_time p) = true.
Definition lim_sp (p : SamplePoint) : Prop := range_sp p /\ in_lim64 (sp_time p) = true.

Lemma f_sig_i32 o n : f_sig o = Some n -> i32_ok n = true.
Proof.
  assert (Hn : forall s, obnd (pn_i32 s) time_signature_new = Some n -> i32_ok n = true).
  { intros s. destruct (pn_i32 s) as [k|] eqn:E; [|discriminate]. cbn [obnd]. unfold time_signature_new.
    destruct (0 <? k); [|discriminate]. intros H; inversion H; subst. exact (pn_i32_ok _ _ E). }
  destruct o as [[|c s]|]; cbn [f_sig].
  - apply Hn.
  - destruct (c =? tp_sig_skip_char); [intros H; inversion H; subst; reflexivity | apply Hn].
  - intros H; inversion H; subst; reflexivity.
Qed.

Lemma parse_tp_line_lims g line r : parse_tp_line g line = Some r ->
  in_lim64 (l_time r) = true /\ i32_ok (l_sig r) = true.
Proof.
  unfold parse_tp_line. rewrite parse_fields_nth. unfold parse_opts. intros H.
  repeat match type of H with
         | obnd ?x _ = Some _ => destruct x eqn:?; cbn [obnd] in H; [|discriminate H]
         end.
  destruct p as [kiai omit]. cbv zeta in H.
  match type of H with (if ?b then _ else _) = _ => destruct b; [discriminate|] end.
  inversion H; subst; clear H. cbn [l_time l_sig]. split.
  - match goal with X : pn_f64 _ = Some ?f |- in_lim64 ?f = true => exact (pn_f64_ok _ _ X) end.
  - match goal with X : f_sig _ = Some ?z |- i32_ok ?z = true => exact (f_sig_i32 _ _ X) end.
Qed.

Lemma line_points_lim g line r : parse_tp_line g line = Some r ->
  (l_tc r = true -> lim_tp (line_tp r)) /\ lim_dp (line_dp r) /\ lim_sp (line_sp r) /\
  forall mode, lim_ep (line_ep mode r).
Proof.
  intros H. destruct (line_points_good g line r H) as (A & B & C & D).
  destruct (parse_tp_line_lims g line r H) as (T & S).
  split; [intros Htc; exact (conj (A Htc) (conj T S))|]. split; [exact (conj B T)|]. split; [exact (conj C T)|].
  intros mode. split; [exact (D mode)|]. unfold line_ep. destruct (scroll_mode mode); exact T.
Qed.

Definition cp_lims (c : ControlPoints) : Prop := cp_all lim_tp lim_dp lim_ep lim_sp c.

Section WithDist.
  Variable dist_of : Z -> list PCP -> option F64 -> outcome F64.

  Theorem decoded_cp_lims lines m :
    decode_beatmap dist_of lines = Done m -> cp_lims (hov_control_points (bmv_ho m)).
  Proof.
    revert m. unfold decode_beatmap.
    apply (driver_invariant _ _ _ (bm_all lim_tp lim_dp lim_ep lim_sp)
             (bm_all_create _ _ _ _)
             (bm_all_step _ _ _ _ line_points_lim)
             (fun ov => forall m, ov = Done m -> cp_lims (hov_control_points (bmv_ho m)))).
    intros st Hst m. destruct st as [s|w|]; cbn [obind]; try discriminate.
    cbn [bm_all] in Hst. intros Hb.
    destruct (bmd_finish_inv dist_of s m Hb) as (_ & _ & _ & _ & Hh).
    destruct (hod_finish_inv dist_of _ _ Hh) as (_ & _ & _ & Htp & _).
    exact (flush_cp_all _ _ _ _ _ _ Htp Hst).
  Qed.
End WithDist.

(* ================================================================== *)
(* 2. cp_values_good                                                   *)
(* ================================================================== *)

(* the mode clause of [good_ep] is the non-scroll half of [scroll_follows_sv] *)
Lemma values_good_of_ranges mode c :
  Forall lim_tp (cp_timing c) -> Forall lim_dp (cp_difficulty c) -> Forall lim_ep (cp_effect c) ->
  (scroll_mode mode = false -> forallb (fun p => f64_eqb (ep_scroll p) D.one) (cp_effect c) = true) ->
  cp_values_good mode c.
Proof.
  intros Ht Hd He Hs. unfold cp_values_good. split; [|split].
  - eapply Forall_impl; [|exact Ht]. intros p H. exact (proj1 H).
  - eapply Forall_impl; [|exact Hd]. intros p H. exact (proj1 H).
  - apply Forall_forall. intros p Hp. rewrite Forall_forall in He. destruct (He p Hp) as ((R & F) & _).
    unfold good_ep. split; [exact R|]. split; [|exact F].
    intros Hm. specialize (Hs Hm). rewrite forallb_forall in Hs.
    exact (f64_eqb_eq _ _ (Hs p Hp)).
Qed.

(* ================================================================== *)
(* 3. every written record is within the parse limits                  *)
(* ================================================================== *)

(* what the lines need of the properties *)
Definition props_ok (p : Props) : Prop :=
  in_range sv_lo sv_hi (pr_sv p) /\ 0 < pr_sig p /\ i32_ok (pr_sig p) = true /\ i32_ok (pr_bank p) = true /\
  i32_ok (pr_custom p) = true /\ i32_ok (pr_vol p) = true /\ raw_i32_ok (pr_flags p) = true.
(* ... and what is inherited from the previous properties *)
Definition props_small (p : Props) : Prop := i32_ok (pr_bank p) = true /\ i32_ok (pr_custom p) = true.

(* sample points: bank and custom index within i32 (collected points included) *)
Definition sp_small (p : SamplePoint) : Prop := i32_ok (sp_bank p) = true /\ i32_ok (sp_custom p) = true.

Section Records.
  Variable c : ControlPoints.
  Hypothesis Hc : cp_sorted c.
  Hypothesis Ht : Forall lim_tp (cp_timing c).
  Hypothesis Hd : Forall lim_dp (cp_difficulty c).
  Hypothesis Hs : Forall sp_small (cp_sample c).

  Lemma one_in_sv : in_range sv_lo sv_hi D.one.
  Proof. exact TickDistBound.one_in_sv_range. Qed.

  Lemma props_at_ok time last ub : props_small last -> props_ok (props_at c time last ub).
  Proof.
    intros (L1 & L2). unfold props_ok, props_at.
    cbn [pr_sv pr_sig pr_bank pr_custom pr_vol pr_flags].
    (* the sample point in force *)
    set (sample := match sample_point_at c time with Some p => p | None => dflt_sp end).
    assert (Hsample : sp_small sample).
    { unfold sample. destruct (sample_point_at c time) as [p|] eqn:E; [|split; reflexivity].
      rewrite Forall_forall in Hs. exact (Hs p (sample_point_in _ _ _ E)). }
    destruct Hsample as (S1 & S2).
    set (tmp := sp_apply sample (hs_new (NDefault nm_normal) None 0 0)).
    assert (Tb : hs_bank tmp = sp_bank sample) by reflexivity.
    assert (Tc : hs_custom tmp = sp_custom sample) by reflexivity.
    assert (Tv : hs_volume tmp = zclamp (sp_vol sample) (fst sample_volume_clamp) (snd sample_volume_clamp)) by reflexivity.
    split; [|split; [|split; [|split; [|split; [|split]]]]].
    - rewrite (dp_lookup_sorted c time Hc). unfold dp_sv_or.
      destruct (last_not_after dp_time (cp_difficulty c) time) as [p|] eqn:E; [|exact one_in_sv].
      rewrite Forall_forall in Hd. exact (proj1 (proj1 (Hd p (last_not_after_In _ _ _ _ E)))).
    - destruct (timing_point_at c time) as [p|] eqn:E; [|reflexivity].
      rewrite Forall_forall in Ht. destruct (Ht p (timing_point_at_In _ _ _ E)) as ((_ & G & _) & _). exact G.
    - destruct (timing_point_at c time) as [p|] eqn:E; [|reflexivity].
      rewrite Forall_forall in Ht. exact (proj2 (proj2 (Ht p (timing_point_at_In _ _ _ E)))).
    - destruct ub; [rewrite Tb; exact S1|exact L1].
    - destruct (0 <=? hs_custom tmp); [rewrite Tc; exact S2|exact L2].
    - rewrite Tv. pose proof (zclamp_range (sp_vol sample) _ _ vol_bounds) as R. unfold vol_lo, vol_hi in R.
      unfold sample_volume_clamp in *. cbn [fst snd] in *.
      set (z := zclamp (sp_vol sample) 0 100) in *. clearbody z. unfold i32_ok, max_parse_value. lia.
    - destruct (ep_kiai_or (ep_lookup c time)); destruct (match timing_point_at c time with Some p => tp_omit p | None => false end);
        reflexivity.
  Qed.

  Lemma props_ok_small p : props_ok p -> props_small p.
  Proof. intros (_ & _ & _ & B & C & _). exact (conj B C). Qed.

  Lemma props_timing_small p : props_ok p -> props_small (props_timing p).
  Proof. intros (_ & _ & _ & B & C & _). exact (conj B C). Qed.

  Lemma decisions_ok : forall gs last, props_small last ->
    Forall (fun d => props_ok (gd_props d)) (group_decisions c last gs).
  Proof.
    induction gs as [|g r IH]; intros last Hl; [constructor|]. cbn [group_decisions].
    pose proof (props_at_ok (gr_time g) last (has_timing g) Hl) as Hp.
    set (props := props_at c (gr_time g) last (has_timing g)) in *.
    assert (Hl1 : props_small (if has_timing g then props_timing props else last)).
    { destruct (has_timing g); [exact (props_timing_small _ Hp)|exact Hl]. }
    destruct (props_redundant _ _); constructor; try exact Hp.
    - apply IH. exact Hl1.
    - apply IH. exact (props_ok_small _ Hp).
  Qed.

  Lemma props_default_small : props_small props_default.
  Proof. split; reflexivity. Qed.

  (* the times of all four lists within the parse limits *)
  Hypothesis Htimes : Forall (fun t => in_lim64 t = true) (cp_times c).

  Lemma tp_line_ok_props time beat p tc :
    in_lim64 time = true -> in_lim64 beat = true -> props_ok p -> tp_line_ok time beat p tc = true.
  Proof.
    intros H1 H2 (_ & P1 & P2 & P3 & P4 & P5 & P6). unfold tp_line_ok.
    rewrite H1, H2, P2, P3, P4, P5, P6. replace (0 <? pr_sig p) with true by lia. reflexivity.
  Qed.

  Theorem enc_records_ok : forallb wrec_ok (enc_records c) = true.
  Proof.
    apply forallb_forall. intros r Hr. unfold enc_records in Hr. apply in_flat_map in Hr.
    destruct Hr as (d & Hd' & Hr).
    pose proof (decisions_ok (groups_of c) props_default props_default_small) as Hok.
    rewrite Forall_forall in Hok. specialize (Hok d Hd'). fold (enc_decisions c) in Hd'.
    assert (Hg : In (gd_group d) (groups_of c)).
    { unfold enc_decisions in Hd'. rewrite <- (decisions_groups c (groups_of c) props_default). apply in_map. exact Hd'. }
    destruct (groups_of_spec c Hc) as ([_ Htm _] & _ & Hfrom).
    unfold gd_block in Hr. apply in_app_or in Hr. destruct Hr as [Hr|Hr].
    - destruct (gr_timing (gd_group d)) as [t|] eqn:Et; [|destruct Hr].
      destruct Hr as [<-|[]]. cbn [wrec_ok].
      assert (Hin : In t (cp_timing c)).
      { rewrite <- Htm. apply in_flat_map. exists (gd_group d). split; [exact Hg|]. unfold group_timing. rewrite Et. left. reflexivity. }
      rewrite Forall_forall in Ht. destruct (Ht t Hin) as ((Gb & _) & Gt & _).
      apply tp_line_ok_props; [exact Gt|exact (beat_len_in_lim _ Gb)|exact Hok].
    - destruct (gd_inh d); [|destruct Hr]. destruct Hr as [<-|[]]. cbn [wrec_ok].
      apply tp_line_ok_props; [| |exact Hok].
      + rewrite Forall_forall in Htimes. exact (Htimes _ (Hfrom _ Hg)).
      + apply m100_div_in_lim. exact (proj1 Hok).
  Qed.
End Records.

(* ================================================================== *)
(* 4. collected sample points                                          *)
(* ================================================================== *)

Lemma zmax_list_i32 (f : HitSampleInfo -> Z) first rest :
  i32_ok (f first) = true -> Forall (fun s => i32_ok (f s) = true) rest -> i32_ok (zmax_list f first rest) = true.
Proof.
  unfold zmax_list. generalize (f first) as acc. clear first. induction rest as [|s r IH]; intros acc Ha Hr; cbn [fold_left].
  - exact Ha.
  - inversion Hr; subst. apply IH; [|assumption]. unfold i32_ok in *. lia.
Qed.

Lemma collect_sample_small samples time : forallb sample_img samples = true ->
  Forall sp_small (collect_sample samples time).
Proof.
  intros H. destruct samples as [|s r]; cbn [collect_sample]; [constructor|].
  cbn [forallb] in H. apply andb_true_iff in H. destruct H as [H1 H2].
  constructor; [|constructor]. split; cbn [sp_bank sp_custom]; [reflexivity|].
  apply zmax_list_i32.
  - unfold sample_img in H1. do 3 apply andb_prop_l in H1. exact H1.
  - apply Forall_forall. intros x Hx. rewrite forallb_forall in H2. specialize (H2 x Hx).
    unfold sample_img in H2. do 3 apply andb_prop_l in H2. exact H2.
Qed.

Lemma node_or_img nodes i hs : forallb (forallb sample_img) nodes = true -> forallb sample_img hs = true ->
  forallb sample_img (node_or nodes i hs) = true.
Proof.
  intros Hn Hh. unfold node_or. destruct (i <? 0); [exact Hh|].
  destruct (nth_error nodes (Z.to_nat i)) as [l|] eqn:E; [|exact Hh].
  rewrite forallb_forall in Hn. exact (Hn l (nth_error_In _ _ E)).
Qed.

Section Collected.
  Variable dist_of : Z -> list PCP -> option F64 -> outcome F64.
  Variable events_of : F64 -> F64 -> F64 -> F64 -> F64 -> Z -> outcome (list EncEvent).

  Lemma catch_event_samples_small s hs : forallb (forallb sample_img) (sl_node_samples s) = true ->
    forallb sample_img hs = true -> forall evs idx, Forall sp_small (catch_event_samples s hs idx evs).
  Proof.
    intros Hn Hh. induction evs as [|e r IH]; intros idx; cbn [catch_event_samples]; [constructor|].
    destruct ((ee_kind e =? evk_head) || (ee_kind e =? evk_repeat) || (ee_kind e =? evk_tail)); [|apply IH].
    apply Forall_app. split; [|apply IH]. apply collect_sample_small. apply node_or_img; assumption.
  Qed.

  Lemma object_samples_small mode version tick mult c h col :
    obj_simg h = true -> object_samples dist_of events_of mode version tick mult c h = Done col -> Forall sp_small col.
  Proof.
    intros Hh H. unfold obj_simg in Hh. apply andb_true_iff in Hh. destruct Hh as [Hs Hk].
    unfold object_samples in H. destruct (end_time dist_of h) as [et|w|]; cbn [obind] in H; try discriminate.
    pose proof (collect_sample_small (h_samples h) et Hs) as Hown.
    destruct (h_kind h) as [ci|s|sp|hd].
    - inversion H; subst. exact Hown.
    - destruct (mode =? 0).
      { destruct (slider_events dist_of events_of (h_start h) s version tick c) as [evs|w|]; cbn [obind] in H; try discriminate.
        inversion H; subst. apply Forall_app. split; [exact Hown|].
        apply Forall_forall. intros p Hp. apply in_flat_map in Hp. destruct Hp as (e & _ & Hp).
        unfold osu_event_samples in Hp.
        assert (G : forall i, Forall sp_small (collect_sample (node_or (sl_node_samples s) i (h_samples h)) (ee_time e))).
        { intros i. apply collect_sample_small. apply node_or_img; assumption. }
        destruct (ee_kind e =? evk_head); [exact (proj1 (Forall_forall _ _) (G _) p Hp)|].
        destruct (ee_kind e =? evk_repeat); [exact (proj1 (Forall_forall _ _) (G _) p Hp)|].
        destruct (ee_kind e =? evk_tail); [exact (proj1 (Forall_forall _ _) (G _) p Hp)|destruct Hp]. }
      destruct (mode =? 1); [inversion H; subst; exact Hown|].
      destruct (mode =? 2).
      { destruct (juicestream_events dist_of events_of (h_start h) s version tick mult c) as [evs|w|]; cbn [obind] in H; try discriminate.
        inversion H; subst. apply Forall_app. split; [exact Hown|]. apply catch_event_samples_small; assumption. }
      inversion H; subst. apply Forall_app. split; [exact Hown|]. exact (collect_sample_small _ _ Hs).
    - inversion H; subst. exact Hown.
    - inversion H; subst. apply Forall_app. split; [exact Hown|]. exact (collect_sample_small _ _ Hs).
  Qed.

  Lemma all_object_samples_small mode version tick mult c : forall objs col,
    Forall (fun h => obj_simg h = true) objs ->
    all_object_samples dist_of events_of mode version tick mult c objs = Done col -> Forall sp_small col.
  Proof.
    induction objs as [|h r IH]; intros col Ho H; cbn [all_object_samples] in H.
    - inversion H; subst. constructor.
    - inversion Ho; subst.
      destruct (object_samples dist_of events_of mode version tick mult c h) as [x|w|] eqn:Ex; cbn [obind] in H; try discriminate.
      destruct (all_object_samples dist_of events_of mode version tick mult c r) as [xs|w|] eqn:Exs; cbn [obind] in H; try discriminate.
      inversion H; subst. apply Forall_app. split; [exact (object_samples_small _ _ _ _ _ _ _ H2 Ex)|exact (IH _ H3 eq_refl)].
  Qed.

  (* the control points the encoder works on: every sample point has bank / custom within i32 *)
  Lemma enc_control_points_small m c :
    cp_sorted (hov_control_points (bmv_ho m)) ->
    Forall sp_small (cp_sample (hov_control_points (bmv_ho m))) ->
    Forall (fun h => obj_simg h = true) (hov_hit_objects (bmv_ho m)) ->
    enc_control_points dist_of events_of m = Done c -> Forall sp_small (cp_sample c).
  Proof.
    intros Hs0 H0 Ho E. unfold enc_control_points in E.
    destruct (all_object_samples dist_of events_of (g_mode (hov_general (bmv_ho m))) (bmv_version m)
                (d_slider_tick_rate (hov_difficulty (bmv_ho m))) (d_slider_multiplier (hov_difficulty (bmv_ho m)))
                (hov_control_points (bmv_ho m)) (hov_hit_objects (bmv_ho m))) as [col| |] eqn:Ec.
    - destruct (collect_samples_sorted dist_of events_of _ _ _ _ _ _ col Hs0 Ec) as (c' & E' & _ & Hfrom).
      rewrite E in E'. inversion E'; subst c'.
      pose proof (all_object_samples_small _ _ _ _ _ _ _ Ho Ec) as Hcol.
      apply Forall_forall. intros p Hp. destruct (Hfrom p Hp) as [Hin|Hin].
      + rewrite Forall_forall in H0. exact (H0 p Hin).
      + rewrite Forall_forall in Hcol. exact (Hcol p Hin).
    - rewrite collect_samples_eq, Ec in E. discriminate E.
    - rewrite collect_samples_eq, Ec in E. discriminate E.
  Qed.
End Collected.

(* ================================================================== *)
(* 5. T02d for decoded maps, with the invariants discharged            *)
(* ================================================================== *)

(* what remains of [rt_side]: the recorded classes.  [sample_times_ok]: no sample point
   (collected from a hit object) lies beyond the parse limit -- classes D26 / D32 *)
Definition sample_times_ok (c : ControlPoints) : bool := forallb (fun p => in_lim64 (sp_time p)) (cp_sample c).
Definition rt_classes (mode : Z) (c : ControlPoints) : bool :=
  times_separated c && values_separated c && scroll_follows_sv mode c && sample_times_ok c.

Section Final.
  Variable dist_of : Z -> list PCP -> option F64 -> outcome F64.
  Variable events_of : F64 -> F64 -> F64 -> F64 -> F64 -> Z -> outcome (list EncEvent).

  (* the two non-class conjuncts of [rt_side] and [cp_values_good], for every decoded map *)
  Theorem decoded_rt_invariants lines m c mode :
    Forall no_lf_line lines -> decode_beatmap dist_of lines = Done m ->
    enc_control_points dist_of events_of m = Done c ->
    scroll_follows_sv mode c = true -> sample_times_ok c = true ->
    cp_values_good mode (hov_control_points (bmv_ho m)) /\ forallb wrec_ok (enc_records c) = true.
  Proof.
    intros Hl Hd E Hscroll Hst. set (c0 := hov_control_points (bmv_ho m)).
    pose proof (decoded_map_cp_sorted dist_of lines m Hd) as Hs0. fold c0 in Hs0.
    destruct (decoded_cp_lims dist_of lines m Hd) as (Lt & Ld & Le & Ls). fold c0 in Lt, Ld, Le, Ls.
    destruct (collect_samples_frame dist_of events_of _ _ _ _ _ _ _ E) as (Ft & Fd & Fe). fold c0 in Ft, Fd, Fe.
    pose proof (enc_control_points_sorted dist_of events_of m c Hs0 E) as Hs.
    split.
    - apply values_good_of_ranges; try assumption.
      intros Hm. unfold scroll_follows_sv in Hscroll. rewrite Hm in Hscroll. rewrite <- Fe. exact Hscroll.
    - apply enc_records_ok; try assumption.
      + rewrite Ft. exact Lt.
      + rewrite Fd. exact Ld.
      + (* sample points of c: those of the map, or collected from the samples of its objects *)
        apply (enc_control_points_small dist_of events_of m c Hs0); [| |exact E].
        * pose proof (decode_image_pre dist_of lines m Hl Hd) as Hp. unfold simple_pre in Hp. apply andb_prop_r in Hp.
          unfold sample_banks_ok in Hp. rewrite forallb_forall in Hp. fold c0 in Hp.
          apply Forall_forall. intros p Hin. rewrite Forall_forall in Ls. destruct (Ls p Hin) as ((_ & Cu) & _).
          split; [|exact Cu]. specialize (Hp p Hin). unfold enum4_ok in Hp. unfold i32_ok, max_parse_value. lia.
        * exact (decoded_samples_img dist_of lines m Hl Hd).
      + unfold cp_times. rewrite Ft, Fd, Fe. repeat (apply Forall_app; split).
        * apply Forall_forall. intros t Ht. apply in_map_iff in Ht. destruct Ht as (p & <- & Hp).
          rewrite Forall_forall in Lt. exact (proj1 (proj2 (Lt p Hp))).
        * apply Forall_forall. intros t Ht. apply in_map_iff in Ht. destruct Ht as (p & <- & Hp).
          rewrite Forall_forall in Ld. exact (proj2 (Ld p Hp)).
        * apply Forall_forall. intros t Ht. apply in_map_iff in Ht. destruct Ht as (p & <- & Hp).
          rewrite Forall_forall in Le. exact (proj2 (Le p Hp)).
        * apply Forall_forall. intros t Ht. apply in_map_iff in Ht. destruct Ht as (p & <- & Hp).
          unfold sample_times_ok in Hst. rewrite forallb_forall in Hst. exact (Hst p Hp).
  Qed.
End Final.

(* C04 / T04b for timing-point lines: every record the encoder writes for a decoded map is within
   the parse limits -- unless a sample point collected from a hit object lies beyond them (D26 /
   D32) -- hence every [TimingPoints] body line is accepted by the decoder's field parser *)
Section TimingLines.
  Variable dist_of : Z -> list PCP -> option F64 -> outcome F64.
  Variable events_of : F64 -> F64 -> F64 -> F64 -> F64 -> Z -> outcome (list EncEvent).

  Theorem decoded_enc_records_ok lines m c :
    Forall no_lf_line lines -> decode_beatmap dist_of lines = Done m ->
    enc_control_points dist_of events_of m = Done c -> sample_times_ok c = true ->
    forallb wrec_ok (enc_records c) = true.
  Proof.
    intros Hl Hd E Hst. set (c0 := hov_control_points (bmv_ho m)).
    pose proof (decoded_map_cp_sorted dist_of lines m Hd) as Hs0. fold c0 in Hs0.
    destruct (decoded_cp_lims dist_of lines m Hd) as (Lt & Ld & Le & Ls). fold c0 in Lt, Ld, Le, Ls.
    destruct (collect_samples_frame dist_of events_of _ _ _ _ _ _ _ E) as (Ft & Fd & Fe). fold c0 in Ft, Fd, Fe.
    pose proof (enc_control_points_sorted dist_of events_of m c Hs0 E) as Hs.
    apply enc_records_ok; try assumption.
    - rewrite Ft. exact Lt.
    - rewrite Fd. exact Ld.
    - apply (enc_control_points_small dist_of events_of m c Hs0); [| |exact E].
      + pose proof (decode_image_pre dist_of lines m Hl Hd) as Hp. unfold simple_pre in Hp. apply andb_prop_r in Hp.
        unfold sample_banks_ok in Hp. rewrite forallb_forall in Hp. fold c0 in Hp.
        apply Forall_forall. intros p Hin. rewrite Forall_forall in Ls. destruct (Ls p Hin) as ((_ & Cu) & _).
        split; [|exact Cu]. specialize (Hp p Hin). unfold enum4_ok in Hp. unfold i32_ok, max_parse_value. lia.
      + exact (decoded_samples_img dist_of lines m Hl Hd).
    - unfold cp_times. rewrite Ft, Fd, Fe. repeat (apply Forall_app; split).
      + apply Forall_forall. intros t Ht. apply in_map_iff in Ht. destruct Ht as (p & <- & Hp).
        rewrite Forall_forall in Lt. exact (proj1 (proj2 (Lt p Hp))).
      + apply Forall_forall. intros t Ht. apply in_map_iff in Ht. destruct Ht as (p & <- & Hp).
        rewrite Forall_forall in Ld. exact (proj2 (Ld p Hp)).
      + apply Forall_forall. intros t Ht. apply in_map_iff in Ht. destruct Ht as (p & <- & Hp).
        rewrite Forall_forall in Le. exact (proj2 (Le p Hp)).
      + apply Forall_forall. intros t Ht. apply in_map_iff in Ht. destruct Ht as (p & <- & Hp).
        unfold sample_times_ok in Hst. rewrite forallb_forall in Hst. exact (Hst p Hp).
  Qed.

  Variables (fmt_f64 : F64 -> str) (fmt_f32 : F32 -> str) (fmt_int : Z -> str).
  Hypothesis Hfmt : fmt_ok fmt_f64 fmt_f32 fmt_int.

  Theorem decoded_timing_lines_accepted lines m c :
    Forall no_lf_line lines -> decode_beatmap dist_of lines = Done m ->
    enc_control_points dist_of events_of m = Done c -> sample_times_ok c = true ->
    exists ls, enc_timing_points dist_of events_of m = Done (header_tok SecTimingPoints :: ls) /\
               Forall (fun l => forall g, exists r, parse_tp_line g (render fmt_f64 fmt_f32 fmt_int l) = Some r) ls.
  Proof.
    intros Hl Hd E Hst.
    pose proof (decoded_enc_records_ok lines m c Hl Hd E Hst) as Hok.
    pose proof (enc_control_points_sorted dist_of events_of m c (decoded_map_cp_sorted dist_of lines m Hd) E) as Hs.
    exists (map wrec_line (enc_records c)). split; [exact (enc_timing_points_records dist_of events_of m c E Hs)|].
    apply Forall_forall. intros l Hin. apply in_map_iff in Hin. destruct Hin as (r & <- & Hr).
    rewrite forallb_forall in Hok. specialize (Hok r Hr). intros g.
    destruct r as [t p|time p]; cbn [wrec_ok wrec_line] in *.
    - destruct (tp_line_accepted fmt_f64 fmt_f32 fmt_int Hfmt _ _ _ _ Hok g) as (x & Hx & _). exists x. exact Hx.
    - destruct (tp_line_accepted fmt_f64 fmt_f32 fmt_int Hfmt _ _ _ _ Hok g) as (x & Hx & _). exists x. exact Hx.
  Qed.
End TimingLines.

(* T02d for decoded maps: the value hypotheses and "written numbers within the parse limits" are
   discharged; what is left is exactly the recorded classes ([rt_classes]) and the float fact
   [svs_round_trip] *)
Section RoundTrip.
  Variable dist_of : Z -> list PCP -> option F64 -> outcome F64.
  Variable events_of : F64 -> F64 -> F64 -> F64 -> F64 -> Z -> outcome (list EncEvent).
  Variables (fmt_f64 : F64 -> str) (fmt_f32 : F32 -> str) (fmt_int : Z -> str).
  Hypothesis Hfmt : fmt_ok fmt_f64 fmt_f32 fmt_int.
  Hypothesis Hlead : no_leading_zero fmt_int.

  Theorem decoded_timing_round_trip_classes lines m c g :
    Forall no_lf_line lines -> decode_beatmap dist_of lines = Done m ->
    enc_control_points dist_of events_of m = Done c ->
    rt_classes (tpg_mode g) c = true -> svs_round_trip c = true ->
    let c0 := hov_control_points (bmv_ho m) in
    exists ls c',
      enc_timing_points dist_of events_of m = Done (header_tok SecTimingPoints :: ls) /\
      tp_decode g (map (render fmt_f64 fmt_f32 fmt_int) ls) = Done (c', map (fun _ => Ok) ls) /\
      cp_timing c' = cp_timing c0 /\
      (forall t, sv_at c' t = sv_at c0 t) /\
      (forall t, kiai_at c' t = kiai_at c0 t) /\
      (forall t, scroll_at c' t = scroll_at c0 t).
  Proof.
    intros Hl Hd E Hcls Hsv c0. unfold rt_classes in Hcls.
    apply andb_true_iff in Hcls. destruct Hcls as [Hcls Hst].
    apply andb_true_iff in Hcls. destruct Hcls as [Hcls Hsc].
    apply andb_true_iff in Hcls. destruct Hcls as [Hts Hvs].
    destruct (decoded_rt_invariants dist_of events_of lines m c (tpg_mode g) Hl Hd E Hsc Hst) as (Hgood & Hw).
    apply (decoded_timing_round_trip dist_of events_of fmt_f64 fmt_f32 fmt_int Hfmt Hlead lines m c g Hd Hgood E).
    unfold rt_side. rewrite Hts, Hvs, Hsv, Hsc, Hw. reflexivity.
  Qed.
End RoundTrip.

Print Assumptions decoded_timing_round_trip_classes.

(* HausdorffCatmull: T17e for Catmull segments in exact (real) arithmetic.

   catmull_subpath / approximate_catmull are written once over a scalar type
   ([catmull_subpath_g], [approximate_catmull_g]; they use the coefficient and
   evaluation formulas catmull_coord_g / catmull_eval_g of Model/Curve.v); the
   model is the binary32 instance ([model_catmull_subpath],
   [model_approximate_catmull]), the theorems are about the real instance.

   Per span (v1, v2, v3, v4), P = the uniform Catmull-Rom polynomial (T17c):
     - the 100 emitted vertices are P(k/50), P((k+1)/50), k = 0..49: ON the curve;
     - for a cubic, the chord error has the closed form
         P(t0 + s h) - ((1-s) P(t0) + s P(t0 + h)) = - s (1-s) h^2 / 2 * P''(xi),
         xi = t0 + (1 + s) h / 3   (an identity of polynomials, [chord_identity]),
       and P'' is affine in t, P''(0) = 2 v1 - 5 v2 + 4 v3 - v4,
       P''(1) = - v1 + 4 v2 - 5 v3 + 2 v4;  hence, with h = 1/50,
         | P((k+s)/50) - chord_k(s) | <= (1/8) (1/50)^2 S,   S >= |P''(0)|, |P''(1)|;
     - S <= 6 L when the three edges of (v1, v2, v3, v4) are at most L long:
       the bound is 3 L / 10000. *)
From RM Require Import Model.ControlPoints Model.Curve Gen.Generated Proofs.CatmullFacts Proofs.ArcExact
  Proofs.HausdorffPlane.
From Coq Require Import Reals Lra Lia Psatz.
From Flocq Require Import Raux.
Open Scope R_scope.

(* ---------- the routine, written once ---------- *)

Section CatmullG.
  Context {T : Type} (o : Ops T) (div : T -> T -> T) (one detail_f : T) (of_nat : nat -> T).

  Definition catmull_pair_g (kx ky : T * T * T * T) (c : nat) : list (T * T) :=
    let cf := of_nat c in
    let ta := div cf detail_f in
    let tb := div (o_add o cf one) detail_f in
    [(catmull_eval_g o kx ta, catmull_eval_g o ky ta); (catmull_eval_g o kx tb, catmull_eval_g o ky tb)].

  Definition catmull_subpath_g (v1 v2 v3 v4 : T * T) : list (T * T) :=
    let kx := catmull_coord_g o (fst v1) (fst v2) (fst v3) (fst v4) in
    let ky := catmull_coord_g o (snd v1) (snd v2) (snd v3) (snd v4) in
    flat_map (catmull_pair_g kx ky) (seq 0 (Z.to_nat catmull_detail)).

  (* v3 * 2.0 - v2 *)
  Variable phantom : T * T -> T * T -> T * T.

  Definition span : Type := ((T * T) * (T * T) * (T * T) * (T * T))%type.

  Fixpoint catmull_rest_spans (pts : list (T * T)) : list span :=
    match pts with
    | v1 :: ((v2 :: v3 :: r) as t) =>
        (v1, v2, v3, match r with v4 :: _ => v4 | [] => phantom v3 v2 end) :: catmull_rest_spans t
    | _ => []
    end.

  Definition catmull_spans (points : list (T * T)) : list span :=
    match points with
    | p0 :: p1 :: r =>
        (p0, p0, p1, match r with v4 :: _ => v4 | [] => phantom p1 p0 end) :: catmull_rest_spans points
    | _ => []
    end.

  Definition span_path (sp : span) : list (T * T) :=
    let '(v1, v2, v3, v4) := sp in catmull_subpath_g v1 v2 v3 v4.

  Definition approximate_catmull_g (points : list (T * T)) : outcome (list (T * T)) :=
    match points with
    | [] => Panic 2
    | _ => Done (flat_map span_path (catmull_spans points))
    end.
End CatmullG.

(* ---------- the model is the binary32 instance ---------- *)

Definition pair_of (p : Pos) : F32 * F32 := (px p, py p).
Definition pos_of2 (q : F32 * F32) : Pos := mkPos (fst q) (snd q).
Definition phantom32 (a b : F32 * F32) : F32 * F32 := pair_of (psub (pmul (pos_of2 a) s2) (pos_of2 b)).
Definition of_nat32 (c : nat) : F32 := S.of_Z (Z.of_nat c).

Lemma pos_pair p : pos_of2 (pair_of p) = p.
Proof. destruct p. reflexivity. Qed.

Lemma map_flat_map {X Y Z0} (g : Y -> Z0) (f : X -> list Y) l :
  map g (flat_map f l) = flat_map (fun x => map g (f x)) l.
Proof. induction l as [|x l IH]; [reflexivity|]. cbn [flat_map]. rewrite map_app, IH. reflexivity. Qed.

Lemma model_catmull_subpath v1 v2 v3 v4 :
  catmull_subpath v1 v2 v3 v4 =
  map pos_of2 (catmull_subpath_g f32_ops S.div S.one catmull_detail_f of_nat32
                                 (pair_of v1) (pair_of v2) (pair_of v3) (pair_of v4)).
Proof. unfold catmull_subpath, catmull_subpath_g. rewrite map_flat_map. reflexivity. Qed.

Lemma model_catmull_rest pts :
  catmull_rest pts =
  map pos_of2 (flat_map (span_path f32_ops S.div S.one catmull_detail_f of_nat32)
                        (catmull_rest_spans phantom32 (map pair_of pts))).
Proof.
  induction pts as [|v1 pts IH]; [reflexivity|].
  destruct pts as [|v2 [|v3 r]]; try reflexivity.
  change (catmull_rest (v1 :: v2 :: v3 :: r))
    with (catmull_subpath v1 v2 v3 (match r with v4 :: _ => v4 | [] => psub (pmul v3 s2) v2 end)
          ++ catmull_rest (v2 :: v3 :: r)).
  rewrite IH, model_catmull_subpath.
  change (map pair_of (v1 :: v2 :: v3 :: r)) with (pair_of v1 :: pair_of v2 :: pair_of v3 :: map pair_of r).
  change (catmull_rest_spans phantom32 (pair_of v1 :: pair_of v2 :: pair_of v3 :: map pair_of r))
    with ((pair_of v1, pair_of v2, pair_of v3,
           match map pair_of r with v4 :: _ => v4 | [] => phantom32 (pair_of v3) (pair_of v2) end)
          :: catmull_rest_spans phantom32 (map pair_of (v2 :: v3 :: r))).
  cbn [flat_map]. rewrite map_app. f_equal. cbn [span_path]. f_equal. f_equal.
  destruct r as [|v4 r]; [|reflexivity]. cbn [map]. unfold phantom32. rewrite !pos_pair. reflexivity.
Qed.

Lemma model_approximate_catmull points :
  approximate_catmull points =
  match approximate_catmull_g f32_ops S.div S.one catmull_detail_f of_nat32 phantom32 (map pair_of points) with
  | Done l => Done (map pos_of2 l)
  | Panic w => Panic w
  | OutOfFuel => OutOfFuel
  end.
Proof.
  destruct points as [|p0 [|p1 r]]; try reflexivity.
  unfold approximate_catmull, approximate_catmull_g.
  change (map pair_of (p0 :: p1 :: r)) with (pair_of p0 :: pair_of p1 :: map pair_of r).
  cbv iota. f_equal.
  change (catmull_spans phantom32 (pair_of p0 :: pair_of p1 :: map pair_of r))
    with ((pair_of p0, pair_of p0, pair_of p1,
           match map pair_of r with v4 :: _ => v4 | [] => phantom32 (pair_of p1) (pair_of p0) end)
          :: catmull_rest_spans phantom32 (map pair_of (p0 :: p1 :: r))).
  cbn [flat_map]. rewrite map_app, <- model_catmull_rest. f_equal.
  cbn [span_path]. rewrite model_catmull_subpath. f_equal. f_equal.
  destruct r as [|v4 r]; [|reflexivity]. cbn [map]. unfold phantom32. rewrite !pos_pair. reflexivity.
Qed.

(* ---------- the real instance ---------- *)

Definition RP2 : Type := (R * R)%type.
Definition phantomR (a b : RP2) : RP2 := (fst a * 2 - fst b, snd a * 2 - snd b).
Definition detail_R : R := IZR catmull_detail.

Definition catmull_subpath_R : RP2 -> RP2 -> RP2 -> RP2 -> list RP2 :=
  catmull_subpath_g real_ops Rdiv 1 detail_R INR.
Definition approximate_catmull_R : list RP2 -> outcome (list RP2) :=
  approximate_catmull_g real_ops Rdiv 1 detail_R INR phantomR.

Lemma detail_value : detail_R = 50.
Proof. reflexivity. Qed.

(* the span curve *)
Definition crP (v1 v2 v3 v4 : RP2) (t : R) : RP2 :=
  (catmull_rom (fst v1) (fst v2) (fst v3) (fst v4) t, catmull_rom (snd v1) (snd v2) (snd v3) (snd v4) t).

Lemma nth_pairs {X} (f g : nat -> X) d : forall l k, (k < length l)%nat ->
  nth (2 * k) (flat_map (fun c => [f c; g c]) l) d = f (nth k l 0%nat) /\
  nth (S (2 * k)) (flat_map (fun c => [f c; g c]) l) d = g (nth k l 0%nat).
Proof.
  induction l as [|c l IH]; intros k Hk; [cbn [length] in Hk; lia|].
  destruct k as [|k]; [split; reflexivity|].
  replace (2 * S k)%nat with (S (S (2 * k))) by lia. cbn [flat_map app nth].
  apply IH. cbn [length] in Hk. lia.
Qed.

Lemma subpath_R_length v1 v2 v3 v4 : length (catmull_subpath_R v1 v2 v3 v4) = 100%nat.
Proof.
  unfold catmull_subpath_R, catmull_subpath_g.
  change (Z.to_nat catmull_detail) with 50%nat.
  assert (H : forall l, length (flat_map (catmull_pair_g real_ops Rdiv 1 detail_R INR
                 (catmull_coord_g real_ops (fst v1) (fst v2) (fst v3) (fst v4))
                 (catmull_coord_g real_ops (snd v1) (snd v2) (snd v3) (snd v4))) l) = (2 * length l)%nat).
  { induction l as [|c l IH]; [reflexivity|]. cbn [flat_map app length catmull_pair_g]. rewrite IH. lia. }
  rewrite H, seq_length. reflexivity.
Qed.

(* the vertices are points of the curve *)
Lemma subpath_R_nth v1 v2 v3 v4 k : (k < 50)%nat ->
  nth (2 * k) (catmull_subpath_R v1 v2 v3 v4) (0, 0) = crP v1 v2 v3 v4 (INR k / 50) /\
  nth (S (2 * k)) (catmull_subpath_R v1 v2 v3 v4) (0, 0) = crP v1 v2 v3 v4 ((INR k + 1) / 50).
Proof.
  intros Hk. unfold catmull_subpath_R, catmull_subpath_g, catmull_pair_g.
  change (Z.to_nat catmull_detail) with 50%nat.
  destruct (nth_pairs
    (fun c => (catmull_eval_g real_ops (catmull_coord_g real_ops (fst v1) (fst v2) (fst v3) (fst v4)) (INR c / detail_R),
               catmull_eval_g real_ops (catmull_coord_g real_ops (snd v1) (snd v2) (snd v3) (snd v4)) (INR c / detail_R)))
    (fun c => (catmull_eval_g real_ops (catmull_coord_g real_ops (fst v1) (fst v2) (fst v3) (fst v4)) ((INR c + 1) / detail_R),
               catmull_eval_g real_ops (catmull_coord_g real_ops (snd v1) (snd v2) (snd v3) (snd v4)) ((INR c + 1) / detail_R)))
    (0, 0) (seq 0 50) k ltac:(rewrite seq_length; exact Hk)) as [H1 H2].
  rewrite seq_nth in H1, H2 by exact Hk. cbn [Nat.add] in H1, H2.
  split; [refine (eq_trans H1 _)|refine (eq_trans H2 _)]; unfold crP; rewrite detail_value;
    f_equal; apply catmull_is_catmull_rom.
Qed.

(* ---------- the chord of a cubic ---------- *)

(* the second derivative of catmull_rom v1 v2 v3 v4 (affine in t) *)
Definition cr2 (v1 v2 v3 v4 t : R) : R :=
  (2 * v1 - 5 * v2 + 4 * v3 - v4) + 3 * (- v1 + 3 * v2 - 3 * v3 + v4) * t.

Lemma chord_identity v1 v2 v3 v4 t0 h s :
  catmull_rom v1 v2 v3 v4 (t0 + s * h)
  - ((1 - s) * catmull_rom v1 v2 v3 v4 t0 + s * catmull_rom v1 v2 v3 v4 (t0 + h))
  = - (s * (1 - s) * (h * h) / 2) * cr2 v1 v2 v3 v4 (t0 + (1 + s) * h / 3).
Proof. unfold catmull_rom, cr2. field. Qed.

Lemma cr2_affine v1 v2 v3 v4 t : cr2 v1 v2 v3 v4 t = (1 - t) * cr2 v1 v2 v3 v4 0 + t * cr2 v1 v2 v3 v4 1.
Proof. unfold cr2. ring. Qed.


Lemma cr2_ends v1 v2 v3 v4 :
  cr2 v1 v2 v3 v4 0 = 2 * (v1 - v2) - 3 * (v2 - v3) + (v3 - v4) /\
  cr2 v1 v2 v3 v4 1 = - (v1 - v2) + 3 * (v2 - v3) - 2 * (v3 - v4).
Proof. unfold cr2. split; ring. Qed.

(* S bounds the second derivative at both ends of the span *)
Definition second_le (S : R) (v1 v2 v3 v4 : RP2) : Prop :=
  cr2 (fst v1) (fst v2) (fst v3) (fst v4) 0 * cr2 (fst v1) (fst v2) (fst v3) (fst v4) 0 +
  cr2 (snd v1) (snd v2) (snd v3) (snd v4) 0 * cr2 (snd v1) (snd v2) (snd v3) (snd v4) 0 <= S * S /\
  cr2 (fst v1) (fst v2) (fst v3) (fst v4) 1 * cr2 (fst v1) (fst v2) (fst v3) (fst v4) 1 +
  cr2 (snd v1) (snd v2) (snd v3) (snd v4) 1 * cr2 (snd v1) (snd v2) (snd v3) (snd v4) 1 <= S * S.

Theorem catmull_chord_close v1 v2 v3 v4 S k s :
  0 <= S -> second_le S v1 v2 v3 v4 -> (k < 50)%nat -> 0 <= s <= 1 ->
  dist2 (crP v1 v2 v3 v4 ((INR k + s) / 50))
        (lerp2 (crP v1 v2 v3 v4 (INR k / 50)) (crP v1 v2 v3 v4 ((INR k + 1) / 50)) s)
  <= S / 8 / 2500.
Proof.
  intros HS [HA HC] Hk Hs.
  unfold dist2, sqd2, sqd. apply norm_by_proj; [lra|]. intros ux uy Hu.
  unfold crP, lerp2. cbn [fst snd].
  set (t0 := INR k / 50). set (h := 1 / 50).
  replace ((INR k + s) / 50) with (t0 + s * h) by (unfold t0, h; field).
  replace ((INR k + 1) / 50) with (t0 + h) by (unfold t0, h; field).
  rewrite !chord_identity.
  set (xi := t0 + (1 + s) * h / 3).
  rewrite (cr2_affine _ _ _ _ xi), (cr2_affine (snd v1) _ _ _ xi).
  set (Ax := cr2 (fst v1) (fst v2) (fst v3) (fst v4) 0) in *.
  set (Ay := cr2 (snd v1) (snd v2) (snd v3) (snd v4) 0) in *.
  set (Cx := cr2 (fst v1) (fst v2) (fst v3) (fst v4) 1) in *.
  set (Cy := cr2 (snd v1) (snd v2) (snd v3) (snd v4) 1) in *.
  pose proof (proj_le_norm ux uy Ax Ay S Hu HS HA) as Ha. apply Rabs_le_inv in Ha.
  pose proof (proj_le_norm ux uy Cx Cy S Hu HS HC) as Hc. apply Rabs_le_inv in Hc.
  assert (Hk' : INR k + 1 <= 50).
  { replace 50 with (INR 50) by (cbn; lra). rewrite <- S_INR. apply le_INR. lia. }
  pose proof (pos_INR k) as Hk0.
  assert (Hxi : 0 <= xi <= 1) by (unfold xi, t0, h; lra).
  set (coef := s * (1 - s) * (h * h) / 2).
  assert (Hcoef : 0 <= coef <= h * h / 8).
  { unfold coef. pose proof (pow2_ge_0 (2 * s - 1)) as Hsq.
    assert (0 <= s * (1 - s) <= 1 / 4) by nra. unfold h. lra. }
  set (w := (1 - xi) * (ux * Ax + uy * Ay) + xi * (ux * Cx + uy * Cy)).
  assert (Hw : - S <= w <= S) by (unfold w; nra).
  replace (ux * (- coef * ((1 - xi) * Ax + xi * Cx)) + uy * (- coef * ((1 - xi) * Ay + xi * Cy)))
    with (- (coef * w)) by (unfold w; ring).
  assert (H1 : 0 <= coef * (S + w)) by (apply Rmult_le_pos; lra).
  assert (H2 : coef * S <= h * h / 8 * S) by (apply Rmult_le_compat_r; lra).
  unfold h in H2. lra.
Qed.

(* every parameter of [0, 1] lies on one of the 50 chords *)
Lemma param_cover t : 0 <= t <= 1 -> exists k s, (k < 50)%nat /\ 0 <= s <= 1 /\ t = (INR k + s) / 50.
Proof.
  intros Ht. set (j := Z.min (Raux.Zfloor (t * 50)) 49).
  assert (Hfl : IZR (Raux.Zfloor (t * 50)) <= t * 50 < IZR (Raux.Zfloor (t * 50)) + 1).
  { split; [apply Raux.Zfloor_lb|apply Raux.Zfloor_ub]. }
  assert (Hj0 : (0 <= j)%Z).
  { subst j. apply Z.min_glb; [|lia]. apply Raux.Zfloor_lub. cbn. lra. }
  assert (Hjb : IZR j <= t * 50 <= IZR j + 1).
  { subst j. destruct (Z.min_spec (Raux.Zfloor (t * 50)) 49) as [[Hlt ->]|[Hge ->]]; [lra|].
    split; [|lra]. apply Rle_trans with (IZR (Raux.Zfloor (t * 50))); [apply IZR_le; lia|lra]. }
  exists (Z.to_nat j), (t * 50 - IZR j).
  assert (Ei : INR (Z.to_nat j) = IZR j) by (rewrite INR_IZR_INZ, Z2Nat.id by lia; reflexivity).
  split; [subst j; lia|]. split; [lra|]. rewrite Ei. field.
Qed.

(* ---------- in terms of the control polygon ---------- *)

Lemma sq_of_sqrt_le x y c : 0 <= c -> sqrt (x ^ 2 + y ^ 2) <= c -> x * x + y * y <= c * c.
Proof.
  intros Hc H. assert (Hq : 0 <= x ^ 2 + y ^ 2) by (pose proof (pow2_ge_0 x); pose proof (pow2_ge_0 y); lra).
  pose proof (sqrt_sqrt _ Hq) as E. pose proof (sqrt_pos (x ^ 2 + y ^ 2)) as Hp.
  replace (x * x + y * y) with (x ^ 2 + y ^ 2) by ring. rewrite <- E.
  apply Rmult_le_compat; assumption.
Qed.

Definition span_edges_le (L : R) (v1 v2 v3 v4 : RP2) : Prop :=
  sqd2 v1 v2 <= L * L /\ sqd2 v2 v3 <= L * L /\ sqd2 v3 v4 <= L * L.

Lemma second_by_edges L v1 v2 v3 v4 :
  0 <= L -> span_edges_le L v1 v2 v3 v4 -> second_le (6 * L) v1 v2 v3 v4.
Proof.
  intros HL (H1 & H2 & H3). unfold sqd2, sqd in H1, H2, H3. cbn [pow] in H1, H2, H3.
  assert (P : forall ux uy, ux * ux + uy * uy = 1 ->
            Rabs (ux * (fst v1 - fst v2) + uy * (snd v1 - snd v2)) <= L /\
            Rabs (ux * (fst v2 - fst v3) + uy * (snd v2 - snd v3)) <= L /\
            Rabs (ux * (fst v3 - fst v4) + uy * (snd v3 - snd v4)) <= L).
  { intros ux uy Hu. repeat split; apply proj_le_norm; try assumption; lra. }
  split; apply sq_of_sqrt_le; try lra; apply norm_by_proj; try lra; intros ux uy Hu;
    destruct (P ux uy Hu) as (P1 & P2 & P3);
    apply Rabs_le_inv in P1; apply Rabs_le_inv in P2; apply Rabs_le_inv in P3.
  - rewrite (proj1 (cr2_ends (fst v1) (fst v2) (fst v3) (fst v4))),
            (proj1 (cr2_ends (snd v1) (snd v2) (snd v3) (snd v4))). lra.
  - rewrite (proj2 (cr2_ends (fst v1) (fst v2) (fst v3) (fst v4))),
            (proj2 (cr2_ends (snd v1) (snd v2) (snd v3) (snd v4))). lra.
Qed.

(* ---------- one span, and the whole segment ---------- *)

Definition span_follows (bound : R) (v1 v2 v3 v4 : RP2) (path : list RP2) : Prop :=
  length path = 100%nat /\
  forall k, (k < 50)%nat ->
    nth (2 * k) path (0, 0) = crP v1 v2 v3 v4 (INR k / 50) /\
    nth (S (2 * k)) path (0, 0) = crP v1 v2 v3 v4 ((INR k + 1) / 50) /\
    forall s, 0 <= s <= 1 ->
      dist2 (crP v1 v2 v3 v4 ((INR k + s) / 50))
            (lerp2 (nth (2 * k) path (0, 0)) (nth (S (2 * k)) path (0, 0)) s) <= bound.

Theorem catmull_span_hausdorff v1 v2 v3 v4 S :
  0 <= S -> second_le S v1 v2 v3 v4 ->
  span_follows (S / 8 / 2500) v1 v2 v3 v4 (catmull_subpath_R v1 v2 v3 v4).
Proof.
  intros HS H2. split; [apply subpath_R_length|]. intros k Hk.
  destruct (subpath_R_nth v1 v2 v3 v4 k Hk) as [E1 E2].
  split; [exact E1|]. split; [exact E2|]. intros s Hs. rewrite E1, E2.
  apply catmull_chord_close; assumption.
Qed.

Corollary catmull_span_hausdorff_edges v1 v2 v3 v4 L :
  0 <= L -> span_edges_le L v1 v2 v3 v4 ->
  span_follows (3 * L / 10000) v1 v2 v3 v4 (catmull_subpath_R v1 v2 v3 v4).
Proof.
  intros HL He. replace (3 * L / 10000) with (6 * L / 8 / 2500) by field.
  apply catmull_span_hausdorff; [lra|]. apply second_by_edges; assumption.
Qed.

(* consecutive control points at most L apart *)
Fixpoint edges_le (L : R) (pts : list RP2) : Prop :=
  match pts with
  | a :: t => match t with b :: _ => sqd2 a b <= L * L /\ edges_le L t | [] => True end
  | [] => True
  end.

Lemma sqd2_refl0 p : sqd2 p p = 0.
Proof. unfold sqd2, sqd. ring. Qed.

Lemma sqd2_phantom a b : sqd2 a (phantomR a b) = sqd2 b a.
Proof. unfold sqd2, sqd, phantomR. cbn [fst snd]. ring. Qed.

Definition span_ok (L : R) (sp : span (T := R)) : Prop :=
  let '(v1, v2, v3, v4) := sp in span_edges_le L v1 v2 v3 v4.

Lemma rest_spans_edges L : 0 <= L -> forall pts, edges_le L pts ->
  Forall (span_ok L) (catmull_rest_spans phantomR pts).
Proof.
  intros HL. induction pts as [|v1 pts IH]; intros H; [constructor|].
  destruct pts as [|v2 [|v3 r]]; try constructor.
  - destruct H as (H12 & H23 & Hr). unfold span_ok, span_edges_le. split; [exact H12|]. split; [exact H23|].
    destruct r as [|v4 r]; [rewrite sqd2_phantom; exact H23|exact (proj1 Hr)].
  - apply IH. exact (proj2 H).
Qed.

Lemma spans_edges L pts : 0 <= L -> edges_le L pts -> Forall (span_ok L) (catmull_spans phantomR pts).
Proof.
  intros HL H. destruct pts as [|p0 [|p1 r]]; try constructor.
  - unfold span_ok, span_edges_le. assert (HLL : 0 <= L * L) by nra.
    split; [rewrite sqd2_refl0; exact HLL|]. split; [exact (proj1 H)|].
    destruct r as [|v4 r]; [rewrite sqd2_phantom; exact (proj1 H)|exact (proj1 (proj2 H))].
  - apply rest_spans_edges; assumption.
Qed.

(* the whole Catmull segment: the path is the concatenation of the spans'
   paths, and every span's path follows the span's Catmull-Rom curve within
   3 L / 10000, L = the longest edge of the control polygon *)
Theorem catmull_hausdorff points cat L :
  approximate_catmull_R points = Done cat -> 0 <= L -> edges_le L points ->
  let spans := catmull_spans phantomR points in
  cat = flat_map (span_path real_ops Rdiv 1 detail_R INR) spans /\
  Forall (fun sp : span (T := R) => let '(v1, v2, v3, v4) := sp in
            span_follows (3 * L / 10000) v1 v2 v3 v4 (span_path real_ops Rdiv 1 detail_R INR sp)) spans.
Proof.
  intros Hrun HL He spans. split.
  - unfold approximate_catmull_R, approximate_catmull_g in Hrun.
    destruct points; [discriminate|]. injection Hrun as <-. reflexivity.
  - pose proof (spans_edges L points HL He) as HF. fold spans in HF.
    induction HF as [|sp l Hsp _ IH]; constructor; [|exact IH].
    destruct sp as [[[v1 v2] v3] v4]. apply catmull_span_hausdorff_edges; assumption.
Qed.

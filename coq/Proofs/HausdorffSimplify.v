(* HausdorffSimplify: T17e for the osu!-mode simplification of Catmull paths,
   in exact (real) arithmetic: the loop [simplify_loop_g] of Model/Curve.v
   (the model is its IEEE instance, Proofs/SimplifyExact.model_uses_same_loop)
   read over points of the real plane with the Euclidean distance and ANY
   "far" test that only lets distances <= delta pass as "not far"
   (the source: dist_from_start > 6.0, delta = 6).

   Result ([simplify_hausdorff]): the kept polyline and the full polyline are
   within delta of each other, both ways: every vertex that is dropped lies
   within delta of the last kept vertex, which is an end of the chord that
   replaces the dropped part. *)
From RM Require Import Model.ControlPoints Model.Curve Gen.Generated Proofs.ArcExact Proofs.HausdorffPlane.
From Coq Require Import Reals Lra Lia Psatz.
Require Import ZifyBool.
Open Scope R_scope.

Notation P2 := (R * R)%type.

(* ---------- convexity of the Euclidean distance ---------- *)

Lemma proj_le_dist ux uy (p q : P2) :
  ux * ux + uy * uy = 1 -> ux * (fst p - fst q) + uy * (snd p - snd q) <= dist2 p q.
Proof.
  intros Hu. eapply Rle_trans; [apply Rle_abs|].
  apply proj_le_norm; [exact Hu|apply dist2_nonneg|].
  unfold dist2. rewrite sqrt_sqrt by apply sqd2_nonneg. unfold sqd2, sqd. right. ring.
Qed.

Lemma dist_lerp (x y x' y' : P2) s d :
  0 <= s <= 1 -> 0 <= d -> dist2 x x' <= d -> dist2 y y' <= d ->
  dist2 (lerp2 x y s) (lerp2 x' y' s) <= d.
Proof.
  intros Hs Hd Hx Hy. unfold dist2 at 1. unfold sqd2, sqd. apply norm_by_proj; [exact Hd|].
  intros ux uy Hu. pose proof (proj_le_dist ux uy x x' Hu) as H1. pose proof (proj_le_dist ux uy y y' Hu) as H2.
  unfold lerp2. cbn [fst snd].
  replace (ux * ((1 - s) * fst x + s * fst y - ((1 - s) * fst x' + s * fst y')) +
           uy * ((1 - s) * snd x + s * snd y - ((1 - s) * snd x' + s * snd y')))
    with ((1 - s) * (ux * (fst x - fst x') + uy * (snd x - snd x')) +
          s * (ux * (fst y - fst y') + uy * (snd y - snd y'))) by ring.
  nra.
Qed.

Lemma dist2_sym (p q : P2) : dist2 p q = dist2 q p.
Proof. unfold dist2. rewrite sqd2_sym. reflexivity. Qed.

Lemma lerp2_same (a : P2) s : lerp2 a a s = a.
Proof. destruct a. unfold lerp2. cbn [fst snd]. f_equal; ring. Qed.

(* ---------- points of a polyline ---------- *)

Fixpoint on_poly (l : list P2) (q : P2) : Prop :=
  match l with
  | [] => False
  | a :: t => match t with
              | [] => q = a
              | b :: _ => (exists s, 0 <= s <= 1 /\ q = lerp2 a b s) \/ on_poly t q
              end
  end.

Lemma on_poly_hd a t : on_poly (a :: t) a.
Proof. destruct t as [|b t]; [reflexivity|]. left. exists 0. split; [lra|]. symmetry. apply lerp2_0. Qed.

Lemma on_poly_tl a b t q : on_poly (b :: t) q -> on_poly (a :: b :: t) q.
Proof. intros H. right. exact H. Qed.

(* ---------- the specification of the loop, head first ---------- *)

Section Simplify.
  Variable far : R -> bool.
  Variable delta : R.
  Hypothesis Hdelta : 0 <= delta.
  Hypothesis Hfar : forall x, far x = false -> x <= delta.

  Notation loop := (simplify_loop_g (P := P2) dist2 Rplus Rminus 0 far).

  Fixpoint spec (l : list P2) (i n : Z) (ls : option P2) : list P2 :=
    match l with
    | [] => []
    | curr :: t =>
        match ls with
        | None => curr :: spec t (i + 1) n (Some curr)
        | Some s =>
            if far (dist2 s curr) || ((i + 1) mod catmull_segment_len =? 0)%Z || (i =? n - 1)%Z
            then curr :: spec t (i + 1) n None
            else spec t (i + 1) n (Some s)
        end
    end.

  Lemma loop_spec l : forall i n prev ls removed acc opt,
    fst (loop l i n prev ls removed acc opt) = acc ++ spec l i n ls.
  Proof.
    induction l as [|curr t IH]; intros i n prev ls removed acc opt.
    - cbn [simplify_loop_g spec fst]. rewrite app_nil_r. reflexivity.
    - cbn [simplify_loop_g spec]. destruct ls as [s|].
      + destruct (far (dist2 s curr) || ((i + 1) mod catmull_segment_len =? 0)%Z || (i =? n - 1)%Z)%bool.
        * rewrite IH, <- app_assoc. reflexivity.
        * apply IH.
      + rewrite IH, <- app_assoc. reflexivity.
  Qed.

  (* the two polylines are within delta of each other *)
  Definition HD (orig kept : list P2) : Prop :=
    (forall q, on_poly orig q -> exists q', on_poly kept q' /\ dist2 q q' <= delta) /\
    (forall q', on_poly kept q' -> exists q, on_poly orig q /\ dist2 q' q <= delta).

  Lemma HD_single c : HD [c] [c].
  Proof.
    split; intros q Hq; cbn [on_poly] in Hq; subst q; exists c; (split; [reflexivity|]);
      rewrite dist2_refl; exact Hdelta.
  Qed.

  (* an edge kept as it is *)
  Lemma HD_cons_same a b r k : HD (b :: r) (b :: k) -> HD (a :: b :: r) (a :: b :: k).
  Proof.
    intros [HA HB]. split.
    - intros q [(s & Hs & ->)|Hq].
      + exists (lerp2 a b s). split; [left; eauto|]. rewrite dist2_refl. exact Hdelta.
      + destruct (HA q Hq) as (q' & Hq' & Hd). exists q'. split; [right; exact Hq'|exact Hd].
    - intros q [(s & Hs & ->)|Hq].
      + exists (lerp2 a b s). split; [left; eauto|]. rewrite dist2_refl. exact Hdelta.
      + destruct (HB q Hq) as (q' & Hq' & Hd). exists q'. split; [right; exact Hq'|exact Hd].
  Qed.

  (* the group started at s is closed at b; x is the last vertex before b *)
  Lemma HD_close s x b r k : dist2 s x <= delta -> HD (b :: r) (b :: k) -> HD (x :: b :: r) (s :: b :: k).
  Proof.
    intros Hsx [HA HB]. split.
    - intros q [(l & Hl & ->)|Hq].
      + exists (lerp2 s b l). split; [left; eauto|].
        apply dist_lerp; [exact Hl|exact Hdelta|rewrite dist2_sym; exact Hsx|rewrite dist2_refl; exact Hdelta].
      + destruct (HA q Hq) as (q' & Hq' & Hd). exists q'. split; [right; exact Hq'|exact Hd].
    - intros q [(l & Hl & ->)|Hq].
      + exists (lerp2 x b l). split; [left; eauto|].
        apply dist_lerp; [exact Hl|exact Hdelta|exact Hsx|rewrite dist2_refl; exact Hdelta].
      + destruct (HB q Hq) as (q' & Hq' & Hd). exists q'. split; [right; exact Hq'|exact Hd].
  Qed.

  (* curr is dropped *)
  Lemma HD_drop s x curr t K :
    dist2 s x <= delta -> dist2 s curr <= delta ->
    HD (curr :: t) (s :: K) -> HD (x :: curr :: t) (s :: K).
  Proof.
    intros Hsx Hsc [HA HB]. split.
    - intros q [(l & Hl & ->)|Hq].
      + exists s. split; [apply on_poly_hd|].
        assert (Hxs : dist2 x s <= delta) by (rewrite dist2_sym; exact Hsx).
        assert (Hcs : dist2 curr s <= delta) by (rewrite dist2_sym; exact Hsc).
        pose proof (dist_lerp x curr s s l delta Hl Hdelta Hxs Hcs) as Hd.
        rewrite lerp2_same in Hd. exact Hd.
      + exact (HA q Hq).
    - intros q' Hq'. destruct (HB q' Hq') as (q & Hq & Hd). exists q. split; [right; exact Hq|exact Hd].
  Qed.

  Lemma spec_HD n l : forall i ls, (i + Z.of_nat (length l) = n)%Z ->
    match ls with
    | None => forall c, HD (c :: l) (c :: spec l i n None)
    | Some s => forall x, dist2 s x <= delta -> (l = [] -> x = s) -> HD (x :: l) (s :: spec l i n (Some s))
    end.
  Proof.
    induction l as [|curr t IH]; intros i ls Hn.
    - destruct ls as [s|].
      + intros x _ Hx. rewrite (Hx eq_refl). apply HD_single.
      + intros c. apply HD_single.
    - cbn [length] in Hn. destruct ls as [s|].
      + intros x Hsx _. cbn [spec].
        destruct (far (dist2 s curr) || ((i + 1) mod catmull_segment_len =? 0)%Z || (i =? n - 1)%Z)%bool eqn:Ec.
        * apply HD_close; [exact Hsx|]. exact (IH (i + 1)%Z None ltac:(lia) curr).
        * apply Bool.orb_false_elim in Ec. destruct Ec as [Ec Elast].
          apply Bool.orb_false_elim in Ec. destruct Ec as [Efar _].
          pose proof (Hfar _ Efar) as Hsc.
          apply HD_drop; [exact Hsx|exact Hsc|].
          apply (IH (i + 1)%Z (Some s) ltac:(lia) curr Hsc).
          intros ->. cbn [length] in Hn. lia.
      + intros c. cbn [spec]. apply HD_cons_same.
        apply (IH (i + 1)%Z (Some curr) ltac:(lia) curr); [rewrite dist2_refl; exact Hdelta|reflexivity].
  Qed.

  (* catmull_simplify over the reals *)
  Theorem simplify_hausdorff sub_path opt dummy :
    let kept := fst (loop sub_path 0%Z (Z.of_nat (length sub_path)) dummy None 0 [] opt) in
    HD sub_path kept /\ hd dummy kept = hd dummy sub_path.
  Proof.
    intros kept. subst kept. rewrite loop_spec. cbn [app].
    destruct sub_path as [|c0 t]; [split; [split; intros q []|reflexivity]|].
    cbn [spec hd]. split; [|reflexivity].
    apply (spec_HD (Z.of_nat (length (c0 :: t))) t (0 + 1)%Z (Some c0)).
    - cbn [length]. lia.
    - rewrite dist2_refl. exact Hdelta.
    - reflexivity.
  Qed.
End Simplify.

(* ---------- the source's test: dist_from_start > 6.0 ---------- *)

Definition simplify_dist_R : R := dec_R catmull_simplify_dist_dec.
Lemma simplify_dist_value : simplify_dist_R = 6.
Proof.
  unfold simplify_dist_R, dec_R, catmull_simplify_dist_dec. cbn.
  change (Pos.to_nat 1) with 1%nat. field.
Qed.

Definition far_R6 (x : R) : bool := if Rlt_dec simplify_dist_R x then true else false.

Lemma far_R6_spec x : far_R6 x = false -> x <= simplify_dist_R.
Proof. unfold far_R6. destruct (Rlt_dec simplify_dist_R x); [discriminate|lra]. Qed.

Definition catmull_simplify_R (sub_path : list P2) : list P2 :=
  fst (simplify_loop_g (P := P2) dist2 Rplus Rminus 0 far_R6 sub_path 0%Z (Z.of_nat (length sub_path)) (0, 0) None 0 [] 0).

Theorem catmull_simplify_hausdorff sub_path :
  HD simplify_dist_R sub_path (catmull_simplify_R sub_path).
Proof.
  assert (H6 : 0 <= simplify_dist_R) by (rewrite simplify_dist_value; lra).
  exact (proj1 (simplify_hausdorff far_R6 simplify_dist_R H6 far_R6_spec sub_path 0 (0, 0))).
Qed.

(* linear segments: the path IS the control polygon *)
Lemma HD_refl d l : 0 <= d -> HD d l l.
Proof.
  intros Hd. split; intros q Hq; exists q; (split; [exact Hq|]); rewrite dist2_refl; exact Hd.
Qed.

(* not vacuous: (1, 0) is 1 px from the start (0, 0): dropped; (10, 0) is the
   last vertex: kept *)
Example simplify_example : catmull_simplify_R [(0, 0); (1, 0); (10, 0)] = [(0, 0); (10, 0)].
Proof.
  unfold catmull_simplify_R. rewrite loop_spec. cbn [app length spec].
  assert (E : dist2 (0, 0) (1, 0) = 1).
  { unfold dist2, sqd2, sqd. cbn [fst snd]. replace ((0 - 1) ^ 2 + (0 - 0) ^ 2) with 1 by ring. apply sqrt_1. }
  rewrite E.
  assert (F : far_R6 1 = false).
  { unfold far_R6. destruct (Rlt_dec simplify_dist_R 1) as [H|_]; [rewrite simplify_dist_value in H; lra|reflexivity]. }
  rewrite F. change ((0 + 1 + 1) mod catmull_segment_len =? 0)%Z with false.
  change (0 + 1 =? Z.of_nat 3 - 1)%Z with false. cbn [orb].
  change (0 + 1 + 1 =? Z.of_nat 3 - 1)%Z with true. rewrite !Bool.orb_true_r. reflexivity.
Qed.

(* SectionsFacts: the section parsers of Model/Sections.v against the
   table-driven reading of Model/SectionsSpec.v. *)
From RM Require Import Model.Sections Model.SectionsSpec Proofs.FloatCmp Proofs.NumFacts.
From RM Require Import Gen.Generated.
From Coq Require Import ZifyBool.
Open Scope Z_scope.

(* ---------- cutting a record ---------- *)

Lemma split_once_first d s :
  split_first d s = match split_once d s with
                    | Some (a, b) => (a, Some b)
                    | None => (s, None)
                    end.
Proof.
  induction s as [|c r IH]; [reflexivity|].
  cbn [split_once split_first]. destruct (c =? d); [reflexivity|].
  rewrite IH. destruct (split_once d r) as [[a b]|]; reflexivity.
Qed.

(* KeyValue::parse cuts a record exactly as the property says: at the first colon *)
Lemma kv_pieces_record_of s : kv_pieces s = record_of s.
Proof.
  unfold kv_pieces, record_of. rewrite split_once_first.
  destruct (split_once colon s) as [[a b]|]; reflexivity.
Qed.

(* ---------- tables ---------- *)

Lemma find_row_index {S} (tbl : list (row S)) k :
  find_row tbl k = obnd (index_of (map r_key tbl) k) (nth_error tbl).
Proof.
  induction tbl as [|r t IH]; [reflexivity|].
  cbn [find_row map index_of]. destruct (str_eqb (lit (r_key r)) k); [reflexivity|].
  rewrite IH. destruct (index_of (map r_key t) k); reflexivity.
Qed.

Ltac conv_cases v :=
  unfold field, c_path, c_text, c_i32, c_i32_as_f64, c_f32, c_f64, c_flag, c_table, c_clamped, c_int_list;
  cbn [r_upd omap];
  change sample_bank_names with sample_bank_table;
  change game_mode_names with game_mode_table;
  change countdown_names with countdown_table;
  repeat match goal with
         | |- context [pn_i32 v] => destruct (pn_i32 v)
         | |- context [pn_f32 v] => destruct (pn_f32 v)
         | |- context [pn_f64 v] => destruct (pn_f64 v)
         | |- context [assoc_str ?t v] => destruct (assoc_str t v)
         end;
  cbn [omap]; try reflexivity.

(* T11a, table form: each key/value parser IS its table, with the code's way
   of cutting the record *)
Lemma parse_general_table st line : parse_general st line = spec_general_with kv_pieces st line.
Proof.
  unfold parse_general, spec_general_with, spec_kv, kv_parse.
  destruct (kv_pieces (trim_comment line)) as [k v].
  rewrite find_row_index. change (map r_key general_table) with general_keys.
  unfold general_key_from_str. destruct (index_of general_keys k) as [i|]; [|reflexivity].
  cbn [obnd].
  do 14 (destruct i as [|i]; [cbn [nth_error all_general_keys general_table]; conv_cases v|]).
  destruct i; reflexivity.
Qed.

Lemma parse_editor_table st line : parse_editor st line = spec_editor_with kv_pieces st line.
Proof.
  unfold parse_editor, spec_editor_with, spec_kv, kv_parse.
  destruct (kv_pieces (trim_comment line)) as [k v].
  rewrite find_row_index. change (map r_key editor_table) with editor_keys.
  unfold editor_key_from_str. destruct (index_of editor_keys k) as [i|]; [|reflexivity].
  cbn [obnd].
  do 5 (destruct i as [|i]; [cbn [nth_error all_editor_keys editor_table]; conv_cases v|]).
  destruct i; reflexivity.
Qed.

Lemma parse_metadata_table st line : parse_metadata st line = spec_metadata_with kv_pieces st line.
Proof.
  unfold parse_metadata, spec_metadata_with, spec_kv, kv_parse.
  destruct (kv_pieces line) as [k v].
  rewrite find_row_index. change (map r_key metadata_table) with metadata_keys.
  unfold metadata_key_from_str. destruct (index_of metadata_keys k) as [i|]; [|reflexivity].
  cbn [obnd].
  do 10 (destruct i as [|i]; [cbn [nth_error all_metadata_keys metadata_table]; conv_cases v|]).
  destruct i; reflexivity.
Qed.

Lemma parse_difficulty_table st line : parse_difficulty st line = spec_difficulty_with kv_pieces st line.
Proof.
  unfold parse_difficulty, spec_difficulty_with, spec_kv, kv_parse.
  destruct (kv_pieces (trim_comment line)) as [k v].
  rewrite find_row_index. change (map r_key difficulty_table) with difficulty_keys.
  unfold difficulty_key_from_str. destruct (index_of difficulty_keys k) as [i|]; [|reflexivity].
  cbn [obnd].
  do 6 (destruct i as [|i];
        [cbn [nth_error all_difficulty_keys difficulty_table]; conv_cases v;
         try (unfold set_od_and_following_ar; cbn; destruct (d_has_approach_rate st); reflexivity)|]).
  destruct i; reflexivity.
Qed.

(* ---------- events and colours ---------- *)

Lemma parse_events_spec st line : parse_events st line = spec_events st line.
Proof.
  unfold parse_events, spec_events.
  destruct (split_on comma (trim_comment line)) as [|ty [|start [|params more]]]; try reflexivity.
  cbn [next]. unfold event_type_from_str.
  change event_type_names with event_type_table.
  destruct (assoc_str event_type_table ty) as [i|]; [|reflexivity].
  cbn [obnd].
  destruct (Z.to_nat i) as [|[|[|[|[|[|[|n]]]]]]]; cbn [nth_error all_event_types event_actions].
  - reflexivity.
  - unfold act_video, has_image_extension. change video_extension_names with video_extensions.
    fold is_video_ext.
    destruct (last3_lower (clean_filename params)) as [ext|]; [|reflexivity].
    fold (is_video_ext ext). destruct (is_video_ext ext); reflexivity.
  - unfold act_break. destruct (pn_f64 start); [|reflexivity]. destruct (pn_f64 params); reflexivity.
  - reflexivity.
  - unfold act_sprite. destruct (ev_background_file st); [|reflexivity]. destruct more; reflexivity.
  - reflexivity.
  - reflexivity.
  - destruct n; reflexivity.
Qed.

Lemma color_from_str_spec v : color_from_str v = spec_color v.
Proof.
  unfold color_from_str, spec_color.
  destruct (map trim (split_on comma v)) as [|r [|g [|b [|a [|e rest]]]]]; cbn [next nth_error]; reflexivity.
Qed.

Lemma set_custom_color_upsert l name c :
  match set_custom_color l name c with
  | Some l' => l'
  | None => l ++ [mkCustomColor name c]
  end = upsert_color l name c.
Proof.
  induction l as [|x r IH]; [reflexivity|].
  cbn [set_custom_color upsert_color]. destruct (str_eqb (cc_name x) name); [reflexivity|].
  rewrite <- IH. destruct (set_custom_color r name c); reflexivity.
Qed.

Lemma parse_colors_table st line : parse_colors st line = spec_colors_with kv_pieces st line.
Proof.
  unfold parse_colors, spec_colors_with, kv_parse, colors_key_from_str.
  destruct (kv_pieces (trim_comment line)) as [k v].
  change (lit colors_combo_prefix) with (lit "Combo").
  rewrite <- color_from_str_spec.
  destruct (starts_with (lit "Combo") k); destruct (color_from_str v) as [c|]; try reflexivity.
  rewrite <- set_custom_color_upsert.
  destruct (set_custom_color (co_custom_colors st) k c); reflexivity.
Qed.

(* ---------- T11a: the parsers decode per the property's tables ---------- *)

Lemma spec_kv_split_ext {S} (sp1 sp2 : str -> str * str) (tbl : list (row S)) (strip : bool) st line :
  sp1 (if strip then trim_comment line else line) = sp2 (if strip then trim_comment line else line) ->
  spec_kv sp1 tbl strip st line = spec_kv sp2 tbl strip st line.
Proof. intros H. unfold spec_kv. now rewrite H. Qed.

Theorem parse_general_spec st line : parse_general st line = spec_general st line.
Proof. rewrite parse_general_table. apply spec_kv_split_ext. apply kv_pieces_record_of. Qed.
Theorem parse_editor_spec st line : parse_editor st line = spec_editor st line.
Proof. rewrite parse_editor_table. apply spec_kv_split_ext. apply kv_pieces_record_of. Qed.
Theorem parse_metadata_spec st line : parse_metadata st line = spec_metadata st line.
Proof. rewrite parse_metadata_table. apply spec_kv_split_ext. apply kv_pieces_record_of. Qed.
Theorem parse_difficulty_spec st line : parse_difficulty st line = spec_difficulty st line.
Proof. rewrite parse_difficulty_table. apply spec_kv_split_ext. apply kv_pieces_record_of. Qed.
Theorem parse_colors_spec st line : parse_colors st line = spec_colors st line.
Proof.
  rewrite parse_colors_table. unfold spec_colors, spec_colors_with.
  now rewrite kv_pieces_record_of.
Qed.

(* ---------- T11b: rejected / unknown records leave the state untouched ---------- *)

Lemma spec_kv_rejected {S} split (tbl : list (row S)) (strip : bool) st line :
  snd (spec_kv split tbl strip st line) = Rejected -> fst (spec_kv split tbl strip st line) = st.
Proof.
  unfold spec_kv. destruct (split _) as [k v]. destruct (find_row tbl k) as [r|]; [|reflexivity].
  destruct (r_upd r v st); [discriminate|reflexivity].
Qed.

Lemma spec_kv_unknown {S} split (tbl : list (row S)) (strip : bool) st line :
  find_row tbl (fst (split (if strip then trim_comment line else line))) = None ->
  spec_kv split tbl strip st line = (st, Ok).
Proof.
  unfold spec_kv. destruct (split _) as [k v]. cbn [fst]. now intros ->.
Qed.

Lemma parse_general_rejected st l : snd (parse_general st l) = Rejected -> fst (parse_general st l) = st.
Proof. rewrite parse_general_table. apply spec_kv_rejected. Qed.
Lemma parse_editor_rejected st l : snd (parse_editor st l) = Rejected -> fst (parse_editor st l) = st.
Proof. rewrite parse_editor_table. apply spec_kv_rejected. Qed.
Lemma parse_metadata_rejected st l : snd (parse_metadata st l) = Rejected -> fst (parse_metadata st l) = st.
Proof. rewrite parse_metadata_table. apply spec_kv_rejected. Qed.
Lemma parse_difficulty_rejected st l : snd (parse_difficulty st l) = Rejected -> fst (parse_difficulty st l) = st.
Proof. rewrite parse_difficulty_table. apply spec_kv_rejected. Qed.

Lemma parse_events_rejected st l : snd (parse_events st l) = Rejected -> fst (parse_events st l) = st.
Proof.
  rewrite parse_events_spec. unfold spec_events.
  destruct (split_on comma (trim_comment l)) as [|ty [|start [|params more]]]; try reflexivity.
  destruct (assoc_str event_type_names ty) as [i|]; [|reflexivity].
  destruct (Z.to_nat i) as [|[|[|[|[|[|[|n]]]]]]]; cbn [nth_error event_actions];
    try (destruct n; reflexivity);
    unfold act_background, act_video, act_break, act_sprite, act_none; cbv zeta;
    repeat match goal with
           | |- context [match ?x with _ => _ end] => destruct x
           end;
    cbn [fst snd]; intros; try discriminate; reflexivity.
Qed.

Lemma parse_colors_rejected st l : snd (parse_colors st l) = Rejected -> fst (parse_colors st l) = st.
Proof.
  rewrite parse_colors_table. unfold spec_colors_with. destruct (kv_pieces _) as [k v].
  destruct (spec_color v); [|reflexivity]. destruct (starts_with _ k); discriminate.
Qed.

(* a line whose key is not one of the section's keys is ignored: Ok, state unchanged *)
Definition general_line_key (l : str) : option GeneralKey :=
  omap fst (kv_parse general_key_from_str (trim_comment l)).
Definition editor_line_key (l : str) : option EditorKey :=
  omap fst (kv_parse editor_key_from_str (trim_comment l)).
Definition metadata_line_key (l : str) : option MetadataKey :=
  omap fst (kv_parse metadata_key_from_str l).
Definition difficulty_line_key (l : str) : option DifficultyKey :=
  omap fst (kv_parse difficulty_key_from_str (trim_comment l)).

Lemma parse_general_unknown st l : general_line_key l = None -> parse_general st l = (st, Ok).
Proof. unfold general_line_key, parse_general. destruct (kv_parse _ _) as [[? ?]|]; [discriminate|reflexivity]. Qed.
Lemma parse_editor_unknown st l : editor_line_key l = None -> parse_editor st l = (st, Ok).
Proof. unfold editor_line_key, parse_editor. destruct (kv_parse _ _) as [[? ?]|]; [discriminate|reflexivity]. Qed.
Lemma parse_metadata_unknown st l : metadata_line_key l = None -> parse_metadata st l = (st, Ok).
Proof. unfold metadata_line_key, parse_metadata. destruct (kv_parse _ _) as [[? ?]|]; [discriminate|reflexivity]. Qed.
Lemma parse_difficulty_unknown st l : difficulty_line_key l = None -> parse_difficulty st l = (st, Ok).
Proof. unfold difficulty_line_key, parse_difficulty. destruct (kv_parse _ _) as [[? ?]|]; [discriminate|reflexivity]. Qed.

(* the key of a line is recognised exactly when the trimmed text before the
   first colon is one of the documented names *)
Lemma kv_pieces_key s : fst (kv_pieces s) = fst (record_of s).
Proof. now rewrite kv_pieces_record_of. Qed.

(* ---------- T11b: the last valid occurrence wins ---------- *)

Lemma run_lines_app {S} (parse : S -> str -> S * res) st a b :
  run_lines parse st (a ++ b) = run_lines parse (run_lines parse st a) b.
Proof. unfold run_lines. apply fold_left_app. Qed.

Section LastWins.
  Variables (S K V : Type).
  Variable parse : S -> str -> S * res.
  Variable key_of : str -> option K.
  Variable obs : K -> S -> V.
  Hypothesis K_dec : forall a b : K, {a = b} + {a <> b}.
  (* a record of another key, or a rejected record, does not touch the field of k *)
  Hypothesis frame : forall st l k,
      key_of l <> Some k \/ snd (parse st l) = Rejected -> obs k (fst (parse st l)) = obs k st.
  (* an accepted record of key k determines the field of k by itself *)
  Hypothesis overwrite : forall st st' l k,
      key_of l = Some k -> snd (parse st l) = Ok -> obs k (fst (parse st l)) = obs k (fst (parse st' l)).
  (* acceptance does not depend on the state *)
  Hypothesis res_indep : forall st st' l, snd (parse st l) = snd (parse st' l).

  Lemma untouched_by : forall lines st k,
      (forall l, In l lines -> key_of l <> Some k \/ forall st', snd (parse st' l) = Rejected) ->
      obs k (run_lines parse st lines) = obs k st.
  Proof.
    induction lines as [|l ls IH]; intros st k H; [reflexivity|].
    change (run_lines parse st (l :: ls)) with (run_lines parse (fst (parse st l)) ls).
    rewrite IH by (intros l' Hl'; apply H; now right).
    apply frame. destruct (H l (or_introl eq_refl)) as [A|A]; [now left|right; apply A].
  Qed.

  Theorem last_valid_wins : forall st st' pre l post k,
      key_of l = Some k -> snd (parse st' l) = Ok ->
      (forall l', In l' post -> key_of l' = Some k -> forall st'', snd (parse st'' l') = Rejected) ->
      obs k (run_lines parse st (pre ++ l :: post)) = obs k (fst (parse st' l)).
  Proof.
    intros st st' pre l post k Hk Hok Hpost.
    rewrite run_lines_app.
    change (run_lines parse (run_lines parse st pre) (l :: post))
      with (run_lines parse (fst (parse (run_lines parse st pre) l)) post).
    rewrite untouched_by.
    - apply overwrite; [exact Hk|]. now rewrite (res_indep _ st').
    - intros l' Hin. destruct (key_of l') as [k'|] eqn:E; [|left; discriminate].
      destruct (K_dec k' k) as [->|Hne]; [right; now apply Hpost|left; congruence].
  Qed.
End LastWins.

(* what a key owns *)
Inductive fieldval :=
| VStr (s : str) | VInt (n : Z) | VBool (b : bool) | VF32 (x : F32) | VF64 (x : F64) | VInts (l : list Z).

Definition general_obs (k : GeneralKey) (s : GeneralState) : fieldval :=
  match k with
  | GAudioFilename => VStr (g_audio_file s)
  | GAudioLeadIn => VF64 (g_audio_lead_in s)
  | GPreviewTime => VInt (g_preview_time s)
  | GSampleSet => VInt (g_default_sample_bank s)
  | GSampleVolume => VInt (g_default_sample_volume s)
  | GStackLeniency => VF32 (g_stack_leniency s)
  | GMode => VInt (g_mode s)
  | GLetterboxInBreaks => VBool (g_letterbox_in_breaks s)
  | GSpecialStyle => VBool (g_special_style s)
  | GWidescreenStoryboard => VBool (g_widescreen_storyboard s)
  | GEpilepsyWarning => VBool (g_epilepsy_warning s)
  | GSamplesMatchPlaybackRate => VBool (g_samples_match_playback_rate s)
  | GCountdown => VInt (g_countdown s)
  | GCountdownOffset => VInt (g_countdown_offset s)
  end.

Definition editor_obs (k : EditorKey) (s : EditorState) : fieldval :=
  match k with
  | EBookmarks => VInts (ed_bookmarks s)
  | EDistanceSpacing => VF64 (ed_distance_spacing s)
  | EBeatDivisor => VInt (ed_beat_divisor s)
  | EGridSize => VInt (ed_grid_size s)
  | ETimelineZoom => VF64 (ed_timeline_zoom s)
  end.

Definition metadata_obs (k : MetadataKey) (s : MetadataState) : fieldval :=
  match k with
  | MTitle => VStr (m_title s)
  | MTitleUnicode => VStr (m_title_unicode s)
  | MArtist => VStr (m_artist s)
  | MArtistUnicode => VStr (m_artist_unicode s)
  | MCreator => VStr (m_creator s)
  | MVersion => VStr (m_version s)
  | MSource => VStr (m_source s)
  | MTags => VStr (m_tags s)
  | MBeatmapID => VInt (m_beatmap_id s)
  | MBeatmapSetID => VInt (m_beatmap_set_id s)
  end.

(* ApproachRate owns the "set itself" flag; the approach-rate VALUE is shared
   with OverallDifficulty and is characterised separately (ar_* below) *)
Definition difficulty_obs (k : DifficultyKey) (s : DifficultyState) : fieldval :=
  match k with
  | DHPDrainRate => VF32 (d_hp_drain_rate s)
  | DCircleSize => VF32 (d_circle_size s)
  | DOverallDifficulty => VF32 (d_overall_difficulty s)
  | DApproachRate => VBool (d_has_approach_rate s)
  | DSliderMultiplier => VF64 (d_slider_multiplier s)
  | DSliderTickRate => VF64 (d_slider_tick_rate s)
  end.

Ltac kv_cases value :=
  repeat match goal with
         | |- context [pn_i32 value] => destruct (pn_i32 value)
         | |- context [pn_f32 value] => destruct (pn_f32 value)
         | |- context [pn_f64 value] => destruct (pn_f64 value)
         | |- context [assoc_str ?t value] => destruct (assoc_str t value)
         | |- context [if d_has_approach_rate ?s then _ else _] => destruct (d_has_approach_rate s)
         | |- context [negb (d_has_approach_rate ?s)] => destruct (d_has_approach_rate s)
         end.

Ltac frame_tac :=
  let H := fresh "H" in
  intros H; cbn [fst snd] in *;
  match goal with
  | |- ?obs ?k _ = ?obs ?k _ =>
      destruct k; cbn; try reflexivity;
      (destruct H as [H|H]; [now elim H | discriminate])
  end.

Lemma general_frame st l k :
  general_line_key l <> Some k \/ snd (parse_general st l) = Rejected ->
  general_obs k (fst (parse_general st l)) = general_obs k st.
Proof.
  unfold general_line_key, parse_general.
  destruct (kv_parse general_key_from_str (trim_comment l)) as [[key value]|]; [|reflexivity].
  cbn [omap fst]. destruct key; kv_cases value; frame_tac.
Qed.

Lemma general_overwrite st st' l k :
  general_line_key l = Some k -> snd (parse_general st l) = Ok ->
  general_obs k (fst (parse_general st l)) = general_obs k (fst (parse_general st' l)).
Proof.
  unfold general_line_key, parse_general.
  destruct (kv_parse general_key_from_str (trim_comment l)) as [[key value]|]; [|discriminate].
  cbn [omap fst]. intros E; inversion E; subst k. destruct key; kv_cases value; cbn; intros; (reflexivity || discriminate).
Qed.

Lemma general_res_indep st st' l : snd (parse_general st l) = snd (parse_general st' l).
Proof.
  unfold parse_general.
  destruct (kv_parse general_key_from_str (trim_comment l)) as [[key value]|]; [|reflexivity].
  destruct key; kv_cases value; reflexivity.
Qed.

Lemma editor_frame st l k :
  editor_line_key l <> Some k \/ snd (parse_editor st l) = Rejected ->
  editor_obs k (fst (parse_editor st l)) = editor_obs k st.
Proof.
  unfold editor_line_key, parse_editor.
  destruct (kv_parse editor_key_from_str (trim_comment l)) as [[key value]|]; [|reflexivity].
  cbn [omap fst]. destruct key; kv_cases value; frame_tac.
Qed.
Lemma editor_overwrite st st' l k :
  editor_line_key l = Some k -> snd (parse_editor st l) = Ok ->
  editor_obs k (fst (parse_editor st l)) = editor_obs k (fst (parse_editor st' l)).
Proof.
  unfold editor_line_key, parse_editor.
  destruct (kv_parse editor_key_from_str (trim_comment l)) as [[key value]|]; [|discriminate].
  cbn [omap fst]. intros E; inversion E; subst k. destruct key; kv_cases value; cbn; intros; (reflexivity || discriminate).
Qed.
Lemma editor_res_indep st st' l : snd (parse_editor st l) = snd (parse_editor st' l).
Proof.
  unfold parse_editor.
  destruct (kv_parse editor_key_from_str (trim_comment l)) as [[key value]|]; [|reflexivity].
  destruct key; kv_cases value; reflexivity.
Qed.

Lemma metadata_frame st l k :
  metadata_line_key l <> Some k \/ snd (parse_metadata st l) = Rejected ->
  metadata_obs k (fst (parse_metadata st l)) = metadata_obs k st.
Proof.
  unfold metadata_line_key, parse_metadata.
  destruct (kv_parse metadata_key_from_str l) as [[key value]|]; [|reflexivity].
  cbn [omap fst]. destruct key; kv_cases value; frame_tac.
Qed.
Lemma metadata_overwrite st st' l k :
  metadata_line_key l = Some k -> snd (parse_metadata st l) = Ok ->
  metadata_obs k (fst (parse_metadata st l)) = metadata_obs k (fst (parse_metadata st' l)).
Proof.
  unfold metadata_line_key, parse_metadata.
  destruct (kv_parse metadata_key_from_str l) as [[key value]|]; [|discriminate].
  cbn [omap fst]. intros E; inversion E; subst k. destruct key; kv_cases value; cbn; intros; (reflexivity || discriminate).
Qed.
Lemma metadata_res_indep st st' l : snd (parse_metadata st l) = snd (parse_metadata st' l).
Proof.
  unfold parse_metadata.
  destruct (kv_parse metadata_key_from_str l) as [[key value]|]; [|reflexivity].
  destruct key; kv_cases value; reflexivity.
Qed.

Lemma difficulty_frame st l k :
  difficulty_line_key l <> Some k \/ snd (parse_difficulty st l) = Rejected ->
  difficulty_obs k (fst (parse_difficulty st l)) = difficulty_obs k st.
Proof.
  unfold difficulty_line_key, parse_difficulty.
  destruct (kv_parse difficulty_key_from_str (trim_comment l)) as [[key value]|]; [|reflexivity].
  cbn [omap fst]. destruct key; kv_cases value; cbn [set_d_overall_difficulty d_has_approach_rate negb]; kv_cases value; frame_tac.
Qed.
Lemma difficulty_overwrite st st' l k :
  difficulty_line_key l = Some k -> snd (parse_difficulty st l) = Ok ->
  difficulty_obs k (fst (parse_difficulty st l)) = difficulty_obs k (fst (parse_difficulty st' l)).
Proof.
  unfold difficulty_line_key, parse_difficulty.
  destruct (kv_parse difficulty_key_from_str (trim_comment l)) as [[key value]|]; [|discriminate].
  cbn [omap fst]. intros E; inversion E; subst k.
  destruct key; kv_cases value; cbn [set_d_overall_difficulty d_has_approach_rate negb]; kv_cases value;
    cbn; intros; (reflexivity || discriminate).
Qed.
Lemma difficulty_res_indep st st' l : snd (parse_difficulty st l) = snd (parse_difficulty st' l).
Proof.
  unfold parse_difficulty.
  destruct (kv_parse difficulty_key_from_str (trim_comment l)) as [[key value]|]; [|reflexivity].
  destruct key; kv_cases value; reflexivity.
Qed.

Lemma general_key_dec (a b : GeneralKey) : {a = b} + {a <> b}. Proof. decide equality. Defined.
Lemma editor_key_dec (a b : EditorKey) : {a = b} + {a <> b}. Proof. decide equality. Defined.
Lemma metadata_key_dec (a b : MetadataKey) : {a = b} + {a <> b}. Proof. decide equality. Defined.
Lemma difficulty_key_dec (a b : DifficultyKey) : {a = b} + {a <> b}. Proof. decide equality. Defined.

(* ---------- clamps ---------- *)

Lemma sm_bounds_ordered : D.le sm_lo sm_hi = true. Proof. vm_compute. reflexivity. Qed.
Lemma tr_bounds_ordered : D.le tr_lo tr_hi = true. Proof. vm_compute. reflexivity. Qed.

Definition in_range (lo hi x : F64) : Prop := D.le lo x = true /\ D.le x hi = true.

Lemma clamp_in_range lo hi x : D.is_nan x = false -> D.le lo hi = true -> in_range lo hi (D.clamp x lo hi).
Proof. intros Hx Hl. exact (fclamp_t_range 53 1024 x lo hi Hx Hl). Qed.

(* an accepted SliderMultiplier / SliderTickRate record leaves the field inside
   its interval, and keeps the written value when that lies inside *)
Theorem slider_multiplier_line st l :
  difficulty_line_key l = Some DSliderMultiplier -> snd (parse_difficulty st l) = Ok ->
  in_range sm_lo sm_hi (d_slider_multiplier (fst (parse_difficulty st l))) /\
  exists x, pn_f64 (snd (kv_pieces (trim_comment l))) = Some x /\
            d_slider_multiplier (fst (parse_difficulty st l)) = D.clamp x sm_lo sm_hi /\
            (in_range sm_lo sm_hi x -> d_slider_multiplier (fst (parse_difficulty st l)) = x).
Proof.
  unfold difficulty_line_key, parse_difficulty, kv_parse.
  destruct (kv_pieces (trim_comment l)) as [k v]. cbn [snd].
  destruct (difficulty_key_from_str k) as [key|]; [|discriminate].
  cbn [omap fst]. intros [= ->]. destruct (pn_f64 v) as [x|] eqn:E; [|discriminate].
  intros _. cbn [fst set_d_slider_multiplier d_slider_multiplier].
  change slider_mult_lo with sm_lo. change slider_mult_hi with sm_hi.
  split.
  - apply clamp_in_range; [exact (pn_f64_not_nan _ _ E)|exact sm_bounds_ordered].
  - exists x. repeat split. intros [H1 H2]. exact (fclamp_t_id 53 1024 x sm_lo sm_hi H1 H2).
Qed.

Theorem slider_tick_rate_line st l :
  difficulty_line_key l = Some DSliderTickRate -> snd (parse_difficulty st l) = Ok ->
  in_range tr_lo tr_hi (d_slider_tick_rate (fst (parse_difficulty st l))) /\
  exists x, pn_f64 (snd (kv_pieces (trim_comment l))) = Some x /\
            d_slider_tick_rate (fst (parse_difficulty st l)) = D.clamp x tr_lo tr_hi /\
            (in_range tr_lo tr_hi x -> d_slider_tick_rate (fst (parse_difficulty st l)) = x).
Proof.
  unfold difficulty_line_key, parse_difficulty, kv_parse.
  destruct (kv_pieces (trim_comment l)) as [k v]. cbn [snd].
  destruct (difficulty_key_from_str k) as [key|]; [|discriminate].
  cbn [omap fst]. intros [= ->]. destruct (pn_f64 v) as [x|] eqn:E; [|discriminate].
  intros _. cbn [fst set_d_slider_tick_rate d_slider_tick_rate].
  change tick_rate_lo with tr_lo. change tick_rate_hi with tr_hi.
  split.
  - apply clamp_in_range; [exact (pn_f64_not_nan _ _ E)|exact tr_bounds_ordered].
  - exists x. repeat split. intros [H1 H2]. exact (fclamp_t_id 53 1024 x tr_lo tr_hi H1 H2).
Qed.

(* invariant: whatever lines are decoded, both fields stay inside their intervals *)
Definition difficulty_inv (s : DifficultyState) : Prop :=
  in_range sm_lo sm_hi (d_slider_multiplier s) /\ in_range tr_lo tr_hi (d_slider_tick_rate s).

Lemma difficulty_default_inv : difficulty_inv difficulty_default.
Proof.
  assert (H : D.le sm_lo (d_slider_multiplier difficulty_default) && D.le (d_slider_multiplier difficulty_default) sm_hi
              && D.le tr_lo (d_slider_tick_rate difficulty_default) && D.le (d_slider_tick_rate difficulty_default) tr_hi = true)
    by (vm_compute; reflexivity).
  unfold difficulty_inv, in_range.
  destruct (D.le sm_lo _), (D.le _ sm_hi), (D.le tr_lo _), (D.le _ tr_hi); cbn in H; try discriminate; auto.
Qed.

Lemma parse_difficulty_inv st l : difficulty_inv st -> difficulty_inv (fst (parse_difficulty st l)).
Proof.
  intros [Hs Ht]. unfold parse_difficulty.
  destruct (kv_parse difficulty_key_from_str (trim_comment l)) as [[key value]|]; [|split; assumption].
  destruct key;
    try (destruct (pn_f32 value); cbn [fst]; try destruct (negb _); split; assumption).
  - destruct (pn_f64 value) as [x|] eqn:E; cbn [fst]; [|split; assumption].
    split; [|exact Ht]. cbn [d_slider_multiplier set_d_slider_multiplier].
    apply clamp_in_range; [exact (pn_f64_not_nan _ _ E)|exact sm_bounds_ordered].
  - destruct (pn_f64 value) as [x|] eqn:E; cbn [fst]; [|split; assumption].
    split; [exact Hs|]. cbn [d_slider_tick_rate set_d_slider_tick_rate].
    apply clamp_in_range; [exact (pn_f64_not_nan _ _ E)|exact tr_bounds_ordered].
Qed.

Theorem difficulty_run_inv lines st :
  difficulty_inv st -> difficulty_inv (run_lines parse_difficulty st lines).
Proof.
  revert st. induction lines as [|l ls IH]; intros st H; [exact H|].
  apply (IH (fst (parse_difficulty st l))). now apply parse_difficulty_inv.
Qed.

(* ---------- approach rate follows overall difficulty until set itself ---------- *)

(* the valid value a line carries for a key *)
Definition od_value (l : str) : option F32 :=
  match kv_parse difficulty_key_from_str (trim_comment l) with
  | Some (DOverallDifficulty, v) => pn_f32 v
  | _ => None
  end.
Definition ar_value (l : str) : option F32 :=
  match kv_parse difficulty_key_from_str (trim_comment l) with
  | Some (DApproachRate, v) => pn_f32 v
  | _ => None
  end.

(* value of the last line for which [f] is defined *)
Definition last_some {A} (f : str -> option A) (lines : list str) (init : option A) : option A :=
  fold_left (fun acc l => match f l with Some x => Some x | None => acc end) lines init.

Lemma last_some_init {A} (f : str -> option A) lines init :
  last_some f lines init = match last_some f lines None with Some x => Some x | None => init end.
Proof.
  revert init. induction lines as [|l ls IH]; intros init; [reflexivity|].
  unfold last_some in *. cbn [fold_left]. rewrite IH. rewrite (IH (match f l with Some x => Some x | None => None end)).
  destruct (fold_left _ ls None); [reflexivity|]. destruct (f l); reflexivity.
Qed.

(* one line *)
Lemma ar_step st l :
  let st' := fst (parse_difficulty st l) in
  d_has_approach_rate st' = (d_has_approach_rate st || match ar_value l with Some _ => true | None => false end) /\
  d_approach_rate st' =
    match ar_value l with
    | Some x => x
    | None => if d_has_approach_rate st then d_approach_rate st
              else odflt (d_approach_rate st) (od_value l)
    end.
Proof.
  unfold parse_difficulty, ar_value, od_value.
  destruct (kv_parse difficulty_key_from_str (trim_comment l)) as [[key value]|];
    [|cbn; rewrite orb_false_r; destruct (d_has_approach_rate st); auto].
  destruct key;
    repeat match goal with
           | |- context [pn_f32 value] => destruct (pn_f32 value)
           | |- context [pn_f64 value] => destruct (pn_f64 value)
           end;
    cbn; destruct (d_has_approach_rate st) eqn:Eh; cbn; rewrite ?Eh; cbn; auto.
Qed.

(* until ApproachRate is set itself, the approach rate is the last valid
   OverallDifficulty (or the initial value) *)
Theorem ar_follows_od lines : forall st,
  d_has_approach_rate st = false ->
  (forall l, In l lines -> ar_value l = None) ->
  d_has_approach_rate (run_lines parse_difficulty st lines) = false /\
  d_approach_rate (run_lines parse_difficulty st lines) =
    odflt (d_approach_rate st) (last_some od_value lines None).
Proof.
  induction lines as [|l ls IH]; intros st Hh Hn; [split; [exact Hh|reflexivity]|].
  change (run_lines parse_difficulty st (l :: ls))
    with (run_lines parse_difficulty (fst (parse_difficulty st l)) ls).
  destruct (ar_step st l) as [H1 H2]. rewrite (Hn l (or_introl eq_refl)), Hh in H1, H2. cbn in H1.
  destruct (IH _ H1 (fun l' Hl' => Hn l' (or_intror Hl'))) as [IH1 IH2].
  split; [exact IH1|]. rewrite IH2, H2.
  unfold last_some at 2. cbn [fold_left]. fold (last_some od_value ls (match od_value l with Some x => Some x | None => None end)).
  rewrite (last_some_init od_value ls (match od_value l with Some x => Some x | None => None end)).
  destruct (last_some od_value ls None); [reflexivity|].
  destruct (od_value l); reflexivity.
Qed.

(* once set itself, only ApproachRate records change it: last valid one wins *)
Theorem ar_own lines : forall st,
  d_has_approach_rate st = true ->
  d_has_approach_rate (run_lines parse_difficulty st lines) = true /\
  d_approach_rate (run_lines parse_difficulty st lines) =
    odflt (d_approach_rate st) (last_some ar_value lines None).
Proof.
  induction lines as [|l ls IH]; intros st Hh; [split; [exact Hh|reflexivity]|].
  change (run_lines parse_difficulty st (l :: ls))
    with (run_lines parse_difficulty (fst (parse_difficulty st l)) ls).
  destruct (ar_step st l) as [H1 H2]. rewrite Hh in H1, H2. cbn in H1.
  destruct (IH _ H1) as [IH1 IH2].
  split; [exact IH1|]. rewrite IH2, H2.
  unfold last_some at 2. cbn [fold_left]. fold (last_some ar_value ls (match ar_value l with Some x => Some x | None => None end)).
  rewrite (last_some_init ar_value ls (match ar_value l with Some x => Some x | None => None end)).
  destruct (last_some ar_value ls None); [reflexivity|].
  destruct (ar_value l); reflexivity.
Qed.

(* a valid ApproachRate record sets the flag and the value *)
Lemma ar_sets st l x :
  ar_value l = Some x ->
  d_has_approach_rate (fst (parse_difficulty st l)) = true /\ d_approach_rate (fst (parse_difficulty st l)) = x.
Proof.
  intros H. destruct (ar_step st l) as [H1 H2]. rewrite H in H1, H2. split; [|exact H2].
  cbn in H1. rewrite H1. apply orb_true_r.
Qed.

(* ---------- breaks ---------- *)

(* the end time of a break record: the written end, unless it lies before the
   start ([if end < start { start } else { end }]) *)
Definition break_ok (b : BreakPeriod) : Prop := D.le (bp_start b) (bp_end b) = true.
(* the same order condition in the form the code tests it (weaker only in that
   it does not exclude NaN, which [pn_f64] never yields) *)
Definition break_ordered (b : BreakPeriod) : Prop := D.lt (bp_end b) (bp_start b) = false.

Lemma break_ok_ordered b : break_ok b -> break_ordered b.
Proof. unfold break_ok, break_ordered. apply (fle_nlt 53 1024). Qed.

Lemma break_end_ge_start (s e : F64) :
  D.is_nan s = false -> D.is_nan e = false -> D.le s (if D.lt e s then s else e) = true.
Proof.
  intros Hs He. destruct (D.lt e s) eqn:E.
  - now apply (fle_refl 53 1024).
  - now apply (fnlt_fle 53 1024).
Qed.
Lemma break_end_ge_end (s e : F64) :
  D.is_nan s = false -> D.is_nan e = false -> D.le e (if D.lt e s then s else e) = true.
Proof.
  intros Hs He. destruct (D.lt e s) eqn:E.
  - now apply (flt_fle 53 1024).
  - now apply (fle_refl 53 1024).
Qed.

Lemma parse_events_breaks st l :
  Forall break_ok (ev_breaks st) -> Forall break_ok (ev_breaks (fst (parse_events st l))).
Proof.
  intros H. rewrite parse_events_spec. unfold spec_events.
  destruct (split_on comma (trim_comment l)) as [|ty [|start [|params more]]]; try exact H.
  destruct (assoc_str event_type_names ty) as [i|]; [|exact H].
  destruct (Z.to_nat i) as [|[|[|[|[|[|[|n]]]]]]]; cbn [nth_error event_actions]; try exact H.
  - unfold act_video. cbv zeta. destruct (has_image_extension _); exact H.
  - unfold act_break. destruct (pn_f64 start) as [s|] eqn:Es; [|exact H].
    destruct (pn_f64 params) as [e|] eqn:Ee; [|exact H].
    cbn [fst ev_breaks set_ev_breaks]. apply Forall_app. split; [exact H|].
    constructor; [|constructor]. unfold break_ok. cbn [bp_start bp_end].
    apply break_end_ge_start; [exact (pn_f64_not_nan _ _ Es)|exact (pn_f64_not_nan _ _ Ee)].
  - unfold act_sprite. destruct (ev_background_file st); [|exact H]. destruct more; exact H.
  - destruct n; exact H.
Qed.

(* a break never ends before it starts: invariant of every run *)
Theorem events_run_breaks lines st :
  Forall break_ok (ev_breaks st) -> Forall break_ok (ev_breaks (run_lines parse_events st lines)).
Proof.
  revert st. induction lines as [|l ls IH]; intros st H; [exact H|].
  apply (IH (fst (parse_events st l))). now apply parse_events_breaks.
Qed.

Theorem events_run_breaks_ordered lines :
  Forall break_ordered (ev_breaks (run_lines parse_events events_default lines)).
Proof.
  eapply Forall_impl; [exact break_ok_ordered|].
  exact (events_run_breaks lines events_default (Forall_nil _)).
Qed.

(* ... and the end is the written end time, or the start when that is later *)
Lemma break_line st start params more s e :
  pn_f64 start = Some s -> pn_f64 params = Some e ->
  let e' := if D.lt e s then s else e in
  fst (act_break start params more st) = set_ev_breaks st (ev_breaks st ++ [mkBreak s e']) /\
  D.le s e' = true /\ D.le e e' = true /\ D.lt e' s = false /\ (e' = s \/ e' = e).
Proof.
  intros Es Ee e'. unfold act_break. rewrite Es, Ee. split; [reflexivity|].
  pose proof (pn_f64_not_nan _ _ Es) as Hs. pose proof (pn_f64_not_nan _ _ Ee) as He.
  pose proof (break_end_ge_start s e Hs He) as G.
  split; [exact G|]. split; [now apply break_end_ge_end|].
  split; [exact (fle_nlt 53 1024 _ _ G)|].
  unfold e'. destruct (D.lt e s); auto.
Qed.

(* a record whose end is not before its start keeps the written end time as it
   is -- the very same value, so also the sign of a zero: nothing is computed *)
Lemma break_line_kept st start params more s e :
  pn_f64 start = Some s -> pn_f64 params = Some e -> D.le s e = true ->
  fst (act_break start params more st) = set_ev_breaks st (ev_breaks st ++ [mkBreak s e]).
Proof.
  intros Es Ee L. unfold act_break. rewrite Es, Ee.
  pose proof (fle_nlt 53 1024 _ _ L) as N. change (flt 53 1024 e s) with (D.lt e s) in N.
  rewrite N. reflexivity.
Qed.

(* a record written backwards ends where it starts *)
Lemma break_line_reversed st start params more s e :
  pn_f64 start = Some s -> pn_f64 params = Some e -> D.lt e s = true ->
  fst (act_break start params more st) = set_ev_breaks st (ev_breaks st ++ [mkBreak s s]).
Proof. intros Es Ee L. unfold act_break. rewrite Es, Ee, L. reflexivity. Qed.

(* ---------- background precedence ---------- *)

(* Background always fills; Video fills when the name has an image extension;
   Sprite fills only an empty background; nothing else touches it *)
Definition bg_after (st : EventsState) (line : str) : str :=
  match split_on comma (trim_comment line) with
  | ty :: _ :: params :: more =>
      match assoc_str event_type_names ty with
      | Some 0 => clean_filename params
      | Some 1 => if has_image_extension (clean_filename params) then clean_filename params
                  else ev_background_file st
      | Some 4 => match ev_background_file st, more with
                  | [], f :: _ => clean_filename f
                  | _, _ => ev_background_file st
                  end
      | _ => ev_background_file st
      end
  | _ => ev_background_file st
  end.

Theorem background_precedence st line :
  ev_background_file (fst (parse_events st line)) = bg_after st line.
Proof.
  rewrite parse_events_spec. unfold spec_events, bg_after.
  destruct (split_on comma (trim_comment line)) as [|ty [|start [|params more]]]; try reflexivity.
  destruct (assoc_str event_type_names ty) as [i|] eqn:E; [|reflexivity].
  assert (Hi : In i [0;0;1;1;2;2;3;3;4;4;5;5;6;6]).
  { clear -E. unfold event_type_names in E. cbn [assoc_str] in E.
    repeat match type of E with
           | (if ?c then _ else _) = _ => destruct c; [inversion E; subst; cbn; tauto|]
           end. discriminate. }
  cbn in Hi. 
  repeat (destruct Hi as [<-|Hi];
    [cbn [Z.to_nat];
     repeat match goal with
            | |- context [Pos.to_nat ?p] =>
                let n := eval vm_compute in (Pos.to_nat p) in change (Pos.to_nat p) with n
            end;
     cbn [nth_error event_actions]; try reflexivity|]); try contradiction.
  all: try (unfold act_video; cbv zeta; destruct (has_image_extension _); reflexivity).
  all: try (unfold act_break; destruct (pn_f64 start); [|reflexivity]; destruct (pn_f64 params); reflexivity).
  all: try (unfold act_sprite; destruct (ev_background_file st) eqn:Eb;
            [destruct more; cbn [fst ev_background_file set_ev_background_file]; rewrite ?Eb; reflexivity
            |cbn [fst]; rewrite Eb; reflexivity]).
Qed.

(* ---------- text after a second colon is kept (D1 repaired) ---------- *)

Lemma multi_colon_values_kept :
  dump_metadata (fst (parse_metadata metadata_default (lit "Title:Re:Zero")))
    = dump_metadata (set_m_title metadata_default (lit "Re:Zero")) /\
  dump_metadata (fst (parse_metadata metadata_default (lit "Tags:a:b:c")))
    = dump_metadata (set_m_tags metadata_default (lit "a:b:c")) /\
  snd (parse_colors colors_default (lit "Combo1:1,2,3:4")) = Rejected /\
  snd (parse_difficulty difficulty_default (lit "CircleSize:4:5")) = Rejected.
Proof. vm_compute. repeat split. Qed.

(* ---------- bookmarks: numbers of the format like any other (D10 repaired) ---------- *)

Definition within_parse_limits (n : Z) : Prop := - max_parse_value <= n <= max_parse_value.

Lemma In_filter_map {A B : Type} (f : A -> option B) (l : list A) (y : B) :
  In y (filter_map f l) <-> exists x, In x l /\ f x = Some y.
Proof.
  induction l as [|a r IH]; cbn [filter_map In].
  - split; [intros []|intros (x & [] & _)].
  - destruct (f a) as [b|] eqn:E.
    + cbn [In]. rewrite IH. split.
      * intros [<-|(x & Hx & Hf)]; [exists a; auto|exists x; auto].
      * intros (x & [<-|Hx] & Hf); [left; congruence|right; exists x; auto].
    + rewrite IH. split.
      * intros (x & Hx & Hf). exists x; auto.
      * intros (x & [<-|Hx] & Hf); [congruence|exists x; auto].
Qed.

(* which numbers a Bookmarks value yields: one per comma-separated element whose
   TRIMMED text is an integer literal within +-(2^31-1) -- padded elements count,
   everything else (junk, empty elements, +-2^31 and beyond) is skipped *)
Lemma parse_bookmarks_elements v n :
  In n (parse_bookmarks v) <->
  exists piece, In piece (split_on comma v) /\ int_literal true (trim piece) n /\ within_parse_limits n.
Proof.
  unfold parse_bookmarks. rewrite In_filter_map. split.
  - intros (x & Hx & Hf). exists x. split; [exact Hx|]. exact (proj1 (pn_i32_spec x n) Hf).
  - intros (x & Hx & Hf). exists x. split; [exact Hx|]. exact (proj2 (pn_i32_spec x n) Hf).
Qed.

Lemma parse_bookmarks_within v : Forall within_parse_limits (parse_bookmarks v).
Proof.
  apply Forall_forall. intros n Hn. apply parse_bookmarks_elements in Hn.
  destruct Hn as (_ & _ & _ & H). exact H.
Qed.

Lemma parse_editor_bookmarks st l :
  Forall within_parse_limits (ed_bookmarks st) ->
  Forall within_parse_limits (ed_bookmarks (fst (parse_editor st l))).
Proof.
  intros H. unfold parse_editor.
  destruct (kv_parse editor_key_from_str (trim_comment l)) as [[key v]|]; [|exact H].
  destruct key; cbn [fst]; try (destruct (pn_f64 v); exact H); try (destruct (pn_i32 v); exact H).
  cbn [ed_bookmarks set_ed_bookmarks]. apply parse_bookmarks_within.
Qed.

(* every stored bookmark lies within +-(2^31-1): invariant of every run *)
Theorem editor_run_bookmarks lines st :
  Forall within_parse_limits (ed_bookmarks st) ->
  Forall within_parse_limits (ed_bookmarks (run_lines parse_editor st lines)).
Proof.
  revert st. induction lines as [|l ls IH]; intros st H; [exact H|].
  apply (IH (fst (parse_editor st l))). now apply parse_editor_bookmarks.
Qed.

(* the formerly deviating inputs: padded elements are read, -2^31 is skipped *)
Lemma bookmarks_repaired :
  ed_bookmarks (fst (parse_editor editor_default (lit "Bookmarks: 1, 2 ,-2147483648,2147483647,x,,3"))) = [1; 2; 2147483647; 3] /\
  ed_bookmarks (fst (parse_editor editor_default (lit "Bookmarks: 1, 5,7 ,9"))) = [1; 5; 7; 9] /\
  ed_bookmarks (fst (parse_editor editor_default (lit "Bookmarks: -2147483648"))) = [] /\
  ed_bookmarks (fst (parse_editor editor_default (lit "Bookmarks: -2147483647,2147483648"))) = [-2147483647].
Proof. vm_compute. repeat split. Qed.

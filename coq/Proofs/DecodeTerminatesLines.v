(* DecodeTerminatesLines: the hypothesis of DecodeTerminates read off the INPUT.

   A slider has at most as many control points as its path field
   (`B|1:2|3:4|L|5:6`) has `|`-separated pieces: the first piece (a type letter)
   becomes the control point at the origin, every further piece is one point or
   a type letter, the duplicate rule only drops points, and the point that
   closes a segment is not stored twice.  So a decidable condition on the
   lines of the file -- the sixth comma-separated field of every line has at
   most n pieces -- bounds the number of control points of every slider the
   parsers collect, for ANY list of lines, and with n = 16 the decode returns a
   value (DecodeTerminates). *)
From RM Require Import Model.Decoders Model.CurveDist Model.HitObjectSpec Model.Reader Model.Encoding.
From RM Require Import Proofs.FramingFacts Proofs.HitObjectLineFacts Proofs.C14Clauses Proofs.DecodersFacts
     Proofs.DecodersTotal Proofs.EncMapImage Proofs.DecodeTerminates Proofs.ReaderFacts
     Proofs.TransparencyFacts Proofs.C01Bytes.
From RM Require Model.Curve Proofs.ThetaLoop.
From Coq Require Import ZifyBool Lia.
Open Scope Z_scope.

(* ================================================================== *)
(* 1. a path string gives at most as many control points as pieces      *)
(* ================================================================== *)

Lemma mark_last_length ty : forall seg, length (mark_last ty seg) = length seg.
Proof.
  induction seg as [|p r IH]; [reflexivity|]. destruct r as [|q r']; [reflexivity|].
  change (mark_last ty (p :: q :: r')) with (p :: mark_last ty (q :: r')). cbn [length] in *. rewrite IH. reflexivity.
Qed.

Lemma split_dups_length ty : forall rest i prev seg,
  (length (split_dups ty i prev seg rest) <= length seg + length rest)%nat.
Proof.
  induction rest as [|v rest' IH]; intros i prev seg; cbn [split_dups length]; [lia|].
  destruct (pos_eqb (cp_pos v) (cp_pos prev) && negb (pt_eqb ty pt_catmull && (1 <? i)%nat) && negb (is_nil rest'))%bool.
  - rewrite app_length, mark_last_length. pose proof (IH (S i) v []) as H. cbn [length] in H. lia.
  - pose proof (IH (S i) v (seg ++ [v])) as H. rewrite app_length in H. cbn [length] in H. lia.
Qed.

Lemma read_all_length : forall pts offset own, read_all pts offset = Some own -> length own = length pts.
Proof.
  induction pts as [|p r IH]; intros offset own; cbn [read_all].
  - intros [= <-]. reflexivity.
  - destruct (read_point p offset) as [v|]; [|discriminate].
    destruct (read_all r offset) as [vs|] eqn:E; [|discriminate].
    intros [= <-]. cbn [length]. rewrite (IH offset vs E). reflexivity.
Qed.

Lemma seg_spec_length first toks closing offset a :
  seg_spec first toks closing offset = Some a -> (length a <= length toks)%nat.
Proof.
  unfold seg_spec. destruct toks as [|letter pts]; [discriminate|].
  destruct (read_all pts offset) as [own|] eqn:Er; [|discriminate].
  destruct (match closing with Some c => _ | None => _ end) as [cl|]; [|discriminate].
  pose proof (read_all_length pts offset own Er) as Hl.
  destruct ((if first then [pcp_default] else []) ++ own) as [|v0 rest] eqn:Eo; [discriminate|].
  intros [= <-].
  assert (Hr : (length (v0 :: rest) <= 1 + length pts)%nat).
  { rewrite <- Eo, app_length, Hl. destruct first; cbn [length]; lia. }
  cbn [length] in Hr |- *.
  match goal with |- (length (split_dups ?ty ?i ?p ?s ?r) <= _)%nat =>
    pose proof (split_dups_length ty r i p s) as H end.
  cbn [length] in H. lia.
Qed.

Lemma path_segs_length : forall rest first cur offset,
  (length (fst (path_segs first cur rest offset)) <= length cur + length rest)%nat.
Proof.
  induction rest as [|t rest' IH]; intros first cur offset; cbn [path_segs].
  - destruct (seg_spec first cur None offset) as [a|] eqn:E; cbn [fst length]; [|lia].
    pose proof (seg_spec_length _ _ _ _ _ E). lia.
  - destruct t as [|c t']; [cbn [fst length]; lia|].
    destruct (is_ascii_alpha c).
    + destruct (seg_spec first cur (fst (next rest')) offset) as [a|] eqn:E; [|cbn [fst length]; lia].
      match goal with |- context [path_segs false ?x rest' offset] =>
        pose proof (IH false x offset) as Hb; destruct (path_segs false x rest' offset) as [b ok] end.
      cbn [fst length] in Hb |- *. rewrite app_length. pose proof (seg_spec_length _ _ _ _ _ E) as Ha.
      exact (Nat.add_le_mono _ _ _ _ Ha Hb).
    + match goal with |- context [path_segs first ?x rest' offset] => pose proof (IH first x offset) as H end.
      rewrite app_length in H. cbn [length] in H |- *. lia.
Qed.

Theorem path_spec_length s offset :
  (length (fst (path_spec s offset)) <= length (split_on 124%Z s))%nat.
Proof.
  unfold path_spec. destruct (split_on 124 s) as [|t0 rest]; [cbn; lia|].
  pose proof (path_segs_length rest true [t0] offset) as H. cbn [length] in H |- *. lia.
Qed.

(* ================================================================== *)
(* 2. one line                                                          *)
(* ================================================================== *)

(* the number of `|`-separated pieces of the sixth comma-separated field *)
Definition line_path_pieces (line : str) : nat :=
  length (split_on 124 (odflt [] (nth_error (skipn 5 (split_on 44 (trim_comment line))) 0))).

Definition line_fits (n : nat) (line : str) : bool := (line_path_pieces line <=? n)%nat.
Definition lines_fit (n : nat) (lines : list str) : bool := forallb (line_fits n) lines.

Lemma common_spec_rest line f : common_spec line = Some f ->
  f_rest f = skipn 5 (split_on 44 (trim_comment line)).
Proof.
  unfold common_spec.
  destruct (nth_error _ 0); [|discriminate]. destruct (nth_error _ 1); [|discriminate].
  destruct (nth_error _ 2); [|discriminate]. destruct (nth_error _ 3); [|discriminate].
  destruct (nth_error _ 4); [|discriminate].
  destruct (pn_f32_lim _ _); [|discriminate]. destruct (pn_f32_lim _ _); [|discriminate].
  destruct (pn_f64 _); [|discriminate].
  destruct (parse_i32_raw _); [|discriminate]. destruct (parse_i32_raw _); [|discriminate].
  intros [= <-]. reflexivity.
Qed.

Notation cps_le n := (fun h : HitObject => obj_cps_le n h = true).

Lemma parse_objects_cps_le n st line st' r :
  line_fits n line = true -> Forall (cps_le n) (ho_objects st) ->
  parse_hit_objects st line = Done (st', r) -> Forall (cps_le n) (ho_objects st').
Proof.
  intros Hq Hst H. destruct r.
  - destruct (accepted_line st line st' H) as (f & k & obj & Hc & _ & Ho & _ & _ & _ & _ & Hk & _).
    rewrite Ho. apply Forall_app. split; [exact Hst|]. constructor; [|constructor].
    unfold obj_cps_le. destruct (h_kind obj) as [c|s|sp|hd]; try reflexivity.
    cbn [kind_ok] in Hk. destruct Hk as (_ & _ & _ & _ & _ & _ & _ & _ & Hcps & _).
    rewrite Hcps, (common_spec_rest line f Hc). apply Nat.leb_le.
    unfold line_fits, line_path_pieces in Hq. apply Nat.leb_le in Hq.
    eapply Nat.le_trans; [apply path_spec_length|exact Hq].
  - rewrite (parse_rejected_objects st line st' H). exact Hst.
Qed.

(* ================================================================== *)
(* 3. the parser states, over the lines of the file                     *)
(* ================================================================== *)

Lemma drop_blank_In l : forall ls, In l (drop_blank ls) -> In l ls.
Proof.
  induction ls as [|x r IH]; cbn [drop_blank]; [auto|].
  destruct (is_blank x); [intros H; right; exact (IH H)|auto].
Qed.

Lemma body_of_In l lines : In l (body_of lines) -> In l lines.
Proof.
  unfold body_of. intros H. apply drop_blank_In.
  destruct (drop_blank lines) as [|first more]; [exact H|].
  destruct (version_of_line first); [right; exact H|exact H].
Qed.

Lemma route_In skip sec l : forall ls cur, In (sec, l) (route skip cur ls) -> In l ls.
Proof.
  induction ls as [|x r IH]; intros cur; cbn [route]; [auto|].
  destruct cur as [c|].
  - destruct (skip x); [intros H; right; exact (IH _ H)|].
    destruct (section_of_line x); [intros H; right; exact (IH _ H)|].
    intros [H|H]; [left; congruence|right; exact (IH _ H)].
  - intros H; right; exact (IH _ H).
Qed.

Section On.
  Context {S : Type} (create : Z -> S) (ps : parsers S).
  Context (Q : str -> Prop) (I : S -> Prop)
          (I_create : forall v, I (create v))
          (I_step : forall sec st l, Q l -> I st -> I (fst (parser_of ps sec st l))).

  Lemma feed_invariant_on : forall routed st,
    (forall sec l, In (sec, l) routed -> Q l) -> I st -> I (feed ps st routed).
  Proof.
    induction routed as [|[sec l] r IH]; intros st HQ H; [exact H|].
    rewrite feed_cons. apply IH.
    - intros sec' l' Hin. apply (HQ sec' l'). right. exact Hin.
    - apply I_step; [apply (HQ sec l); left; reflexivity|exact H].
  Qed.

  Lemma state_after_invariant_on lines : Forall Q lines -> I (state_after create ps lines).
  Proof.
    intros HQ. unfold state_after. apply feed_invariant_on; [|apply I_create].
    intros sec l Hin. rewrite Forall_forall in HQ. apply HQ.
    apply body_of_In. exact (route_In _ _ _ _ _ Hin).
  Qed.
End On.

(* a property P of the collected hit objects that every line satisfying Q keeps *)
Section Gen.
  Variable Q : str -> Prop.
  Variable P : HitObject -> Prop.
  Hypothesis line_keeps : forall st line st' r, Q line -> Forall P (ho_objects st) ->
    parse_hit_objects st line = Done (st', r) -> Forall P (ho_objects st').

  Definition ho_P_inv (os : outcome HOD) : Prop :=
    match os with Done s => Forall P (hod_objects s) | _ => True end.
  Definition bm_P_inv (os : outcome BMD) : Prop :=
    match os with Done s => Forall P (hod_objects (bmd_ho s)) | _ => True end.

  Lemma ho_P_step sec os l : Q l -> ho_P_inv os -> ho_P_inv (fst (parser_of ho_parsers sec os l)).
  Proof.
    intros Hq Hos. destruct os as [s|w|]; [|destruct sec; exact I|destruct sec; exact I].
    cbn [ho_P_inv] in Hos. destruct s as [tp df ev last curve verts objs]. cbn [hod_objects] in Hos.
    destruct sec; cbn [parser_of ho_parsers p_general p_editor p_metadata p_difficulty p_events p_timing_points
                       p_colors p_hit_objects p_variables p_catch_the_beat p_mania];
      unfold liftp, liftt, noop; cbn [obind fst].
    - unfold hod_parse_general. destruct (tpd_parse_general _ l) as [g r]. cbn [obind fst ho_P_inv hod_with_tp hod_objects]. exact Hos.
    - exact Hos.
    - exact Hos.
    - unfold hod_parse_difficulty. destruct (parse_difficulty _ l) as [d r]. cbn [obind fst ho_P_inv hod_objects]. exact Hos.
    - unfold hod_parse_events. destruct (parse_events _ l) as [e r]. cbn [obind fst ho_P_inv hod_objects]. exact Hos.
    - unfold hod_parse_timing_points. destruct (tpd_parse_timing_points _ l) as [[t r]|w|]; cbn [obind fst ho_P_inv]; try exact I.
      cbn [hod_with_tp hod_objects]. exact Hos.
    - exact Hos.
    - unfold hod_parse_hit_objects. destruct (parse_hit_objects _ l) as [[c r]|w|] eqn:E; cbn [obind fst ho_P_inv]; try exact I.
      cbn [hod_with_core hod_objects]. eapply line_keeps; [exact Hq| |exact E]. exact Hos.
    - exact Hos.
    - exact Hos.
    - exact Hos.
  Qed.

  Lemma bm_P_step sec os l : Q l -> bm_P_inv os -> bm_P_inv (fst (parser_of bm_parsers sec os l)).
  Proof.
    intros Hq Hos. destruct os as [b|w|]; [|destruct sec; exact I|destruct sec; exact I].
    cbn [bm_P_inv] in Hos. destruct b as [ver ed md co ho]. destruct ho as [tp df ev last curve verts objs].
    cbn [bmd_ho hod_objects] in Hos.
    destruct sec; cbn [parser_of bm_parsers p_general p_editor p_metadata p_difficulty p_events p_timing_points
                       p_colors p_hit_objects p_variables p_catch_the_beat p_mania];
      unfold liftp, liftt, on_ho, noop; cbn [obind bmd_ho bmd_version bmd_editor bmd_metadata bmd_colors fst].
    - unfold hod_parse_general. destruct (tpd_parse_general _ l) as [g r]. cbn [obind fst bm_P_inv bmd_ho hod_with_tp hod_objects]. exact Hos.
    - unfold bmd_parse_editor. destruct (parse_editor _ l) as [e r]. cbn [fst bm_P_inv bmd_ho hod_objects]. exact Hos.
    - unfold bmd_parse_metadata. destruct (parse_metadata _ l) as [m r]. cbn [fst bm_P_inv bmd_ho hod_objects]. exact Hos.
    - unfold hod_parse_difficulty. destruct (parse_difficulty _ l) as [d r]. cbn [obind fst bm_P_inv bmd_ho hod_objects]. exact Hos.
    - unfold hod_parse_events. destruct (parse_events _ l) as [e r]. cbn [obind fst bm_P_inv bmd_ho hod_objects]. exact Hos.
    - unfold hod_parse_timing_points. destruct (tpd_parse_timing_points _ l) as [[t r]|w|]; cbn [obind fst bm_P_inv]; try exact I.
      cbn [bmd_ho hod_with_tp hod_objects]. exact Hos.
    - unfold bmd_parse_colors. destruct (parse_colors _ l) as [c r]. cbn [fst bm_P_inv bmd_ho hod_objects]. exact Hos.
    - unfold hod_parse_hit_objects. destruct (parse_hit_objects _ l) as [[c r]|w|] eqn:E; cbn [obind fst bm_P_inv]; try exact I.
      cbn [bmd_ho hod_with_core hod_objects]. eapply line_keeps; [exact Hq| |exact E]. exact Hos.
    - exact Hos.
    - exact Hos.
    - exact Hos.
  Qed.

  Theorem parsed_P lines : Forall Q lines -> Forall P (ho_parsed lines) /\ Forall P (bm_parsed lines).
  Proof.
    intros H. split.
    - pose proof (state_after_invariant_on (fun _ => Done hod_create) ho_parsers
                    Q ho_P_inv (fun _ => Forall_nil _) ho_P_step lines H) as Hi.
      unfold ho_parsed. destruct (state_after _ ho_parsers lines) as [s|w|]; [exact Hi|constructor|constructor].
    - pose proof (state_after_invariant_on (fun v => Done (bmd_create v)) bm_parsers
                    Q bm_P_inv (fun _ => Forall_nil _) bm_P_step lines H) as Hi.
      unfold bm_parsed. destruct (state_after _ bm_parsers lines) as [s|w|]; [exact Hi|constructor|constructor].
  Qed.
End Gen.

Section Count.
  Variable n : nat.

  Lemma lines_fit_Forall lines : lines_fit n lines = true -> Forall (fun l => line_fits n l = true) lines.
  Proof. unfold lines_fit. intros H. apply Forall_forall. apply forallb_forall. exact H. Qed.

  (* every slider the parsers collect from such lines has at most n control points *)
  Theorem parsed_cps_le lines : lines_fit n lines = true ->
    Forall (cps_le n) (ho_parsed lines) /\ Forall (cps_le n) (bm_parsed lines).
  Proof.
    intros H. apply lines_fit_Forall in H.
    exact (parsed_P (fun l => line_fits n l = true) (cps_le n) (parse_objects_cps_le n) lines H).
  Qed.
End Count.

(* ================================================================== *)
(* 4. the decode returns a value                                        *)
(* ================================================================== *)

Section Decode.
  Variable lm : Curve.Libm.
  Hypothesis Hlm : ThetaLoop.atan2_in_range lm.

  Theorem decode_terminates_lines lines : lines_fit 16 lines = true ->
    (exists hv, decode_hit_objects (dist_of_curve lm) lines = Done hv) /\
    (exists bv, decode_beatmap (dist_of_curve lm) lines = Done bv).
  Proof.
    intros H. destruct (parsed_cps_le 16 lines H) as [Hh Hb]. split.
    - exact (decode_hit_objects_16 lm Hlm lines Hh).
    - exact (decode_beatmap_16 lm Hlm lines Hb).
  Qed.

  (* every reader state (bytes, buffered part, schedule) that delivers such lines *)
  Theorem decode_reader_terminates_lines r lines :
    read_all_lines r = IoDone lines -> lines_fit 16 lines = true ->
    (exists v, io_bind (read_all_lines r) (fun ls => io_of_outcome (decode_hit_objects (dist_of_curve lm) ls)) = IoDone v) /\
    (exists v, io_bind (read_all_lines r) (fun ls => io_of_outcome (decode_beatmap (dist_of_curve lm) ls)) = IoDone v).
  Proof.
    intros E H. destruct (decode_terminates_lines lines H) as [(hv & Hh) (bv & Hb)].
    rewrite E. cbn [io_bind]. rewrite Hh, Hb. split; eexists; reflexivity.
  Qed.

  (* from_bytes *)
  Theorem decode_bytes_terminates_lines (b : bytes) :
    exists lines, read_all_lines (mk_reader b []) = IoDone lines /\
    (lines_fit 16 lines = true ->
     (exists v, decode_bytes_hit_objects (dist_of_curve lm) b = IoDone v) /\
     (exists v, decode_bytes_beatmap (dist_of_curve lm) b = IoDone v)).
  Proof.
    destruct (clean_stream_never_fails b [] faultless_nil) as (lines & E). exists lines.
    split; [exact E|]. intros H. exact (decode_reader_terminates_lines _ lines E H).
  Qed.
End Decode.

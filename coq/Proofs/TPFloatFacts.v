(* TPFloatFacts: the comparison / clamp / division facts about f64 that the
   timing-point proofs (C12) need.  Everything is by case analysis on
   Flocq's [Bcompare]; no real-number reasoning except where noted. *)
From RM Require Import Model.Floats.
From Coq Require Import Reals.
From Flocq Require Import Core BinarySingleNaN.
Open Scope Z_scope.

Section Cmp.
  Variables prec emax : Z.
  Notation fl := (binary_float prec emax).

  Lemma Bcompare_nan_l (x : fl) : Bcompare B754_nan x = None.
  Proof. reflexivity. Qed.

  Lemma Bcompare_None (x y : fl) :
    Bcompare x y = None -> is_nan x = true \/ is_nan y = true.
  Proof.
    unfold Bcompare.
    destruct x as [sx|sx| |sx mx ex Hx], y as [sy|sy| |sy my ey Hy]; cbn; auto;
      try discriminate; try (destruct sx; discriminate); try (destruct sy; discriminate);
      try (destruct sx, sy; discriminate).
  Qed.

  Lemma Bcompare_Some (x y : fl) :
    is_nan x = false -> is_nan y = false -> exists c, Bcompare x y = Some c.
  Proof.
    intros Hx Hy. destruct (Bcompare x y) as [c|] eqn:E; [eauto|].
    apply Bcompare_None in E. destruct E; congruence.
  Qed.

  Lemma Bcompare_refl (x : fl) : is_nan x = false -> Bcompare x x = Some Eq.
  Proof.
    unfold Bcompare.
    destruct x as [sx|sx| |sx mx ex Hx]; cbn; try discriminate; intros _;
      try (destruct sx; reflexivity).
    destruct sx; rewrite Z.compare_refl, Pos.compare_cont_refl; reflexivity.
  Qed.

  (* a <= b, b < a, ... in terms of Bcompare *)
  Lemma Bleb_cmp (x y : fl) :
    Bleb x y = match Bcompare x y with Some Lt | Some Eq => true | _ => false end.
  Proof. reflexivity. Qed.
  Lemma Bltb_cmp (x y : fl) :
    Bltb x y = match Bcompare x y with Some Lt => true | _ => false end.
  Proof. reflexivity. Qed.

  Lemma Bleb_refl (x : fl) : is_nan x = false -> Bleb x x = true.
  Proof. intros H. rewrite Bleb_cmp, Bcompare_refl by exact H. reflexivity. Qed.

  (* not (x < y)  ==>  y <= x, for ordered operands *)
  Lemma Bltb_false_Bleb (x y : fl) :
    is_nan x = false -> is_nan y = false -> Bltb x y = false -> Bleb y x = true.
  Proof.
    intros Hx Hy. rewrite Bltb_cmp, Bleb_cmp, (Bcompare_swap _ _ x y).
    destruct (Bcompare_Some x y Hx Hy) as (c & ->). destruct c; cbn; congruence.
  Qed.

  Lemma Bleb_true_Bltb (x y : fl) : Bleb x y = true -> Bltb y x = false.
  Proof.
    rewrite Bltb_cmp, Bleb_cmp, (Bcompare_swap _ _ x y).
    destruct (Bcompare x y) as [[| |]|]; cbn; congruence.
  Qed.

  (* for ordered operands  not (y <= x)  is  x < y *)
  Lemma negb_Bleb_Bltb (x y : fl) :
    is_nan x = false -> is_nan y = false -> negb (Bleb y x) = Bltb x y.
  Proof.
    intros Hx Hy. rewrite Bltb_cmp, Bleb_cmp, (Bcompare_swap _ _ x y).
    destruct (Bcompare_Some x y Hx Hy) as (c & ->). destruct c; reflexivity.
  Qed.

  Lemma Bleb_not_nan (x y : fl) : Bleb x y = true -> is_nan x = false /\ is_nan y = false.
  Proof.
    rewrite Bleb_cmp. destruct x, y; cbn; try discriminate; auto.
  Qed.

  (* f.clamp(lo, hi) with lo <= hi: a non-NaN input lands inside [lo, hi] *)
  Lemma fclamp_t_range (x lo hi : fl) :
    Bleb lo hi = true -> is_nan x = false ->
    Bleb lo (fclamp_t prec emax x lo hi) = true /\ Bleb (fclamp_t prec emax x lo hi) hi = true.
  Proof.
    intros Hlh Hx. destruct (Bleb_not_nan _ _ Hlh) as (Hlo & Hhi).
    unfold fclamp_t, flt, fgt.
    destruct (Bltb x lo) eqn:E1.
    - rewrite (Bleb_true_Bltb _ _ Hlh). split; [apply Bleb_refl; exact Hlo | exact Hlh].
    - pose proof (Bltb_false_Bleb _ _ Hx Hlo E1) as Hlx.
      destruct (Bltb hi x) eqn:E2.
      + split; [exact Hlh | apply Bleb_refl; exact Hhi].
      + split; [exact Hlx | apply Bltb_false_Bleb; assumption].
  Qed.

  (* ... and a NaN input stays NaN *)
  Lemma fclamp_t_nan (lo hi : fl) : fclamp_t prec emax B754_nan lo hi = B754_nan.
  Proof. unfold fclamp_t, flt, fgt. destruct lo, hi; reflexivity. Qed.

  (* a value already inside [lo, hi] is returned unchanged *)
  Lemma fclamp_t_id (x lo hi : fl) :
    Bltb x lo = false -> Bltb hi x = false -> fclamp_t prec emax x lo hi = x.
  Proof. intros H1 H2. unfold fclamp_t, flt, fgt. rewrite H1, H2. reflexivity. Qed.

  Lemma is_nan_true (x : fl) : is_nan x = true -> x = B754_nan.
  Proof. destruct x; cbn; congruence. Qed.

  Lemma Bopp_not_nan (x : fl) : is_nan (Bopp x) = is_nan x.
  Proof. apply is_nan_Bopp. Qed.
End Cmp.

Section Div.
  Variables prec emax : Z.
  Context (Hp : Prec_gt_0 prec) (He : Prec_lt_emax prec emax).
  Notation fl := (binary_float prec emax).

  (* c / y is a NaN only if y is, for a finite non-zero constant c *)
  Lemma Bdiv_const_not_nan (c y : fl) :
    is_finite_strict c = true -> is_nan y = false ->
    is_nan (@Bdiv prec emax Hp He mode_NE c y) = false.
  Proof.
    intros Hc Hy.
    destruct c as [sc|sc| |sc mc ec Hcb]; try discriminate Hc.
    destruct y as [sy|sy| |sy my ey Hyb]; try discriminate Hy; try reflexivity.
    assert (Hnz : B2R (B754_finite sy my ey Hyb) <> 0%R).
    { cbn. apply F2R_neq_0. cbn. destruct sy; discriminate. }
    pose proof (Bdiv_correct prec emax Hp He mode_NE (B754_finite sc mc ec Hcb) _ Hnz) as H.
    destruct (Rlt_bool _ _) in H.
    - destruct H as (_ & Hf & _). cbn [is_finite] in Hf.
      destruct (Bdiv _ _ _); cbn in *; congruence.
    - rewrite <- is_nan_SF_B2SF, H. apply is_nan_binary_overflow.
  Qed.

  (* t - t is a zero, or NaN for infinities and NaN: |t - t| >= eps is false *)
  Lemma Bminus_self_small (t eps : fl) :
    Bleb eps (B754_zero false) = false ->
    Bleb eps (Babs (@Bminus prec emax Hp He mode_NE t t)) = false.
  Proof.
    intros Heps.
    destruct t as [s|s| |s m e H].
    - destruct s; exact Heps.
    - destruct s; cbn; rewrite Bleb_cmp; unfold Bcompare; destruct eps; reflexivity.
    - cbn. rewrite Bleb_cmp; unfold Bcompare; destruct eps; reflexivity.
    - pose proof (Bminus_correct prec emax Hp He mode_NE (B754_finite s m e H) (B754_finite s m e H)
                    eq_refl eq_refl) as HH.
      rewrite Rminus_eq_0, round_0, Rabs_R0, Rlt_bool_true in HH
        by (try apply bpow_gt_0; auto with typeclass_instances).
      destruct HH as (HR & HF & _).
      destruct (Bminus mode_NE (B754_finite s m e H) (B754_finite s m e H))
        as [s'|s'| |s' m' e' H']; try discriminate HF.
      + destruct s'; exact Heps.
      + exfalso. cbn in HR. apply eq_0_F2R in HR. cbn in HR. destruct s'; discriminate.
  Qed.
End Div.

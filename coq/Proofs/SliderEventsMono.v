(* SliderEventsMono: binary64 monotonicity of the tick times (T20c). *)
From RM Require Import Model.SliderEvents Proofs.SliderEventsFacts Proofs.SliderEventsExact.
From Flocq Require Import Core BinarySingleNaN.
From Coq Require Import Reals Lra Sorting.Sorted.
Open Scope R_scope.

Local Notation fin x := (is_finite x = true).
Local Notation fexp64 := (SpecFloat.fexp 53 1024).
Local Notation RN := (round radix2 fexp64 (round_mode mode_NE)).

Local Instance Hp64i : Prec_gt_0 53 := Hp64.
Local Instance He64i : Prec_lt_emax 53 1024 := He64.

Lemma RN_le x y : x <= y -> RN x <= RN y.
Proof. intros H. apply round_le; [apply (fexp_correct 53 1024); exact Hp64 | apply valid_rnd_N | exact H]. Qed.

Lemma overflow_not_finite (x : F64) s : B2SF x = binary_overflow 53 1024 mode_NE s -> is_finite x = false.
Proof. intros H. rewrite <- is_finite_SF_B2SF, H. reflexivity. Qed.

Lemma add_R (a b : F64) : fin a -> fin b -> fin (D.add a b) ->
  B2R (D.add a b) = RN (B2R a + B2R b).
Proof.
  intros Fa Fb Fab. pose proof (Bplus_correct 53 1024 Hp64 He64 mode_NE a b Fa Fb) as H.
  destruct (Rlt_bool _ _); [apply H|]. destruct H as [H _].
  apply overflow_not_finite in H. unfold D.add, fadd in Fab. congruence.
Qed.
Lemma sub_R (a b : F64) : fin a -> fin b -> fin (D.sub a b) ->
  B2R (D.sub a b) = RN (B2R a - B2R b).
Proof.
  intros Fa Fb Fab. pose proof (Bminus_correct 53 1024 Hp64 He64 mode_NE a b Fa Fb) as H.
  destruct (Rlt_bool _ _); [apply H|]. destruct H as [H _].
  apply overflow_not_finite in H. unfold D.sub, fsub in Fab. congruence.
Qed.
Lemma mul_R (a b : F64) : fin (D.mul a b) -> B2R (D.mul a b) = RN (B2R a * B2R b).
Proof.
  intros Fab. pose proof (Bmult_correct 53 1024 Hp64 He64 mode_NE a b) as H.
  destruct (Rlt_bool _ _); [apply H|].
  apply overflow_not_finite in H. unfold D.mul, fmul in Fab. congruence.
Qed.
Lemma div_R (a b : F64) : B2R b <> 0 -> fin (D.div a b) -> B2R (D.div a b) = RN (B2R a / B2R b).
Proof.
  intros Hb Fab. pose proof (Bdiv_correct 53 1024 Hp64 He64 mode_NE a b Hb) as H.
  destruct (Rlt_bool _ _); [apply H|].
  apply overflow_not_finite in H. unfold D.div, fdiv in Fab. congruence.
Qed.

(* a finite result has finite operands *)
Lemma fin_add_inv (a b : F64) : fin (D.add a b) -> fin a /\ fin b.
Proof. destruct a as [sa|sa| |sa ma ea Ha], b as [sb|sb| |sb mb eb Hb]; try (destruct sa, sb); cbn; intros H; try discriminate; split; reflexivity. Qed.
Lemma fin_sub_inv (a b : F64) : fin (D.sub a b) -> fin a /\ fin b.
Proof. destruct a as [sa|sa| |sa ma ea Ha], b as [sb|sb| |sb mb eb Hb]; try (destruct sa, sb); cbn; intros H; try discriminate; split; reflexivity. Qed.
Lemma fin_mul_inv (a b : F64) : fin (D.mul a b) -> fin a /\ fin b.
Proof. destruct a as [sa|sa| |sa ma ea Ha], b as [sb|sb| |sb mb eb Hb]; try (destruct sa, sb); cbn; intros H; try discriminate; split; reflexivity. Qed.
Lemma fin_div_inv (a b : F64) : fin b -> B2R b <> 0 -> fin (D.div a b) -> fin a.
Proof. destruct a as [sa|sa| |sa ma ea Ha], b as [sb|sb| |sb mb eb Hb]; try (destruct sa, sb); cbn; intros H1 H2 H; try discriminate; try reflexivity; try (exfalso; apply H2; reflexivity). Qed.

Definition Fle (a b : F64) : Prop := B2R a <= B2R b.

Lemma Fle_trans a b c : Fle a b -> Fle b c -> Fle a c.
Proof. unfold Fle. lra. Qed.

(* for finite values the relation is the float comparison <= *)
Lemma Fle_le (a b : F64) : fin a -> fin b -> Fle a b -> D.le a b = true.
Proof.
  intros Fa Fb H. unfold D.le, fle. rewrite Bleb_correct by assumption. apply Rle_bool_true. exact H.
Qed.

Section TickTime.
  Variables sst dur len : F64.
  Hypothesis Fdur : fin dur.
  Hypothesis Hdur : 0 <= B2R dur.
  Hypothesis Flen : fin len.
  Hypothesis Hlen : 0 < B2R len.

  (* the time of the tick at travelled distance d (event.rs, generate_ticks) *)
  Definition tick_time (rv : bool) (d : F64) : F64 :=
    let p := D.div d len in
    D.add sst (D.mul (if rv then D.sub (D.of_Z 1) p else p) dur).

  Lemma tick_time_fin_d rv d : fin (tick_time rv d) -> fin d.
  Proof.
    unfold tick_time. intros H. apply fin_add_inv in H. destruct H as [_ H].
    apply fin_mul_inv in H. destruct H as [H _].
    assert (Hp : fin (D.div d len)).
    { destruct rv; [apply fin_sub_inv in H; apply H | exact H]. }
    apply (fin_div_inv d len Flen); [lra | exact Hp].
  Qed.

  Lemma div_mono d1 d2 : fin (D.div d1 len) -> fin (D.div d2 len) -> Fle d1 d2 ->
    Fle (D.div d1 len) (D.div d2 len).
  Proof.
    intros F1 F2 H. unfold Fle in *. rewrite !div_R by (auto; lra). apply RN_le.
    unfold Rdiv. apply Rmult_le_compat_r; [left; apply Rinv_0_lt_compat; exact Hlen | exact H].
  Qed.

  Lemma tick_time_mono d1 d2 :
    fin (tick_time false d1) -> fin (tick_time false d2) -> Fle d1 d2 ->
    Fle (tick_time false d1) (tick_time false d2).
  Proof.
    unfold tick_time. intros F1 F2 H.
    destruct (fin_add_inv _ _ F1) as [Fs Fm1]. destruct (fin_add_inv _ _ F2) as [_ Fm2].
    destruct (fin_mul_inv _ _ Fm1) as [Fp1 _]. destruct (fin_mul_inv _ _ Fm2) as [Fp2 _].
    unfold Fle. rewrite !add_R by assumption. apply RN_le. apply Rplus_le_compat_l.
    rewrite !mul_R by assumption. apply RN_le. apply Rmult_le_compat_r; [exact Hdur|].
    apply div_mono; assumption.
  Qed.

  (* on a reversed span the time decreases with the distance *)
  Lemma tick_time_anti d1 d2 :
    fin (tick_time true d1) -> fin (tick_time true d2) -> Fle d1 d2 ->
    Fle (tick_time true d2) (tick_time true d1).
  Proof.
    unfold tick_time. intros F1 F2 H.
    destruct (fin_add_inv _ _ F1) as [Fs Fm1]. destruct (fin_add_inv _ _ F2) as [_ Fm2].
    destruct (fin_mul_inv _ _ Fm1) as [Fq1 _]. destruct (fin_mul_inv _ _ Fm2) as [Fq2 _].
    destruct (fin_sub_inv _ _ Fq1) as [Fone Fp1]. destruct (fin_sub_inv _ _ Fq2) as [_ Fp2].
    unfold Fle. rewrite !add_R by assumption. apply RN_le. apply Rplus_le_compat_l.
    rewrite !mul_R by assumption. apply RN_le. apply Rmult_le_compat_r; [exact Hdur|].
    rewrite !sub_R by assumption. apply RN_le.
    pose proof (div_mono d1 d2 Fp1 Fp2 H) as Hd. unfold Fle in Hd. lra.
  Qed.
End TickTime.

(* the running sum d += tick_dist never decreases (tick_dist > 0) *)
Lemma rsum_step_le (d td : F64) : fin d -> fin td -> 0 < B2R td -> fin (D.add d td) -> Fle d (D.add d td).
Proof.
  intros Fd Ft Ht Fs. unfold Fle. rewrite add_R by assumption.
  rewrite <- (round_generic radix2 fexp64 (round_mode mode_NE) (B2R d)) at 1
    by (apply generic_format_B2R).
  apply RN_le. lra.
Qed.

Lemma rsum_list_S (td d : F64) k :
  map (rsum ops64 td d) (seq 0 (S k)) = d :: map (rsum ops64 td (D.add d td)) (seq 0 k).
Proof. cbn [seq map rsum]. f_equal. rewrite <- seq_shift, map_map. reflexivity. Qed.

Lemma rsum_list_sorted (td : F64) : fin td -> 0 < B2R td -> forall k d,
  Forall (fun x => fin x) (map (rsum ops64 td d) (seq 0 k)) ->
  Sorted Fle (map (rsum ops64 td d) (seq 0 k)).
Proof.
  intros Ft Ht. induction k as [|k IH]; intros d HF; [constructor|].
  rewrite rsum_list_S in *. inversion HF as [|? ? Fd HF']; subst.
  constructor; [apply IH; exact HF'|].
  destruct k as [|k]; [constructor|]. rewrite rsum_list_S in *. constructor.
  inversion HF' as [|? ? Fd' _]; subst. apply rsum_step_le; assumption.
Qed.

(* T20c (binary64): the ticks of a span are in chronological order (weakly:
   rounding may merge neighbours), provided the span duration is finite and
   >= 0, the length finite and > 0, the tick distance finite and > 0, and the
   tick times themselves are finite (no overflow). *)
Theorem ticks_weakly_chronological (start dur len : F64) (td : F64) (ds : list F64) (s : Z) :
  fin dur -> 0 <= B2R dur -> fin len -> 0 < B2R len -> fin td -> 0 < B2R td ->
  ds = map (rsum ops64 td td) (seq 0 (length ds)) ->
  Forall (fun e => fin (ev_time e)) (map (sp_tick ops64 start dur len s) ds) ->
  StronglySorted Fle
    (map ev_time (if Z.odd s then rev (map (sp_tick ops64 start dur len s) ds)
                  else map (sp_tick ops64 start dur len s) ds)).
Proof.
  intros Fdur Hdur Flen Hlen Ft Ht Hds HF.
  set (sst := sp_sst ops64 start dur s).
  assert (Htime : forall d, ev_time (sp_tick ops64 start dur len s d) = tick_time sst dur len (Z.odd s) d)
    by (intros d; reflexivity).
  rewrite Forall_map in HF. rewrite Forall_forall in HF.
  assert (HFd : Forall (fun x => fin x) ds).
  { apply Forall_forall. intros d Hd. specialize (HF d Hd). rewrite Htime in HF.
    exact (tick_time_fin_d sst dur len Flen Hlen (Z.odd s) d HF). }
  assert (Hsorted : StronglySorted Fle ds).
  { apply Sorted_StronglySorted; [intros a b c; apply Fle_trans|].
    rewrite Hds. apply rsum_list_sorted; auto. rewrite <- Hds. exact HFd. }
  assert (HFt : forall d, In d ds -> fin (tick_time sst dur len (Z.odd s) d)).
  { intros d Hd. rewrite <- Htime. apply HF. exact Hd. }
  assert (Htime' : forall d, ev_time (sp_tick ops64 start dur len s d) = tick_time sst dur len (Z.odd s) d)
    by exact Htime.
  clear Htime HF.
  destruct (Z.odd s) eqn:Hodd.
  - rewrite map_rev, map_map.
    apply (SS_rev (fun a b => Fle b a)). eapply SS_map; [|exact Hsorted].
    intros a b Ha Hb Hab. cbn beta. rewrite !Htime'.
    apply tick_time_anti; auto.
  - rewrite map_map. eapply SS_map; [|exact Hsorted].
    intros a b Ha Hb Hab. cbn beta. rewrite !Htime'.
    apply tick_time_mono; auto.
Qed.

(* Enc4Stored: a sufficient condition for "not in class D33" on the STORED data of a decoded
   spinner / hold: if the real sum  start + duration  is a binary64 number (no rounding when the
   encoder computes the end), the duration survives.  Uses the decoder's form of the stored
   duration (Proofs/Enc4Times.v: [decoded_durations_form]) only to know that the duration is
   finite and is either positive or the literal +0.  Generalises [whole_ms_not_d33]: any two stored
   values on a common binary grid 2^-k with |start + duration| < 2^(53-k). *)
From RM Require Import Model.EncSpec Model.EncObjCarry Proofs.EncFloat Proofs.EncFmt Proofs.EncObjTimes
     Proofs.Enc3Times Proofs.Enc4Times.
From RM Require Import Gen.Generated.
From Flocq Require Import Core BinarySingleNaN.
From Coq Require Import Reals Lia Lra ZArith.
Open Scope Z_scope.

Local Notation fexp64 := (SpecFloat.fexp 53 1024).
Local Notation fmt64 := (generic_format radix2 fexp64).
Local Notation RN := (round radix2 fexp64 (round_mode mode_NE)).
Local Notation fin x := (is_finite x = true).

(* "finite, and positive or the literal +0": what the decoder stores as a duration *)
Definition dur_shape (d : F64) : Prop :=
  fin d /\ (Rabs (B2R d) <= IZR (2 * max_parse_value))%R /\ ((0 < B2R d)%R \/ d = D.zero).

(* ---------- the difference of two numbers within the parse limits ---------- *)

Lemma lim_sub (x y : F64) : in_lim64 x = true -> in_lim64 y = true ->
  fin (D.sub x y) /\ B2R (D.sub x y) = RN (B2R x - B2R y) /\
  ((0 < B2R x - B2R y)%R -> Bsign (D.sub x y) = false) /\
  (Rabs (B2R (D.sub x y)) <= IZR (2 * max_parse_value))%R.
Proof.
  intros Hx Hy. pose proof (in_lim64_finite x Hx) as Fx. pose proof (in_lim64_finite y Hy) as Fy.
  pose proof (in_lim64_bound x Hx) as Bx. pose proof (in_lim64_bound y Hy) as By.
  unfold D.sub, fsub.
  pose proof (Bminus_correct 53 1024 Hp64 He64 mode_NE x y Fx Fy) as H.
  assert (Hb0 : (Rabs (RN (B2R x - B2R y)) <= IZR (2 * max_parse_value))%R).
  { apply abs_round_le_generic; [apply fexp_correct; exact Hp64|apply valid_rnd_round_mode| |].
    + apply int_format. unfold max_parse_value. cbn. lia.
    + rewrite mult_IZR. unfold Rminus. eapply Rle_trans; [apply Rabs_triang|]. rewrite Rabs_Ropp. lra. }
  assert (Hb : (Rabs (RN (B2R x - B2R y)) < bpow radix2 1024)%R).
  { apply Rle_lt_trans with (IZR (2 * max_parse_value)); [exact Hb0|].
    - apply Rlt_le_trans with (IZR (2 ^ 53)); [apply IZR_lt; unfold max_parse_value; cbn; lia|].
      change 2%Z with (radix_val radix2) at 1. rewrite IZR_Zpower by lia. apply bpow_le. lia. }
  rewrite (Rlt_bool_true _ _ Hb) in H. destruct H as (H1 & H2 & H3).
  split; [exact H2|]. split; [exact H1|]. split; [|rewrite H1; exact Hb0].
  intros Hpos. rewrite H3. rewrite Rcompare_Gt by exact Hpos. reflexivity.
Qed.

Lemma zero_bound : (Rabs (B2R D.zero) <= IZR (2 * max_parse_value))%R.
Proof. cbn [B2R D.zero fzero]. rewrite Rabs_R0. apply IZR_le. unfold max_parse_value. lia. Qed.

Lemma zero_of_real (d : F64) : fin d -> B2R d = 0%R -> Bsign d = false -> d = D.zero.
Proof.
  intros Fd Rd Sd. apply B2R_Bsign_inj; try assumption; try reflexivity.
Qed.

Lemma RN_nonneg r : (0 <= r)%R -> (0 <= RN r)%R.
Proof.
  intros H. rewrite <- (round_0 radix2 fexp64 (round_mode mode_NE)).
  apply round_le; [apply fexp_correct; exact Hp64|apply valid_rnd_round_mode|exact H].
Qed.

(* the decoder's two forms have the shape *)
Lemma spinner_dur_shape (s e : F64) : in_lim64 s = true -> in_lim64 e = true -> dur_shape (spinner_dur s e).
Proof.
  intros Hs He. destruct (lim_sub e s He Hs) as (Fd & Rd & Sd & Bd).
  unfold spinner_dur, f64_max_lit. rewrite (fin_not_nan _ Fd), (lt_real D.zero (D.sub e s) eq_refl Fd).
  destruct (Rlt_bool_spec (B2R D.zero) (B2R (D.sub e s))) as [Hlt|Hge].
  - split; [exact Fd|]. split; [exact Bd|]. left. cbn [B2R D.zero fzero] in Hlt. exact Hlt.
  - split; [reflexivity|]. split; [exact zero_bound|]. right. reflexivity.
Qed.

Lemma max_cases (s e : F64) : fin s -> fin e ->
  ((B2R s < B2R e)%R /\ D.max s e = e) \/ (~ (B2R s < B2R e)%R /\ D.max s e = s).
Proof.
  intros Fs Fe. unfold D.max, fmax. fold (D.is_nan s). fold (D.is_nan e).
  rewrite (fin_not_nan _ Fs), (fin_not_nan _ Fe). fold (D.lt s e). rewrite (lt_real s e Fs Fe).
  destruct (Rlt_bool_spec (B2R s) (B2R e)) as [Hlt|Hge]; [left|right]; split; try reflexivity; lra.
Qed.

Lemma hold_dur_shape (s e : F64) : in_lim64 s = true -> in_lim64 e = true -> dur_shape (hold_dur s e).
Proof.
  intros Hs He. pose proof (in_lim64_finite s Hs) as Fs. pose proof (in_lim64_finite e He) as Fe.
  unfold hold_dur. destruct (max_cases s e Fs Fe) as [[Hlt ->]|[Hge ->]].
  - destruct (lim_sub e s He Hs) as (Fd & Rd & Sd & Bd). split; [exact Fd|]. split; [exact Bd|].
    assert (Hnn : (0 <= B2R (D.sub e s))%R) by (rewrite Rd; apply RN_nonneg; lra).
    destruct (Rle_lt_or_eq_dec _ _ Hnn) as [Hpos|Hz]; [left; exact Hpos|right].
    apply zero_of_real; [exact Fd|symmetry; exact Hz|apply Sd; lra].
  - rewrite (sub_self s s Fs Fs eq_refl eq_refl). split; [reflexivity|]. split; [exact zero_bound|right; reflexivity].
Qed.

(* ---------- the sum start + duration is a binary64 number ---------- *)

Section Sum.
  Variables s d : F64.
  Hypothesis Fs : fin s.
  Hypothesis Hd : dur_shape d.
  Hypothesis Hex : fmt64 (B2R s + B2R d)%R.
  Hypothesis Hsm : (Rabs (B2R s + B2R d) < bpow radix2 1024)%R.

  Theorem stored_sum_exact : spinner_time_ok s d /\ hold_time_ok s d.
  Proof.
    destruct Hd as (Fd & _ & [Hpos|Hz]).
    - destruct (add_exact s d Fs Fd Hex Hsm) as (Ra & Fa).
      destruct (sub_exact (D.add s d) s Fa Fs) as (Rb & Fb).
      { rewrite Ra. replace (B2R s + B2R d - B2R s)%R with (B2R d) by lra. apply fmt_B2R. }
      { rewrite Ra. replace (B2R s + B2R d - B2R s)%R with (B2R d) by lra. apply fin_small. exact Fd. }
      assert (Hback : D.sub (D.add s d) s = d).
      { apply eq_of_real; try assumption; [rewrite Rb, Ra; lra|lra]. }
      split.
      + unfold spinner_time_ok. rewrite Hback. unfold f64_max_lit.
        rewrite (fin_not_nan _ Fd), (lt_real D.zero d eq_refl Fd), Rlt_bool_true; [reflexivity|].
        cbn [B2R D.zero fzero]. exact Hpos.
      + unfold hold_time_ok. destruct (max_cases s (D.add s d) Fs Fa) as [[_ ->]|[Hn _]]; [exact Hback|].
        contradiction Hn. rewrite Ra. lra.
    - subst d.
      (* the literal +0: the case e = s of Enc3Times *)
      assert (Hf : fmt64 (B2R s - B2R s)%R) by (replace (B2R s - B2R s)%R with 0%R by lra; apply generic_format_0).
      assert (Hb : (Rabs (B2R s - B2R s) < bpow radix2 1024)%R)
        by (replace (B2R s - B2R s)%R with 0%R by lra; rewrite Rabs_R0; apply bpow_gt_0).
      pose proof (spinner_ok_exact s s Fs Fs Hf Hb) as T1. pose proof (hold_ok_exact s s Fs Fs Hf Hb) as T2.
      assert (E1 : spinner_dur s s = D.zero).
      { unfold spinner_dur. rewrite (sub_self s s Fs Fs eq_refl eq_refl). vm_compute. reflexivity. }
      assert (E2 : hold_dur s s = D.zero).
      { unfold hold_dur. destruct (max_cases s s Fs Fs) as [[Hlt _]|[_ ->]]; [lra|]. exact (sub_self s s Fs Fs eq_refl eq_refl). }
      rewrite E1 in T1. rewrite E2 in T2. split; assumption.
  Qed.
End Sum.

(* on the objects of decoded maps *)
Theorem decoded_sum_exact_not_d33 dist_of lines m h :
  decode_beatmap dist_of lines = Done m -> In h (hov_hit_objects (bmv_ho m)) ->
  match h_kind h with
  | KSpinner sp => fmt64 (B2R (h_start h) + B2R (sp_duration sp))%R
  | KHold hd => fmt64 (B2R (h_start h) + B2R (hd_duration hd))%R
  | _ => True
  end ->
  d33_object h = false.
Proof.
  intros Hd Hin Hex. pose proof (decoded_durations_form dist_of lines m Hd) as Hf.
  rewrite Forall_forall in Hf. destruct (Hf h Hin) as (Hs & Hk).
  pose proof (in_lim64_finite _ Hs) as Fs. pose proof (in_lim64_bound _ Hs) as Bs.
  apply d33_object_spec. unfold time_ok.
  assert (sum_small : forall d : F64, dur_shape d -> (Rabs (B2R (h_start h) + B2R d) < bpow radix2 1024)%R).
  { intros d (_ & Bd & _). eapply Rle_lt_trans; [apply Rabs_triang|].
    apply Rle_lt_trans with (IZR (3 * max_parse_value)); [rewrite mult_IZR in *; lra|].
    apply Rlt_le_trans with (IZR (2 ^ 53)); [apply IZR_lt; unfold max_parse_value; cbn; lia|].
    change 2%Z with (radix_val radix2) at 1. rewrite IZR_Zpower by lia. apply bpow_le. lia. }
  destruct (h_kind h) as [c|sl|sp|hd]; try exact I.
  - destruct Hk as (e & He & Hdur).
    assert (Sh : dur_shape (sp_duration sp)) by (rewrite Hdur; apply spinner_dur_shape; assumption).
    refine (proj1 (stored_sum_exact (h_start h) (sp_duration sp) Fs Sh Hex _)).
    apply sum_small; exact Sh.
  - destruct Hk as (e & He & Hdur).
    assert (Sh : dur_shape (hd_duration hd)) by (rewrite Hdur; apply hold_dur_shape; assumption).
    refine (proj2 (stored_sum_exact (h_start h) (hd_duration hd) Fs Sh Hex _)).
    apply sum_small; exact Sh.
Qed.

(* stored start and duration on a common binary grid 2^-k, |start + duration| < 2^(53-k):
   k = 0 is [whole_ms_not_d33]; every k up to 1074 *)
Lemma grid_sum_fmt (k a b : Z) : 0 <= k <= 1074 -> Z.abs (a + b) < 2 ^ 53 ->
  fmt64 (IZR a * bpow radix2 (- k) + IZR b * bpow radix2 (- k))%R.
Proof.
  intros Hk Hd.
  replace (IZR a * bpow radix2 (- k) + IZR b * bpow radix2 (- k))%R with (F2R (Float radix2 (a + b) (- k))).
  - apply (generic_format_FLT radix2 (SpecFloat.emin 53 1024) 53).
    apply (FLT_spec radix2 _ _ _ (Float radix2 (a + b) (- k))); cbn [Fnum Fexp].
    + reflexivity.
    + change (Zpower radix2 53) with (2 ^ 53). exact Hd.
    + unfold SpecFloat.emin. lia.
  - unfold F2R. cbn [Fnum Fexp]. rewrite plus_IZR. ring.
Qed.

Corollary decoded_grid_not_d33 dist_of lines m h (k a b : Z) :
  decode_beatmap dist_of lines = Done m -> In h (hov_hit_objects (bmv_ho m)) ->
  0 <= k <= 1074 -> B2R (h_start h) = (IZR a * bpow radix2 (- k))%R ->
  match h_kind h with
  | KSpinner sp => B2R (sp_duration sp) = (IZR b * bpow radix2 (- k))%R
  | KHold hd => B2R (hd_duration hd) = (IZR b * bpow radix2 (- k))%R
  | _ => True
  end ->
  Z.abs (a + b) < 2 ^ 53 -> d33_object h = false.
Proof.
  intros Hd Hin Hk Rs Rd Hab. apply (decoded_sum_exact_not_d33 dist_of lines m h Hd Hin).
  destruct (h_kind h) as [c|sl|sp|hd]; try exact I; rewrite Rs, Rd; apply grid_sum_fmt; assumption.
Qed.

Print Assumptions decoded_sum_exact_not_d33.
Print Assumptions decoded_grid_not_d33.

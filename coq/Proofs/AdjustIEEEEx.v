(* AdjustIEEEEx: the hypotheses of the IEEE error bounds of C16 / C19
   (AdjustIEEE.adjust_hyps, InterpIEEE.interp_hyps) hold on a concrete,
   decoded-looking input -- the polyline (0,0) (3,4) (8,16) with cumulative
   lengths 0, 5, 18 of C16_nonvacuous_cut / C19_nonvacuous, requested length
   resp. distance 9 -- and what the theorems then say about it.  Every
   computation is on booleans / dumps / real numbers, never on a term of type
   F32 / F64. *)
From RM Require Import Model.ControlPoints Model.Curve Proofs.EncFloat Proofs.LengthFacts Proofs.LengthBound Proofs.InterpExact Proofs.PositionExact
  Proofs.AdjustExact Proofs.AdjustIEEEBase Proofs.AdjustIEEE Proofs.AdjustIEEESum Proofs.AdjustIEEELen Proofs.InterpIEEE Proofs.InterpIEEEFrac.
From Flocq Require Import Core BinarySingleNaN.
From Coq Require Import Reals Lra Lia ZArith List.
Import ListNotations.
Open Scope R_scope.

Local Notation fin x := (is_finite x = true).
Local Notation pw k := (bpow radix2 k).

Lemma S_ofZ n : (Z.abs n < 2 ^ 24)%Z -> fin (S.of_Z n) /\ B2R (S.of_Z n) = IZR n.
Proof. intros H. destruct (of_Z_exact 24 128 Hp32 He32 n H) as (R & F). split; assumption. Qed.

Lemma D_ofZ n : (Z.abs n < 2 ^ 53)%Z -> fin (D.of_Z n) /\ B2R (D.of_Z n) = IZR n.
Proof. intros H. destruct (of_Z_exact 53 1024 Hp64 He64 n H) as (R & F). split; assumption. Qed.

(* whole-number coordinates up to 2^20 in magnitude *)
Lemma bnd32_ofZ n : (Z.abs n <= 2 ^ 20)%Z -> bnd32 (S.of_Z n) 20.
Proof.
  intros H. destruct (S_ofZ n ltac:(lia)) as (F & R). split; [exact F|]. rewrite R, <- abs_IZR.
  change (pw 20) with (IZR (2 ^ 20)). apply IZR_le. exact H.
Qed.

Definition ex_p0 : Pos := mkPos (S.of_Z 0) (S.of_Z 0).
Definition ex_p1 : Pos := mkPos (S.of_Z 3) (S.of_Z 4).
Definition ex_p2 : Pos := mkPos (S.of_Z 8) (S.of_Z 16).
Definition ex_path : list Pos := [ex_p0; ex_p1; ex_p2].
Definition ex_lens : list F64 := [D.of_Z 0; D.of_Z 5; D.of_Z 18].

Lemma ex_R2 : R2 ex_p1 = (3, 4) /\ R2 ex_p2 = (8, 16).
Proof.
  unfold R2, ex_p1, ex_p2. cbn [px py].
  rewrite (proj2 (S_ofZ 3 ltac:(lia))), (proj2 (S_ofZ 4 ltac:(lia))), (proj2 (S_ofZ 8 ltac:(lia))), (proj2 (S_ofZ 16 ltac:(lia))).
  split; reflexivity.
Qed.

(* the lengths list IS the one calculate_length computes for this path *)
Example ex_lens_are_natural : map D.bits (natural ex_path D.zero) = map D.bits ex_lens.
Proof. vm_compute. reflexivity. Qed.

(* ---------- C16: cut at L = 9 in the second segment ---------- *)

Example ex_adjust_hyps : adjust_hyps ex_p1 ex_p2 (D.of_Z 9) (D.of_Z 5).
Proof.
  destruct ex_R2 as (E1 & E2). destruct (D_ofZ 9 ltac:(lia)) as (F9 & R9). destruct (D_ofZ 5 ltac:(lia)) as (F5 & R5).
  unfold adjust_hyps. cbn [ex_p1 ex_p2 px py].
  repeat (split; [apply bnd32_ofZ; lia|]).
  split; [exact F9|]. split; [exact F5|]. rewrite R9, R5, E1, E2. split.
  - split; [lra|]. apply Rle_trans with (pw 3); [cbn; lra|apply bpow_le; lia].
  - assert (E : edist (3, 4) (8, 16) = 13) by (apply edist_eq; cbn [fst snd]; lra).
    rewrite E. apply Rle_trans with (pw 0); [apply bpow_le; lia|cbn; lra].
Qed.

(* what the theorem says here: the end point calculate_length computes is
   within 2.5e-6 px (per coordinate) of the exact cut point (3 + 20/13, 4 + 48/13) *)
Example ex_adjust_bound :
  exists q, adjust_end ex_path ex_lens 2 (D.of_Z 9) = Some q /\
    fin (px q) /\ fin (py q) /\
    Rabs (B2R (px q) - (3 + 5 * (4 / 13))) <= 2.5 / 1000000 /\
    Rabs (B2R (py q) - (4 + 12 * (4 / 13))) <= 2.5 / 1000000.
Proof.
  destruct (adjust_end_ieee_bound ex_path ex_lens 2 (D.of_Z 9) ex_p1 ex_p2 (D.of_Z 5)
              eq_refl eq_refl eq_refl ex_adjust_hyps) as (q & Hq & Fx & Fy & Bx & By).
  exists q. split; [exact Hq|]. split; [exact Fx|]. split; [exact Fy|].
  destruct ex_R2 as (E1 & E2). rewrite E1, E2, (proj2 (D_ofZ 9 ltac:(lia))), (proj2 (D_ofZ 5 ltac:(lia))) in Bx, By.
  rewrite adjust_example in Bx, By. cbn [fst snd] in Bx, By.
  unfold ex_p1 in Bx, By. cbn [px py] in Bx, By.
  rewrite (proj2 (S_ofZ 3 ltac:(lia))) in Bx. rewrite (proj2 (S_ofZ 4 ltac:(lia))) in By.
  assert (P : pw (-127) <= / 100000000).
  { apply Rle_trans with (pw (-30)); [apply bpow_le; lia|cbn; lra]. }
  unfold E16, u32 in Bx, By. rewrite (Rabs_pos_eq 3) in Bx by lra. rewrite (Rabs_pos_eq 4) in By by lra. split; lra.
Qed.

(* the computed end point itself (bit patterns): (4.5384617, 7.692308) *)
Example ex_adjust_dump :
  match adjust_end ex_path ex_lens 2 (D.of_Z 9) with Some q => dump_pos q | None => [] end
  = [S.bits (S.of_decimal false 45384617 (-7)); S.bits (S.of_decimal false 7692308 (-6))].
Proof. vm_compute. reflexivity. Qed.

(* the length corollary, with the kept cumulative length exact (A = 0): the
   exact polyline length of the adjusted path is within 4.8e-6 of L = 9 *)
Example ex_adjusted_length :
  exists q, adjust_end ex_path ex_lens 2 (D.of_Z 9) = Some q /\
    Rabs (poly_len (map R2 (firstn 2 ex_path ++ [q])) - 9) <= 4.8 / 1000000.
Proof.
  assert (Hc : nth_error (cumlen (map R2 ex_path)) 1 = Some 5).
  { unfold ex_path. cbn [map]. destruct ex_R2 as (E1 & E2). rewrite E1, E2.
    assert (E0 : R2 ex_p0 = (0, 0)).
    { unfold R2, ex_p0. cbn [px py]. rewrite (proj2 (S_ofZ 0 ltac:(lia))). reflexivity. }
    rewrite E0. exact (f_equal (fun l => nth_error l 1%nat) (proj1 cumlen_example)). }
  destruct (adjusted_length_ieee_bound ex_path ex_lens 2 (D.of_Z 9) ex_p1 ex_p2 (D.of_Z 5) 5 0
              ltac:(cbn; lia) eq_refl eq_refl eq_refl ex_adjust_hyps Hc) as (q & Hq & _ & B).
  { rewrite (proj2 (D_ofZ 5 ltac:(lia))). replace (5 - 5) with 0 by ring. rewrite Rabs_R0. lra. }
  exists q. split; [exact Hq|].
  rewrite (proj2 (D_ofZ 9 ltac:(lia))), (proj2 (D_ofZ 5 ltac:(lia))) in B.
  unfold ex_p1 in B. cbn [px py] in B.
  rewrite (proj2 (S_ofZ 3 ltac:(lia))), (proj2 (S_ofZ 4 ltac:(lia))) in B.
  assert (P : pw (-127) <= / 100000000).
  { apply Rle_trans with (pw (-30)); [apply bpow_le; lia|cbn; lra]. }
  unfold E16, u32 in B. rewrite (Rabs_pos_eq 3), (Rabs_pos_eq 4) in B by lra. lra.
Qed.

(* ---------- C19: distance 9 on the second segment (d0 = 5, d1 = 18) ---------- *)

Example ex_interp_hyps : interp_hyps ex_p1 ex_p2 (D.of_Z 5) (D.of_Z 18) (D.of_Z 9).
Proof.
  destruct (D_ofZ 9 ltac:(lia)) as (F9 & R9). destruct (D_ofZ 5 ltac:(lia)) as (F5 & R5).
  destruct (D_ofZ 18 ltac:(lia)) as (F18 & R18).
  unfold interp_hyps. cbn [ex_p1 ex_p2 px py].
  repeat (split; [apply bnd32_ofZ; lia|]).
  split; [exact F5|]. split; [exact F18|]. split; [exact F9|]. rewrite R5, R9, R18.
  split; [lra|]. split; [lra|].
  apply guard_false_of_gap; [exact F5|exact F18|rewrite R5; lra|]. rewrite R5, R18.
  apply Rle_trans with (pw 0); [apply bpow_le; lia|cbn; lra].
Qed.

Example ex_interp_bound :
  exists q, interpolate_vertices ex_path ex_lens 2 (D.of_Z 9) = Done q /\
    Rabs (B2R (px q) - (3 + 5 * (4 / 13))) <= 1.4 / 1000000 /\
    Rabs (B2R (py q) - (4 + 12 * (4 / 13))) <= 3.2 / 1000000.
Proof.
  destruct (interpolation_ieee_bound ex_path ex_lens 1 (D.of_Z 9) ex_p1 ex_p2 (D.of_Z 5) (D.of_Z 18)
              eq_refl eq_refl eq_refl eq_refl ex_interp_hyps) as (q & Hq & _ & _ & Bx & By).
  exists q. split; [exact Hq|].
  rewrite (proj2 (D_ofZ 9 ltac:(lia))), (proj2 (D_ofZ 5 ltac:(lia))), (proj2 (D_ofZ 18 ltac:(lia))) in Bx, By.
  unfold ex_p1, ex_p2 in Bx, By. cbn [px py] in Bx, By.
  rewrite (proj2 (S_ofZ 3 ltac:(lia))), (proj2 (S_ofZ 8 ltac:(lia))) in Bx.
  rewrite (proj2 (S_ofZ 4 ltac:(lia))), (proj2 (S_ofZ 16 ltac:(lia))) in By.
  assert (P : pw (-125) <= / 100000000).
  { apply Rle_trans with (pw (-30)); [apply bpow_le; lia|cbn; lra]. }
  unfold E19, u32 in Bx, By. unfold interp_R, interp_coord_g in Bx, By.
  rewrite !(Rabs_pos_eq 3), !(Rabs_pos_eq 8), (Rabs_pos_eq (8 - 3)) in Bx by lra.
  rewrite !(Rabs_pos_eq 4), !(Rabs_pos_eq 16), (Rabs_pos_eq (16 - 4)) in By by lra.
  rewrite Rmax_right in Bx, By by lra.
  replace ((9 - 5) / (18 - 5)) with (4 / 13) in Bx, By by field.
  replace (8 - 3) with 5 in Bx by ring. replace (16 - 4) with 12 in By by ring.
  split; lra.
Qed.

Example ex_interp_dump :
  dump_out dump_pos (interpolate_vertices ex_path ex_lens 2 (D.of_Z 9))
  = [0%Z; S.bits (S.of_decimal false 45384617 (-7)); S.bits (S.of_decimal false 7692308 (-6))].
Proof. vm_compute. reflexivity. Qed.

(* ---------- C19: progress lengths[1] / dist = 5 / 18, vertex (3, 4) ---------- *)

Lemma ex_sorted : sorted_fin ex_lens.
Proof.
  destruct (D_ofZ 0 ltac:(lia)) as (F0 & R0). destruct (D_ofZ 5 ltac:(lia)) as (F5 & R5).
  destruct (D_ofZ 18 ltac:(lia)) as (F18 & R18). split.
  - repeat constructor; assumption.
  - intros a b x y Hab Ha Hb.
    assert (K : forall n z, nth_error ex_lens n = Some z ->
                (n = 0%nat /\ B2R z = 0) \/ (n = 1%nat /\ B2R z = 5) \/ (n = 2%nat /\ B2R z = 18)).
    { intros n z Hn. unfold ex_lens in Hn. destruct n as [|[|[|n]]]; cbn in Hn.
      - inversion Hn; subst. left. split; [reflexivity|exact R0].
      - inversion Hn; subst. right. left. split; [reflexivity|exact R5].
      - inversion Hn; subst. right. right. split; [reflexivity|exact R18].
      - destruct n; discriminate. }
    destruct (K a x Ha) as [(Ea & Ex)|[(Ea & Ex)|(Ea & Ex)]];
      destruct (K b y Hb) as [(Eb & Ey)|[(Eb & Ey)|(Eb & Ey)]]; rewrite Ex, Ey; try lra; exfalso; clear - Hab Ea Eb; lia.
Qed.

Example ex_frac_hyps : frac_hyps ex_p0 ex_p1 ex_p2 (D.of_Z 0) (D.of_Z 5) (D.of_Z 18) (Curve.dist ex_lens).
Proof.
  change (Curve.dist ex_lens) with (D.of_Z 18).
  destruct (D_ofZ 0 ltac:(lia)) as (F0 & R0). destruct (D_ofZ 5 ltac:(lia)) as (F5 & R5).
  destruct (D_ofZ 18 ltac:(lia)) as (F18 & R18).
  unfold frac_hyps. cbn [ex_p0 ex_p1 ex_p2 px py].
  repeat (split; [apply bnd32_ofZ; lia|]).
  split; [exact F18|]. rewrite R0, R5, R18.
  assert (P1 : 18 <= pw 1023) by (apply Rle_trans with (pw 5); [cbn; lra|apply bpow_le; lia]).
  assert (P2 : pw (-51) <= 1) by (apply Rle_trans with (pw 0); [apply bpow_le; lia|cbn; lra]).
  assert (P3 : eta64 <= / 1000) by (unfold eta64; apply Rle_trans with (pw (-10)); [apply bpow_le; lia|cbn; lra]).
  pose proof eta64_pos as E64.
  assert (D : Dfrac 5 18 < 1) by (unfold Dfrac, u64; lra).
  repeat split; lra.
Qed.

(* position_at (lengths[1] / dist) is the vertex (3, 4) up to 1.4e-6 / 3.2e-6 px *)
Example ex_frac_bound :
  exists q, position_at ex_path ex_lens (D.div (D.of_Z 5) (Curve.dist ex_lens)) = Done q /\
    Rabs (B2R (px q) - 3) <= 1.4 / 1000000 /\ Rabs (B2R (py q) - 4) <= 3.2 / 1000000.
Proof.
  destruct (vertex_fraction_position_partial ex_path ex_lens 0 ex_p0 ex_p1 ex_p2 (D.of_Z 0) (D.of_Z 5) (D.of_Z 18)
              eq_refl eq_refl eq_refl eq_refl eq_refl eq_refl ex_sorted ex_frac_hyps) as (q & Hq & Bx & By).
  exists q. split; [exact Hq|].
  change (Curve.dist ex_lens) with (D.of_Z 18) in Bx, By.
  rewrite (proj2 (D_ofZ 0 ltac:(lia))), (proj2 (D_ofZ 5 ltac:(lia))), (proj2 (D_ofZ 18 ltac:(lia))) in Bx, By.
  unfold ex_p0, ex_p1, ex_p2 in Bx, By. cbn [px py] in Bx, By.
  rewrite (proj2 (S_ofZ 0 ltac:(lia))), (proj2 (S_ofZ 3 ltac:(lia))), (proj2 (S_ofZ 8 ltac:(lia))) in Bx.
  rewrite (proj2 (S_ofZ 0 ltac:(lia))), (proj2 (S_ofZ 4 ltac:(lia))), (proj2 (S_ofZ 16 ltac:(lia))) in By.
  assert (P : pw (-125) <= / 100000000).
  { apply Rle_trans with (pw (-30)); [apply bpow_le; lia|cbn; lra]. }
  assert (P3 : eta64 <= / 100000000000).
  { unfold eta64. apply Rle_trans with (pw (-40)); [apply bpow_le; lia|cbn; lra]. }
  pose proof eta64_pos as E64.
  assert (A0 : Rabs 0 = 0) by apply Rabs_R0.
  assert (A3 : Rabs 3 = 3) by (apply Rabs_pos_eq; lra). assert (A8 : Rabs 8 = 8) by (apply Rabs_pos_eq; lra).
  assert (A4 : Rabs 4 = 4) by (apply Rabs_pos_eq; lra). assert (A16 : Rabs 16 = 16) by (apply Rabs_pos_eq; lra).
  assert (A30 : Rabs (3 - 0) = 3) by (rewrite Rabs_pos_eq; lra). assert (A83 : Rabs (8 - 3) = 5) by (rewrite Rabs_pos_eq; lra).
  assert (A40 : Rabs (4 - 0) = 4) by (rewrite Rabs_pos_eq; lra). assert (A164 : Rabs (16 - 4) = 12) by (rewrite Rabs_pos_eq; lra).
  unfold Efrac, E19, Dfrac, u32, u64 in Bx, By.
  rewrite A0, A3, A8, A30, A83 in Bx. rewrite A0, A4, A16, A40, A164 in By.
  rewrite (Rmax_right 0 3), (Rmax_right 3 8) in Bx by lra. rewrite (Rmax_right 0 4), (Rmax_right 4 16) in By by lra.
  split.
  - eapply Rle_trans; [exact Bx|]. apply Rmax_lub; lra.
  - eapply Rle_trans; [exact By|]. apply Rmax_lub; lra.
Qed.

(* ---------- C16: the accumulated error of the cumulative lengths ---------- *)

Lemma ex_R2_0 : R2 ex_p0 = (0, 0).
Proof. unfold R2, ex_p0. cbn [px py]. rewrite (proj2 (S_ofZ 0 ltac:(lia))). reflexivity. Qed.

Example ex_path_hyps :
  Forall (fun p => coord_le p 20) ex_path /\ segs_ok ex_path /\ (length ex_path <= 2 ^ 50)%nat /\
  poly_len (map R2 ex_path) <= pw 1000.
Proof.
  destruct ex_R2 as (E1 & E2). pose proof ex_R2_0 as E0.
  split; [|split; [|split]].
  - unfold ex_path, ex_p0, ex_p1, ex_p2, coord_le.
    repeat (apply Forall_cons; [cbn [px py]; split; apply bnd32_ofZ; lia|]). apply Forall_nil.
  - unfold ex_path. cbn [segs_ok]. unfold seg_ok. rewrite E0, E1, E2.
    assert (D1 : edist (0, 0) (3, 4) = 5) by (apply edist_eq; cbn [fst snd]; lra).
    assert (D2 : edist (3, 4) (8, 16) = 13) by (apply edist_eq; cbn [fst snd]; lra).
    assert (P : pw (-10) <= 1) by (apply Rle_trans with (pw 0); [apply bpow_le; lia|cbn; lra]).
    rewrite D1, D2. split; [right; lra|]. split; [right; lra|exact I].
  - change (length ex_path) with 3%nat. apply Nat.le_trans with 50%nat; [clear; lia|].
    apply Nat.lt_le_incl, Nat.pow_gt_lin_r. clear. lia.
  - unfold ex_path. cbn [map]. rewrite E0, E1, E2.
    apply Rle_trans with 18; [right; exact (proj2 cumlen_example)|].
    apply Rle_trans with (pw 5); [cbn; lra|apply bpow_le; lia].
Qed.

(* the kept cumulative length 5 of the cut example is exact up to alpha 3 * 5 < 9e-7,
   and the exact polyline length of the adjusted path is within 5.7e-6 of L = 9 *)
Example ex_adjusted_length_full :
  exists q, adjust_end ex_path (natural ex_path D.zero) 2 (D.of_Z 9) = Some q /\
    Rabs (poly_len (map R2 (firstn 2 ex_path ++ [q])) - 9) <= 5.7 / 1000000.
Proof.
  destruct ex_path_hyps as (Hc & Hs & Hn & Ht).
  assert (Hcc : nth_error (cumlen (map R2 ex_path)) 1 = Some 5).
  { unfold ex_path. cbn [map]. destruct ex_R2 as (E1 & E2). rewrite E1, E2, ex_R2_0.
    exact (f_equal (fun l => nth_error l 1%nat) (proj1 cumlen_example)). }
  assert (Hlp : exists lp, nth_error (natural ex_path D.zero) 1 = Some lp /\ D.bits lp = D.bits (D.of_Z 5)).
  { pose proof ex_lens_are_natural as N.
    destruct (natural ex_path D.zero) as [|x0 [|x1 r]]; try discriminate N.
    exists x1. split; [reflexivity|]. cbn [map ex_lens] in N. inversion N. assumption. }
  destruct Hlp as (lp & Hlp & Blp).
  (* what is needed about lp: from the error theorem itself *)
  pose proof (natural_lengths_error ex_path Hc Hs Hn Ht) as Hok.
  destruct (lens_ok_nth _ _ _ _ _ _ Hok Hlp Hcc) as (Flp & (d & Ed & Bd)).
  assert (A3 : alpha 3 <= 1.8 / 10000000).
  { unfold alpha, u32, u64. change (INR 3) with (1 + 1 + 1). lra. }
  change (length ex_path) with 3%nat in Bd.
  assert (Rl : 5 - 1 / 1000000 <= B2R lp <= 5 + 1 / 1000000).
  { rewrite Ed. apply Rabs_le_inv in Bd. nra. }
  destruct (D_ofZ 9 ltac:(lia)) as (F9 & R9).
  destruct ex_R2 as (E1 & E2).
  assert (HD : pw (-10) <= edist (R2 ex_p1) (R2 ex_p2)).
  { rewrite E1, E2. assert (E : edist (3, 4) (8, 16) = 13) by (apply edist_eq; cbn [fst snd]; lra).
    rewrite E. apply Rle_trans with (pw 0); [apply bpow_le; lia|cbn; lra]. }
  assert (HT : 0 <= B2R (D.of_Z 9) - B2R lp <= pw 20).
  { rewrite R9. split; [lra|]. apply Rle_trans with (pw 3); [cbn; lra|apply bpow_le; lia]. }
  destruct (adjusted_length_ieee_bound_full ex_path 2 (D.of_Z 9) ex_p1 ex_p2 lp 5 Hc Hs Hn Ht
              ltac:(change (length ex_path) with 3%nat; clear; lia) eq_refl eq_refl Hlp Hcc F9 HT HD) as (q & Hq & _ & B).
  exists q. split; [exact Hq|]. rewrite R9 in B. change (length ex_path) with 3%nat in B.
  unfold ex_p1 in B. cbn [px py] in B.
  rewrite (proj2 (S_ofZ 3 ltac:(lia))), (proj2 (S_ofZ 4 ltac:(lia))) in B.
  assert (P : pw (-127) <= / 100000000).
  { apply Rle_trans with (pw (-30)); [apply bpow_le; lia|cbn; lra]. }
  unfold E16, u32 in B. rewrite (Rabs_pos_eq 3), (Rabs_pos_eq 4) in B by lra. lra.
Qed.

(* the hypotheses of calculate_length_ieee_bound hold for ex_path with L = 9 *)
Example ex_calculate_length_hyps :
  D.lt D.zero (D.of_Z 9) = true /\
  keeps_natural (natural_len ex_path D.zero) (D.of_Z 9) = false /\
  (last_two_equal ex_path && D.gt (D.of_Z 9) (natural_len ex_path D.zero))%bool = false /\
  (2 <= length ex_path)%nat /\
  (match calculate_length ex_path (Some (D.of_Z 9)) D.zero with Done (p, l) => (length p, map D.bits l) | _ => (O, []) end
   = (3%nat, map D.bits [D.of_Z 0; D.of_Z 5; D.of_Z 9])) /\
  fin (D.of_Z 9).
Proof.
  split; [vm_compute; reflexivity|]. split; [vm_compute; reflexivity|]. split; [vm_compute; reflexivity|].
  split; [cbn; lia|]. split; [vm_compute; reflexivity|]. exact (proj1 (D_ofZ 9 ltac:(lia))).
Qed.

(* the computed f32 length of the cut segment is 13 >= 2^-9: adjust_hyps again, from it *)
Example ex_f32_length : pw (-9) <= B2R (plen (psub ex_p2 ex_p1)).
Proof.
  assert (H : B2SF (plen (psub ex_p2 ex_p1)) = SpecFloat.S754_finite false 13631488 (-20)) by (vm_compute; reflexivity).
  destruct (plen (psub ex_p2 ex_p1)) as [s|s| |s m e Hm]; try discriminate. cbn in H. inversion H; subst.
  unfold B2R, F2R. cbn. lra.
Qed.

Example ex_adjust_hyps_from_f32_length : adjust_hyps ex_p1 ex_p2 (D.of_Z 9) (D.of_Z 5).
Proof.
  destruct (D_ofZ 9 ltac:(lia)) as (F9 & R9). destruct (D_ofZ 5 ltac:(lia)) as (F5 & R5).
  apply adjust_hyps_of_f32_length; try assumption.
  - unfold ex_p1, coord_le. cbn [px py]. split; apply bnd32_ofZ; lia.
  - unfold ex_p2, coord_le. cbn [px py]. split; apply bnd32_ofZ; lia.
  - rewrite R9, R5. split; [lra|]. apply Rle_trans with (pw 3); [cbn; lra|apply bpow_le; lia].
  - exact ex_f32_length.
Qed.

(* SliderEventsNeg: what the model does for a negative span count (outside the
   domain of C20, modelled anyway). *)
From RM Require Import Model.SliderEvents Proofs.SliderEventsFacts.
Require Import ZifyBool.
Open Scope Z_scope.

Section Neg.
  Context {F : Type} (OP : fops F).
  Notation ev := (event F).

  (* ---------- a negative span count (outside the property's domain) ---------- *)

  Lemma generate_ticks_keeps chk tf it s it' :
    generate_ticks OP chk tf it s = Done it' -> it_st it' = it_st it /\ it_n it' = it_n it.
  Proof.
    unfold generate_ticks.
    destruct (i32_arith chk (it_n it - 1)) as [n1| |]; cbn [obind]; try discriminate.
    destruct (if (Z.rem s 2 =? 1) && (s <? n1) then _ else _) as [b1| |]; cbn [obind]; try discriminate.
    destruct (if f_lt OP (c_zero OP) (it_td it) then _ else _) as [b2| |]; cbn [obind]; try discriminate.
    destruct (negb (Z.rem s 2 =? 1)).
    - destruct (if s <? n1 then _ else _) as [b3| |]; cbn [obind]; try discriminate.
      intros H. injection H as <-. split; reflexivity.
    - intros H. injection H as <-. split; reflexivity.
  Qed.

  Definition inv_neg (it : iter F) : Prop :=
    it_n it < 0 /\ (it_st it = SHead \/ exists s, it_st it = STicks s /\ 0 <= s).

  (* with overflow checks on, next() never reaches the last tick: it yields
     ticks span after span until `*span += 1` overflows *)
  Lemma neg_next tf : forall fuel it oe it',
    inv_neg it -> iter_next OP true fuel tf it = Done (oe, it') -> oe <> None /\ inv_neg it'.
  Proof.
    induction fuel as [|k IH]; intros it oe it' [Hn Hst]; [discriminate|].
    cbn [iter_next]. destruct Hst as [Hst|(s & Hst & Hs)]; rewrite Hst.
    - intros H. injection H as <- <-. split; [discriminate|].
      split; [exact Hn|]. right. exists 0. split; [reflexivity | lia].
    - destruct (it_ticks it) as [|e r] eqn:Etk.
      + assert (E : (s =? it_n it) = false) by lia. rewrite E.
        destruct (i32_arith true (s + 1)) as [s1| |] eqn:Ea; cbn [obind]; try discriminate.
        assert (s1 = s + 1).
        { unfold i32_arith in Ea. destruct ((i32_min <=? s + 1) && (s + 1 <=? i32_max)); [|discriminate].
          injection Ea as <-. reflexivity. }
        subst s1.
        destruct (generate_ticks OP true tf (set_st it (STicks (s + 1))) s) as [it2| |] eqn:Eg;
          cbn [obind]; try discriminate.
        destruct (generate_ticks_keeps _ _ _ _ _ Eg) as [E1 E2]. cbn [set_st it_st it_n] in E1, E2.
        apply IH. split; [lia|]. right. exists (s + 1). split; [exact E1 | lia].
      + intros H. injection H as <- <-. split; [discriminate|].
        split; [exact Hn|]. right. exists s. split; [exact Hst | exact Hs].
  Qed.

  Lemma neg_collect tf fuel : forall m it evs,
    inv_neg it -> collect_aux OP true m fuel tf it <> Done evs.
  Proof.
    induction m as [|m IH]; intros it evs Hinv; [discriminate|].
    cbn [collect_aux].
    destruct (iter_next OP true fuel tf it) as [[oe it']| |] eqn:En; cbn [obind fst snd]; try discriminate.
    destruct (neg_next tf fuel it oe it' Hinv En) as [Hoe Hinv'].
    destruct oe as [e|]; [|congruence].
    specialize (IH it'). destruct (collect_aux OP true m fuel tf it') as [l| |]; cbn [obind]; try discriminate.
    exfalso. exact (IH l Hinv' eq_refl).
  Qed.

  (* span_count < 0 (the property requires >= 1): with overflow checks the
     stream never completes -- it ends in the overflow panic of `*span += 1`
     after 2^31 spans (or the model runs out of fuel first); in a release
     build the counter wraps and the stream ends after 2^32 + span_count spans *)
  Theorem run_negative_never_done tf fuel p buf evs :
    p_n p < 0 -> run OP true fuel tf p buf <> Done evs.
  Proof.
    intros Hn. unfold run. destruct (iter_new OP p buf) as [it0| |] eqn:E; cbn [obind]; try discriminate.
    unfold collect. apply neg_collect.
    unfold iter_new in E. destruct (f_clamp_chk _ _ _ _); cbn [obind] in E; try discriminate.
    injection E as <-. split; [exact Hn | left; reflexivity].
  Qed.
End Neg.

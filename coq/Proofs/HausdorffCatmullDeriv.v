(* HausdorffCatmullDeriv: the affine function cr2 used in the chord bound of
   Proofs/HausdorffCatmull IS the second derivative of the Catmull-Rom
   polynomial (Coquelicot's is_derive_n). *)
From RM Require Import Model.ControlPoints Model.Curve Proofs.CatmullFacts Proofs.HausdorffCatmull.
From Coq Require Import Reals Lra.
From Coquelicot Require Import Coquelicot.
Open Scope R_scope.

Definition cr1 (v1 v2 v3 v4 t : R) : R :=
  ((- v1 + v3) + 2 * (2 * v1 - 5 * v2 + 4 * v3 - v4) * t + 3 * (- v1 + 3 * v2 - 3 * v3 + v4) * (t * t)) / 2.

Lemma catmull_rom_first_derivative v1 v2 v3 v4 t : is_derive (catmull_rom v1 v2 v3 v4) t (cr1 v1 v2 v3 v4 t).
Proof. unfold catmull_rom, cr1. auto_derive; [exact I|]. field. Qed.

Lemma cr1_derivative v1 v2 v3 v4 t : is_derive (cr1 v1 v2 v3 v4) t (cr2 v1 v2 v3 v4 t).
Proof. unfold cr1, cr2. auto_derive; [exact I|]. field. Qed.

Theorem cr2_second_derivative v1 v2 v3 v4 t :
  is_derive_n (catmull_rom v1 v2 v3 v4) 2 t (cr2 v1 v2 v3 v4 t).
Proof.
  cbn [is_derive_n Derive_n].
  apply (is_derive_ext (cr1 v1 v2 v3 v4)); [|apply cr1_derivative].
  intros u. symmetry. apply is_derive_unique. apply catmull_rom_first_derivative.
Qed.

(* CatmullSurplusFold: the running binary64 sum of calculate_length, seeded
   with a NEGATIVE value a0 (the osu!-mode Catmull surplus), read over the
   reals.

   The sum c_0 = a0, c_{k+1} = fl(c_k + l_{k+1}) of values l_j that are not
   negative is monotone; as long as it has not reached a non-negative value
   it stays inside [a0, 0], so every rounding error is at most u * |a0|
   (u = 2^-53; a binary64 sum in the subnormal range is exact).  Hence
       c_N  is not negative   or   c_N >= a0 + sum_j l_j - N * u * |a0|,
   and the final sum is not negative as soon as
       |a0| * (1 + N * u) <= sum_j l_j        ([fold_low_nn]).
   Non-finite l_j (NaN, +inf) make the sum NaN / +inf, which is "not
   negative" and stays so; they count as 0 in the real sum (B2R). *)
From RM Require Import Model.ControlPoints Model.Curve Proofs.BezierRefine Proofs.LengthFacts
     Proofs.FloatNonneg Proofs.CurveDistNonneg Proofs.AdjustIEEEBase Proofs.AdjustIEEE.
From Flocq Require Import Core BinarySingleNaN.
From Coq Require Import Reals Lra Psatz Lia List.
Import ListNotations.
Open Scope R_scope.

Local Notation fin x := (is_finite x = true).

(* the real sum of a list of binary64 values (non-finite ones count as 0) *)
Fixpoint Rsum (ls : list F64) : R :=
  match ls with [] => 0 | l :: t => B2R l + Rsum t end.

Lemma Rsum_app a b : Rsum (a ++ b) = Rsum a + Rsum b.
Proof. induction a as [|x a IH]; cbn [Rsum app]; [ring|rewrite IH; ring]. Qed.

Lemma nn64_B2R_nonneg (l : F64) : nn64 l = true -> 0 <= B2R l.
Proof.
  intros H. destruct (is_finite l) eqn:F; [exact (@nnb_finite_R 53 1024 l F H)|].
  destruct l as [s|s| |s m e Hm]; try discriminate; cbn; lra.
Qed.

Lemma Rsum_nonneg ls : Forall (fun l => nn64 l = true) ls -> 0 <= Rsum ls.
Proof.
  induction 1 as [|l t Hl _ IH]; cbn [Rsum]; [lra|]. pose proof (nn64_B2R_nonneg l Hl). lra.
Qed.

Section Low.
  Variable a0 : F64.
  Hypothesis Fa0 : fin a0.
  Hypothesis Na0 : B2R a0 <= 0.

  (* the state of the running sum after k additions whose real values sum to A *)
  Definition low (A : R) (k : nat) (c : F64) : Prop :=
    nn64 c = true \/
    (fin c /\ B2R c <= 0 /\ B2R a0 <= B2R c /\ B2R a0 + A - INR k * u64 * (- B2R a0) <= B2R c).

  Lemma low_start : low 0 0 a0.
  Proof. right. split; [exact Fa0|]. split; [exact Na0|]. split; [lra|]. cbn [INR]. lra. Qed.

  Lemma low_step A k c l : low A k c -> nn64 l = true -> low (A + B2R l) (S k) (D.add c l).
  Proof.
    intros [Hc|(Fc & Hc0 & Hca & Hlow)] Hl; [left; exact (nn64_add c l Hc Hl)|].
    destruct (nn_cases l Hl) as [(Fl & Rl)|(_ & Hinf)]; [|left; exact (Hinf c Fc)].
    destruct (add_mixed_finite c l Fc Fl Hc0 Rl) as (Fs & Rs).
    destruct (Rle_or_lt 0 (B2R c + B2R l)) as [Hp|Hn].
    - left. apply (@finite_R_nnb 53 1024); [exact Fs|]. rewrite Rs.
      rewrite <- (round_0 radix2 (SpecFloat.fexp 53 1024) (round_mode mode_NE)). apply RN_mono. exact Hp.
    - right. split; [exact Fs|]. rewrite Rs.
      pose proof (RN_mono (B2R c + B2R l) 0 ltac:(lra)) as M0.
      rewrite (round_0 radix2 (SpecFloat.fexp 53 1024) (round_mode mode_NE)) in M0.
      pose proof (RN_mono (B2R a0) (B2R c + B2R l) ltac:(lra)) as M1. rewrite RN_B2R in M1.
      split; [exact M0|]. split; [exact M1|].
      destruct (RN_plus 53 1024 Hp64 (B2R c) (B2R l) (generic_format_B2R _ _ c) (generic_format_B2R _ _ l))
        as (d & E & B).
      rewrite uro64 in B. rewrite E. rewrite S_INR.
      apply Rabs_le_inv in B. pose proof u64_pos as U.
      (* x (1 + d) >= x + u x >= x - u |a0| for a0 <= x < 0 *)
      set (x := B2R c + B2R l) in *.
      assert (Hxa : B2R a0 <= x) by (unfold x; lra).
      assert (H1 : x + u64 * x <= x * (1 + d)) by nra.
      assert (H2 : u64 * B2R a0 <= u64 * x) by (apply Rmult_le_compat_l; lra).
      unfold x in *. lra.
  Qed.

  Lemma fold_low ls : forall A k c, low A k c -> Forall (fun l => nn64 l = true) ls ->
    low (A + Rsum ls) (k + length ls) (fold_left D.add ls c).
  Proof.
    induction ls as [|l t IH]; intros A k c Hc Hl.
    - cbn [Rsum fold_left length]. rewrite Rplus_0_r, Nat.add_0_r. exact Hc.
    - inversion Hl as [|? ? H1 H2]; subst. cbn [Rsum fold_left length].
      replace (A + (B2R l + Rsum t)) with ((A + B2R l) + Rsum t) by ring.
      replace (k + S (length t))%nat with (S k + length t)%nat by lia.
      apply IH; [apply low_step; assumption|exact H2].
  Qed.

  Lemma low_nn A k c : low A k c -> - B2R a0 * (1 + INR k * u64) <= A -> nn64 c = true.
  Proof.
    intros [Hc|(Fc & Hc0 & _ & Hlow)] HA; [exact Hc|].
    apply (@finite_R_nnb 53 1024); [exact Fc|]. nra.
  Qed.
End Low.

(* EncPathDec: reading the pieces of an encoded path string back with the
   decoder's path_spec (= convert_path_str, Proofs/PathStringFacts.v).
   The pieces come in text segments: a type letter, the first point (absent
   for the first segment: the origin) and the items of the segment -- an
   untyped point is written once ([IU]), an implicitly encoded segment start
   twice ([II]).  [cond] says when split_dups reads the items back. *)
From RM Require Import Model.EncPathSpec Model.HitObjectSpec Proofs.EncText Proofs.EncFmt Proofs.EncFloat Proofs.EncPathFloat
     Proofs.EncSimple Proofs.EncObjects Proofs.FramingFacts Proofs.PathStringFacts Proofs.EncPathEnc Proofs.NumFacts.
From RM Require Import Gen.Generated.
From Flocq Require Import BinarySingleNaN.
From Coq Require Import ZifyBool.
Open Scope Z_scope.

(* ---------- items and segments ---------- *)

Inductive item := IU (q : ZPt) | II (q : ZPt).
Definition Seg : Type := (PathType * ZPt * list item)%type.

Definition item_pts (it : item) : list ZPt := match it with IU q => [q] | II q => [q; q] end.
Definition item_out (ty : PathType) (it : item) : ZCP :=
  match it with IU q => (q, None) | II q => (q, Some ty) end.
Definition item_pt (it : item) : ZPt := match it with IU q => q | II q => q end.
Definition upt (q : ZPt) : PCP := mkPCP (ipos q) None.

Definition seg_out (s : Seg) : list PCP :=
  let '(t, q, its) := s in icp (q, Some t) :: map icp (map (item_out t) its).
Definition closing_of (sg : list Seg) : list ZPt :=
  match sg with (_, q, _) :: _ => [q] | [] => [] end.

(* when split_dups, at vertex index [i] with the previous vertex at [pq], reads the items back *)
Fixpoint cond (ty : PathType) (i : nat) (pq : ZPt) (its : list item) : bool :=
  match its with
  | [] => true
  | IU q :: r =>
      negb (zeq q pq && negb (is_cat ty && (1 <? i)%nat) && negb (nil_b r)) && cond ty (S i) q r
  | II q :: r =>
      negb (zeq q pq && negb (is_cat ty && (1 <? i)%nat)) && negb (is_cat ty) && negb (nil_b r) &&
      cond ty (S (S i)) q r
  end.

Definition small (q : ZPt) : Prop := Z.abs (fst q) < 2 ^ 24 /\ Z.abs (snd q) < 2 ^ 24.

Lemma small_of_abs_ok P q : Pok P -> abs_ok P q = true -> small q.
Proof. intros HP H. destruct (abs_ok_bounds P q HP H) as (A & B & _). split; assumption. Qed.

Lemma zeq_refl q : zeq q q = true.
Proof. unfold zeq. rewrite !Z.eqb_refl. reflexivity. Qed.

Lemma map_upt_nil l : is_nil (map upt l) = nil_b l.
Proof. destruct l; reflexivity. Qed.

Lemma pts_nil its : nil_b (flat_map item_pts its) = nil_b its.
Proof. destruct its as [|[q|q] r]; reflexivity. Qed.

(* ---------- split_dups on the items of a segment ---------- *)

Lemma split_items ty : forall its i prev pq seg,
  (1 <= i)%nat -> cp_pos prev = ipos pq -> small pq ->
  Forall (fun it => small (item_pt it)) its ->
  cond ty i pq its = true ->
  split_dups ty i prev seg (map upt (flat_map item_pts its))
  = seg ++ map icp (map (item_out ty) its).
Proof.
  induction its as [|it r IH]; intros i prev pq seg Hi Hprev Hpq Hall Hc.
  - cbn. rewrite app_nil_r. reflexivity.
  - inversion Hall as [|? ? Hq Hr]; subst. destruct it as [q|q]; cbn [item_pt] in Hq.
    + cbn [flat_map item_pts app map split_dups cond] in *.
      apply andb_true_iff in Hc. destruct Hc as [Hc1 Hc2].
      cbn [upt cp_pos]. rewrite Hprev.
      rewrite (pos_eqb_int q pq) by (destruct Hq, Hpq; assumption).
      rewrite map_upt_nil, pts_nil. unfold is_cat in Hc1. apply negb_true_iff in Hc1. rewrite Hc1.
      rewrite (IH (S i) (upt q) q (seg ++ [upt q])); try assumption; try lia; try reflexivity.
      rewrite <- app_assoc. reflexivity.
    + cbn [flat_map item_pts app map split_dups cond] in *.
      apply andb_true_iff in Hc. destruct Hc as [Hc Crec].
      apply andb_true_iff in Hc. destruct Hc as [Hc Cnil].
      apply andb_true_iff in Hc. destruct Hc as [Hc Ccat].
      cbn [upt cp_pos]. rewrite Hprev.
      rewrite (pos_eqb_int q pq) by (destruct Hq, Hpq; assumption).
      unfold is_cat in Hc. apply negb_true_iff in Hc.
      change (is_nil (mkPCP (ipos q) None :: map upt (flat_map item_pts r))) with false.
      cbn [negb]. rewrite andb_true_r, Hc.
      (* the second copy *)
      rewrite (pos_eqb_int q q) by (destruct Hq; assumption). rewrite zeq_refl.
      unfold is_cat in Ccat. apply negb_true_iff in Ccat. rewrite Ccat. cbn [andb negb].
      rewrite map_upt_nil, pts_nil, Cnil. cbv iota.
      rewrite mark_last_snoc.
      rewrite (IH (S (S i)) (upt q) q []); try assumption; try lia; try reflexivity.
      unfold pcp_with_type, icp. cbn [cp_pos fst snd app item_out map upt]. rewrite <- app_assoc. reflexivity.
Qed.

Section Dec.
  Variables (fmt_f64 : F64 -> str) (fmt_f32 : F32 -> str) (fmt_int : Z -> str).
  Hypothesis Hfmt : fmt_ok fmt_f64 fmt_f32 fmt_int.
  Hypothesis H32 : fmt_f32_int fmt_f32 fmt_int.
  Notation rline := (render fmt_f64 fmt_f32 fmt_int).
  Variable P : ZPt.
  Hypothesis HP : Pok P.
  Notation lstr := (letter_str fmt_f64 fmt_f32 fmt_int).
  Notation pstr := (pt_str fmt_f32 P).

  (* ---------- the pieces as text ---------- *)

  Lemma int_first n : exists c r, fmt_int n = c :: r /\ int_char c = true.
  Proof.
    destruct (fmt_int n) as [|c r] eqn:E; [exfalso; exact (int_nonempty' _ _ _ Hfmt n E)|].
    exists c, r. split; [reflexivity|].
    pose proof (int_chars _ _ _ Hfmt n) as H. rewrite E in H. cbn [forallb] in H.
    apply andb_true_iff in H. exact (proj1 H).
  Qed.

  Lemma int_char_not_alpha c : int_char c = true -> is_ascii_alpha c = false.
  Proof. unfold int_char, is_digit, is_ascii_alpha. lia. Qed.

  Lemma pstr_first q : abs_ok P q = true -> exists c r, pstr q = c :: r /\ is_ascii_alpha c = false.
  Proof.
    intros Hq. destruct (abs_ok_bounds P q HP Hq) as (_ & _ & B & _).
    unfold pt_str. rewrite H32 by (change (2 ^ 24) with 16777216; lia).
    destruct (int_first (fst P + fst q)) as (c & r & E & Hc). rewrite E.
    exists c. eexists. split; [reflexivity|]. apply int_char_not_alpha. exact Hc.
  Qed.

  Lemma pstr_no c q : plainc c = false -> c <> colon -> memb c (pstr q) = false.
  Proof.
    intros Hc Hne. unfold pt_str. rewrite memb_app, memb_cons.
    rewrite !(f32_no _ _ _ Hfmt c) by exact Hc.
    replace (c =? colon) with false by (unfold colon in *; lia). reflexivity.
  Qed.

  Definition pt_letter (t : PathType) : str :=
    if pt_kind t =? sk_bspline then
      match pt_degree t with Some d => path_letter_bspline :: fmt_int d | None => [path_letter_bspline] end
    else if pt_kind t =? sk_catmull then [67]
    else if pt_kind t =? sk_perfect then [path_letter_perfect]
    else [path_letter_linear].

  Lemma lstr_eq t : lstr t = pt_letter t.
  Proof.
    unfold letter_str, path_type_toks, pt_letter.
    destruct (pt_kind t =? sk_bspline).
    - destruct (pt_degree t); cbn; rewrite ?app_nil_r; reflexivity.
    - destruct (pt_kind t =? sk_catmull); [reflexivity|].
      destruct (pt_kind t =? sk_perfect); reflexivity.
  Qed.

  Lemma lstr_first t : exists c r, lstr t = c :: r /\ is_ascii_alpha c = true.
  Proof.
    rewrite lstr_eq. unfold pt_letter.
    destruct (pt_kind t =? sk_bspline).
    - destruct (pt_degree t); eexists; eexists; (split; [reflexivity|reflexivity]).
    - destruct (pt_kind t =? sk_catmull); [eexists; eexists; split; reflexivity|].
      destruct (pt_kind t =? sk_perfect); eexists; eexists; split; reflexivity.
  Qed.

  Lemma lstr_no c t : plainc c = false -> memb c (lstr t) = false.
  Proof.
    intros Hc. rewrite lstr_eq. unfold pt_letter.
    assert (H66 : (c =? path_letter_bspline) = false) by (unfold plainc, is_ws, path_letter_bspline in *; lia).
    assert (H67 : (c =? 67) = false) by (unfold plainc, is_ws in *; lia).
    assert (H80 : (c =? path_letter_perfect) = false) by (unfold plainc, is_ws, path_letter_perfect in *; lia).
    assert (H76 : (c =? path_letter_linear) = false) by (unfold plainc, is_ws, path_letter_linear in *; lia).
    destruct (pt_kind t =? sk_bspline).
    - destruct (pt_degree t); rewrite memb_cons, H66; [apply (int_no _ _ _ Hfmt); exact Hc|reflexivity].
    - destruct (pt_kind t =? sk_catmull); [rewrite memb_cons, H67; reflexivity|].
      destruct (pt_kind t =? sk_perfect); rewrite memb_cons, ?H80, ?H76; reflexivity.
  Qed.

  (* the letter is read back as the type *)
  Lemma letter_type t : pt_ok t = true -> path_type_of_str (lstr t) = t.
  Proof.
    intros H. rewrite lstr_eq. unfold pt_ok in H. unfold pt_letter.
    destruct t as [k d]. cbn [pt_kind pt_degree] in *.
    destruct (k =? sk_bspline) eqn:Ek.
    - assert (k = sk_bspline) by lia. subst k.
      destruct d as [d|]; cbn [path_type_of_str]; rewrite Z.eqb_refl.
      + rewrite (int_parse _ _ _ Hfmt d) by (unfold i32_min, i32_max in *; lia).
        replace (0 <? d) with true by lia. reflexivity.
      + reflexivity.
    - destruct d as [d|]; [rewrite andb_false_r in H; discriminate|]. rewrite andb_true_r in H.
      destruct (k =? sk_catmull) eqn:Ec; [assert (k = sk_catmull) by lia; subst k; reflexivity|].
      destruct (k =? sk_perfect) eqn:Ep; [assert (k = sk_perfect) by lia; subst k; reflexivity|].
      assert (k = sk_linear) by lia. subst k. reflexivity.
  Qed.

  (* ---------- read_point on a written point ---------- *)

  Lemma coord_text_parse n : Z.abs n <= 131072 ->
    omap trunc64 (pn_f64_lim coord_lim64 (fmt_f32 (S.of_Z n))) = Some (S.of_Z n).
  Proof.
    intros Hn. rewrite H32 by (change (2 ^ 24) with 16777216; lia).
    rewrite <- (f64_int _ _ _ Hfmt n) by lia.
    destruct (coord64_in_limit n Hn) as (L1 & L2 & L3 & L4).
    unfold pn_f64_lim. change coord_lim64 with (D.of_Z 131072). rewrite (plain_trim _ (f64_chars _ _ _ Hfmt _)).
    rewrite (f64_parse _ _ _ Hfmt (D.of_Z n) L4). rewrite L1, L2, L3. cbn [omap]. f_equal.
    unfold trunc64. rewrite f64_as_i32_of_Z by lia. reflexivity.
  Qed.

  Lemma read_point_pstr q : abs_ok P q = true -> read_point (pstr q) (ipos P) = Some (upt q).
  Proof.
    intros Hq. destruct (abs_ok_bounds P q HP Hq) as (B1 & B2 & B3 & B4). destruct HP as [P1 P2].
    change (2 ^ 24) with 16777216 in *.
    unfold read_point, pt_str. change 58 with colon.
    rewrite (split_on_field colon) by (apply (f32_no _ _ _ Hfmt); reflexivity).
    rewrite (split_on_no_sep colon) by (apply memb_false_In, (f32_no _ _ _ Hfmt); reflexivity).
    pose proof (coord_text_parse (fst P + fst q) B3) as X.
    pose proof (coord_text_parse (snd P + snd q) B4) as Y.
    destruct (pn_f64_lim coord_lim64 (fmt_f32 (S.of_Z (fst P + fst q)))) as [x|]; [|discriminate].
    destruct (pn_f64_lim coord_lim64 (fmt_f32 (S.of_Z (snd P + snd q)))) as [y|]; [|discriminate].
    cbn [omap] in X, Y. injection X as X. injection Y as Y. rewrite X, Y.
    unfold upt, pos_sub, ipos. cbn [px py fst snd].
    rewrite !S_sub_of_Z by (change (2 ^ 24) with 16777216; lia).
    replace (fst P + fst q - fst P) with (fst q) by lia.
    replace (snd P + snd q - snd P) with (snd q) by lia. reflexivity.
  Qed.

  (* ---------- the pieces of segments ---------- *)

  Definition item_strs (it : item) : list str :=
    match it with IU q => [pstr q] | II q => [pstr q; pstr q] end.
  Definition seg_strs (s : Seg) : list str :=
    let '(t, q, its) := s in lstr t :: pstr q :: flat_map item_strs its.

  Definition items_ok (its : list item) : Prop := Forall (fun it => abs_ok P (item_pt it) = true) its.

  Lemma read_all_items its : items_ok its ->
    read_all (flat_map item_strs its) (ipos P) = Some (map upt (flat_map item_pts its)).
  Proof.
    induction its as [|it r IH]; intros H; [reflexivity|].
    inversion H as [|? ? Hq Hr]; subst. specialize (IH Hr).
    destruct it as [q|q]; cbn [item_pt] in Hq; cbn [flat_map item_strs item_pts app read_all map];
      rewrite !(read_point_pstr q Hq), IH; reflexivity.
  Qed.

  (* point pieces are absorbed into the current segment *)
  Lemma absorb_points first : forall pts cur rest,
    Forall (fun s => exists c r, s = c :: r /\ is_ascii_alpha c = false) pts ->
    path_segs first cur (pts ++ rest) (ipos P) = path_segs first (cur ++ pts) rest (ipos P).
  Proof.
    induction pts as [|s pts IH]; intros cur rest H.
    - rewrite app_nil_r. reflexivity.
    - inversion H as [|? ? (c & r & -> & Hc) Hr]; subst.
      cbn [app path_segs]. rewrite Hc. etransitivity; [apply IH; exact Hr|]. rewrite <- app_assoc. reflexivity.
  Qed.

  Lemma item_strs_points its : items_ok its ->
    Forall (fun s => exists c r, s = c :: r /\ is_ascii_alpha c = false) (flat_map item_strs its).
  Proof.
    induction its as [|it r IH]; intros H; [constructor|].
    inversion H as [|? ? Hq Hr]; subst. specialize (IH Hr).
    destruct it as [q|q]; cbn [item_pt] in Hq; cbn [flat_map item_strs app];
      repeat (constructor; [exact (pstr_first q Hq)|]); exact IH.
  Qed.

  (* ---------- one segment ---------- *)

  (* [seg_good first t q its cl]: the segment of type [t] starting at [q] with items [its],
     closed by the points [cl] (first point of the next segment, if any), is read back *)
  Definition seg_good (t : PathType) (q : ZPt) (its : list item) (cl : list ZPt) : Prop :=
    pt_ok t = true /\ abs_ok P q = true /\ items_ok its /\ Forall (fun c => abs_ok P c = true) cl /\
    cond t 1 q its = true /\
    seg_type t (upt q :: map upt (flat_map item_pts its) ++ map upt cl) = t.

  Lemma origin_default : pcp_default = upt (0, 0).
  Proof.
    unfold pcp_default, upt, ipos. cbn [fst snd]. f_equal.
  Qed.

  Lemma items_small its : items_ok its -> Forall (fun it => small (item_pt it)) its.
  Proof. intros H. eapply Forall_impl; [|exact H]. intros it Hit. exact (small_of_abs_ok P _ HP Hit). Qed.

  Lemma seg_spec_good first t q its cl cur closing :
    seg_good t q its cl ->
    (first = true /\ q = (0, 0) /\ cur = lstr t :: flat_map item_strs its) \/
    (first = false /\ cur = seg_strs (t, q, its)) ->
    (cl = [] /\ closing = None) \/ (exists c, cl = [c] /\ closing = Some (pstr c)) ->
    seg_spec first cur closing (ipos P) = Some (seg_out (t, q, its)).
  Proof.
    intros (Ht & Hq & Hits & Hcl & Hc & Hty) Hcur Hclosing.
    assert (Hcl' : (match closing with
                    | Some c => omap (fun p => [p]) (read_point c (ipos P))
                    | None => Some [] end) = Some (map upt cl)).
    { destruct Hclosing as [[-> ->]|(c & -> & ->)]; [reflexivity|].
      inversion Hcl; subst. rewrite read_point_pstr by assumption. reflexivity. }
    assert (Hsplit : split_dups t 1 (icp (q, Some t)) [icp (q, Some t)] (map upt (flat_map item_pts its))
                     = seg_out (t, q, its)).
    { exact (split_items t its 1 (icp (q, Some t)) q [icp (q, Some t)] (le_n 1) eq_refl
                         (small_of_abs_ok P q HP Hq) (items_small its Hits) Hc). }
    destruct Hcur as [(-> & -> & ->)|(-> & ->)]; unfold seg_spec.
    - rewrite (read_all_items its Hits), Hcl'. rewrite (letter_type t Ht).
      rewrite origin_default. cbn [app].
      unfold str, char in *. rewrite Hty.
      change (pcp_with_type (upt (0, 0)) t) with (icp ((0, 0), Some t)).
      apply f_equal. exact Hsplit.
    - cbn [seg_strs]. cbn [read_all]. rewrite (read_point_pstr q Hq), (read_all_items its Hits), Hcl'.
      rewrite (letter_type t Ht). cbn [app]. unfold str, char in *. rewrite Hty.
      change (pcp_with_type (upt q) t) with (icp (q, Some t)).
      apply f_equal. exact Hsplit.
  Qed.

  (* ---------- all segments ---------- *)

  Fixpoint segs_good (t : PathType) (q : ZPt) (its : list item) (sg : list Seg) : Prop :=
    seg_good t q its (closing_of sg) /\
    match sg with
    | [] => True
    | (t', q', its') :: sg' => segs_good t' q' its' sg'
    end.

  Lemma seg_strs_head s : exists c r rest, seg_strs s = (c :: r) :: rest /\ is_ascii_alpha c = true.
  Proof.
    destruct s as [[t q] its]. destruct (lstr_first t) as (c & r & E & Hc).
    exists c, r. eexists. cbn [seg_strs]. rewrite E. split; [reflexivity|exact Hc].
  Qed.

  Lemma segs_good_head t q its sg : segs_good t q its sg -> seg_good t q its (closing_of sg).
  Proof. destruct sg as [|[[t' q'] its'] sg']; cbn [segs_good]; intros [H _]; exact H. Qed.

  Lemma path_segs_letter first cur c r rest : is_ascii_alpha c = true ->
    path_segs first cur ((c :: r) :: rest) (ipos P)
    = match seg_spec first cur (fst (next rest)) (ipos P) with
      | Some a => let '(b, ok) := path_segs false [c :: r] rest (ipos P) in (a ++ b, ok)
      | None => ([], false)
      end.
  Proof. intros H. cbn [path_segs]. rewrite H. reflexivity. Qed.

  Lemma segs_decode : forall sg first t q its cur,
    segs_good t q its sg ->
    (first = true /\ q = (0, 0) /\ cur = lstr t :: flat_map item_strs its) \/
    (first = false /\ cur = seg_strs (t, q, its)) ->
    path_segs first cur (flat_map seg_strs sg) (ipos P)
    = (seg_out (t, q, its) ++ flat_map seg_out sg, true).
  Proof.
    induction sg as [|s sg IH]; intros first t q its cur Hg Hcur.
    - destruct Hg as [Hg _]. cbn [flat_map path_segs closing_of] in *.
      rewrite (seg_spec_good first t q its [] cur None Hg Hcur) by (left; split; reflexivity).
      rewrite app_nil_r. reflexivity.
    - destruct s as [[t' q'] its']. destruct Hg as [Hg Hg'].
      cbn [closing_of] in Hg.
      destruct (lstr_first t') as (c & r & E & Hc).
      pose proof (segs_good_head _ _ _ _ Hg') as (_ & Hq' & Hits' & _).
      cbn [flat_map seg_strs app]. rewrite E. rewrite (path_segs_letter first cur c r _ Hc). cbn [next fst].
      pose proof (seg_spec_good first t q its [q'] cur (Some (pstr q')) Hg Hcur
                    (or_intror (ex_intro _ q' (conj eq_refl eq_refl)))) as X.
      assert (Habs : path_segs false [lstr t'] ((pstr q' :: flat_map item_strs its') ++ flat_map seg_strs sg) (ipos P)
                     = path_segs false ([lstr t'] ++ pstr q' :: flat_map item_strs its') (flat_map seg_strs sg) (ipos P)).
      { apply absorb_points. constructor; [exact (pstr_first q' Hq')|exact (item_strs_points its' Hits')]. }
      pose proof (IH false t' q' its' (lstr t' :: pstr q' :: flat_map item_strs its') Hg'
                     (or_intror (conj eq_refl eq_refl))) as Y.
      cbn [app] in Habs. rewrite E in Habs, Y. unfold str, char in *. rewrite X, Habs, Y.
      reflexivity.
  Qed.
End Dec.

(* Enc2SvReal: the real-number core of "a slider velocity of the decoder's image survives the
   encoder's -100/sv and the decoder's 100/-x":

     for binary64 numbers x > 0 and S = RN(100 / x) in the normal range,
         RN(100 / RN(100 / S)) = S.

   (RN = round to nearest, ties to even.)  With y = RN(100 / S) and m = 100 / S: when y lies
   between x and m, 100 / y lies between 100 / x and S and monotonicity of RN suffices.  When m
   lies strictly between x and y, convexity of 1/t excludes y > m (unless S is a power of two, in
   which case m is a binary64 number and y = m).  The remaining case y < m < x is arithmetic:
   with y = Y * ulp y and S = T * ulp S (integer significands), a failure forces
   (Y + 1)(2Y + 1) = 200 * 2^k or Y (2Y + 1) = 200 * 2^k, so the odd number 2Y + 1 > 2^53 would
   divide 25.  (The statement is false for constants with a large odd part.) *)
From Flocq Require Import Core BinarySingleNaN.
From Coq Require Import Reals Lra Lia ZArith Znumtheory Psatz.
Open Scope R_scope.

Local Notation fexp := (SpecFloat.fexp 53 1024).
Local Notation F := (generic_format radix2 fexp).
Local Notation RN := (round radix2 fexp ZnearestE).
Local Notation ulp := (ulp radix2 fexp).
Local Notation succ := (succ radix2 fexp).
Local Notation pred := (pred radix2 fexp).
Local Notation p2 := (bpow radix2).

Local Instance Vexp : Valid_exp fexp := fexp_correct 53 1024 eq_refl.
Local Instance Mexp : Monotone_exp fexp := fexp_monotone 53 1024.

Lemma RN_le x y : x <= y -> RN x <= RN y.
Proof. intros H. apply round_le; [exact Vexp|apply valid_rnd_N|exact H]. Qed.

Lemma RN_F x : F x -> RN x = x.
Proof. intros H. apply round_generic; [apply valid_rnd_N|exact H]. Qed.

Lemma F_RN x : F (RN x).
Proof. apply generic_format_round; [exact Vexp|apply valid_rnd_N]. Qed.

(* ---------- rounding to S: where the argument can lie ---------- *)

Lemma RN_sandwich z1 z z2 S : z1 <= z <= z2 -> RN z1 = S -> RN z2 = S -> RN z = S.
Proof.
  intros [H1 H2] E1 E2. apply Rle_antisym.
  - rewrite <- E2. apply RN_le. exact H2.
  - rewrite <- E1. apply RN_le. exact H1.
Qed.

Lemma pred_ge_minus_ulp S : F S -> 0 < S -> S - ulp S <= pred S.
Proof.
  intros FS HS. pose proof (pred_plus_ulp radix2 fexp S HS FS) as H.
  pose proof (pred_ge_0 radix2 fexp S HS FS) as H0.
  assert (Hle : pred S <= S) by (left; apply pred_lt_id; lra).
  pose proof (ulp_le_pos radix2 fexp (pred S) S H0 Hle) as Hu. lra.
Qed.

(* RN z = S  ==>  S - ulp S / 2 <= z <= S + ulp S / 2 *)
Lemma rn_upper S z : F S -> 0 < S -> RN z = S -> z <= S + ulp S / 2.
Proof.
  intros FS HS E. destruct (Rle_or_lt z (S + ulp S / 2)) as [H|H]; [exact H|exfalso].
  assert (Hs : succ S = S + ulp S) by (apply succ_eq_pos; lra).
  pose proof (round_N_ge_midp radix2 fexp (fun x => negb (Z.even x)) (succ S) z (generic_format_succ radix2 fexp S FS)) as G.
  rewrite (pred_succ radix2 fexp S FS) in G.
  assert (Hm : (succ S + S) / 2 < z) by (rewrite Hs; lra).
  specialize (G Hm). change (round radix2 fexp (Znearest (fun x => negb (Z.even x))) z) with (RN z) in G.
  rewrite E in G. pose proof (succ_gt_id radix2 fexp S ltac:(lra)). lra.
Qed.

Lemma rn_lower S z : F S -> 0 < S -> RN z = S -> S - ulp S / 2 <= z.
Proof.
  intros FS HS E. destruct (Rle_or_lt (S - ulp S / 2) z) as [H|H]; [exact H|exfalso].
  pose proof (pred_ge_minus_ulp S FS HS) as Hp.
  pose proof (round_N_le_midp radix2 fexp (fun x => negb (Z.even x)) (pred S) z (generic_format_pred radix2 fexp S FS)) as G.
  rewrite (succ_pred radix2 fexp S FS) in G.
  assert (Hm : z < (pred S + S) / 2) by lra.
  specialize (G Hm). change (round radix2 fexp (Znearest (fun x => negb (Z.even x))) z) with (RN z) in G.
  rewrite E in G. pose proof (pred_lt_id radix2 fexp S ltac:(lra)). lra.
Qed.

(* the converses, strict *)
Lemma rn_le_S S z : F S -> 0 < S -> z < S + ulp S / 2 -> RN z <= S.
Proof.
  intros FS HS H. assert (Hs : succ S = S + ulp S) by (apply succ_eq_pos; lra).
  apply (round_N_le_midp radix2 fexp (fun x => negb (Z.even x)) S z FS). rewrite Hs. lra.
Qed.

Lemma rn_ge_S S z : F S -> 0 < S -> (S + pred S) / 2 < z -> S <= RN z.
Proof. intros FS HS H. exact (round_N_ge_midp radix2 fexp (fun x => negb (Z.even x)) S z FS H). Qed.

(* ---------- significands ---------- *)

Lemma ulp_cexp y : y <> 0 -> ulp y = p2 (cexp radix2 fexp y).
Proof. intros H. apply ulp_neq_0. exact H. Qed.

(* a positive binary64 number is an integer multiple of its ulp *)
Lemma mant_exists y : F y -> 0 < y -> exists M : Z, y = IZR M * ulp y /\ (0 < M)%Z.
Proof.
  intros Fy Hy. exists (Ztrunc (scaled_mantissa radix2 fexp y)).
  assert (E : y = IZR (Ztrunc (scaled_mantissa radix2 fexp y)) * ulp y).
  { rewrite ulp_cexp by lra. rewrite <- (scaled_mantissa_generic radix2 fexp y Fy).
    symmetry. apply scaled_mantissa_mult_bpow. }
  split; [exact E|].
  apply lt_IZR. pose proof (ulp_cexp y ltac:(lra)) as Eu. pose proof (bpow_gt_0 radix2 (cexp radix2 fexp y)) as Pu.
  rewrite <- Eu in Pu. destruct (Rle_or_lt (IZR (Ztrunc (scaled_mantissa radix2 fexp y))) 0) as [H|H]; [|exact H].
  exfalso. assert (IZR (Ztrunc (scaled_mantissa radix2 fexp y)) * ulp y <= 0) by nra. lra.
Qed.

(* in the normal range the significand has 53 bits *)
Lemma mant_big y M : F y -> p2 (-1000) <= y -> y = IZR M * ulp y -> (2 ^ 52 <= M)%Z.
Proof.
  intros Fy Hy E. pose proof (bpow_gt_0 radix2 (-1000)) as P. assert (Hy0 : 0 < y) by lra.
  pose (e := mag_val radix2 y (mag radix2 y)).
  assert (Habs : Rabs y = y) by (apply Rabs_pos_eq; lra).
  assert (He : (-1000 < e)%Z).
  { apply (lt_bpow radix2). apply Rle_lt_trans with (Rabs y); [rewrite Habs; exact Hy|].
    apply bpow_mag_gt. }
  assert (Hu : ulp y = p2 (e - 53)).
  { rewrite ulp_cexp by lra. unfold cexp. fold e. f_equal. unfold SpecFloat.fexp, SpecFloat.emin. lia. }
  assert (Hlo : p2 (e - 1) <= y).
  { apply Rle_trans with (Rabs y); [apply bpow_mag_le; lra|rewrite Habs; lra]. }
  apply le_IZR. change (IZR (2 ^ 52)) with (p2 52).
  pose proof (bpow_gt_0 radix2 (e - 53)) as Pu.
  apply Rmult_le_reg_r with (p2 (e - 53)); [exact Pu|].
  rewrite <- bpow_plus. replace (52 + (e - 53))%Z with (e - 1)%Z by lia.
  rewrite <- Hu, <- E. exact Hlo.
Qed.

(* ---------- the arithmetic core ---------- *)

Lemma odd_rel_prime_pow2 (Y j : Z) : (0 <= j)%Z -> rel_prime (2 * Y + 1) (2 ^ j).
Proof.
  intros Hj. apply Zpow_facts.rel_prime_Zpower_r; [exact Hj|].
  apply bezout_rel_prime. apply (Bezout_intro _ _ _ 1 (- Y)). lia.
Qed.

Lemma odd_divides_25 (Y W j : Z) : (13 <= Y)%Z -> (0 <= j)%Z ->
  (W * (2 * Y + 1) = 25 * 2 ^ j)%Z -> False.
Proof.
  intros HY Hj E.
  assert (D : (2 * Y + 1 | 2 ^ j * 25)%Z) by (exists W; lia).
  apply Gauss in D; [|apply odd_rel_prime_pow2; exact Hj].
  apply Z.divide_pos_le in D; lia.
Qed.

(* no integer Y >= 13 has W (2Y + 1) = 200 * 2^k for an integer W and an integer exponent k *)
Lemma no_solution (Y W k : Z) : (13 <= Y)%Z -> IZR (W * (2 * Y + 1)) = 200 * p2 k -> False.
Proof.
  intros HY E. destruct (Z_le_gt_dec 0 k) as [Hk|Hk].
  - rewrite <- (IZR_Zpower radix2 k Hk) in E. change (radix_val radix2) with 2%Z in E.
    rewrite <- (mult_IZR 200) in E. apply eq_IZR in E.
    apply (odd_divides_25 Y W (k + 3)); [exact HY|lia|].
    rewrite Z.pow_add_r by lia. lia.
  - assert (E' : IZR (W * (2 * Y + 1)) * p2 (- k) = 200).
    { rewrite E, Rmult_assoc, <- bpow_plus. replace (k + - k)%Z with 0%Z by lia. cbn. lra. }
    rewrite <- (IZR_Zpower radix2 (- k)) in E' by lia. change (radix_val radix2) with 2%Z in E'.
    rewrite <- mult_IZR in E'. apply eq_IZR in E'.
    (* (2Y+1) divides 200 = 25 * 8 *)
    assert (D : (2 * Y + 1 | 2 ^ 3 * 25)%Z) by (exists (W * 2 ^ (- k))%Z; lia).
    apply Gauss in D; [|apply odd_rel_prime_pow2; lia].
    apply Z.divide_pos_le in D; lia.
Qed.

(* ---------- 100 * 2^j is a binary64 number ---------- *)

Lemma F_100_pow2 (j : Z) : (-1000 <= j <= 1000)%Z -> F (100 * p2 j).
Proof.
  intros Hj. replace (100 * p2 j) with (F2R (Float radix2 100 j)) by (unfold F2R; cbn [Fnum Fexp]; lra).
  apply generic_format_F2R. intros _. unfold cexp. rewrite mag_F2R by discriminate.
  assert (M : (mag radix2 (IZR 100) = 7 :> Z)%Z).
  { apply mag_unique. rewrite Rabs_pos_eq by lra. change (p2 (7 - 1)) with 64. change (p2 7) with 128. lra. }
  rewrite M. unfold SpecFloat.fexp, SpecFloat.emin. lia.
Qed.

(* ---------- the theorem ---------- *)

Section Main.
  Variables x S : R.
  Hypothesis Fx : F x.
  Hypothesis Hx : 0 < x.
  Hypothesis ES : RN (100 / x) = S.
  Hypothesis HS : p2 (-4) <= S <= p2 4.

  Let m := 100 / S.
  Let y := RN m.

  Lemma S_pos : 0 < S.
  Proof. pose proof (bpow_gt_0 radix2 (-4)). lra. Qed.

  Lemma FS : F S.
  Proof. rewrite <- ES. apply F_RN. Qed.

  Lemma m_pos : 0 < m.
  Proof. unfold m. apply Rdiv_lt_0_compat; [lra|exact S_pos]. Qed.

  Lemma m_S : 100 / m = S.
  Proof. unfold m. pose proof S_pos. field. lra. Qed.

  Lemma m_bounds : p2 2 <= m <= p2 11.
  Proof.
    pose proof S_pos as P. destruct HS as [H1 H2]. change (p2 (-4)) with (/ 16) in H1. change (p2 4) with 16 in H2.
    change (p2 2) with 4. change (p2 11) with 2048. unfold m. split.
    - apply Rmult_le_reg_r with S; [exact P|]. unfold Rdiv. rewrite Rmult_assoc, Rinv_l by lra. lra.
    - apply Rmult_le_reg_r with S; [exact P|]. unfold Rdiv. rewrite Rmult_assoc, Rinv_l by lra. lra.
  Qed.

  Lemma Fy : F y. Proof. apply F_RN. Qed.

  Lemma y_bounds : p2 2 <= y <= p2 11.
  Proof.
    destruct m_bounds as [H1 H2]. unfold y. split.
    - rewrite <- (RN_F (p2 2)) by (apply generic_format_bpow; unfold SpecFloat.fexp, SpecFloat.emin; lia). apply RN_le. exact H1.
    - rewrite <- (RN_F (p2 11)) by (apply generic_format_bpow; unfold SpecFloat.fexp, SpecFloat.emin; lia). apply RN_le. exact H2.
  Qed.

  Lemma y_pos : 0 < y.
  Proof. pose proof y_bounds as [H _]. change (p2 2) with 4 in H. lra. Qed.

  (* y is a nearest binary64 number to m *)
  Lemma y_nearest g : F g -> Rabs (y - m) <= Rabs (g - m).
  Proof. intros Fg. exact (proj2 (round_N_pt radix2 fexp (fun x => negb (Z.even x)) m) g Fg). Qed.

  Lemma inv_le a b : 0 < a -> a <= b -> 100 / b <= 100 / a.
  Proof. intros Ha Hab. unfold Rdiv. apply Rmult_le_compat_l; [lra|]. apply Rinv_le_contravar; assumption. Qed.

  (* case y < m < x *)
  Lemma case_below : y < m -> m < x -> RN (100 / y) = S.
  Proof.
    intros Hym Hmx. pose proof S_pos as PS. pose proof y_pos as Py. pose proof m_pos as Pm. pose proof FS as FS'. pose proof Fy as Fy'.
    assert (Hge : S <= RN (100 / y)).
    { rewrite <- (RN_F S FS') at 1. apply RN_le. rewrite <- m_S. apply inv_le; lra. }
    destruct (Req_dec (RN (100 / y)) S) as [E|NE]; [exact E|exfalso].
    assert (Hgt : S < RN (100 / y)) by lra.
    (* (ii) 100 / y is at least half an ulp above S *)
    assert (Hii : S + ulp S / 2 <= 100 / y).
    { destruct (Rle_or_lt (S + ulp S / 2) (100 / y)) as [H|H]; [exact H|].
      pose proof (rn_le_S S (100 / y) FS' PS H). lra. }
    (* (iii) m is at most half an ulp above y *)
    assert (Hiii : m <= y + ulp y / 2) by (apply (rn_upper y m Fy' Py); reflexivity).
    (* the successor of y still rounds to S *)
    assert (Hsucc : succ y = y + ulp y) by (apply succ_eq_pos; lra).
    pose proof (ulp_ge_0 radix2 fexp y) as Uy0.
    assert (Uy : 0 < ulp y).
    { rewrite ulp_cexp by lra. apply bpow_gt_0. }
    assert (Hsx : succ y <= x).
    { apply (succ_le_lt radix2 fexp y x Fy' Fx). lra. }
    assert (ES' : RN (100 / (y + ulp y)) = S).
    { apply (RN_sandwich (100 / x) _ S); [|exact ES|exact (RN_F S FS')]. split.
      - apply inv_le; lra.
      - rewrite <- m_S. apply inv_le; lra. }
    (* (i) *)
    assert (Hi : S - ulp S / 2 <= 100 / (y + ulp y)) by (apply (rn_lower S _ FS' PS ES')).
    (* significands *)
    destruct (mant_exists y Fy' Py) as (Y & EY & PY).
    destruct (mant_exists S FS' PS) as (T & ET & PT).
    assert (US : 0 < ulp S) by (rewrite ulp_cexp by lra; apply bpow_gt_0).
    assert (BY : (2 ^ 52 <= Y)%Z).
    { apply (mant_big y Y Fy'); [|exact EY]. pose proof y_bounds as [H _].
      apply Rle_trans with (p2 2); [apply bpow_le; lia|exact H]. }
    set (uy := ulp y) in *. set (uS := ulp S) in *. set (ry := IZR Y) in *. set (rt := IZR T) in *.
    (* the three inequalities, cleared of divisions *)
    assert (Hi' : (S - uS / 2) * (y + uy) <= 100).
    { apply Rmult_le_reg_r with (/ (y + uy)); [apply Rinv_0_lt_compat; lra|].
      rewrite Rmult_assoc, Rinv_r by lra. unfold Rdiv in Hi. lra. }
    assert (Hii' : (S + uS / 2) * y <= 100).
    { apply Rmult_le_reg_r with (/ y); [apply Rinv_0_lt_compat; lra|].
      rewrite Rmult_assoc, Rinv_r by lra. unfold Rdiv in Hii. lra. }
    assert (Hiii' : 100 <= S * (y + uy / 2)).
    { unfold m in Hiii. apply Rmult_le_reg_r with (/ S); [apply Rinv_0_lt_compat; lra|].
      replace (S * (y + uy / 2) * / S) with (y + uy / 2) by (field; lra). unfold Rdiv in Hiii. lra. }
    rewrite EY, ET in Hi', Hii', Hiii'.
    set (P := uS * uy) in *. assert (PP : 0 < P) by (unfold P; nra).
    assert (Gi : P * ((rt - /2) * (ry + 1)) <= 100) by (unfold P; nra).
    assert (Gii : P * ((rt + /2) * ry) <= 100) by (unfold P; nra).
    assert (Giii : 100 <= P * (rt * (ry + /2))) by (unfold P; nra).
    assert (C1 : (rt - /2) * (ry + 1) <= rt * (ry + /2)).
    { apply Rmult_le_reg_l with P; [exact PP|]. lra. }
    assert (C2 : (rt + /2) * ry <= rt * (ry + /2)).
    { apply Rmult_le_reg_l with P; [exact PP|]. lra. }
    assert (D1 : rt <= ry + 1) by nra.
    assert (D2 : ry <= rt) by nra.
    assert (Z1 : (T <= Y + 1)%Z) by (apply le_IZR; rewrite plus_IZR; exact D1).
    assert (Z2 : (Y <= T)%Z) by (apply le_IZR; exact D2).
    (* 1 / P is a power of two *)
    assert (EP : / P = p2 (- (cexp radix2 fexp S + cexp radix2 fexp y))).
    { unfold P, uS, uy. rewrite !ulp_cexp by lra. rewrite <- bpow_plus, bpow_opp. reflexivity. }
    assert (Hcases : T = Y \/ T = (Y + 1)%Z) by lia.
    destruct Hcases as [-> | ->].
    - (* T = Y: P * Y (Y + 1/2) = 100 *)
      assert (Eq : P * (ry * (ry + /2)) = 100).
      { apply Rle_antisym; [|exact Giii]. replace (ry * (ry + /2)) with ((ry + /2) * ry) by ring. exact Gii. }
      apply (no_solution Y Y (- (cexp radix2 fexp S + cexp radix2 fexp y))); [lia|].
      rewrite <- EP. rewrite mult_IZR, plus_IZR, mult_IZR. fold ry.
      apply Rmult_eq_reg_l with P; [|lra]. replace (P * (200 * / P)) with 200 by (field; lra). nra.
    - (* T = Y + 1: P * (Y + 1) (Y + 1/2) = 100 *)
      assert (Ert : rt = ry + 1) by (unfold rt, ry; rewrite plus_IZR; reflexivity).
      rewrite Ert in Gi, Giii.
      assert (Eq : P * ((ry + 1) * (ry + /2)) = 100).
      { apply Rle_antisym; [|exact Giii].
        assert (Eqq : (ry + 1) * (ry + /2) = (ry + 1 - /2) * (ry + 1)) by (field_simplify; lra || ring).
        rewrite Eqq. exact Gi. }
      apply (no_solution Y (Y + 1) (- (cexp radix2 fexp S + cexp radix2 fexp y))); [lia|].
      rewrite <- EP. rewrite mult_IZR, !plus_IZR, mult_IZR. fold ry.
      apply Rmult_eq_reg_l with P; [|lra]. replace (P * (200 * / P)) with 200 by (field; lra). nra.
  Qed.

  (* case x < m < y *)
  Lemma case_above : m < y -> x < m -> RN (100 / y) = S.
  Proof.
    intros Hmy Hxm. pose proof S_pos as PS. pose proof y_pos as Py. pose proof m_pos as Pm. pose proof FS as FS'.
    assert (Hle : RN (100 / y) <= S).
    { apply Rle_trans with (RN S); [|rewrite (RN_F S FS'); lra]. apply RN_le. rewrite <- m_S. apply inv_le; lra. }
    destruct (Req_dec (RN (100 / y)) S) as [E|NE]; [exact E|exfalso].
    assert (Hlt : RN (100 / y) < S) by lra.
    (* S is not a power of two: otherwise m is a binary64 number and y = m *)
    pose (e := mag_val radix2 S (mag radix2 S)).
    assert (Hpow : S <> p2 (e - 1)).
    { intros Ep. assert (Fm : F m).
      { unfold m. rewrite Ep. replace (100 / p2 (e - 1)) with (100 * p2 (- (e - 1))) by (rewrite bpow_opp; reflexivity).
        apply F_100_pow2. destruct HS as [H1 H2]. rewrite Ep in H1, H2. apply le_bpow in H1. apply le_bpow in H2. lia. }
      unfold y in Hmy. rewrite (RN_F m Fm) in Hmy. lra. }
    assert (Hpred : pred S = S - ulp S).
    { rewrite pred_eq_pos by lra. unfold pred_pos. fold e. rewrite Req_bool_false by exact Hpow. reflexivity. }
    (* (ii') 100 / y is at least half an ulp below S *)
    assert (Hii : 100 / y <= S - ulp S / 2).
    { destruct (Rle_or_lt (100 / y) (S - ulp S / 2)) as [H|H]; [exact H|].
      assert (H' : (S + pred S) / 2 < 100 / y) by (rewrite Hpred; lra).
      pose proof (rn_ge_S S (100 / y) FS' PS H'). lra. }
    (* (i') *)
    assert (Hi : 100 / x <= S + ulp S / 2) by (apply (rn_upper S _ FS' PS ES)).
    (* (iii') *)
    pose proof (y_nearest x Fx) as Hn. rewrite Rabs_pos_eq in Hn by lra. rewrite Rabs_left in Hn by lra.
    assert (US : 0 < ulp S) by (rewrite ulp_cexp by lra; apply bpow_gt_0).
    assert (USle : ulp S / 2 < S).
    { pose proof (pred_ge_0 radix2 fexp S PS FS') as H0. rewrite Hpred in H0. lra. }
    assert (Hi' : 100 <= (S + ulp S / 2) * x).
    { apply Rmult_le_reg_r with (/ x); [apply Rinv_0_lt_compat; lra|].
      rewrite Rmult_assoc, Rinv_r by lra. unfold Rdiv in Hi. lra. }
    assert (Hii' : 100 <= (S - ulp S / 2) * y).
    { apply Rmult_le_reg_r with (/ y); [apply Rinv_0_lt_compat; lra|].
      rewrite Rmult_assoc, Rinv_r by lra. unfold Rdiv in Hii. lra. }
    assert (Hiii' : S * (x + y) <= 200).
    { assert (x + y <= 2 * m) by lra. unfold m in H.
      apply Rmult_le_reg_r with (/ S); [apply Rinv_0_lt_compat; lra|].
      replace (S * (x + y) * / S) with (x + y) by (field; lra). unfold Rdiv in H. lra. }
    nra.
  Qed.

  Theorem three_divisions : RN (100 / RN (100 / S)) = S.
  Proof.
    fold m. fold y. pose proof S_pos as PS. pose proof y_pos as Py. pose proof m_pos as Pm. pose proof FS as FS'.
    destruct (Rle_or_lt y m) as [Hym|Hmy].
    - (* y <= m *)
      destruct (Rle_or_lt x y) as [Hxy|Hyx].
      + apply (RN_sandwich S _ (100 / x)); [|exact (RN_F S FS')|exact ES]. split.
        * rewrite <- m_S. apply inv_le; lra.
        * apply inv_le; lra.
      + destruct (Req_dec y m) as [E|NE].
        * rewrite E, m_S. exact (RN_F S FS').
        * assert (Hlt : y < m) by lra.
          apply case_below; [exact Hlt|].
          destruct (Rle_or_lt x m) as [H|H]; [exfalso|exact H].
          pose proof (y_nearest x Fx) as Hn. rewrite !Rabs_left1 in Hn by lra. lra.
    - (* m < y *)
      destruct (Rle_or_lt y x) as [Hyx|Hxy].
      + apply (RN_sandwich (100 / x) _ S); [|exact ES|exact (RN_F S FS')]. split.
        * apply inv_le; lra.
        * rewrite <- m_S. apply inv_le; lra.
      + apply case_above; [exact Hmy|].
        destruct (Rle_or_lt m x) as [H|H]; [exfalso|exact H].
        pose proof (y_nearest x Fx) as Hn. rewrite !Rabs_pos_eq in Hn by lra. lra.
  Qed.
End Main.

Print Assumptions three_divisions.

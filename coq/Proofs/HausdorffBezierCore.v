(* HausdorffBezierCore: T17e for one flat Bezier piece, one coordinate, in
   exact (real) arithmetic.

   The points emitted by bezier_approximate are written once over a point type
   ([approx_pts_g]: subdivide, chain the two control polygons, take the
   1-2-1 averages of every other triple); the model's [bezier_approx_pts] is
   the binary32 instance (by reflexivity).  Over the reals, for a control
   polygon m of n + 1 points whose second differences are all within D:
     the polyline  E = emitted points ++ [last m], read at the abscissae j / n,
     stays within  n (2 n - 1) / 8 * D  of the curve AT THE SAME PARAMETER:
       | B((j + s) / n) - ((1 - s) E_j + s E_(j+1)) | <= n (2 n - 1) / 8 * D.
   Proof: subtract the chord (all operators reproduce linear functions:
   [dc_ap], [Ebar_ap]); the remainder g vanishes at both ends and has the same
   second differences, hence |g_i| <= D i (n - i) / 2 (discrete maximum
   principle, [concave_nonneg]); every operator involved is a convex
   combination of its input ([F3_*]), so |B_g| <= B_h = D n (n-1)/2 t (1-t)
   ([dc_qp]) and |E_g| <= max h <= D n^2 / 8. *)
From RM Require Import Model.ControlPoints Model.Curve Proofs.DeCasteljau Proofs.BezierTermination.
From Coq Require Import Reals Lra Lia Psatz.
From Flocq Require Import Raux.
Open Scope R_scope.

(* ---------- the emitted points, written once ---------- *)

Section EmitG.
  Context {T : Type} (avg : T -> T -> T) (tri : T -> T -> T -> T) (dflt : T).
  Fixpoint triples_g (c : list T) : list T :=
    match c with
    | a :: b :: ((c0 :: _) as t) => tri a b c0 :: triples_g t
    | _ => []
    end.
  Definition approx_pts_g (points : list T) : list T :=
    let '(l, r) := subdiv_g avg dflt (length points) points in
    hd dflt points :: triples_g (tl (l ++ tl r)).
End EmitG.

(* (prev + curr * 2.0 + next) * 0.25 *)
Definition tri_g {P S : Type} (add : P -> P -> P) (mul : P -> S -> P) (two quarter : S) (prev curr next : P) : P :=
  mul (add (add prev (mul curr two)) next) quarter.

Lemma model_tri a b c : tri a b c = tri_g padd pmul s2 s_quarter a b c.
Proof. reflexivity. Qed.

Lemma model_approx_pts points : bezier_approx_pts points = approx_pts_g avg2 tri pos0 points.
Proof. reflexivity. Qed.

Definition triR : R -> R -> R -> R := tri_g Rplus Rmult 2 (1 / 4).

(* the polyline of one piece: the emitted points and the end point (which is
   emitted as the first point of the next piece, or by the final push) *)
Definition Ebar (m : list R) : list R := approx_pts_g avgR triR 0 m ++ [last m 0].

Lemma approx_pts_R_eq m :
  approx_pts_g avgR triR 0 m = hd 0 m :: triples_g triR (tl (left (length m) m ++ tl (right (length m) m))).
Proof. unfold approx_pts_g. rewrite subdiv_left_right. reflexivity. Qed.

(* ---------- convex combinations, three lists at a time ---------- *)

Inductive F3 (Q : R -> R -> R -> Prop) : list R -> list R -> list R -> Prop :=
| F3_nil : F3 Q [] [] []
| F3_cons a b c la lb lc : Q a b c -> F3 Q la lb lc -> F3 Q (a :: la) (b :: lb) (c :: lc).

Definition comb (t a b : R) : R := (1 - t) * a + t * b.

Section Lift.
  Variable Q : R -> R -> R -> Prop.
  Hypothesis Qconv : forall t a b c a' b' c', 0 <= t <= 1 ->
    Q a b c -> Q a' b' c' -> Q (comb t a a') (comb t b b') (comb t c c').
  Hypothesis Q0 : Q 0 0 0.

  Lemma F3_length a b c : F3 Q a b c -> length a = length b /\ length a = length c.
  Proof. induction 1 as [|x y z la lb lc _ _ [IH1 IH2]]; cbn [length]; split; congruence. Qed.

  Lemma F3_lstep t a b c : 0 <= t <= 1 -> F3 Q a b c -> F3 Q (lstep t a) (lstep t b) (lstep t c).
  Proof.
    intros Ht. induction 1 as [|x y z la lb lc Hq HF IH]; [constructor|].
    inversion HF as [|x2 y2 z2 la2 lb2 lc2 Hq2 HF2]; subst; [constructor|].
    rewrite !lstep_cons2. constructor; [exact (Qconv t _ _ _ _ _ _ Ht Hq Hq2)|exact IH].
  Qed.

  Lemma F3_hd a b c : F3 Q a b c -> Q (hd 0 a) (hd 0 b) (hd 0 c).
  Proof. intros [|x y z la lb lc H _]; [exact Q0|exact H]. Qed.

  Lemma F3_last a b c : F3 Q a b c -> Q (last a 0) (last b 0) (last c 0).
  Proof.
    induction 1 as [|x y z la lb lc Hq HF IH]; [exact Q0|].
    inversion HF; subst; [exact Hq|exact IH].
  Qed.

  Lemma F3_tl a b c : F3 Q a b c -> F3 Q (tl a) (tl b) (tl c).
  Proof. intros [|x y z la lb lc _ H]; [constructor|exact H]. Qed.

  Lemma F3_app a b c a' b' c' : F3 Q a b c -> F3 Q a' b' c' -> F3 Q (a ++ a') (b ++ b') (c ++ c').
  Proof. induction 1; intros H'; [exact H'|]. cbn [app]. constructor; auto. Qed.

  Lemma F3_nth i : forall a b c, F3 Q a b c -> Q (nth i a 0) (nth i b 0) (nth i c 0).
  Proof.
    induction i as [|i IH]; intros a b c [|x y z la lb lc H HF]; cbn [nth]; try exact Q0; [exact H|].
    apply IH. exact HF.
  Qed.

  Lemma F3_dc t n : 0 <= t <= 1 -> forall a b c, F3 Q a b c -> Q (dc n t a) (dc n t b) (dc n t c).
  Proof.
    intros Ht. induction n as [|n IH]; intros a b c H; cbn [dc]; [apply F3_hd; exact H|].
    apply IH. apply F3_lstep; assumption.
  Qed.

  Lemma half_01 : 0 <= 1 / 2 <= 1.
  Proof. lra. Qed.

  Lemma F3_left n : forall a b c, F3 Q a b c -> F3 Q (left n a) (left n b) (left n c).
  Proof.
    induction n as [|n IH]; intros a b c H; [constructor|].
    cbn [left]. constructor; [apply F3_hd; exact H|]. apply IH. apply F3_lstep; [exact half_01|exact H].
  Qed.

  Lemma F3_right n : forall a b c, F3 Q a b c -> F3 Q (right n a) (right n b) (right n c).
  Proof.
    induction n as [|n IH]; intros a b c H; [constructor|].
    cbn [right]. apply F3_app; [apply IH; apply F3_lstep; [exact half_01|exact H]|].
    constructor; [apply F3_last; exact H|constructor].
  Qed.

  Lemma triR_comb a b c : triR a b c = comb (1 / 2) (comb (1 / 2) a b) (comb (1 / 2) b c).
  Proof. unfold triR, tri_g, comb. field. Qed.

  Lemma Q_tri a b c a' b' c' a'' b'' c'' :
    Q a b c -> Q a' b' c' -> Q a'' b'' c'' -> Q (triR a a' a'') (triR b b' b'') (triR c c' c'').
  Proof.
    intros H1 H2 H3. rewrite !triR_comb.
    apply Qconv; [exact half_01| |]; apply Qconv; try exact half_01; assumption.
  Qed.

  (* triples_g recurses two elements ahead: prove the statement for l and x :: l together *)
  Lemma F3_triples_aux a b c : F3 Q a b c ->
    F3 Q (triples_g triR a) (triples_g triR b) (triples_g triR c) /\
    forall x y z, Q x y z ->
      F3 Q (triples_g triR (x :: a)) (triples_g triR (y :: b)) (triples_g triR (z :: c)).
  Proof.
    induction 1 as [|a0 b0 c0 la lb lc Hq HF [IH1 IH2]].
    - split; [constructor|]. intros. constructor.
    - split; [apply IH2; exact Hq|].
      intros x y z Hxyz. inversion HF as [|a1 b1 c1 la1 lb1 lc1 Hq1 HF1]; subst; [constructor|].
      change (triples_g triR (x :: a0 :: a1 :: la1)) with (triR x a0 a1 :: triples_g triR (a1 :: la1)).
      change (triples_g triR (y :: b0 :: b1 :: lb1)) with (triR y b0 b1 :: triples_g triR (b1 :: lb1)).
      change (triples_g triR (z :: c0 :: c1 :: lc1)) with (triR z c0 c1 :: triples_g triR (c1 :: lc1)).
      constructor; [apply Q_tri; assumption|exact IH1].
  Qed.

  Lemma F3_triples a b c : F3 Q a b c -> F3 Q (triples_g triR a) (triples_g triR b) (triples_g triR c).
  Proof. intros H. exact (proj1 (F3_triples_aux a b c H)). Qed.

  Lemma F3_Ebar a b c : F3 Q a b c -> F3 Q (Ebar a) (Ebar b) (Ebar c).
  Proof.
    intros H. destruct (F3_length a b c H) as [L1 L2].
    unfold Ebar. rewrite !approx_pts_R_eq, <- L1, <- L2.
    apply F3_app; [|constructor; [apply F3_last; exact H|constructor]].
    constructor; [apply F3_hd; exact H|].
    apply F3_triples, F3_tl, F3_app; [apply F3_left; exact H|apply F3_tl, F3_right; exact H].
  Qed.
End Lift.

Lemma F3_of_nth (Q : R -> R -> R -> Prop) k : forall a b c,
  length a = k -> length b = k -> length c = k ->
  (forall i, (i < k)%nat -> Q (nth i a 0) (nth i b 0) (nth i c 0)) -> F3 Q a b c.
Proof.
  induction k as [|k IH]; intros a b c La Lb Lc H.
  - destruct a, b, c; try discriminate. constructor.
  - destruct a as [|x a], b as [|y b], c as [|z c]; try discriminate.
    constructor; [exact (H 0%nat ltac:(lia))|].
    apply IH; try (cbn [length] in *; lia). intros i Hi. exact (H (S i) ltac:(lia)).
Qed.

(* ---------- arithmetic progressions: every operator reproduces them ---------- *)

Fixpoint ap (a d : R) (k : nat) : list R :=
  match k with O => [] | S k' => a :: ap (a + d) d k' end.

Lemma ap_length k : forall a d, length (ap a d k) = k.
Proof. induction k as [|k IH]; intros; cbn [ap length]; [reflexivity|]. rewrite IH. reflexivity. Qed.

Lemma ap_nth k : forall a d i, (i < k)%nat -> nth i (ap a d k) 0 = a + INR i * d.
Proof.
  induction k as [|k IH]; intros a d i Hi; [lia|].
  destruct i as [|i]; cbn [ap nth].
  - cbn [INR]. ring.
  - rewrite IH by lia. rewrite S_INR. ring.
Qed.

Lemma ap_snoc k : forall a d, ap a d (S k) = ap a d k ++ [a + INR k * d].
Proof.
  induction k as [|k IH]; intros a d.
  - cbn [ap app INR]. f_equal. ring.
  - change (ap a d (S (S k))) with (a :: ap (a + d) d (S k)). rewrite IH.
    cbn [ap app]. f_equal. f_equal. f_equal. rewrite S_INR. ring.
Qed.

Lemma ap_ext a a' d d' k : a = a' -> d = d' -> ap a d k = ap a' d' k.
Proof. intros -> ->. reflexivity. Qed.

Lemma ap_app j : forall a d k, ap a d (j + k) = ap a d j ++ ap (a + INR j * d) d k.
Proof.
  induction j as [|j IH]; intros a d k.
  - cbn [Nat.add ap app]. apply ap_ext; [cbn [INR]; ring|reflexivity].
  - cbn [Nat.add ap app]. f_equal. rewrite IH. f_equal. apply ap_ext; [rewrite S_INR; ring|reflexivity].
Qed.

Lemma ap_last k a d : last (ap a d (S k)) 0 = a + INR k * d.
Proof. rewrite ap_snoc. apply last_last. Qed.

Lemma lstep_ap t k : forall a d, lstep t (ap a d (S k)) = ap (a + t * d) d k.
Proof.
  induction k as [|k IH]; intros a d; [reflexivity|].
  change (ap a d (S (S k))) with (a :: (a + d) :: ap (a + d + d) d k).
  rewrite lstep_cons2. change ((a + d) :: ap (a + d + d) d k) with (ap (a + d) d (S k)).
  rewrite IH. cbn [ap]. f_equal; [ring|]. apply ap_ext; ring.
Qed.

Lemma dc_ap t n : forall a d, dc n t (ap a d (S n)) = a + INR n * (t * d).
Proof.
  induction n as [|n IH]; intros a d; cbn [dc].
  - cbn [ap hd INR]. ring.
  - rewrite lstep_ap, IH, S_INR. ring.
Qed.

Lemma left_ap k : forall a d, left k (ap a d k) = ap a (d / 2) k.
Proof.
  induction k as [|k IH]; intros a d; [reflexivity|].
  cbn [left]. unfold A. rewrite lstep_ap, IH. cbn [ap hd]. f_equal. apply ap_ext; field.
Qed.

Lemma right_ap k : forall a d, right k (ap a d k) = ap (a + (INR k - 1) * (d / 2)) (d / 2) k.
Proof.
  induction k as [|k IH]; intros a d; [reflexivity|].
  cbn [right]. unfold A. rewrite lstep_ap, IH, ap_last.
  rewrite (ap_snoc k (a + (INR (S k) - 1) * (d / 2))). f_equal.
  - apply ap_ext; [rewrite S_INR; field|reflexivity].
  - f_equal. rewrite S_INR. field.
Qed.

Lemma triR_ap a d : triR a (a + d) (a + d + d) = a + d.
Proof. unfold triR, tri_g. field. Qed.

Lemma triples_ap k : forall a d, triples_g triR (ap a d (S (S (2 * k)))) = ap (a + d) (2 * d) k.
Proof.
  induction k as [|k IH]; intros a d; [reflexivity|].
  replace (2 * S k)%nat with (S (S (2 * k))) by lia.
  change (ap a d (S (S (S (S (2 * k)))))) with (a :: (a + d) :: ap (a + d + d) d (S (S (2 * k)))).
  change (ap (a + d + d) d (S (S (2 * k)))) with ((a + d + d) :: ap (a + d + d + d) d (S (2 * k))).
  change (triples_g triR (a :: (a + d) :: (a + d + d) :: ap (a + d + d + d) d (S (2 * k))))
    with (triR a (a + d) (a + d + d) :: triples_g triR ((a + d + d) :: ap (a + d + d + d) d (S (2 * k)))).
  change ((a + d + d) :: ap (a + d + d + d) d (S (2 * k))) with (ap (a + d + d) d (S (S (2 * k)))).
  rewrite IH, triR_ap. cbn [ap]. f_equal. apply ap_ext; ring.
Qed.

(* the emitted polyline of a linear polygon is that polygon (n >= 1) *)
Lemma Ebar_ap n a d : Ebar (ap a d (S (S n))) = ap a d (S (S n)).
Proof.
  unfold Ebar. rewrite approx_pts_R_eq, ap_length, left_ap, right_ap, ap_last.
  change (tl (ap (a + (INR (S (S n)) - 1) * (d / 2)) (d / 2) (S (S n))))
    with (ap (a + (INR (S (S n)) - 1) * (d / 2) + d / 2) (d / 2) (S n)).
  rewrite (ap_ext (a + (INR (S (S n)) - 1) * (d / 2) + d / 2) (a + INR (S (S n)) * (d / 2)) (d / 2) (d / 2) (S n))
    by (try reflexivity; ring).
  rewrite <- ap_app.
  replace (S (S n) + S n)%nat with (S (S (S (2 * n)))) by lia.
  change (tl (ap a (d / 2) (S (S (S (2 * n)))))) with (ap (a + d / 2) (d / 2) (S (S (2 * n)))).
  rewrite triples_ap. change (hd 0 (ap a d (S (S n)))) with a.
  rewrite (ap_snoc (S n) a d). cbn [ap app]. f_equal. f_equal.
  apply ap_ext; field.
Qed.

(* ---------- quadratic polygons under de Casteljau ---------- *)

(* a + b i + c i^2, i = 0 .. k-1 *)
Fixpoint qp (a b c : R) (k : nat) : list R :=
  match k with O => [] | S k' => a :: qp (a + b + c) (b + 2 * c) c k' end.

Lemma qp_length c k : forall a b, length (qp a b c k) = k.
Proof. induction k as [|k IH]; intros; cbn [qp length]; [reflexivity|]. rewrite IH. reflexivity. Qed.

Lemma qp_nth c k : forall a b i, (i < k)%nat -> nth i (qp a b c k) 0 = a + b * INR i + c * (INR i * INR i).
Proof.
  induction k as [|k IH]; intros a b i Hi; [lia|].
  destruct i as [|i]; cbn [qp nth].
  - cbn [INR]. ring.
  - rewrite IH by lia. rewrite S_INR. ring.
Qed.

Lemma qp_ext a a' b b' c k : a = a' -> b = b' -> qp a b c k = qp a' b' c k.
Proof. intros -> ->. reflexivity. Qed.

Lemma lstep_qp t c k : forall a b, lstep t (qp a b c (S k)) = qp (a + t * (b + c)) (b + 2 * t * c) c k.
Proof.
  induction k as [|k IH]; intros a b; [reflexivity|].
  change (qp a b c (S (S k))) with (a :: (a + b + c) :: qp (a + b + c + (b + 2 * c) + c) (b + 2 * c + 2 * c) c k).
  rewrite lstep_cons2.
  change ((a + b + c) :: qp (a + b + c + (b + 2 * c) + c) (b + 2 * c + 2 * c) c k) with (qp (a + b + c) (b + 2 * c) c (S k)).
  rewrite IH. cbn [qp]. f_equal; [ring|]. apply qp_ext; ring.
Qed.

Lemma dc_qp t c n : forall a b,
  dc n t (qp a b c (S n)) = a + INR n * t * (b + c) + INR n * (INR n - 1) * (t * t) * c.
Proof.
  induction n as [|n IH]; intros a b; cbn [dc].
  - cbn [qp hd INR]. ring.
  - rewrite lstep_qp, IH, S_INR. ring.
Qed.

(* ---------- discrete maximum principle ---------- *)

Lemma concave_chord (w : nat -> R) N :
  w 0%nat = 0 ->
  (forall i, (i + 2 <= N)%nat -> w i - 2 * w (S i) + w (S (S i)) <= 0) ->
  forall j, (j <= N)%nat -> forall i, (i <= j)%nat -> INR i * w j <= INR j * w i.
Proof.
  intros H0 Hc. induction j as [|j IH]; intros Hj i Hi.
  - assert (i = 0)%nat by lia. subst. lra.
  - destruct (Nat.eq_dec i (S j)) as [->|Hne]; [lra|].
    assert (Hi' : (i <= j)%nat) by lia.
    pose proof (IH ltac:(lia) i Hi') as H3.
    destruct j as [|j'].
    + assert (i = 0)%nat by lia. subst. cbn [INR]. rewrite H0. lra.
    + pose proof (Hc j' ltac:(lia)) as H1.
      pose proof (IH ltac:(lia) j' ltac:(lia)) as H2.
      set (J := INR (S j')) in *. assert (HJ : 1 <= J) by (subst J; rewrite S_INR; pose proof (pos_INR j'); lra).
      assert (EJ : INR j' = J - 1) by (subst J; rewrite S_INR; ring). rewrite EJ in H2.
      rewrite (S_INR (S j')). fold J.
      pose proof (pos_INR i) as HI. set (I := INR i) in *.
      assert (HA : J * w (S (S j')) <= (J + 1) * w (S j')).
      { assert (J * w (S (S j')) <= J * (2 * w (S j') - w j')) by (apply Rmult_le_compat_l; lra). lra. }
      assert (HB : I * (J * w (S (S j'))) <= I * ((J + 1) * w (S j'))) by (apply Rmult_le_compat_l; assumption).
      assert (HC : (J + 1) * (I * w (S j')) <= (J + 1) * (J * w i)) by (apply Rmult_le_compat_l; lra).
      apply Rmult_le_reg_l with J; [lra|]. lra.
Qed.

Lemma concave_nonneg (w : nat -> R) N :
  w 0%nat = 0 -> w N = 0 ->
  (forall i, (i + 2 <= N)%nat -> w i - 2 * w (S i) + w (S (S i)) <= 0) ->
  forall i, (i <= N)%nat -> 0 <= w i.
Proof.
  intros H0 HN Hc i Hi.
  pose proof (concave_chord w N H0 Hc N (Nat.le_refl N) i Hi) as H. rewrite HN in H.
  destruct N as [|N]; [assert (i = 0)%nat by lia; subst; lra|].
  assert (0 < INR (S N)) by (rewrite S_INR; pose proof (pos_INR N); lra).
  apply Rmult_le_reg_l with (INR (S N)); [assumption|]. lra.
Qed.

(* ---------- one flat piece ---------- *)

Section Piece.
  Variable m : list R.
  Variable n' : nat.
  Let n := S n'.
  Hypothesis Hlen : length m = S n.
  Variable D : R.
  Hypothesis HD : 0 <= D.
  Let mf (i : nat) : R := nth i m 0.
  (* every second difference is within D *)
  Hypothesis Hdd : forall i, (i + 2 <= n)%nat -> Rabs (mf i - 2 * mf (S i) + mf (S (S i))) <= D.

  Let Nn := INR n.
  Let a := mf 0.
  Let d := (mf n - mf 0) / Nn.
  Let lin := ap a d (S n).
  Let gf (i : nat) : R := mf i - (a + INR i * d).
  Let g := map gf (seq 0 (S n)).
  Let hq := qp 0 (D * Nn / 2) (- D / 2) (S n).

  Lemma Nn_pos : 1 <= Nn.
  Proof. unfold Nn, n. rewrite S_INR. pose proof (pos_INR n'). lra. Qed.

  Lemma g_nth i : (i < S n)%nat -> nth i g 0 = gf i.
  Proof.
    intros Hi. unfold g. rewrite (nth_indep _ 0 (gf 0)) by (rewrite map_length, seq_length; exact Hi).
    rewrite map_nth, seq_nth by exact Hi. reflexivity.
  Qed.

  Lemma g_length : length g = S n.
  Proof. unfold g. rewrite map_length, seq_length. reflexivity. Qed.

  Lemma hq_nth i : (i < S n)%nat -> nth i hq 0 = D / 2 * (INR i * (Nn - INR i)).
  Proof. intros Hi. unfold hq. rewrite qp_nth by exact Hi. field. Qed.

  (* m = g + the chord *)
  Lemma split_chord : F3 (fun x y z => x = y + z) m g lin.
  Proof.
    apply (F3_of_nth _ (S n)); [exact Hlen|exact g_length|apply ap_length|].
    intros i Hi. rewrite g_nth by exact Hi. unfold lin. rewrite ap_nth by exact Hi.
    unfold gf, mf. ring.
  Qed.

  (* |g_i| <= D i (n - i) / 2 *)
  Lemma g_bound i : (i <= n)%nat -> Rabs (gf i) <= D / 2 * (INR i * (Nn - INR i)).
  Proof.
    intros Hi. pose proof Nn_pos as HN.
    assert (Hend : gf n = 0) by (unfold gf, d, a; fold Nn; field; lra).
    assert (Hbeg : gf 0%nat = 0) by (unfold gf, a; cbn [INR]; ring).
    apply Rabs_le. split.
    - (* 0 <= h + g *)
      pose proof (concave_nonneg (fun k => D / 2 * (INR k * (Nn - INR k)) + gf k) n) as H.
      cbn beta in H. specialize (H ltac:(rewrite Hbeg; cbn [INR]; ring) ltac:(rewrite Hend; fold Nn; ring)).
      assert (Hc : forall k, (k + 2 <= n)%nat ->
                D / 2 * (INR k * (Nn - INR k)) + gf k - 2 * (D / 2 * (INR (S k) * (Nn - INR (S k))) + gf (S k)) +
                (D / 2 * (INR (S (S k)) * (Nn - INR (S (S k)))) + gf (S (S k))) <= 0).
      { intros k Hk. pose proof (Hdd k Hk) as Hk'. apply Rabs_le_inv in Hk'.
        unfold gf. rewrite !S_INR. lra. }
      specialize (H Hc i Hi). lra.
    - pose proof (concave_nonneg (fun k => D / 2 * (INR k * (Nn - INR k)) - gf k) n) as H.
      cbn beta in H. specialize (H ltac:(rewrite Hbeg; cbn [INR]; ring) ltac:(rewrite Hend; fold Nn; ring)).
      assert (Hc : forall k, (k + 2 <= n)%nat ->
                D / 2 * (INR k * (Nn - INR k)) - gf k - 2 * (D / 2 * (INR (S k) * (Nn - INR (S k))) - gf (S k)) +
                (D / 2 * (INR (S (S k)) * (Nn - INR (S (S k)))) - gf (S (S k))) <= 0).
      { intros k Hk. pose proof (Hdd k Hk) as Hk'. apply Rabs_le_inv in Hk'.
        unfold gf. rewrite !S_INR. lra. }
      specialize (H Hc i Hi). lra.
  Qed.

  Definition Qabs (x y z : R) : Prop := Rabs x <= y.
  Definition Qle (M : R) (x y z : R) : Prop := x <= M.
  Definition Qsum (x y z : R) : Prop := x = y + z.

  Lemma Qabs_conv t x y z x' y' z' : 0 <= t <= 1 -> Qabs x y z -> Qabs x' y' z' ->
    Qabs (comb t x x') (comb t y y') (comb t z z').
  Proof.
    unfold Qabs, comb. intros Ht H1 H2.
    eapply Rle_trans; [apply Rabs_triang|]. rewrite !Rabs_mult.
    rewrite (Rabs_pos_eq (1 - t)), (Rabs_pos_eq t) by lra.
    apply Rplus_le_compat; apply Rmult_le_compat_l; lra.
  Qed.

  Lemma Qle_conv M t x y z x' y' z' : 0 <= t <= 1 -> Qle M x y z -> Qle M x' y' z' ->
    Qle M (comb t x x') (comb t y y') (comb t z z').
  Proof. unfold Qle, comb. intros Ht H1 H2. nra. Qed.

  Lemma Qsum_conv t x y z x' y' z' : 0 <= t <= 1 -> Qsum x y z -> Qsum x' y' z' ->
    Qsum (comb t x x') (comb t y y') (comb t z z').
  Proof. unfold Qsum, comb. intros _ -> ->. ring. Qed.

  Lemma g_le_h : F3 Qabs g hq hq.
  Proof.
    apply (F3_of_nth _ (S n)); [exact g_length|apply qp_length|apply qp_length|].
    intros i Hi. unfold Qabs. rewrite g_nth, hq_nth by exact Hi. apply g_bound. lia.
  Qed.

  Let M := D * (Nn * Nn) / 8.

  Lemma h_le_M : F3 (Qle M) hq hq hq.
  Proof.
    apply (F3_of_nth _ (S n)); try apply qp_length.
    intros i Hi. unfold Qle, M. rewrite hq_nth by exact Hi.
    pose proof (pow2_ge_0 (Nn - 2 * INR i)) as Hsq.
    assert (INR i * (Nn - INR i) <= Nn * Nn / 4) by nra. nra.
  Qed.

  Lemma M_nonneg : 0 <= M.
  Proof. unfold M. pose proof Nn_pos. assert (0 <= Nn * Nn) by nra. nra. Qed.

  (* the polyline of the piece stays within n (2n - 1) / 8 * D of the curve,
     at the same parameter *)
  Theorem piece_close j s :
    (j < n)%nat -> 0 <= s <= 1 ->
    Rabs (dc n ((INR j + s) / Nn) m - ((1 - s) * nth j (Ebar m) 0 + s * nth (S j) (Ebar m) 0))
    <= Nn * (2 * Nn - 1) / 8 * D.
  Proof.
    intros Hj Hs. pose proof Nn_pos as HN. pose proof (pos_INR j) as Hj0.
    assert (HjN : INR j + 1 <= Nn).
    { unfold Nn. rewrite <- S_INR. apply le_INR. lia. }
    set (t := (INR j + s) / Nn).
    assert (Ht : 0 <= t <= 1).
    { unfold t. split.
      - apply Rmult_le_pos; [lra|]. apply Rlt_le, Rinv_0_lt_compat. lra.
      - apply Rmult_le_reg_r with Nn; [lra|]. unfold Rdiv. rewrite Rmult_assoc, Rinv_l by lra. lra. }
    (* split off the chord *)
    pose proof (F3_dc Qsum Qsum_conv ltac:(unfold Qsum; ring) t n Ht _ _ _ split_chord) as HB.
    pose proof (F3_Ebar Qsum Qsum_conv ltac:(unfold Qsum; ring) _ _ _ split_chord) as HE.
    pose proof (F3_nth Qsum ltac:(unfold Qsum; ring) j _ _ _ HE) as HEj.
    pose proof (F3_nth Qsum ltac:(unfold Qsum; ring) (S j) _ _ _ HE) as HEj1.
    unfold Qsum in HB, HEj, HEj1.
    unfold lin in HB, HEj, HEj1. unfold n in HEj, HEj1. rewrite Ebar_ap in HEj, HEj1. fold n in HEj, HEj1.
    rewrite ap_nth in HEj by lia. rewrite ap_nth in HEj1 by lia. rewrite dc_ap in HB.
    rewrite S_INR in HEj1.
    (* the remainder *)
    pose proof (F3_dc Qabs Qabs_conv ltac:(unfold Qabs; rewrite Rabs_R0; lra) t n Ht _ _ _ g_le_h) as HBg.
    pose proof (F3_Ebar Qabs Qabs_conv ltac:(unfold Qabs; rewrite Rabs_R0; lra) _ _ _ g_le_h) as HEg.
    pose proof (F3_nth Qabs ltac:(unfold Qabs; rewrite Rabs_R0; lra) j _ _ _ HEg) as HEgj.
    pose proof (F3_nth Qabs ltac:(unfold Qabs; rewrite Rabs_R0; lra) (S j) _ _ _ HEg) as HEgj1.
    pose proof (F3_Ebar (Qle M) (Qle_conv M) M_nonneg _ _ _ h_le_M) as HEh.
    pose proof (F3_nth (Qle M) M_nonneg j _ _ _ HEh) as HEhj.
    pose proof (F3_nth (Qle M) M_nonneg (S j) _ _ _ HEh) as HEhj1.
    unfold Qabs, Qle in *.
    unfold hq in HBg. rewrite dc_qp in HBg. fold Nn in HBg, HB.
    assert (Hbh : 0 + Nn * t * (D * Nn / 2 + - D / 2) + Nn * (Nn - 1) * (t * t) * (- D / 2) <= D * (Nn * (Nn - 1)) / 8).
    { pose proof (pow2_ge_0 (2 * t - 1)) as Hsq.
      assert (Hq : t - t * t <= 1 / 4) by nra.
      assert (Hnn : 0 <= D * (Nn * (Nn - 1))) by (apply Rmult_le_pos; [lra|]; nra).
      replace (0 + Nn * t * (D * Nn / 2 + - D / 2) + Nn * (Nn - 1) * (t * t) * (- D / 2))
        with (D * (Nn * (Nn - 1)) / 2 * (t - t * t)) by field.
      nra. }
    replace (dc n t m - ((1 - s) * nth j (Ebar m) 0 + s * nth (S j) (Ebar m) 0))
      with (dc n t g - ((1 - s) * nth j (Ebar g) 0 + s * nth (S j) (Ebar g) 0)).
    2:{ rewrite HB, HEj, HEj1. unfold t. field. lra. }
    apply Rabs_le_inv in HBg. apply Rabs_le_inv in HEgj. apply Rabs_le_inv in HEgj1.
    apply Rabs_le.
    replace (Nn * (2 * Nn - 1) / 8 * D) with (D * (Nn * (Nn - 1)) / 8 + M) by (unfold M; field).
    set (e0 := nth j (Ebar g) 0) in *. set (e1 := nth (S j) (Ebar g) 0) in *.
    set (h0 := nth j (Ebar hq) 0) in *. set (h1 := nth (S j) (Ebar hq) 0) in *.
    assert (Hm0 : - M <= e0 <= M) by lra. assert (Hm1 : - M <= e1 <= M) by lra.
    split; nra.
  Qed.
End Piece.

(* SliderPathFacts: T18b.  The SliderPath accessors as a state machine next to
   a shared CurveBuffers: for EVERY history, what the caller reads is what a
   cache-free, buffer-free specification computes from the *current* fields. *)
From RM Require Import Model.ControlPoints Model.Curve Model.SliderPathCache
  Proofs.BezierRefine Proofs.CurveRefine.
Open Scope nat_scope.

Section WithLibm.
  Variable lm : Libm.
  Variable fuel : positive.

  Notation L1 := (curve_L1 lm fuel).

  (* ---------- constructors through arbitrary (well-formed) buffers ---------- *)

  Lemma owned_ok mode pts e bufs :
    cb_wf bufs ->
    match L1 mode pts e with
    | Done c => exists bufs', curve_new_L0 lm fuel mode pts e bufs = Done (c, bufs') /\ cb_wf bufs'
    | Panic w => curve_new_L0 lm fuel mode pts e bufs = Panic w
    | OutOfFuel => curve_new_L0 lm fuel mode pts e bufs = OutOfFuel
    end.
  Proof.
    intros Hwf. pose proof (curve_new_refines lm fuel mode pts e bufs Hwf) as H.
    destruct (L1 mode pts e); [|exact H|exact H].
    destruct H as (b' & H1 & H2 & _). exists b'. split; assumption.
  Qed.

  Lemma borrowed_ok mode pts e bufs :
    cb_wf bufs ->
    match L1 mode pts e with
    | Done c => exists bufs', borrowed_new_L0 lm fuel mode pts e bufs = Done (c, bufs') /\ cb_wf bufs'
    | Panic w => borrowed_new_L0 lm fuel mode pts e bufs = Panic w
    | OutOfFuel => borrowed_new_L0 lm fuel mode pts e bufs = OutOfFuel
    end.
  Proof.
    intros Hwf. pose proof (borrowed_new_refines lm fuel mode pts e bufs Hwf) as H.
    destruct (L1 mode pts e); [|exact H|exact H].
    destruct H as (b' & H1 & H2 & _). exists b'. split; assumption.
  Qed.

  (* ---------- the specification: no cache, no buffers ---------- *)

  (* what an operation returns, as a function of the current fields only *)
  Definition spec_step (sp : SliderPath) (o : sp_op) : outcome (SliderPath * option Curve) :=
    match o with
    | OpCurve | OpCurveWithBufs | OpBorrowed =>
        obind (L1 (sp_mode sp) (sp_cps sp) (sp_expected sp)) (fun c => Done (sp, Some c))
    | OpSetPoints pts => Done (mkSP (sp_mode sp) pts (sp_expected sp) None, None)
    | OpSetDist e => Done (mkSP (sp_mode sp) (sp_cps sp) e None, None)
    | OpTouchPoints | OpTouchDist | OpClear => Done (sp, None)
    | OpOwnedOther mode pts e | OpBorrowedOther mode pts e =>
        obind (L1 mode pts e) (fun c => Done (sp, Some c))
    end.

  Fixpoint spec_run (sp : SliderPath) (ops : list sp_op) : outcome (list (option Curve)) :=
    match ops with
    | [] => Done []
    | o :: r =>
        obind (spec_step sp o) (fun '(sp', res) =>
        obind (spec_run sp' r) (fun rs => Done (res :: rs)))
    end.

  (* ---------- invariant ---------- *)

  (* the cache is empty or holds the curve of the current fields *)
  Definition cache_ok (sp : SliderPath) : Prop :=
    match sp_curve sp with
    | None => True
    | Some c => L1 (sp_mode sp) (sp_cps sp) (sp_expected sp) = Done c
    end.

  Definition same_fields (a b : SliderPath) : Prop :=
    sp_mode a = sp_mode b /\ sp_cps a = sp_cps b /\ sp_expected a = sp_expected b.

  Lemma sp_step_spec sp bufs o :
    cache_ok sp -> cb_wf bufs ->
    match spec_step (sp_clear sp) o with
    | Done (f', res) =>
        exists sp' bufs', sp_step lm fuel sp bufs o = Done (sp', bufs', res)
                          /\ cache_ok sp' /\ cb_wf bufs' /\ sp_clear sp' = f'
    | Panic w => sp_step lm fuel sp bufs o = Panic w
    | OutOfFuel => sp_step lm fuel sp bufs o = OutOfFuel
    end.
  Proof.
    intros Hc Hwf. destruct sp as [mode cps e cache]. unfold cache_ok in Hc. cbn [sp_curve sp_mode sp_cps sp_expected] in Hc.
    unfold sp_clear. cbn [sp_mode sp_cps sp_expected].
    destruct o; cbn [spec_step sp_step sp_mode sp_cps sp_expected sp_curve] in *.
    - (* curve() *)
      destruct cache as [c|].
      + rewrite Hc. cbn [obind]. do 2 eexists. split; [reflexivity|]. repeat split; assumption.
      + pose proof (owned_ok mode cps e bufs_default cb_wf_default) as H.
        destruct (L1 mode cps e) as [c| |] eqn:E; cbn [obind].
        * destruct H as (b' & -> & _). cbn [obind]. do 2 eexists. split; [reflexivity|].
          repeat split; try assumption; try exact I.
        * rewrite H. reflexivity.
        * rewrite H. reflexivity.
    - (* curve_with_bufs *)
      destruct cache as [c|].
      + rewrite Hc. cbn [obind]. do 2 eexists. split; [reflexivity|]. repeat split; assumption.
      + pose proof (owned_ok mode cps e bufs Hwf) as H.
        destruct (L1 mode cps e) as [c| |] eqn:E; cbn [obind].
        * destruct H as (b' & -> & Hwf'). cbn [obind]. do 2 eexists. split; [reflexivity|].
          repeat split; try assumption; try exact I.
        * rewrite H. reflexivity.
        * rewrite H. reflexivity.
    - (* borrowed_curve *)
      destruct cache as [c|].
      + rewrite Hc. cbn [obind]. do 2 eexists. split; [reflexivity|]. repeat split; assumption.
      + pose proof (borrowed_ok mode cps e bufs Hwf) as H.
        destruct (L1 mode cps e) as [c| |] eqn:E; cbn [obind].
        * destruct H as (b' & -> & Hwf'). cbn [obind]. do 2 eexists. split; [reflexivity|].
          repeat split; try assumption; try exact I.
        * rewrite H. reflexivity.
        * rewrite H. reflexivity.
    - do 2 eexists. split; [reflexivity|]. repeat split; try assumption; try exact I.
    - do 2 eexists. split; [reflexivity|]. repeat split; try assumption; try exact I.
    - do 2 eexists. split; [reflexivity|]. repeat split; try assumption; try exact I.
    - do 2 eexists. split; [reflexivity|]. repeat split; try assumption; try exact I.
    - do 2 eexists. split; [reflexivity|]. repeat split; try assumption; try exact I.
    - (* Curve::new elsewhere *)
      pose proof (owned_ok mode0 pts e0 bufs Hwf) as H.
      destruct (L1 mode0 pts e0) as [c| |]; cbn [obind].
      + destruct H as (b' & -> & Hwf'). cbn [obind]. do 2 eexists. split; [reflexivity|].
        repeat split; assumption.
      + rewrite H. reflexivity.
      + rewrite H. reflexivity.
    - pose proof (borrowed_ok mode0 pts e0 bufs Hwf) as H.
      destruct (L1 mode0 pts e0) as [c| |]; cbn [obind].
      + destruct H as (b' & -> & Hwf'). cbn [obind]. do 2 eexists. split; [reflexivity|].
        repeat split; assumption.
      + rewrite H. reflexivity.
      + rewrite H. reflexivity.
  Qed.

  Definition results {A B C} (o : outcome (A * B * C)) : outcome C :=
    match o with Done (_, _, c) => Done c | Panic w => Panic w | OutOfFuel => OutOfFuel end.

  (* T18b: every history *)
  Theorem sp_run_spec ops : forall sp bufs,
    cache_ok sp -> cb_wf bufs ->
    results (sp_run lm fuel sp bufs ops) = spec_run (sp_clear sp) ops /\
    match sp_run lm fuel sp bufs ops with
    | Done (sp', bufs', _) => cache_ok sp' /\ cb_wf bufs'
    | _ => True
    end.
  Proof.
    induction ops as [|o r IH]; intros sp bufs Hc Hwf.
    - cbn. repeat split; assumption.
    - cbn [sp_run spec_run].
      pose proof (sp_step_spec sp bufs o Hc Hwf) as H.
      destruct (spec_step (sp_clear sp) o) as [[f' res]| |]; cbn [obind].
      + destruct H as (sp' & bufs' & E & Hc' & Hwf' & Hf). rewrite E in *. cbn [obind].
        specialize (IH sp' bufs' Hc' Hwf'). destruct IH as [IH1 IH2]. rewrite <- Hf.
        destruct (sp_run lm fuel sp' bufs' r) as [[[sp2 bufs2] rs]| |]; cbn [results] in IH1;
          rewrite <- IH1; cbn [obind results]; split; try reflexivity; try exact IH2; exact I.
      + rewrite H. cbn. split; [reflexivity|exact I].
      + rewrite H. cbn. split; [reflexivity|exact I].
  Qed.

  (* from a fresh SliderPath and fresh buffers *)
  Corollary sp_run_spec_fresh ops mode cps e :
    results (sp_run lm fuel (sp_new mode cps e) bufs_default ops) = spec_run (sp_new mode cps e) ops.
  Proof. exact (proj1 (sp_run_spec ops (sp_new mode cps e) bufs_default I cb_wf_default)). Qed.

  (* invalidation: every mutable accessor empties the cache, whatever it held *)
  Definition is_mutation (o : sp_op) : bool :=
    match o with
    | OpSetPoints _ | OpSetDist _ | OpTouchPoints | OpTouchDist | OpClear => true
    | _ => false
    end.

  Definition cps_after (sp : SliderPath) (o : sp_op) : list PathControlPoint :=
    match o with OpSetPoints pts => pts | _ => sp_cps sp end.
  Definition dist_after (sp : SliderPath) (o : sp_op) : option F64 :=
    match o with OpSetDist e => e | _ => sp_expected sp end.

  Lemma mutation_invalidates sp bufs o :
    is_mutation o = true ->
    sp_step lm fuel sp bufs o = Done (mkSP (sp_mode sp) (cps_after sp o) (dist_after sp o) None, bufs, None).
  Proof. destruct o; cbn [is_mutation]; try discriminate; intros _; reflexivity. Qed.

  (* a fresh SliderPath satisfies the invariant *)
  Lemma cache_ok_new mode cps e : cache_ok (sp_new mode cps e).
  Proof. exact I. Qed.
End WithLibm.

(* SliderPathFacts: T18b.  The SliderPath accessors as a state machine next to
   a shared CurveBuffers: for every history, what the caller reads is what a
   cache-free, buffer-free specification computes from the *current* fields.
   The only excluded situation is defect D7 (an empty control-point list
   computed through buffers that still hold a borrowed path), stated as the
   side condition [op_safe]. *)
From RM Require Import Model.ControlPoints Model.Curve Model.SliderPathCache
  Proofs.BezierRefine Proofs.CurveRefine.
Open Scope nat_scope.

Section WithLibm.
  Variable lm : Libm.
  Variable fuel : positive.

  Notation L1 := (curve_L1 lm fuel).

  (* ---------- constructors through possibly dirty buffers ---------- *)

  Definition usable (pts : list PathControlPoint) (bufs : CurveBuffers) : Prop :=
    pts <> [] \/ cb_path bufs = [].

  Lemma owned_ok mode pts e bufs :
    cb_wf bufs -> usable pts bufs ->
    match L1 mode pts e with
    | Done c => exists bufs', curve_new_L0 lm fuel mode pts e bufs = Done (c, bufs') /\ cb_wf bufs'
                              /\ cb_path bufs' = []
    | Panic w => curve_new_L0 lm fuel mode pts e bufs = Panic w
    | OutOfFuel => curve_new_L0 lm fuel mode pts e bufs = OutOfFuel
    end.
  Proof.
    intros Hwf [Hne|Hc].
    - pose proof (curve_new_refines lm fuel mode pts e bufs Hne Hwf) as H.
      destruct (L1 mode pts e); [|exact H|exact H].
      destruct H as (b' & H1 & H2 & H3 & _). exists b'. repeat split; assumption.
    - destruct pts as [|p0 pt].
      + unfold curve_new_L0, curve_L1. rewrite compute_nil.
        unfold calculate_length_L0, calculate_path_L1. rewrite Hc. cbn [obind].
        rewrite !calculate_length_nil. cbn [obind cb_path cb_lengths cb_vertices cb_bezier].
        eexists. split; [reflexivity|]. split; [exact Hwf|reflexivity].
      + assert (Hne : p0 :: pt <> []) by discriminate.
        pose proof (curve_new_refines lm fuel mode (p0 :: pt) e bufs Hne Hwf) as H.
        destruct (L1 mode (p0 :: pt) e); [|exact H|exact H].
        destruct H as (b' & H1 & H2 & H3 & _). exists b'. repeat split; assumption.
  Qed.

  Lemma borrowed_ok mode pts e bufs :
    cb_wf bufs -> usable pts bufs ->
    match L1 mode pts e with
    | Done c => exists bufs', borrowed_new_L0 lm fuel mode pts e bufs = Done (c, bufs') /\ cb_wf bufs'
    | Panic w => borrowed_new_L0 lm fuel mode pts e bufs = Panic w
    | OutOfFuel => borrowed_new_L0 lm fuel mode pts e bufs = OutOfFuel
    end.
  Proof.
    intros Hwf [Hne|Hc].
    - pose proof (borrowed_new_refines lm fuel mode pts e bufs Hne Hwf) as H.
      destruct (L1 mode pts e); [|exact H|exact H].
      destruct H as (b' & H1 & H2 & _). exists b'. split; assumption.
    - destruct pts as [|p0 pt].
      + unfold borrowed_new_L0, curve_L1. rewrite compute_nil.
        unfold calculate_length_L0, calculate_path_L1. rewrite Hc. cbn [obind].
        rewrite !calculate_length_nil. cbn [obind cb_path cb_lengths cb_vertices cb_bezier].
        eexists. split; [reflexivity|exact Hwf].
      + assert (Hne : p0 :: pt <> []) by discriminate.
        pose proof (borrowed_new_refines lm fuel mode (p0 :: pt) e bufs Hne Hwf) as H.
        destruct (L1 mode (p0 :: pt) e); [|exact H|exact H].
        destruct H as (b' & H1 & H2 & _). exists b'. split; assumption.
  Qed.

  (* ---------- the specification: no cache, no buffers ---------- *)

  (* what an operation returns, as a function of the current fields only *)
  Definition spec_step (sp : SliderPath) (o : sp_op) : outcome (SliderPath * option Curve) :=
    match o with
    | OpCurve | OpCurveWithBufs | OpBorrowed =>
        obind (L1 (sp_mode sp) (sp_cps sp) (sp_expected sp)) (fun c => Done (sp, Some c))
    | OpSetPoints pts => Done (mkSP (sp_mode sp) pts (sp_expected sp) None, None)
    | OpSetDist e => Done (mkSP (sp_mode sp) (sp_cps sp) e None, None)
    | OpTouchPoints | OpTouchDist | OpClear => Done (sp, None)
    | OpOwnedOther mode pts e | OpBorrowedOther mode pts e =>
        obind (L1 mode pts e) (fun c => Done (sp, Some c))
    end.

  Fixpoint spec_run (sp : SliderPath) (ops : list sp_op) : outcome (list (option Curve)) :=
    match ops with
    | [] => Done []
    | o :: r =>
        obind (spec_step sp o) (fun '(sp', res) =>
        obind (spec_run sp' r) (fun rs => Done (res :: rs)))
    end.

  (* ---------- invariant ---------- *)

  (* the cache is empty or holds the curve of the current fields *)
  Definition cache_ok (sp : SliderPath) : Prop :=
    match sp_curve sp with
    | None => True
    | Some c => L1 (sp_mode sp) (sp_cps sp) (sp_expected sp) = Done c
    end.

  Definition same_fields (a b : SliderPath) : Prop :=
    sp_mode a = sp_mode b /\ sp_cps a = sp_cps b /\ sp_expected a = sp_expected b.

  (* D7 exclusion: an operation that computes through the shared buffers
     with an empty list needs a clean path buffer *)
  Definition op_safe (sp : SliderPath) (bufs : CurveBuffers) (o : sp_op) : Prop :=
    match o with
    | OpCurveWithBufs | OpBorrowed => sp_curve sp <> None \/ usable (sp_cps sp) bufs
    | OpOwnedOther _ pts _ | OpBorrowedOther _ pts _ => usable pts bufs
    | _ => True
    end.

  Lemma usable_default pts : usable pts bufs_default.
  Proof. right. reflexivity. Qed.

  Lemma sp_step_spec sp bufs o :
    cache_ok sp -> cb_wf bufs -> op_safe sp bufs o ->
    match spec_step (sp_clear sp) o with
    | Done (f', res) =>
        exists sp' bufs', sp_step lm fuel sp bufs o = Done (sp', bufs', res)
                          /\ cache_ok sp' /\ cb_wf bufs' /\ sp_clear sp' = f'
    | Panic w => sp_step lm fuel sp bufs o = Panic w
    | OutOfFuel => sp_step lm fuel sp bufs o = OutOfFuel
    end.
  Proof.
    intros Hc Hwf Hs. destruct sp as [mode cps e cache]. unfold cache_ok in Hc. cbn [sp_curve sp_mode sp_cps sp_expected] in Hc.
    unfold sp_clear. cbn [sp_mode sp_cps sp_expected].
    destruct o; cbn [spec_step sp_step sp_mode sp_cps sp_expected sp_curve op_safe] in *.
    - (* curve() *)
      destruct cache as [c|].
      + rewrite Hc. cbn [obind]. do 2 eexists. split; [reflexivity|]. repeat split; assumption.
      + pose proof (owned_ok mode cps e bufs_default cb_wf_default (usable_default cps)) as H.
        destruct (L1 mode cps e) as [c| |] eqn:E; cbn [obind].
        * destruct H as (b' & -> & _). cbn [obind]. do 2 eexists. split; [reflexivity|].
          repeat split; try assumption; try exact I.
        * rewrite H. reflexivity.
        * rewrite H. reflexivity.
    - (* curve_with_bufs *)
      destruct cache as [c|].
      + rewrite Hc. cbn [obind]. do 2 eexists. split; [reflexivity|]. repeat split; assumption.
      + destruct Hs as [Hs|Hs]; [congruence|].
        pose proof (owned_ok mode cps e bufs Hwf Hs) as H.
        destruct (L1 mode cps e) as [c| |] eqn:E; cbn [obind].
        * destruct H as (b' & -> & Hwf' & _). cbn [obind]. do 2 eexists. split; [reflexivity|].
          repeat split; try assumption; try exact I.
        * rewrite H. reflexivity.
        * rewrite H. reflexivity.
    - (* borrowed_curve *)
      destruct cache as [c|].
      + rewrite Hc. cbn [obind]. do 2 eexists. split; [reflexivity|]. repeat split; assumption.
      + destruct Hs as [Hs|Hs]; [congruence|].
        pose proof (borrowed_ok mode cps e bufs Hwf Hs) as H.
        destruct (L1 mode cps e) as [c| |] eqn:E; cbn [obind].
        * destruct H as (b' & -> & Hwf'). cbn [obind]. do 2 eexists. split; [reflexivity|].
          repeat split; try assumption; try exact I.
        * rewrite H. reflexivity.
        * rewrite H. reflexivity.
    - do 2 eexists. split; [reflexivity|]. repeat split; try assumption; try exact I.
    - do 2 eexists. split; [reflexivity|]. repeat split; try assumption; try exact I.
    - do 2 eexists. split; [reflexivity|]. repeat split; try assumption; try exact I.
    - do 2 eexists. split; [reflexivity|]. repeat split; try assumption; try exact I.
    - do 2 eexists. split; [reflexivity|]. repeat split; try assumption; try exact I.
    - (* Curve::new elsewhere *)
      pose proof (owned_ok mode0 pts e0 bufs Hwf Hs) as H.
      destruct (L1 mode0 pts e0) as [c| |]; cbn [obind].
      + destruct H as (b' & -> & Hwf' & _). cbn [obind]. do 2 eexists. split; [reflexivity|].
        repeat split; assumption.
      + rewrite H. reflexivity.
      + rewrite H. reflexivity.
    - pose proof (borrowed_ok mode0 pts e0 bufs Hwf Hs) as H.
      destruct (L1 mode0 pts e0) as [c| |]; cbn [obind].
      + destruct H as (b' & -> & Hwf'). cbn [obind]. do 2 eexists. split; [reflexivity|].
        repeat split; assumption.
      + rewrite H. reflexivity.
      + rewrite H. reflexivity.
  Qed.

  (* the side condition along a run *)
  Fixpoint hist_safe (sp : SliderPath) (bufs : CurveBuffers) (ops : list sp_op) : Prop :=
    match ops with
    | [] => True
    | o :: r =>
        op_safe sp bufs o /\
        match sp_step lm fuel sp bufs o with
        | Done (sp', bufs', _) => hist_safe sp' bufs' r
        | _ => True
        end
    end.

  Definition results {A B C} (o : outcome (A * B * C)) : outcome C :=
    match o with Done (_, _, c) => Done c | Panic w => Panic w | OutOfFuel => OutOfFuel end.

  (* T18b *)
  Theorem sp_run_spec ops : forall sp bufs,
    cache_ok sp -> cb_wf bufs -> hist_safe sp bufs ops ->
    results (sp_run lm fuel sp bufs ops) = spec_run (sp_clear sp) ops /\
    match sp_run lm fuel sp bufs ops with
    | Done (sp', bufs', _) => cache_ok sp' /\ cb_wf bufs'
    | _ => True
    end.
  Proof.
    induction ops as [|o r IH]; intros sp bufs Hc Hwf Hs.
    - cbn. repeat split; assumption.
    - destruct Hs as [Hso Hsr]. cbn [sp_run spec_run].
      pose proof (sp_step_spec sp bufs o Hc Hwf Hso) as H.
      destruct (spec_step (sp_clear sp) o) as [[f' res]| |]; cbn [obind].
      + destruct H as (sp' & bufs' & E & Hc' & Hwf' & Hf). rewrite E in *. cbn [obind].
        specialize (IH sp' bufs' Hc' Hwf' Hsr). destruct IH as [IH1 IH2]. rewrite <- Hf.
        destruct (sp_run lm fuel sp' bufs' r) as [[[sp2 bufs2] rs]| |]; cbn [results] in IH1;
          rewrite <- IH1; cbn [obind results]; split; try reflexivity; try exact IH2; exact I.
      + rewrite H. cbn. split; [reflexivity|exact I].
      + rewrite H. cbn. split; [reflexivity|exact I].
  Qed.

  (* ---------- sufficient conditions for the side condition ---------- *)

  Definition op_nonempty (o : sp_op) : Prop :=
    match o with
    | OpSetPoints pts | OpOwnedOther _ pts _ | OpBorrowedOther _ pts _ => pts <> []
    | _ => True
    end.

  Lemma sp_step_cps sp bufs o sp' bufs' res :
    sp_step lm fuel sp bufs o = Done (sp', bufs', res) ->
    sp_cps sp' = match o with OpSetPoints pts => pts | _ => sp_cps sp end.
  Proof.
    destruct sp as [mode cps e cache].
    destruct o; cbn [sp_step sp_curve sp_mode sp_cps sp_expected sp_clear]; intros H;
      repeat match type of H with
             | context [match ?c with Some _ => _ | None => _ end] => destruct c
             | context [obind ?x _] => destruct x as [[? ?]| |]; cbn [obind] in H
             end; try discriminate; inversion H; reflexivity.
  Qed.

  (* (a) no empty control-point list anywhere in the history *)
  Lemma hist_safe_nonempty ops : forall sp bufs,
    sp_cps sp <> [] -> Forall op_nonempty ops -> hist_safe sp bufs ops.
  Proof.
    induction ops as [|o r IH]; intros sp bufs Hne Hall; [exact I|].
    pose proof (Forall_inv Hall) as Ho. pose proof (Forall_inv_tail Hall) as Hr.
    cbn [hist_safe]. split.
    - destruct o; cbn [op_safe op_nonempty] in *; try exact I; try (right; left; assumption); left; assumption.
    - destruct (sp_step lm fuel sp bufs o) as [[[sp' bufs'] res]| |] eqn:E; try exact I.
      apply IH; [|exact Hr]. rewrite (sp_step_cps _ _ _ _ _ _ E).
      destruct o; cbn [op_nonempty] in Ho; assumption.
  Qed.

  Corollary sp_run_spec_nonempty ops sp bufs :
    cache_ok sp -> cb_wf bufs -> sp_cps sp <> [] -> Forall op_nonempty ops ->
    results (sp_run lm fuel sp bufs ops) = spec_run (sp_clear sp) ops.
  Proof.
    intros Hc Hwf Hne Hall.
    exact (proj1 (sp_run_spec ops sp bufs Hc Hwf (hist_safe_nonempty ops sp bufs Hne Hall))).
  Qed.

  (* (b) empty lists allowed, but no borrowed computation shares the buffers:
     every owned computation leaves the path buffer empty *)
  Definition op_no_borrow (o : sp_op) : Prop :=
    match o with OpBorrowed | OpBorrowedOther _ _ _ => False | _ => True end.

  Lemma sp_step_clean sp bufs o sp' bufs' res :
    op_no_borrow o -> cb_path bufs = [] ->
    sp_step lm fuel sp bufs o = Done (sp', bufs', res) -> cb_path bufs' = [].
  Proof.
    intros Hnb Hc. destruct sp as [mode cps e cache].
    destruct o; cbn [op_no_borrow] in Hnb; try contradiction;
      cbn [sp_step sp_curve sp_mode sp_cps sp_expected sp_clear]; unfold curve_new_L0; intros H;
      repeat match type of H with
             | context [match ?c with Some _ => _ | None => _ end] => destruct c
             | context [obind (obind ?x _) _] => destruct x; cbn [obind] in H
             | context [obind ?x _] => destruct x as [[? ?]| |]; cbn [obind] in H
             end; try discriminate; inversion H; subst; try assumption; reflexivity.
  Qed.

  Lemma hist_safe_no_borrow ops : forall sp bufs,
    cb_path bufs = [] -> Forall op_no_borrow ops -> hist_safe sp bufs ops.
  Proof.
    induction ops as [|o r IH]; intros sp bufs Hc Hall; [exact I|].
    pose proof (Forall_inv Hall) as Ho. pose proof (Forall_inv_tail Hall) as Hr.
    cbn [hist_safe]. split.
    - destruct o; cbn [op_safe op_no_borrow] in *; try exact I; try contradiction;
        try (right; right; assumption); right; assumption.
    - destruct (sp_step lm fuel sp bufs o) as [[[sp' bufs'] res]| |] eqn:E; try exact I.
      apply IH; [|exact Hr]. exact (sp_step_clean _ _ _ _ _ _ Ho Hc E).
  Qed.

  Corollary sp_run_spec_no_borrow ops sp bufs :
    cache_ok sp -> cb_wf bufs -> cb_path bufs = [] -> Forall op_no_borrow ops ->
    results (sp_run lm fuel sp bufs ops) = spec_run (sp_clear sp) ops.
  Proof.
    intros Hc Hwf Hcl Hall.
    exact (proj1 (sp_run_spec ops sp bufs Hc Hwf (hist_safe_no_borrow ops sp bufs Hcl Hall))).
  Qed.

  (* invalidation: every mutable accessor empties the cache, whatever it held *)
  Definition is_mutation (o : sp_op) : bool :=
    match o with
    | OpSetPoints _ | OpSetDist _ | OpTouchPoints | OpTouchDist | OpClear => true
    | _ => false
    end.

  Definition cps_after (sp : SliderPath) (o : sp_op) : list PathControlPoint :=
    match o with OpSetPoints pts => pts | _ => sp_cps sp end.
  Definition dist_after (sp : SliderPath) (o : sp_op) : option F64 :=
    match o with OpSetDist e => e | _ => sp_expected sp end.

  Lemma mutation_invalidates sp bufs o :
    is_mutation o = true ->
    sp_step lm fuel sp bufs o = Done (mkSP (sp_mode sp) (cps_after sp o) (dist_after sp o) None, bufs, None).
  Proof. destruct o; cbn [is_mutation]; try discriminate; intros _; reflexivity. Qed.

  (* a fresh SliderPath satisfies the invariant *)
  Lemma cache_ok_new mode cps e : cache_ok (sp_new mode cps e).
  Proof. exact I. Qed.
End WithLibm.

(* EncTimingDecode: T02d (c), first half -- decoding the lines that encode_timing_points
   wrote.  For ANY list of decisions [ds] (one per group: optional timing record, optional
   inherited record) whose groups are strictly sorted, whose timing points sit at their
   group's time and whose distinct group times are at least f64::EPSILON apart:
     - the accepted lines fall into runs = the blocks of the decisions (a timing record
       and the inherited record of the same group share a run; different groups never do);
     - per block the winner rules give: the timing point of the timing record; the
       difficulty / effect / sample point of the inherited record if there is one, else of
       the timing record;
     - [legacy_spec] (= tp_decode, C12) yields the timing points in order and the
       compressions of the emitted difficulty / effect / sample points ([decode_decisions]). *)
From RM Require Import Model.EncTimingSpec Proofs.BSearch Proofs.ControlPointsFacts Proofs.ControlPointsChrono
  Proofs.TPFloatFacts Proofs.TimingPointsFacts Proofs.TimingPointsValues
  Proofs.EncFmt Proofs.EncTiming Proofs.EncTimingParse Proofs.EncGroups Proofs.EncChrono.
From RM Require Import Gen.Generated.
From Coq Require Import Sorting.Sorted.
From Coq Require Import ZifyBool.
Open Scope Z_scope.

Notation tpl := Model.TimingPoints.tp_line.

(* ---------- runs of a concatenation of separated blocks ---------- *)

Fixpoint cross_sep (bs : list (list tpl)) : Prop :=
  match bs with
  | [] => True
  | b :: r => (forall x y, In x b -> In y (concat r) -> same_time (l_time y) (l_time x) = false) /\ cross_sep r
  end.

Lemma flat_runs_blocks {B} (f : list tpl -> list B) (Hf : f [] = []) bs :
  Forall chain bs -> cross_sep bs -> flat_map f (runs (concat bs)) = flat_map f bs.
Proof.
  induction bs as [|b r IH]; intros Hc Hx; [reflexivity|].
  inversion Hc as [|? ? Hb Hr]; subst. destruct Hx as (Hx1 & Hx2). cbn [concat flat_map].
  specialize (IH Hr Hx2). destruct (concat r) as [|y ys] eqn:E.
  - rewrite app_nil_r, (flat_runs_chain f Hf b Hb). cbn [runs flat_map] in IH. rewrite <- IH, app_nil_r. reflexivity.
  - rewrite (flat_runs_cut f Hf b y ys Hb).
    + rewrite IH. reflexivity.
    + intros x Hl. apply Hx1; [exact (TimingPointsValues.last_opt_In _ _ Hl) | left; reflexivity].
Qed.

Lemma chain_same_time (l : list tpl) t : (forall x, In x l -> l_time x = t) -> chain l.
Proof.
  induction l as [|a l IH]; intros H; [exact I|]. destruct l as [|b l]; [exact I|]. split.
  - rewrite (H a (or_introl eq_refl)), (H b (or_intror (or_introl eq_refl))). unfold same_time.
    rewrite time_changed_refl. reflexivity.
  - apply IH. intros x Hx. apply H. right. exact Hx.
Qed.

(* ---------- one decision, parsed ---------- *)

Definition d_time (d : gdec) : F64 := gr_time (gd_group d).

Section Dec.
  Variable g : tp_general.
  Notation mode := (tpg_mode g).

  Definition rec_T (d : gdec) (t : TimingPoint) : tpl :=
    parsed_line g (tp_time t) (tp_beat_len t) (gd_props d) true.
  Definition rec_I (d : gdec) : tpl :=
    parsed_line g (d_time d) (D.div f64_m100 (pr_sv (gd_props d))) (gd_props d) false.

  Definition d_lines (d : gdec) : list tpl := map (wrec_parsed g) (gd_block d).

  Lemma d_lines_eq d :
    d_lines d = match gr_timing (gd_group d) with Some t => [rec_T d t] | None => [] end ++
                (if gd_inh d then [rec_I d] else []).
  Proof. unfold d_lines, gd_block. rewrite map_app. destruct (gr_timing (gd_group d)), (gd_inh d); reflexivity. Qed.

  (* the record whose difficulty / effect / sample point wins the run of the group *)
  Definition win_line (d : gdec) : option tpl :=
    if gd_inh d then Some (rec_I d)
    else match gr_timing (gd_group d) with Some t => Some (rec_T d t) | None => None end.

  Definition emitT (d : gdec) : option TimingPoint :=
    match gr_timing (gd_group d) with Some t => Some (line_tp (rec_T d t)) | None => None end.
  Definition emitD (d : gdec) : option DifficultyPoint := omap line_dp (win_line d).
  Definition emitE (d : gdec) : option EffectPoint := omap (line_ep mode) (win_line d).
  Definition emitS (d : gdec) : option SamplePoint := omap line_sp (win_line d).

  Definition d_ops (d : gdec) : list cp_op :=
    match emitT d with Some p => [OpAddT p] | None => [] end ++
    match win_line d with
    | Some r => [OpAddD (line_dp r); OpAddE (line_ep mode r); OpAddS (line_sp r)]
    | None => []
    end.

  Lemma rec_T_tc d t : l_tc (rec_T d t) = true. Proof. reflexivity. Qed.
  Lemma rec_I_tc d : l_tc (rec_I d) = false. Proof. reflexivity. Qed.

  (* the winner rules on the block of one group *)
  Lemma run_ops_block d : run_ops mode (d_lines d) = d_ops d.
  Proof.
    rewrite d_lines_eq. unfold d_ops, emitT, win_line, run_ops, timing_winner, winner, inherited.
    destruct (gr_timing (gd_group d)) as [t|], (gd_inh d); cbn [app filter];
      rewrite ?rec_T_tc, ?rec_I_tc; cbn [negb filter hd_error last_opt app]; reflexivity.
  Qed.

  (* every record of the block carries the group's time *)
  Definition own_time (d : gdec) : Prop :=
    forall t, gr_timing (gd_group d) = Some t -> tp_time t = d_time d.

  Lemma d_lines_time d x : own_time d -> In x (d_lines d) -> l_time x = d_time d.
  Proof.
    intros Ho. rewrite d_lines_eq. intros Hin. apply in_app_or in Hin. destruct Hin as [Hin|Hin].
    - destruct (gr_timing (gd_group d)) as [t|] eqn:E; [|destruct Hin]. destruct Hin as [<-|[]]. exact (Ho t E).
    - destruct (gd_inh d); [|destruct Hin]. destruct Hin as [<-|[]]. reflexivity.
  Qed.

  Lemma win_line_time d r : own_time d -> win_line d = Some r -> l_time r = d_time d.
  Proof.
    intros Ho. unfold win_line. destruct (gd_inh d); [intros H; inversion H; reflexivity|].
    destruct (gr_timing (gd_group d)) as [t|] eqn:E; [|discriminate]. intros H; inversion H; subst. exact (Ho t E).
  Qed.

  (* ---------- the projections of the add history ---------- *)

  Lemma ops_T_app a b : ops_T (a ++ b) = ops_T a ++ ops_T b. Proof. apply flat_map_app. Qed.
  Lemma ops_D_app a b : ops_D (a ++ b) = ops_D a ++ ops_D b. Proof. apply flat_map_app. Qed.
  Lemma ops_E_app a b : ops_E (a ++ b) = ops_E a ++ ops_E b. Proof. apply flat_map_app. Qed.
  Lemma ops_S_app a b : ops_S (a ++ b) = ops_S a ++ ops_S b. Proof. apply flat_map_app. Qed.

  Lemma ops_ds ds :
    ops_T (flat_map d_ops ds) = emitted emitT ds /\ ops_D (flat_map d_ops ds) = emitted emitD ds /\
    ops_E (flat_map d_ops ds) = emitted emitE ds /\ ops_S (flat_map d_ops ds) = emitted emitS ds.
  Proof.
    induction ds as [|d r (IT & ID & IE & IS)]; [repeat split; reflexivity|].
    unfold emitted in *. cbn [flat_map]. rewrite ops_T_app, ops_D_app, ops_E_app, ops_S_app, IT, ID, IE, IS.
    unfold d_ops, emitD, emitE, emitS.
    destruct (emitT d), (win_line d); repeat split; reflexivity.
  Qed.

  Lemma emitT_time d p : own_time d -> emitT d = Some p -> K tp_time p = K d_time d.
  Proof.
    intros Ho. unfold emitT. destruct (gr_timing (gd_group d)) as [t|] eqn:E; [|discriminate].
    intros H; inversion H; subst. unfold K. cbn [line_tp tp_new tp_time rec_T parsed_line l_time]. rewrite (Ho t E). reflexivity.
  Qed.
  Lemma emitD_time d p : own_time d -> emitD d = Some p -> K dp_time p = K d_time d.
  Proof.
    intros Ho. unfold emitD. destruct (win_line d) as [r|] eqn:E; [|discriminate]. intros H; inversion H; subst.
    unfold K. cbn [line_dp dp_new dp_time]. rewrite (win_line_time d r Ho E). reflexivity.
  Qed.
  Lemma line_ep_time m r : ep_time (line_ep m r) = l_time r.
  Proof. unfold line_ep. destruct (scroll_mode m); reflexivity. Qed.
  Lemma emitE_time d p : own_time d -> emitE d = Some p -> K ep_time p = K d_time d.
  Proof.
    intros Ho. unfold emitE. destruct (win_line d) as [r|] eqn:E; [|discriminate]. intros H; inversion H; subst.
    unfold K. rewrite line_ep_time, (win_line_time d r Ho E). reflexivity.
  Qed.
  Lemma emitS_time d p : own_time d -> emitS d = Some p -> K sp_time p = K d_time d.
  Proof.
    intros Ho. unfold emitS. destruct (win_line d) as [r|] eqn:E; [|discriminate]. intros H; inversion H; subst.
    unfold K. cbn [line_sp sp_new sp_time]. rewrite (win_line_time d r Ho E). reflexivity.
  Qed.

  (* ---------- blocks of different groups never share a run ---------- *)

  Definition ds_apart (ds : list gdec) : Prop :=
    forall d d', In d ds -> In d' ds -> K d_time d < K d_time d' -> time_changed (d_time d') (d_time d) = true.

  Lemma blocks_chain ds : Forall own_time ds -> Forall chain (map d_lines ds).
  Proof.
    intros H. rewrite Forall_map. eapply Forall_impl; [|exact H]. cbv beta. intros d Ho.
    apply (chain_same_time _ (d_time d)). intros x Hx. exact (d_lines_time d x Ho Hx).
  Qed.

  Lemma blocks_cross ds : sorted d_time ds -> Forall own_time ds -> ds_apart ds -> cross_sep (map d_lines ds).
  Proof.
    induction ds as [|d r IH]; intros Hs Ho Ha; [exact I|].
    destruct (sorted_cons_inv _ _ _ Hs) as (Hs' & Hlt). inversion Ho as [|? ? Hod Hor]; subst.
    cbn [map cross_sep]. split.
    - intros x y Hx Hy. apply in_concat in Hy. destruct Hy as (b & Hb & Hy). apply in_map_iff in Hb.
      destruct Hb as (d' & <- & Hd'). rewrite Forall_forall in Hlt, Hor.
      rewrite (d_lines_time d x Hod Hx), (d_lines_time d' y (Hor d' Hd') Hy). unfold same_time.
      rewrite (Ha d d' (or_introl eq_refl) (or_intror Hd') (Hlt d' Hd')). reflexivity.
    - apply IH; [exact Hs' | exact Hor|]. intros a b Hina Hinb. apply Ha; right; assumption.
  Qed.

  Lemma map_flat_map_concat {A B C} (h : B -> C) (f : A -> list B) l :
    map h (flat_map f l) = concat (map (fun a => map h (f a)) l).
  Proof. induction l as [|a r IH]; [reflexivity|]. cbn [flat_map map concat]. rewrite map_app, IH. reflexivity. Qed.

  Lemma flat_map_over_map {A B C} (f : B -> list C) (h : A -> B) l : flat_map f (map h l) = flat_map (fun a => f (h a)) l.
  Proof. induction l as [|a r IH]; [reflexivity|]. cbn [map flat_map]. rewrite IH. reflexivity. Qed.

  (* the add history of the run-based specification on the parsed records *)
  Lemma spec_ops_decisions ds :
    sorted d_time ds -> Forall own_time ds -> ds_apart ds ->
    flat_map (run_ops mode) (runs (map (wrec_parsed g) (flat_map gd_block ds))) = flat_map d_ops ds.
  Proof.
    intros Hs Ho Ha. rewrite map_flat_map_concat. fold d_lines. change (fun a => d_lines a) with d_lines.
    rewrite (flat_runs_blocks (run_ops mode) (run_ops_nil mode) _ (blocks_chain ds Ho) (blocks_cross ds Hs Ho Ha)).
    rewrite flat_map_over_map. apply flat_map_ext. intros d. apply run_ops_block.
  Qed.

  Lemma all_after_nil {P} (time : P -> F64) ps : all_after time [] ps.
  Proof. apply Forall_forall. intros p _. constructor. Qed.

  (* what the run-based specification makes of the decisions' records *)
  Theorem cp_run_decisions ds :
    sorted d_time ds -> Forall own_time ds -> ds_apart ds ->
    cp_run cp_empty (flat_map d_ops ds) =
    Done (mkCP (emitted emitT ds)
               (compress dp_redundant None (fun p => dp_redundant p dflt_dp) (emitted emitD ds))
               (compress ep_redundant None (fun p => ep_redundant p dflt_ep) (emitted emitE ds))
               (compress sp_redundant None (fun _ => false) (emitted emitS ds))).
  Proof.
    intros Hs Ho Ha. destruct (ops_ds ds) as (ET & ED & EE & ES).
    rewrite (cp_run_chrono _ cp_empty cp_empty_sorted); rewrite ?ET, ?ED, ?EE, ?ES; try apply all_after_nil.
    - reflexivity.
    - exact (emitted_chrono d_time tp_time emitT own_time emitT_time ds Hs Ho).
    - exact (emitted_chrono d_time dp_time emitD own_time emitD_time ds Hs Ho).
    - exact (emitted_chrono d_time ep_time emitE own_time emitE_time ds Hs Ho).
    - exact (emitted_chrono d_time sp_time emitS own_time emitS_time ds Hs Ho).
  Qed.
End Dec.

(* EncObjTimes: the float arithmetic of the hit-object round trip (C02 / T02b).
   The encoder writes the end of a spinner / hold as  start + duration ; the decoder
   reads the duration back as  (end - start).max(0.0)  (spinner) or
   max(start, end) - start  (hold).  For integer-valued times below 2^53 in magnitude
   both reproduce the duration exactly, and the end time passes the parse limit. *)
From RM Require Import Model.EncObjCarry Proofs.EncFloat.
From RM Require Import Gen.Generated.
From Flocq Require Import Core BinarySingleNaN.
From Coq Require Import Reals Lia Lra ZArith.
Open Scope Z_scope.

(* an f64 that holds the integer [n], with the sign of zero being + *)
Definition holds (x : F64) (n : Z) : Prop :=
  B2R x = IZR n /\ is_finite x = true /\ Bsign x = (n <? 0).

Lemma holds_eq x y n : holds x n -> holds y n -> x = y.
Proof.
  intros (R1 & F1 & S1) (R2 & F2 & S2). apply B2R_Bsign_inj; try assumption; congruence.
Qed.

Lemma int_format n : Z.abs n < 2 ^ 53 -> generic_format radix2 (SpecFloat.fexp 53 1024) (IZR n).
Proof.
  intros Hn. replace (IZR n) with (F2R (Float radix2 n 0)) by (unfold F2R; cbn [Fnum Fexp bpow]; lra).
  apply (generic_format_FLT radix2 (SpecFloat.emin 53 1024) 53).
  apply (FLT_spec radix2 _ _ _ (Float radix2 n 0)); cbn [Fnum Fexp].
  - reflexivity.
  - change (Zpower radix2 53) with (2 ^ 53). exact Hn.
  - unfold SpecFloat.emin. lia.
Qed.

Lemma int_round n : Z.abs n < 2 ^ 53 ->
  round radix2 (SpecFloat.fexp 53 1024) (round_mode mode_NE) (IZR n) = IZR n.
Proof. intros Hn. apply round_generic; [apply valid_rnd_round_mode|apply int_format; exact Hn]. Qed.

Lemma int_small n : Z.abs n < 2 ^ 53 -> (Rabs (IZR n) < bpow radix2 1024)%R.
Proof.
  intros Hn. rewrite <- abs_IZR. apply Rlt_le_trans with (IZR (2 ^ 53)).
  - apply IZR_lt. exact Hn.
  - change 2 with (radix_val radix2). rewrite IZR_Zpower by lia. apply bpow_le. lia.
Qed.

Lemma rcompare_int n : Rcompare (IZR n) 0 = (n ?= 0).
Proof.
  destruct (Z.compare_spec n 0) as [E|E|E].
  - subst. apply Rcompare_Eq. reflexivity.
  - apply Rcompare_Lt. apply (IZR_lt n 0). exact E.
  - apply Rcompare_Gt. apply (IZR_lt 0 n). exact E.
Qed.

Lemma of_Z_holds n : Z.abs n < 2 ^ 53 -> holds (D.of_Z n) n.
Proof.
  intros Hn. unfold holds, D.of_Z, of_Z.
  pose proof (binary_normalize_correct 53 1024 Hp64 He64 mode_NE n 0 false) as H. cbv zeta in H.
  assert (Hx : F2R (Float radix2 n 0) = IZR n) by (unfold F2R; cbn [Fnum Fexp bpow]; lra).
  rewrite Hx, (int_round n Hn), (Rlt_bool_true _ _ (int_small n Hn)) in H.
  destruct H as (H1 & H2 & H3). repeat split; try assumption.
  rewrite H3, rcompare_int. destruct (Z.compare_spec n 0) as [E|E|E]; symmetry; [apply Z.ltb_ge|apply Z.ltb_lt|apply Z.ltb_ge]; lia.
Qed.

Lemma add_holds x y a b : holds x a -> holds y b -> Z.abs (a + b) < 2 ^ 53 -> holds (D.add x y) (a + b).
Proof.
  intros (R1 & F1 & S1) (R2 & F2 & S2) Hn. unfold holds, D.add, fadd.
  pose proof (Bplus_correct 53 1024 Hp64 He64 mode_NE x y F1 F2) as H.
  rewrite R1, R2, <- plus_IZR, (int_round _ Hn), (Rlt_bool_true _ _ (int_small _ Hn)) in H.
  destruct H as (H1 & H2 & H3). repeat split; try assumption.
  rewrite H3, rcompare_int, S1, S2.
  destruct (Z.compare_spec (a + b) 0) as [E|E|E]; [|symmetry; apply Z.ltb_lt; lia|symmetry; apply Z.ltb_ge; lia].
  rewrite E. change (0 <? 0) with false.
  destruct (Z.ltb_spec a 0), (Z.ltb_spec b 0); try reflexivity. lia.
Qed.

Lemma sub_holds x y a b : holds x a -> holds y b -> Z.abs (a - b) < 2 ^ 53 -> holds (D.sub x y) (a - b).
Proof.
  intros (R1 & F1 & S1) (R2 & F2 & S2) Hn. unfold holds, D.sub, fsub.
  pose proof (Bminus_correct 53 1024 Hp64 He64 mode_NE x y F1 F2) as H.
  rewrite R1, R2, <- minus_IZR, (int_round _ Hn), (Rlt_bool_true _ _ (int_small _ Hn)) in H.
  destruct H as (H1 & H2 & H3). repeat split; try assumption.
  rewrite H3, rcompare_int, S1, S2.
  destruct (Z.compare_spec (a - b) 0) as [E|E|E]; [|symmetry; apply Z.ltb_lt; lia|symmetry; apply Z.ltb_ge; lia].
  rewrite E. change (0 <? 0) with false.
  destruct (Z.ltb_spec a 0), (Z.ltb_spec b 0); try reflexivity. lia.
Qed.

Lemma holds_not_nan x n : holds x n -> D.is_nan x = false.
Proof. intros (_ & F & _). destruct x; try discriminate; reflexivity. Qed.

Lemma lt_holds x y a b : holds x a -> holds y b -> D.lt x y = (a <? b).
Proof.
  intros (R1 & F1 & _) (R2 & F2 & _). unfold D.lt, flt. rewrite Bltb_correct by assumption. rewrite R1, R2.
  destruct (Rlt_bool_spec (IZR a) (IZR b)) as [H|H].
  - apply lt_IZR in H. symmetry. apply Z.ltb_lt. exact H.
  - apply le_IZR in H. symmetry. apply Z.ltb_ge. exact H.
Qed.

Lemma le_holds x y a b : holds x a -> holds y b -> D.le x y = (a <=? b).
Proof.
  intros (R1 & F1 & _) (R2 & F2 & _). unfold D.le, fle. rewrite Bleb_correct by assumption. rewrite R1, R2.
  destruct (Rle_bool_spec (IZR a) (IZR b)) as [H|H].
  - apply le_IZR in H. symmetry. apply Z.leb_le. exact H.
  - apply lt_IZR in H. symmetry. apply Z.leb_gt. exact H.
Qed.

Lemma zero_holds : holds D.zero 0.
Proof. unfold holds, D.zero, fzero. cbn [B2R is_finite Bsign]. repeat split; reflexivity. Qed.

Lemma neg_holds x a : holds x a -> a <> 0 -> holds (D.neg x) (- a).
Proof.
  intros (R1 & F1 & S1) Ha. unfold holds, D.neg, fneg.
  rewrite B2R_Bopp, is_finite_Bopp, R1, opp_IZR. repeat split; [exact F1|].
  rewrite Bsign_Bopp by (destruct x; try discriminate; reflexivity). rewrite S1.
  destruct (Z.ltb_spec a 0), (Z.ltb_spec (- a) 0); try reflexivity; lia.
Qed.

(* ---------- the statements used by Proofs/EncObjectsRT.v ---------- *)

Theorem add_of_Z a b : Z.abs a < 2 ^ 53 -> Z.abs b < 2 ^ 53 -> Z.abs (a + b) < 2 ^ 53 ->
  D.add (D.of_Z a) (D.of_Z b) = D.of_Z (a + b).
Proof.
  intros Ha Hb Hs. apply (holds_eq _ _ (a + b)); [|apply of_Z_holds; exact Hs].
  apply add_holds; try apply of_Z_holds; assumption.
Qed.

(* integer-valued start [a] and duration [b >= 0]: both decoders reproduce the duration *)
Theorem int_times_ok a b : Z.abs a < 2 ^ 53 -> 0 <= b < 2 ^ 53 -> Z.abs (a + b) < 2 ^ 53 ->
  spinner_time_ok (D.of_Z a) (D.of_Z b) /\ hold_time_ok (D.of_Z a) (D.of_Z b).
Proof.
  intros Ha Hb Hs.
  assert (Hb' : Z.abs b < 2 ^ 53) by lia.
  pose proof (of_Z_holds a Ha) as Xa. pose proof (of_Z_holds b Hb') as Xb.
  pose proof (add_holds _ _ a b Xa Xb Hs) as Xe.
  assert (Xd : holds (D.sub (D.add (D.of_Z a) (D.of_Z b)) (D.of_Z a)) b).
  { replace b with (a + b - a) at 2 by lia. apply sub_holds; try assumption. replace (a + b - a) with b by lia. exact Hb'. }
  split.
  - unfold spinner_time_ok, f64_max_lit. rewrite (holds_not_nan _ b Xd), (lt_holds _ _ 0 b zero_holds Xd).
    destruct (Z.ltb_spec 0 b) as [Hpos|Hz].
    + apply (holds_eq _ _ b); assumption.
    + assert (b = 0) by lia. subst b. apply (holds_eq _ _ 0); [exact zero_holds|exact Xb].
  - unfold hold_time_ok, D.max, fmax. fold (D.is_nan (D.of_Z a)). fold (D.is_nan (D.add (D.of_Z a) (D.of_Z b))).
    rewrite (holds_not_nan _ a Xa), (holds_not_nan _ (a + b) Xe).
    fold (D.lt (D.of_Z a) (D.add (D.of_Z a) (D.of_Z b))). rewrite (lt_holds _ _ a (a + b) Xa Xe).
    destruct (Z.ltb_spec a (a + b)) as [Hpos|Hz].
    + apply (holds_eq _ _ b); assumption.
    + assert (b = 0) by lia. subst b. apply (holds_eq _ _ 0); [|exact Xb].
      replace 0 with (a - a) by lia. apply sub_holds; try assumption. replace (a - a) with 0 by lia. cbn; lia.
Qed.

(* an integer within the parse limits, as a float, is within the parse limits *)
Theorem in_lim64_of_Z n : Z.abs n <= max_parse_value -> in_lim64 (D.of_Z n) = true.
Proof.
  intros Hn. unfold max_parse_value in Hn.
  assert (Hn' : Z.abs n < 2 ^ 53) by lia.
  assert (Hl : Z.abs max_parse_value < 2 ^ 53) by (unfold max_parse_value; cbn; lia).
  pose proof (of_Z_holds n Hn') as Xn. assert (Xl : holds lim64 max_parse_value) by exact (of_Z_holds _ Hl).
  assert (Xm : holds (D.neg lim64) (- max_parse_value)) by (apply neg_holds; [exact Xl|discriminate]).
  unfold in_lim64. fold (D.is_nan (D.of_Z n)). rewrite (holds_not_nan _ n Xn).
  rewrite (le_holds _ _ _ _ Xm Xn), (le_holds _ _ n max_parse_value Xn Xl).
  unfold max_parse_value. cbn [negb andb].
  apply andb_true_intro. split; apply Z.leb_le; lia.
Qed.

Theorem int_end_in_limit a b : Z.abs a < 2 ^ 53 -> Z.abs b < 2 ^ 53 -> Z.abs (a + b) <= max_parse_value ->
  in_lim64 (D.add (D.of_Z a) (D.of_Z b)) = true.
Proof.
  intros Ha Hb Hs. rewrite add_of_Z; try assumption; [apply in_lim64_of_Z; exact Hs|unfold max_parse_value in Hs; lia].
Qed.

(* ---------- status ----------
   FULL intended statement (the decoder-image form of the two side conditions), NOT proved:

     forall s e : F64, in_lim64 s = true -> in_lim64 e = true ->
       spinner_time_ok s (f64_max_lit (D.sub e s) D.zero) /\
       hold_time_ok s (D.sub (D.max s e) s)

   i.e. with d = fl(e - s) clipped at 0:  fl(fl(s + d) - s) = d.  No counterexample among
   5.2e6 random binary64 pairs (decimal texts with 0-4 digits, and raw bit patterns with
   exponents 2^-20 .. 2^32, both signs), but the IEEE proof is not mechanised.  What IS false
   on the decoder's image is the OTHER side condition, [in_lim64 (D.add s d)]: see
   [decoded_end_beyond_limit_refuted] in Proofs/EncObjectsRT.v.
   Proved: the integer-valued case (all times of a map written in whole milliseconds): *)
Theorem decoded_times_ok_partial a b : Z.abs a < 2 ^ 53 -> 0 <= b < 2 ^ 53 -> Z.abs (a + b) < 2 ^ 53 ->
  spinner_time_ok (D.of_Z a) (D.of_Z b) /\ hold_time_ok (D.of_Z a) (D.of_Z b).
Proof. exact (int_times_ok a b). Qed.

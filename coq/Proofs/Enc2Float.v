(* Enc2Float: the numbers the encoder writes into a [TimingPoints] line from clamped values stay
   within the decoder's parse limits:
     - a beat length within its clamp [6, 60000] is within +-2147483647;
     - the beat-length field of an inherited line, -100 / sv with sv within [0.1, 10], is a
       finite number between -2^11 and -2^2 (round-to-nearest is monotone and powers of two
       are binary64 numbers, so no error analysis is needed), hence within the limits. *)
From RM Require Import Model.EncTimingSpec Proofs.TimingPointsValues Proofs.TPFloatFacts
     Proofs.SliderEventsMono Proofs.EncObjTimes.
From RM Require Import Gen.Generated.
From Flocq Require Import Core BinarySingleNaN.
From Coq Require Import Reals Lra Lia ZArith.
From RM Require Import Proofs.TickDistBound.
Open Scope R_scope.

Local Notation fin x := (is_finite x = true).
Local Notation fexp64 := (SpecFloat.fexp 53 1024).
Local Notation RN := (round radix2 fexp64 (round_mode mode_NE)).
Local Notation p2 := (bpow radix2).

Local Instance Hp64k : Prec_gt_0 53 := Hp64.
Local Instance He64k : Prec_lt_emax 53 1024 := He64.

(* a finite number whose real value is within the limits is within the limits *)
Lemma in_lim64_real (x : F64) :
  fin x -> - IZR max_parse_value <= B2R x <= IZR max_parse_value -> in_lim64 x = true.
Proof.
  intros Fx [H1 H2].
  assert (Hl : (Z.abs max_parse_value < 2 ^ 53)%Z) by (unfold max_parse_value; cbn; lia).
  assert (Xl : holds lim64 max_parse_value) by exact (of_Z_holds _ Hl).
  assert (Xm : holds (D.neg lim64) (- max_parse_value)) by (apply neg_holds; [exact Xl|discriminate]).
  destruct Xl as (Rl & Fl & _). destruct Xm as (Rm & Fm & _).
  unfold in_lim64.
  assert (Hn : D.is_nan x = false) by (destruct x; try discriminate Fx; reflexivity).
  rewrite Hn. cbn [negb andb].
  rewrite (Fle_le _ _ Fm Fx), (Fle_le _ _ Fx Fl); [reflexivity| |].
  - unfold Fle. rewrite Rl. exact H2.
  - unfold Fle. rewrite Rm, opp_IZR. exact H1.
Qed.

Lemma p2_le_limit (j : Z) : (j <= 30)%Z -> p2 j <= IZR max_parse_value.
Proof.
  intros Hj. apply Rle_trans with (p2 30); [apply bpow_le; exact Hj|].
  change (p2 30) with (IZR (2 ^ 30)). apply IZR_le. unfold max_parse_value. cbn. lia.
Qed.

(* a positive number below 2^30 *)
Lemma between_in_lim (i j : Z) (x : F64) : (j <= 30)%Z -> between i j x -> in_lim64 x = true.
Proof.
  intros Hj (Fx & H1 & H2). apply in_lim64_real; [exact Fx|].
  pose proof (bpow_gt_0 radix2 i) as Pi. pose proof (p2_le_limit j Hj) as Pj.
  assert (0 < IZR max_parse_value) by (apply (IZR_lt 0); unfold max_parse_value; lia).
  split; lra.
Qed.

Lemma beat_len_in_lim bl : in_range bl_lo bl_hi bl -> in_lim64 bl = true.
Proof. intros H. exact (between_in_lim 2 16 bl ltac:(lia) (bl_between bl H)). Qed.

Lemma RN_opp_p2 (i : Z) : (-1000 <= i <= 1000)%Z -> RN (- p2 i) = - p2 i.
Proof.
  intros Hi. apply round_generic; [apply valid_rnd_N|]. apply generic_format_opp. apply p2_format. exact Hi.
Qed.

(* -100 / sv for sv between 2^-4 and 2^4: finite, between -2^11 and -2^2 *)
Lemma m100_div_real (sv : F64) : between (-4) 4 sv ->
  fin (D.div f64_m100 sv) /\ - p2 11 <= B2R (D.div f64_m100 sv) <= - p2 2.
Proof.
  intros (Fs & S1 & S2).
  assert (H100 : holds f64_100 100) by (apply of_Z_holds; cbn; lia).
  assert (Hm : holds f64_m100 (-100)) by (apply (neg_holds _ 100); [exact H100|discriminate]).
  destruct Hm as (Rm & Fm & _).
  pose proof (bpow_gt_0 radix2 (-4)) as P4.
  assert (Hb : B2R sv <> 0) by lra.
  assert (E4 : p2 (-4) = / 16) by (cbn; lra).
  assert (E4' : p2 4 = 16) by (cbn; lra).
  assert (E11 : p2 11 = 2048) by (cbn; lra).
  assert (E2 : p2 2 = 4) by (cbn; lra).
  assert (P : - p2 11 <= B2R f64_m100 / B2R sv <= - p2 2).
  { rewrite Rm, E11, E2. rewrite E4 in S1. rewrite E4' in S2.
    change (IZR (-100)) with (-100). unfold Rdiv.
    assert (I1 : / 16 <= / B2R sv) by (apply Rinv_le_contravar; lra).
    assert (I2 : / B2R sv <= 16).
    { replace 16 with (/ / 16) by lra. apply Rinv_le_contravar; lra. }
    split; nra. }
  assert (B : - p2 11 <= RN (B2R f64_m100 / B2R sv) <= - p2 2).
  { destruct P as [P1 P2]. split.
    - rewrite <- (RN_opp_p2 11) by lia. apply RN_le. exact P1.
    - rewrite <- (RN_opp_p2 2) by lia. apply RN_le. exact P2. }
  assert (Hov : Rlt_bool (Rabs (RN (B2R f64_m100 / B2R sv))) (p2 1024) = true).
  { apply Rlt_bool_true. rewrite Rabs_left1 by (rewrite E2 in B; lra).
    apply Rle_lt_trans with (p2 11); [lra|]. apply bpow_lt. lia. }
  pose proof (Bdiv_correct 53 1024 Hp64 He64 mode_NE f64_m100 sv Hb) as H. cbv zeta in H.
  rewrite Hov in H. destruct H as (HR & HF & _).
  unfold D.div, fdiv. split.
  - rewrite HF. exact Fm.
  - rewrite HR. exact B.
Qed.

Lemma m100_div_in_lim sv : in_range sv_lo sv_hi sv -> in_lim64 (D.div f64_m100 sv) = true.
Proof.
  intros H. destruct (m100_div_real sv (sv_between sv H)) as (F & B1 & B2).
  apply in_lim64_real; [exact F|].
  pose proof (p2_le_limit 11 ltac:(lia)) as P. pose proof (bpow_gt_0 radix2 2) as P2.
  assert (0 < IZR max_parse_value) by (apply (IZR_lt 0); unfold max_parse_value; lia).
  split; lra.
Qed.

Print Assumptions m100_div_in_lim.

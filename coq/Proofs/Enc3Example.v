(* Enc3Example: non-vacuity of the whole-map theorem [round_trip_decoded_map]: a concrete decoded
   map with a circle, a slider, a spinner and a hold, a break and an inherited timing line lies
   outside every recorded class (boolean checkers, vm_compute on booleans / dumps only). *)
From RM Require Import Model.EncSpec Model.EncObjCarry Model.EncPathSpec Model.EncTimingSpec Proofs.EncFmt Proofs.EncTimingParse Proofs.ControlPointsFacts Proofs.EncSimple Proofs.EncRound
     Proofs.EncImage Proofs.EncObjectsRT Proofs.Enc2Samples Proofs.Enc2Timing Proofs.Enc2Slider Proofs.Enc2Examples
     Proofs.Enc2SampleShape Proofs.Enc3Objects Proofs.Enc3Map Model.DrvEnc.
From RM Require Model.Curve.
From RM Require Import Gen.Generated.
From RM Require Proofs.Enc3Chrono.
From Coq Require Import ZifyBool Lia.
Open Scope Z_scope.

(* the classes of one object, as a boolean *)
Definition obj_classes_b (lm : Curve.Libm) (mode : Z) (h : HitObject) : bool :=
  match h_kind h with
  | KCircle _ => negb (d30_class h)
  | KSpinner s =>
      negb (d30_class h) && negb (d26_class h) &&
      f64_eqb (f64_max_lit (D.sub (D.add (h_start h) (sp_duration s)) (h_start h)) D.zero) (sp_duration s)
  | KHold hd =>
      negb (d30_class h) && negb (d26_class h) &&
      f64_eqb (D.sub (D.max (h_start h) (D.add (h_start h) (hd_duration hd))) (h_start h)) (hd_duration hd)
  | KSlider s =>
      match slider_curve lm s with
      | Done c => slider_ok h s (written_of (sl_expected_dist s) c) && (sl_mode s =? mode)
      | _ => false
      end
  end.

Lemma obj_classes_b_ok lm mode h : obj_classes_b lm mode h = true -> obj_classes lm mode h.
Proof.
  unfold obj_classes_b, obj_classes. destruct (h_kind h) as [c|s|s|hd]; intros H.
  - apply negb_true_iff in H. exact H.
  - destruct (slider_curve lm s) as [c| |]; try discriminate. apply andb_true_iff in H. destruct H as [H1 H2].
    exists c. split; [reflexivity|]. split; [exact H1|]. apply Z.eqb_eq. exact H2.
  - apply andb_true_iff in H. destruct H as [H H3]. apply andb_true_iff in H. destruct H as [H1 H2].
    apply negb_true_iff in H1. apply negb_true_iff in H2. split; [exact H1|]. split; [exact H2|].
    unfold spinner_time_ok. apply f64_eqb_eq. exact H3.
  - apply andb_true_iff in H. destruct H as [H H3]. apply andb_true_iff in H. destruct H as [H1 H2].
    apply negb_true_iff in H1. apply negb_true_iff in H2. split; [exact H1|]. split; [exact H2|].
    unfold hold_time_ok. apply f64_eqb_eq. exact H3.
Qed.

Definition objects_classes_b (lm : Curve.Libm) (m : BeatmapV) : bool :=
  let h := bmv_ho m in
  forallb (obj_classes_b lm (g_mode (hov_general h))) (hov_hit_objects h) &&
  combo_chain (ev_breaks (hov_events h)) true (hov_hit_objects h).

Lemma objects_classes_b_ok lm m : objects_classes_b lm m = true -> objects_classes lm m.
Proof.
  unfold objects_classes_b, objects_classes. cbv zeta. intros H. apply andb_true_iff in H. destruct H as [H1 H2].
  split; [|exact H2]. apply Forall_forall. intros h Hh. rewrite forallb_forall in H1. exact (obj_classes_b_ok lm _ h (H1 h Hh)).
Qed.

(* a circle, a slider (new combo: first object after the break), a spinner and a hold *)
Definition all_kinds_text : str :=
  join_lines ["osu file format v14"; "[General]"; "Mode: 0"; "[Difficulty]"; "SliderMultiplier: 1.4";
              "[Events]"; "2,1500,1900";
              "[TimingPoints]"; "0,500,4,1,0,100,1,0"; "1000,-50,4,1,0,60,0,1";
              "[HitObjects]";
              "64,192,1000,5,2,0:0:0:0:";
              "100,100,2000,6,0,L|200:100,1,100";
              "256,192,3000,12,4,4000,3:1:0:0:";
              "100,192,5000,128,8,5500:0:2:0:0:b.wav"]%string.

Lemma all_kinds_facts :
  match decode_beatmap (dist_real lm0) (lines_of_text all_kinds_text) with
  | Done m =>
      match enc_control_points (dist_real lm0) events_real m with
      | Done c =>
          forallb (fun l => negb (memb ch_lf l)) (lines_of_text all_kinds_text) = true /\
          d23_class m = false /\
          rt_classes (g_mode (hov_general (bmv_ho m))) c = true /\
          objects_classes_b lm0 m = true /\
          map (fun h => kind_tag (h_kind h)) (hov_hit_objects (bmv_ho m)) = [0; 1; 2; 3] /\
          match encode_lines (dist_real lm0) events_real m with Done ls => length ls = 48%nat | _ => False end
      | _ => False
      end
  | _ => False
  end.
Proof. vm_compute. repeat split; reflexivity. Qed.

(* the hypotheses of [round_trip_decoded_map] are satisfiable, and so its conclusion holds of this map *)
Theorem all_kinds_round_trip :
  forall fmt_f64 fmt_f32 fmt_int, fmt_ok fmt_f64 fmt_f32 fmt_int -> no_leading_zero fmt_int -> fmt_f32_int fmt_f32 fmt_int ->
  exists m c ls,
    decode_beatmap (dist_real lm0) (lines_of_text all_kinds_text) = Done m /\
    enc_control_points (dist_real lm0) events_real m = Done c /\
    encode_lines (dist_real lm0) events_real m = Done ls /\
    d23_class m = false /\ rt_classes (g_mode (hov_general (bmv_ho m))) c = true /\ objects_classes lm0 m /\
    map (fun h => kind_tag (h_kind h)) (hov_hit_objects (bmv_ho m)) = [0; 1; 2; 3] /\
    forall dist2 m2, decode_beatmap dist2 (map (render fmt_f64 fmt_f32 fmt_int) ls) = Done m2 ->
      let c0 := hov_control_points (bmv_ho m) in
      let c2 := hov_control_points (bmv_ho m2) in
      (bmv_version m2 = bmv_version m /\
       hov_general (bmv_ho m2) = hov_general (bmv_ho (read_back m)) /\
       bmv_editor m2 = bmv_editor (read_back m) /\
       bmv_metadata m2 = bmv_metadata (read_back m) /\
       hov_difficulty (bmv_ho m2) = hov_difficulty (bmv_ho (read_back m)) /\
       hov_events (bmv_ho m2) = hov_events (bmv_ho (read_back m)) /\
       bmv_colors m2 = bmv_colors (read_back m)) /\
      (cp_timing c2 = cp_timing c0 /\
       (forall t, sv_at c2 t = sv_at c0 t) /\
       (forall t, kiai_at c2 t = kiai_at c0 t) /\
       (forall t, scroll_at c2 t = scroll_at c0 t)) /\
      Forall2 (final_rel_decoded lm0) (hov_hit_objects (bmv_ho m)) (hov_hit_objects (bmv_ho m2)).
Proof.
  intros f64 f32 fi Hfmt Hlead H32. pose proof all_kinds_facts as W.
  destruct (decode_beatmap (dist_real lm0) (lines_of_text all_kinds_text)) as [m| |] eqn:Ed; try contradiction.
  destruct (enc_control_points (dist_real lm0) events_real m) as [c| |] eqn:Ec; try contradiction.
  destruct W as (Wl & W23 & Wrt & Wobj & Wk & We).
  destruct (encode_lines (dist_real lm0) events_real m) as [ls| |] eqn:Ee; try contradiction.
  exists m, c, ls. repeat (split; [first [reflexivity|assumption|exact (objects_classes_b_ok lm0 m Wobj)]|]).
  assert (Hl : Forall no_lf_line (lines_of_text all_kinds_text)).
  { unfold no_lf_line. apply Forall_forall. intros l Hin. rewrite forallb_forall in Wl. specialize (Wl l Hin).
    apply Bool.negb_true_iff in Wl. exact Wl. }
  intros dist2 m2 Hd2.
  exact (round_trip_decoded_map lm0 f64 f32 fi Hfmt Hlead H32 events_real _ m c ls dist2 m2 Hl Ed W23 Ec Wrt
           (objects_classes_b_ok lm0 m Wobj) Ee Hd2).
Qed.

(* the node clause of [final_rel] is not vacuous: the nodes of the example's slider are in the
   decoder's image and carry no file name, and there are repeat_count + 2 of them *)
Definition nodes_facts (h : HitObject) : list Z :=
  match h_kind h with
  | KSlider s =>
      [Z.of_nat (length (sl_node_samples s)); sl_repeat_count s + 2;
       if forallb (fun l => samples_image l && match first_file l with None => true | Some _ => false end) (sl_node_samples s) then 1 else 0;
       if samples_image (h_samples h) && match first_file (h_samples h) with None => true | Some _ => false end then 1 else 0]
  | _ => []
  end.
Lemma all_kinds_nodes :
  match decode_beatmap (dist_real lm0) (lines_of_text all_kinds_text) with
  | Done m => map nodes_facts (hov_hit_objects (bmv_ho m)) = [[]; [2; 2; 1; 1]; []; []]
  | _ => False
  end.
Proof. vm_compute. reflexivity. Qed.

(* the example file's hit-object lines are chronological *)
Definition sortedb (l : list Z) : bool :=
  (fix go (l : list Z) : bool := match l with a :: ((b :: _) as t) => (a <=? b) && go t | _ => true end) l.
Lemma sortedb_sorted l : sortedb l = true -> Sorted.StronglySorted Z.le l.
Proof.
  intros H. apply Sorted.Sorted_StronglySorted; [intros x y z; lia|].
  induction l as [|a r IH]; [constructor|]. constructor.
  - apply IH. destruct r as [|b t]; [reflexivity|]. cbn in H. apply andb_true_iff in H. exact (proj2 H).
  - destruct r as [|b t]; constructor. cbn in H. apply andb_true_iff in H. lia.
Qed.
Lemma all_kinds_chronological : sortedb (map start_key (Enc3Chrono.raw_objects (lines_of_text all_kinds_text))) = true.
Proof. vm_compute. reflexivity. Qed.

(* BezierIEEECurve: Curve::new returns a value for bounded control points.

   calculate_path hands contiguous slices `vertices[start..=i]` of the
   control points to the sub-path routines; a slice of a list of covered points
   ([BezierIEEE.point_ok E]) with n * 2^E <= 2^22 is again such a list,
   so every Bezier subdivision it starts returns within the pinned fuel
   ([BezierIEEETight.T01g_ieee_bounded_tight]); with an atan2 that has its values in
   [-PI, PI] the theta loop returns as well (Proofs/ThetaLoop.v), and nothing
   else in the curve can run out of fuel or panic (Proofs/CurveNoPanic.v, whose
   induction over calculate_path is repeated here with the slice invariant). *)
From RM Require Import Model.ControlPoints Model.Curve Gen.Generated
     Proofs.BezierRefine Proofs.PathFacts Proofs.LengthFacts Proofs.CurveRefine
     Proofs.CurveNoPanic Proofs.ThetaLoop Proofs.BezierIEEE Proofs.BezierIEEETight.
Require Import ZifyBool Lia.
Open Scope nat_scope.

Section PathQ.
  Context {B : Type}.
  Variable bezier : list Pos -> list Pos -> B -> outcome (list Pos * B).
  Variable lm : Libm.
  Variable f : bool.
  Variable Inv : B -> Prop.
  (* the slices the sub-path routines may be called on *)
  Variable Q : list Pos -> Prop.
  Hypothesis Q_slice : forall verts a b, Q verts -> Q (firstn a (skipn b verts)).
  Hypothesis bezier_good : forall path sub b, Inv b -> sub <> [] -> Q sub ->
    good f (bezier path sub b) /\ forall path' b', bezier path sub b = Done (path', b') -> Inv b'.
  Hypothesis arc_good : forall a b c, good f (circular_arc_properties lm a b c).

  Lemma bez3_goodQ path sub opt b : Inv b -> sub <> [] -> Q sub -> good3 f Inv (bez3 bezier path sub opt b).
  Proof.
    intros Hb Hne HQ. destruct (bezier_good path sub b Hb Hne HQ) as [Hg Hi]. unfold bez3.
    destruct (bezier path sub b) as [[path' b']| |]; cbn [obind].
    - apply good3_done. exact (Hi _ _ eq_refl).
    - contradiction.
    - split; [exact Hg|discriminate].
  Qed.

  Lemma calculate_subpath_goodQ osu path sub kind opt b : Inv b -> sub <> [] -> Q sub ->
    good3 f Inv (calculate_subpath bezier lm osu path sub kind opt b).
  Proof.
    intros Hb Hne HQ. unfold calculate_subpath. destruct kind.
    - destruct (approximate_catmull_done sub Hne) as (cat & ->). cbn [obind].
      destruct (negb osu); [apply good3_done; exact Hb|].
      destruct (catmull_simplify cat opt) as [kept opt']. apply good3_done; exact Hb.
    - apply bez3_goodQ; assumption.
    - apply good3_done; exact Hb.
    - destruct sub as [|a [|m [|c [|x t]]]]; try (apply bez3_goodQ; assumption).
      pose proof (approximate_circular_arc_good lm f arc_good a m c) as Ha.
      destruct (approximate_circular_arc lm a m c) as [[arc|]| |]; cbn [obind].
      + apply good3_done; exact Hb.
      + apply bez3_goodQ; assumption.
      + contradiction.
      + split; [exact Ha|discriminate].
  Qed.

  Lemma cpath_loop_goodQ k : forall i start n osu pts verts path opt b,
    Inv b -> Q verts -> i + k = n -> start <= i -> length pts = n -> length verts = n ->
    good3 f Inv (cpath_loop bezier lm k i start n osu pts verts path opt b).
  Proof.
    induction k as [|k IH]; intros i start n osu pts verts path opt b Hb HQ Hik Hsi Hp Hv; cbn [cpath_loop].
    - apply good3_done; exact Hb.
    - destruct (aget_lt pts i ltac:(lia)) as (cp & ->). cbn [obind].
      destruct ((match pc_type cp with None => true | Some _ => false end) && Nat.ltb i (n - 1))%bool.
      + apply IH; try assumption; lia.
      + replace (Nat.ltb i start || Nat.leb (length verts) i)%bool with false.
        2:{ symmetry. apply Bool.orb_false_iff. split; [apply Nat.ltb_ge; lia|apply Nat.leb_gt; lia]. }
        assert (Hlen : length (firstn (S i - start) (skipn start verts)) = S i - start).
        { rewrite firstn_length, skipn_length. lia. }
        pose proof (Q_slice verts (S i - start) start HQ) as HQs.
        destruct (firstn (S i - start) (skipn start verts)) as [|v [|v2 t]] eqn:Eseg.
        * cbn [length] in Hlen. lia.
        * apply IH; try assumption; lia.
        * destruct (aget_lt pts start ltac:(lia)) as (cps & ->). cbn [obind].
          pose proof (calculate_subpath_goodQ osu path (v :: v2 :: t)
                        (match pc_type cps with None => Linear | Some t0 => t0 end) opt b Hb
                        ltac:(discriminate) HQs) as [Hg Hi].
          destruct (calculate_subpath bezier lm osu path (v :: v2 :: t) _ opt b) as [[[path' opt'] b']| |];
            cbn [obind].
          -- apply IH; try lia; try assumption. exact (Hi _ _ _ eq_refl).
          -- contradiction.
          -- split; [exact Hg|discriminate].
  Qed.
End PathQ.

(* ---------- the slices of covered control points ---------- *)

Definition covered (E : Z) (sub : list Pos) : Prop :=
  Forall (point_ok E) sub /\ (Z.of_nat (length sub) * 2 ^ E <= 2 ^ 22)%Z.

Lemma Forall_firstn {A} (P : A -> Prop) n : forall l, Forall P l -> Forall P (firstn n l).
Proof.
  induction n as [|n IH]; intros l H; [constructor|].
  destruct H as [|x l Hx Hl]; [constructor|]. cbn [firstn]. constructor; [exact Hx|apply IH; exact Hl].
Qed.

Lemma Forall_skipn {A} (P : A -> Prop) n : forall l, Forall P l -> Forall P (skipn n l).
Proof.
  induction n as [|n IH]; intros l H; [exact H|].
  destruct H as [|x l Hx Hl]; [constructor|]. cbn [skipn]. apply IH; exact Hl.
Qed.

Lemma covered_slice E verts a b : (0 <= E)%Z -> covered E verts -> covered E (firstn a (skipn b verts)).
Proof.
  intros HE [HF HK]. split; [apply Forall_firstn, Forall_skipn, HF|].
  assert (Hl : length (firstn a (skipn b verts)) <= length verts)
    by (rewrite firstn_length, skipn_length; lia).
  assert (0 < 2 ^ E)%Z by (apply Z.pow_pos_nonneg; lia).
  assert (Z.of_nat (length (firstn a (skipn b verts))) <= Z.of_nat (length verts))%Z by lia.
  nia.
Qed.

(* Curve::new / BorrowedCurve::new at the pure level: a value *)
Theorem curve_L1_bounded lm mode pts e E :
  atan2_in_range lm -> (0 <= E)%Z ->
  (Z.of_nat (length pts) * 2 ^ E <= 2 ^ 22)%Z ->
  Forall (fun p => point_ok E (pc_pos p)) pts ->
  exists c, curve_L1 lm bezier_fuel mode pts e = Done c.
Proof.
  intros Hlm HE HK Hok. apply good_false_iff.
  unfold curve_L1. apply good_obind.
  2:{ intros [path opt] _. destruct (calculate_length_done path e opt) as ([path' lens] & ->). exact I. }
  unfold calculate_path_L1. destruct pts as [|p0 pt]; [exact I|].
  set (pts := p0 :: pt) in *.
  assert (H : @good3 unit false (fun _ => True)
                (cpath_loop (approximate_bezier_L1 bezier_fuel) lm (length pts) 0 0 (length pts) (is_osu mode)
                   pts (map pc_pos pts) [] D.zero tt)).
  { apply (cpath_loop_goodQ _ lm false (fun _ => True) (covered E)); try lia; try exact I.
    - intros verts a b. apply covered_slice. exact HE.
    - intros path sub [] _ Hne [HF HKs]. split; [|auto].
      apply good_false_iff.
      destruct (T01g_ieee_bounded_tight E path sub HE HKs Hne HF) as (p' & ->). eauto.
    - intros a b c. apply good_false_iff. apply circular_arc_properties_done. exact Hlm.
    - split; [apply Forall_map; exact Hok|]. rewrite map_length. exact HK.
    - apply map_length. }
  destruct H as [H _]. apply good_obind; [exact H|].
  intros [[path opt] u] _. exact I.
Qed.

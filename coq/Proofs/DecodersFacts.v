(* DecodersFacts: the nine decoder instantiations of Model/Decoders.v against
   each other (C07).

   Every specialised decoder is related to the full Beatmap decoder by a
   simulation between the nested parser states (Proofs/FramingFacts.v,
   [driver_simulation]): the relation holds of the two [create]s, is preserved
   by each of the eleven parse_* pairs, and is carried by the finishing
   conversions to the statement about the decoded values.  All statements are
   for every [dist_of] (the slider-curve distance, a parameter of the
   HitObjects / Beatmap finishing step). *)
From RM Require Import Model.Decoders Proofs.FramingFacts.
Open Scope Z_scope.

(* ------------------------------------------------------------------ *)
(* all nine decoders keep the default should_skip_line                  *)

Lemma skip_simple : forall S sec (p : S -> str -> S * res) l,
  skip (simple_parsers sec p) l = should_skip_line l.
Proof. reflexivity. Qed.
Lemma skip_tp : forall l, skip tp_parsers l = should_skip_line l.
Proof. reflexivity. Qed.
Lemma skip_ho : forall l, skip ho_parsers l = should_skip_line l.
Proof. reflexivity. Qed.
Lemma skip_bm : forall l, skip bm_parsers l = should_skip_line l.
Proof. reflexivity. Qed.

(* ------------------------------------------------------------------ *)
(* small facts about the state views                                    *)

Lemma tpd_with_general_id : forall s, tpd_with_general s (tpd_general s) = s.
Proof. intros []. reflexivity. Qed.
Lemma tpd_with_core_id : forall s, tpd_with_core s (tpd_core s) = s.
Proof. intros []. reflexivity. Qed.
Lemma hod_with_tp_id : forall s, hod_with_tp s (hod_tp s) = s.
Proof. intros []. reflexivity. Qed.
Lemma hod_with_core_id : forall s, hod_with_core s (hod_core s) = s.
Proof. intros []. reflexivity. Qed.

(* ------------------------------------------------------------------ *)
(* stepping tactic: expose the inner section parser call of a decoder's
   parse_* wrapper and case on its result.  The eight inner parsers
   (parse_general .. parse_hit_objects) are never unfolded. *)

Ltac unwrap :=
  unfold liftp, liftt, on_ho, noop,
         bmd_parse_editor, bmd_parse_metadata, bmd_parse_colors,
         hod_parse_general, hod_parse_difficulty, hod_parse_events,
         hod_parse_timing_points, hod_parse_hit_objects,
         tpd_parse_general, tpd_parse_timing_points in *;
  cbn [obind fst snd] in *.

Ltac case_inner :=
  match goal with
  | |- context [parse_general ?a ?b] => destruct (parse_general a b) as [? ?] eqn:?
  | |- context [parse_editor ?a ?b] => destruct (parse_editor a b) as [? ?] eqn:?
  | |- context [parse_metadata ?a ?b] => destruct (parse_metadata a b) as [? ?] eqn:?
  | |- context [parse_difficulty ?a ?b] => destruct (parse_difficulty a b) as [? ?] eqn:?
  | |- context [parse_events ?a ?b] => destruct (parse_events a b) as [? ?] eqn:?
  | |- context [parse_colors ?a ?b] => destruct (parse_colors a b) as [? ?] eqn:?
  | |- context [parse_timing_points ?a ?b] => destruct (parse_timing_points a b) as [[? ?]| |] eqn:?
  | |- context [parse_hit_objects ?a ?b] => destruct (parse_hit_objects a b) as [[? ?]| |] eqn:?
  end;
  cbn [obind fst snd].

Ltac proj_simpl :=
  cbn [bmd_version bmd_editor bmd_metadata bmd_colors bmd_ho
       hod_tp hod_difficulty hod_events hod_last hod_curve hod_vertices hod_objects
       hod_with_tp hod_with_core
       tpd_general tpd_time tpd_pt tpd_pd tpd_pe tpd_ps tpd_cp
       tpd_with_general tpd_with_core] in *.

(* the parser of section [sec] in each record, as a term the tactics above can
   work on *)
Ltac open_parsers :=
  cbn [parser_of bm_parsers ho_parsers tp_parsers simple_parsers
       p_general p_editor p_metadata p_difficulty p_events p_timing_points
       p_colors p_hit_objects p_variables p_catch_the_beat p_mania] in *.

(* ------------------------------------------------------------------ *)
(* what the Beatmap value is, in terms of the final parser state        *)

Section WithDist.
  Variable dist_of : Z -> list PCP -> option F64 -> outcome F64.

  Lemma hod_finish_inv : forall s hv,
    hod_finish dist_of s = Done hv ->
    hov_general hv = tpd_general (hod_tp s) /\
    hov_difficulty hv = hod_difficulty s /\
    hov_events hv = hod_events s /\
    tp_finish (tpd_core (hod_tp s)) = Done (hov_control_points hv) /\
    finish_hit_objects dist_of (hov_control_points hv) (ev_breaks (hod_events s))
      (d_slider_multiplier (hod_difficulty s)) (g_mode (tpd_general (hod_tp s)))
      (hod_objects s) = Done (hov_hit_objects hv).
  Proof.
    intros s hv. unfold hod_finish, tpd_finish.
    destruct (tp_finish (tpd_core (hod_tp s))) as [c| |]; cbn [obind]; try discriminate.
    cbn [tpv_general tpv_control_points].
    destruct (finish_hit_objects dist_of c _ _ _ _) as [objs| |] eqn:Ef; cbn [obind]; try discriminate.
    intros [= <-]. cbn. repeat split; try reflexivity. exact Ef.
  Qed.

  Lemma bmd_finish_inv : forall s bv,
    bmd_finish dist_of s = Done bv ->
    bmv_version bv = bmd_version s /\ bmv_editor bv = bmd_editor s /\
    bmv_metadata bv = bmd_metadata s /\ bmv_colors bv = bmd_colors s /\
    hod_finish dist_of (bmd_ho s) = Done (bmv_ho bv).
  Proof.
    intros s bv. unfold bmd_finish.
    destruct (hod_finish dist_of (bmd_ho s)) as [h| |]; cbn [obind]; try discriminate.
    intros [= <-]. cbn. repeat split; reflexivity.
  Qed.

  (* ---------------------------------------------------------------- *)
  (* the six single-section decoders                                    *)

  (* relation: component [comp] of a (non-panicked) Beatmap state is the
     specialised decoder's state *)
  Definition Rcomp {G} (comp : BMD -> G) (os : outcome BMD) (g : G) : Prop :=
    match os with Done s => comp s = g | _ => True end.

  Ltac sim_simple :=
    intros sec [s|w|] g l HR; [|destruct sec; exact I ..];
    cbn [Rcomp] in HR; subst g;
    destruct sec; open_parsers; unwrap; repeat case_inner; cbn [Rcomp]; proj_simpl;
    try reflexivity; try exact I.

  Lemma sim_general : forall sec os g l,
    Rcomp (fun s => tpd_general (hod_tp (bmd_ho s))) os g ->
    Rcomp (fun s => tpd_general (hod_tp (bmd_ho s)))
          (fst (parser_of bm_parsers sec os l))
          (fst (parser_of (simple_parsers SecGeneral parse_general) sec g l)).
  Proof. sim_simple. Qed.

  Lemma sim_editor : forall sec os g l,
    Rcomp bmd_editor os g ->
    Rcomp bmd_editor (fst (parser_of bm_parsers sec os l))
          (fst (parser_of (simple_parsers SecEditor parse_editor) sec g l)).
  Proof. sim_simple. Qed.

  Lemma sim_metadata : forall sec os g l,
    Rcomp bmd_metadata os g ->
    Rcomp bmd_metadata (fst (parser_of bm_parsers sec os l))
          (fst (parser_of (simple_parsers SecMetadata parse_metadata) sec g l)).
  Proof. sim_simple. Qed.

  Lemma sim_difficulty : forall sec os g l,
    Rcomp (fun s => hod_difficulty (bmd_ho s)) os g ->
    Rcomp (fun s => hod_difficulty (bmd_ho s)) (fst (parser_of bm_parsers sec os l))
          (fst (parser_of (simple_parsers SecDifficulty parse_difficulty) sec g l)).
  Proof. sim_simple. Qed.

  Lemma sim_events : forall sec os g l,
    Rcomp (fun s => hod_events (bmd_ho s)) os g ->
    Rcomp (fun s => hod_events (bmd_ho s)) (fst (parser_of bm_parsers sec os l))
          (fst (parser_of (simple_parsers SecEvents parse_events) sec g l)).
  Proof. sim_simple. Qed.

  Lemma sim_colors : forall sec os g l,
    Rcomp bmd_colors os g ->
    Rcomp bmd_colors (fst (parser_of bm_parsers sec os l))
          (fst (parser_of (simple_parsers SecColors parse_colors) sec g l)).
  Proof. sim_simple. Qed.

  (* the shape shared by the six theorems *)
  Lemma simple_agrees : forall G (comp : BMD -> G) (proj : BeatmapV -> G) (dflt : G)
      (ps : parsers G),
    (forall v, comp (bmd_create v) = dflt) ->
    (forall l, skip ps l = should_skip_line l) ->
    (forall sec os g l, Rcomp comp os g ->
       Rcomp comp (fst (parser_of bm_parsers sec os l)) (fst (parser_of ps sec g l))) ->
    (forall s bv, bmd_finish dist_of s = Done bv -> proj bv = comp s) ->
    forall lines bv,
    decode_beatmap dist_of lines = Done bv ->
    proj bv = driver (fun _ => dflt) ps (fun s => s) lines.
  Proof.
    intros G comp proj dflt ps Hc Hs Hp Hf lines.
    unfold decode_beatmap.
    apply (driver_simulation _ _ _ _ (Rcomp comp)
             (fun (ob : outcome BeatmapV) (g : G) => forall bv, ob = Done bv -> proj bv = g)).
    - intros v. cbn [Rcomp]. apply Hc.
    - intros l. rewrite Hs. reflexivity.
    - exact Hp.
    - intros [s|w|] g HR bv; cbn [obind]; try discriminate.
      intros Hb. cbn [Rcomp] in HR. subst g. apply (Hf s bv Hb).
  Qed.

  Theorem beatmap_general : forall lines bv,
    decode_beatmap dist_of lines = Done bv ->
    hov_general (bmv_ho bv) = decode_general lines.
  Proof.
    apply (simple_agrees _ (fun s => tpd_general (hod_tp (bmd_ho s)))
             (fun bv => hov_general (bmv_ho bv))).
    - reflexivity.
    - reflexivity.
    - exact sim_general.
    - intros s bv Hb. destruct (bmd_finish_inv s bv Hb) as (_ & _ & _ & _ & Hh).
      destruct (hod_finish_inv _ _ Hh) as (Hg & _). exact Hg.
  Qed.

  Theorem beatmap_editor : forall lines bv,
    decode_beatmap dist_of lines = Done bv -> bmv_editor bv = decode_editor lines.
  Proof.
    apply (simple_agrees _ bmd_editor bmv_editor).
    - reflexivity.
    - reflexivity.
    - exact sim_editor.
    - intros s bv Hb. destruct (bmd_finish_inv s bv Hb) as (_ & He & _). exact He.
  Qed.

  Theorem beatmap_metadata : forall lines bv,
    decode_beatmap dist_of lines = Done bv -> bmv_metadata bv = decode_metadata lines.
  Proof.
    apply (simple_agrees _ bmd_metadata bmv_metadata).
    - reflexivity.
    - reflexivity.
    - exact sim_metadata.
    - intros s bv Hb. destruct (bmd_finish_inv s bv Hb) as (_ & _ & Hm & _). exact Hm.
  Qed.

  Theorem beatmap_difficulty : forall lines bv,
    decode_beatmap dist_of lines = Done bv ->
    hov_difficulty (bmv_ho bv) = decode_difficulty lines.
  Proof.
    apply (simple_agrees _ (fun s => hod_difficulty (bmd_ho s))
             (fun bv => hov_difficulty (bmv_ho bv))).
    - reflexivity.
    - reflexivity.
    - exact sim_difficulty.
    - intros s bv Hb. destruct (bmd_finish_inv s bv Hb) as (_ & _ & _ & _ & Hh).
      destruct (hod_finish_inv _ _ Hh) as (_ & Hd & _). exact Hd.
  Qed.

  Theorem beatmap_events : forall lines bv,
    decode_beatmap dist_of lines = Done bv ->
    hov_events (bmv_ho bv) = decode_events lines.
  Proof.
    apply (simple_agrees _ (fun s => hod_events (bmd_ho s))
             (fun bv => hov_events (bmv_ho bv))).
    - reflexivity.
    - reflexivity.
    - exact sim_events.
    - intros s bv Hb. destruct (bmd_finish_inv s bv Hb) as (_ & _ & _ & _ & Hh).
      destruct (hod_finish_inv _ _ Hh) as (_ & _ & He & _). exact He.
  Qed.

  Theorem beatmap_colors : forall lines bv,
    decode_beatmap dist_of lines = Done bv -> bmv_colors bv = decode_colors lines.
  Proof.
    apply (simple_agrees _ bmd_colors bmv_colors).
    - reflexivity.
    - reflexivity.
    - exact sim_colors.
    - intros s bv Hb. destruct (bmd_finish_inv s bv Hb) as (_ & _ & _ & Hc & _). exact Hc.
  Qed.

  (* ---------------------------------------------------------------- *)
  (* TimingPoints                                                       *)

  (* a Beatmap state that has not panicked carries the TimingPoints state *)
  Definition Rtp (os : outcome BMD) (ot : outcome TPD) : Prop :=
    match os with Done s => ot = Done (hod_tp (bmd_ho s)) | _ => True end.

  Lemma sim_tp : forall sec os ot l,
    Rtp os ot ->
    Rtp (fst (parser_of bm_parsers sec os l)) (fst (parser_of tp_parsers sec ot l)).
  Proof.
    intros sec [s|w|] ot l HR; [|destruct sec; exact I ..].
    cbn [Rtp] in HR; subst ot.
    destruct sec; open_parsers; unwrap; repeat case_inner; cbn [Rtp]; proj_simpl;
      try reflexivity; try exact I.
  Qed.

  Theorem beatmap_timing_points : forall lines bv,
    decode_beatmap dist_of lines = Done bv ->
    decode_timing_points lines =
    Done (mkTPV (hov_general (bmv_ho bv)) (hov_control_points (bmv_ho bv))).
  Proof.
    intros lines. unfold decode_beatmap, decode_timing_points.
    apply (driver_simulation _ _ _ _ Rtp
             (fun (ob : outcome BeatmapV) (ot : outcome TimingPointsV) =>
                forall bv, ob = Done bv ->
                ot = Done (mkTPV (hov_general (bmv_ho bv)) (hov_control_points (bmv_ho bv))))).
    - intros v. reflexivity.
    - reflexivity.
    - exact sim_tp.
    - intros [s|w|] ot HR bv; cbn [obind]; try discriminate.
      intros Hb. cbn [Rtp] in HR. subst ot. cbn [obind].
      destruct (bmd_finish_inv s bv Hb) as (_ & _ & _ & _ & Hh).
      destruct (hod_finish_inv _ _ Hh) as (Hg & _ & _ & Hc & _).
      unfold tpd_finish. rewrite Hc. cbn [obind]. rewrite Hg. reflexivity.
  Qed.

  (* ---------------------------------------------------------------- *)
  (* HitObjects: an exact relation, panics included — the three parsers
     Beatmap adds (editor, metadata, colours) cannot panic                *)

  Definition ho_of (os : outcome BMD) : outcome HOD := obind os (fun s => Done (bmd_ho s)).

  Lemma sim_ho : forall sec os oh l,
    oh = ho_of os ->
    fst (parser_of ho_parsers sec oh l) = ho_of (fst (parser_of bm_parsers sec os l)).
  Proof.
    intros sec [s|w|] oh l ->; [|destruct sec; reflexivity ..].
    cbn [ho_of obind].
    destruct sec; open_parsers; unwrap; repeat case_inner; cbn [ho_of obind]; proj_simpl;
      reflexivity.
  Qed.

  Theorem beatmap_hit_objects : forall lines,
    decode_hit_objects dist_of lines =
    obind (decode_beatmap dist_of lines) (fun bv => Done (bmv_ho bv)).
  Proof.
    intros lines. unfold decode_beatmap, decode_hit_objects.
    apply (driver_simulation _ _ _ _ (fun oh os => oh = ho_of os)
             (fun (oh : outcome HitObjectsV) (ob : outcome BeatmapV) =>
                oh = obind ob (fun bv => Done (bmv_ho bv)))).
    - intros v. reflexivity.
    - reflexivity.
    - intros sec oh os l H. apply sim_ho. exact H.
    - intros oh [s|w|] ->; cbn [ho_of obind]; try reflexivity.
      unfold bmd_finish. destruct (hod_finish dist_of (bmd_ho s)); reflexivity.
  Qed.

  Corollary beatmap_hit_objects_done : forall lines bv,
    decode_beatmap dist_of lines = Done bv ->
    decode_hit_objects dist_of lines = Done (bmv_ho bv).
  Proof. intros lines bv H. rewrite beatmap_hit_objects, H. reflexivity. Qed.

  (* the converse for HitObjects: it completes exactly when Beatmap does *)
  Corollary hit_objects_done_beatmap : forall lines hv,
    decode_hit_objects dist_of lines = Done hv ->
    exists bv, decode_beatmap dist_of lines = Done bv /\ bmv_ho bv = hv.
  Proof.
    intros lines hv. rewrite beatmap_hit_objects.
    destruct (decode_beatmap dist_of lines) as [bv| |]; cbn [obind]; try discriminate.
    intros [= <-]. exists bv. split; reflexivity.
  Qed.
End WithDist.
